/-
  The exact forward transform is the evaluation map at the odd powers of the root, in bit-reversed order:
     exNtt w k g j = Σ_{i < 2^k} g_i * w^(i * (2 * brev_k j + 1))        (given w^(2^k) = -1)
  and therefore turns the negacyclic convolution into the pointwise product.
-/
import SpqProofs.Lemmas.NttRefine
import Mathlib.Algebra.BigOperators.Intervals
import Mathlib.Algebra.BigOperators.Ring.Finset

namespace Spq.Q120Ntt
open Finset

/-- bit reversal of the `t` low bits of `c` -/
def brev : Nat → Nat → Nat
  | 0, _ => 0
  | t+1, c => 2 ^ t * (c % 2) + brev t (c / 2)

theorem brev_lt (t c : Nat) : brev t c < 2 ^ t := by
  induction t generalizing c with
  | zero => simp [brev]
  | succ t ih =>
    have := ih (c / 2)
    have h2 : c % 2 < 2 := Nat.mod_lt _ (by norm_num)
    have : 2 ^ t * (c % 2) ≤ 2 ^ t * 1 := Nat.mul_le_mul_left _ (by omega)
    simp only [brev, pow_succ]; omega

variable {K : Type} [CommRing K]

theorem sum_range_double (F : Nat → K) (T : Nat) :
    ∑ s ∈ range (2 * T), F s = ∑ s ∈ range T, (F (2 * s) + F (2 * s + 1)) := by
  induction T with
  | zero => simp
  | succ T ih =>
    rw [show 2 * (T + 1) = 2 * T + 1 + 1 by ring, sum_range_succ, sum_range_succ, ih, sum_range_succ]
    ring

/-- one DIF level at one cell: from the partial evaluations over `T` residues on a block of `B = 2H` cells to
    the partial evaluations over `2T` residues on a block of `H` cells -/
theorem dif_step_point (w : K) (g' : Nat → K) (B H T N : Nat) (hB : B = 2 * H) (hN : B * T = N) (hw : w ^ N = -1)
    (τ : Nat → K) (hτ : ∀ u, τ u = w ^ ((u + 1) * (2 * T)))
    (y : Nat → K) (c r φ e : Nat) (hr : r < H) (he : e < 2)
    (h1 : y (c * B + r) = ∑ s ∈ range T, g' (r + s * B) * w ^ (2 * (r + s * B) * φ))
    (h2 : y (c * B + (r + H)) = ∑ s ∈ range T, g' (r + H + s * B) * w ^ (2 * (r + H + s * B) * φ)) :
    exFwd B τ y ((2 * c + e) * H + r)
      = ∑ s' ∈ range (2 * T), g' (r + s' * H) * w ^ (2 * (r + s' * H) * (T * e + φ)) := by
  have hBhalf : B / 2 = H := by omega
  have hidx : (2 * c + e) * H + r = c * B + (e * H + r) := by rw [hB]; ring
  have hlt : e * H + r < B := by
    have : e * H ≤ 1 * H := Nat.mul_le_mul_right _ (by omega)
    omega
  have hmod : ((2 * c + e) * H + r) % B = e * H + r := by
    rw [hidx, Nat.add_comm, Nat.add_mul_mod_self_right, Nat.mod_eq_of_lt hlt]
  have hw2N : ∀ s, w ^ (2 * N * s) = 1 := by
    intro s; rw [show 2 * N * s = N * (2 * s) by ring, pow_mul, hw, pow_mul]; simp
  rw [sum_range_double]
  have he' : e = 0 ∨ e = 1 := by omega
  rcases he' with rfl | rfl
  · -- upper half of the block: a + b
    have hcond : ((2 * c + 0) * H + r) % B < B / 2 := by rw [hmod, hBhalf]; omega
    simp only [exFwd, if_pos hcond]
    rw [hBhalf, show (2 * c + 0) * H + r = c * B + r by rw [hB]; ring,
      show c * B + r + H = c * B + (r + H) by ring, h1, h2, ← sum_add_distrib]
    apply sum_congr rfl
    intro s _
    rw [show r + 2 * s * H = r + s * B by rw [hB]; ring,
      show r + (2 * s + 1) * H = r + H + s * B by rw [hB]; ring, Nat.mul_zero, Nat.zero_add]
  · -- lower half of the block: (a - b) * w^(r * 2T)
    have hcond : ¬ ((2 * c + 1) * H + r) % B < B / 2 := by rw [hmod, hBhalf]; omega
    have hmul : (if ((2 * c + 1) * H + r) % B = B / 2 then (1 : K)
        else τ (((2 * c + 1) * H + r) % B - B / 2 - 1)) = w ^ (r * (2 * T)) := by
      rw [hmod, hBhalf]
      by_cases h0 : r = 0
      · subst h0; simp
      · rw [if_neg (by omega), hτ]
        congr 2; omega
    simp only [exFwd, if_neg hcond]
    have hsub : (2 * c + 1) * H + r - H = c * B + r := by
      rw [hB]
      have : (2 * c + 1) * H = c * (2 * H) + H := by ring
      omega
    rw [hmul, hBhalf, hsub, show (2 * c + 1) * H + r = c * B + (r + H) by rw [hB]; ring, h1, h2,
      ← sum_sub_distrib, sum_mul]
    apply sum_congr rfl
    intro s _
    rw [show r + 2 * s * H = r + s * B by rw [hB]; ring,
      show r + (2 * s + 1) * H = r + H + s * B by rw [hB]; ring, Nat.mul_one]
    have e1 : 2 * (r + s * B) * (T + φ) = 2 * (r + s * B) * φ + r * (2 * T) + 2 * N * s := by
      rw [← hN]; ring
    have e2 : 2 * (r + H + s * B) * (T + φ) = 2 * (r + H + s * B) * φ + r * (2 * T) + N + 2 * N * s := by
      rw [← hN, hB]; ring
    rw [e1, e2, pow_add, pow_add, pow_add, pow_add, pow_add, hw2N, hw]
    ring

/-- what the data is after `t` DIF levels: cell `r` of block `c` (blocks of `2^m` cells) holds the partial
    evaluation of the residue class `r mod 2^m` at the root number `brev_t c` -/
def DifInv (w : K) (g' : Nat → K) (m t : Nat) (y : Nat → K) : Prop :=
  ∀ c < 2 ^ t, ∀ r < 2 ^ m,
    y (c * 2 ^ m + r) = ∑ s ∈ range (2 ^ t), g' (r + s * 2 ^ m) * w ^ (2 * (r + s * 2 ^ m) * brev t c)

theorem difInv_step {q : Nat} (w : ZMod q) (g' : Nat → ZMod q) (m t : Nat) (hw : w ^ (2 ^ (m + 1 + t)) = -1)
    (y : Nat → ZMod q)
    (h : DifInv w g' (m + 1) t y) :
    DifInv w g' m (t + 1) (exFwd (2 ^ (m + 1)) (τLevel w (2 * 2 ^ (m + 1 + t)) (2 ^ (m + 1))) y) := by
  intro c' hc' r hr
  have hc : c' / 2 < 2 ^ t := by rw [pow_succ] at hc'; omega
  have hsplit : c' = 2 * (c' / 2) + c' % 2 := by omega
  have he : c' % 2 < 2 := Nat.mod_lt _ (by norm_num)
  have hτ : ∀ u, τLevel w (2 * 2 ^ (m + 1 + t)) (2 ^ (m + 1)) u = w ^ ((u + 1) * (2 * 2 ^ t)) := by
    intro u
    simp only [τLevel]
    congr 2
    rw [show 2 * 2 ^ (m + 1 + t) = 2 ^ (m + 1) * (2 * 2 ^ t) by ring, Nat.mul_div_cancel_left _ (by positivity)]
  have h1 := h (c' / 2) hc r (by rw [pow_succ]; omega)
  have h2 := h (c' / 2) hc (r + 2 ^ m) (by rw [pow_succ]; omega)
  have := dif_step_point w g' (2 ^ (m + 1)) (2 ^ m) (2 ^ t) (2 ^ (m + 1 + t)) (by ring) (by ring) hw _ hτ y
    (c' / 2) r (brev t (c' / 2)) (c' % 2) hr he h1 h2
  rw [← hsplit] at this
  rw [this, show 2 ^ (t + 1) = 2 * 2 ^ t by ring]
  rfl

theorem difInv_all {q : Nat} (w : ZMod q) (g' : Nat → ZMod q) (k m t : Nat) (hk : m + t = k) (hw : w ^ (2 ^ k) = -1)
    (y : Nat → ZMod q)
    (h : DifInv w g' m t y) :
    DifInv w g' 0 k (exFwdAll ((fwdSizes m).map fun nn => (nn, τLevel w (2 * 2 ^ k) nn)) y) := by
  induction m generalizing t y with
  | zero =>
    have : t = k := by omega
    subst this
    simpa [fwdSizes, exFwdAll] using h
  | succ m ih =>
    simp only [fwdSizes, List.map_cons, exFwdAll]
    apply ih (t + 1) (by omega)
    have hk' : m + 1 + t = k := by omega
    have := difInv_step w g' m t (by rw [hk']; exact hw) y h
    rwa [hk'] at this

/-- **the forward transform is the evaluation at the odd powers of `w`, in bit-reversed order** -/
theorem exNtt_eval {q : Nat} (w : ZMod q) (k : Nat) (hw : w ^ (2 ^ k) = -1) (g : Nat → ZMod q)
    (j : Nat) (hj : j < 2 ^ k) :
    exNtt w k g j = ∑ i ∈ range (2 ^ k), g i * w ^ (i * (2 * brev k j + 1)) := by
  have hbase : DifInv w (exTwist (fun i => w ^ i) g) k 0 (exTwist (fun i => w ^ i) g) := by
    intro c hc r _
    have : c = 0 := by simpa using hc
    subst this
    simp [brev]
  have := difInv_all w _ k k 0 (by omega) hw _ hbase j hj 0 (by norm_num)
  simp only [pow_zero, Nat.mul_one, Nat.add_zero, Nat.zero_add] at this
  unfold exNtt exLevels
  rw [this]
  apply sum_congr rfl
  intro s _
  simp only [exTwist]
  rw [mul_assoc, ← pow_add]
  congr 2; ring

/-! ### negacyclic convolution -/

/-- coefficient `i` of `g * h mod X^n + 1` -/
def nmul (n : Nat) (g h : Nat → K) (i : Nat) : K :=
  ∑ a ∈ range n, ∑ b ∈ range n,
    (if a + b = i then g a * h b else if a + b = i + n then -(g a * h b) else 0)

/-- evaluation at a root of `X^n + 1` is multiplicative on `nmul` -/
theorem eval_nmul (n : Nat) (x : K) (hx : x ^ n = -1) (g h : Nat → K) :
    ∑ i ∈ range n, nmul n g h i * x ^ i = (∑ a ∈ range n, g a * x ^ a) * (∑ b ∈ range n, h b * x ^ b) := by
  have hL : ∀ i, nmul n g h i * x ^ i = ∑ a ∈ range n, ∑ b ∈ range n,
      (if a + b = i then g a * h b else if a + b = i + n then -(g a * h b) else 0) * x ^ i := by
    intro i; simp only [nmul, sum_mul]
  rw [sum_mul_sum]
  simp only [hL]
  rw [sum_comm]
  apply sum_congr rfl
  intro a ha
  rw [sum_comm]
  apply sum_congr rfl
  intro b hb
  have ha' : a < n := mem_range.1 ha
  have hb' : b < n := mem_range.1 hb
  by_cases hab : a + b < n
  · rw [sum_eq_single (a + b)]
    · rw [if_pos rfl, pow_add]; ring
    · intro i _ hne
      rw [if_neg (fun h => hne h.symm), if_neg (by omega), zero_mul]
    · intro hn; exact absurd (mem_range.2 hab) hn
  · rw [sum_eq_single (a + b - n)]
    · rw [if_neg (by omega), if_pos (by omega)]
      have : x ^ (a + b) = x ^ (a + b - n) * x ^ n := by rw [← pow_add]; congr 1; omega
      rw [show g a * x ^ a * (h b * x ^ b) = g a * h b * x ^ (a + b) by rw [pow_add]; ring, this, hx]
      ring
    · intro i hi hne
      have hi' : i < n := mem_range.1 hi
      rw [if_neg (by omega), if_neg (by omega), zero_mul]
    · intro hn; exact absurd (mem_range.2 (by omega)) hn

/-- **convolution theorem**: the transform of the negacyclic product is the pointwise product of the transforms -/
theorem exNtt_nmul {q : Nat} (w : ZMod q) (k : Nat) (hw : w ^ (2 ^ k) = -1) (g h : Nat → ZMod q)
    (j : Nat) (hj : j < 2 ^ k) :
    exNtt w k (nmul (2 ^ k) g h) j = exNtt w k g j * exNtt w k h j := by
  rw [exNtt_eval w k hw _ j hj, exNtt_eval w k hw g j hj, exNtt_eval w k hw h j hj]
  have hx : (w ^ (2 * brev k j + 1)) ^ (2 ^ k) = -1 := by
    rw [← pow_mul, Nat.mul_comm, pow_mul, hw]
    exact Odd.neg_one_pow ⟨brev k j, rfl⟩
  have := eval_nmul (2 ^ k) (w ^ (2 * brev k j + 1)) hx g h
  simp only [← pow_mul] at this
  simpa [Nat.mul_comm] using this

end Spq.Q120Ntt
