/-
  C01 rounding budget, SVP: `svp_prepare` + `svp_apply_dft` + `vec_znx_idft` of the binary64 module.  Row `i`
  (`i < rsz2`, `i < rsz`, `i < asz`) of the result is, BIT FOR BIT, `smallProduct (limb_i vec) pol` — the same
  composition `toZnx (ifft (mul (fft (fromZnx limb_i)) (fft (fromZnx pol))))` — so the end-to-end theorems apply row by row.
-/
import SpqProofs.Lemmas.ProdErrBudget
import SpqProofs.Lemmas.ModuleVec
set_option linter.unusedSectionVars false
namespace Spq.ProdErr
open Finset Spq Spq.Module Spq.Fft Spq.F64 Spq.Conv Spq.Reim4

theorem mul_size (c : Cfg) (k : ℕ) (cN sN cNi sNi : ℕ → ℕ) (h : CfgOk c k cN sN cNi sNi) (x y : Array ℕ) :
    (Module.mul (Cfg.parts c) x y).size = 2 * 2 ^ k := by
  have hm : c.nn / 2 = 2 ^ k := by rw [h.nn]; exact pow_half k
  have e : Module.mul (Cfg.parts c) x y = mulA F64.arith c.mulFma (2 ^ k) x y := by
    show (let r := Array.replicate c.nn F64.arith.zero
      if c.mulFma then (reimFftvecMulFma F64.arith (c.nn / 2) r x y).getD r
      else reimFftvecMulRef F64.arith (c.nn / 2) r x y) = _
    rw [hm, h.nn]; rfl
  rw [e]
  exact (mulA_cells F64.arith c.mulFma (2 ^ k) (fun hf => pow_mod_four' k (h.mulFma hf)) x y).1

/-- row `i` of the SVP pipeline is the small product of limb `i` with the prepared polynomial -/
theorem svp_row (c : Cfg) (k : ℕ) (cN sN cNi sNi : ℕ → ℕ) (h : CfgOk c k cN sN cNi sNi) (pol vec : Array Int)
    (asz asl rsz rsz2 i : ℕ) (hi : i < rsz2) (hi2 : i < rsz) (hi3 : i < asz) :
    dlimb (vecIdft (Cfg.parts c) rsz2 (svpApply (Cfg.parts c) rsz (svpPrepare (Cfg.parts c) pol) vec asz asl) rsz) i
        (2 * 2 ^ k) =
      smallProduct (Cfg.parts c) (limbOf vec i asl (2 * 2 ^ k)) pol := by
  have hnn : (Cfg.parts c).nn = 2 * 2 ^ k := h.nn
  obtain ⟨_, a2⟩ := svpApply_spec (Cfg.parts c) rsz (svpPrepare (Cfg.parts c) pol) vec asz asl _ (fun i _ => rfl)
    (by
      intro j _
      split
      · rw [hnn]; exact mul_size c k cN sN cNi sNi h _ _
      · simp)
  obtain ⟨_, b2⟩ := vecIdft_spec (Cfg.parts c) rsz2
    (svpApply (Cfg.parts c) rsz (svpPrepare (Cfg.parts c) pol) vec asz asl) rsz _ (fun i _ => rfl)
    (by
      intro j _
      split
      · rw [hnn]; exact toZnx_size c k h.nn h.toVar _
      · simp)
  have b := b2 i hi
  have a := a2 i hi2
  rw [hnn] at a b
  rw [b, if_pos hi2, a, if_pos hi3]
  rfl

end Spq.ProdErr
