/-
  C16, binary64 side, products of products, step 8: `vmpDD_metric` — binary64 `vmp_apply_dft_to_dft` on an operand
  satisfying the metric invariant, against the prepared matrix of an integer matrix, satisfies the metric invariant for
  the exact vector-matrix product with the propagated budgets `δ'`; `vmp_metric` — the same for `vmp_apply_dft` of an
  integer vector (`= vmp_apply_dft_to_dft ∘ vec_znx_dft`, budgets `ε·na_i` in).
-/
import SpqProofs.Lemmas.ProgErr2Rep
import SpqProofs.Lemmas.ProgErr2Stage
set_option linter.unusedSectionVars false
namespace Spq.ProgErr2
open Finset Spq Spq.Module Spq.Fft Spq.Fft.Alg Spq.FftErr Spq.F64 Spq.Reim4 Spq.ProdErr Spq.VmpErr Spq.ProgErr Spq.Closed
  Spq.Prog
variable {K : Type} [Field K] [LinearOrder K] [IsStrictOrderedRing K]

/-- **budget of one `vmp_apply_dft_to_dft`** (matrix `mat`, `nrows × ncols`, flat with stride `N`; exact limbs `P i` of
    the operand with incoming budgets `δ`; concrete operand `d`; `rsz` result limbs with target budgets `δ'`):
    the matrix entries are in the box, and for every column `j < min ncols rsz` that is not trivially zero:
    forward flags of the entries of column `j`, flags of the accumulation of column `j` ON THE CONCRETE OPERAND `d`
    (`vmpFlagD`), and `colDelta ≤ δ'_j` for some `na_i ≥ ‖P_i‖₂`, `nb_i ≥ ‖M_ij‖₂`, where
      `colDelta = Σ_{i<n} rowF μ_n δ_i (ε·nb_i) na_i nb_i ‖P_i‖₁ ‖M_ij‖₁ m`,  `n = min nrows asz`, `μ_n = 3/2·γ(n)`. -/
def VmpDDBudget (M : F64Mod K) (mat : Array Int) (nrows ncols : ℕ) (P : ℕ → Array Int) (d : Array ℕ) (asz rsz : ℕ)
    (δ δ' : ℕ → K) : Prop :=
  (∀ i j, i < nrows → j < ncols → Box M.k (matEntry mat ncols M.N i j)) ∧
  ∀ j, j < min ncols rsz → (M.k < 2 → 0 < min nrows asz) →
    (∀ i, i < min nrows asz → FwdOk M.c M.k M.cN M.sN (matEntry mat ncols M.N i j)) ∧
    (∀ p, p < M.N → vmpFlagD M.c mat nrows ncols d asz rsz (j * M.N + p)) ∧
    ∃ na nb : ℕ → K, (∀ i, i < min nrows asz → 0 ≤ na i) ∧ (∀ i, i < min nrows asz → 0 ≤ nb i) ∧
      (∀ i, i < min nrows asz → n2sq K (P i) M.N ≤ na i ^ 2) ∧
      (∀ i, i < min nrows asz → n2sq K (matEntry mat ncols M.N i j) M.N ≤ nb i ^ 2) ∧
      colDelta M mat ncols (min nrows asz) P j δ na nb ≤ δ' j

/-- the exact column is the column of `Prog.vmpVal` -/
theorem colSpecP_getD (M : F64Mod K) (P Mv : Val) (asz nrows ncols j t : ℕ) (hj : j < ncols) (ht : t < M.N) :
    (colSpecP M.N (matOf M Mv nrows ncols) ncols (min nrows asz) (fun i => polyArr M.N (P.coef i)) j).getD t 0 =
      Prog.vmpVal M.N asz (zext asz fun i t => P.coef i t) Mv nrows ncols j t := by
  unfold colSpecP Prog.vmpVal
  rw [getD_isum _ _ _ _ ht, if_pos hj]
  apply progSumTo_congr
  intro i hi
  apply getD_nmul _ _ _ _ _ _ _ t ht
  · intro u hu
    rw [getD_polyArr _ _ _ hu, zext, if_pos (by omega)]
  · intro u hu
    rw [matEntry_flatOf _ _ _ _ i j (by omega) hj, getD_polyArr _ _ _ hu]

/-- **`vmpDD_metric`** (row form: only the rows `i < min nrows asz` that are read need to satisfy the invariant) -/
theorem vmpDD_metric_rows (M : F64Mod K) (P : Val) (asz rsz : ℕ) (d : Array ℕ) (δ : ℕ → K) (Mv : Val) (nrows ncols : ℕ)
    (hrep : ∀ i, i < min nrows asz → LimbMetric M (dlimb d i M.N) (polyArr M.N (P.coef i)) (δ i))
    (δ' : ℕ → K) (hδ0 : ∀ j, j < rsz → 0 ≤ δ' j)
    (hb : VmpDDBudget M (matOf M Mv nrows ncols) nrows ncols (fun i => polyArr M.N (P.coef i)) d asz rsz δ δ') :
    MetricRep M (Val.mk M.N rsz (Prog.vmpVal M.N asz (zext asz fun i t => P.coef i t) Mv nrows ncols)) rsz
      (vmpApplyDftToDft M.parts rsz d asz (vmpPrepare M.parts (matOf M Mv nrows ncols) nrows ncols) nrows ncols) δ' := by
  obtain ⟨hM, hcol⟩ := hb
  have hsz := vmpResD_size M (matOf M Mv nrows ncols) nrows ncols d asz rsz hM
  refine ⟨hsz, fun j hj => ?_⟩
  have hnn := p_nn M.c M.k M.cN M.sN M.cNi M.sNi M.ok
  have hT : ∀ row col, row < nrows → col < ncols →
      (matDft (Cfg.parts M.c) (matOf M Mv nrows ncols) ncols row col).size = (Cfg.parts M.c).nn := by
    intro row col hr hc
    rw [matDft_stF M.c M.k M.cN M.sN M.cNi M.sNi M.ok, hnn]
    exact stF_size M.c M.k M.cN M.sN M.cNi M.sNi M.ok.cfg _ (hM row col hr hc)
  obtain ⟨_, _, z1, z2⟩ := vmp_layout_g (Cfg.parts M.c) (p_hnn M.c M.k M.cN M.sN M.cNi M.sNi M.ok)
    (p_hblk M.c M.k M.cN M.sN M.cNi M.sNi M.ok) (p_hsm M.c M.k M.cN M.sN M.cNi M.sNi M.ok) (matOf M Mv nrows ncols)
    nrows ncols rsz asz d (fun _ => hT)
  by_cases hjc : j < min ncols rsz
  · have hjn : j < ncols := lt_of_lt_of_le hjc (Nat.min_le_left _ _)
    by_cases hz : M.k < 2 ∧ min nrows asz = 0
    · -- `nn < 8`, no usable row: everything is `+0`, the exact column is the empty sum
      have h8 : (Cfg.parts M.c).nn < 8 := by
        rw [hnn]
        have : M.k = 0 ∨ M.k = 1 := by omega
        rcases this with h | h <;> rw [h] <;> norm_num
      apply limbMetric_zero M _ _ _ (hδ0 j hj)
      · intro p hp
        rw [dlimb_get 0 _ j M.N p hp]
        exact z2 h8 hz.2 _
      · intro t ht
        rw [getD_polyArr _ _ _ ht, coef_mk _ _ _ _ _ hj ht]
        unfold Prog.vmpVal
        rw [if_pos hjn, hz.2]
        rfl
    · have hpos : M.k < 2 → 0 < min nrows asz := by
        intro h2
        by_contra h0
        exact hz ⟨h2, by omega⟩
      obtain ⟨hokB, hokD, na, nb, hna0, hnb0, hna, hnb, hle⟩ := hcol j hjc hpos
      have st := vmpDD_col_stage M (matOf M Mv nrows ncols) nrows ncols d asz rsz (fun i => polyArr M.N (P.coef i)) δ
        hrep hM j hjc hpos hokB hokD na nb hna0 hnb0 hna hnb
      refine (st.mono hle).congr ?_
      intro t ht
      rw [colSpecP_getD M P Mv asz nrows ncols j t hjn ht, getD_polyArr _ _ _ ht, coef_mk _ _ _ _ _ hj ht]
  · apply limbMetric_zero M _ _ _ (hδ0 j hj)
    · intro p hp
      rw [dlimb_get 0 _ j M.N p hp]
      have := z1 j p (by omega)
      rw [hnn] at this
      exact this
    · intro t ht
      rw [getD_polyArr _ _ _ ht, coef_mk _ _ _ _ _ hj ht]
      unfold Prog.vmpVal
      rw [if_neg (by omega)]

/-- **`vmpDD_metric`**: in → out of the metric invariant through `vmp_apply_dft_to_dft` -/
theorem vmpDD_metric (M : F64Mod K) (P : Val) (asz rsz : ℕ) (d : Array ℕ) (δ : ℕ → K) (Mv : Val) (nrows ncols : ℕ)
    (hrep : MetricRep M P asz d δ) (δ' : ℕ → K) (hδ0 : ∀ j, j < rsz → 0 ≤ δ' j)
    (hb : VmpDDBudget M (matOf M Mv nrows ncols) nrows ncols (fun i => polyArr M.N (P.coef i)) d asz rsz δ δ') :
    MetricRep M (Val.mk M.N rsz (Prog.vmpVal M.N asz (zext asz fun i t => P.coef i t) Mv nrows ncols)) rsz
      (vmpApplyDftToDft M.parts rsz d asz (vmpPrepare M.parts (matOf M Mv nrows ncols) nrows ncols) nrows ncols) δ' :=
  vmpDD_metric_rows M P asz rsz d δ Mv nrows ncols (fun i hi => hrep.2 i (by omega)) δ' hδ0 hb

/-- **budget of one `vmp_apply_dft`** of the integer vector `a` (`asz` limbs, stride `N`): the rows used satisfy the
    budget of `vec_znx_dft` with some `δ0`, and `VmpDDBudget` holds for the computed transform with `δ0` in -/
def VmpBudgetM (M : F64Mod K) (mat : Array Int) (nrows ncols : ℕ) (a : Array Int) (asz rsz : ℕ) (δ' : ℕ → K) : Prop :=
  ∃ δ0 : ℕ → K, (∀ i, i < min nrows asz → DftLimbBudget M (limbOf a i M.N M.N) (δ0 i)) ∧
    VmpDDBudget M mat nrows ncols (fun i => limbOf a i M.N M.N) (vecDft M.parts (min nrows asz) a asz M.N) asz rsz δ0 δ'

/-- **`vmp_metric`**: `vmp_apply_dft` of an integer vector (canonical flat form) inside the budget -/
theorem vmp_metric (M : F64Mod K) (asz rsz : ℕ) (f : ℕ → ℕ → ℤ) (Mv : Val) (nrows ncols : ℕ) (δ' : ℕ → K)
    (hδ0 : ∀ j, j < rsz → 0 ≤ δ' j)
    (hb : VmpBudgetM M (matOf M Mv nrows ncols) nrows ncols (flatOf M.N asz f) asz rsz δ') :
    MetricRep M (Val.mk M.N rsz (Prog.vmpVal M.N asz (zext asz f) Mv nrows ncols)) rsz
      (vmpApplyDft M.parts rsz (flatOf M.N asz f) asz M.N (vmpPrepare M.parts (matOf M Mv nrows ncols) nrows ncols)
        nrows ncols) δ' := by
  obtain ⟨δ0, hd, hv⟩ := hb
  have hra : min nrows asz ≤ asz := Nat.min_le_right _ _
  have eL : ∀ i, i < min nrows asz → limbOf (flatOf M.N asz f) i M.N M.N = polyArr M.N (f i) :=
    fun i hi => limbOf_flatOf _ _ _ i (by omega)
  have hδ00 : ∀ i, i < min nrows asz → 0 ≤ δ0 i := by
    intro i hi
    obtain ⟨_, _, na, hna0, _, hle⟩ := hd i hi
    exact le_trans (mul_nonneg (eps_nonneg M.k) hna0) hle
  have r0 := dft_metric M (flatOf M.N asz f) asz M.N (min nrows asz) f (agree_flatOf _ _ _) δ0 hδ00
    (fun i _ hi => by rw [← eL i hi]; exact hd i hi)
  -- the abstract vector `Q` the rows stand for
  obtain ⟨Q, hQ⟩ : ∃ Q : Val, Q = Val.mk M.N asz f := ⟨_, rfl⟩
  have hQc : ∀ i t, i < asz → t < M.N → Q.coef i t = f i t := fun i t hi ht => by rw [hQ, coef_mk _ _ _ _ _ hi ht]
  have ePQ : ∀ i, i < min nrows asz → limbOf (flatOf M.N asz f) i M.N M.N = polyArr M.N (Q.coef i) := by
    intro i hi
    rw [eL i hi]
    exact polyArr_congr _ _ _ (fun t ht => (hQc i t (by omega) ht).symm)
  have hrep : ∀ i, i < min nrows asz →
      LimbMetric M (dlimb (vecDft M.parts (min nrows asz) (flatOf M.N asz f) asz M.N) i M.N) (polyArr M.N (Q.coef i)) (δ0 i) := by
    intro i hi
    refine (r0.2 i hi).congr ?_
    intro t ht
    rw [getD_polyArr _ _ _ ht, getD_polyArr _ _ _ ht, coef_mk _ _ _ _ _ hi ht, zext, if_pos (by omega),
      hQc i t (by omega) ht]
  have hv' : VmpDDBudget M (matOf M Mv nrows ncols) nrows ncols (fun i => polyArr M.N (Q.coef i))
      (vecDft M.parts (min nrows asz) (flatOf M.N asz f) asz M.N) asz rsz δ0 δ' := by
    obtain ⟨h1, h2⟩ := hv
    refine ⟨h1, fun j hj hpos => ?_⟩
    obtain ⟨b1, b2, na, nb, c1, c2, c3, c4, c5⟩ := h2 j hj hpos
    refine ⟨b1, b2, na, nb, c1, c2, fun i hi => by
      show n2sq K (polyArr M.N (Q.coef i)) M.N ≤ _
      rw [← ePQ i hi]; exact c3 i hi, c4, ?_⟩
    refine le_trans (le_of_eq ?_) c5
    unfold colDelta
    apply sum_congr rfl
    intro i hi
    show rowF _ _ _ _ _ (n1 K (polyArr M.N (Q.coef i)) M.N) _ _ =
      rowF _ _ _ _ _ (n1 K (limbOf (flatOf M.N asz f) i M.N M.N) M.N) _ _
    rw [ePQ i (mem_range.1 hi)]
  have main := vmpDD_metric_rows M Q asz rsz (vecDft M.parts (min nrows asz) (flatOf M.N asz f) asz M.N) δ0 Mv nrows
    ncols hrep δ' hδ0 hv'
  refine MetricRep.congr (P := Val.mk M.N rsz (Prog.vmpVal M.N asz (zext asz fun i t => Q.coef i t) Mv nrows ncols)) main ?_
  intro j t hj ht
  rw [coef_mk _ _ _ _ _ hj ht, coef_mk _ _ _ _ _ hj ht]
  unfold Prog.vmpVal
  by_cases hjn : j < ncols
  · rw [if_pos hjn, if_pos hjn]
    apply progSumTo_congr
    intro i hi
    apply polyMul_congr _ _ _ _ _ _ (fun _ _ => rfl) t ht
    intro u hu
    rw [zext, zext, if_pos (by omega), if_pos (by omega), hQc i u (by omega) hu]
  · rw [if_neg hjn, if_neg hjn]

end Spq.ProgErr2
