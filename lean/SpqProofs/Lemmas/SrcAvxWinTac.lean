/-
  Proof scripts for the AVX kernels called on windows `(B, ro)`, `(B, ao)`, `(B, bo)` of one arena buffer
  (`Lemmas/SrcAvxKern.lean`).  Same three cases as `Lemmas/SrcAvxTac.lean`; the memory states are
  `m0.setIfInBounds B (wfill X ro g k)`.  Expected context: `m0 B hB X nn hnn hacc ro ao (bo) hr ha (hb)`,
  `hda' : ao = ro ∨ ro + nn ≤ ao ∨ ao + nn ≤ ro` (and `hdb'`), `fuel hf`, the cell function `g` and the goal
  `run fuel fn … (m0.setIfInBounds B X) = .ok (m0.setIfInBounds B (wfill X ro g nn))`.
-/
import Gen.CSrc
import SpqProofs.Lemmas.SrcAvxWin
import SpqProofs.Lemmas.SrcFuel
namespace Spq.CIR

set_option hygiene false in
macro "src_avx2w_proof" fn:ident : tactic =>
  `(tactic| (
    cir_enter $fn
    have e2 : (2 : Int) % 18446744073709551616 = 2 := by decide
    have e1 : (1 : Int) % 18446744073709551616 = 1 := by decide
    conv => lhs; rw [show X = wfill X ro g 0 from (wfill_zero X ro g).symm]
    rcases hacc with h | h | ⟨hq, hm⟩
    · subst h
      have c1 : decide (((1 : Nat) : Int) ≤ 2) = true := by decide
      have c2 : decide (((1 : Nat) : Int) = 1) = true := by decide
      cir_simp
      simp only [e2, e1, c1, c2, if_true]
      rw [show (0 : Int) = ((0 : Nat) : Int) from rfl, loadCell_shift _ B ao 0, loadCell_shift _ B bo 0,
        load_wfill m0 B hB X ro g 0 (ao + 0) (by omega) (by omega),
        load_wfill m0 B hB X ro g 0 (bo + 0) (by omega) (by omega)]
      simp only [R.bind_ok]
      rw [storeCell_shift _ B ro 0, store_wfill m0 B hB X ro g 0 _ (by omega) (by rfl)]
      rfl
    · subst h
      have c1 : decide (((2 : Nat) : Int) ≤ 2) = true := by decide
      have c2 : decide (((2 : Nat) : Int) = 1) = false := by decide
      cir_simp
      simp only [e2, e1, c1, c2, if_true, exec_vstore, evalV_vadd, evalV_vsub, evalV_vload, eval_lit, R.bind_ok]
      rw [ptrAt_param_zero _ _ 0 B ro rfl, ptrAt_param_zero _ _ 1 B ao rfl, ptrAt_param_zero _ _ 2 B bo rfl]
      simp only [R.bind_ok]
      rw [loadLanes_shift _ B ao 2 0, loadLanes_shift _ B bo 2 0]
      simp only [Nat.add_zero]
      rw [loadLanes_wfill m0 B hB X ro g 0 2 ao (by omega) (by omega),
        loadLanes_wfill m0 B hB X ro g 0 2 bo (by omega) (by omega)]
      simp only [R.bind_ok]
      rw [zipLanes_eq _ _ _ (by simp)]
      simp only [R.bind_ok, length_zipWith_map_range, if_true]
      rw [storeLanes_shift B ro, storeLanes_wfill m0 B hB X ro g _ 0
        (by rw [length_zipWith_map_range]; omega) (fun j hj => by
          rw [length_zipWith_map_range] at hj
          rw [getD_zipWith_map_range _ _ _ _ _ hj]
          simp only [g, Nat.zero_add])]
      simp only [R.bind_ok, length_zipWith_map_range]
      rfl
    · obtain ⟨q, rfl⟩ : ∃ q, nn = 4 * q := ⟨nn / 4, by omega⟩
      have c1 : decide (((4 * q : Nat) : Int) ≤ 2) = false := decide_eq_false (by omega)
      have pp0 : ∀ env, ptrAt [some (B, ro), some (B, ao), some (B, bo)] env (.param 0) 0 = .ok (some (B, ro)) :=
        fun env => ptrAt_param_zero _ env 0 B ro rfl
      have pp1 : ∀ env, ptrAt [some (B, ro), some (B, ao), some (B, bo)] env (.param 1) 0 = .ok (some (B, ao)) :=
        fun env => ptrAt_param_zero _ env 1 B ao rfl
      have pp2 : ∀ env, ptrAt [some (B, ro), some (B, ao), some (B, bo)] env (.param 2) 0 = .ok (some (B, bo)) :=
        fun env => ptrAt_param_zero _ env 2 B bo rfl
      have pp3 : ∀ env, ptrAt [some (B, ro), some (B, ao), some (B, bo)] env (.param 0) ((4 * q : Nat) : Int)
          = .ok (some (B, ro + 4 * q)) := fun env => ptrAt_param _ env 0 B ro (4 * q) rfl
      repeat (first
        | cir_simp
        | simp only [e2, e1, c1, pp0, pp1, pp2, pp3, encPtr_some, Bool.false_eq_true, if_false])
      let S : Nat → State := fun k =>
        ⟨[((4 * q : Nat) : Int), (B : Int), ((ao + 4 * k : Nat) : Int), (B : Int), ((bo + 4 * k : Nat) : Int),
          (B : Int), ((ro + 4 * k : Nat) : Int), (B : Int), ((ro + 4 * q : Nat) : Int)],
          m0.setIfInBounds B (wfill X ro g (4 * k))⟩
      refine (congrArg memOf (doWhile_sim [some (B, ro), some (B, ao), some (B, bo)] _ _ S (fun k => k + 1)
        (fun k => decide (q ≤ k)) (fun m k => k + m = q) (fun m k h _ => by omega) ?hbody ?hcond q 0 fuel (by omega)
        (termA_count q q 0 (by omega) (by omega)) (by omega))).trans ?fin
      case hbody =>
        intro m k f hG
        change exec _ _ f ⟨[((4 * q : Nat) : Int), (B : Int), ((ao + 4 * k : Nat) : Int), (B : Int),
          ((bo + 4 * k : Nat) : Int), (B : Int), ((ro + 4 * k : Nat) : Int), (B : Int), ((ro + 4 * q : Nat) : Int)],
          m0.setIfInBounds B (wfill X ro g (4 * k))⟩ = _
        cir_simp
        simp only [exec_vstore, evalV_vadd, evalV_vsub, evalV_vload, eval_lit, R.bind_ok]
        rw [ptrAt_pvar _ _ 5 B (ro + 4 * k) rfl rfl, ptrAt_pvar _ _ 1 B (ao + 4 * k) rfl rfl,
          ptrAt_pvar _ _ 3 B (bo + 4 * k) rfl rfl]
        simp only [R.bind_ok]
        rw [loadLanes_shift _ B (ao + 4 * k) 4 0, loadLanes_shift _ B (bo + 4 * k) 4 0]
        simp only [Nat.add_zero]
        rw [loadLanes_wfill m0 B hB X ro g (4 * k) 4 (ao + 4 * k) (by omega) (by omega),
          loadLanes_wfill m0 B hB X ro g (4 * k) 4 (bo + 4 * k) (by omega) (by omega)]
        simp only [R.bind_ok]
        rw [zipLanes_eq _ _ _ (by simp)]
        simp only [R.bind_ok, length_zipWith_map_range, if_true]
        rw [storeLanes_shift B (ro + 4 * k)]
        simp only [Nat.add_zero]
        rw [storeLanes_wfill m0 B hB X ro g _ (4 * k)
          (by rw [length_zipWith_map_range]; omega) (fun j hj => by
            rw [length_zipWith_map_range] at hj
            rw [getD_zipWith_map_range _ _ _ _ _ hj]
            simp only [g, Nat.add_assoc])]
        simp only [R.bind_ok, length_zipWith_map_range]
        repeat (first
          | cir_simp
          | simp only [R.bind_ok, encPtr_some]
          | rw [ptrAt_pvar_off _ _ 5 B (ro + 4 * k) 4 _ (by rfl) rfl rfl]
          | rw [ptrAt_pvar_off _ _ 1 B (ao + 4 * k) 4 _ (by rfl) rfl rfl]
          | rw [ptrAt_pvar_off _ _ 3 B (bo + 4 * k) 4 _ (by rfl) rfl rfl])
        rfl
      case hcond =>
        intro k
        change evalB _ _ ⟨[((4 * q : Nat) : Int), (B : Int), ((ao + 4 * k : Nat) : Int), (B : Int),
          ((bo + 4 * k : Nat) : Int), (B : Int), ((ro + 4 * k : Nat) : Int), (B : Int), ((ro + 4 * q : Nat) : Int)],
          m0.setIfInBounds B (wfill X ro g (4 * k))⟩ = _
        cir_simp
        simp only [eval_ptrLt, eval_lit, R.bind_ok]
        rw [ptrAt_pvar _ _ 5 B (ro + 4 * k) rfl rfl, ptrAt_pvar _ _ 7 B (ro + 4 * q) rfl rfl]
        simp only [R.bind_ok, ptrLtVal_same, decide_b2i_ne_zero]
        congr 1
        by_cases h : q ≤ k
        · rw [decide_eq_true h, decide_eq_false (by omega)]; rfl
        · rw [decide_eq_false h, decide_eq_true (by omega)]; rfl
      case fin =>
        rw [walkA_count q q 0 (by omega) (by omega)]
        rfl))

/- `znx_negate_i64_avx` on windows `(B, ro)`, `(B, ao)` -/
set_option hygiene false in
macro "src_avx1w_proof" fn:ident : tactic =>
  `(tactic| (
    cir_enter $fn
    have e2 : (2 : Int) % 18446744073709551616 = 2 := by decide
    have e1 : (1 : Int) % 18446744073709551616 = 1 := by decide
    conv => lhs; rw [show X = wfill X ro g 0 from (wfill_zero X ro g).symm]
    rcases hacc with h | h | ⟨hq, hm⟩
    · subst h
      have c1 : decide (((1 : Nat) : Int) ≤ 2) = true := by decide
      have c2 : decide (((1 : Nat) : Int) = 1) = true := by decide
      cir_simp
      simp only [e2, e1, c1, c2, if_true]
      rw [show (0 : Int) = ((0 : Nat) : Int) from rfl, loadCell_shift _ B ao 0,
        load_wfill m0 B hB X ro g 0 (ao + 0) (by omega) (by omega)]
      simp only [R.bind_ok]
      rw [storeCell_shift _ B ro 0, store_wfill m0 B hB X ro g 0 _ (by omega) (by rfl)]
      rfl
    · subst h
      have c1 : decide (((2 : Nat) : Int) ≤ 2) = true := by decide
      have c2 : decide (((2 : Nat) : Int) = 1) = false := by decide
      cir_simp
      simp only [e2, e1, c1, c2, if_true, exec_vstore, evalV_vsub, evalV_vset1, evalV_vload, eval_lit, eval_cast,
        R.bind_ok]
      rw [ptrAt_param_zero _ _ 0 B ro rfl, ptrAt_param_zero _ _ 1 B ao rfl]
      simp only [R.bind_ok]
      rw [loadLanes_shift _ B ao 2 0]
      simp only [Nat.add_zero]
      rw [loadLanes_wfill m0 B hB X ro g 0 2 ao (by omega) (by omega)]
      simp only [R.bind_ok]
      rw [zipLanes_eq _ _ _ (by simp)]
      simp only [R.bind_ok, length_zipWith_replicate_map_range, if_true, Bool.false_eq_true, if_false]
      rw [storeLanes_shift B ro, storeLanes_wfill m0 B hB X ro g _ 0
        (by rw [length_zipWith_replicate_map_range]; omega) (fun j hj => by
          rw [length_zipWith_replicate_map_range] at hj
          rw [getD_zipWith_replicate_map_range _ _ _ _ _ hj, wrapS_wrap_zero, subS_zero_left]
          simp only [g, Nat.zero_add])]
      simp only [R.bind_ok, length_zipWith_replicate_map_range]
      rfl
    · obtain ⟨q, rfl⟩ : ∃ q, nn = 4 * q := ⟨nn / 4, by omega⟩
      have c1 : decide (((4 * q : Nat) : Int) ≤ 2) = false := decide_eq_false (by omega)
      have pp0 : ∀ env, ptrAt [some (B, ro), some (B, ao)] env (.param 0) 0 = .ok (some (B, ro)) :=
        fun env => ptrAt_param_zero _ env 0 B ro rfl
      have pp1 : ∀ env, ptrAt [some (B, ro), some (B, ao)] env (.param 1) 0 = .ok (some (B, ao)) :=
        fun env => ptrAt_param_zero _ env 1 B ao rfl
      have pp3 : ∀ env, ptrAt [some (B, ro), some (B, ao)] env (.param 0) ((4 * q : Nat) : Int)
          = .ok (some (B, ro + 4 * q)) := fun env => ptrAt_param _ env 0 B ro (4 * q) rfl
      repeat (first
        | cir_simp
        | simp only [e2, e1, c1, pp0, pp1, pp3, encPtr_some, Bool.false_eq_true, if_false])
      let S : Nat → State := fun k =>
        ⟨[((4 * q : Nat) : Int), (B : Int), ((ao + 4 * k : Nat) : Int), (B : Int), ((ro + 4 * k : Nat) : Int),
          (B : Int), ((ro + 4 * q : Nat) : Int)], m0.setIfInBounds B (wfill X ro g (4 * k))⟩
      refine (congrArg memOf (doWhile_sim [some (B, ro), some (B, ao)] _ _ S (fun k => k + 1)
        (fun k => decide (q ≤ k)) (fun m k => k + m = q) (fun m k h _ => by omega) ?hbody ?hcond q 0 fuel (by omega)
        (termA_count q q 0 (by omega) (by omega)) (by omega))).trans ?fin
      case hbody =>
        intro m k f hG
        change exec _ _ f ⟨[((4 * q : Nat) : Int), (B : Int), ((ao + 4 * k : Nat) : Int), (B : Int),
          ((ro + 4 * k : Nat) : Int), (B : Int), ((ro + 4 * q : Nat) : Int)],
          m0.setIfInBounds B (wfill X ro g (4 * k))⟩ = _
        cir_simp
        simp only [exec_vstore, evalV_vsub, evalV_vset1, evalV_vload, eval_lit, eval_cast, R.bind_ok]
        rw [ptrAt_pvar _ _ 3 B (ro + 4 * k) rfl rfl, ptrAt_pvar _ _ 1 B (ao + 4 * k) rfl rfl]
        simp only [R.bind_ok]
        rw [loadLanes_shift _ B (ao + 4 * k) 4 0]
        simp only [Nat.add_zero]
        rw [loadLanes_wfill m0 B hB X ro g (4 * k) 4 (ao + 4 * k) (by omega) (by omega)]
        simp only [R.bind_ok]
        rw [zipLanes_eq _ _ _ (by simp)]
        simp only [R.bind_ok, length_zipWith_replicate_map_range, if_true]
        rw [storeLanes_shift B (ro + 4 * k)]
        simp only [Nat.add_zero]
        rw [storeLanes_wfill m0 B hB X ro g _ (4 * k)
          (by rw [length_zipWith_replicate_map_range]; omega) (fun j hj => by
            rw [length_zipWith_replicate_map_range] at hj
            rw [getD_zipWith_replicate_map_range _ _ _ _ _ hj, wrapS_wrap_zero, subS_zero_left]
            simp only [g, Nat.add_assoc])]
        simp only [R.bind_ok, length_zipWith_replicate_map_range]
        repeat (first
          | cir_simp
          | simp only [R.bind_ok, encPtr_some]
          | rw [ptrAt_pvar_off _ _ 3 B (ro + 4 * k) 4 _ (by rfl) rfl rfl]
          | rw [ptrAt_pvar_off _ _ 1 B (ao + 4 * k) 4 _ (by rfl) rfl rfl])
        rfl
      case hcond =>
        intro k
        change evalB _ _ ⟨[((4 * q : Nat) : Int), (B : Int), ((ao + 4 * k : Nat) : Int), (B : Int),
          ((ro + 4 * k : Nat) : Int), (B : Int), ((ro + 4 * q : Nat) : Int)],
          m0.setIfInBounds B (wfill X ro g (4 * k))⟩ = _
        cir_simp
        simp only [eval_ptrLt, eval_lit, R.bind_ok]
        rw [ptrAt_pvar _ _ 3 B (ro + 4 * k) rfl rfl, ptrAt_pvar _ _ 5 B (ro + 4 * q) rfl rfl]
        simp only [R.bind_ok, ptrLtVal_same, decide_b2i_ne_zero]
        congr 1
        by_cases h : q ≤ k
        · rw [decide_eq_true h, decide_eq_false (by omega)]; rfl
        · rw [decide_eq_false h, decide_eq_true (by omega)]; rfl
      case fin =>
        rw [walkA_count q q 0 (by omega) (by omega)]
        rfl))

end Spq.CIR
