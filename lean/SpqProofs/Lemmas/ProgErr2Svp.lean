/-
  C16, binary64 side, products of products, step 5: the metric invariant for the limbs produced by `vec_znx_dft` and
  `svp_apply_dft` (the DFT-space error bounds that `C01Err.small_product_exact_f64_partial` proves internally, BEFORE the
  inverse transform; no flag of an inverse transform is needed here):
    `limbMetric_zero` : a limb of `+0` cells represents the zero polynomial with any budget;
    `fwd_limbMetric`  : `fft (fromZnx a)` represents `a` with budget `ε·na`            (`ProgErr.fwd_metric`);
    `svp_stage`       : `mul (fft (fromZnx a)) (fft (fromZnx b))` represents `a ⊛ b` with budget
                        `fB ε μ (ε·m)·(‖a‖₁·nb + na·‖b‖₁)`                               (`ProdErr.dft_prod_err`).
-/
import SpqProofs.Lemmas.ProgErr2Col
set_option linter.unusedSectionVars false
namespace Spq.ProgErr2
open Finset Spq Spq.Module Spq.Fft Spq.Fft.Alg Spq.FftErr Spq.F64 Spq.Reim4 Spq.ProdErr Spq.VmpErr Spq.ProgErr Spq.Closed
variable {K : Type} [Field K] [LinearOrder K] [IsStrictOrderedRing K]

theorem V_zero (M : F64Mod K) (x : Array Int) (hx : ∀ t, t < M.N → x.getD t 0 = 0) (j : ℕ) (hj : j < 2 ^ M.k) :
    V M.ζ (pkC x (2 ^ M.k)) M.k 0 j = 0 := by
  rw [V_top M.ζ _ M.k (zeta_neg M.k M.ζ M.hI) j hj]
  have e : ∀ p, p < 2 ^ M.k → (pkC x (2 ^ M.k) p : Cplx K) = 0 := by
    intro p hp
    unfold pkC
    rw [hx p (by show p < 2 * 2 ^ M.k; omega), hx (2 ^ M.k + p) (by show 2 ^ M.k + p < 2 * 2 ^ M.k; omega)]
    apply QuadraticAlgebra.ext <;> simp [toC]
  have : sumTo (2 ^ M.k) (fun i => pkC x (2 ^ M.k) i * M.ζ ^ ((1 + 4 * brev M.k j) * i)) =
      sumTo (2 ^ M.k) (fun _ => (0 : Cplx K)) := sumTo_congr (fun i hi => by rw [e i hi, zero_mul])
  rw [this]
  generalize 2 ^ M.k = n
  induction n with
  | zero => rfl
  | succ n ih => simp only [sumTo]; rw [ih, add_zero]

/-- a limb of `+0` cells represents the zero polynomial (any budget `δ ≥ 0`) -/
theorem limbMetric_zero (M : F64Mod K) (d : Array ℕ) (x : Array Int) (δ : K) (hδ : 0 ≤ δ)
    (hd : ∀ p, p < M.N → d.getD p 0 = 0) (hx : ∀ t, t < M.N → x.getD t 0 = 0) : LimbMetric M d x δ := by
  refine ⟨hδ, fun p hp => by rw [hd p hp]; exact fin64_zero, ?_⟩
  have hz : ∀ j ∈ range (2 ^ M.k), nsq (outC d M.k j - V M.ζ (pkC x (2 ^ M.k)) M.k 0 j : Cplx K) = 0 := by
    intro j hj
    have hj' := mem_range.1 hj
    rw [V_zero M x hx j hj', sub_zero, outC_getD, hd j (by show j < 2 * 2 ^ M.k; omega),
      hd (j + 2 ^ M.k) (by show j + 2 ^ M.k < 2 * 2 ^ M.k; omega), val_zero]
    simp [nsq]
  rw [sum_eq_zero hz]
  positivity

/-- the forward transform of an integer polynomial in the box -/
theorem fwd_limbMetric (M : F64Mod K) (a : Array Int) (hbox : Box M.k a) (hok : FwdOk M.c M.k M.cN M.sN a) (na : K)
    (hna0 : 0 ≤ na) (hna : n2sq K a M.N ≤ na ^ 2) :
    LimbMetric M (M.parts.fft (M.parts.fromZnx a)) a (eps K M.k * na) := by
  rw [parts_fft M.c M.k M.cN M.sN M.cNi M.sNi M.ok.cfg]
  obtain ⟨f1, f2⟩ := fwd_metric M.c M.k M.cN M.sN M.cNi M.sNi M.ok.cfg M.ζ M.hζ M.hI M.hcs a hbox hok na hna
  refine ⟨mul_nonneg (eps_nonneg M.k) hna0, fun p hp => ?_, f2⟩
  have := f1 p hp
  rwa [getElem!_nat] at this

/-- flags of the forward transforms of `a`, `b` and of their pointwise product (the first three stages of
    `ProdErr.PipeOk`; no inverse transform) -/
structure MulOk (c : Cfg) (k : ℕ) (cN sN : ℕ → ℕ) (a b : Array Int) : Prop where
  okA : FwdOk c k cN sN a
  okB : FwdOk c k cN sN b
  okM : ∀ p, p < 2 * 2 ^ k →
    ((mulA arithOk c.mulFma (2 ^ k) ((stF c k cN sN a).map lift) ((stF c k cN sN b).map lift)).getD p arithOk.zero).2

theorem MulOk.of_pipe {c : Cfg} {k : ℕ} {cN sN cNi sNi : ℕ → ℕ} {a b : Array Int} (h : PipeOk c k cN sN cNi sNi a b) :
    MulOk c k cN sN a b := ⟨h.okA, h.okB, h.okM⟩

/-- the DFT-space budget of one product `a ⊛ b`: `fB ε μ (ε·m)·(‖a‖₁·nb + na·‖b‖₁)` -/
def svpDelta (M : F64Mod K) (a b : Array Int) (na nb : K) : K :=
  fB (eps K M.k) ((mu64 : ℚ) : K) (eps K M.k * 2 ^ M.k) * (n1 K a M.N * nb + na * n1 K b M.N)

theorem svpDelta_nonneg (M : F64Mod K) (a b : Array Int) (na nb : K) (hna0 : 0 ≤ na) (hnb0 : 0 ≤ nb) :
    0 ≤ svpDelta M a b na nb := by
  unfold svpDelta
  have hθ0 : (0 : K) ≤ eps K M.k * 2 ^ M.k := mul_nonneg (eps_nonneg M.k) (by positivity)
  have hf0 := fB_nonneg (eps_nonneg (K := K) M.k) (mu_nonneg (K := K)) hθ0
  have h1 : (0 : K) ≤ n1 K a M.N := n1_nonneg _ _
  have h2 : (0 : K) ≤ n1 K b M.N := n1_nonneg _ _
  positivity

/-- **the pointwise product of two computed transforms** against the exact transform of the exact product -/
theorem svp_stage (M : F64Mod K) (a b : Array Int) (ha : Box M.k a) (hb : Box M.k b)
    (hok : MulOk M.c M.k M.cN M.sN a b) (na nb : K) (hna0 : 0 ≤ na) (hnb0 : 0 ≤ nb)
    (hna : n2sq K a M.N ≤ na ^ 2) (hnb : n2sq K b M.N ≤ nb ^ 2) (hnl : nb ≤ n1 K b M.N) :
    LimbMetric M (stM M.c M.k M.cN M.sN a b) (nmul M.N a b) (svpDelta M a b na nb) := by
  have fa := fwd_poly (K := K) M.c M.k M.cN M.sN M.cNi M.sNi M.ok.cfg M.ζ M.hζ M.hI M.hcs a ha hok.okA
  have fb := fwd_poly (K := K) M.c M.k M.cN M.sN M.cNi M.sNi M.ok.cfg M.ζ M.hζ M.hI M.hcs b hb hok.okB
  obtain ⟨m1, m2, _⟩ := C01Err.mul_err (K := K) M.c.mulFma M.k M.ok.cfg.mulFma (stF M.c M.k M.cN M.sN a)
    (stF M.c M.k M.cN M.sN b) hok.okM
  have hM0 : (0 : K) ≤ 2 ^ M.k := by positivity
  have hM1 : (1 : K) ≤ 2 ^ M.k := one_le_pow₀ (by norm_num)
  obtain ⟨_, r2⟩ := dft_prod_err (range (2 ^ M.k)) (fun j => V M.ζ (pkC a (2 ^ M.k)) M.k 0 j)
    (fun j => V M.ζ (pkC b (2 ^ M.k)) M.k 0 j) (fun j => outC (stF M.c M.k M.cN M.sN a) M.k j)
    (fun j => outC (stF M.c M.k M.cN M.sN b) M.k j) (fun j => outC (stM M.c M.k M.cN M.sN a b) M.k j)
    (eps K M.k) ((mu64 : ℚ) : K) na nb (n1 K a M.N) (n1 K b M.N) (2 ^ M.k) (2 ^ M.k)
    (eps_nonneg M.k) mu_nonneg hna0 hnb0 (n1_nonneg _ _) (n1_nonneg _ _) hM0 hM0 (by nlinarith) hnl fa.2
    (by rw [V_sum M.k M.ζ M.hζ a, mul_comm]; exact mul_le_mul_of_nonneg_right hna hM0)
    (fun j hj => V_sup M.k M.ζ M.hζ M.hI a j (mem_range.1 hj)) fb.2
    (by rw [V_sum M.k M.ζ M.hζ b, mul_comm]; exact mul_le_mul_of_nonneg_right hnb hM0)
    (fun j hj => V_sup M.k M.ζ M.hζ M.hI b j (mem_range.1 hj))
    (fun j hj => m2 j (mem_range.1 hj))
  refine ⟨svpDelta_nonneg M a b na nb hna0 hnb0, fun p hp => ?_, ?_⟩
  · have := m1 p hp
    rwa [getElem!_nat] at this
  · refine le_trans (le_of_eq ?_) r2
    exact sum_congr rfl (fun j hj => by rw [V_prod M.k M.ζ M.hI a b j (mem_range.1 hj)])

end Spq.ProgErr2
