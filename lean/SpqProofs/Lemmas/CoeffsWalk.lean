/-
  Generic in-place cycle walk carrying one value (the do-while of `znx_rotate_inplace_i64` and
  `znx_mul_xp_minus_one_inplace`), on arrays: adapted from the design spike `Walk.lean`.
-/
import SpqProofs.Lemmas.CoeffsBasic
import Mathlib.Logic.Function.Iterate
namespace Spq.Rq
open Spq
variable {α : Type}

/-- generic walk: at each step the cell `σ j` receives `G j t (old content of σ j)` where `t` is the
    value carried from cell `j`; the old content is carried on. -/
def walkG (σ : Nat → Nat) (G : Nat → α → α → α) (z : α) (j0 : Nat) :
    Nat → Nat → α → Array α → Nat → Array α × Nat
  | 0, _, _, res, nb => (res, nb)
  | fuel + 1, j, t, res, nb =>
    let nj := σ j
    let t2 := res.getD nj z
    let res' := res.setIfInBounds nj (G j t t2)
    if nj = j0 then (res', nb + 1) else walkG σ G z j0 fuel nj t2 res' (nb + 1)

/-- state after `s` steps of the walk that started at `j0` on the array `f0` -/
def WalkInv (σ : Nat → Nat) (G : Nat → α → α → α) (z : α) (j0 : Nat) (f0 : Array α) (s : Nat)
    (f : Array α) : Prop :=
  f.size = f0.size ∧
  (∀ i, i < s → f.getD (σ^[i+1] j0) z =
      G (σ^[i] j0) (f0.getD (σ^[i] j0) z) (f0.getD (σ^[i+1] j0) z)) ∧
  (∀ x, (∀ i, i < s → x ≠ σ^[i+1] j0) → f.getD x z = f0.getD x z)

theorem iter_ne (σ : Nat → Nat) (j0 L : Nat) (hL : 0 < L) (hret : σ^[L] j0 = j0)
    (hdist : ∀ i j, i < L → j < L → σ^[i] j0 = σ^[j] j0 → i = j)
    (i s : Nat) (his : i < s) (hs : s < L) : σ^[i+1] j0 ≠ σ^[s+1] j0 := by
  intro e
  by_cases hlast : s + 1 = L
  · have : σ^[i+1] j0 = σ^[0] j0 := by rw [e, hlast, hret]; rfl
    have := hdist (i+1) 0 (by omega) hL this
    omega
  · have := hdist (i+1) (s+1) (by omega) (by omega) e
    omega

theorem walkG_spec (σ : Nat → Nat) (G : Nat → α → α → α) (z : α) (j0 L : Nat) (f0 : Array α)
    (hb : ∀ i, σ^[i] j0 < f0.size)
    (hL : 0 < L) (hret : σ^[L] j0 = j0)
    (hdist : ∀ i j, i < L → j < L → σ^[i] j0 = σ^[j] j0 → i = j) :
    ∀ (r s fuel : Nat) (f : Array α) (nb : Nat), s + r = L → 0 < r → r ≤ fuel →
      WalkInv σ G z j0 f0 s f →
      (walkG σ G z j0 fuel (σ^[s] j0) (f0.getD (σ^[s] j0) z) f nb).2 = nb + r ∧
      WalkInv σ G z j0 f0 L (walkG σ G z j0 fuel (σ^[s] j0) (f0.getD (σ^[s] j0) z) f nb).1 := by
  intro r
  induction r with
  | zero => intro s fuel f nb _ h0; omega
  | succ r ih =>
    intro s fuel f nb hs _ hfuel hinv
    obtain ⟨fuel', rfl⟩ : ∃ k, fuel = k + 1 := ⟨fuel - 1, by omega⟩
    obtain ⟨hsz, hi1, hi2⟩ := hinv
    have hsL : s < L := by omega
    have hnj : σ (σ^[s] j0) = σ^[s+1] j0 := (Function.iterate_succ_apply' σ s j0).symm
    have hne := fun i (hi : i < s) => iter_ne σ j0 L hL hret hdist i s hi hsL
    have horig : f.getD (σ^[s+1] j0) z = f0.getD (σ^[s+1] j0) z :=
      hi2 _ (fun i hi => (hne i hi).symm)
    have hinb : σ^[s+1] j0 < f.size := by rw [hsz]; exact hb _
    have hinv' : WalkInv σ G z j0 f0 (s+1)
        (f.setIfInBounds (σ^[s+1] j0) (G (σ^[s] j0) (f0.getD (σ^[s] j0) z) (f0.getD (σ^[s+1] j0) z))) := by
      refine ⟨by rw [Array.size_setIfInBounds]; exact hsz, ?_, ?_⟩
      · intro i hi
        rw [getD_setIfInBounds]
        by_cases his : i = s
        · subst his; rw [if_pos ⟨rfl, hinb⟩]
        · have : ¬ (σ^[s+1] j0 = σ^[i+1] j0 ∧ σ^[s+1] j0 < f.size) := by
            intro h; exact hne i (by omega) h.1.symm
          rw [if_neg this]
          exact hi1 i (by omega)
      · intro x hx
        rw [getD_setIfInBounds]
        have : ¬ (σ^[s+1] j0 = x ∧ σ^[s+1] j0 < f.size) := by
          intro h; exact hx s (by omega) h.1.symm
        rw [if_neg this]
        exact hi2 x (fun i hi => hx i (by omega))
    simp only [walkG, hnj, horig]
    by_cases hend : σ^[s+1] j0 = j0
    · have hlast : s + 1 = L := by
        by_contra hne'
        have : σ^[s+1] j0 = σ^[0] j0 := by rw [hend]; rfl
        have := hdist (s+1) 0 (by omega) hL this
        omega
      simp only [hend, if_true]
      rw [hend] at hinv'
      refine ⟨by omega, ?_⟩
      rw [← hlast]; exact hinv'
    · simp only [hend, if_false]
      have hr : 0 < r := by
        by_contra h
        have : s + 1 = L := by omega
        rw [this, hret] at hend; exact hend rfl
      have := ih (s+1) fuel' _ (nb+1) (by omega) hr (by omega) hinv'
      refine ⟨by rw [this.1]; omega, this.2⟩

/-- a complete cycle walk from `j0` -/
theorem walkG_cycle (σ : Nat → Nat) (G : Nat → α → α → α) (z : α) (j0 L : Nat) (f0 : Array α)
    (hb : ∀ i, σ^[i] j0 < f0.size)
    (hL : 0 < L) (hret : σ^[L] j0 = j0)
    (hdist : ∀ i j, i < L → j < L → σ^[i] j0 = σ^[j] j0 → i = j)
    (fuel nb : Nat) (hfuel : L ≤ fuel) :
    (walkG σ G z j0 fuel j0 (f0.getD j0 z) f0 nb).2 = nb + L ∧
    WalkInv σ G z j0 f0 L (walkG σ G z j0 fuel j0 (f0.getD j0 z) f0 nb).1 := by
  have := walkG_spec σ G z j0 L f0 hb hL hret hdist L 0 fuel f0 nb (by omega) hL hfuel
    ⟨rfl, fun i hi => by omega, fun x _ => rfl⟩
  simpa using this

end Spq.Rq
