/-
  Scalar lemmas of the q120 NTT model (one lane, one operation): the wrapped 64-bit operations of
  `Spq.Q120Ntt` agree with exact arithmetic under explicit range conditions, and the two lazy
  multiplications (`split_precompmul_si256`, `modq_red`) are congruent to the exact product modulo q.
-/
import Spq.Q120Ntt
import Mathlib.Tactic.Ring
import Mathlib.Tactic.Linarith
import Mathlib.Tactic.Positivity
import Mathlib.Data.ZMod.Basic

namespace Spq.Q120Ntt

/-! ### "nothing exceeds its word" predicates (on the machine values actually computed) -/

/-- `_mm256_add_epi64` does not carry out of 64 bits -/
def addSafe (a b : Nat) : Prop := a + b < W64
/-- `_mm256_sub_epi64` does not borrow -/
def subSafe (a b : Nat) : Prop := b ≤ a
/-- `split_precompmul_si256`: both data operands of `_mm256_mul_epu32` fit in 32 bits (the twiddle operand
    is the packed word whose low / high half is selected by design) and the final sum does not carry -/
def splitMulSafe (inp po h mask : Nat) : Prop :=
  (inp &&& mask) < W32 ∧ (inp >>> h) < W32 ∧
    addSafe (mulEpu32 (inp &&& mask) po) (mulEpu32 (inp >>> h) (po >>> 32))
/-- `modq_red`: the high part and the constant fit in 32 bits, the final sum does not carry -/
def modqRedSafe (R : Reduc) (x : Nat) : Prop :=
  (x >>> R.h) < W32 ∧ R.cst < W32 ∧ addSafe (x &&& R.mask) (mulEpu32 (x >>> R.h) R.cst)
def redIfSafe (R : Reduc) (b : Bool) (x : Nat) : Prop := b = true → modqRedSafe R x

theorem add64_eq {a b : Nat} (h : addSafe a b) : add64 a b = a + b := Nat.mod_eq_of_lt h

theorem sub64_eq {a b : Nat} (h : subSafe a b) (ha : a < W64) : sub64 a b = a - b := by
  unfold sub64 subSafe at *
  have : a + W64 - b = (a - b) + W64 := by omega
  rw [this, Nat.add_mod_right]
  exact Nat.mod_eq_of_lt (by omega)

theorem add64_lt (a b : Nat) : add64 a b < W64 := Nat.mod_lt _ (by decide)
theorem sub64_lt (a b : Nat) : sub64 a b < W64 := Nat.mod_lt _ (by decide)
theorem splitMul_lt (a b c d : Nat) : splitMul a b c d < W64 := add64_lt _ _
theorem modqRed_lt (R : Reduc) (x : Nat) : modqRed R x < W64 := add64_lt _ _

theorem mulEpu32_eq {a b : Nat} (ha : a < W32) (hb : b < W32) : mulEpu32 a b = a * b := by
  unfold mulEpu32; rw [Nat.mod_eq_of_lt ha, Nat.mod_eq_of_lt hb]

theorem and_mask (x mask h : Nat) (hm : mask + 1 = 2 ^ h) : x &&& mask = x % 2 ^ h := by
  have : mask = 2 ^ h - 1 := by omega
  rw [this, Nat.and_two_pow_sub_one_eq_mod]

/-- the packed twiddle word for a residue `u < q < 2^32`, `h ≤ 32` -/
theorem packTw_eq (q h u : Nat) (hq : q ≤ W32) (hu : u < q) (hh : h ≤ 32) :
    packTw q h u = ((u * 2 ^ h) % q) * W32 + u := by
  unfold packTw
  simp only [W32, W64] at *
  have hq0 : 0 < q := by omega
  have h32 : (2:Nat) ^ h ≤ 4294967296 := by
    calc (2:Nat) ^ h ≤ 2 ^ 32 := Nat.pow_le_pow_right (by norm_num) hh
      _ = 4294967296 := by norm_num
  have hu32 : u < 4294967296 := by omega
  have h1 : u * 2 ^ h < 18446744073709551616 := by
    have : u * 2 ^ h ≤ 4294967295 * 4294967296 := Nat.mul_le_mul (by omega) h32
    omega
  have ht1 : (u * 2 ^ h) % q < q := Nat.mod_lt _ hq0
  simp only [Nat.shiftLeft_eq]
  rw [Nat.mod_eq_of_lt h1]
  generalize (u * 2 ^ h) % q = t1 at ht1 ⊢
  have e32 : (2:Nat) ^ 32 = 4294967296 := by norm_num
  rw [e32, Nat.mod_eq_of_lt (by omega), Nat.mod_eq_of_lt (by omega)]

/-- **`split_precompmul_si256` is sound** (adapted from the design spike `Lvl.splitMul_sound`).
    For a modulus `q ≤ 2^32`, a residue `u < q`, a split point `h ≤ 32` with `mask = 2^h - 1`, and an input
    `inp < B ≤ 2^(h+32)` such that the worst-case sum fits in 64 bits: no operand of `mul_epu32` is truncated,
    the sum does not wrap, the result is the exact two-term product, it is `≡ inp * u (mod q)` and bounded. -/
theorem splitMul_sound (q u h mask inp B : Nat)
    (hq : q ≤ W32) (hu : u < q) (hh : h ≤ 32) (hm : mask + 1 = 2 ^ h)
    (hB : inp < B) (hBh : B ≤ 2 ^ (h + 32))
    (hfit : (2 ^ h - 1 + (B - 1) / 2 ^ h) * (q - 1) < W64) :
    let t1 := (u * 2 ^ h) % q
    let r := splitMul inp (packTw q h u) h mask
    splitMulSafe inp (packTw q h u) h mask
    ∧ r = (inp % 2 ^ h) * u + (inp / 2 ^ h) * t1
    ∧ r % q = (inp * u) % q
    ∧ r ≤ (2 ^ h - 1 + (B - 1) / 2 ^ h) * (q - 1) := by
  intro t1 r
  have hq0 : 0 < q := by omega
  have ht1 : t1 < q := Nat.mod_lt _ hq0
  have hpos : 0 < 2 ^ h := by positivity
  have h32 : (2:Nat) ^ h ≤ 2 ^ 32 := Nat.pow_le_pow_right (by norm_num) hh
  have hlo : inp % 2 ^ h < 2 ^ h := Nat.mod_lt _ hpos
  have hhiB : inp / 2 ^ h ≤ (B - 1) / 2 ^ h := Nat.div_le_div_right (by omega)
  have hhi : inp / 2 ^ h < 2 ^ 32 := by
    rw [Nat.div_lt_iff_lt_mul hpos]
    calc inp < B := hB
      _ ≤ 2 ^ (h + 32) := hBh
      _ = 2 ^ 32 * 2 ^ h := by rw [pow_add]; ring
  have hu32 : u < W32 := by omega
  have ht132 : t1 < W32 := by omega
  have e1 : packTw q h u % W32 = u := by
    rw [packTw_eq q h u hq hu hh]; exact Nat.mul_add_mod_of_lt hu32
  have e2 : packTw q h u >>> 32 = t1 := by
    rw [packTw_eq q h u hq hu hh, Nat.shiftRight_eq_div_pow]
    show ((u * 2 ^ h) % q * W32 + u) / W32 = t1
    rw [Nat.mul_comm, Nat.mul_add_div (by decide), Nat.div_eq_of_lt hu32]; rfl
  have elo : inp &&& mask = inp % 2 ^ h := and_mask _ _ _ hm
  have ehi : inp >>> h = inp / 2 ^ h := Nat.shiftRight_eq_div_pow _ _
  have hlo32 : inp % 2 ^ h < W32 := lt_of_lt_of_le hlo h32
  have m1 : mulEpu32 (inp &&& mask) (packTw q h u) = (inp % 2 ^ h) * u := by
    unfold mulEpu32; rw [e1, elo, Nat.mod_eq_of_lt hlo32]
  have m2 : mulEpu32 (inp >>> h) (packTw q h u >>> 32) = (inp / 2 ^ h) * t1 := by
    rw [e2, ehi]; exact mulEpu32_eq hhi ht132
  have b1 : inp % 2 ^ h * u ≤ (2 ^ h - 1) * (q - 1) := Nat.mul_le_mul (by omega) (by omega)
  have b2 : inp / 2 ^ h * t1 ≤ ((B - 1) / 2 ^ h) * (q - 1) := Nat.mul_le_mul hhiB (by omega)
  have bsum : inp % 2 ^ h * u + inp / 2 ^ h * t1 ≤ (2 ^ h - 1 + (B - 1) / 2 ^ h) * (q - 1) := by
    rw [Nat.add_mul]; exact Nat.add_le_add b1 b2
  have hsafe : addSafe (mulEpu32 (inp &&& mask) (packTw q h u)) (mulEpu32 (inp >>> h) (packTw q h u >>> 32)) := by
    unfold addSafe; rw [m1, m2]; omega
  have key : r = (inp % 2 ^ h) * u + (inp / 2 ^ h) * t1 := by
    show splitMul inp (packTw q h u) h mask = _
    unfold splitMul; rw [add64_eq hsafe, m1, m2]
  refine ⟨⟨by rw [elo]; exact hlo32, by rw [ehi]; exact hhi, hsafe⟩, key, ?_, by rw [key]; exact bsum⟩
  rw [key]
  have hsplit : inp = inp % 2 ^ h + (inp / 2 ^ h) * 2 ^ h := by
    rw [Nat.mul_comm]; exact (Nat.mod_add_div inp (2 ^ h)).symm
  have : (inp / 2 ^ h * t1) % q = (inp / 2 ^ h * (u * 2 ^ h)) % q := by
    show (inp / 2 ^ h * ((u * 2 ^ h) % q)) % q = _
    rw [Nat.mul_mod, Nat.mod_mod, ← Nat.mul_mod]
  rw [Nat.add_mod, this, ← Nat.add_mod]
  congr 1
  conv_rhs => rw [hsplit]
  ring

/-- **`modq_red` is sound**: for `x < B ≤ 2^(h+32)`, `cst < 2^32`, `cst ≡ 2^h (mod q)`, worst case fitting in
    64 bits: nothing is truncated, no wrap, result `≡ x (mod q)` and bounded. -/
theorem modqRed_sound (q : Nat) (R : Reduc) (x B : Nat)
    (hm : R.mask + 1 = 2 ^ R.h) (hc : R.cst < W32) (hcq : R.cst % q = 2 ^ R.h % q)
    (hB : x < B) (hBh : B ≤ 2 ^ (R.h + 32))
    (hfit : 2 ^ R.h - 1 + (B - 1) / 2 ^ R.h * R.cst < W64) :
    modqRedSafe R x
    ∧ modqRed R x = x % 2 ^ R.h + (x / 2 ^ R.h) * R.cst
    ∧ modqRed R x % q = x % q
    ∧ modqRed R x ≤ 2 ^ R.h - 1 + (B - 1) / 2 ^ R.h * R.cst := by
  have hpos : 0 < 2 ^ R.h := by positivity
  have hlo : x % 2 ^ R.h < 2 ^ R.h := Nat.mod_lt _ hpos
  have hhiB : x / 2 ^ R.h ≤ (B - 1) / 2 ^ R.h := Nat.div_le_div_right (by omega)
  have hhi : x / 2 ^ R.h < W32 := by
    rw [Nat.div_lt_iff_lt_mul hpos]
    calc x < B := hB
      _ ≤ 2 ^ (R.h + 32) := hBh
      _ = W32 * 2 ^ R.h := by rw [pow_add]; ring
  have elo : x &&& R.mask = x % 2 ^ R.h := and_mask _ _ _ hm
  have ehi : x >>> R.h = x / 2 ^ R.h := Nat.shiftRight_eq_div_pow _ _
  have m2 : mulEpu32 (x >>> R.h) R.cst = (x / 2 ^ R.h) * R.cst := by rw [ehi]; exact mulEpu32_eq hhi hc
  have b2 : x / 2 ^ R.h * R.cst ≤ (B - 1) / 2 ^ R.h * R.cst := Nat.mul_le_mul_right _ hhiB
  have hsafe : addSafe (x &&& R.mask) (mulEpu32 (x >>> R.h) R.cst) := by
    unfold addSafe; rw [m2, elo]; omega
  have key : modqRed R x = x % 2 ^ R.h + (x / 2 ^ R.h) * R.cst := by
    unfold modqRed; rw [add64_eq hsafe, m2, elo]
  refine ⟨⟨by rw [ehi]; exact hhi, hc, hsafe⟩, key, ?_, by rw [key]; omega⟩
  rw [key]
  have hsplit : x = x % 2 ^ R.h + (x / 2 ^ R.h) * 2 ^ R.h := by
    rw [Nat.mul_comm]; exact (Nat.mod_add_div x (2 ^ R.h)).symm
  have : (x / 2 ^ R.h * R.cst) % q = (x / 2 ^ R.h * 2 ^ R.h) % q := by
    rw [Nat.mul_mod, hcq, ← Nat.mul_mod]
  rw [Nat.add_mod, this, ← Nat.add_mod, ← hsplit]

end Spq.Q120Ntt
