/-
  Block loop of `fft64_vmp_apply_dft_to_dft` at heap level, part 2: column pair, odd last column, one block,
  the whole loop.
-/
import SpqProofs.Lemmas.ModHeapApplyBig
namespace Spq.ModuleHeap
open Spq Heap Reim4
variable {γ α : Type}

section
variable (c : Module.Parts α) (cd : Cells γ α) (hr : RoundTrip cd) (h : Heap γ)
  (res rsz adft pmat nrows ncols tmp tb rowMax colMax : Nat)
  (K : BigCtx c h res rsz adft pmat nrows ncols tmp tb rowMax colMax)
include hr K

/-- `reim4_vec_mat2cols_product` on the extracted block and the column pair starting at `col` -/
theorem prod2Step (blk col : Nat) (hblk : blk < c.m / 4) (hcol : col + 2 ≤ ncols) (g : Heap γ) (R : Array γ)
    (P : BlkInv c cd h res rsz adft tmp rowMax blk g R) :
    Fr (In tmp 16) g (kProd2 c cd rowMax nrows tmp (tmp + 16) (pmat + blk * (8 * nrows * ncols) + col * (8 * nrows)) g) ∧
    (kProd2 c cd rowMax nrows tmp (tmp + 16) (pmat + blk * (8 * nrows * ncols) + col * (8 * nrows)) g).readLimb cd.dflt tmp 16 =
      (out2Of c rowMax nrows ncols blk col (rdD cd h adft (rowMax * c.nn)) (rdD cd h pmat (c.nn * nrows * ncols))).map cd.enc := by
  obtain ⟨⟨f, v⟩, ve⟩ := P
  have hb := pm_bound2 c.nn c.m nrows ncols blk col K.hnn K.hm4 hblk hcol
  have h3 := K.hpm; have h4 := K.htmp; have h5 := K.dpt; have h6 := K.drp
  obtain ⟨fa, va⟩ := kProd2_spec c cd g rowMax nrows tmp (tmp + 16) (pmat + blk * (8 * nrows * ncols) + col * (8 * nrows))
    (by rw [f.size]; omega) (by rw [f.size]; omega) (by rw [f.size]; omega) (by omega) (by omega)
  refine ⟨fa, ?_⟩
  rw [va, rdD_of_cells cd hr _ _ _ _ ve,
    rdD_of_fr f cd _ _ (fun x hx hw => by unfold bigW In at *; omega)]
  unfold out2Of
  have e : pmat + blk * (8 * nrows * ncols) + col * (8 * nrows) = pmat + (blk * (8 * nrows * ncols) + col * (8 * nrows)) := by omega
  rw [e, ← extract_rdD cd h pmat (c.nn * nrows * ncols) _ (16 * nrows) (by omega)]

theorem pairStep (blk t : Nat) (hblk : blk < c.m / 4) (ht : t < colMax / 2) (g : Heap γ) (R : Array γ)
    (P : BlkInv c cd h res rsz adft tmp rowMax blk g R) :
    BlkInv c cd h res rsz adft tmp rowMax blk (pairBody c cd res pmat nrows ncols tmp tb rowMax blk t g)
      (saveG (Array.map cd.enc) c.m c.nn blk
        (saveG (Array.map cd.enc) c.m c.nn blk R (2 * t)
          ((out2Of c rowMax nrows ncols blk (2 * t) (rdD cd h adft (rowMax * c.nn)) (rdD cd h pmat (c.nn * nrows * ncols))).extract 0 8))
        (2 * t + 1)
        ((out2Of c rowMax nrows ncols blk (2 * t) (rdD cd h adft (rowMax * c.nn)) (rdD cd h pmat (c.nn * nrows * ncols))).extract 8 16)) := by
  have htb := K.htb
  have hc := K.hcol
  unfold pairBody
  rw [scr_eq tb 0 16 _ (by omega), scr_eq tb 16 (8 * rowMax) _ (by omega)]
  obtain ⟨fa, va⟩ := prod2Step c cd hr h res rsz adft pmat nrows ncols tmp tb rowMax colMax K blk (2 * t) hblk (by omega) g R P
  obtain ⟨P1, f1⟩ := prodSaveStep c cd hr h res rsz adft pmat nrows ncols tmp tb rowMax colMax K blk (2 * t) tmp hblk (by omega)
    (by omega) g _ R _ P fa (cells_lo cd _ tmp _ va) (by simp [size_out2Of])
  have h4 := K.htmp; have h5 := K.drt
  have vhi := cells_hi cd _ tmp _ va
  rw [← region_keep cd.dflt (tmp + 8) 8 f1 (fun x hx hw => by unfold In at *; omega)] at vhi
  exact (prodSaveStep c cd hr h res rsz adft pmat nrows ncols tmp tb rowMax colMax K blk (2 * t + 1) (tmp + 8) hblk (by omega)
    (by omega) _ _ _ _ P1 (Fr.refl _ _) vhi (by simp [size_out2Of])).1

theorem tailStep (blk : Nat) (hblk : blk < c.m / 4) (hodd : colMax % 2 = 1) (g : Heap γ) (R : Array γ)
    (P : BlkInv c cd h res rsz adft tmp rowMax blk g R) :
    BlkInv c cd h res rsz adft tmp rowMax blk (tailBody c cd res pmat nrows ncols tmp tb rowMax colMax blk g)
      (saveG (Array.map cd.enc) c.m c.nn blk R (colMax - 1)
        ((outLastOf c rowMax colMax nrows ncols blk (rdD cd h adft (rowMax * c.nn)) (rdD cd h pmat (c.nn * nrows * ncols))).extract 0 8)) := by
  have htb := K.htb
  have hc := K.hcol
  unfold tailBody outLastOf
  by_cases hl : (ncols == colMax) = true
  · -- the last column is alone in the prepared matrix
    have hle : colMax = ncols := by have : ncols = colMax := by simpa using hl
                                    exact this.symm
    simp only [hl, if_true]
    subst hle
    rw [scr_eq tb 0 8 _ (by omega), scr_eq tb 16 (8 * rowMax) _ (by omega)]
    obtain ⟨⟨f, v⟩, ve⟩ := P
    have hb := pm_bound1 c.nn c.m nrows colMax blk K.hnn K.hm4 hblk (by omega)
    have h3 := K.hpm; have h4 := K.htmp; have h5 := K.dpt; have h6 := K.drp
    obtain ⟨fa, va⟩ := kProd1_spec c cd g rowMax nrows tmp (tmp + 16) (pmat + blk * (8 * nrows * colMax) + (colMax - 1) * (8 * nrows))
      (by rw [f.size]; omega) (by rw [f.size]; omega) (by rw [f.size]; omega) (by omega) (by omega)
    rw [rdD_of_cells cd hr _ _ _ _ ve, rdD_of_fr f cd _ _ (fun x hx hw => by unfold bigW In at *; omega)] at va
    have e : pmat + blk * (8 * nrows * colMax) + (colMax - 1) * (8 * nrows) =
        pmat + (blk * (8 * nrows * colMax) + (colMax - 1) * (8 * nrows)) := by omega
    rw [e, ← extract_rdD cd h pmat (c.nn * nrows * colMax) _ (8 * nrows) (by omega)] at va
    rw [← e] at va
    rw [← extract_full _ 8 (size_prod1 c rowMax _ _)] at va
    have P0 : BlkInv c cd h res rsz adft tmp rowMax blk g R := ⟨⟨f, v⟩, ve⟩
    exact (prodSaveStep c cd hr h res rsz adft pmat nrows colMax tmp tb rowMax colMax K blk (colMax - 1) tmp hblk (by omega)
      (by omega) g _ R _ P0 (fa.mono (fun x q => by unfold In at *; omega)) va (by simp [size_prod1])).1
  · -- the last column is the first of a pair
    have hlt : colMax < ncols := by
      have : ncols ≠ colMax := by simpa using hl
      omega
    simp only [hl, if_false, Bool.false_eq_true]
    rw [scr_eq tb 0 16 _ (by omega), scr_eq tb 16 (8 * rowMax) _ (by omega)]
    obtain ⟨fa, va⟩ := prod2Step c cd hr h res rsz adft pmat nrows ncols tmp tb rowMax colMax K blk (colMax - 1) hblk (by omega) g R P
    exact (prodSaveStep c cd hr h res rsz adft pmat nrows ncols tmp tb rowMax colMax K blk (colMax - 1) tmp hblk (by omega)
      (by omega) g _ R _ P fa (cells_lo cd _ tmp _ va) (by simp [size_out2Of])).1

/-- one iteration of the block loop -/
theorem blkStep (blk : Nat) (hblk : blk < c.m / 4) (g : Heap γ) (R : Array γ)
    (P : Fr (bigW c res rsz tmp rowMax) h g ∧ g.readLimb cd.dflt res (rsz * c.nn) = R) :
    Fr (bigW c res rsz tmp rowMax) h (bigBody c cd res adft pmat nrows ncols tmp tb rowMax colMax blk g) ∧
    (bigBody c cd res adft pmat nrows ncols tmp tb rowMax colMax blk g).readLimb cd.dflt res (rsz * c.nn) =
      applyBlkG (Array.map cd.enc) c rowMax colMax nrows ncols (rdD cd h adft (rowMax * c.nn))
        (rdD cd h pmat (c.nn * nrows * ncols)) blk R := by
  obtain ⟨f, v⟩ := P
  have htb := K.htb
  have h1 := K.hadft; have h2 := K.htmp; have h3 := K.dat; have h4 := K.dra; have h5 := K.drt
  unfold bigBody applyBlkG
  simp only [scr_eq tb 16 (8 * rowMax) _ (show 8 * (16 + 8 * rowMax) ≤ tb by omega)]
  -- the extraction into tmp[16, 16 + 8*rowMax)
  obtain ⟨f1, v1⟩ := kExtractRows_spec c cd g rowMax blk (tmp + 16) adft (by rw [f.size]; omega) (by rw [f.size]; omega)
    (by omega)
  rw [rdD_of_fr f cd _ _ (fun x hx hw => by unfold bigW In at *; omega)] at v1
  have P1 : BlkInv c cd h res rsz adft tmp rowMax blk (kExtractRows c cd rowMax blk (tmp + 16) adft g) R := by
    refine ⟨⟨(f.trans f1).mono (fun x q => ?_), ?_⟩, v1⟩
    · unfold bigW at *
      rcases q with q | q
      · exact q
      · right; unfold In at *; omega
    · rw [region_keep cd.dflt res _ f1 (fun x hx hw => by unfold In at *; omega)]; exact v
  -- the column pairs
  have P2 := loop_sim (fun g R => BlkInv c cd h res rsz adft tmp rowMax blk g R) (colMax / 2)
    (fun t h => pairBody c cd res pmat nrows ncols tmp tb rowMax blk t h)
    (fun R t => saveG (Array.map cd.enc) c.m c.nn blk
        (saveG (Array.map cd.enc) c.m c.nn blk R (2 * t)
          ((out2Of c rowMax nrows ncols blk (2 * t) (rdD cd h adft (rowMax * c.nn)) (rdD cd h pmat (c.nn * nrows * ncols))).extract 0 8))
        (2 * t + 1)
        ((out2Of c rowMax nrows ncols blk (2 * t) (rdD cd h adft (rowMax * c.nn)) (rdD cd h pmat (c.nn * nrows * ncols))).extract 8 16))
    _ R P1 (fun t g R ht P => pairStep c cd hr h res rsz adft pmat nrows ncols tmp tb rowMax colMax K blk t hblk ht g R P)
  by_cases ho : (colMax % 2 == 1) = true
  · simp only [ho, if_true]
    exact (tailStep c cd hr h res rsz adft pmat nrows ncols tmp tb rowMax colMax K blk hblk (by simpa using ho) _ _ P2).1
  · simp only [ho, if_false, Bool.false_eq_true]
    exact P2.1

/-- the block loop -/
theorem bigLoop_sim :
    Fr (bigW c res rsz tmp rowMax) h (loop (c.m / 4) (bigBody c cd res adft pmat nrows ncols tmp tb rowMax colMax) h) ∧
    (loop (c.m / 4) (bigBody c cd res adft pmat nrows ncols tmp tb rowMax colMax) h).readLimb cd.dflt res (rsz * c.nn) =
      applyBigG (Array.map cd.enc) c rowMax colMax nrows ncols (rdD cd h adft (rowMax * c.nn))
        (rdD cd h pmat (c.nn * nrows * ncols)) (h.readLimb cd.dflt res (rsz * c.nn)) := by
  unfold applyBigG
  exact loop_sim (fun g R => Fr (bigW c res rsz tmp rowMax) h g ∧ g.readLimb cd.dflt res (rsz * c.nn) = R) (c.m / 4)
    (bigBody c cd res adft pmat nrows ncols tmp tb rowMax colMax)
    (fun R blk => applyBlkG (Array.map cd.enc) c rowMax colMax nrows ncols (rdD cd h adft (rowMax * c.nn))
        (rdD cd h pmat (c.nn * nrows * ncols)) blk R)
    h _ ⟨Fr.refl _ h, rfl⟩
    (fun blk g R hblk P => blkStep c cd hr h res rsz adft pmat nrows ncols tmp tb rowMax colMax K blk hblk g R P)

end
end Spq.ModuleHeap
