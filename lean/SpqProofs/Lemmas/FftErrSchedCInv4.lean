/-
  C06.4, structural schedule theorem (inverse cplx), part 4: the radix-2 schedule `cibfs2` (m ≤ 8).
-/
import SpqProofs.Lemmas.FftErrSchedCInv3
set_option linter.unusedSectionVars false
set_option linter.unusedSimpArgs false
namespace Spq.Fft.SchedC
open Spq.Fft Spq.Fft.Alg Spq.Fft.View Spq.Fft.Sim Spq.Fft.SimP Spq.Fft.LevelN Spq.Fft.KernN Spq.Fft.Tw Spq.Fft.SchedN
open Spq.Fft.Tab (length_flatMap_const)
open Spq.Fft.Sched (iter_counter)
open Spq.Fft.CplxFwd (tw_exps)

variable {R : Type} [Inhabited R]
variable (F : CFlav R) (c s : ℕ → R) (k : ℕ) (y : ℕ → R × R)

/-- one inverse twiddle level of `cibfs2` over the whole region (blocks of size `h ≥ 2` become blocks of size `2h`) -/
theorem cilevel_specN (hk3 : k ≤ 3) (T : Array R) (N ℓ0 j d b0 off m' h t : ℕ) (s0 : RI R) (hd : d ≠ 0)
    (hs : Valid N s0) (hk : k = ℓ0 + j + (d + 1)) (hm : m' = 2 ^ (j + (d + 1))) (hh : h = 2 ^ d)
    (hoff : off = m' * b0) (hN : off + m' ≤ N)
    (hT : SegP T t (((List.range (m' / (2 * h))).flatMap (fun b =>
      eM (h * (1 + 4 * brev ℓ0 b0) + frbN (4 * 2 ^ k) b / 2) ++
      eM (h * (1 + 4 * brev ℓ0 b0) + frbN (4 * 2 ^ k) b / 2))).map (valP c s))) :
    let r := iterFrom (fun b (st : RI R × ℕ) =>
      (twPassL F.ctTop F.lanesTop T st.2 h (off + b * (2 * h)) st.1, st.2 + 4)) (m' / (2 * h)) 0 (s0, t)
    AdvI k (gNetCI F c s k) y (prs s0) (prs r.1) d (d + 1) off m' ∧ Valid N r.1 ∧
      r.2 = t + 4 * (m' / (2 * h)) := by
  intro r
  have hmm : 2 * h = 2 ^ (d + 1) := by rw [hh, pow_succ]; ring
  have hnb : m' / (2 * h) = 2 ^ j := by
    rw [hm, hmm, pow_add]; exact Nat.mul_div_cancel _ (Nat.two_pow_pos _)
  have hm' : m' = 2 ^ j * (2 * h) := by rw [hm, hmm, pow_add]
  have hr : r = (iterFrom (fun b s => twPassL F.ctTop F.lanesTop T (t + 4 * b) h (off + b * (2 * h)) s)
      (m' / (2 * h)) 0 s0, t + 4 * (m' / (2 * h))) :=
    iter_counter (fun b t s => twPassL F.ctTop F.lanesTop T t h (off + b * (2 * h)) s) 4 (m' / (2 * h)) s0 t
  rw [hr]
  simp only
  rw [List.map_flatMap] at hT
  have hseg := SegP.flatMap (T := T) (t := t) _ 4 (m' / (2 * h)) (fun b => by simp [eM]) hT
  have sw := sweepN (VNI k (gNetCI F c s k) y d) (VNI k (gNetCI F c s k) y (d + 1))
    (fun b s => twPassL F.ctTop F.lanesTop T (t + 4 * b) h (off + b * (2 * h)) s) N off (2 * h) (m' / (2 * h))
    (fun b s1 hb hs1 => by
      have hb' : b < 2 ^ j := by omega
      have hsb := hseg b hb
      rw [List.map_append, show t + b * 4 = t + 4 * b by ring] at hsb
      have e := tw_exps ℓ0 j d b0 b k hb' hk
      rw [← hh] at e
      obtain ⟨w0, w0'⟩ := read_eMN c s T (t + 4 * b) _ hsb.left
      obtain ⟨w1, w1'⟩ := read_eMN c s T (t + 4 * b + 2) _ (by simpa [eM] using hsb.right)
      rw [e] at w0 w0' w1 w1'
      rw [show t + 4 * b + 2 + 1 = t + 4 * b + 3 by ring] at w1'
      have hbm' : b * (2 * h) + 2 * h ≤ 2 ^ j * (2 * h) := by
        have : (b + 1) * (2 * h) ≤ 2 ^ j * (2 * h) := Nat.mul_le_mul_right _ hb'
        rw [Nat.add_mul] at this; omega
      have hg := gNetCI_small F c s k (ℓ0 + j) d (b0 * 2 ^ j + b) hk3 hd
      have := itwPassL_advN k y (gNetCI F c s k) F.ctTop F.lanesTop T (t + 4 * b) N (ℓ0 + j) d (b0 * 2 ^ j + b)
        (off + b * (2 * h)) s1 hs1 (by omega) (by rw [hoff, hm', hh]; ring) (by rw [← hh]; omega)
        (by rw [hg, w0, w0']) (fun _ => by rw [hg, w1, w1'])
      rw [← hh] at this
      exact this) s0 hs
  refine ⟨sw.1.of_eq rfl (by rw [hnb, hm']), sw.2, trivial⟩

/-- the `h = 2, 4, …, m/2` loop of `cibfs2` -/
theorem cibfs2Levels_specN (hk3 : k ≤ 3) (T : Array R) (N ℓ0 D b0 off m' : ℕ)
    (hk : k = ℓ0 + D) (hm : m' = 2 ^ D) (hoff : off = m' * b0) (hN : off + m' ≤ N) :
    ∀ n fuel d h pom (s0 : RI R) (t : ℕ), d + n = D → 1 ≤ d → h = 2 ^ d →
      pom = h * (1 + 4 * brev ℓ0 b0) → n ≤ fuel → Valid N s0 →
      SegP T t ((ciBfs2Levels (4 * 2 ^ k) m' fuel h pom).map (valP c s)) →
      AdvI k (gNetCI F c s k) y (prs s0) (prs (cibfs2Levels F T m' off fuel h (s0, t)).1) d D off m' ∧
        Valid N (cibfs2Levels F T m' off fuel h (s0, t)).1 ∧
        (cibfs2Levels F T m' off fuel h (s0, t)).2 = t + (ciBfs2Levels (4 * 2 ^ k) m' fuel h pom).length := by
  have hm2 : m' / 2 = 2 ^ (D - 1) ∨ D = 0 := by
    by_cases h0 : D = 0
    · exact Or.inr h0
    · left
      obtain ⟨D1, rfl⟩ : ∃ D1, D = D1 + 1 := ⟨D - 1, by omega⟩
      rw [hm, pow_succ]; simp
  intro n
  induction n with
  | zero =>
    intro fuel d h pom s0 t hd hd1 hh hpom hfuel hs hT
    have hnot : ¬ h ≤ m' / 2 := by
      rcases hm2 with h2 | h2
      · rw [h2, hh, show d = D by omega]
        have : 2 ^ (D - 1) < 2 ^ D := Nat.pow_lt_pow_right (by omega) (by omega)
        omega
      · omega
    cases fuel with
    | zero =>
      rw [cibfs2Levels, ciBfs2Levels]
      exact ⟨AdvI.cast _ _ _ (AdvG.id (VNI k (gNetCI F c s k) y d) (prs s0) off m') d D rfl (by omega), hs, by simp⟩
    | succ f =>
      rw [cibfs2Levels, if_neg hnot, ciBfs2Levels, if_neg hnot]
      exact ⟨AdvI.cast _ _ _ (AdvG.id (VNI k (gNetCI F c s k) y d) (prs s0) off m') d D rfl (by omega), hs, by simp⟩
  | succ n ih =>
    intro fuel d h pom s0 t hd hd1 hh hpom hfuel hs hT
    obtain ⟨f, rfl⟩ : ∃ f, fuel = f + 1 := ⟨fuel - 1, by omega⟩
    have hle : h ≤ m' / 2 := by
      rcases hm2 with h2 | h2
      · rw [h2, hh]; exact Nat.pow_le_pow_right (by omega) (by omega)
      · omega
    rw [cibfs2Levels, if_pos hle]
    have hlenT : (ciBfs2Levels (4 * 2 ^ k) m' (f + 1) h pom).length
        = 4 * (m' / (2 * h)) + (ciBfs2Levels (4 * 2 ^ k) m' f (h * 2) (pom * 2)).length := by
      rw [ciBfs2Levels, if_pos hle, List.length_append, length_flatMap_const _ 4 _ (fun b => by simp [eM])]; ring
    rw [ciBfs2Levels, if_pos hle, List.map_append, hpom] at hT
    have st := cilevel_specN F c s k y hk3 T N ℓ0 n d b0 off m' h t s0 (by omega) hs (by omega)
      (by rw [hm]; congr 1; omega) hh hoff hN hT.left
    simp only at st
    obtain ⟨sA, tA, hst⟩ : ∃ sA tA, iterFrom (fun b (st : RI R × ℕ) =>
      (twPassL F.ctTop F.lanesTop T st.2 h (off + b * (2 * h)) st.1, st.2 + 4)) (m' / (2 * h)) 0 (s0, t) = (sA, tA) :=
      ⟨_, _, rfl⟩
    rw [hst] at st
    simp only [hst]
    obtain ⟨a1, v1, p1⟩ := st
    simp only at a1 v1 p1
    have hlen : (List.map (valP c s) ((List.range (m' / (2 * h))).flatMap (fun b =>
        eM (h * (1 + 4 * brev ℓ0 b0) + frbN (4 * 2 ^ k) b / 2) ++
        eM (h * (1 + 4 * brev ℓ0 b0) + frbN (4 * 2 ^ k) b / 2)))).length = 4 * (m' / (2 * h)) := by
      rw [List.length_map, length_flatMap_const _ 4 _ (fun b => by simp [eM])]; ring
    have hT2 := hT.right
    rw [hlen, ← p1] at hT2
    have nx := ih f (d + 1) (h * 2) (h * (1 + 4 * brev ℓ0 b0) * 2) sA tA (by omega) (by omega)
      (by rw [hh, pow_succ]) (by ring) (by omega) v1 hT2
    obtain ⟨a2, v2, p2⟩ := nx
    refine ⟨a1.seq a2, v2, ?_⟩
    rw [p2, p1, hlenT, hpom, Nat.add_assoc]

/-- the `h = 1` loop of `cibfs2`: one inverse butterfly per pair, one table entry per pair -/
theorem cifirst_specN (hk3 : k ≤ 3) (T : Array R) (N ℓ0 D1 b0 off m' t : ℕ) (s0 : RI R)
    (hs : Valid N s0) (hk : k = ℓ0 + D1 + 1) (hm : m' = 2 ^ (D1 + 1)) (hoff : off = m' * b0) (hN : off + m' ≤ N)
    (hT : SegP T t (((List.range (m' / 2)).flatMap (fun i =>
      eM (1 + 4 * brev ℓ0 b0 + frbN (4 * 2 ^ k) i / 2))).map (valP c s))) :
    let r := iterFrom (fun j (st : RI R × ℕ) =>
      let t := st.2
      let s := st.1
      let a := off + 2 * j
      let r := F.last s.re[a]! s.im[a]! s.re[a + 1]! s.im[a + 1]! T[t]! T[t + 1]! T[t]! T[t + 1]!
      ((⟨(s.re.set! a r.1).set! (a + 1) r.2.2.1, (s.im.set! a r.2.1).set! (a + 1) r.2.2.2⟩ : RI R), t + 2))
      (m' / 2) 0 (s0, t)
    AdvI k (gNetCI F c s k) y (prs s0) (prs r.1) 0 1 off m' ∧ Valid N r.1 ∧ r.2 = t + 2 * (m' / 2) := by
  intro r
  have hnb : m' / 2 = 2 ^ D1 := by rw [hm, pow_succ]; simp
  have hm' : m' = 2 ^ D1 * 2 := by rw [hm, pow_succ]
  have hr : r = (iterFrom (fun j s => bf (fun ra ia rb ib wr wi => F.last ra ia rb ib wr wi T[t + 2 * j]!
      T[t + 2 * j + 1]!) s (off + 2 * j) (off + 2 * j + 1) T[t + 2 * j]! T[t + 2 * j + 1]!) (m' / 2) 0 s0,
      t + 2 * (m' / 2)) :=
    iter_counter (fun j t s => bf (fun ra ia rb ib wr wi => F.last ra ia rb ib wr wi T[t]! T[t + 1]!) s
      (off + 2 * j) (off + 2 * j + 1) T[t]! T[t + 1]!) 2 (m' / 2) s0 t
  rw [hr]
  simp only
  rw [List.map_flatMap] at hT
  have hseg := SegP.flatMap (T := T) (t := t) _ 2 (m' / 2) (fun b => by simp [eM]) hT
  have sw := sweepN (VNI k (gNetCI F c s k) y 0) (VNI k (gNetCI F c s k) y 1)
    (fun j s => bf (fun ra ia rb ib wr wi => F.last ra ia rb ib wr wi T[t + 2 * j]!
      T[t + 2 * j + 1]!) s (off + 2 * j) (off + 2 * j + 1) T[t + 2 * j]! T[t + 2 * j + 1]!) N off 2 (m' / 2)
    (fun j s1 hj hs1 => by
      have hj' : j < 2 ^ D1 := by omega
      have hsb := hseg j hj
      rw [show t + j * 2 = t + 2 * j by ring] at hsb
      have e := tw_exps ℓ0 D1 0 b0 j k hj' (by omega)
      rw [pow_zero, Nat.one_mul] at e
      obtain ⟨w0, w0'⟩ := read_eMN c s T (t + 2 * j) _ hsb
      rw [e] at w0 w0'
      have := ipair1_advG k y (gNetCI F c s k) (fun ra ia rb ib wr wi => F.last ra ia rb ib wr wi T[t + 2 * j]!
        T[t + 2 * j + 1]!) T[t + 2 * j]! T[t + 2 * j + 1]! N (ℓ0 + D1) (b0 * 2 ^ D1 + j) (off + 2 * j) s1 hs1
        (by omega) (by rw [hoff, hm']; ring) (by
          have : (j + 1) * 2 ≤ 2 ^ D1 * 2 := Nat.mul_le_mul_right _ hj'
          omega) (by rw [gNetCI_last F c s k _ _ hk3, w0, w0']; rfl)
      exact ⟨this.1.of_eq (by ring) rfl, this.2⟩) s0 hs
  refine ⟨sw.1.of_eq rfl (by rw [hnb, hm']), sw.2, trivial⟩

/-- `cibfs2` (m' = 2^D, 2 ≤ m' ≤ 8) -/
theorem cibfs2_specN (hk3 : k ≤ 3) (T : Array R) (N ℓ0 D b0 off m' t : ℕ) (s0 : RI R)
    (hk : k = ℓ0 + D) (hm : m' = 2 ^ D) (hD : 1 ≤ D) (hoff : off = m' * b0) (hN : off + m' ≤ N)
    (hs : Valid N s0)
    (hT : SegP T t ((ciBfs2 (4 * 2 ^ k) m' (m' * (1 + 4 * brev ℓ0 b0))).map (valP c s))) :
    AdvI k (gNetCI F c s k) y (prs s0) (prs (cibfs2 F T m' off (s0, t)).1) 0 D off m' ∧
      Valid N (cibfs2 F T m' off (s0, t)).1 ∧
      (cibfs2 F T m' off (s0, t)).2 = t + (ciBfs2 (4 * 2 ^ k) m' (m' * (1 + 4 * brev ℓ0 b0))).length := by
  obtain ⟨D1, rfl⟩ : ∃ D1, D = D1 + 1 := ⟨D - 1, by omega⟩
  have hpos : 0 < m' := by rw [hm]; exact Nat.two_pow_pos _
  have hkap : m' * (1 + 4 * brev ℓ0 b0) / m' = 1 + 4 * brev ℓ0 b0 := Nat.mul_div_cancel_left _ hpos
  have hfuel : D1 ≤ m' := by have := @Nat.lt_two_pow_self (D1 + 1); omega
  have hlenF : ((List.range (m' / 2)).flatMap (fun i =>
      eM (1 + 4 * brev ℓ0 b0 + frbN (4 * 2 ^ k) i / 2))).length = 2 * (m' / 2) := by
    rw [length_flatMap_const _ 2 _ (fun b => by simp [eM])]; ring
  unfold cibfs2
  rw [ciBfs2, hkap, List.map_append] at hT
  rw [ciBfs2, hkap, List.length_append, hlenF]
  have s1 := cifirst_specN F c s k y hk3 T N ℓ0 D1 b0 off m' t s0 hs (by omega) hm hoff hN hT.left
  simp only at s1
  obtain ⟨sA, tA, hst⟩ : ∃ sA tA, iterFrom (fun j (st : RI R × ℕ) =>
      let t := st.2
      let s := st.1
      let a := off + 2 * j
      let r := F.last s.re[a]! s.im[a]! s.re[a + 1]! s.im[a + 1]! T[t]! T[t + 1]! T[t]! T[t + 1]!
      ((⟨(s.re.set! a r.1).set! (a + 1) r.2.2.1, (s.im.set! a r.2.1).set! (a + 1) r.2.2.2⟩ : RI R), t + 2))
      (m' / 2) 0 (s0, t) = (sA, tA) := ⟨_, _, rfl⟩
  rw [hst] at s1
  simp only [hst]
  obtain ⟨a1, v1, p1⟩ := s1
  simp only at a1 v1 p1
  have hT2 := hT.right
  rw [List.length_map, hlenF, ← p1] at hT2
  have s2 := cibfs2Levels_specN F c s k y hk3 T N ℓ0 (D1 + 1) b0 off m' hk hm hoff hN D1 m' 1 2
    ((1 + 4 * brev ℓ0 b0) * 2) sA tA (by omega) (by omega) (by norm_num) (by ring) hfuel v1 hT2
  obtain ⟨a2, v2, p2⟩ := s2
  refine ⟨a1.seq a2, v2, ?_⟩
  rw [p2, p1]; ring

end Spq.Fft.SchedC
