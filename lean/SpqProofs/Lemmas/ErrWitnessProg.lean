/-
  Non-vacuity witness, part 6 (C16Err): the binary64 module of `N = 8` as an `F64Mod ℝ` — configuration, stored tables,
  exact root `exp(iπ/8)`, twiddle accuracy — and the numeric budgets `RtBudget` (pure round trip of `exA8`) and
  `ProdBudget` (product `exA8 ⊛ exB8`) of the program-level theorems, all hypotheses discharged.
-/
import SpqProofs.Lemmas.ErrWitnessInst
import SpqProofs.Lemmas.ProgErrMod
set_option linter.unusedSectionVars false
namespace Spq.ErrWitness
open Finset Spq Spq.Module Spq.Fft Spq.Fft.Alg Spq.Fft.SchedN Spq.FftErr Spq.F64 Spq.ProdErr Spq.Conv Spq.VmpErr Spq.ProgErr

/-- the binary64 module the library runs for `N = 8`, with its root data over `ℝ` -/
noncomputable def libMod8 : F64Mod ℝ where
  c := libC8
  k := 2
  hk := by omega
  cN := cN
  sN := sN
  cNi := cNi
  sNi := sNi
  ok := libVCfgOk
  ζ := zeta
  ζi := zetai
  hζ := nsq_zeta
  hI := zeta_pow_m
  hinv := zeta_mul_zetai
  hcs := hcs4
  hcsi := hcsi4

/-- flags of the inverse transform of `fft(a)` (the round trip) -/
theorem lib_rt_okI : InvOk libC8 2 cNi sNi (stF libC8 2 cN sN exA8) :=
  ifft_flags_of_all (ifamOf libC8.ifftFma) (ifamOf_ok _) 2 cNi sNi (stF libC8 2 cN sN exA8) (by decide +kernel)
    (by decide +kernel)

theorem libRtOk : RtOk libC8 2 cN sN cNi sNi exA8 := ⟨lib_okA, lib_rt_okI⟩

/-- `17·3·2^-53·14 < 1/2` -/
theorem libRtBudget : RtBudget libMod8 exA8 := by
  refine ⟨exA8_box, libRtOk, 14, by norm_num, exA8_n2, ?_⟩
  show ((17 * ((2 : ℕ) + 1 : ℚ) * u64 : ℚ) : ℝ) * 14 < 1 / 2
  unfold u64; push_cast; norm_num

theorem libProdBudget : ProdBudget libMod8 exA8 exB8 := by
  refine ⟨exA8_box, exB8_box, libPipeOk, 14, 16, by norm_num, by norm_num, exA8_n2, exB8_n2, ?_, ex_budget⟩
  show (16 : ℝ) ≤ ∑ t ∈ range (2 * 2 ^ 2), |((exB8.getD t 0 : Int) : ℝ)|
  rw [exB8_n1]; norm_num

end Spq.ErrWitness
