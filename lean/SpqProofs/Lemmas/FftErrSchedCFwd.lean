/-
  C06.4, structural schedule theorem (forward cplx), part 1: the per-block butterflies `gNetC` of the cplx schedules
  (`cbfs2` for m ≤ 8, `cbfs16` for m ≤ 2048, `crec16` above), table readers, twiddle pass with doubled twiddle,
  16-point leaves, radix-4 levels and `cbfs16`.  No ring laws anywhere.
-/
import SpqProofs.Lemmas.FftErrSchedTop
import SpqProofs.Lemmas.FftCplxFwd
set_option linter.unusedSectionVars false
set_option linter.unusedSimpArgs false
namespace Spq.Fft.SchedC
open Spq.Fft Spq.Fft.Alg Spq.Fft.View Spq.Fft.Sim Spq.Fft.SimP Spq.Fft.LevelN Spq.Fft.KernN Spq.Fft.Tw Spq.Fft.SchedN
open Spq.Fft.Kern (leafE)
open Spq.Fft.Tab (length_flatMap_const)
open Spq.Fft.Sched (iter_counter)

variable {R : Type} [Inhabited R]

/-- stored value of a table entry: kind 0 = cos, 1 = sin, 2 = −sin, 3 = −cos -/
def valQ (c s ns nc : ℕ → R) (x : Ent) : R :=
  if x.kind = 0 then c x.e else if x.kind = 1 then s x.e else if x.kind = 2 then ns x.e else nc x.e

/-- the `h = 1` butterfly of `cbfs2` with its four table entries `(ω, ω')` as a function on pairs -/
def lastV (f4 : Bf4 R) (wr wi nwr nwi : R) : R × R → R × R → (R × R) × (R × R) :=
  bfV (fun ra ia rb ib w1 w2 => f4 ra ia rb ib w1 w2 nwr nwi) wr wi

/-- the butterfly of block `b` at level `(ℓ, d)` of the cplx transform of size `2^k` -/
def gNetC (F : CFlav R) (c s ns nc : ℕ → R) (k ℓ d b : ℕ) : R × R → R × R → (R × R) × (R × R) :=
  if k ≤ 3 then
    (if d = 0 then lastV F.last (c (twE ℓ d b)) (s (twE ℓ d b)) (nc (twE ℓ d b)) (ns (twE ℓ d b))
     else bfV F.ctTop (c (twE ℓ d b)) (s (twE ℓ d b)))
  else if 12 ≤ k - ℓ then bfV F.ctTop (c (twE ℓ d b)) (s (twE ℓ d b))
  else if (k - ℓ) % 2 = 1 ∧ (k - ℓ = 11 ∨ ℓ = 0) then bfV F.ctOdd (c (twE ℓ d b)) (s (twE ℓ d b))
  else gNet F.big c s k ℓ d b

variable (F : CFlav R) (c s ns nc : ℕ → R) (k : ℕ) (a : ℕ → R × R)

theorem gNetC_low (ℓ d b : ℕ) (hk : 4 ≤ k) (hr : k - ℓ ≤ 10) (h : 1 ≤ ℓ ∨ k % 2 = 0) :
    gNetC F c s ns nc k ℓ d b = gNet F.big c s k ℓ d b := by
  unfold gNetC
  rw [if_neg (by omega), if_neg (by omega), if_neg (by omega)]

theorem gNetC_odd (ℓ d b : ℕ) (hk : 4 ≤ k) (hr : k - ℓ ≤ 11) (ho : (k - ℓ) % 2 = 1) (h : k - ℓ = 11 ∨ ℓ = 0) :
    gNetC F c s ns nc k ℓ d b = bfV F.ctOdd (c (twE ℓ d b)) (s (twE ℓ d b)) := by
  unfold gNetC
  rw [if_neg (by omega), if_neg (by omega), if_pos ⟨ho, h⟩]

theorem gNetC_top (ℓ d b : ℕ) (hk : 4 ≤ k) (hr : 12 ≤ k - ℓ) :
    gNetC F c s ns nc k ℓ d b = bfV F.ctTop (c (twE ℓ d b)) (s (twE ℓ d b)) := by
  unfold gNetC
  rw [if_neg (by omega), if_pos hr]

theorem gNetC_small (ℓ d b : ℕ) (hk : k ≤ 3) (hd : d ≠ 0) :
    gNetC F c s ns nc k ℓ d b = bfV F.ctTop (c (twE ℓ d b)) (s (twE ℓ d b)) := by
  unfold gNetC
  rw [if_pos hk, if_neg hd]

theorem gNetC_last (ℓ b : ℕ) (hk : k ≤ 3) :
    gNetC F c s ns nc k ℓ 0 b =
      lastV F.last (c (twE ℓ 0 b)) (s (twE ℓ 0 b)) (nc (twE ℓ 0 b)) (ns (twE ℓ 0 b)) := by
  unfold gNetC
  rw [if_pos hk, if_pos rfl]

theorem read_ePQ (T : Array R) (t x : ℕ) (h : SegP T t ((eP x).map (valQ c s ns nc))) :
    T[t]! = c x ∧ T[t + 1]! = s x := by
  have h0 := h 0 (by simp [eP])
  have h1 := h 1 (by simp [eP])
  simp only [Nat.add_zero] at h0
  rw [h0, h1]
  simp [eP, valQ]

theorem read_eNQ (T : Array R) (t x : ℕ) (h : SegP T t ((eN x).map (valQ c s ns nc))) :
    T[t]! = nc x ∧ T[t + 1]! = ns x := by
  have h0 := h 0 (by simp [eN])
  have h1 := h 1 (by simp [eN])
  simp only [Nat.add_zero] at h0
  rw [h0, h1]
  simp [eN, valQ]

theorem real_of_eq (f : Bf R) (wr wi : R) (gb : R × R → R × R → (R × R) × (R × R)) (h : bfV f wr wi = gb) :
    RealisesP f wr wi (fun u v => (gb u v).1) (fun u v => (gb u v).2) := by
  subst h; exact realP f wr wi

variable (g : ℕ → ℕ → ℕ → R × R → R × R → (R × R) × (R × R))

/-- `twPassL`: the twiddle is stored twice; whatever copy a lane reads, the butterfly is the block's -/
theorem twPassL_advN (f : Bf R) (lanes : Bool) (T : Array R) (t N ℓ d b off : ℕ) (s0 : RI R) (hs : Valid N s0)
    (hoff : off = 2 * 2 ^ d * b) (hN : off + 2 * 2 ^ d ≤ N) (hq0 : bfV f T[t]! T[t + 1]! = g ℓ d b)
    (hq1 : bfV f T[t + 2]! T[t + 3]! = g ℓ d b) :
    AdvN g a (prs s0) (prs (twPassL f lanes T t (2 ^ d) off s0)) ℓ (d + 1) (ℓ + 1) d off (2 * 2 ^ d) ∧
      Valid N (twPassL f lanes T t (2 ^ d) off s0) := by
  unfold twPassL
  have l := SimP.loop_sim N
    (fun i s => bf f s (off + i) (off + 2 ^ d + i) T[if (lanes && i % 2 == 1) = true then t + 2 else t]!
      T[(if (lanes && i % 2 == 1) = true then t + 2 else t) + 1]!)
    (fun i x => G (fun u v => (g ℓ d b u v).1) (fun u v => (g ℓ d b u v).2) (off + i) (off + 2 ^ d + i) x) (2 ^ d)
    (fun j s hj hs => by
      by_cases hc : (lanes && j % 2 == 1) = true
      · rw [if_pos hc, show t + 2 + 1 = t + 3 by ring]
        exact SimP.bf_sim N f _ _ _ _ (real_of_eq f _ _ _ hq1) s _ _ hs (by omega) (by omega) (by omega)
      · rw [if_neg hc]
        exact SimP.bf_sim N f _ _ _ _ (real_of_eq f _ _ _ hq0) s _ _ hs (by omega) (by omega) (by omega)) s0 hs
  rw [loop1] at l
  rw [l.1]
  exact ⟨AdvN.tw g a _ ℓ d b off hoff _ _ (fun _ _ => ⟨rfl, rfl⟩), l.2⟩

/-- one butterfly on the adjacent pair `(p, p+1)` -/
theorem pair1_advG (f : Bf R) (wr wi : R) (N ℓ b p : ℕ) (s0 : RI R) (hs : Valid N s0) (hp : p = 2 * b)
    (hN : p + 2 ≤ N) (hq : bfV f wr wi = g ℓ 0 b) :
    AdvN g a (prs s0) (prs (bf f s0 p (p + 1) wr wi)) ℓ 1 (ℓ + 1) 0 p 2 ∧ Valid N (bf f s0 p (p + 1) wr wi) := by
  have h1 := SimP.bf_sim N f wr wi _ _ (realP f wr wi) s0 p (p + 1) hs (by omega) (by omega) (by omega)
  rw [h1.1, G_eq_twG1]
  exact ⟨AdvN.tw g a _ ℓ 0 b p (by omega) _ _ (bq_of_eq f wr wi _ hq), h1.2⟩

/-- the cplx leaf pack read through `cplxW16`: stored cos / sin of the eight exponents -/
theorem cleaf_readN (T : Array R) (t e U : ℕ) (h : SegP T t ((cFill16 U e).map (valQ c s ns nc))) :
    ∀ q, q < 8 → cplxW16 T t q = (c (leafE e U q), s (leafE e U q)) := by
  have hl : ((cFill16 U e).map (valQ c s ns nc)).length = 16 := by simp [cFill16, eP, gam]
  have g : ∀ j, j < 16 → T[t + j]! = ((cFill16 U e).map (valQ c s ns nc))[j]! := fun j hj => h j (by omega)
  intro q hq
  have : q = 0 ∨ q = 1 ∨ q = 2 ∨ q = 3 ∨ q = 4 ∨ q = 5 ∨ q = 6 ∨ q = 7 := by omega
  rcases this with rfl | rfl | rfl | rfl | rfl | rfl | rfl | rfl
  · have a := g 0 (by omega); have b := g 1 (by omega)
    simp only [Nat.add_zero] at a
    simp only [cplxW16, leafE, Nat.reduceMul, Nat.reduceAdd, Nat.add_zero, Nat.add_assoc]
    rw [a, b]; simp [cFill16, eP, gam, valQ, Nat.add_assoc]
  · have a := g 2 (by omega); have b := g 3 (by omega)
    simp only [cplxW16, leafE, Nat.reduceMul, Nat.reduceAdd, Nat.add_zero, Nat.add_assoc]
    rw [a, b]; simp [cFill16, eP, gam, valQ, Nat.add_assoc]
  · have a := g 4 (by omega); have b := g 5 (by omega)
    simp only [cplxW16, leafE, Nat.reduceMul, Nat.reduceAdd, Nat.add_zero, Nat.add_assoc]
    rw [a, b]; simp [cFill16, eP, gam, valQ, Nat.add_assoc]
  · have a := g 6 (by omega); have b := g 7 (by omega)
    simp only [cplxW16, leafE, Nat.reduceMul, Nat.reduceAdd, Nat.add_zero, Nat.add_assoc]
    rw [a, b]; simp [cFill16, eP, gam, valQ, Nat.add_assoc]
  · have a := g 8 (by omega); have b := g 9 (by omega)
    simp only [cplxW16, leafE, Nat.reduceMul, Nat.reduceAdd, Nat.add_zero, Nat.add_assoc]
    rw [a, b]; simp [cFill16, eP, gam, valQ, Nat.add_assoc]
  · have a := g 10 (by omega); have b := g 11 (by omega)
    simp only [cplxW16, leafE, Nat.reduceMul, Nat.reduceAdd, Nat.add_zero, Nat.add_assoc]
    rw [a, b]; simp [cFill16, eP, gam, valQ, Nat.add_assoc]
  · have a := g 12 (by omega); have b := g 13 (by omega)
    simp only [cplxW16, leafE, Nat.reduceMul, Nat.reduceAdd, Nat.add_zero, Nat.add_assoc]
    rw [a, b]; simp [cFill16, eP, gam, valQ, Nat.add_assoc]
  · have a := g 14 (by omega); have b := g 15 (by omega)
    simp only [cplxW16, leafE, Nat.reduceMul, Nat.reduceAdd, Nat.add_zero, Nat.add_assoc]
    rw [a, b]; simp [cFill16, eP, gam, valQ, Nat.add_assoc]

/-- one 16-point leaf on block `B` of level `k − 4` -/
theorem cleaf_stepN (T : Array R) (t N ℓ B off e : ℕ) (s0 : RI R) (hs : Valid N s0) (hoff : off = 16 * B)
    (hN : off + 16 ≤ N) (hk : k = ℓ + 4) (he : e = 16 * (1 + 4 * brev ℓ B))
    (hT : SegP T t ((cFill16 (4 * 2 ^ k) e).map (valQ c s ns nc))) :
    AdvN (gNetC F c s ns nc k) a (prs s0) (prs (fft16K F.big (cplxW16 T t) off s0)) ℓ 4 (ℓ + 4) 0 off 16 ∧ Valid N (fft16K F.big (cplxW16 T t) off s0) := by
  have hw := cleaf_readN c s ns nc T t e (4 * 2 ^ k) hT
  obtain ⟨x0, x1, x2, x3, x4, x5, x6, x7⟩ := leaf_exps ℓ B e (4 * 2 ^ k) he (by rw [hk])
  have w0 := hw 0 (by omega); have w1 := hw 1 (by omega); have w2 := hw 2 (by omega)
  have w3 := hw 3 (by omega); have w4 := hw 4 (by omega); have w5 := hw 5 (by omega)
  have w6 := hw 6 (by omega); have w7 := hw 7 (by omega)
  simp only [leafE] at w0 w1 w2 w3 w4 w5 w6 w7
  rw [x0] at w0; rw [x1] at w1; rw [x2] at w2; rw [x3] at w3; rw [x4] at w4; rw [x5] at w5; rw [x6] at w6
  rw [x7] at w7
  have low0 : ∀ d b, gNetC F c s ns nc k ℓ d b = gNet F.big c s k ℓ d b :=
    fun d b => gNetC_low F c s ns nc k ℓ d b (by omega) (by omega) (by omega)
  have low1 : ∀ d b, gNetC F c s ns nc k (ℓ + 1) d b = gNet F.big c s k (ℓ + 1) d b :=
    fun d b => gNetC_low F c s ns nc k (ℓ + 1) d b (by omega) (by omega) (by omega)
  have low2 : ∀ d b, gNetC F c s ns nc k (ℓ + 2) d b = gNet F.big c s k (ℓ + 2) d b :=
    fun d b => gNetC_low F c s ns nc k (ℓ + 2) d b (by omega) (by omega) (by omega)
  have low3 : ∀ d b, gNetC F c s ns nc k (ℓ + 3) d b = gNet F.big c s k (ℓ + 3) d b :=
    fun d b => gNetC_low F c s ns nc k (ℓ + 3) d b (by omega) (by omega) (by omega)
  have c4 : clv (k - ℓ) = false := by rw [show k - ℓ = 4 by omega]; rfl
  have c3 : clv (k - (ℓ + 1)) = true := by rw [show k - (ℓ + 1) = 3 by omega]; rfl
  have c2 : clv (k - (ℓ + 2)) = true := by rw [show k - (ℓ + 2) = 2 by omega]; rfl
  have c1 : clv (k - (ℓ + 3)) = true := by rw [show k - (ℓ + 3) = 1 by omega]; rfl
  have hct := ctK_big F.big k (by omega)
  have hcit := citK_big F.big k (by omega)
  apply fft16K_advN (gNetC F c s ns nc k) a F.big (cplxW16 T t) N ℓ B off s0 hs hoff hN
  · rw [low0, gNet_ct F.big c s k ℓ 3 B (Or.inl c4), hct, w0]
  · rw [low1, gNet_ct F.big c s k (ℓ + 1) 2 (2 * B) (Or.inr (by omega)), hct, w1]
  · rw [low1, gNet_cit F.big c s k (ℓ + 1) 2 B c3, hcit, w1]
  · rw [low2, gNet_ct F.big c s k (ℓ + 2) 1 (4 * B) (Or.inr (by omega)), hct, w2]
  · rw [show 4 * B + 1 = 2 * (2 * B) + 1 by ring, low2, gNet_cit F.big c s k (ℓ + 2) 1 (2 * B) c2, hcit, w2,
      show 2 * (2 * B) = 4 * B by ring]
  · rw [low2, gNet_ct F.big c s k (ℓ + 2) 1 (4 * B + 2) (Or.inr (by omega)), hct, w3]
  · rw [show 4 * B + 3 = 2 * (2 * B + 1) + 1 by ring, low2, gNet_cit F.big c s k (ℓ + 2) 1 (2 * B + 1) c2, hcit, w3,
      show 2 * (2 * B + 1) = 4 * B + 2 by ring]
  · intro q hq
    rw [low3, gNet_ct F.big c s k (ℓ + 3) 0 (8 * B + 2 * q) (Or.inr (by omega)), hct]
    have : q = 0 ∨ q = 1 ∨ q = 2 ∨ q = 3 := by omega
    rcases this with rfl | rfl | rfl | rfl
    · rw [w4]; rfl
    · rw [w5]
    · rw [w6]
    · rw [w7]
  · intro q hq
    rw [show 8 * B + 2 * q + 1 = 2 * (4 * B + q) + 1 by ring, low3, gNet_cit F.big c s k (ℓ + 3) 0 (4 * B + q) c1, hcit,
      show 2 * (4 * B + q) = 8 * B + 2 * q by ring]
    have : q = 0 ∨ q = 1 ∨ q = 2 ∨ q = 3 := by omega
    rcases this with rfl | rfl | rfl | rfl
    · rw [w4]; rfl
    · rw [w5]
    · rw [w6]
    · rw [w7]

/-- the loop over the 16-point leaves -/
theorem cleaves_specN (T : Array R) (N ℓ0 j b0 off m' t : ℕ) (s0 : RI R)
    (hs : Valid N s0) (hk : k = ℓ0 + j + 4) (hm : m' = 2 ^ (j + 4)) (hoff : off = m' * b0) (hN : off + m' ≤ N)
    (hT : SegP T t (((List.range (m' / 16)).flatMap
      (fun b => cFill16 (4 * 2 ^ k) (16 * (1 + 4 * brev ℓ0 b0) + frbN (4 * 2 ^ k) b))).map (valQ c s ns nc))) :
    let r := iterFrom (fun b (st : RI R × ℕ) => (fft16K F.big (cplxW16 T st.2) (off + 16 * b) st.1, st.2 + 16)) (m' / 16) 0 (s0, t)
    AdvN (gNetC F c s ns nc k) a (prs s0) (prs r.1) (ℓ0 + j) 4 (ℓ0 + j + 4) 0 off m' ∧ Valid N r.1 ∧ r.2 = t + m' := by
  intro r
  have hnb : m' / 16 = 2 ^ j := by rw [hm, pow_add]; norm_num
  have hm16 : m' = 2 ^ j * 16 := by rw [hm, pow_add]; norm_num
  have hr : r = (iterFrom (fun b s => fft16K F.big (cplxW16 T (t + 16 * b)) (off + 16 * b) s) (m' / 16) 0 s0, t + 16 * (m' / 16)) :=
    iter_counter (fun b t s => fft16K F.big (cplxW16 T t) (off + 16 * b) s) 16 (m' / 16) s0 t
  rw [hr]
  simp only
  rw [List.map_flatMap] at hT
  have hseg := SegP.flatMap (T := T) (t := t) _ 16 (m' / 16) (fun b => by simp [cFill16, eP, gam]) hT
  have sw := sweepN (VN (gNetC F c s ns nc k) a (ℓ0 + j) 4) (VN (gNetC F c s ns nc k) a (ℓ0 + j + 4) 0)
    (fun b s => fft16K F.big (cplxW16 T (t + 16 * b)) (off + 16 * b) s) N off 16 (m' / 16)
    (fun b s1 hb hs1 => by
      have hb' : b < 2 ^ j := by omega
      have := cleaf_stepN F c s ns nc k a T (t + 16 * b) N (ℓ0 + j) (b0 * 2 ^ j + b) (off + 16 * b)
        (16 * (1 + 4 * brev ℓ0 b0) + frbN (4 * 2 ^ k) b) s1 hs1
        (by rw [hoff, hm16]; ring) (by omega) hk
        (by
          have := block_entry ℓ0 j 4 b0 b hb'
          rw [← hk] at this
          simpa using this)
        (by
          have := hseg b hb
          rwa [show t + b * 16 = t + 16 * b by ring] at this)
      exact ⟨this.1.of_eq (by ring) rfl, this.2⟩) s0 hs
  refine ⟨sw.1.of_eq rfl (by omega), sw.2, by omega⟩

/-- one radix-4 level of `bfs16` over the whole region -/
theorem cr4_specN (T : Array R) (N ℓ0 j e2 b0 off m' mm t : ℕ) (s0 : RI R)
    (hs : Valid N s0) (hk : k = ℓ0 + j + (e2 + 2)) (hm : m' = 2 ^ (j + (e2 + 2))) (hmm : mm = 2 ^ (e2 + 2))
    (he2 : e2 % 2 = 0) (he4 : 4 ≤ e2) (he10 : e2 + 2 ≤ 10)
    (hoff : off = m' * b0) (hN : off + m' ≤ N)
    (hT : SegP T t (((List.range (m' / mm)).flatMap (fun b =>
      eP (2 * (mm * (1 + 4 * brev ℓ0 b0) / 4 + frbN (4 * 2 ^ k) b / 4)) ++
      eP (mm * (1 + 4 * brev ℓ0 b0) / 4 + frbN (4 * 2 ^ k) b / 4))).map (valQ c s ns nc))) :
    let r := iterFrom (fun b (st : RI R × ℕ) => (bitwiddle F.big T st.2 (mm / 4) (off + b * mm) st.1, st.2 + 4))
      (m' / mm) 0 (s0, t)
    AdvN (gNetC F c s ns nc k) a (prs s0) (prs r.1) (ℓ0 + j) (e2 + 2) (ℓ0 + j + 2) e2 off m' ∧ Valid N r.1 ∧
      r.2 = t + 4 * (m' / mm) := by
  intro r
  have hh : mm / 4 = 2 ^ e2 := by rw [hmm, pow_add]; norm_num
  have hmm4 : mm = 4 * 2 ^ e2 := by rw [hmm, pow_add]; ring
  have hnb : m' / mm = 2 ^ j := by
    rw [hm, hmm, pow_add]; exact Nat.mul_div_cancel _ (Nat.two_pow_pos _)
  have hm' : m' = 2 ^ j * mm := by rw [hm, hmm, pow_add]
  have hr : r = (iterFrom (fun b s => bitwiddle F.big T (t + 4 * b) (mm / 4) (off + b * mm) s) (m' / mm) 0 s0,
      t + 4 * (m' / mm)) :=
    iter_counter (fun b t s => bitwiddle F.big T t (mm / 4) (off + b * mm) s) 4 (m' / mm) s0 t
  rw [hr]
  simp only
  rw [List.map_flatMap] at hT
  have hseg := SegP.flatMap (T := T) (t := t) _ 4 (m' / mm) (fun b => by simp [eP]) hT
  have hct := ctK_big F.big k (by omega)
  have hcit := citK_big F.big k (by omega)
  have lowA : ∀ d b, gNetC F c s ns nc k (ℓ0 + j) d b = gNet F.big c s k (ℓ0 + j) d b :=
    fun d b => gNetC_low F c s ns nc k (ℓ0 + j) d b (by omega) (by omega) (by omega)
  have lowB : ∀ d b, gNetC F c s ns nc k (ℓ0 + j + 1) d b = gNet F.big c s k (ℓ0 + j + 1) d b :=
    fun d b => gNetC_low F c s ns nc k (ℓ0 + j + 1) d b (by omega) (by omega) (by omega)
  have cA : clv (k - (ℓ0 + j)) = false := by
    rw [show k - (ℓ0 + j) = e2 + 2 by omega]; unfold clv
    have : (e2 + 2) % 2 = 0 := by omega
    simp [this]; omega
  have cB : clv (k - (ℓ0 + j + 1)) = true := by
    rw [show k - (ℓ0 + j + 1) = e2 + 1 by omega]; unfold clv
    have : (e2 + 1) % 2 = 1 := by omega
    simp [this]; omega
  have sw := sweepN (VN (gNetC F c s ns nc k) a (ℓ0 + j) (e2 + 2)) (VN (gNetC F c s ns nc k) a (ℓ0 + j + 2) e2)
    (fun b s => bitwiddle F.big T (t + 4 * b) (mm / 4) (off + b * mm) s) N off mm (m' / mm)
    (fun b s1 hb hs1 => by
      have hb' : b < 2 ^ j := by omega
      have hsb := hseg b hb
      rw [List.map_append, show t + b * 4 = t + 4 * b by ring] at hsb
      have e := ReimFwd.r4_exps ℓ0 j e2 b0 b k mm hb' hk hmm
      obtain ⟨r0, r1⟩ := read_ePQ c s ns nc T (t + 4 * b) _ hsb.left
      obtain ⟨r2, r3⟩ := read_ePQ c s ns nc T (t + 4 * b + 2) _ (by simpa [eP] using hsb.right)
      rw [e.1] at r0 r1
      rw [e.2] at r2 r3
      rw [show t + 4 * b + 2 + 1 = t + 4 * b + 3 by ring] at r3
      have hbm' : b * mm + mm ≤ 2 ^ j * mm := by
        have : (b + 1) * mm ≤ 2 ^ j * mm := Nat.mul_le_mul_right _ hb'
        rw [Nat.add_mul] at this; omega
      have := bitwiddle_advN (gNetC F c s ns nc k) a F.big T (t + 4 * b) N (ℓ0 + j) e2 (b0 * 2 ^ j + b) (off + b * mm) (mm / 4)
        s1 hs1 hh (by rw [hh, hoff, hm', hmm4]; ring) (by rw [hh, ← hmm4]; omega)
        (by rw [lowA, gNet_ct F.big c s k (ℓ0 + j) (e2 + 1) _ (Or.inl cA), hct, r0, r1])
        (by rw [lowB, gNet_ct F.big c s k (ℓ0 + j + 1) e2 _ (Or.inr (by omega)), hct, r2, r3])
        (by rw [lowB, gNet_cit F.big c s k (ℓ0 + j + 1) e2 _ cB, hcit, r2, r3])
      rw [show 4 * (mm / 4) = mm by omega] at this
      exact this) s0 hs
  refine ⟨sw.1.of_eq rfl (by rw [hnb, hm']), sw.2, trivial⟩

/-- the `while (mm > 16)` loop of `bfs16`: all radix-4 levels down to blocks of 16 -/
theorem cbfsLevels_specN (T : Array R) (N ℓ0 D b0 off m' : ℕ) (hD11 : D ≤ 11)
    (hk : k = ℓ0 + D) (hm : m' = 2 ^ D) (hoff : off = m' * b0) (hN : off + m' ≤ N) :
    ∀ i fuel j mm ss (s0 : RI R) (t : ℕ), j + (4 + 2 * i) = D → mm = 2 ^ (4 + 2 * i) → mm ≤ fuel →
      ss = mm * (1 + 4 * brev ℓ0 b0) → Valid N s0 →
      SegP T t ((cBfs16Levels (4 * 2 ^ k) m' fuel mm ss).map (valQ c s ns nc)) →
      AdvN (gNetC F c s ns nc k) a (prs s0) (prs (cbfsLevels F T m' off fuel mm (s0, t)).1) (ℓ0 + j) (4 + 2 * i)
          (ℓ0 + j + 2 * i) 4 off m' ∧
        Valid N (cbfsLevels F T m' off fuel mm (s0, t)).1 ∧
        SegP T (cbfsLevels F T m' off fuel mm (s0, t)).2 (((List.range (m' / 16)).flatMap
          (fun b => cFill16 (4 * 2 ^ k) (16 * (1 + 4 * brev ℓ0 b0) + frbN (4 * 2 ^ k) b))).map (valQ c s ns nc)) ∧
        (cbfsLevels F T m' off fuel mm (s0, t)).2 + m' / 16 * 16 = t + (cBfs16Levels (4 * 2 ^ k) m' fuel mm ss).length := by
  intro i
  induction i with
  | zero =>
    intro fuel j mm ss s0 t hj hmm hfuel hss hs hT
    have hmm16 : mm = 16 := by rw [hmm]; norm_num
    subst hmm16
    obtain ⟨f, rfl⟩ : ∃ f, fuel = f + 1 := ⟨fuel - 1, by omega⟩
    rw [cbfsLevels, if_neg (by omega)]
    rw [cBfs16Levels, if_neg (by omega), hss] at hT
    refine ⟨AdvN.cast _ _ (AdvG.id (VN (gNetC F c s ns nc k) a (ℓ0 + j) 4) (prs s0) off m') (ℓ0 + j) (4 + 2 * 0) (ℓ0 + j + 2 * 0) 4
      rfl rfl rfl rfl, hs, hT, ?_⟩
    rw [cBfs16Levels, if_neg (by omega), length_flatMap_const _ 16 _ (fun b => by simp [cFill16, eP, gam])]
  | succ i ih =>
    intro fuel j mm ss s0 t hj hmm hfuel hss hs hT
    obtain ⟨f, rfl⟩ : ∃ f, fuel = f + 1 := ⟨fuel - 1, by
      have : 0 < mm := by rw [hmm]; exact Nat.two_pow_pos _
      omega⟩
    have hmm' : mm = 2 ^ (4 + 2 * i + 2) := by rw [hmm]; congr 1
    have hmm4 : mm = 4 * 2 ^ (4 + 2 * i) := by rw [hmm', pow_add]; ring
    have hgt : mm > 16 := by
      have : 1 ≤ 2 ^ (2 * i) := Nat.one_le_two_pow
      rw [hmm4, pow_add]; omega
    have hq : mm / 4 = 2 ^ (4 + 2 * i) := by omega
    rw [cbfsLevels, if_pos hgt]
    have hlenT : (cBfs16Levels (4 * 2 ^ k) m' (f + 1) mm ss).length
        = 4 * (m' / mm) + (cBfs16Levels (4 * 2 ^ k) m' f (mm / 4) (ss / 4)).length := by
      rw [cBfs16Levels, if_pos hgt, List.length_append, length_flatMap_const _ 4 _ (fun b => by simp [eP])]; ring
    rw [cBfs16Levels, if_pos hgt, List.map_append, hss] at hT
    have hm2 : m' = 2 ^ (j + (4 + 2 * i + 2)) := by rw [hm, ← hj]; congr 1
    have st := cr4_specN F c s ns nc k a T N ℓ0 j (4 + 2 * i) b0 off m' mm t s0 hs (by omega) hm2 hmm' (by omega) (by omega) (by omega) hoff hN hT.left
    simp only at st
    obtain ⟨a1, v1, p1⟩ := st
    have hlen : (List.map (valQ c s ns nc) ((List.range (m' / mm)).flatMap (fun b =>
        eP (2 * (mm * (1 + 4 * brev ℓ0 b0) / 4 + frbN (4 * 2 ^ k) b / 4)) ++
        eP (mm * (1 + 4 * brev ℓ0 b0) / 4 + frbN (4 * 2 ^ k) b / 4)))).length = 4 * (m' / mm) := by
      rw [List.length_map, length_flatMap_const _ 4 _ (fun b => by simp [eP])]; ring
    have hT2 := hT.right
    rw [hlen, ← p1] at hT2
    have hss4 : mm * (1 + 4 * brev ℓ0 b0) / 4 = mm / 4 * (1 + 4 * brev ℓ0 b0) := by
      rw [hmm4, Nat.mul_assoc, Nat.mul_div_cancel_left _ (by omega : 0 < 4), Nat.mul_div_cancel_left _ (by omega : 0 < 4)]
    rw [hss4] at hT2
    have nx := ih f (j + 2) (mm / 4) (mm / 4 * (1 + 4 * brev ℓ0 b0))
      (iterFrom (fun b (st : RI R × ℕ) => (bitwiddle F.big T st.2 (mm / 4) (off + b * mm) st.1, st.2 + 4))
        (m' / mm) 0 (s0, t)).1
      (iterFrom (fun b (st : RI R × ℕ) => (bitwiddle F.big T st.2 (mm / 4) (off + b * mm) st.1, st.2 + 4))
        (m' / mm) 0 (s0, t)).2 (by omega) hq (by omega) rfl v1 hT2
    obtain ⟨a2, v2, p2, q2⟩ := nx
    refine ⟨?_, v2, p2, ?_⟩
    swap
    · rw [q2, p1, hlenT, hss, hss4]; ring
    exact (AdvN.cast _ _ a1 (ℓ0 + j) (4 + 2 * (i + 1)) (ℓ0 + (j + 2)) (4 + 2 * i) rfl (by ring) (by ring) rfl).seq
      (AdvN.cast _ _ a2 (ℓ0 + (j + 2)) (4 + 2 * i) (ℓ0 + j + 2 * (i + 1)) 4 rfl rfl (by ring) rfl)



end Spq.Fft.SchedC
