/-
  Grids: a value on the grid `2^-G·ℤ` (`G ≤ 1022`) of magnitude at most `2^1023` is 0 or in the normal range, and
  rounding keeps it on the grid.  This gives an a-priori way to discharge the "all partial results are in the normal
  range" hypothesis of the binary64 error theorems (see `F64StdAbs.lean`).
-/
import SpqProofs.Lemmas.F64StdModel
import SpqProofs.Lemmas.F64StdInt

namespace Spq.F64

/-- `q` is an integer multiple of `2^-G` -/
def GridQ (G : ℕ) (q : ℚ) : Prop := ∃ v : ℤ, q = (v : ℚ) * 2 ^ (-(G : ℤ))

theorem gridQ_zero (G : ℕ) : GridQ G 0 := ⟨0, by simp⟩

theorem GridQ.mono {G G' : ℕ} {q : ℚ} (h : GridQ G q) (hG : G ≤ G') : GridQ G' q := by
  obtain ⟨v, rfl⟩ := h
  refine ⟨v * 2 ^ (G' - G), ?_⟩
  have e : (-(G : ℤ)) = ((G' - G : ℕ) : ℤ) + (-(G' : ℤ)) := by omega
  rw [e, two_zpow_add, zpow_natCast]; push_cast; ring

theorem GridQ.add {G : ℕ} {x y : ℚ} (hx : GridQ G x) (hy : GridQ G y) : GridQ G (x + y) := by
  obtain ⟨a, rfl⟩ := hx; obtain ⟨b, rfl⟩ := hy
  exact ⟨a + b, by push_cast; ring⟩

theorem GridQ.neg {G : ℕ} {x : ℚ} (hx : GridQ G x) : GridQ G (-x) := by
  obtain ⟨a, rfl⟩ := hx
  exact ⟨-a, by push_cast; ring⟩

theorem GridQ.sub {G : ℕ} {x y : ℚ} (hx : GridQ G x) (hy : GridQ G y) : GridQ G (x - y) := by
  rw [sub_eq_add_neg]; exact hx.add hy.neg

theorem GridQ.mul {G1 G2 : ℕ} {x y : ℚ} (hx : GridQ G1 x) (hy : GridQ G2 y) : GridQ (G1 + G2) (x * y) := by
  obtain ⟨a, rfl⟩ := hx; obtain ⟨b, rfl⟩ := hy
  refine ⟨a * b, ?_⟩
  have e : (-((G1 + G2 : ℕ) : ℤ)) = (-(G1 : ℤ)) + (-(G2 : ℤ)) := by push_cast; ring
  rw [e, two_zpow_add]; push_cast; ring

theorem GridQ.dyadic {G : ℕ} {q : ℚ} (h : GridQ G q) (hG : G ≤ 2148) : Dyadic q := by
  obtain ⟨v, rfl⟩ := h
  exact dyadic_of_scaled v _ (by omega)

/-- a nonzero grid value is at least one grid step -/
theorem GridQ.abs_ge {G : ℕ} {q : ℚ} (h : GridQ G q) (h0 : q ≠ 0) : (2 : ℚ) ^ (-(G : ℤ)) ≤ |q| := by
  obtain ⟨v, rfl⟩ := h
  have hv : v ≠ 0 := by rintro rfl; simp at h0
  have h1 : (1 : ℚ) ≤ |(v : ℚ)| := by rw [← Int.cast_abs]; exact_mod_cast Int.one_le_abs hv
  rw [abs_mul, abs_of_pos (two_zpow_pos _)]
  have := two_zpow_pos (-(G : ℤ))
  nlinarith

/-- grid `G ≤ 1022`, magnitude `≤ 2^1023`: in the normal range (or 0) -/
theorem GridQ.normalRange {G : ℕ} {q : ℚ} (h : GridQ G q) (hG : G ≤ 1022) (hb : |q| ≤ 2 ^ (1023 : ℤ)) :
    NormalRange q := by
  by_cases h0 : q = 0
  · exact Or.inl h0
  · exact normalRange_of (le_trans (two_zpow_le (by omega)) (h.abs_ge h0)) hb

/-- rounding stays on the grid of its argument -/
theorem rnd_grid {G : ℕ} {q : ℚ} (h : GridQ G q) (hG : G ≤ 2148) (hov : NoOvf q) : GridQ G (rnd q) := by
  obtain ⟨v, rfl⟩ := h
  rw [rnd_scaled v _ (by omega) false]
  by_cases hv : v = 0
  · subst hv; rw [packSigned_zero, val_sgn]; exact gridQ_zero G
  rw [packSigned_ne_zero hv]
  have habs : |(v : ℚ) * 2 ^ (-(G : ℤ))| = ((v.natAbs : ℕ) : ℚ) * 2 ^ (-(G : ℤ)) := by
    rw [abs_mul, abs_of_pos (two_zpow_pos _), natAbs_cast_abs]
  unfold NoOvf at hov
  rw [habs] at hov
  obtain ⟨N, hN⟩ := pack_form (decide (v < 0)) v.natAbs (-(G : ℤ)) (by omega) hov
  rw [hN]
  exact ⟨sI (decide (v < 0)) N, rfl⟩

/-- `|rnd q| ≤ 2·|q|` on the normal range -/
theorem rnd_abs_le {q : ℚ} (h : GoodQ q) : |rnd q| ≤ 2 * |q| := by
  have h1 := rnd_good h
  have hu : u64 ≤ 1 := by unfold u64; exact zpow_le_one_of_nonpos₀ (by norm_num) (by norm_num)
  have h2 : |rnd q| ≤ |rnd q - q| + |q| := by
    have : rnd q = (rnd q - q) + q := by ring
    calc |rnd q| = |(rnd q - q) + q| := by rw [← this]
      _ ≤ _ := abs_add_le _ _
  have := abs_nonneg q
  nlinarith

/-- the package used by the abstract interpretation: a grid value of magnitude `≤ 2^E`, `E ≤ 1023`, `G ≤ 1022` -/
theorem round_ok {G : ℕ} {E : ℤ} {q : ℚ} (h : GridQ G q) (hG : G ≤ 1022) (hE : E ≤ 1023) (hb : |q| ≤ 2 ^ E) :
    GoodQ q ∧ GridQ G (rnd q) ∧ |rnd q| ≤ 2 ^ (E + 1) := by
  have hb' : |q| ≤ 2 ^ (1023 : ℤ) := le_trans hb (two_zpow_le hE)
  have hn := h.normalRange hG hb'
  have hgood : GoodQ q := ⟨h.dyadic (by omega), hn⟩
  refine ⟨hgood, rnd_grid h (by omega) hn.noOvf, ?_⟩
  have := rnd_abs_le hgood
  rw [two_zpow_add, zpow_one]
  linarith

/-- a double of magnitude at least `2^(53-g)` is on the grid `2^-g·ℤ` (its last significant bit has weight `≥ 2^-g`) -/
theorem gridQ_of_abs_ge (b : Nat) (g : ℕ) (h : (2 : ℚ) ^ (53 - (g : ℤ)) ≤ |val b|) : GridQ g (val b) := by
  rw [val_decode b] at h ⊢
  rw [sv_abs] at h
  have hm : ((decode b).m : ℚ) < 2 ^ (53 : ℤ) := by
    have := decode_m_lt b
    have e : (2 : ℚ) ^ (53 : ℤ) = ((9007199254740992 : ℕ) : ℚ) := by norm_num
    rw [e]; exact_mod_cast this
  have h2 : ((decode b).m : ℚ) * 2 ^ (decode b).e < 2 ^ (53 + (decode b).e) := by
    rw [two_zpow_add]; exact mul_lt_mul_of_pos_right hm (two_zpow_pos _)
  have h3 : (53 : ℤ) - g < 53 + (decode b).e := two_zpow_lt_iff.1 (lt_of_le_of_lt h h2)
  obtain ⟨t, ht⟩ : ∃ t : ℕ, (decode b).e + g = (t : ℤ) := ⟨((decode b).e + g).toNat, by omega⟩
  refine ⟨sI (decode b).neg (decode b).m * 2 ^ t, ?_⟩
  unfold sv
  have e : (decode b).e = (t : ℤ) + (-(g : ℤ)) := by omega
  rw [e, two_zpow_add, zpow_natCast]; push_cast; ring

/-- zero is on every grid -/
theorem gridQ_of_val_zero {b : Nat} (g : ℕ) (h : val b = 0) : GridQ g (val b) := by rw [h]; exact gridQ_zero g

end Spq.F64
