/-
  C06: the inverse reim schedule (`ibfs16`, `irec16`, `ifftRI`) undoes the level network (up to the factor m).
-/
import SpqProofs.Lemmas.FftKernInv
import SpqProofs.Lemmas.FftReimFwd
set_option linter.unusedSectionVars false
set_option linter.unusedSimpArgs false
namespace Spq.Fft.ReimInv
open Spq.Fft Spq.Fft.Alg Spq.Fft.View Spq.Fft.Level Spq.Fft.Sim Spq.Fft.Tab Spq.Fft.Tw Spq.Fft.Kern Spq.Fft.Sched

variable {R : Type} [CommRing R] [Inhabited R] (Y : ICtx R)

/-- generic block sweep on arrays -/
theorem sweepG (A B : ℕ → R) (step : ℕ → RI R → RI R) (N off sz n : ℕ)
    (h : ∀ b s, b < n → Valid N s →
      AdvG A B (cxs Y.I s) (cxs Y.I (step b s)) (off + b * sz) sz ∧ Valid N (step b s))
    (s : RI R) (hs : Valid N s) :
    AdvG A B (cxs Y.I s) (cxs Y.I (iterFrom step n 0 s)) off (n * sz) ∧ Valid N (iterFrom step n 0 s) := by
  induction n with
  | zero => exact ⟨by simpa [iterFrom] using AdvG.empty A B _ off, hs⟩
  | succ n ih =>
    rw [iterFrom_succ_last, Nat.zero_add]
    have h1 := ih (fun b s hb hs => h b s (by omega) hs)
    have h2 := h n (iterFrom step n 0 s) (by omega) h1.2
    exact ⟨(h1.1.par h2.1).of_eq rfl (by ring), h2.2⟩

/-- reading `exp(−2iπx)` stored as `(cos, −sin)` -/
theorem read_eM (T : Array R) (t x : ℕ) (h : Seg T t ((eM x).map (val Y.c Y.s))) :
    T[t]! + Y.I * T[t + 1]! = Y.ζi ^ x := by
  have h0 := h 0 (by simp [eM])
  have h1 := h 1 (by simp [eM])
  simp only [Nat.add_zero] at h0
  rw [h0, h1, ← Y.hcsi]
  simp [eM, val]; ring

/-- the reim inverse leaf pack `fill_reim_ifft16_omegas(e)` read through `reimIW16` -/
theorem ileaf_read (T : Array R) (t e U : ℕ) (h : Seg T t ((riFill16 U e).map (val Y.c Y.s))) :
    ∀ q, q < 8 → (reimIW16 T t q).1 + Y.I * (reimIW16 T t q).2 = Y.ζi ^ ileafE e U q := by
  have hl : ((riFill16 U e).map (val Y.c Y.s)).length = 16 := by simp [riFill16, eM, gam]
  have g : ∀ j, j < 16 → T[t + j]! = ((riFill16 U e).map (val Y.c Y.s))[j]! := fun j hj => h j (by omega)
  intro q hq
  have : q = 0 ∨ q = 1 ∨ q = 2 ∨ q = 3 ∨ q = 4 ∨ q = 5 ∨ q = 6 ∨ q = 7 := by omega
  rcases this with rfl | rfl | rfl | rfl | rfl | rfl | rfl | rfl
  · have a := g 0 (by omega); have b := g 4 (by omega)
    simp only [Nat.add_zero] at a
    simp only [reimIW16, ileafE, Nat.reduceLT, ↓reduceIte, Nat.reduceMul, Nat.reduceAdd, Nat.add_zero, Nat.add_assoc]
    rw [a, b, ← Y.hcsi]; simp [riFill16, eM, gam, val, Nat.add_assoc]; ring
  · have a := g 1 (by omega); have b := g 5 (by omega)
    simp only [reimIW16, ileafE, Nat.reduceLT, ↓reduceIte, Nat.reduceMul, Nat.reduceAdd, Nat.add_zero, Nat.add_assoc]
    rw [a, b, ← Y.hcsi]; simp [riFill16, eM, gam, val, Nat.add_assoc]; ring
  · have a := g 2 (by omega); have b := g 6 (by omega)
    simp only [reimIW16, ileafE, Nat.reduceLT, ↓reduceIte, Nat.reduceMul, Nat.reduceAdd, Nat.add_zero, Nat.add_assoc]
    rw [a, b, ← Y.hcsi]; simp [riFill16, eM, gam, val, Nat.add_assoc]; ring
  · have a := g 3 (by omega); have b := g 7 (by omega)
    simp only [reimIW16, ileafE, Nat.reduceLT, ↓reduceIte, Nat.reduceMul, Nat.reduceAdd, Nat.add_zero, Nat.add_assoc]
    rw [a, b, ← Y.hcsi]; simp [riFill16, eM, gam, val, Nat.add_assoc]; ring
  · have a := g 8 (by omega); have b := g 9 (by omega)
    simp only [reimIW16, ileafE, Nat.reduceLT, ↓reduceIte, Nat.reduceMul, Nat.reduceAdd, Nat.add_zero, Nat.add_assoc]
    rw [a, b, ← Y.hcsi]; simp [riFill16, eM, gam, val, Nat.add_assoc]; ring
  · have a := g 10 (by omega); have b := g 11 (by omega)
    simp only [reimIW16, ileafE, Nat.reduceLT, ↓reduceIte, Nat.reduceMul, Nat.reduceAdd, Nat.add_zero, Nat.add_assoc]
    rw [a, b, ← Y.hcsi]; simp [riFill16, eM, gam, val, Nat.add_assoc]; ring
  · have a := g 12 (by omega); have b := g 13 (by omega)
    simp only [reimIW16, ileafE, Nat.reduceLT, ↓reduceIte, Nat.reduceMul, Nat.reduceAdd, Nat.add_zero, Nat.add_assoc]
    rw [a, b, ← Y.hcsi]; simp [riFill16, eM, gam, val, Nat.add_assoc]; ring
  · have a := g 14 (by omega); have b := g 15 (by omega)
    simp only [reimIW16, ileafE, Nat.reduceLT, ↓reduceIte, Nat.reduceMul, Nat.reduceAdd, Nat.add_zero, Nat.add_assoc]
    rw [a, b, ← Y.hcsi]; simp [riFill16, eM, gam, val, Nat.add_assoc]; ring

/-- the loop over the inverse 16-point leaves -/
theorem ileaves_spec (F : Flav R) (hF : InvOK Y.I F) (T : Array R) (N ℓ0 j b0 off m' t : ℕ) (cf : R) (s : RI R)
    (hs : Valid N s) (hk : Y.k = ℓ0 + j + 4) (hm : m' = 2 ^ (j + 4)) (hoff : off = m' * b0) (hN : off + m' ≤ N)
    (hT : Seg T t (((List.range (m' / 16)).flatMap
      (fun b => riFill16 (4 * 2 ^ Y.k) (16 * (1 + 4 * brev ℓ0 b0) + frbN (4 * 2 ^ Y.k) b))).map (val Y.c Y.s))) :
    let r := iterFrom (fun b (st : RI R × ℕ) => (ifft16 F T st.2 (off + 16 * b) st.1, st.2 + 16)) (m' / 16) 0 (s, t)
    IAdv Y.ζ Y.a (cxs Y.I s) (cxs Y.I r.1) cf (16 * cf) (ℓ0 + j + 4) 0 (ℓ0 + j) 4 off m' ∧ Valid N r.1 ∧
      r.2 = t + m' := by
  intro r
  have hnb : m' / 16 = 2 ^ j := by rw [hm, pow_add]; norm_num
  have hm16 : m' = 2 ^ j * 16 := by rw [hm, pow_add]; norm_num
  have hr : r = (iterFrom (fun b s => ifft16 F T (t + 16 * b) (off + 16 * b) s) (m' / 16) 0 s, t + 16 * (m' / 16)) :=
    iter_counter (fun b t s => ifft16 F T t (off + 16 * b) s) 16 (m' / 16) s t
  rw [hr]
  simp only
  rw [List.map_flatMap] at hT
  have hseg := Seg.flatMap (T := T) (t := t) _ 16 (m' / 16) (fun b => by simp [riFill16, eM, gam]) hT
  have sw := sweepG Y (fun p => cf * V Y.ζ Y.a (ℓ0 + j + 4) 0 p) (fun p => 16 * cf * V Y.ζ Y.a (ℓ0 + j) 4 p)
    (fun b s => ifft16 F T (t + 16 * b) (off + 16 * b) s) N off 16 (m' / 16)
    (fun b s hb hs => by
      have hb' : b < 2 ^ j := by omega
      have := ifft16K_adv Y F hF (reimIW16 T (t + 16 * b)) N (ℓ0 + j) (b0 * 2 ^ j + b) (off + 16 * b)
        (16 * (1 + 4 * brev ℓ0 b0) + frbN (4 * 2 ^ Y.k) b) cf s hs
        (by rw [hoff, hm16]; ring) (by omega) hk
        (by
          have := block_entry ℓ0 j 4 b0 b hb'
          rw [← hk] at this
          simpa using this)
        (ileaf_read Y T (t + 16 * b) _ _ (by
          have := hseg b hb
          rwa [show t + b * 16 = t + 16 * b by ring] at this))
      exact ⟨this.1.of_eq (by ring) rfl, this.2⟩) s hs
  refine ⟨sw.1.of_eq rfl (by omega), sw.2, by omega⟩

/-- one inverse radix-4 level over the whole region: blocks of size `h` become blocks of size `4h` -/
theorem ir4_spec (F : Flav R) (hF : InvOK Y.I F) (T : Array R) (N ℓ0 j e2 b0 off m' h t : ℕ) (cf : R) (s : RI R)
    (hs : Valid N s) (hk : Y.k = ℓ0 + j + (e2 + 2)) (hm : m' = 2 ^ (j + (e2 + 2))) (hh : h = 2 ^ e2)
    (hoff : off = m' * b0) (hN : off + m' ≤ N)
    (hT : Seg T t (((List.range (m' / (4 * h))).flatMap (fun b =>
      eM (h * (1 + 4 * brev ℓ0 b0) + frbN (4 * 2 ^ Y.k) b / 4) ++
      eM (2 * (h * (1 + 4 * brev ℓ0 b0) + frbN (4 * 2 ^ Y.k) b / 4)))).map (val Y.c Y.s))) :
    let r := iterFrom (fun b (st : RI R × ℕ) => (invbitwiddle F T st.2 h (off + b * (h * 4)) st.1, st.2 + 4))
      (m' / (h * 4)) 0 (s, t)
    IAdv Y.ζ Y.a (cxs Y.I s) (cxs Y.I r.1) cf (4 * cf) (ℓ0 + j + 2) e2 (ℓ0 + j) (e2 + 2) off m' ∧ Valid N r.1 ∧
      r.2 = t + 4 * (m' / (h * 4)) := by
  intro r
  have hmm : h * 4 = 2 ^ (e2 + 2) := by rw [hh, pow_add]; norm_num
  have h44 : 4 * h = h * 4 := by ring
  rw [h44] at hT
  have hnb : m' / (h * 4) = 2 ^ j := by
    rw [hm, hmm, pow_add]; exact Nat.mul_div_cancel _ (Nat.two_pow_pos _)
  have hm' : m' = 2 ^ j * (h * 4) := by rw [hm, hmm, pow_add]
  have hr : r = (iterFrom (fun b s => invbitwiddle F T (t + 4 * b) h (off + b * (h * 4)) s) (m' / (h * 4)) 0 s,
      t + 4 * (m' / (h * 4))) :=
    iter_counter (fun b t s => invbitwiddle F T t h (off + b * (h * 4)) s) 4 (m' / (h * 4)) s t
  rw [hr]
  simp only
  rw [List.map_flatMap] at hT
  have hseg := Seg.flatMap (T := T) (t := t) _ 4 (m' / (h * 4)) (fun b => by simp [eM]) hT
  have sw := sweepG Y (fun p => cf * V Y.ζ Y.a (ℓ0 + j + 2) e2 p) (fun p => 4 * cf * V Y.ζ Y.a (ℓ0 + j) (e2 + 2) p)
    (fun b s => invbitwiddle F T (t + 4 * b) h (off + b * (h * 4)) s) N off (h * 4) (m' / (h * 4))
    (fun b s hb hs => by
      have hb' : b < 2 ^ j := by omega
      have hsb := hseg b hb
      rw [List.map_append, show t + b * 4 = t + 4 * b by ring] at hsb
      have e := ReimFwd.r4_exps ℓ0 j e2 b0 b Y.k (h * 4) hb' hk hmm
      rw [show h * 4 * (1 + 4 * brev ℓ0 b0) / 4 = h * (1 + 4 * brev ℓ0 b0) by
        rw [show h * 4 * (1 + 4 * brev ℓ0 b0) = 4 * (h * (1 + 4 * brev ℓ0 b0)) by ring]
        exact Nat.mul_div_cancel_left _ (by omega)] at e
      have w0 := read_eM Y T (t + 4 * b) _ hsb.left
      have w1 := read_eM Y T (t + 4 * b + 2) _ (by simpa [eM] using hsb.right)
      rw [e.2] at w0
      rw [e.1] at w1
      have hbm' : b * (h * 4) + h * 4 ≤ 2 ^ j * (h * 4) := by
        have : (b + 1) * (h * 4) ≤ 2 ^ j * (h * 4) := Nat.mul_le_mul_right _ hb'
        rw [Nat.add_mul] at this; omega
      have := invbitwiddle_adv Y F hF T (t + 4 * b) N (ℓ0 + j) e2 (b0 * 2 ^ j + b) (off + b * (h * 4)) h cf s hs hh
        (by rw [hoff, hm']; ring) (by omega) (by omega) w0
        (by rw [show t + 4 * b + 2 + 1 = t + 4 * b + 3 by ring] at w1; exact w1)
      rw [h44] at this
      exact this) s hs
  refine ⟨sw.1.of_eq rfl (by rw [hnb, hm']), sw.2, trivial⟩

theorem IAdv_id (x : ℕ → R) (cf cf' : R) (ℓ d ℓ' d' off sz : ℕ) (h0 : cf' = cf) (h1 : ℓ' = ℓ) (h2 : d' = d) :
    IAdv Y.ζ Y.a x x cf cf' ℓ d ℓ' d' off sz := by subst h0 h1 h2; exact ⟨fun h => h, fun _ _ => rfl⟩

/-- the `while (h < ms2)` loop of `ibfs16`: all inverse radix-4 levels, blocks of 16 up to the whole region
(even log) or its two halves (odd log) -/
theorem ibfsLevels_spec (F : Flav R) (hF : InvOK Y.I F) (T : Array R) (N ℓ0 D b0 off m' p : ℕ)
    (hk : Y.k = ℓ0 + D) (hm : m' = 2 ^ D) (hoff : off = m' * b0) (hN : off + m' ≤ N) (hp : p = D % 2) (hpD : p ≤ D) :
    ∀ i fuel e j h ss (s : RI R) (t : ℕ) (cf : R), j = 2 * i + p → j + e = D → h = 2 ^ e →
      ss = h * (1 + 4 * brev ℓ0 b0) → i + 1 ≤ fuel → Valid N s →
      Seg T t ((riBfsLevels (4 * 2 ^ Y.k) m' fuel h ss).map (val Y.c Y.s)) →
      IAdv Y.ζ Y.a (cxs Y.I s) (cxs Y.I (ibfsLevels F T m' off fuel h (s, t)).1) cf (4 ^ i * cf)
          (ℓ0 + j) e (ℓ0 + p) (D - p) off m' ∧
        Valid N (ibfsLevels F T m' off fuel h (s, t)).1 ∧
        (ibfsLevels F T m' off fuel h (s, t)).2.2 = 2 ^ (D - p) ∧
        Seg T (ibfsLevels F T m' off fuel h (s, t)).2.1
          ((if m'.log2 % 2 != 0 then eM (2 ^ (D - p) * (1 + 4 * brev ℓ0 b0)) else []).map (val Y.c Y.s)) ∧
        (ibfsLevels F T m' off fuel h (s, t)).2.1 + (if m'.log2 % 2 != 0 then 2 else 0)
          = t + (riBfsLevels (4 * 2 ^ Y.k) m' fuel h ss).length := by
  have hm2 : m' / 2 = 2 ^ (D - 1) ∨ D = 0 := by
    by_cases h0 : D = 0
    · exact Or.inr h0
    · left
      obtain ⟨D1, rfl⟩ : ∃ D1, D = D1 + 1 := ⟨D - 1, by omega⟩
      rw [hm, pow_succ]; simp
  intro i
  induction i with
  | zero =>
    intro fuel e j h ss s t cf hj hje hh hss hfuel hs hT
    obtain ⟨f, rfl⟩ : ∃ f, fuel = f + 1 := ⟨fuel - 1, by omega⟩
    have he : e = D - p := by omega
    have hnot : ¬ h < m' / 2 := by
      rcases hm2 with h2 | h2
      · rw [h2, hh, he]
        have : 2 ^ (D - 1) ≤ 2 ^ (D - p) := Nat.pow_le_pow_right (by omega) (by omega)
        omega
      · rw [hm, h2]; simp
    rw [ibfsLevels, if_neg hnot]
    rw [riBfsLevels, if_neg hnot, hss, hh, he] at hT
    refine ⟨IAdv_id Y _ _ _ _ _ _ _ _ _ (by ring) (by omega) (by omega), hs, by rw [hh, he], hT, ?_⟩
    rw [riBfsLevels, if_neg hnot]
    by_cases ho : m'.log2 % 2 != 0
    · rw [if_pos ho, if_pos ho]; simp [eM]
    · rw [if_neg ho, if_neg ho]; simp
  | succ i ih =>
    intro fuel e j h ss s t cf hj hje hh hss hfuel hs hT
    obtain ⟨f, rfl⟩ : ∃ f, fuel = f + 1 := ⟨fuel - 1, by omega⟩
    have hD1 : D ≠ 0 := by omega
    have hlt : h < m' / 2 := by
      rcases hm2 with h2 | h2
      · rw [h2, hh]; exact Nat.pow_lt_pow_right (by omega) (by omega)
      · exact absurd h2 hD1
    rw [ibfsLevels, if_pos hlt]
    have hlenT : (riBfsLevels (4 * 2 ^ Y.k) m' (f + 1) h ss).length
        = 4 * (m' / (4 * h)) + (riBfsLevels (4 * 2 ^ Y.k) m' f (4 * h) (ss * 4)).length := by
      rw [riBfsLevels, if_pos hlt, List.length_append, length_flatMap_const _ 4 _ (fun b => by simp [eM])]; ring
    rw [riBfsLevels, if_pos hlt, List.map_append, hss] at hT
    have st := ir4_spec Y F hF T N ℓ0 (j - 2) e b0 off m' h t cf s hs (by omega) (by rw [hm]; congr 1; omega) hh
      hoff hN hT.left
    simp only at st
    obtain ⟨a1, v1, p1⟩ := st
    have hlen : (List.map (val Y.c Y.s) ((List.range (m' / (4 * h))).flatMap (fun b =>
        eM (h * (1 + 4 * brev ℓ0 b0) + frbN (4 * 2 ^ Y.k) b / 4) ++
        eM (2 * (h * (1 + 4 * brev ℓ0 b0) + frbN (4 * 2 ^ Y.k) b / 4))))).length = 4 * (m' / (h * 4)) := by
      rw [List.length_map, length_flatMap_const _ 4 _ (fun b => by simp [eM]), Nat.mul_comm h 4]; ring
    have hT2 := hT.right
    rw [hlen, ← p1, Nat.mul_comm 4 h] at hT2
    have nx := ih f (e + 2) (j - 2) (h * 4) (h * (1 + 4 * brev ℓ0 b0) * 4)
      (iterFrom (fun b (st : RI R × ℕ) => (invbitwiddle F T st.2 h (off + b * (h * 4)) st.1, st.2 + 4))
        (m' / (h * 4)) 0 (s, t)).1
      (iterFrom (fun b (st : RI R × ℕ) => (invbitwiddle F T st.2 h (off + b * (h * 4)) st.1, st.2 + 4))
        (m' / (h * 4)) 0 (s, t)).2 (4 * cf) (by omega) (by omega) (by rw [hh, pow_add]; norm_num) (by ring)
      (by omega) v1 hT2
    obtain ⟨a2, v2, q2, p2, r2⟩ := nx
    refine ⟨?_, v2, q2, p2, ?_⟩
    · have a1' := IAdv.cast Y.ζ Y.a a1 cf (4 * cf) (ℓ0 + j) e (ℓ0 + (j - 2)) (e + 2) rfl rfl (by omega) rfl rfl rfl
      have a2' := IAdv.cast Y.ζ Y.a a2 (4 * cf) (4 ^ (i + 1) * cf) (ℓ0 + (j - 2)) (e + 2) (ℓ0 + p) (D - p)
        rfl (by ring) rfl rfl rfl rfl
      exact a1'.seq a2'
    · rw [r2, p1, hlenT, hss, Nat.mul_comm 4 h, Nat.add_assoc]

theorem two_pow_gt (D : ℕ) : D < 2 ^ D := Nat.lt_two_pow_self

/-- `ibfs16`: a region of size `m' = 2^D ≥ 32` holding `cf·V k 0` is taken up to `2^D·cf·V ℓ0 D` -/
theorem ibfs16_spec (F : Flav R) (hF : InvOK Y.I F) (T : Array R) (N ℓ0 D b0 off m' t : ℕ) (cf : R) (s : RI R)
    (hk : Y.k = ℓ0 + D) (hm : m' = 2 ^ D) (hD : 5 ≤ D) (hoff : off = m' * b0) (hN : off + m' ≤ N)
    (hs : Valid N s)
    (hT : Seg T t ((riBfs (4 * 2 ^ Y.k) m' (m' * (1 + 4 * brev ℓ0 b0))).map (val Y.c Y.s))) :
    IAdv Y.ζ Y.a (cxs Y.I s) (cxs Y.I (ibfs16 F T m' off (s, t)).1) cf (2 ^ D * cf) Y.k 0 ℓ0 D off m' ∧
      Valid N (ibfs16 F T m' off (s, t)).1 ∧
      (ibfs16 F T m' off (s, t)).2 = t + (riBfs (4 * 2 ^ Y.k) m' (m' * (1 + 4 * brev ℓ0 b0))).length := by
  have hlog : m'.log2 = D := by rw [hm]; exact Nat.log2_two_pow
  have hpos : 0 < m' := by rw [hm]; exact Nat.two_pow_pos _
  have h16 : m' / 16 * 16 = m' := by
    have : m' = 2 ^ (D - 4) * 16 := by
      rw [hm, show (16 : ℕ) = 2 ^ 4 by norm_num, ← pow_add 2 (D - 4) 4]; congr 1; omega
    omega
  obtain ⟨i, p, hp, hDi⟩ : ∃ i p, p < 2 ∧ D = 4 + 2 * i + p := ⟨(D - 4) / 2, (D - 4) % 2, by omega, by omega⟩
  have hss : m' * (1 + 4 * brev ℓ0 b0) * 16 / m' = 16 * (1 + 4 * brev ℓ0 b0) := by
    rw [show m' * (1 + 4 * brev ℓ0 b0) * 16 = m' * (16 * (1 + 4 * brev ℓ0 b0)) by ring]
    exact Nat.mul_div_cancel_left _ hpos
  have hlenL : ((List.range (m' / 16)).flatMap (fun b =>
      riFill16 (4 * 2 ^ Y.k) (16 * (1 + 4 * brev ℓ0 b0) + frbN (4 * 2 ^ Y.k) b))).length = m' := by
    rw [length_flatMap_const _ 16 _ (fun b => by simp [riFill16, eM, gam]), h16]
  unfold ibfs16
  rw [riBfs, hss, List.map_append] at hT
  rw [riBfs, hss, List.length_append, hlenL]
  have s1 := ileaves_spec Y F hF T N ℓ0 (2 * i + p) b0 off m' t cf s hs (by omega)
    (by rw [hm, hDi]; congr 1; omega) hoff hN hT.left
  simp only at s1
  generalize iterFrom (fun b (st : RI R × ℕ) => (ifft16 F T st.2 (off + 16 * b) st.1, st.2 + 16)) (m' / 16) 0 (s, t)
    = stA at s1 ⊢
  obtain ⟨sA, tA⟩ := stA
  obtain ⟨a1, v1, p1⟩ := s1
  simp only at a1 v1 p1
  have hT2 := hT.right
  rw [List.length_map, hlenL, ← p1] at hT2
  have h4 : (4 : R) ^ i = 2 ^ (2 * i) := by rw [pow_mul]; norm_num
  have hfuel : i + 1 ≤ m' := by have := two_pow_gt D; omega
  have s2 := ibfsLevels_spec Y F hF T N ℓ0 D b0 off m' p hk hm hoff hN (by omega) (by omega) i m' 4 (2 * i + p) 16
    (16 * (1 + 4 * brev ℓ0 b0)) sA tA (16 * cf) rfl (by omega) (by norm_num) rfl hfuel v1 hT2
  obtain ⟨sB, tB, hB, hst⟩ : ∃ sB tB hB, ibfsLevels F T m' off m' 16 (sA, tA) = (sB, tB, hB) := ⟨_, _, _, rfl⟩
  rw [hst] at s2
  simp only [hst]
  obtain ⟨a2, v2, q2, sg2, r2⟩ := s2
  simp only at a2 v2 q2 sg2 r2 ⊢
  rw [hlog] at sg2 r2 ⊢
  by_cases hodd : D % 2 != 0
  · have hp1 : p = 1 := by simp at hodd; omega
    subst hp1
    rw [if_pos hodd] at sg2 r2 ⊢
    have w := read_eM Y T _ _ sg2
    rw [q2]
    have e2 : m' = 2 * 2 ^ (D - 1) := by
      rw [hm]; conv_lhs => rw [show D = D - 1 + 1 by omega, pow_succ]
      ring
    have s3 := itwPass_adv Y F.ct hF.ct N ℓ0 (D - 1) b0 off (4 ^ i * (16 * cf)) _ _ _ v2
      (by rw [hoff, e2]) (by omega) (by rw [w, twE])
    refine ⟨?_, s3.2, by omega⟩
    have b1 := IAdv.cast Y.ζ Y.a a1 cf (16 * cf) Y.k 0 (ℓ0 + (2 * i + 1)) 4 rfl rfl (by omega) rfl rfl rfl
    have b2 := IAdv.cast Y.ζ Y.a a2 (16 * cf) (4 ^ i * (16 * cf)) (ℓ0 + (2 * i + 1)) 4 (ℓ0 + 1) (D - 1) rfl rfl rfl rfl
      rfl rfl
    have b3 := IAdv.cast Y.ζ Y.a (s3.1.of_eq rfl e2)
      (4 ^ i * (16 * cf)) (2 ^ D * cf) (ℓ0 + 1) (D - 1) ℓ0 D rfl (by rw [hDi, h4]; ring) rfl rfl rfl (by omega)
    exact (b1.seq b2).seq b3
  · have hp0 : p = 0 := by simp at hodd; omega
    subst hp0
    rw [if_neg hodd] at sg2 r2 ⊢
    refine ⟨?_, v2, by omega⟩
    have b1 := IAdv.cast Y.ζ Y.a a1 cf (16 * cf) Y.k 0 (ℓ0 + (2 * i + 0)) 4 rfl rfl (by omega) rfl rfl rfl
    have b2 := IAdv.cast Y.ζ Y.a a2 (16 * cf) (2 ^ D * cf) (ℓ0 + (2 * i + 0)) 4 ℓ0 D rfl (by rw [hDi, h4]; ring) rfl rfl
      rfl rfl
    exact b1.seq b2

/-- `irec16` -/
theorem irec16_spec (F : Flav R) (hF : InvOK Y.I F) (T : Array R) (N : ℕ) :
    ∀ fuel D ℓ0 b0 off m' t (cf : R) (s : RI R), Y.k = ℓ0 + D → m' = 2 ^ D → 5 ≤ D → off = m' * b0 →
      off + m' ≤ N → Valid N s →
      Seg T t ((riRec (4 * 2 ^ Y.k) fuel m' (m' * (1 + 4 * brev ℓ0 b0))).map (val Y.c Y.s)) →
      IAdv Y.ζ Y.a (cxs Y.I s) (cxs Y.I (irec16 F T fuel m' off (s, t)).1) cf (2 ^ D * cf) Y.k 0 ℓ0 D off m' ∧
        Valid N (irec16 F T fuel m' off (s, t)).1 ∧
        (irec16 F T fuel m' off (s, t)).2 = t + (riRec (4 * 2 ^ Y.k) fuel m' (m' * (1 + 4 * brev ℓ0 b0))).length := by
  intro fuel
  induction fuel with
  | zero =>
    intro D ℓ0 b0 off m' t cf s hk hm hD hoff hN hs hT
    rw [riRec] at hT ⊢
    rw [irec16]
    exact ibfs16_spec Y F hF T N ℓ0 D b0 off m' t cf s hk hm hD hoff hN hs hT
  | succ f ih =>
    intro D ℓ0 b0 off m' t cf s hk hm hD hoff hN hs hT
    rw [irec16]
    rw [riRec] at hT ⊢
    by_cases hle : m' ≤ 2048
    · rw [if_pos hle] at hT ⊢
      rw [if_pos hle]
      exact ibfs16_spec Y F hF T N ℓ0 D b0 off m' t cf s hk hm hD hoff hN hs hT
    · rw [if_neg hle] at hT ⊢
      rw [if_neg hle]
      obtain ⟨D1, rfl⟩ : ∃ D1, D = D1 + 1 := ⟨D - 1, by omega⟩
      have hD1 : 5 ≤ D1 := by
        by_contra hc
        have : D1 + 1 ≤ 5 := by omega
        have : 2 ^ (D1 + 1) ≤ 2 ^ 5 := Nat.pow_le_pow_right (by omega) this
        rw [← hm] at this; omega
      have hmm : m' = 2 * 2 ^ D1 := by rw [hm, pow_succ]; ring
      have hh : m' / 2 = 2 ^ D1 := by omega
      have hpw : m' * (1 + 4 * brev ℓ0 b0) / 2 = m' / 2 * (1 + 4 * brev ℓ0 b0) := by
        rw [hmm, Nat.mul_assoc, Nat.mul_div_cancel_left _ (by omega : 0 < 2),
          Nat.mul_div_cancel_left _ (by omega : 0 < 2)]
      have hpL : m' * (1 + 4 * brev ℓ0 b0) / 2 = m' / 2 * (1 + 4 * brev (ℓ0 + 1) (2 * b0)) := by
        rw [hpw, brev_even]
      have hpR : m' * (1 + 4 * brev ℓ0 b0) / 2 + 4 * 2 ^ Y.k / 2 = m' / 2 * (1 + 4 * brev (ℓ0 + 1) (2 * b0 + 1)) := by
        rw [hpw, brev_odd, hk, hh, pow_add, pow_succ]
        have : 4 * (2 ^ ℓ0 * (2 ^ D1 * 2)) / 2 = 4 * (2 ^ ℓ0 * 2 ^ D1) := by
          rw [show 4 * (2 ^ ℓ0 * (2 ^ D1 * 2)) = 2 * (4 * (2 ^ ℓ0 * 2 ^ D1)) by ring]
          exact Nat.mul_div_cancel_left _ (by omega)
        rw [this]; ring
      rw [List.map_append, List.map_append, hpR] at hT
      rw [hpR]
      -- left half
      have hTL := hT.left.left
      rw [hpL] at hTL
      have s1 := ih D1 (ℓ0 + 1) (2 * b0) off (m' / 2) t cf s (by omega) hh hD1 (by rw [hoff, hh, hmm]; ring)
        (by omega) hs hTL
      obtain ⟨sA, tA, hst⟩ : ∃ sA tA, irec16 F T f (m' / 2) off (s, t) = (sA, tA) := ⟨_, _, rfl⟩
      rw [hst] at s1
      simp only [hst]
      obtain ⟨a1, v1, p1⟩ := s1
      simp only at a1 v1 p1
      -- right half
      have hTR := hT.left.right
      rw [List.length_map, hpL, ← p1] at hTR
      have s2 := ih D1 (ℓ0 + 1) (2 * b0 + 1) (off + m' / 2) (m' / 2) tA cf sA (by omega) hh hD1
        (by rw [hoff, hh, hmm]; ring) (by omega) v1 hTR
      obtain ⟨sB, tB, hst2⟩ : ∃ sB tB, irec16 F T f (m' / 2) (off + m' / 2) (sA, tA) = (sB, tB) := ⟨_, _, rfl⟩
      rw [hst2] at s2
      simp only [hst2]
      obtain ⟨a2, v2, p2⟩ := s2
      simp only at a2 v2 p2
      -- twiddle
      have hTW := hT.right
      rw [List.length_append, List.length_map, List.length_map, hpL, ← Nat.add_assoc, ← p1, ← p2] at hTW
      have w := read_eM Y T _ _ hTW
      have s3 := itwPass_adv Y F.ct hF.ct N ℓ0 D1 b0 off (2 ^ D1 * cf) _ _ _ v2 (by rw [hoff, hmm]) (by omega)
        (by rw [w, brev_even, hh, twE])
      rw [← hh] at s3
      refine ⟨?_, s3.2, ?_⟩
      · have b12 := (a1.par a2).of_eq rfl (show m' = m' / 2 + m' / 2 by omega)
        have b3 := IAdv.cast Y.ζ Y.a (s3.1.of_eq rfl (show m' = 2 * (m' / 2) by omega)) (2 ^ D1 * cf)
          (2 ^ (D1 + 1) * cf) (ℓ0 + 1) D1 ℓ0 (D1 + 1) rfl (by rw [pow_succ]; ring) rfl rfl rfl rfl
        exact b12.seq b3
      · simp only [List.length_append, eM, List.length_cons, List.length_nil, hpL]
        omega

end Spq.Fft.ReimInv
