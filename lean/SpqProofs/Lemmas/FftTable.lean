/-
  C06, table layer: the exact table (`Ent` ↦ ring element), table segments, list bookkeeping.
-/
import SpqProofs.Lemmas.FftTw
import SpqProofs.Lemmas.FftBf
set_option linter.unusedSectionVars false
namespace Spq.Fft.Tab
open Spq.Fft

variable {R : Type} [CommRing R] [Inhabited R]

/-- exact value of a table entry, given `c e = cos(2πe/U)`, `s e = sin(2πe/U)` -/
def val (c s : ℕ → R) (x : Ent) : R :=
  if x.kind = 0 then c x.e else if x.kind = 1 then s x.e else if x.kind = 2 then - s x.e else - c x.e

/-- the table holds the list `L` from position `t` on -/
def Seg (T : Array R) (t : ℕ) (L : List R) : Prop := ∀ j, j < L.length → T[t + j]! = L[j]!

theorem Seg.left {T : Array R} {t : ℕ} {A B : List R} (h : Seg T t (A ++ B)) : Seg T t A := by
  intro j hj
  have := h j (by simp; omega)
  rw [this]
  simp [List.getElem!_eq_getElem?_getD, List.getElem?_append_left hj]

theorem Seg.right {T : Array R} {t : ℕ} {A B : List R} (h : Seg T t (A ++ B)) : Seg T (t + A.length) B := by
  intro j hj
  have := h (A.length + j) (by simp; omega)
  rw [Nat.add_assoc, this]
  simp [List.getElem!_eq_getElem?_getD, List.getElem?_append_right]

theorem length_flatMap_const {β : Type} (g : ℕ → List β) (len n : ℕ) (hg : ∀ b, (g b).length = len) :
    ((List.range n).flatMap g).length = n * len := by
  induction n with
  | zero => simp
  | succ n ih => rw [List.range_succ, List.flatMap_append, List.length_append, ih]; simp [hg]; ring

theorem Seg.flatMap {T : Array R} {t : ℕ} (g : ℕ → List R) (len n : ℕ) (hg : ∀ b, (g b).length = len)
    (h : Seg T t ((List.range n).flatMap g)) : ∀ b, b < n → Seg T (t + b * len) (g b) := by
  induction n with
  | zero => intro b hb; omega
  | succ n ih =>
    intro b hb
    rw [List.range_succ, List.flatMap_append] at h
    by_cases hbn : b = n
    · subst hbn
      have := h.right
      rw [length_flatMap_const g len b hg] at this
      simpa using this
    · exact ih h.left b (by omega)

theorem Seg.of_toArray (L : List R) : Seg L.toArray 0 L := by
  intro j hj
  simp [hj]

end Spq.Fft.Tab
