/-
  `(int64_t) rint(x * p)` for a power of two `p = 2^-jj`: the result is within 1/2 of `x / 2^jj`
  (including products that underflow, which round to 0).
-/
import SpqProofs.Lemmas.F64Rint

namespace Spq.F64

theorem sI_mul_sub (s : Bool) (n n' : Nat) (A B : Int) :
    |sI s n * A - sI s n' * B| = |(n : Int) * A - (n' : Int) * B| := by
  cases s
  · simp [sI]
  · simp only [sI, if_true]
    have : -(n : Int) * A - -(n' : Int) * B = -((n : Int) * A - (n' : Int) * B) := by ring
    rw [this, abs_neg]

/-- `x * p` with `p = 2^(ep+52)`: either exact (normalised significand `mx·2^k`, exponent `ex+ep+52-k`) or
    below the normal range (`decode = ⟨sx, q, -1074⟩`, `q ≤ 2^52`) -/
theorem mul_pow2_cases {x p : Nat} {sx : Bool} {mx : Nat} {ex ep : Int}
    (hx : decode x = ⟨sx, mx, ex⟩) (hp : decode p = ⟨false, 4503599627370496, ep⟩) (k : Nat)
    (hn1 : 4503599627370496 ≤ mx * 2 ^ k) (hn2 : mx * 2 ^ k < 9007199254740992) (hk : k ≤ 52)
    (hov : ex + ep + 52 - k ≤ 971) :
    (-1074 ≤ ex + ep + 52 - k ∧ decode (mul x p) = ⟨sx, mx * 2 ^ k, ex + ep + 52 - k⟩) ∨
    (ex + ep + 52 - k < -1074 ∧ ∃ q, q ≤ 4503599627370496 ∧ decode (mul x p) = ⟨sx, q, -1074⟩) := by
  have hs : (sx != false) = sx := by cases sx <;> rfl
  have hmul : mul x p = pack sx (mx * 2 ^ 52) (ex + ep) := by
    rw [mul_of_decode hx hp, hs]
    have : (4503599627370496 : Nat) = 2 ^ 52 := by norm_num
    rw [this]
  rw [hmul]
  rcases Int.lt_or_le (ex + ep + 52 - k) (-1074) with hlt | hge
  · right
    refine ⟨hlt, ?_⟩
    have hmx0 : mx ≠ 0 := by rintro rfl; simp at hn1
    have hM : mx * 2 ^ 52 ≠ 0 := by positivity
    apply decode_pack_tiny sx (mx * 2 ^ 52) (ex + ep) (105 - k) hM
    · -- mx·2^52 < 2^(105-k)
      have h3 : mx * 2 ^ k * 2 ^ (52 - k) < 9007199254740992 * 2 ^ (52 - k) :=
        Nat.mul_lt_mul_of_pos_right hn2 (by positivity)
      have h4 : mx * 2 ^ k * 2 ^ (52 - k) = mx * 2 ^ 52 := by
        rw [mul_assoc, ← pow_add]; congr 2; omega
      have h5 : 9007199254740992 * 2 ^ (52 - k) = 2 ^ (105 - k) := by
        have : (9007199254740992 : Nat) = 2 ^ 53 := by norm_num
        rw [this, ← pow_add]; congr 1; omega
      rw [h4, h5] at h3; exact h3
    · have : ((105 - k : Nat) : Int) = 105 - k := by omega
      rw [this]; omega
  · left
    refine ⟨hge, ?_⟩
    have := decode_pack_exact sx mx 52 (ex + ep) k hn1 hn2 (by push_cast; omega) (by push_cast; omega)
    rw [this]; congr 1

/-- Rounding of an exact binary quotient to an integer: for `x = ±mx·2^ex`, `p = 2^-jj` and `|x·p| < 2^63`,
    `r = (int64_t)rint(x*p)` satisfies `2·|r·2^jj − x| ≤ 2^jj` (all in units of 2^-1074: `a = ex+1074`, `b = jj+1074`). -/
theorem quot_round_core {x p : Nat} {sx : Bool} {mx : Nat} {ex ep : Int}
    (hx : decode x = ⟨sx, mx, ex⟩) (hp : decode p = ⟨false, 4503599627370496, ep⟩)
    (hm : mx < 9007199254740992) (a b : Nat) (ha : (a : Int) = ex + 1074) (hb : (b : Int) = -(ep + 52) + 1074)
    (hdom : mx * 2 ^ a < 9223372036854775808 * 2 ^ b) :
    2 * |toIntTrunc (rint (mul x p)) * 2 ^ b - sI sx mx * 2 ^ a| ≤ 2 ^ b := by
  have hs : (sx != false) = sx := by cases sx <;> rfl
  by_cases hmx0 : mx = 0
  · subst hmx0
    have hmul : mul x p = sgn sx := by
      rw [mul_of_decode hx hp, hs, Nat.zero_mul, pack_zero]
    have hr : toIntTrunc (rint (mul x p)) = 0 := by
      rw [hmul]; exact toIntTrunc_rint_tiny (decode_sgn sx) (by norm_num)
    rw [hr]
    have : sI sx 0 = 0 := by cases sx <;> simp [sI]
    rw [this, zero_mul, zero_mul, sub_zero, abs_zero, mul_zero]
    positivity
  obtain ⟨k, hk, hn1, hn2⟩ := exists_norm_shift hmx0 hm
  have hPk : (0 : Int) < 2 ^ k := by positivity
  -- the exponent of the exact product
  have hov : ex + ep + 52 - k ≤ 971 := by
    by_contra hc
    -- then |x·p| ≥ 2^52·2^972: contradiction with the domain
    have hc' : b + k + 972 ≤ a := by omega
    have h1 : 2 ^ (b + k + 972) ≤ 2 ^ a := Nat.pow_le_pow_right (by norm_num) hc'
    have h2 : 4503599627370496 * 2 ^ a ≤ mx * 2 ^ k * 2 ^ a := Nat.mul_le_mul_right _ hn1
    have h3 : mx * 2 ^ k * 2 ^ a < 9223372036854775808 * 2 ^ b * 2 ^ k := by
      have := Nat.mul_lt_mul_of_pos_right hdom (show 0 < 2 ^ k by positivity)
      calc mx * 2 ^ k * 2 ^ a = mx * 2 ^ a * 2 ^ k := by ring
        _ < _ := this
    have h4 : 9223372036854775808 * 2 ^ b * 2 ^ k ≤ 4503599627370496 * 2 ^ (b + k + 972) := by
      have : (2 : Nat) ^ (b + k + 972) = 2 ^ b * 2 ^ k * 2 ^ 972 := by rw [pow_add, pow_add]
      rw [this]
      have key : ∀ n, 11 ≤ n → (2048 : Nat) ≤ 2 ^ n := fun n h => by
        calc (2048 : Nat) = 2 ^ 11 := by norm_num
          _ ≤ 2 ^ n := Nat.pow_le_pow_right (by norm_num) h
      have h11 := key 972 (by omega)
      have hbk : 0 < 2 ^ b * 2 ^ k := by positivity
      calc 9223372036854775808 * 2 ^ b * 2 ^ k = 4503599627370496 * (2 ^ b * 2 ^ k * 2048) := by ring
        _ ≤ 4503599627370496 * (2 ^ b * 2 ^ k * 2 ^ 972) :=
          Nat.mul_le_mul_left _ (Nat.mul_le_mul_left _ h11)
    have h5 : 4503599627370496 * 2 ^ (b + k + 972) ≤ 4503599627370496 * 2 ^ a := Nat.mul_le_mul_left _ h1
    omega
  rcases mul_pow2_cases hx hp k hn1 hn2 hk hov with ⟨hge, hd⟩ | ⟨hlt, q, hq, hd⟩
  · -- exact product
    rcases Int.lt_or_le (ex + ep + 52 - k) 0 with hneg | hnn
    · -- fractional bits: round
      rw [toIntTrunc_rint_neg hd hneg hn2]
      set kk := (-(ex + ep + 52 - k)).toNat with hkk
      have hak : a + kk = b + k := by omega
      obtain ⟨e1, e2⟩ := rne_err (mx * 2 ^ k) kk
      set R := rne (mx * 2 ^ k) kk
      have e1' : 2 * ((R : Int) * 2 ^ kk) ≤ 2 * ((mx : Int) * 2 ^ k) + 2 ^ kk := by exact_mod_cast e1
      have e2' : 2 * ((mx : Int) * 2 ^ k) ≤ 2 * ((R : Int) * 2 ^ kk) + 2 ^ kk := by exact_mod_cast e2
      rw [sI_mul_sub]
      -- multiply the goal by 2^k and use a + kk = b + k
      have hPa : (0 : Int) < 2 ^ a := by positivity
      have key : (2 * |(R : Int) * 2 ^ b - (mx : Int) * 2 ^ a|) * 2 ^ k ≤ 2 ^ b * 2 ^ k := by
        have hfac : ((R : Int) * 2 ^ b - (mx : Int) * 2 ^ a) * 2 ^ k = ((R : Int) * 2 ^ kk - (mx : Int) * 2 ^ k) * 2 ^ a := by
          have p1 : (2 : Int) ^ b * 2 ^ k = 2 ^ kk * 2 ^ a := by
            rw [← pow_add, ← pow_add]; congr 1; omega
          calc ((R : Int) * 2 ^ b - (mx : Int) * 2 ^ a) * 2 ^ k
              = (R : Int) * (2 ^ b * 2 ^ k) - (mx : Int) * 2 ^ k * 2 ^ a := by ring
            _ = (R : Int) * (2 ^ kk * 2 ^ a) - (mx : Int) * 2 ^ k * 2 ^ a := by rw [p1]
            _ = _ := by ring
        have habs : |(R : Int) * 2 ^ b - (mx : Int) * 2 ^ a| * 2 ^ k = |(R : Int) * 2 ^ kk - (mx : Int) * 2 ^ k| * 2 ^ a := by
          rw [← abs_of_pos hPk, ← abs_mul, hfac, abs_mul, abs_of_pos hPa, abs_of_pos hPk]
        have hrhs : (2 : Int) ^ b * 2 ^ k = 2 ^ kk * 2 ^ a := by
          rw [← pow_add, ← pow_add]; congr 1; omega
        rw [mul_assoc, habs, hrhs, ← mul_assoc]
        apply mul_le_mul_of_nonneg_right _ (le_of_lt hPa)
        rcases abs_cases ((R : Int) * 2 ^ kk - (mx : Int) * 2 ^ k) with ⟨h, _⟩ | ⟨h, _⟩ <;> rw [h] <;> linarith
      exact le_of_mul_le_mul_right key hPk
    · -- integer valued: exact
      have hab : a = b + k + (ex + ep + 52 - k).toNat := by omega
      have hlt : ((mx * 2 ^ k : Nat) : Int) * 2 ^ (ex + ep + 52 - k).toNat < 9223372036854775808 := by
        have h1 : mx * 2 ^ a = mx * 2 ^ k * 2 ^ (ex + ep + 52 - k).toNat * 2 ^ b := by
          rw [hab]; rw [pow_add, pow_add]; ring
        rw [h1] at hdom
        have := Nat.lt_of_mul_lt_mul_right hdom
        exact_mod_cast this
      rw [toIntTrunc_rint_nonneg hd hnn hlt, mul_assoc, sI_mul_sub]
      have : ((mx * 2 ^ k : Nat) : Int) * (2 ^ (ex + ep + 52 - k).toNat * 2 ^ b) - (mx : Int) * 2 ^ a = 0 := by
        rw [hab]; push_cast; rw [pow_add, pow_add]; ring
      rw [this, abs_zero, mul_zero]; positivity
  · -- underflow: result 0 and |x·p| < 1/2
    rw [toIntTrunc_rint_tiny hd hq, zero_mul, zero_sub, abs_neg]
    have hsa : |sI sx mx * 2 ^ a| = |(mx : Int) * 2 ^ a| := by
      have := sI_mul_sub sx mx 0 (2 ^ a) 0
      simpa using this
    rw [hsa]
    have hab : a + 1075 ≤ b + k := by omega
    have h1 : mx * 2 ^ k * 2 ^ (a + 1) < 9007199254740992 * 2 ^ (a + 1) :=
      Nat.mul_lt_mul_of_pos_right hn2 (by positivity)
    have h2 : 9007199254740992 * 2 ^ (a + 1) ≤ 2 ^ (b + k) := by
      have : (9007199254740992 : Nat) = 2 ^ 53 := by norm_num
      rw [this, ← pow_add]
      exact Nat.pow_le_pow_right (by norm_num) (by omega)
    have h3 : mx * 2 ^ (a + 1) * 2 ^ k < 2 ^ b * 2 ^ k := by
      rw [← pow_add]
      calc mx * 2 ^ (a + 1) * 2 ^ k = mx * 2 ^ k * 2 ^ (a + 1) := by ring
        _ < _ := lt_of_lt_of_le h1 h2
    have h4 := Nat.lt_of_mul_lt_mul_right h3
    have h5 : ((mx * 2 ^ (a + 1) : Nat) : Int) < ((2 ^ b : Nat) : Int) := by exact_mod_cast h4
    have hnn : (0 : Int) ≤ (mx : Int) * 2 ^ a := by positivity
    rw [abs_of_nonneg hnn]
    push_cast at h5
    rw [pow_succ] at h5
    linarith

end Spq.F64
