/-
  Generic lemmas for the q120 product kernels: a left fold whose state component `π` is updated by a
  wrapping 64-bit addition of a per-term value is the exact sum as long as `length · bound < 2^64`.
-/
import Spq.Q120
import Mathlib.Tactic.Ring
import Mathlib.Tactic.Linarith
import Mathlib.Data.Nat.ModEq
namespace Spq.Q120
variable {α σ : Type}

/-- exact (unbounded) sum of a per-term value over the term list -/
def wsum (f : α → Nat) (l : List α) : Nat := (l.map f).sum

@[simp] theorem wsum_nil (f : α → Nat) : wsum f [] = 0 := rfl
@[simp] theorem wsum_cons (f : α → Nat) (t : α) (l : List α) : wsum f (t :: l) = f t + wsum f l := by
  simp [wsum]

theorem wsum_le (f : α → Nat) (B : Nat) (l : List α) (h : ∀ t ∈ l, f t ≤ B) : wsum f l ≤ l.length * B := by
  induction l with
  | nil => simp
  | cons t l ih =>
    have h1 := h t (by simp)
    have h2 := ih (fun u hu => h u (by simp [hu]))
    simp only [wsum_cons, List.length_cons]
    have : (l.length + 1) * B = l.length * B + B := by ring
    omega

theorem wsum_congr (f g : α → Nat) (l : List α) (h : ∀ t ∈ l, f t = g t) : wsum f l = wsum g l := by
  induction l with
  | nil => rfl
  | cons t l ih =>
    simp only [wsum_cons]
    rw [h t (by simp), ih (fun u hu => h u (by simp [hu]))]

theorem wsum_add (f g : α → Nat) (l : List α) : wsum (fun t => f t + g t) l = wsum f l + wsum g l := by
  induction l with
  | nil => rfl
  | cons t l ih => simp only [wsum_cons, ih]; omega

theorem wsum_mul (c : Nat) (f : α → Nat) (l : List α) : wsum (fun t => c * f t) l = c * wsum f l := by
  induction l with
  | nil => rfl
  | cons t l ih => simp only [wsum_cons, ih]; ring

/-- a state component updated by `π s' = (π s + f t) mod 2^64` holds the sum mod 2^64 -/
theorem acc_proj (step : σ → α → σ) (π : σ → Nat) (f : α → Nat)
    (h : ∀ s t, π (step s t) = (π s + f t) % 18446744073709551616)
    (l : List α) (s : σ) (hs : π s < 18446744073709551616) :
    π (l.foldl step s) = (π s + wsum f l) % 18446744073709551616 := by
  induction l generalizing s with
  | nil => simp; omega
  | cons t l ih =>
    simp only [List.foldl_cons, wsum_cons]
    rw [ih (step s t) (by rw [h]; omega), h]
    omega

/-- … and the exact sum when `length · bound` fits -/
theorem acc_exact (step : σ → α → σ) (π : σ → Nat) (f : α → Nat) (B N : Nat)
    (h : ∀ s t, π (step s t) = (π s + f t) % 18446744073709551616)
    (l : List α) (s : σ) (hs : π s = 0) (hB : ∀ t ∈ l, f t ≤ B) (hl : l.length ≤ N)
    (hN : N * B < 18446744073709551616) :
    π (l.foldl step s) = wsum f l ∧ wsum f l ≤ N * B := by
  have b := wsum_le f B l hB
  have : l.length * B ≤ N * B := Nat.mul_le_mul_right _ hl
  rw [acc_proj step π f h l s (by omega), hs]
  constructor
  · simp; omega
  · omega

theorem foldl_congr_on (f g : σ → α → σ) (l : List α) (s : σ)
    (h : ∀ t ∈ l, ∀ s, f s t = g s t) : l.foldl f s = l.foldl g s := by
  induction l generalizing s with
  | nil => rfl
  | cons t l ih =>
    simp only [List.foldl_cons]
    rw [h t (by simp), ih _ (fun u hu => h u (by simp [hu]))]

theorem add64_eq (a b : Nat) (h : a + b < 18446744073709551616) : add64 a b = a + b := by
  unfold add64; omega
theorem mul64_eq (a b : Nat) (h : a * b < 18446744073709551616) : mul64 a b = a * b := by
  unfold mul64; exact Nat.mod_eq_of_lt h
theorem mulEpu32_eq (a b : Nat) (ha : a < 4294967296) (hb : b < 4294967296) : mulEpu32 a b = a * b := by
  unfold mulEpu32; rw [Nat.mod_eq_of_lt ha, Nat.mod_eq_of_lt hb]

theorem mul_lt_P64 (a b : Nat) (ha : a < 4294967296) (hb : b < 4294967296) :
    a * b ≤ 4294967295 * 4294967295 := Nat.mul_le_mul (by omega) (by omega)

/-- `(a + b·c) ≡ (a + b·d)` when `c ≡ d` -/
theorem add_mul_mod_congr (q a b c d : Nat) (h : c % q = d % q) : (a + b * c) % q = (a + b * d) % q := by
  rw [Nat.add_mod, Nat.mul_mod, h, ← Nat.mul_mod, ← Nat.add_mod]

/-- replace seven reduced coefficients by congruent ones in a linear form -/
theorem lin8_congr (q a0 b1 p1 d1 b2 p2 d2 b3 p3 d3 b4 p4 d4 b5 p5 d5 b6 p6 d6 b7 p7 d7 : Nat)
    (h1 : p1 % q = d1 % q) (h2 : p2 % q = d2 % q) (h3 : p3 % q = d3 % q) (h4 : p4 % q = d4 % q)
    (h5 : p5 % q = d5 % q) (h6 : p6 % q = d6 % q) (h7 : p7 % q = d7 % q) :
    (a0 + b1 * p1 + b2 * p2 + b3 * p3 + b4 * p4 + b5 * p5 + b6 * p6 + b7 * p7) % q
    = (a0 + b1 * d1 + b2 * d2 + b3 * d3 + b4 * d4 + b5 * d5 + b6 * d6 + b7 * d7) % q := by
  have e : ∀ b p d, p % q = d % q → Nat.ModEq q (b * p) (b * d) := fun b p d h => Nat.ModEq.mul_left b h
  exact (((((((Nat.ModEq.refl a0).add (e _ _ _ h1)).add (e _ _ _ h2)).add (e _ _ _ h3)).add (e _ _ _ h4)).add
    (e _ _ _ h5)).add (e _ _ _ h6)).add (e _ _ _ h7)

theorem div_pow_lt (x : Nat) (hx : x < 18446744073709551616) : x / 4294967296 < 4294967296 := by omega

/-- the term list of a lane inherits a pointwise property of the operand arrays -/
theorem laneTerms_forall (P : Nat × Nat → Prop) (ell : Nat) (x y : Array Nat) (sx ox sy oy : Nat)
    (h : ∀ i k, P (x.getD i 0, y.getD k 0)) : ∀ t ∈ laneTerms ell x y sx ox sy oy, P t := by
  intro t ht
  simp only [laneTerms, List.mem_map] at ht
  obtain ⟨i, _, rfl⟩ := ht
  exact h _ _

theorem laneTerms_length (ell : Nat) (x y : Array Nat) (sx ox sy oy : Nat) :
    (laneTerms ell x y sx ox sy oy).length = ell := by simp [laneTerms]

/-- the exact dot product of a term list -/
def dot (l : List (Nat × Nat)) : Nat := wsum (fun t => t.1 * t.2) l

end Spq.Q120
