/-
  Bridge (1): the negacyclic product formula `nmul` is the product of `R[X]/(X^n+1)`;
  Bridge (5): a class of `R[X]/(X^n+1)` has at most one coefficient vector of length `n`.
-/
import SpqProofs.Lemmas.BridgeBasic

namespace Spq.Bridge
open Polynomial Finset Spq.Q120Ntt

variable {R : Type} [CommRing R]

/-- `nmul` commutes with ring homomorphisms -/
theorem map_nmul {S : Type} [CommRing S] (f : R →+* S) (n : Nat) (g h : Nat → R) (i : Nat) :
    f (nmul n g h i) = nmul n (fun k => f (g k)) (fun k => f (h k)) i := by
  simp only [nmul, map_sum]
  apply sum_congr rfl; intro a _
  apply sum_congr rfl; intro b _
  split_ifs <;> simp

/-- (1) the coefficient formula `nmul` is the product of `R[X]/(X^n+1)` -/
theorem mk_toPoly_nmul' (n : Nat) (g h : Nat → R) :
    mk n (toPoly n (nmul n g h)) = mk n (toPoly n g) * mk n (toPoly n h) := by
  rw [mk_toPoly, mk_toPoly, mk_toPoly]
  simp only [map_nmul]
  exact eval_nmul n (root n) (root_pow_n n) _ _

theorem modulus_monic (n : Nat) (hn : 0 < n) : (modulus R n).Monic := by
  unfold modulus
  apply monic_X_pow_add
  exact lt_of_le_of_lt degree_one_le (by exact_mod_cast hn)

theorem modulus_degree [Nontrivial R] (n : Nat) (hn : 0 < n) : (modulus R n).degree = n := by
  unfold modulus
  have := degree_X_pow_add_C (R := R) hn 1
  rwa [C_1] at this

/-- a polynomial of degree `< n` whose class is zero is zero -/
theorem eq_zero_of_mk_eq_zero (n : Nat) (hn : 0 < n) (q : R[X]) (hq : q.degree < n)
    (h : mk n q = 0) : q = 0 := by
  rcases subsingleton_or_nontrivial R with hs | hnt
  · exact Subsingleton.elim _ _
  · by_contra hne
    have hd : q.degree < (modulus R n).degree := by rw [modulus_degree n hn]; exact hq
    exact AdjoinRoot.mk_ne_zero_of_degree_lt (modulus_monic n hn) hne hd h

/-- (5) uniqueness of the representation: equality in `R[X]/(X^n+1)` is equality of coefficient vectors -/
theorem toPoly_injective' (n : Nat) (a b : Nat → R)
    (h : mk n (toPoly n a) = mk n (toPoly n b)) : ∀ i, i < n → a i = b i := by
  intro i hi
  have hn : 0 < n := by omega
  have h0 : mk n (toPoly n (fun i => a i - b i)) = 0 := by
    rw [toPoly_sub, map_sub, h, sub_self]
  have hz := eq_zero_of_mk_eq_zero n hn _ (toPoly_degree_lt n _) h0
  have hc := congrArg (fun q => q.coeff i) hz
  simp only [toPoly_coeff, if_pos hi, coeff_zero] at hc
  exact sub_eq_zero.1 hc

end Spq.Bridge
