/-
  Layout lemmas for the module-level NTT120 model (`Spq/ModuleNtt.lean`): lanes of a limb, limbs of a vector,
  cell-by-cell description of `vecDft`, `vecIdft`, `vecIdftTmpA`.  Purely structural (no arithmetic).
-/
import SpqProofs.Lemmas.Q120ConvGen
import SpqProofs.Lemmas.NttSched
import Spq.ModuleNtt

namespace Spq.ModuleNtt
open Spq Spq.Q120 Spq.Q120Ntt

theorem two_pow_pos' (k : Nat) : 0 < 2 ^ k := Nat.pos_of_ne_zero (by exact Nat.ne_of_gt (Nat.two_pow_pos k))

/-- two arrays with the same size and the same `getD` below the size are equal -/
theorem ext_getD {α : Type} (d : α) (a b : Array α) (hs : a.size = b.size)
    (h : ∀ i, i < a.size → a.getD i d = b.getD i d) : a = b := by
  apply Array.ext hs
  intro i h1 h2
  have := h i h1
  simp only [Array.getD, h1, h2, dif_pos] at this
  simpa using this

theorem getD_of_size_le {α : Type} (d : α) (a : Array α) (i : Nat) (h : a.size ≤ i) : a.getD i d = d := by
  simp [Array.getD, Nat.not_lt.2 h]

/-! ### lanes -/

@[simp] theorem size_lane (v : Array Nat) (j : Nat) : (lane v j).size = v.size / 4 := by simp [lane]

theorem rd_lane (v : Array Nat) (j t : Nat) (ht : t < v.size / 4) : rd (lane v j) t = v.getD (4 * t + j) 0 := by
  unfold rd lane; rw [getD_ofFn' _ _ t ht]

@[simp] theorem size_interleave4 (n : Nat) (l0 l1 l2 l3 : Array Nat) : (interleave4 n l0 l1 l2 l3).size = 4 * n := by
  simp [interleave4]

theorem getD_interleave4 (n : Nat) (l0 l1 l2 l3 : Array Nat) (t j : Nat) (ht : t < n) (hj : j < 4) :
    (interleave4 n l0 l1 l2 l3).getD (4 * t + j) 0 = (pick4 l0 l1 l2 l3 j).getD t 0 := by
  unfold interleave4
  rw [getD_ofFn' _ _ (4 * t + j) (by omega)]
  have e1 : (4 * t + j) % 4 = j := by omega
  have e2 : (4 * t + j) / 4 = t := by omega
  simp only [e1, e2]

theorem pick4_fun (f : Nat → Array Nat) (j : Nat) (hj : j < 4) : pick4 (f 0) (f 1) (f 2) (f 3) j = f j := by
  have : j = 0 ∨ j = 1 ∨ j = 2 ∨ j = 3 := by omega
  rcases this with rfl | rfl | rfl | rfl <;> simp [pick4]

@[simp] theorem size_nttCells (M : ModPre) (x : Array Nat) : (nttCells M x).size = 4 * 2 ^ M.k := by
  simp [nttCells, ModPre.nn]
@[simp] theorem size_inttCells (M : ModPre) (x : Array Nat) : (inttCells M x).size = 4 * 2 ^ M.k := by
  simp [inttCells, ModPre.nn]

/-- cell `4t + j` of a transformed limb is cell `t` of the transform of lane `j` -/
theorem getD_nttCells (M : ModPre) (x : Array Nat) (t j : Nat) (ht : t < 2 ^ M.k) (hj : j < 4) :
    (nttCells M x).getD (4 * t + j) 0
      = rd (nttLane M.k (M.fwd j).levels (M.fwd j).R (M.fwd j).tbl (lane x j)) t := by
  unfold nttCells
  simp only []
  rw [getD_interleave4 M.nn _ _ _ _ t j ht hj,
    pick4_fun (fun j => nttLane M.k (M.fwd j).levels (M.fwd j).R (M.fwd j).tbl (lane x j)) j hj]
  rfl

theorem getD_inttCells (M : ModPre) (x : Array Nat) (t j : Nat) (ht : t < 2 ^ M.k) (hj : j < 4) :
    (inttCells M x).getD (4 * t + j) 0
      = rd (inttLane M.k (M.inv j).levels (M.inv j).R (M.inv j).tbl (lane x j)) t := by
  unfold inttCells
  simp only []
  rw [getD_interleave4 M.nn _ _ _ _ t j ht hj,
    pick4_fun (fun j => inttLane M.k (M.inv j).levels (M.inv j).R (M.inv j).tbl (lane x j)) j hj]
  rfl

/-! ### sizes of the lane transforms (any metadata) -/

theorem size_nttLane (k : Nat) (levels : Array Level) (R : Reduc) (tbl x : Array Nat) (hx : x.size = 2 ^ k) :
    (nttLane k levels R tbl x).size = 2 ^ k := by
  have hplain : nttLane k levels R tbl x = nttPlain k levels R tbl x :=
    nttLaneS_eq_plain _ k (Nat.min_le_left _ _) levels R _ x hx
  rw [hplain]
  unfold nttPlain
  split
  · exact hx
  · rw [size_foldl_pass (fun s y => fwdPass R _ s y) (by simp [fwdPass]), size_pass, hx]

theorem size_inttLane (k : Nat) (levels : Array Level) (R : Reduc) (tbl x : Array Nat) (hx : x.size = 2 ^ k) :
    (inttLane k levels R tbl x).size = 2 ^ k := by
  have hplain : inttLane k levels R tbl x = inttPlain k levels R tbl x :=
    inttLaneS_eq_plain _ k (Nat.min_le_left _ _) levels R _ x hx
  rw [hplain]
  unfold inttPlain
  split
  · exact hx
  · rw [size_pass, size_foldl_pass (fun s y => invPass R _ s y) (by simp [invPass]), hx]

/-- lane `j` of the transformed limb IS the transform of lane `j` -/
theorem lane_nttCells (M : ModPre) (x : Array Nat) (hx : x.size = 4 * 2 ^ M.k) (j : Nat) (hj : j < 4) :
    lane (nttCells M x) j = nttLane M.k (M.fwd j).levels (M.fwd j).R (M.fwd j).tbl (lane x j) := by
  have hl : (lane x j).size = 2 ^ M.k := by rw [size_lane, hx]; omega
  apply ext_getD 0
  · rw [size_lane, size_nttCells, size_nttLane _ _ _ _ _ hl]; omega
  · intro t ht
    rw [size_lane, size_nttCells] at ht
    have ht' : t < 2 ^ M.k := by omega
    have := rd_lane (nttCells M x) j t (by rw [size_nttCells]; omega)
    unfold rd at this
    rw [this, getD_nttCells M x t j ht' hj]; rfl

/-! ### operands -/

@[simp] theorem size_cellsAt (buf : Array Nat) (off len : Nat) : (cellsAt buf off len).size = len := by simp [cellsAt]
theorem getD_cellsAt (buf : Array Nat) (off len t : Nat) (ht : t < len) :
    (cellsAt buf off len).getD t 0 = buf.getD (off + t) 0 := by
  unfold cellsAt; rw [getD_ofFn' _ _ t ht]

theorem cellsAt_congr (b b' : Array Nat) (off len : Nat) (h : ∀ t < len, b.getD (off + t) 0 = b'.getD (off + t) 0) :
    cellsAt b off len = cellsAt b' off len := by
  apply ext_getD 0
  · simp
  · intro t ht
    rw [size_cellsAt] at ht
    rw [getD_cellsAt _ _ _ _ ht, getD_cellsAt _ _ _ _ ht, h t ht]

@[simp] theorem size_limbI64 (a : Array Int) (off len : Nat) : (limbI64 a off len).size = len := by simp [limbI64]
theorem getD_limbI64 (a : Array Int) (off len t : Nat) (ht : t < len) :
    (limbI64 a off len).getD t 0 = a.getD (off + t) 0 := by
  unfold limbI64; rw [getD_ofFn' _ _ t ht]

@[simp] theorem size_dftLimb (M : ModPre) (x : Array Int) : (dftLimb M x).size = 4 * 2 ^ M.k := by simp [dftLimb]
@[simp] theorem size_idftLimb (M : ModPre) (c : Array Nat) : (idftLimb M c).size = 2 ^ M.k := by
  simp [idftLimb, bToZnx128Vec, ModPre.nn]

/-! ### vectors, cell by cell -/

theorem idx_lt {N i c r : Nat} (hi : i < r) (hc : c < N) : N * i + c < N * r :=
  Nat.lt_of_lt_of_le (Nat.add_lt_add_left hc _) (by rw [← Nat.mul_succ]; exact Nat.mul_le_mul_left _ hi)

theorem idx_div {N i c : Nat} (hc : c < N) : (N * i + c) / N = i := by
  rw [Nat.mul_add_div (by omega), Nat.div_eq_of_lt hc, Nat.add_zero]

theorem idx_mod {N i c : Nat} (hc : c < N) : (N * i + c) % N = c := by
  rw [Nat.mul_add_mod, Nat.mod_eq_of_lt hc]

@[simp] theorem size_vecDft (M : ModPre) (r : Nat) (a : Array Int) (s sl : Nat) :
    (vecDft M r a s sl).size = 4 * 2 ^ M.k * r := by simp [vecDft, ModPre.nn]

/-- cell `c` of limb `i` of the DFT vector -/
theorem getD_vecDft (M : ModPre) (r : Nat) (a : Array Int) (s sl : Nat) (i c : Nat) (hi : i < r) (hc : c < 4 * 2 ^ M.k) :
    (vecDft M r a s sl).getD (4 * 2 ^ M.k * i + c) 0
      = if i < min r s then (dftLimb M (limbI64 a (i * sl) (2 ^ M.k))).getD c 0 else 0 := by
  unfold vecDft
  simp only [ModPre.nn]
  rw [getD_ofFn' _ _ _ (idx_lt hi hc)]
  simp only [idx_div hc, idx_mod hc]
  split
  · rename_i h; rw [getD_ofFn' _ _ i h]
  · rfl

@[simp] theorem size_vecIdft (M : ModPre) (r : Nat) (dft : Array Nat) (s : Nat) :
    (vecIdft M r dft s).size = 2 ^ M.k * r := by simp [vecIdft, ModPre.nn]

/-- coefficient `t` of limb `i` of the big vector -/
theorem getD_vecIdft (M : ModPre) (r : Nat) (dft : Array Nat) (s : Nat) (i t : Nat) (hi : i < r) (ht : t < 2 ^ M.k) :
    (vecIdft M r dft s).getD (2 ^ M.k * i + t) 0
      = if i < min r s then (idftLimb M (cellsAt dft (4 * 2 ^ M.k * i) (4 * 2 ^ M.k))).getD t 0 else 0 := by
  unfold vecIdft
  simp only [ModPre.nn]
  rw [getD_ofFn' _ _ _ (idx_lt hi ht)]
  simp only [idx_div ht, idx_mod ht]
  split
  · rename_i h; rw [getD_ofFn' _ _ i h]
  · rfl

/-- `_tmp_a` returns the same big vector as the disjoint call -/
theorem vecIdftTmpA_fst (M : ModPre) (r : Nat) (dft : Array Nat) (s : Nat) :
    (vecIdftTmpA M r dft s).1 = vecIdft M r dft s := by
  have hbl : (Array.ofFn (n := min r s) fun i => bToZnx128Vec M.P M.nn
        ((Array.ofFn (n := min r s) fun i => inttCells M (cellsAt dft (4 * M.nn * i.val) (4 * M.nn))).getD i.val #[]))
      = Array.ofFn (n := min r s) fun i => idftLimb M (cellsAt dft (4 * M.nn * i.val) (4 * M.nn)) := by
    refine congrArg (fun f => Array.ofFn (n := min r s) f) (funext fun i => ?_)
    rw [getD_ofFn' _ _ i.val i.isLt]
    rfl
  unfold vecIdftTmpA vecIdft
  simp only []
  rw [hbl]

theorem size_vecIdftTmpA_snd (M : ModPre) (r : Nat) (dft : Array Nat) (s : Nat) :
    (vecIdftTmpA M r dft s).2.size = dft.size := by simp [vecIdftTmpA]

/-- `_tmp_a` leaves in limb `i < smin` of its source the raw lanes of the inverse transform, and does not touch
    the other limbs -/
theorem getD_vecIdftTmpA_snd (M : ModPre) (r : Nat) (dft : Array Nat) (s : Nat) (i c : Nat) (hc : c < 4 * 2 ^ M.k)
    (hsz : 4 * 2 ^ M.k * i + c < dft.size) :
    (vecIdftTmpA M r dft s).2.getD (4 * 2 ^ M.k * i + c) 0
      = if i < min r s then (inttCells M (cellsAt dft (4 * 2 ^ M.k * i) (4 * 2 ^ M.k))).getD c 0
        else dft.getD (4 * 2 ^ M.k * i + c) 0 := by
  unfold vecIdftTmpA
  simp only [ModPre.nn]
  rw [getD_ofFn' _ _ _ hsz]
  simp only [idx_div hc, idx_mod hc]
  split
  · rename_i h; rw [getD_ofFn' _ _ i h]
  · rfl

end Spq.ModuleNtt
