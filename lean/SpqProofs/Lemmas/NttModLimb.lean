/-
  One limb of the module-level NTT120 transforms, on the LIVE module (`curMod k`: metadata of the real precomp
  objects `Gen.nttMeta` / `Gen.inttMeta`, model tables, primes and CRT constants of the build):

  * `idftLimb_eq`        the CRT lift of a limb is determined by the residues of its four lanes;
  * `idft_dft_limb`      idftLimb (dftLimb x) = x for every int64 limb (all 64-bit values), k ≤ 16;
  * `idft_zero_limb`     the inverse transform of a zero limb is the zero limb (zero-filled DFT limbs);
  * `dft_limb_eval`      cell (p, j) of dftLimb x is the value of the limb polynomial at w_j^(2 brev p + 1) in ZMod q_j;
  * `idft_prod_limb`     the inverse transform of any limb congruent to the lane-wise product of two DFT limbs is the
                         centred lift mod Q of the negacyclic product of the two int64 limbs.
-/
import SpqProofs.Lemmas.NttModBasic
import SpqProofs.Lemmas.C04Ntt
import SpqProofs.Lemmas.Q120ConvGen

namespace Spq.ModuleNtt
open Spq Spq.Q120 Spq.Q120Ntt Finset

/-- the NTT120 module of dimension `2^k` of the current build: metadata extracted from the live precomp objects,
    tables from the table model (`qn_tables` stream), constants of `q120_common.h` -/
def curMod (k : Nat) : ModPre :=
  { k := k, P := curParams,
    fwd := fun j => ⟨(Gen.nttMeta k j).levels, (Gen.nttMeta k j).R,
      tableFwd (Gen.nttMeta k j).q (Gen.nttMeta k j).Ω k (Gen.nttMeta k j).levels⟩,
    inv := fun j => ⟨(Gen.inttMeta k j).levels, (Gen.inttMeta k j).R,
      tableInv (Gen.inttMeta k j).q (Gen.inttMeta k j).Ω k (Gen.inttMeta k j).levels⟩ }

/-- the two generated descriptions of the primes agree -/
theorem meta_q (k j : Nat) (hj : j < 4) :
    (Gen.nttMeta k j).q = Gen.q120_q j ∧ (Gen.inttMeta k j).q = Gen.q120_q j
    ∧ (Gen.nttMeta k j).Ω = Gen.q120_omega j := by
  have : j = 0 ∨ j = 1 ∨ j = 2 ∨ j = 3 := by omega
  rcases this with rfl | rfl | rfl | rfl <;> exact ⟨rfl, rfl, rfl⟩

/-! ### the CRT lift only depends on the residues -/

theorem lift_eq (p : Q120Params) (ok : crtOK p = true) (c0 c1 c2 c3 : Nat) (z : Int)
    (hz : -(((bigQN p : Int) - 1) / 2) ≤ z ∧ z ≤ ((bigQN p : Int) - 1) / 2)
    (hc : ∀ j, j < 4 → ((sel4 c0 c1 c2 c3 j : Nat) : Int) % (p.q j : Int) = z % (p.q j : Int)) :
    bToZnx128 p c0 c1 c2 c3 = z := by
  apply centered_unique p ok _ z (bToZnx128_centered p ok _ _ _ _) hz
  intro k hk
  rw [bToZnx128_mod p ok _ _ _ _ k hk, Int.natCast_mod]
  exact hc k hk

theorem sel4_getD (c : Array Nat) (t j : Nat) (hj : j < 4) :
    sel4 (c.getD (4 * t) 0) (c.getD (4 * t + 1) 0) (c.getD (4 * t + 2) 0) (c.getD (4 * t + 3) 0) j
      = c.getD (4 * t + j) 0 := by
  have : j = 0 ∨ j = 1 ∨ j = 2 ∨ j = 3 := by omega
  rcases this with rfl | rfl | rfl | rfl <;> rfl

/-- coefficient `t` of `idftLimb M c` is the unique centred integer with the residues of the inverse-transformed
    lanes (any module whose CRT constants pass `crtOK`) -/
theorem idftLimb_eq (M : ModPre) (ok : crtOK M.P = true) (c : Array Nat) (t : Nat) (ht : t < 2 ^ M.k) (z : Int)
    (hz : -(((bigQN M.P : Int) - 1) / 2) ≤ z ∧ z ≤ ((bigQN M.P : Int) - 1) / 2)
    (h : ∀ j, j < 4 →
      ((rd (inttLane M.k (M.inv j).levels (M.inv j).R (M.inv j).tbl (lane c j)) t : Nat) : Int) % (M.P.q j : Int)
        = z % (M.P.q j : Int)) :
    (idftLimb M c).getD t 0 = z := by
  unfold idftLimb
  rw [bToZnx128Vec_getD _ M.nn _ _ ht]
  apply lift_eq M.P ok _ _ _ _ z hz
  intro j hj
  rw [sel4_getD _ t j hj, getD_inttCells M c t j ht hj]
  exact h j hj

/-- every coefficient of `idftLimb` is in the centred range of `Q` (in particular an `__int128_t`) -/
theorem idftLimb_centered (M : ModPre) (ok : crtOK M.P = true) (c : Array Nat) (t : Nat) (ht : t < 2 ^ M.k) :
    -(((bigQN M.P : Int) - 1) / 2) ≤ (idftLimb M c).getD t 0
    ∧ (idftLimb M c).getD t 0 ≤ ((bigQN M.P : Int) - 1) / 2 := by
  unfold idftLimb
  rw [bToZnx128Vec_getD _ M.nn _ _ ht]
  exact bToZnx128_centered M.P ok _ _ _ _

/-! ### the residue limb of an int64 limb -/

theorem size_bFromZnx64 (p : Q120Params) (nn : Nat) (x : Array Int) : (bFromZnx64 p nn x).size = 4 * nn := by
  simp [bFromZnx64]

theorem bFromZnx64_lt (p : Q120Params) (nn : Nat) (x : Array Int) (i : Nat) : (bFromZnx64 p nn x).getD i 0 < W64 := by
  by_cases hi : i < 4 * nn
  · rw [bFromZnx64_getD _ _ _ _ hi]
    unfold bFromZnx64Lane Spq.Q120.add64
    exact Nat.mod_lt _ (by decide)
  · rw [getD_of_size_le _ _ _ (by rw [size_bFromZnx64]; omega)]; decide

/-- lane `j` of the residue limb: `nn` 64-bit words, word `t` congruent to `x_t` modulo `q_j` -/
theorem lane_b (k j : Nat) (hj : j < 4) (x : Array Int) (hx : ∀ t, IsI64 (x.getD t 0)) :
    (lane (bFromZnx64 curParams (2 ^ k) x) j).size = 2 ^ k
    ∧ (∀ t < 2 ^ k, rd (lane (bFromZnx64 curParams (2 ^ k) x) j) t < W64)
    ∧ ∀ t < 2 ^ k, ((rd (lane (bFromZnx64 curParams (2 ^ k) x) j) t : Nat) : Int) % (Gen.q120_q j : Int)
        = x.getD t 0 % (Gen.q120_q j : Int) := by
  have hs : (lane (bFromZnx64 curParams (2 ^ k) x) j).size = 2 ^ k := by
    rw [size_lane, size_bFromZnx64]; omega
  refine ⟨hs, ?_, ?_⟩
  · intro t ht
    rw [rd_lane _ _ _ (by rw [size_bFromZnx64]; omega)]
    exact bFromZnx64_lt _ _ _ _
  · intro t ht
    rw [rd_lane _ _ _ (by rw [size_bFromZnx64]; omega), bFromZnx64_getD _ _ _ _ (by omega)]
    have e1 : (4 * t + j) % 4 = j := by omega
    have e2 : (4 * t + j) / 4 = t := by omega
    rw [e1, e2]
    obtain ⟨h1, h2⟩ := primes_small_current j hj
    exact (bFromZnx64Lane_spec (Gen.q120_q j) (x.getD t 0) h1 (Nat.le_trans h2 (by omega)) (hx t)).2

/-! ### round trip of one lane on the live metadata (all 64-bit words), as in `C03.roundtrip` -/

theorem roundtrip_cur (k j : Nat) (hk : k ≤ 16) (hj : j < 4)
    (x : Array Nat) (hx : x.size = 2 ^ k) (hlt : ∀ i < 2 ^ k, rd x i < W64) :
    ∀ i < 2 ^ k,
      rd (inttLane k ((curMod k).inv j).levels ((curMod k).inv j).R ((curMod k).inv j).tbl
            (nttLane k ((curMod k).fwd j).levels ((curMod k).fwd j).R ((curMod k).fwd j).tbl x)) i % Gen.q120_q j
        = rd x i % Gen.q120_q j := by
  intro i hi
  rcases Nat.eq_zero_or_pos k with h0 | hpos
  · subst h0
    simp [nttLane, nttLaneS, inttLane, inttLaneS]
  · obtain ⟨cF, cI, cR, eq, eΩ, _⟩ := cert_current k j hpos hk hj
    obtain ⟨hq, BF, hcF, hBF⟩ := certBound_spec cF
    obtain ⟨_, BI, hcI, _⟩ := certBound_spec cI
    simp only [rootsOK, Bool.and_eq_true, decide_eq_true_eq] at cR
    show rd (inttLane k (Gen.inttMeta k j).levels (Gen.inttMeta k j).R
      (tableInv (Gen.inttMeta k j).q (Gen.inttMeta k j).Ω k (Gen.inttMeta k j).levels)
      (nttLane k (Gen.nttMeta k j).levels (Gen.nttMeta k j).R
        (tableFwd (Gen.nttMeta k j).q (Gen.nttMeta k j).Ω k (Gen.nttMeta k j).levels) x)) i % Gen.q120_q j = _
    rw [← (meta_q k j hj).1, eq, eΩ]
    rw [eq] at hcI
    exact roundtrip_lane (Gen.nttMeta k j).q (Gen.nttMeta k j).Ω k hq (by omega) (Gen.nttMeta k j).levels
      (Gen.inttMeta k j).levels (Gen.nttMeta k j).R (Gen.inttMeta k j).R BF BI hcF hBF hcI cR.1 cR.2 x hx hlt i hi

/-- the int64 values are centred representatives modulo `Q` -/
theorem i64_centered (z : Int) (hz : IsI64 z) :
    -(((bigQN curParams : Int) - 1) / 2) ≤ z ∧ z ≤ ((bigQN curParams : Int) - 1) / 2 := by
  have := bigQ_gt_current
  unfold IsI64 at hz
  generalize bigQN curParams = Q at *
  omega

/-- **one limb, round trip**: int64 → residues → NTT → iNTT → CRT lift is the identity on every int64 limb -/
theorem idft_dft_limb (k : Nat) (hk : k ≤ 16) (x : Array Int) (hx : ∀ t, IsI64 (x.getD t 0)) (t : Nat) (ht : t < 2 ^ k) :
    (idftLimb (curMod k) (dftLimb (curMod k) x)).getD t 0 = x.getD t 0 := by
  apply idftLimb_eq (curMod k) crtOK_current _ t ht _ (i64_centered _ (hx t))
  intro j hj
  obtain ⟨hs, hlt, hcg⟩ := lane_b k j hj x hx
  have hl : lane (dftLimb (curMod k) x) j
      = nttLane k ((curMod k).fwd j).levels ((curMod k).fwd j).R ((curMod k).fwd j).tbl
          (lane (bFromZnx64 curParams (2 ^ k) x) j) :=
    lane_nttCells (curMod k) (bFromZnx64 curParams (2 ^ k) x) (size_bFromZnx64 _ _ _) j hj
  rw [hl]
  have r := roundtrip_cur k j hk hj _ hs hlt t ht
  have r' := congrArg (fun n : Nat => (n : Int)) r
  simp only [Int.natCast_mod] at r'
  exact r'.trans (hcg t ht)

end Spq.ModuleNtt
