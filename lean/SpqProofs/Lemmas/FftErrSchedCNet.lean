/-
  C06.4: the structural cplx network `VN (gNetC F …)` over an ordered field against the exact network `V`.
-/
import SpqProofs.Lemmas.FftErrSchedCRel
import SpqProofs.Lemmas.FftErrSchedINetN
set_option linter.unusedSectionVars false
namespace Spq.FftErr
open Finset Spq.Fft Spq.Fft.Alg Spq.Fft.SimP Spq.Fft.LevelN Spq.Fft.SchedN Spq.Fft.SchedC
variable {K : Type} [Field K] [LinearOrder K] [IsStrictOrderedRing K]

/-- a family of pair butterflies as butterflies on complex numbers -/
def gCof (g : ℕ → ℕ → ℕ → K × K → K × K → (K × K) × (K × K)) (ℓ d b : ℕ) (x y : Cplx K) : Cplx K × Cplx K :=
  (toC (g ℓ d b (x.re, x.im) (y.re, y.im)).1, toC (g ℓ d b (x.re, x.im) (y.re, y.im)).2)

theorem VH_eq_VN' (g : ℕ → ℕ → ℕ → K × K → K × K → (K × K) × (K × K)) (a : ℕ → K × K) :
    ∀ ℓ d p, VH (gCof g) (fun p => toC (a p)) ℓ d p = toC (VN g a ℓ d p) := by
  intro ℓ
  induction ℓ with
  | zero => intro d p; rfl
  | succ ℓ ih =>
    intro d p
    rw [VH, VN, LvlH]
    split
    · rw [ih, ih]; rfl
    · rw [ih, ih]; rfl

theorem WH_eq_VNI' (g : ℕ → ℕ → ℕ → K × K → K × K → (K × K) × (K × K)) (k : ℕ) (y : ℕ → K × K) :
    ∀ n p, WH (fun n b => gCof g (k - 1 - n) n b) (fun p => toC (y p)) n p = toC (VNI k g y n p) := by
  intro n
  induction n with
  | zero => intro p; rfl
  | succ n ih =>
    intro p
    rw [WH, VNI, LvlH]
    split
    · rw [ih, ih]; rfl
    · rw [ih, ih]; rfl

/-- every butterfly of a forward cplx implementation has 2-norm relative error `η` -/
structure CFwdErrOK (F : CFlav K) (τ η : K) : Prop where
  ctTop : ∀ wh w : Cplx K, nsq w = 1 → nsq (wh - w) ≤ τ ^ 2 → BfErrAt (fun a b => bfC F.ctTop a b wh) w η
  ctOdd : ∀ wh w : Cplx K, nsq w = 1 → nsq (wh - w) ≤ τ ^ 2 → BfErrAt (fun a b => bfC F.ctOdd a b wh) w η
  last : ∀ wh nwh w : Cplx K, nsq w = 1 → nsq (wh - w) ≤ τ ^ 2 → nsq (nwh - -w) ≤ τ ^ 2 →
    BfErrAt (fun a b => lastC F.last a b wh nwh) w η
  big : FwdErrOK F.big τ η

theorem cfwdRef_errOK (A : Arith K) (u τ : K) (sm : FStd A u) (hτ : 0 ≤ τ) : CFwdErrOK (cfwdRef A) τ (eta u τ) :=
  ⟨fun wh w => butterfly_err_ref A u τ sm hτ wh w, fun wh w => butterfly_err_ref A u τ sm hτ wh w,
   fun wh nwh w h1 h2 _ => butterfly_err_last_ref A u τ sm hτ wh nwh w h1 h2, fwdRef_errOK A u τ sm hτ⟩

theorem cfwdFmaZ_errOK (A : Arith K) (u τ : K) (sm : FStd A u) (hτ : 0 ≤ τ) :
    CFwdErrOK (Spq.Fft.RelN.cfwdFmaZ A) τ (eta u τ) :=
  ⟨fun wh w => butterfly_err_fmaZ A u τ sm hτ wh w, fun wh w => butterfly_err_fma A u τ sm hτ wh w,
   fun wh nwh w h1 h2 h3 => butterfly_err_last_fma A u τ sm hτ wh nwh w h1 h2 h3, fwdFma_errOK A u τ sm hτ⟩

variable (F : CFlav K) (c s ns nc : ℕ → K) (k : ℕ) (ζ : Cplx K) (τ η : K)

/-- (the `gNetC` lemmas were stated under `[Inhabited R]`) -/
local instance instInhabitedField : Inhabited K := ⟨0⟩

theorem gCC_err (hF : CFwdErrOK F τ η) (hζ : nsq ζ = 1) (hI : ζ ^ 2 ^ k = Ic)
    (hcs : ∀ ℓ d b, ℓ + d + 1 = k → b < 2 ^ ℓ →
      nsq ((⟨c (twE ℓ d b), s (twE ℓ d b)⟩ : Cplx K) - ζ ^ twE ℓ d b) ≤ τ ^ 2)
    (hncs : ∀ ℓ b, ℓ + 1 = k → b < 2 ^ ℓ →
      nsq ((⟨nc (twE ℓ 0 b), ns (twE ℓ 0 b)⟩ : Cplx K) - -ζ ^ twE ℓ 0 b) ≤ τ ^ 2)
    (ℓ d b : ℕ) (hk : ℓ + d + 1 = k) (hb : b < 2 ^ ℓ) :
    BfErrAt (gCof (gNetC F c s ns nc k) ℓ d b) (ζ ^ twE ℓ d b) η := by
  have hw : ∀ e, nsq (ζ ^ e) = 1 := fun e => by rw [nsq_pow, hζ, one_pow]
  by_cases hk3 : k ≤ 3
  · by_cases hd : d = 0
    · subst hd
      have e : gCof (gNetC F c s ns nc k) ℓ 0 b = fun x y => lastC F.last x y ⟨c (twE ℓ 0 b), s (twE ℓ 0 b)⟩
          ⟨nc (twE ℓ 0 b), ns (twE ℓ 0 b)⟩ := by
        funext x y
        unfold gCof
        rw [gNetC_last F c s ns nc k ℓ b hk3]
        rfl
      rw [e]
      exact hF.last _ _ _ (hw _) (hcs ℓ 0 b hk hb) (hncs ℓ b (by omega) hb)
    · have e : gCof (gNetC F c s ns nc k) ℓ d b = fun x y => bfC F.ctTop x y ⟨c (twE ℓ d b), s (twE ℓ d b)⟩ := by
        funext x y
        unfold gCof
        rw [gNetC_small F c s ns nc k ℓ d b hk3 hd]
        rfl
      rw [e]
      exact hF.ctTop _ _ (hw _) (hcs ℓ d b hk hb)
  · by_cases h12 : 12 ≤ k - ℓ
    · have e : gCof (gNetC F c s ns nc k) ℓ d b = fun x y => bfC F.ctTop x y ⟨c (twE ℓ d b), s (twE ℓ d b)⟩ := by
        funext x y
        unfold gCof
        rw [gNetC_top F c s ns nc k ℓ d b (by omega) h12]
        rfl
      rw [e]
      exact hF.ctTop _ _ (hw _) (hcs ℓ d b hk hb)
    · by_cases ho : (k - ℓ) % 2 = 1 ∧ (k - ℓ = 11 ∨ ℓ = 0)
      · have e : gCof (gNetC F c s ns nc k) ℓ d b = fun x y => bfC F.ctOdd x y ⟨c (twE ℓ d b), s (twE ℓ d b)⟩ := by
          funext x y
          unfold gCof
          rw [gNetC_odd F c s ns nc k ℓ d b (by omega) (by omega) ho.1 ho.2]
          rfl
        rw [e]
        exact hF.ctOdd _ _ (hw _) (hcs ℓ d b hk hb)
      · have e : gCof (gNetC F c s ns nc k) ℓ d b = gC F.big c s k ℓ d b := by
          funext x y
          unfold gCof gNetC
          rw [if_neg hk3, if_neg h12, if_neg ho]
          rfl
        rw [e]
        exact gC_err F.big c s k ζ τ η hF.big hζ hI hcs ℓ d b hk hb

/-- **network error**, forward cplx -/
theorem cnetN_err (hF : CFwdErrOK F τ η) (hη : 0 ≤ η) (hζ : nsq ζ = 1) (hI : ζ ^ 2 ^ k = Ic)
    (hcs : ∀ ℓ d b, ℓ + d + 1 = k → b < 2 ^ ℓ →
      nsq ((⟨c (twE ℓ d b), s (twE ℓ d b)⟩ : Cplx K) - ζ ^ twE ℓ d b) ≤ τ ^ 2)
    (hncs : ∀ ℓ b, ℓ + 1 = k → b < 2 ^ ℓ →
      nsq ((⟨nc (twE ℓ 0 b), ns (twE ℓ 0 b)⟩ : Cplx K) - -ζ ^ twE ℓ 0 b) ≤ τ ^ 2) (a : ℕ → K × K) :
    ∑ p ∈ range (2 ^ k), nsq (toC (VN (gNetC F c s ns nc k) a k 0 p) - V ζ (fun p => toC (a p)) k 0 p) ≤
      ((1 + η) ^ k - 1) ^ 2 * ∑ p ∈ range (2 ^ k), nsq (V ζ (fun p => toC (a p)) k 0 p) := by
  have := net_err ζ hζ (fun p => toC (a p)) η hη k (gCof (gNetC F c s ns nc k))
    (fun ℓ d b h1 h2 => gCC_err F c s ns nc k ζ τ η hF hζ hI hcs hncs ℓ d b h1 h2) k 0 (by omega)
  simp only [VH_eq_VN'] at this
  exact this

end Spq.FftErr
