/-
  C06.4: relational transfer for the inverse butterflies and the structural inverse network `VNI`.
-/
import SpqProofs.Lemmas.FftErrSchedRel
import SpqProofs.Lemmas.FftErrSchedILevel
set_option linter.unusedSectionVars false
namespace Spq.Fft.RelN
open Spq.Fft Spq.Fft.Alg Spq.Fft.SimP Spq.Fft.LevelN Spq.Fft.SchedN

variable {α β : Type} {Rl : α → β → Prop} {A : Arith α} {B : Arith β}

theorem ictRef_sim (h : ASim Rl A B) : BfSim Rl (ictRef A) (ictRef B) := by
  intro ra ra' ia ia' rb rb' ib ib' wr wr' wi wi' h1 h2 h3 h4 h5 h6
  have rd := h.sub h1 h3
  have id := h.sub h2 h4
  exact ⟨h.add h1 h3, h.add h2 h4, h.sub (h.mul rd h5) (h.mul id h6), h.add (h.mul rd h6) (h.mul id h5)⟩

theorem icitRef_sim (h : ASim Rl A B) : BfSim Rl (icitRef A) (icitRef B) := by
  intro ra ra' ia ia' rb rb' ib ib' wr wr' wi wi' h1 h2 h3 h4 h5 h6
  have rd := h.sub h1 h3
  have id := h.sub h2 h4
  exact ⟨h.add h1 h3, h.add h2 h4, h.add (h.mul rd h6) (h.mul id h5), h.add (h.mul (h.neg rd) h5) (h.mul id h6)⟩

theorem ictFma_sim (h : ASim Rl A B) : BfSim Rl (ictFma A) (ictFma B) := by
  intro ra ra' ia ia' rb rb' ib ib' wr wr' wi wi' h1 h2 h3 h4 h5 h6
  have rd := h.sub h1 h3
  have id := h.sub h2 h4
  exact ⟨h.add h1 h3, h.add h2 h4, h.fms rd h5 (h.mul id h6), h.fma id h5 (h.mul rd h6)⟩

theorem icitFmaB_sim (h : ASim Rl A B) : BfSim Rl (icitFmaB A) (icitFmaB B) := by
  intro ra ra' ia ia' rb rb' ib ib' wr wr' wi wi' h1 h2 h3 h4 h5 h6
  have rd := h.sub h1 h3
  have id := h.sub h2 h4
  exact ⟨h.add h1 h3, h.add h2 h4, h.fma h6 rd (h.mul h5 id), h.fms h6 id (h.mul h5 rd)⟩

theorem icitFmaN_sim (h : ASim Rl A B) : BfSim Rl (icitFmaN A) (icitFmaN B) := by
  intro ra ra' ia ia' rb rb' ib ib' wr wr' wi wi' h1 h2 h3 h4 h5 h6
  exact ictFma_sim h h1 h2 h3 h4 h6 (h.neg h5)

theorem invRef_sim (h : ASim Rl A B) : FlavSim Rl (invRef A) (invRef B) :=
  ⟨ictRef_sim h, icitRef_sim h, ictRef_sim h, icitRef_sim h, ictRef_sim h⟩
theorem invFma_sim (h : ASim Rl A B) : FlavSim Rl (invFma A) (invFma B) :=
  ⟨ictFma_sim h, icitFmaB_sim h, ictFma_sim h, icitFmaN_sim h, ictRef_sim h⟩

/-- related butterflies and inputs give related inverse networks (cells of one transform) -/
theorem VNI_rel_on {γ δ : Type} (Q : γ → δ → Prop) (g : ℕ → ℕ → ℕ → γ → γ → γ × γ) (g' : ℕ → ℕ → ℕ → δ → δ → δ × δ)
    (hg : ∀ ℓ d b u u' v v', Q u u' → Q v v' → Q (g ℓ d b u v).1 (g' ℓ d b u' v').1 ∧ Q (g ℓ d b u v).2 (g' ℓ d b u' v').2)
    (k : ℕ) (y : ℕ → γ) (y' : ℕ → δ) (hy : ∀ p, p < 2 ^ k → Q (y p) (y' p)) :
    ∀ n p, n ≤ k → p < 2 ^ k → Q (VNI k g y n p) (VNI k g' y' n p) := by
  intro n
  induction n with
  | zero => intro p _ hp; exact hy p hp
  | succ n ih =>
    intro p hk hp
    have hk' : n ≤ k := by omega
    obtain ⟨h, hh⟩ : ∃ h, h = 2 ^ n := ⟨_, rfl⟩
    have hpos : 0 < h := by rw [hh]; exact Nat.two_pow_pos n
    have hk2 : 2 ^ k = 2 * h * 2 ^ (k - 1 - n) := by
      rw [hh, show 2 * 2 ^ n = 2 ^ (n + 1) by rw [pow_succ]; ring, ← pow_add]; congr 1; omega
    rw [VNI, VNI]
    simp only [← hh]
    split
    · rename_i hlt
      have hp2 : p + h < 2 ^ k := by
        have hb : p / (2 * h) < 2 ^ (k - 1 - n) := by
          apply Nat.div_lt_of_lt_mul; rw [← hk2]; exact hp
        have hblk : 2 * h * (p / (2 * h) + 1) ≤ 2 ^ k := by rw [hk2]; exact Nat.mul_le_mul_left _ hb
        have := Nat.div_add_mod p (2 * h)
        rw [Nat.mul_add] at hblk
        omega
      exact (hg _ _ _ _ _ _ _ (ih _ hk' hp) (ih _ hk' hp2)).1
    · exact (hg _ _ _ _ _ _ _ (ih _ hk' (by omega)) (ih _ hk' hp)).2

end Spq.Fft.RelN
