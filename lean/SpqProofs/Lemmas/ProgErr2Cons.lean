/-
  C16, binary64 side, products of products, step 9: the consumer `vec_znx_idft` at the level of a whole object
  (`idft_of_metric`, `idftM_read`), and a readable upper bound of the per-row budget `rowF` (`rowF_le`).
-/
import SpqProofs.Lemmas.ProgErr2Vmp
set_option linter.unusedSectionVars false
namespace Spq.ProgErr2
open Finset Spq Spq.Module Spq.Fft Spq.Fft.Alg Spq.FftErr Spq.F64 Spq.Reim4 Spq.ProdErr Spq.VmpErr Spq.ProgErr Spq.Closed
  Spq.Prog
variable {K : Type} [Field K] [LinearOrder K] [IsStrictOrderedRing K]

/-- budget of the inverse transform of ONE limb `dl` (concrete) representing `x` with incoming budget `δ`: flags of
    the inverse transform of `dl`, and for some `S2 ≥ ‖x‖₂`: the domain of the final conversion and
    `ε·(S2 + δ) + δ < 1/2` -/
def IdftLimbBudget (M : F64Mod K) (dl : Array ℕ) (x : Array Int) (δ : K) : Prop :=
  InvOk M.c M.k M.cNi M.sNi dl ∧ ∃ S2 : K, 0 ≤ S2 ∧ n2sq K x M.N ≤ S2 ^ 2 ∧
    (∀ t, t < M.N → |((x.getD t 0 : Int) : K)| + invBudget M S2 δ < ((Bv M.c.toVariant : ℚ) : K)) ∧
    invBudget M S2 δ < 1 / 2

/-- **`idft_of_metric`**: if `MetricRep d P δ`, limb `i` satisfies the consumer budget (inverse-transform flags of the
    concrete limb, `ε·(S2 + δ_i) + δ_i < 1/2`), then `toZnx (ifft (limb_i d)) = P_i` exactly -/
theorem idft_of_metric (M : F64Mod K) (P : Val) (sz : ℕ) (d : Array ℕ) (δ : ℕ → K) (hrep : MetricRep M P sz d δ)
    (i : ℕ) (hi : i < sz) (hb : IdftLimbBudget M (dlimb d i M.N) (polyArr M.N (P.coef i)) (δ i)) :
    M.parts.toZnx (M.parts.ifft (dlimb d i M.N)) = polyArr M.N (P.coef i) := by
  obtain ⟨hok, S2, hS0, hS, hdom, hE⟩ := hb
  have hsz : (dlimb d i M.N).size = M.N := dlimb_size d i M.N sz hrep.1 hi
  rw [idft_limb_of_metric M _ _ (δ i) hsz (hrep.2 i hi) hok S2 hS0 hS hdom hE, firstN_of_size _ _ (size_polyArr _ _)]

/-- `LimbExact` (agent X's observational invariant) follows from the metric invariant + the consumer budget of every
    limb -/
theorem limbExact_of_metric (M : F64Mod K) (P : Val) (sz : ℕ) (d : Array ℕ) (δ : ℕ → K) (hrep : MetricRep M P sz d δ)
    (hb : ∀ i, i < sz → IdftLimbBudget M (dlimb d i M.N) (polyArr M.N (P.coef i)) (δ i)) : LimbExact M P sz d :=
  fun i hi => idft_of_metric M P sz d δ hrep i hi (hb i hi)

/-- read-back of `vec_znx_idft` of an object inside the metric invariant: only the limbs `i < min rsz sz` that are
    actually inverse-transformed need the consumer budget -/
theorem idftM_read (M : F64Mod K) (P : Val) (sz rsz : ℕ) (d : Array ℕ) (δ : ℕ → K) (hrep : MetricRep M P sz d δ)
    (hb : ∀ i, i < sz → i < rsz → IdftLimbBudget M (dlimb d i M.N) (polyArr M.N (P.coef i)) (δ i)) (i t : ℕ)
    (hi : i < rsz) (ht : t < M.N) :
    (vecIdft M.parts rsz d sz).getD (i * M.N + t) 0 = zext sz (fun i t => P.coef i t) i t := by
  have e2 : (vecIdft M.parts rsz d sz).getD (i * M.N + t) 0 = (dlimb (vecIdft M.parts rsz d sz) i M.N).getD t 0 := by
    unfold dlimb
    rw [getD_extract, if_pos (by omega)]
  rw [e2, idft_row M rsz d sz i hi, zext]
  by_cases hs : i < sz
  · rw [if_pos hs, if_pos hs, idft_of_metric M P sz d δ hrep i hs (hb i hs hi), getD_polyArr _ _ _ ht]
  · rw [if_neg hs, if_neg hs]
    exact getD_replicate_z 0 _ t

/-- **the three terms of the per-row budget** (`nb ≤ lb`): incoming error times the sup-norm of the matrix entry,
    forward error of the matrix entry times the sup-norm of the operand, accumulation term:
      `rowF μ δ (ε·nb) na nb la lb t ≤ (1+μ)·(1+ε·t)·δ·lb + (1+μ)·ε·la·nb + μ·(la·nb + na·lb)/2` -/
theorem rowF_le (μ δ ε na nb la lb t : K) (hμ : 0 ≤ μ) (hδ : 0 ≤ δ) (hε : 0 ≤ ε) (ht : 0 ≤ t) (hnl : nb ≤ lb) :
    rowF μ δ (ε * nb) na nb la lb t ≤
      (1 + μ) * (1 + ε * t) * δ * lb + (1 + μ) * ε * la * nb + μ * ((la * nb + na * lb) / 2) := by
  unfold rowF rowD
  have h1 : δ * (lb + ε * nb * t) ≤ (1 + ε * t) * δ * lb := by
    have : δ * (ε * t) * nb ≤ δ * (ε * t) * lb := mul_le_mul_of_nonneg_left hnl (by positivity)
    nlinarith
  have h2 : 0 ≤ 1 + μ := by linarith
  have := mul_le_mul_of_nonneg_left h1 h2
  nlinarith

end Spq.ProgErr2
