/-
  C02 rounding budget, step 10: one output column of the binary64 vector-matrix product in DFT space.
  `col_dft_stage`: the computed column `Ĉ_j = dlimb (vmpRes …) j N` against the exact DFT of the exact column
  `spec_j = Σ_{i<n} a_i ⊛ M[i][j]`:
      ‖Ĉ_j − DFT(spec_j)‖₂² ≤ (f·ΣS_i)²·m,   ‖DFT(spec_j)‖₂² ≤ (ΣS_i/2)²·m,
  `f = fB ε μ_n (ε·m)`, `μ_n = 3/2·γ(n)`, `S_i = ‖a_i‖₁·nb_i + na_i·‖M_ij‖₁`.
-/
import SpqProofs.Lemmas.VmpErrCol
set_option linter.unusedSectionVars false
namespace Spq.VmpErr
open Finset Spq Spq.Module Spq.Fft Spq.Fft.Alg Spq.Fft.SimP Spq.Fft.LevelN Spq.Fft.SchedN Spq.Fft.RelN Spq.FftErr Spq.F64
  Spq.Reim4 Spq.ProdErr Spq.C06Err

/-- **flags of the pipeline for output column `j`**, stage by stage (as `ProdErr.PipeOk`): forward transforms of the
    `n = min nrows asz` vector limbs and of the `n` matrix entries of column `j`, the accumulation (flagged run of
    `vmp_apply_dft_to_dft`, the `N` cells of column `j`), the inverse transform of the computed column. -/
structure VmpOk (c : Cfg) (k : ℕ) (cN sN cNi sNi : ℕ → ℕ) (mat : Array Int) (nrows ncols : ℕ) (a : Array Int)
    (asz asl rsz j : ℕ) : Prop where
  okA : ∀ i, i < min nrows asz → FwdOk c k cN sN (limbOf a i asl (2 * 2 ^ k))
  okB : ∀ i, i < min nrows asz → FwdOk c k cN sN (matEntry mat ncols (2 * 2 ^ k) i j)
  okD : ∀ p, p < 2 * 2 ^ k → vmpFlag c mat nrows ncols a asz asl rsz (j * (2 * 2 ^ k) + p)
  okI : InvOk c k cNi sNi (dlimb (vmpRes c mat nrows ncols a asz asl rsz) j (2 * 2 ^ k))

/-- the exact column: `Σ_{i<n} a_i ⊛ M[i][j]` in `ℤ[X]/(X^N + 1)` -/
def colSpec (k : ℕ) (mat : Array Int) (nrows ncols : ℕ) (a : Array Int) (asz asl j : ℕ) : Array Int :=
  isum (2 * 2 ^ k) (min nrows asz)
    (fun i => nmul (2 * 2 ^ k) (limbOf a i asl (2 * 2 ^ k)) (matEntry mat ncols (2 * 2 ^ k) i j))

variable {K : Type} [Field K] [LinearOrder K] [IsStrictOrderedRing K]

/-- `S_i = ‖a_i‖₁·nb_i + na_i·‖M_ij‖₁` -/
def rowS (K : Type) [Field K] [LinearOrder K] (k : ℕ) (mat : Array Int) (ncols : ℕ) (a : Array Int) (asl j : ℕ)
    (na nb : ℕ → K) (i : ℕ) : K :=
  n1 K (limbOf a i asl (2 * 2 ^ k)) (2 * 2 ^ k) * nb i + na i * n1 K (matEntry mat ncols (2 * 2 ^ k) i j) (2 * 2 ^ k)

/-- `Σ_{i<n} S_i` -/
def sumS (K : Type) [Field K] [LinearOrder K] (k : ℕ) (mat : Array Int) (nrows ncols : ℕ) (a : Array Int)
    (asz asl j : ℕ) (na nb : ℕ → K) : K :=
  ∑ i ∈ range (min nrows asz), rowS K k mat ncols a asl j na nb i

/-- `μ_n = 3/2·γ(n)` -/
def muD (n : ℕ) : ℚ := 3 / 2 * gamD n

theorem muD_nonneg (n : ℕ) : 0 ≤ muD n := by unfold muD; have := gamD_nonneg n; positivity

theorem outC_getD (x : Array ℕ) (k t : ℕ) :
    (outC x k t : Cplx K) = ⟨((val (x.getD t 0) : ℚ) : K), ((val (x.getD (t + 2 ^ k) 0) : ℚ) : K)⟩ := by
  unfold outC toC
  rw [getElem!_nat, getElem!_nat, Nat.add_comm]

theorem rowS_nonneg (k : ℕ) (mat : Array Int) (ncols : ℕ) (a : Array Int) (asl j : ℕ) (na nb : ℕ → K) (i : ℕ)
    (h1 : 0 ≤ na i) (h2 : 0 ≤ nb i) : 0 ≤ rowS K k mat ncols a asl j na nb i := by
  unfold rowS
  have a1 : (0 : K) ≤ n1 K (limbOf a i asl (2 * 2 ^ k)) (2 * 2 ^ k) := sum_nonneg (fun _ _ => abs_nonneg _)
  have a2 : (0 : K) ≤ n1 K (matEntry mat ncols (2 * 2 ^ k) i j) (2 * 2 ^ k) := sum_nonneg (fun _ _ => abs_nonneg _)
  positivity

theorem col_dft_stage (c : Cfg) (k : ℕ) (cN sN cNi sNi : ℕ → ℕ) (h : VCfgOk c k cN sN cNi sNi)
    (ζ : Cplx K) (hζ : nsq ζ = 1) (hI : ζ ^ 2 ^ k = Ic)
    (hcs : ∀ ℓ d b, ℓ + d + 1 = k → b < 2 ^ ℓ →
      nsq (toC (((val (cN (twE ℓ d b)) : ℚ) : K), ((val (sN (twE ℓ d b)) : ℚ) : K)) - ζ ^ twE ℓ d b) ≤
        (((7 / 2 * u64 : ℚ)) : K) ^ 2)
    (mat : Array Int) (nrows ncols : ℕ) (a : Array Int) (asz asl rsz : ℕ)
    (hA : ∀ i, i < min nrows asz → Box k (limbOf a i asl (2 * 2 ^ k)))
    (hM : ∀ i j, i < nrows → j < ncols → Box k (matEntry mat ncols (2 * 2 ^ k) i j))
    (j : ℕ) (hj : j < min ncols rsz) (hpos : k < 2 → 0 < min nrows asz)
    (hok : VmpOk c k cN sN cNi sNi mat nrows ncols a asz asl rsz j)
    (na nb : ℕ → K) (hna0 : ∀ i, i < min nrows asz → 0 ≤ na i) (hnb0 : ∀ i, i < min nrows asz → 0 ≤ nb i)
    (hna : ∀ i, i < min nrows asz → n2sq K (limbOf a i asl (2 * 2 ^ k)) (2 * 2 ^ k) ≤ na i ^ 2)
    (hnb : ∀ i, i < min nrows asz → n2sq K (matEntry mat ncols (2 * 2 ^ k) i j) (2 * 2 ^ k) ≤ nb i ^ 2)
    (hnl : ∀ i, i < min nrows asz → nb i ≤ n1 K (matEntry mat ncols (2 * 2 ^ k) i j) (2 * 2 ^ k)) :
    (∀ p, p < 2 * 2 ^ k → Fin64 ((vmpRes c mat nrows ncols a asz asl rsz).getD (j * (2 * 2 ^ k) + p) 0)) ∧
    ∑ t ∈ range (2 ^ k), nsq (V ζ (pkC (colSpec k mat nrows ncols a asz asl j) (2 ^ k)) k 0 t) ≤
      (sumS K k mat nrows ncols a asz asl j na nb / 2) ^ 2 * 2 ^ k ∧
    ∑ t ∈ range (2 ^ k), nsq (outC (dlimb (vmpRes c mat nrows ncols a asz asl rsz) j (2 * 2 ^ k)) k t -
        V ζ (pkC (colSpec k mat nrows ncols a asz asl j) (2 ^ k)) k 0 t) ≤
      (fB (eps K k) ((muD (min nrows asz) : ℚ) : K) (eps K k * 2 ^ k) * sumS K k mat nrows ncols a asz asl j na nb) ^ 2
        * 2 ^ k := by
  obtain ⟨n, hn⟩ : ∃ n, n = min nrows asz := ⟨_, rfl⟩
  rw [← hn] at hA hna0 hnb0 hna hnb hnl hpos
  have hnr : n ≤ nrows := by rw [hn]; exact Nat.min_le_left _ _
  have hjc : j < ncols := lt_of_lt_of_le hj (Nat.min_le_left _ _)
  have hjr : j < rsz := lt_of_lt_of_le hj (Nat.min_le_right _ _)
  -- the cells
  have cells := fun t (ht : t < 2 ^ k) => cell_transfer c k cN sN cNi sNi h mat nrows ncols a asz asl rsz
    (by rw [← hn]; exact hA) hM j t hj ht (by rw [← hn]; exact hpos)
  have hfin : ∀ p, p < 2 * 2 ^ k → Fin64 ((vmpRes c mat nrows ncols a asz asl rsz).getD (j * (2 * 2 ^ k) + p) 0) := by
    intro p hp
    by_cases hlt : p < 2 ^ k
    · exact ((cells p hlt).1 (hok.okD p hp)).1
    · obtain ⟨t, rfl⟩ : ∃ t, p = t + 2 ^ k := ⟨p - 2 ^ k, by omega⟩
      have := ((cells t (by omega)).2 (by rw [Nat.add_assoc]; exact hok.okD _ hp)).1
      rw [Nat.add_assoc] at this
      exact this
  refine ⟨hfin, ?_⟩
  -- per-row forward stages
  have fa := fun i (hi : i < n) => fwd_poly (K := K) c k cN sN cNi sNi h.cfg ζ hζ hI hcs _ (hA i hi)
    (hok.okA i (by rw [← hn]; exact hi))
  have fb := fun i (hi : i < n) => fwd_poly (K := K) c k cN sN cNi sNi h.cfg ζ hζ hI hcs _ (hM i j (by omega) hjc)
    (hok.okB i (by rw [← hn]; exact hi))
  have hM0 : (0 : K) ≤ 2 ^ k := by positivity
  have hM1 : (1 : K) ≤ 2 ^ k := one_le_pow₀ (by norm_num)
  have hμ : (0 : K) ≤ ((muD n : ℚ) : K) := by exact_mod_cast muD_nonneg n
  have main := vmp_dft_err (range (2 ^ k)) n
    (fun i t => V ζ (pkC (limbOf a i asl (2 * 2 ^ k)) (2 ^ k)) k 0 t)
    (fun i t => V ζ (pkC (matEntry mat ncols (2 * 2 ^ k) i j) (2 ^ k)) k 0 t)
    (fun i t => outC (stF c k cN sN (limbOf a i asl (2 * 2 ^ k))) k t)
    (fun i t => outC (stF c k cN sN (matEntry mat ncols (2 * 2 ^ k) i j)) k t)
    (fun t => outC (dlimb (vmpRes c mat nrows ncols a asz asl rsz) j (2 * 2 ^ k)) k t)
    (eps K k) ((muD n : ℚ) : K) (2 ^ k) (2 ^ k) na nb
    (fun i => n1 K (limbOf a i asl (2 * 2 ^ k)) (2 * 2 ^ k))
    (fun i => n1 K (matEntry mat ncols (2 * 2 ^ k) i j) (2 * 2 ^ k))
    (eps_nonneg k) hμ hM0 hM0 (by nlinarith) hna0 hnb0
    (fun i _ => sum_nonneg (fun _ _ => abs_nonneg _)) (fun i _ => sum_nonneg (fun _ _ => abs_nonneg _)) hnl
    (fun i hi => (fa i hi).2)
    (fun i hi => by rw [V_sum k ζ hζ, mul_comm]; exact mul_le_mul_of_nonneg_right (hna i hi) hM0)
    (fun i hi t ht => V_sup k ζ hζ hI _ t (mem_range.1 ht))
    (fun i hi => (fb i hi).2)
    (fun i hi => by rw [V_sum k ζ hζ, mul_comm]; exact mul_le_mul_of_nonneg_right (hnb i hi) hM0)
    (fun i hi t ht => V_sup k ζ hζ hI _ t (mem_range.1 ht))
    (by
      intro t ht
      have ht' := mem_range.1 ht
      obtain ⟨_, pr⟩ := (cells t ht').1 (hok.okD t (by omega))
      obtain ⟨_, pi⟩ := (cells t ht').2 (by rw [Nat.add_assoc]; exact hok.okD _ (by omega))
      rw [← hn] at pr pi
      obtain ⟨δ, d1, d2⟩ := cplx_of_psum (K := K) n (qA c k cN sN a asl t) (qA c k cN sN a asl (t + 2 ^ k))
        (qM c k cN sN mat ncols j t) (qM c k cN sN mat ncols j (t + 2 ^ k)) (gamD n) _ _ (gamD_nonneg n) pr pi
      refine ⟨δ, fun i hi => ?_, ?_⟩
      · have := d1 i hi
        rw [outC_getD, outC_getD]
        unfold muD
        exact this
      · rw [outC_getD, dlimb_get 0 _ j (2 * 2 ^ k) t (by omega), dlimb_get2 0 _ j (2 * 2 ^ k) t (2 ^ k) (by omega)]
        rw [d2]
        apply sum_congr rfl
        intro i _
        rw [outC_getD, outC_getD]
        rfl)
  -- rewrite the exact side
  have eP : ∀ t ∈ range (2 ^ k), ∑ i ∈ range n, V ζ (pkC (limbOf a i asl (2 * 2 ^ k)) (2 ^ k)) k 0 t *
      V ζ (pkC (matEntry mat ncols (2 * 2 ^ k) i j) (2 ^ k)) k 0 t =
      V ζ (pkC (colSpec k mat nrows ncols a asz asl j) (2 ^ k)) k 0 t := by
    intro t ht
    unfold colSpec
    rw [← hn, V_isum k ζ hI n _ t (mem_range.1 ht)]
    exact sum_congr rfl (fun i _ => V_prod k ζ hI _ _ t (mem_range.1 ht))
  have eS : ∑ i ∈ range n, (n1 K (limbOf a i asl (2 * 2 ^ k)) (2 * 2 ^ k) * nb i +
      na i * n1 K (matEntry mat ncols (2 * 2 ^ k) i j) (2 * 2 ^ k)) = sumS K k mat nrows ncols a asz asl j na nb := by
    unfold sumS rowS; rw [← hn]
  obtain ⟨m1, m2⟩ := main
  rw [eS] at m1 m2
  constructor
  · rw [← sum_congr rfl (fun t ht => congrArg nsq (eP t ht))]
    exact m1
  · rw [← hn]
    have e : ∑ t ∈ range (2 ^ k), nsq (outC (dlimb (vmpRes c mat nrows ncols a asz asl rsz) j (2 * 2 ^ k)) k t -
        V ζ (pkC (colSpec k mat nrows ncols a asz asl j) (2 ^ k)) k 0 t) =
        ∑ t ∈ range (2 ^ k), nsq (outC (dlimb (vmpRes c mat nrows ncols a asz asl rsz) j (2 * 2 ^ k)) k t -
          ∑ i ∈ range n, V ζ (pkC (limbOf a i asl (2 * 2 ^ k)) (2 ^ k)) k 0 t *
            V ζ (pkC (matEntry mat ncols (2 * 2 ^ k) i j) (2 ^ k)) k 0 t) :=
      sum_congr rfl (fun t ht => by rw [eP t ht])
    rw [e]
    exact m2

end Spq.VmpErr
