/-
  C06.4: assembling the a-priori rounding bound of the forward reim FFT in binary64.
-/
import SpqProofs.Lemmas.FftErrSchedXfer
import Mathlib.Tactic.IntervalCases
set_option linter.unusedSectionVars false
namespace Spq.FftErr
open Finset Spq.Fft Spq.Fft.Alg Spq.Fft.RelN Spq.Fft.SimP Spq.Fft.LevelN Spq.Fft.SchedN Spq.F64
variable {K : Type} [Field K] [LinearOrder K] [IsStrictOrderedRing K]

theorem eta_cast (u τ : ℚ) : eta (u : K) (τ : K) = ((eta u τ : ℚ) : K) := by
  unfold eta rho gam; push_cast; ring

/-- binary64, twiddle error `3.5·2^-53`: `η ≤ 8·2^-53`, in any ordered field -/
theorem eta64_le : eta ((u64 : ℚ) : K) (((7 / 2 * u64 : ℚ)) : K) ≤ ((8 * u64 : ℚ) : K) := by
  rw [eta_cast]
  exact (Rat.cast_le (K := K)).2 (by unfold u64; exact eta_f64_le)

theorem pow_sub_one_sq_mono (η η' : K) (h0 : 0 ≤ η) (h : η ≤ η') (k : ℕ) :
    ((1 + η) ^ k - 1) ^ 2 ≤ ((1 + η') ^ k - 1) ^ 2 := by
  have h1 : (1 : K) ≤ (1 + η) ^ k := one_le_pow₀ (by linarith)
  have h2 : (1 + η) ^ k ≤ (1 + η') ^ k := pow_le_pow_left₀ (by linarith) (by linarith) k
  exact pow_le_pow_left₀ (by linarith) (by linarith) 2

/-- `(1 + 8u)^k − 1 ≤ 8(k+1)u` for `k ≤ 16`, `u = 2^-53` -/
theorem bound16 (k : ℕ) (hk : k ≤ 16) : (1 + 8 * u64) ^ k - 1 ≤ 8 * (k + 1 : ℚ) * u64 := by
  unfold u64
  have h : (2 : ℚ) ^ (-53 : ℤ) = 1 / 9007199254740992 := by norm_num
  rw [h]
  interval_cases k <;> norm_num

/-- the exact forward transform of the values of `data`: output `j` -/
def exactOut (ζ : Cplx K) (k : ℕ) (data : Array ℕ) (j : ℕ) : Cplx K :=
  sumTo (2 ^ k) (fun i => toC (((val data[i]! : ℚ) : K), ((val data[2 ^ k + i]! : ℚ) : K)) * ζ ^ ((1 + 4 * brev k j) * i))

/-- the values of the binary64 output cell `j` as a complex number over `K` -/
def outC (out : Array ℕ) (k j : ℕ) : Cplx K := toC (((val out[j]! : ℚ) : K), ((val out[2 ^ k + j]! : ℚ) : K))

/-- assembled bound for a family of implementations -/
theorem fft_err_fam (Fam : ∀ {α : Type}, Arith α → Flav α) (hFam : FamOK Fam)
    (hErr : ∀ (A : Arith K) (u τ : K), FStd A u → 0 ≤ τ → FwdErrOK (Fam A) τ (eta u τ))
    (k : ℕ) (ζ : Cplx K) (hζ : nsq ζ = 1) (hI : ζ ^ 2 ^ k = Ic) (cN sN : ℕ → ℕ)
    (hcs : ∀ ℓ d b, ℓ + d + 1 = k → b < 2 ^ ℓ →
      nsq (toC (((val (cN (twE ℓ d b)) : ℚ) : K), ((val (sN (twE ℓ d b)) : ℚ) : K)) - ζ ^ twE ℓ d b) ≤
        (((7 / 2 * u64 : ℚ)) : K) ^ 2)
    (data : Array ℕ) (hdata : data.size = 2 * 2 ^ k)
    (hok : ∀ p, p < 2 * 2 ^ k →
      ((reimFftA (Fam aOk) (2 ^ k) ((((reimFftEnts (2 ^ k)).map (valP cN sN)).toArray).map lift) (data.map lift))[p]!).2) :
    (∀ p, p < 2 * 2 ^ k → Fin64 ((reimFftA (Fam f64) (2 ^ k) ((reimFftEnts (2 ^ k)).map (valP cN sN)).toArray data)[p]!)) ∧
    ∑ j ∈ range (2 ^ k), nsq (outC (reimFftA (Fam f64) (2 ^ k) ((reimFftEnts (2 ^ k)).map (valP cN sN)).toArray data) k j
        - exactOut ζ k data j) ≤
      ((1 + ((8 * u64 : ℚ) : K)) ^ k - 1) ^ 2 * ∑ j ∈ range (2 ^ k), nsq (exactOut ζ k data j) := by
  have xf := fft_transfer (K := K) Fam hFam k cN sN data hdata hok
  constructor
  · intro p hp
    by_cases h : p < 2 ^ k
    · exact (xf p h).1
    · have := (xf (p - 2 ^ k) (by omega)).2.1
      rwa [show 2 ^ k + (p - 2 ^ k) = p by omega] at this
  have hτ0 : (0 : K) ≤ ((7 / 2 * u64 : ℚ) : K) := by
    have : (0 : ℚ) ≤ 7 / 2 * u64 := by unfold u64; positivity
    exact_mod_cast this
  have hu0 : (0 : K) ≤ ((u64 : ℚ) : K) := by
    have : (0 : ℚ) ≤ u64 := by unfold u64; positivity
    exact_mod_cast this
  have hη0 := eta_nonneg hu0 hτ0
  have hζ2 : ζ ^ (2 * 2 ^ k) = -1 := by
    rw [Nat.mul_comm, pow_mul, hI, pow_two, Ic_mul]
    ext <;> simp [Ic, QuadraticAlgebra.re_one, QuadraticAlgebra.im_one]
  have ne := netN_err (Fam (liftA aG : Arith K)) (fun e => ((val (cN e) : ℚ) : K)) (fun e => ((val (sN e) : ℚ) : K)) k ζ
    _ _ (hErr (liftA aG) _ _ (liftA_fstd aG u64 aG_fstd) hτ0) hη0 hζ hI hcs
    (fun p => (((val data[p]! : ℚ) : K), ((val data[2 ^ k + p]! : ℚ) : K)))
  have e1 : ∀ j ∈ range (2 ^ k), toC (VN (gNet (Fam (liftA aG : Arith K)) (fun e => ((val (cN e) : ℚ) : K))
      (fun e => ((val (sN e) : ℚ) : K)) k) (fun p => (((val data[p]! : ℚ) : K), ((val data[2 ^ k + p]! : ℚ) : K))) k 0 j)
      = outC (reimFftA (Fam f64) (2 ^ k) ((reimFftEnts (2 ^ k)).map (valP cN sN)).toArray data) k j := by
    intro j hj
    obtain ⟨_, _, h3, h4⟩ := xf j (mem_range.1 hj)
    unfold outC toC
    rw [h3, h4]
  have e2 : ∀ j ∈ range (2 ^ k), V ζ (fun p => toC (((val data[p]! : ℚ) : K), ((val data[2 ^ k + p]! : ℚ) : K))) k 0 j
      = exactOut ζ k data j := fun j hj => V_top ζ _ k hζ2 j (mem_range.1 hj)
  have s1 : ∑ j ∈ range (2 ^ k), nsq (toC (VN (gNet (Fam (liftA aG : Arith K)) (fun e => ((val (cN e) : ℚ) : K))
      (fun e => ((val (sN e) : ℚ) : K)) k) (fun p => (((val data[p]! : ℚ) : K), ((val data[2 ^ k + p]! : ℚ) : K))) k 0 j)
      - V ζ (fun p => toC (((val data[p]! : ℚ) : K), ((val data[2 ^ k + p]! : ℚ) : K))) k 0 j)
      = ∑ j ∈ range (2 ^ k), nsq (outC (reimFftA (Fam f64) (2 ^ k) ((reimFftEnts (2 ^ k)).map (valP cN sN)).toArray data) k j
        - exactOut ζ k data j) := sum_congr rfl (fun j hj => by rw [e1 j hj, e2 j hj])
  have s2 : ∑ j ∈ range (2 ^ k), nsq (V ζ (fun p => toC (((val data[p]! : ℚ) : K), ((val data[2 ^ k + p]! : ℚ) : K))) k 0 j)
      = ∑ j ∈ range (2 ^ k), nsq (exactOut ζ k data j) := sum_congr rfl (fun j hj => by rw [e2 j hj])
  rw [s1, s2] at ne
  refine le_trans ne (mul_le_mul_of_nonneg_right (pow_sub_one_sq_mono _ _ hη0 eta64_le k) ?_)
  exact sum_nonneg (fun j _ => nsq_nonneg _)

/-- the implementation selected by the flavour -/
def famOf (fma : Bool) : ∀ {α : Type}, Arith α → Flav α := fun {α} A => if fma then fwdFma (α := α) A else fwdRef A

theorem reimFft_eq (fma : Bool) (m : ℕ) (T data : Array ℕ) :
    reimFft (if fma then "fma" else "ref") m T data = reimFftA (famOf fma f64) m T data := by
  cases fma <;> rfl

end Spq.FftErr
