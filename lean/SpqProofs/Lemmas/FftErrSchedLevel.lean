/-
  C06.4, structural level layer: the level network `VN` whose block `b` of level `(ℓ, d)` uses an ARBITRARY
  butterfly function `g ℓ d b` (no algebra), and the fact that twiddle pass / radix-4 pass / 16-point leaf advance
  their block of `VN` when their butterflies ARE the `g`'s of the blocks they touch.
-/
import SpqProofs.Lemmas.FftLevelInv
namespace Spq.Fft.LevelN
open Spq.Fft Spq.Fft.Alg Spq.Fft.View

variable {β : Type}

/-- the level network with per-block butterflies (same recursion as `V` of `FftAlg.lean` and `VH` of `FftErrNet.lean`) -/
def VN (g : ℕ → ℕ → ℕ → β → β → β × β) (a : ℕ → β) : ℕ → ℕ → ℕ → β
  | 0, _, p => a p
  | ℓ + 1, d, p =>
    if p % (2 * 2 ^ d) < 2 ^ d then
      (g ℓ d (p / (2 * 2 ^ d)) (VN g a ℓ (d + 1) p) (VN g a ℓ (d + 1) (p + 2 ^ d))).1
    else (g ℓ d (p / (2 * 2 ^ d)) (VN g a ℓ (d + 1) (p - 2 ^ d)) (VN g a ℓ (d + 1) p)).2

/-- `y` agrees with `B` on the block if `x` agrees with `A` there; nothing else moves -/
def AdvG (A B x y : ℕ → β) (off sz : ℕ) : Prop :=
  ((∀ p, off ≤ p → p < off + sz → x p = A p) → (∀ p, off ≤ p → p < off + sz → y p = B p)) ∧
  (∀ p, p < off ∨ off + sz ≤ p → y p = x p)

theorem AdvG.empty (A B x : ℕ → β) (off : ℕ) : AdvG A B x x off 0 :=
  ⟨fun _ p hp hp' => by omega, fun _ _ => rfl⟩

theorem AdvG.id (A x : ℕ → β) (off sz : ℕ) : AdvG A A x x off sz := ⟨fun h => h, fun _ _ => rfl⟩

theorem AdvG.seq {A B C x y z : ℕ → β} {off sz : ℕ} (h1 : AdvG A B x y off sz) (h2 : AdvG B C y z off sz) :
    AdvG A C x z off sz :=
  ⟨fun h => h2.1 (h1.1 h), fun p hp => by rw [h2.2 p hp, h1.2 p hp]⟩

theorem AdvG.par {A B x y z : ℕ → β} {off sz1 sz2 : ℕ} (h1 : AdvG A B x y off sz1)
    (h2 : AdvG A B y z (off + sz1) sz2) : AdvG A B x z off (sz1 + sz2) := by
  constructor
  · intro h p hp hp'
    by_cases hlt : p < off + sz1
    · rw [h2.2 p (by omega)]
      exact h1.1 (fun q hq hq' => h q hq (by omega)) p hp hlt
    · exact h2.1 (fun q hq hq' => by rw [h1.2 q (by omega)]; exact h q (by omega) (by omega)) p (by omega) (by omega)
  · intro p hp
    rw [h2.2 p (by omega), h1.2 p (by omega)]

theorem AdvG.of_eq {A B x y : ℕ → β} {off sz off' sz' : ℕ} (h : AdvG A B x y off sz)
    (e1 : off' = off) (e2 : sz' = sz) : AdvG A B x y off' sz' := by subst e1 e2; exact h

theorem AdvG.iter (A B : ℕ → β) (f : ℕ → (ℕ → β) → (ℕ → β)) (off sz n : ℕ)
    (h : ∀ b x, b < n → AdvG A B x (f b x) (off + b * sz) sz) (x : ℕ → β) :
    AdvG A B x (iterFrom f n 0 x) off (n * sz) := by
  induction n with
  | zero => simpa [iterFrom] using AdvG.empty A B x off
  | succ n ih =>
    rw [iterFrom_succ_last, Nat.zero_add]
    exact ((ih (fun b x hb => h b x (by omega))).par (h n _ (by omega))).of_eq rfl (by ring)

variable (g : ℕ → ℕ → ℕ → β → β → β × β) (a : ℕ → β)

/-- advance a block of the network `VN g a` -/
abbrev AdvN (x y : ℕ → β) (ℓ d ℓ' d' off sz : ℕ) : Prop := AdvG (VN g a ℓ d) (VN g a ℓ' d') x y off sz

theorem AdvN.cast {x y : ℕ → β} {ℓ d ℓ' d' off sz : ℕ} (h : AdvN g a x y ℓ d ℓ' d' off sz)
    (ℓ1 d1 ℓ1' d1' : ℕ) (e1 : ℓ1 = ℓ) (e2 : d1 = d) (e3 : ℓ1' = ℓ') (e4 : d1' = d') :
    AdvN g a x y ℓ1 d1 ℓ1' d1' off sz := by subst e1 e2 e3 e4; exact h

/-- `(φ, ψ)` is the butterfly `gb` -/
def Bq (φ ψ : β → β → β) (gb : β → β → β × β) : Prop := ∀ u v, φ u v = (gb u v).1 ∧ ψ u v = (gb u v).2

/-- a pass of `2^d` butterflies that ARE the butterfly of block `b` advances it by one level -/
theorem AdvN.tw (x : ℕ → β) (ℓ d b off : ℕ) (hoff : off = 2 * 2 ^ d * b) (φ ψ : β → β → β)
    (hq : Bq φ ψ (g ℓ d b)) :
    AdvN g a x (twG φ ψ (2 ^ d) off x) ℓ (d + 1) (ℓ + 1) d off (2 * 2 ^ d) := by
  constructor
  · intro hx p hp hp'
    obtain ⟨h, hh⟩ : ∃ h, h = 2 ^ d := ⟨_, rfl⟩
    have hpos : 0 < h := by rw [hh]; exact Nat.two_pow_pos d
    rw [← hh] at hp' hoff hx ⊢
    have hb : p / (2 * h) = b := by
      rw [show p = 2 * h * b + (p - off) by omega]; exact mul_add_div' _ _ _ (by omega)
    have hr : p % (2 * h) = p - off := by
      rw [show p = 2 * h * b + (p - off) by omega]
      rw [show 2 * h * b + (p - off) - off = p - off by omega]
      exact mul_add_mod' _ _ _ (by omega)
    rw [VN]
    simp only [← hh, hb, hr]
    by_cases hlt : p - off < h
    · rw [if_pos hlt, twG_lo _ _ _ _ _ _ (by omega), (hq _ _).1, hx p hp (by omega), hx (p + h) (by omega) (by omega)]
    · rw [if_neg hlt, twG_hi _ _ _ _ _ _ (by omega), (hq _ _).2, hx p hp (by omega), hx (p - h) (by omega) (by omega)]
  · intro p hp
    exact twG_out _ _ _ _ _ _ (by omega)

/-- radix-4 pass -/
theorem AdvN.bw (x : ℕ → β) (ℓ d b off h : ℕ) (hh : h = 2 ^ d) (hoff : off = 4 * h * b)
    (φ0 ψ0 φ1 ψ1 φ1' ψ1' : β → β → β) (h0 : Bq φ0 ψ0 (g ℓ (d + 1) b)) (h1 : Bq φ1 ψ1 (g (ℓ + 1) d (2 * b)))
    (h1' : Bq φ1' ψ1' (g (ℓ + 1) d (2 * b + 1))) :
    AdvN g a x (twG φ1' ψ1' h (off + 2 * h) (twG φ1 ψ1 h off (twG φ0 ψ0 (2 * h) off x))) ℓ (d + 2) (ℓ + 2) d off
      (4 * h) := by
  have e2 : 2 ^ (d + 1) = 2 * h := by rw [pow_succ, hh]; ring
  have s1 := AdvN.tw g a x ℓ (d + 1) b off (by rw [e2, hoff]; ring) φ0 ψ0 h0
  rw [e2] at s1
  have s2 := AdvN.tw g a (twG φ0 ψ0 (2 * h) off x) (ℓ + 1) d (2 * b) off (by rw [← hh, hoff]; ring) φ1 ψ1 h1
  rw [← hh] at s2
  have s3 := AdvN.tw g a (twG φ1 ψ1 h off (twG φ0 ψ0 (2 * h) off x)) (ℓ + 1) d (2 * b + 1) (off + 2 * h)
    (by rw [← hh, hoff]; ring) φ1' ψ1' h1'
  rw [← hh] at s3
  exact (s1.seq ((s2.par s3).of_eq rfl (by ring))).of_eq rfl (by ring)

/-- the 16-point leaf: its 32 butterflies are the butterflies of the 15 blocks of the four levels -/
theorem AdvN.leaf (x : ℕ → β) (ℓ b off : ℕ) (hoff : off = 16 * b) (Φ Φ' : ℕ → (β → β → β) × (β → β → β))
    (h0 : Bq (Φ 0).1 (Φ 0).2 (g ℓ 3 b))
    (h1 : Bq (Φ 1).1 (Φ 1).2 (g (ℓ + 1) 2 (2 * b))) (h1' : Bq (Φ' 1).1 (Φ' 1).2 (g (ℓ + 1) 2 (2 * b + 1)))
    (h2 : Bq (Φ 2).1 (Φ 2).2 (g (ℓ + 2) 1 (4 * b))) (h2' : Bq (Φ' 2).1 (Φ' 2).2 (g (ℓ + 2) 1 (4 * b + 1)))
    (h3 : Bq (Φ 3).1 (Φ 3).2 (g (ℓ + 2) 1 (4 * b + 2))) (h3' : Bq (Φ' 3).1 (Φ' 3).2 (g (ℓ + 2) 1 (4 * b + 3)))
    (h4 : ∀ q, q < 4 → Bq (Φ (4 + q)).1 (Φ (4 + q)).2 (g (ℓ + 3) 0 (8 * b + 2 * q)))
    (h4' : ∀ q, q < 4 → Bq (Φ' (4 + q)).1 (Φ' (4 + q)).2 (g (ℓ + 3) 0 (8 * b + 2 * q + 1))) :
    AdvN g a x (fft16V Φ Φ' off x) ℓ 4 (ℓ + 4) 0 off 16 := by
  unfold fft16V
  simp only
  have s1 := AdvN.tw g a x ℓ 3 b off (by omega) _ _ h0
  have s2a := AdvN.tw g a (twG (Φ 0).1 (Φ 0).2 8 off x) (ℓ + 1) 2 (2 * b) off (by omega) _ _ h1
  have s2b := AdvN.tw g a (twG (Φ 1).1 (Φ 1).2 4 off (twG (Φ 0).1 (Φ 0).2 8 off x)) (ℓ + 1) 2 (2 * b + 1) (off + 8)
    (by omega) _ _ h1'
  have s2 := s2a.par s2b
  have s3a := AdvN.tw g a (twG (Φ' 1).1 (Φ' 1).2 4 (off + 8) (twG (Φ 1).1 (Φ 1).2 4 off (twG (Φ 0).1 (Φ 0).2 8 off x)))
    (ℓ + 2) 1 (4 * b) off (by omega) _ _ h2
  have s3b := AdvN.tw g a (twG (Φ 2).1 (Φ 2).2 2 off (twG (Φ' 1).1 (Φ' 1).2 4 (off + 8) (twG (Φ 1).1 (Φ 1).2 4 off
    (twG (Φ 0).1 (Φ 0).2 8 off x)))) (ℓ + 2) 1 (4 * b + 1) (off + 4) (by omega) _ _ h2'
  have s3c := AdvN.tw g a (twG (Φ' 2).1 (Φ' 2).2 2 (off + 4) (twG (Φ 2).1 (Φ 2).2 2 off (twG (Φ' 1).1 (Φ' 1).2 4 (off + 8)
    (twG (Φ 1).1 (Φ 1).2 4 off (twG (Φ 0).1 (Φ 0).2 8 off x))))) (ℓ + 2) 1 (4 * b + 2) (off + 8) (by omega) _ _ h3
  have s3d := AdvN.tw g a (twG (Φ 3).1 (Φ 3).2 2 (off + 8) (twG (Φ' 2).1 (Φ' 2).2 2 (off + 4) (twG (Φ 2).1 (Φ 2).2 2 off
    (twG (Φ' 1).1 (Φ' 1).2 4 (off + 8) (twG (Φ 1).1 (Φ 1).2 4 off (twG (Φ 0).1 (Φ 0).2 8 off x))))))
    (ℓ + 2) 1 (4 * b + 3) (off + 12) (by omega) _ _ h3'
  have s3 := ((s3a.par s3b).par (s3c.of_eq (by omega) rfl)).par (s3d.of_eq (by omega) rfl)
  have s4 := AdvG.iter (VN g a (ℓ + 3) (0 + 1)) (VN g a (ℓ + 3 + 1) 0)
    (fun q x => twG (Φ' (4 + q)).1 (Φ' (4 + q)).2 1 (off + 4 * q + 2) (twG (Φ (4 + q)).1 (Φ (4 + q)).2 1 (off + 4 * q) x))
    off 4 4
    (fun q y hq => by
      have t1 := AdvN.tw g a y (ℓ + 3) 0 (8 * b + 2 * q) (off + q * 4) (by omega) _ _ (h4 q hq)
      have t2 := AdvN.tw g a (twG (Φ (4 + q)).1 (Φ (4 + q)).2 (2 ^ 0) (off + q * 4) y) (ℓ + 3) 0 (8 * b + 2 * q + 1)
        (off + q * 4 + 2 * 2 ^ 0) (by omega) _ _ (h4' q hq)
      have := t1.par t2
      have e1 : off + q * 4 = off + 4 * q := by omega
      have e2 : off + q * 4 + 2 * 2 ^ 0 = off + 4 * q + 2 := by omega
      rw [e2, e1] at this
      exact this.of_eq (by omega) (by norm_num))
    (twG (Φ' 3).1 (Φ' 3).2 2 (off + 12) (twG (Φ 3).1 (Φ 3).2 2 (off + 8) (twG (Φ' 2).1 (Φ' 2).2 2 (off + 4)
      (twG (Φ 2).1 (Φ 2).2 2 off (twG (Φ' 1).1 (Φ' 1).2 4 (off + 8) (twG (Φ 1).1 (Φ 1).2 4 off
      (twG (Φ 0).1 (Φ 0).2 8 off x)))))))
  exact ((s1.seq s2).seq s3).seq s4

end Spq.Fft.LevelN
