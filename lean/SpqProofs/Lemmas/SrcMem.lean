/-
  Memory lemmas for the symbolic execution of `Spq.CIR` terms: buffers, cell loads/stores through a bound
  pointer, and `fillTo` (the shape of the result buffer of a loop that writes cell `k` at iteration `k`).
-/
import Spq.CIR
namespace Spq.CIR

/-! ### buffers -/
theorem buf_eq_getElem (m : Mem) (b : Nat) (h : b < m.size) : buf m b = m[b] := by
  simp [buf, Array.getD, h]

theorem buf_of_ge (m : Mem) (b : Nat) (h : m.size ≤ b) : buf m b = #[] := by
  simp [buf, Array.getD, Nat.not_lt.mpr h]

theorem lt_size_of_buf_size_pos (m : Mem) (b : Nat) (h : 0 < (buf m b).size) : b < m.size := by
  apply Classical.byContradiction
  intro hn
  rw [buf_of_ge m b (by omega)] at h
  simp at h

theorem buf_set_self (m : Mem) (r : Nat) (x : Array Int) (h : r < m.size) :
    buf (m.setIfInBounds r x) r = x := by
  simp [buf, Array.getD, h]

theorem buf_set_ne (m : Mem) (r b : Nat) (x : Array Int) (h : b ≠ r) :
    buf (m.setIfInBounds r x) b = buf m b := by
  by_cases hb : b < m.size
  · simp [buf, Array.getD, hb, Ne.symm h]
  · simp [buf, Array.getD, hb]

theorem set_buf_self (m : Mem) (r : Nat) : m.setIfInBounds r (buf m r) = m := by
  apply Array.ext
  · simp
  · intro i h1 h2
    simp at h1
    by_cases hi : r = i
    · subst hi
      simp [buf, Array.getD, h1]
    · rw [Array.getElem_setIfInBounds_ne h1 hi]

theorem set_set (m : Mem) (r : Nat) (x y : Array Int) :
    (m.setIfInBounds r x).setIfInBounds r y = m.setIfInBounds r y := by
  apply Array.ext
  · simp
  · intro i h1 h2
    simp at h1
    by_cases hi : r = i
    · subst hi; simp
    · rw [Array.getElem_setIfInBounds_ne h1 hi, Array.getElem_setIfInBounds_ne (by simpa using h1) hi,
        Array.getElem_setIfInBounds_ne h1 hi]

theorem modify_eq_set (m : Mem) (r : Nat) (f : Array Int → Array Int) :
    m.modify r f = m.setIfInBounds r (f (buf m r)) := by
  apply Array.ext
  · simp
  · intro i h1 h2
    simp at h1
    by_cases hi : r = i
    · subst hi
      simp [Array.getElem_modify, buf, Array.getD, h1]
    · rw [Array.getElem_setIfInBounds_ne h1 hi]
      simp [Array.getElem_modify, hi]

/-! ### loads and stores with natural-number indices -/
theorem loadCell_nat (m : Mem) (b off i : Nat) (h : off + i < (buf m b).size) :
    loadCell m (some (b, off)) (i : Int) = .ok ((buf m b).getD (off + i) 0) := by
  have h1 : (0:Int) ≤ (off:Int) + (i:Int) ∧ (off:Int) + (i:Int) < (((buf m b).size : Nat) : Int) := by omega
  have h2 : ((off:Int) + (i:Int)).toNat = off + i := by omega
  simp only [loadCell, h1, h2, and_self, if_true]

theorem storeCell_nat (m : Mem) (b off i : Nat) (v : Int) (h : off + i < (buf m b).size) :
    storeCell m (some (b, off)) (i : Int) v = .ok (m.setIfInBounds b ((buf m b).setIfInBounds (off + i) v)) := by
  have h1 : (0:Int) ≤ (off:Int) + (i:Int) ∧ (off:Int) + (i:Int) < (((buf m b).size : Nat) : Int) := by omega
  have h2 : ((off:Int) + (i:Int)).toNat = off + i := by omega
  simp only [storeCell, h1, h2, and_self, if_true, modify_eq_set]

/-- any access at or beyond the size of the buffer is reported -/
theorem loadCell_oob (m : Mem) (b off i : Nat) (h : (buf m b).size ≤ off + i) :
    loadCell m (some (b, off)) (i : Int) = .err .oob := by
  have h1 : ¬ ((0:Int) ≤ (off:Int) + (i:Int) ∧ (off:Int) + (i:Int) < (((buf m b).size : Nat) : Int)) := by omega
  simp only [loadCell, h1, if_false]

theorem storeCell_oob (m : Mem) (b off i : Nat) (v : Int) (h : (buf m b).size ≤ off + i) :
    storeCell m (some (b, off)) (i : Int) v = .err .oob := by
  have h1 : ¬ ((0:Int) ≤ (off:Int) + (i:Int) ∧ (off:Int) + (i:Int) < (((buf m b).size : Nat) : Int)) := by omega
  simp only [storeCell, h1, if_false]

/-! ### `fillTo arr g k`: cells `[0, k)` come from `g`, the others from `arr` -/
def fillTo (arr : Array Int) (g : Nat → Int) (k : Nat) : Array Int :=
  Array.ofFn (n := arr.size) fun i => if i.val < k then g i.val else arr[i]

@[simp] theorem size_fillTo (arr : Array Int) (g : Nat → Int) (k : Nat) : (fillTo arr g k).size = arr.size := by
  simp [fillTo]

theorem getD_fillTo (arr : Array Int) (g : Nat → Int) (k i : Nat) :
    (fillTo arr g k).getD i 0 = if i < k ∧ i < arr.size then g i else arr.getD i 0 := by
  by_cases hi : i < arr.size
  · by_cases hk : i < k <;> simp [fillTo, Array.getD, hi, hk]
  · simp [fillTo, Array.getD, hi]

theorem fillTo_zero (arr : Array Int) (g : Nat → Int) : fillTo arr g 0 = arr := by
  apply Array.ext
  · simp
  · intro i h1 h2
    simp [fillTo]

theorem fillTo_step (arr : Array Int) (g : Nat → Int) (k : Nat) (v : Int) (hv : v = g k) :
    (fillTo arr g k).setIfInBounds k v = fillTo arr g (k + 1) := by
  subst hv
  apply Array.ext
  · simp
  · intro i h1 h2
    simp at h1
    by_cases hik : k = i
    · subst hik
      simp [fillTo]
    · have : (i < k + 1) ↔ (i < k) := by omega
      rw [Array.getElem_setIfInBounds_ne (by simpa using h1) hik]
      simp [fillTo, this]

theorem fillTo_full (arr : Array Int) (g : Nat → Int) (k : Nat) (h : arr.size ≤ k) :
    fillTo arr g k = Array.ofFn (n := arr.size) fun i => g i.val := by
  apply Array.ext
  · simp
  · intro i h1 h2
    simp at h1
    have : i < k := by omega
    simp [fillTo, this]

/-- `Array.ofFn` over a size known by an equation -/
theorem ofFn_size_congr {n m : Nat} (h : n = m) (g : Nat → Int) :
    (Array.ofFn (n := n) fun i => g i.val) = Array.ofFn (n := m) fun i => g i.val := by
  subst h; rfl

/-! ### the result buffer inside the memory: `mem.setIfInBounds r (fillTo (buf mem r) g k)` -/

/-- sizes of all buffers are unchanged by writing a same-size array into buffer `r` -/
theorem size_buf_set (m : Mem) (r b : Nat) (x : Array Int) (hx : x.size = (buf m r).size) :
    (buf (m.setIfInBounds r x) b).size = (buf m b).size := by
  by_cases hb : b = r
  · subst hb
    by_cases h : b < m.size
    · rw [buf_set_self m b x h, hx]
    · simp [buf, Array.getD, h]
  · rw [buf_set_ne m r b x hb]

/-- reading cell `i ≥ k` of any buffer (the result buffer itself or another one) while the result buffer
    holds `fillTo … k` gives the original content: this is what makes the in-place use (`res == a`) of the
    element-wise kernels correct. -/
theorem getD_buf_fill_ge (m : Mem) (r b : Nat) (g : Nat → Int) (k i : Nat) (h : k ≤ i) :
    (buf (m.setIfInBounds r (fillTo (buf m r) g k)) b).getD i 0 = (buf m b).getD i 0 := by
  by_cases hb : b = r
  · subst hb
    by_cases hs : b < m.size
    · rw [buf_set_self m b _ hs, getD_fillTo]
      have : ¬ (i < k ∧ i < (buf m b).size) := by omega
      simp [this]
    · simp [buf, Array.getD, hs]
  · rw [buf_set_ne m r b _ hb]

end Spq.CIR

namespace Spq.CIR
/-! ### memcpy / memset over a whole exact-size buffer -/
theorem blit_all (src dst : Array Int) (n : Nat) (h : dst.size = n) :
    blit src 0 dst 0 n = Array.ofFn (n := n) fun i => src.getD i.val 0 := by
  subst h
  apply Array.ext
  · simp [blit]
  · intro i h1 h2
    simp [blit] at h1
    simp [blit]

theorem fill_all (dst : Array Int) (n : Nat) (v : Int) (h : dst.size = n) :
    fill dst 0 n v = Array.ofFn (n := n) fun _ => v := by
  subst h
  apply Array.ext
  · simp [fill]
  · intro i h1 h2
    simp [fill] at h1
    simp [fill]

theorem memsetPattern_i64_zero : memsetPattern .i64 0 = 0 := by decide
end Spq.CIR
