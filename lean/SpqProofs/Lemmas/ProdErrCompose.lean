/-
  C01 rounding budget, step 3: composition of the three error sources in DFT space (abstract sequences).
  Given computed transforms `Â, B̂` with 2-norm relative error `ε`, exact transforms with `‖Ā‖₂² ≤ na²·M`,
  `|Ā_j| ≤ la` (`M` = number of points, `na` ≥ 2-norm of the coefficients, `la` = their 1-norm), and a pointwise
  product of relative error `μ` per cell:
      ‖Ĉ − Ā∘B̄‖₂² ≤ (f·S)²·M,   ‖Ā∘B̄‖₂² ≤ (S/2)²·M,    S = la·nb + na·lb,
      f = μ·(1/2 + d) + d,  d = ε·(1 + θ),  θ = ε·t  (`t² ≥ M`; second-order term).
-/
import SpqProofs.Lemmas.FftErrNorm
set_option linter.unusedSectionVars false
namespace Spq.ProdErr
open Finset Spq.FftErr
variable {K : Type} [Field K] [LinearOrder K] [IsStrictOrderedRing K]

/-- relative error of `Â∘B̂` against `Ā∘B̄` -/
def dB (ε θ : K) : K := ε * (1 + θ)
/-- relative error of the computed pointwise product -/
def fB (ε μ θ : K) : K := μ * (1 / 2 + dB ε θ) + dB ε θ
/-- relative error (w.r.t. `S`) of the whole pipeline after the inverse transform -/
def eB (ε μ θ : K) : K := ε * (1 / 2 + fB ε μ θ) + fB ε μ θ

theorem dB_nonneg {ε θ : K} (h1 : 0 ≤ ε) (h2 : 0 ≤ θ) : 0 ≤ dB ε θ := by unfold dB; positivity
theorem fB_nonneg {ε μ θ : K} (h1 : 0 ≤ ε) (h2 : 0 ≤ μ) (h3 : 0 ≤ θ) : 0 ≤ fB ε μ θ := by
  unfold fB; have := dB_nonneg h1 h3; positivity
theorem eB_nonneg {ε μ θ : K} (h1 : 0 ≤ ε) (h2 : 0 ≤ μ) (h3 : 0 ≤ θ) : 0 ≤ eB ε μ θ := by
  unfold eB; have := fB_nonneg h1 h2 h3; positivity

theorem sq_scale_mono {α β Y : K} (h0 : 0 ≤ α) (h : α ≤ β) (hY : 0 ≤ Y) : α ^ 2 * Y ≤ β ^ 2 * Y :=
  mul_le_mul_of_nonneg_right (pow_le_pow_left₀ h0 h 2) hY

/-- `Σ‖f_j·g_j‖² ≤ c²·Σ‖g_j‖²` when `‖f_j‖ ≤ c` -/
theorem sum_mul_le (s : Finset ℕ) (f g : ℕ → Cplx K) (c : K) (hf : ∀ j ∈ s, nsq (f j) ≤ c ^ 2) :
    ∑ j ∈ s, nsq (f j * g j) ≤ c ^ 2 * ∑ j ∈ s, nsq (g j) := by
  rw [mul_sum]
  apply sum_le_sum
  intro j hj
  rw [nsq_mul]
  exact mul_le_mul_of_nonneg_right (hf j hj) (nsq_nonneg _)

theorem dft_prod_err (s : Finset ℕ) (Ab Bb Ah Bh Ch : ℕ → Cplx K) (ε μ na nb la lb M t : K)
    (hε : 0 ≤ ε) (hμ : 0 ≤ μ) (hna : 0 ≤ na) (hnb : 0 ≤ nb) (hla : 0 ≤ la) (hlb : 0 ≤ lb) (hM : 0 ≤ M)
    (ht : 0 ≤ t) (hMt : M ≤ t ^ 2) (hnl : nb ≤ lb)
    (hA : ∑ j ∈ s, nsq (Ah j - Ab j) ≤ ε ^ 2 * ∑ j ∈ s, nsq (Ab j))
    (hAn : ∑ j ∈ s, nsq (Ab j) ≤ na ^ 2 * M) (hAs : ∀ j ∈ s, nsq (Ab j) ≤ la ^ 2)
    (hB : ∑ j ∈ s, nsq (Bh j - Bb j) ≤ ε ^ 2 * ∑ j ∈ s, nsq (Bb j))
    (hBn : ∑ j ∈ s, nsq (Bb j) ≤ nb ^ 2 * M) (hBs : ∀ j ∈ s, nsq (Bb j) ≤ lb ^ 2)
    (hC : ∀ j ∈ s, nsq (Ch j - Ah j * Bh j) ≤ μ ^ 2 * (nsq (Ah j) * nsq (Bh j))) :
    ∑ j ∈ s, nsq (Ab j * Bb j) ≤ ((la * nb + na * lb) / 2) ^ 2 * M ∧
    ∑ j ∈ s, nsq (Ch j - Ab j * Bb j) ≤ (fB ε μ (ε * t) * (la * nb + na * lb)) ^ 2 * M := by
  obtain ⟨S, hS⟩ : ∃ S, S = la * nb + na * lb := ⟨_, rfl⟩
  obtain ⟨θ, hθ⟩ : ∃ θ, θ = ε * t := ⟨_, rfl⟩
  rw [← hS, ← hθ]
  have hS0 : 0 ≤ S := by rw [hS]; positivity
  have hθ0 : 0 ≤ θ := by rw [hθ]; positivity
  have hε2 : 0 ≤ ε ^ 2 := by positivity
  -- 1, 2: absolute forward errors
  have eA : ∑ j ∈ s, nsq (Ah j - Ab j) ≤ (ε * na) ^ 2 * M := by
    have := mul_le_mul_of_nonneg_left hAn hε2
    rw [mul_pow]; linarith
  have eBB : ∑ j ∈ s, nsq (Bh j - Bb j) ≤ (ε * nb) ^ 2 * M := by
    have := mul_le_mul_of_nonneg_left hBn hε2
    rw [mul_pow]; linarith
  -- 3: sup bound of the computed B
  have supB : ∀ j ∈ s, nsq (Bh j) ≤ (lb * (1 + θ)) ^ 2 := by
    intro j hj
    have h1 : nsq (Bh j - Bb j) ≤ ∑ j ∈ s, nsq (Bh j - Bb j) :=
      single_le_sum (f := fun j => nsq (Bh j - Bb j)) (fun i _ => nsq_nonneg _) hj
    have h2 : (ε * nb) ^ 2 * M ≤ (θ * lb) ^ 2 := by
      have a1 : (ε * nb) ^ 2 * M ≤ (ε * nb) ^ 2 * t ^ 2 := mul_le_mul_of_nonneg_left hMt (by positivity)
      have a2 : (ε * nb) * t ≤ θ * lb := by
        rw [hθ]; have := mul_le_mul_of_nonneg_left hnl (mul_nonneg hε ht); nlinarith
      have a3 := pow_le_pow_left₀ (by positivity) a2 2
      calc _ ≤ (ε * nb) ^ 2 * t ^ 2 := a1
        _ = ((ε * nb) * t) ^ 2 := by ring
        _ ≤ _ := a3
    have := one_tri (Bb j) (Bh j - Bb j) lb (θ * lb) 1 hlb (by positivity)
      (by rw [mul_one]; exact hBs j hj) (by rw [mul_one]; linarith)
    rw [show Bb j + (Bh j - Bb j) = Bh j by ring, mul_one] at this
    rw [show lb * (1 + θ) = lb + θ * lb by ring]
    exact this
  -- 4, 5: the two first-order terms
  have T1 : ∑ j ∈ s, nsq (Bh j * (Ah j - Ab j)) ≤ (ε * na * (lb * (1 + θ))) ^ 2 * M := by
    have h := sum_mul_le s Bh (fun j => Ah j - Ab j) _ supB
    have := mul_le_mul_of_nonneg_left eA (show (0 : K) ≤ (lb * (1 + θ)) ^ 2 by positivity)
    rw [show (ε * na * (lb * (1 + θ))) ^ 2 * M = (lb * (1 + θ)) ^ 2 * ((ε * na) ^ 2 * M) by ring]
    linarith
  have T2 : ∑ j ∈ s, nsq (Ab j * (Bh j - Bb j)) ≤ (la * (ε * nb)) ^ 2 * M := by
    have h := sum_mul_le s Ab (fun j => Bh j - Bb j) _ hAs
    have := mul_le_mul_of_nonneg_left eBB (show (0 : K) ≤ la ^ 2 by positivity)
    rw [show (la * (ε * nb)) ^ 2 * M = la ^ 2 * ((ε * nb) ^ 2 * M) by ring]
    linarith
  -- 6: Â∘B̂ − Ā∘B̄
  have hD : ∑ j ∈ s, nsq (Ah j * Bh j - Ab j * Bb j) ≤ (dB ε θ * S) ^ 2 * M := by
    have := sum_tri s (fun j => Bh j * (Ah j - Ab j)) (fun j => Ab j * (Bh j - Bb j)) _ _ M (by positivity)
      (by positivity) T1 T2
    have e : ∀ j, Bh j * (Ah j - Ab j) + Ab j * (Bh j - Bb j) = Ah j * Bh j - Ab j * Bb j := fun j => by ring
    simp only [e] at this
    refine le_trans this (sq_scale_mono (by positivity) ?_ hM)
    rw [hS]; unfold dB
    have : 0 ≤ ε * la * nb * θ := by positivity
    nlinarith
  -- 7: the exact product
  have hC1 : ∑ j ∈ s, nsq (Ab j * Bb j) ≤ (la * nb) ^ 2 * M := by
    have h := sum_mul_le s Ab Bb _ hAs
    have := mul_le_mul_of_nonneg_left hBn (show (0 : K) ≤ la ^ 2 by positivity)
    rw [show (la * nb) ^ 2 * M = la ^ 2 * (nb ^ 2 * M) by ring]
    linarith
  have hC2 : ∑ j ∈ s, nsq (Ab j * Bb j) ≤ (na * lb) ^ 2 * M := by
    have h := sum_mul_le s Bb Ab _ hBs
    have := mul_le_mul_of_nonneg_left hAn (show (0 : K) ≤ lb ^ 2 by positivity)
    rw [show (na * lb) ^ 2 * M = lb ^ 2 * (na ^ 2 * M) by ring]
    simp only [mul_comm (Bb _) (Ab _)] at h
    linarith
  have hCS : ∑ j ∈ s, nsq (Ab j * Bb j) ≤ (S / 2) ^ 2 * M := by
    rcases le_total (la * nb) (na * lb) with h | h
    · exact le_trans hC1 (sq_scale_mono (by positivity) (by rw [hS]; linarith) hM)
    · exact le_trans hC2 (sq_scale_mono (by positivity) (by rw [hS]; linarith) hM)
  refine ⟨hCS, ?_⟩
  have hd0 := dB_nonneg hε hθ0
  -- 8: size of Â∘B̂
  have hAB : ∑ j ∈ s, nsq (Ah j * Bh j) ≤ (S / 2 + dB ε θ * S) ^ 2 * M := by
    have := sum_tri s (fun j => Ab j * Bb j) (fun j => Ah j * Bh j - Ab j * Bb j) _ _ M (by positivity)
      (by positivity) hCS hD
    simp only [add_sub_cancel] at this
    exact this
  -- 9: fresh error of the product
  have hF : ∑ j ∈ s, nsq (Ch j - Ah j * Bh j) ≤ (μ * (S / 2 + dB ε θ * S)) ^ 2 * M := by
    have h1 : ∑ j ∈ s, nsq (Ch j - Ah j * Bh j) ≤ μ ^ 2 * ∑ j ∈ s, nsq (Ah j * Bh j) := by
      rw [mul_sum]
      apply sum_le_sum
      intro j hj
      rw [nsq_mul]; exact hC j hj
    have := mul_le_mul_of_nonneg_left hAB (show (0 : K) ≤ μ ^ 2 by positivity)
    rw [show (μ * (S / 2 + dB ε θ * S)) ^ 2 * M = μ ^ 2 * ((S / 2 + dB ε θ * S) ^ 2 * M) by ring]
    linarith
  -- 10
  have := sum_tri s (fun j => Ch j - Ah j * Bh j) (fun j => Ah j * Bh j - Ab j * Bb j) _ _ M (by positivity)
    (by positivity) hF hD
  simp only [sub_add_sub_cancel] at this
  refine le_trans this (le_of_eq ?_)
  unfold fB; ring

end Spq.ProdErr
