/-
  C01 rounding budget: the "52-bit budget" of the property text bounds the coefficients of the exact product:
      |(a ⊛ b)_k| ≤ ‖a‖₁·‖b‖∞   and   |(a ⊛ b)_k| ≤ ‖a‖∞·‖b‖₁     (negacyclic product of `N` coefficients).
-/
import SpqProofs.Lemmas.ModuleVec
import Mathlib.Algebra.Order.Field.Basic
import Mathlib.Algebra.Order.BigOperators.Ring.Finset
import Mathlib.Algebra.Order.BigOperators.Group.Finset
import Mathlib.Tactic.Linarith
set_option linter.unusedSectionVars false
namespace Spq.ProdErr
open Finset Spq Spq.Module
variable {K : Type} [Field K] [LinearOrder K] [IsStrictOrderedRing K]

/-- for a fixed `i`, exactly one `j` contributes to coefficient `k` -/
theorem nmul_inner (N i k : ℕ) (hi : i < N) (hk : k < N) (x : K) (g : ℕ → K) :
    ∑ j ∈ range N, ((if i + j = k then x * g j else 0) - (if i + j = k + N then x * g j else 0)) =
      if i ≤ k then x * g (k - i) else -(x * g (k + N - i)) := by
  by_cases h : i ≤ k
  · rw [if_pos h, sum_eq_single (k - i)]
    · have h1 : i + (k - i) = k := by omega
      have h2 : ¬ (i + (k - i) = k + N) := by omega
      rw [if_pos h1, if_neg h2, sub_zero]
    · intro j hj hne
      have := mem_range.1 hj
      have h1 : ¬ (i + j = k) := by omega
      have h2 : ¬ (i + j = k + N) := by omega
      rw [if_neg h1, if_neg h2, sub_zero]
    · intro h'; exact absurd (mem_range.2 (by omega)) h'
  · rw [if_neg h, sum_eq_single (k + N - i)]
    · have h1 : ¬ (i + (k + N - i) = k) := by omega
      have h2 : i + (k + N - i) = k + N := by omega
      rw [if_neg h1, if_pos h2, zero_sub]
    · intro j hj hne
      have := mem_range.1 hj
      have h1 : ¬ (i + j = k) := by omega
      have h2 : ¬ (i + j = k + N) := by omega
      rw [if_neg h1, if_neg h2, sub_zero]
    · intro h'; exact absurd (mem_range.2 (by omega)) h'

/-- `|(f ⊛ g)_k| ≤ ‖f‖₁·‖g‖∞` -/
theorem nmulF_abs_le (N k : ℕ) (hk : k < N) (f g : ℕ → K) (B : K) (hg : ∀ j, j < N → |g j| ≤ B) :
    |nmulF N f g k| ≤ (∑ i ∈ range N, |f i|) * B := by
  unfold nmulF
  refine le_trans (abs_sum_le_sum_abs _ _) ?_
  rw [sum_mul]
  apply sum_le_sum
  intro i hi
  have hi' := mem_range.1 hi
  rw [nmul_inner N i k hi' hk (f i) g]
  split
  · rw [abs_mul]
    exact mul_le_mul_of_nonneg_left (hg _ (by omega)) (abs_nonneg _)
  · rw [abs_neg, abs_mul]
    exact mul_le_mul_of_nonneg_left (hg _ (by omega)) (abs_nonneg _)

/-- coefficient `k` of `nmul N a b`, cast to `K` -/
theorem nmul_coef_cast (N k : ℕ) (hk : k < N) (a b : Array Int) :
    (((nmul N a b).getD k 0 : Int) : K) =
      nmulF N (fun t => ((a.getD t 0 : Int) : K)) (fun t => ((b.getD t 0 : Int) : K)) k := by
  have h1 : (nmul N a b).getD k 0 = nmulF N (icoef a) (icoef b) k := icoef_nmul N a b k hk
  rw [h1]
  exact map_nmulF (Int.castRingHom K) N (icoef a) (icoef b) k

/-- **the 52-bit budget bounds the exact coefficients** -/
theorem nmul_coef_le (N k : ℕ) (hk : k < N) (a b : Array Int) (ba bb : K)
    (ha : ∀ t, t < N → |((a.getD t 0 : Int) : K)| ≤ ba) (hb : ∀ t, t < N → |((b.getD t 0 : Int) : K)| ≤ bb) :
    |(((nmul N a b).getD k 0 : Int) : K)| ≤
      min ((∑ t ∈ range N, |((a.getD t 0 : Int) : K)|) * bb) (ba * ∑ t ∈ range N, |((b.getD t 0 : Int) : K)|) := by
  apply le_min
  · rw [nmul_coef_cast N k hk]
    exact nmulF_abs_le N k hk _ _ bb hb
  · rw [nmul_coef_cast N k hk, nmulF_comm, mul_comm]
    exact nmulF_abs_le N k hk _ _ ba ha

/-- `‖x‖₁ ≤ N·‖x‖∞` -/
theorem n1_le (N : ℕ) (x : Array Int) (bx : K) (hx : ∀ t, t < N → |((x.getD t 0 : Int) : K)| ≤ bx) :
    ∑ t ∈ range N, |((x.getD t 0 : Int) : K)| ≤ N * bx := by
  have := sum_le_sum (s := range N) (f := fun t => |((x.getD t 0 : Int) : K)|) (g := fun _ => bx)
    (fun t ht => hx t (mem_range.1 ht))
  rw [sum_const, card_range, nsmul_eq_mul] at this
  exact this

end Spq.ProdErr
