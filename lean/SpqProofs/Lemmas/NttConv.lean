/-
  One lane, symbolic metadata: the model's forward transform evaluates the input polynomial at the odd powers
  of the root (bit-reversed order), and pointwise products of transforms invert to the negacyclic convolution.
-/
import SpqProofs.Lemmas.NttEval
import SpqProofs.Lemmas.NttRound

namespace Spq.Q120Ntt
open Finset

/-- `x^(2^k) mod q` by `k` modular squarings -/
def sqPow (q x : Nat) : Nat → Nat
  | 0 => x % q
  | k+1 => (sqPow q x k * sqPow q x k) % q

theorem cast_sqPow (q x k : Nat) : ((sqPow q x k : Nat) : ZMod q) = ((x : Nat) : ZMod q) ^ (2 ^ k) := by
  induction k with
  | zero => simp [sqPow]
  | succ k ih => simp only [sqPow]; rw [ZMod.natCast_mod, Nat.cast_mul, ih, pow_succ, pow_mul]; ring

theorem cast_neg_one_of_sqPow {q x k : Nat} (hq : 1 < q) (h : sqPow q x k = q - 1) :
    ((x : Nat) : ZMod q) ^ (2 ^ k) = -1 := by
  rw [← cast_sqPow, h, Nat.cast_sub (by omega), ZMod.natCast_self]; simp

/-- **evaluation form of one lane**: output cell `j` is the value of the input polynomial (residues mod q) at
    `w^(2*brev_k(j)+1)` -/
theorem eval_lane (q Ω k : Nat) (hq : 1 < q) (hk : k ≠ 0) (lev : Array Level) (R : Reduc) (B' : Nat)
    (hc : certOK q R (fwdDescs k lev) W64 = some B')
    (hprim : sqPow q (omegaN q Ω k) k = q - 1)
    (x : Array Nat) (hx : x.size = 2 ^ k) (hlt : ∀ i < 2 ^ k, rd x i < W64) :
    ∀ j < 2 ^ k,
      ((rd (nttLane k lev R (tableFwd q Ω k lev) x) j : Nat) : ZMod q)
        = ∑ i ∈ range (2 ^ k), ((rd x i : Nat) : ZMod q) * ((omegaN q Ω k : Nat) : ZMod q) ^ (i * (2 * brev k j + 1)) := by
  intro j hj
  obtain ⟨_, _, f3⟩ := nttLane_refines q Ω k hq hk lev R B' hc x hx hlt
  rw [(f3 j hj).2, exNtt_eval _ k (cast_neg_one_of_sqPow hq hprim) _ j hj]

/-- **convolution theorem for one lane**: if `p ≡ ntt x ⊙ ntt y (mod q)` cell by cell, then
    `intt p ≡ x * y mod (X^n + 1, q)` coefficient by coefficient -/
theorem mul_lane (q Ω k : Nat) (hq : 1 < q) (hk : k ≠ 0)
    (levF levI : Array Level) (RF RI : Reduc) (BF BI : Nat)
    (hcF : certOK q RF (fwdDescs k levF) W64 = some BF)
    (hcI : certOK q RI (invDescs k levI) W64 = some BI)
    (hroot : (omegaN q Ω k * modqPow (omegaN q Ω k) (-1) q) % q = 1)
    (hninv : (2 ^ k % q * modqPow (2 ^ k) (-1) q) % q = 1)
    (hprim : sqPow q (omegaN q Ω k) k = q - 1)
    (x y p : Array Nat) (hx : x.size = 2 ^ k) (hy : y.size = 2 ^ k) (hp : p.size = 2 ^ k)
    (hxl : ∀ i < 2 ^ k, rd x i < W64) (hyl : ∀ i < 2 ^ k, rd y i < W64) (hpl : ∀ i < 2 ^ k, rd p i < W64)
    (hprod : ∀ i < 2 ^ k, rd p i % q
      = (rd (nttLane k levF RF (tableFwd q Ω k levF) x) i * rd (nttLane k levF RF (tableFwd q Ω k levF) y) i) % q) :
    ∀ i < 2 ^ k,
      ((rd (inttLane k levI RI (tableInv q Ω k levI) p) i : Nat) : ZMod q)
        = nmul (2 ^ k) (fun t => ((rd x t : Nat) : ZMod q)) (fun t => ((rd y t : Nat) : ZMod q)) i := by
  intro i hi
  obtain ⟨_, _, fx⟩ := nttLane_refines q Ω k hq hk levF RF BF hcF x hx hxl
  obtain ⟨_, _, fy⟩ := nttLane_refines q Ω k hq hk levF RF BF hcF y hy hyl
  obtain ⟨_, _, ip⟩ := inttLane_refines q Ω k hq hk levI RI BI hcI p hp hpl
  have hw := cast_neg_one_of_sqPow hq hprim
  have hwv : ((omegaN q Ω k : Nat) : ZMod q) * ((modqPow (omegaN q Ω k) (-1) q : Nat) : ZMod q) = 1 := by
    rw [← Nat.cast_mul]; exact cast_one_of_mod hq hroot
  have hn : (2 : ZMod q) ^ k * ((modqPow (2 ^ k) (-1) q : Nat) : ZMod q) = 1 := by
    have := cast_one_of_mod hq hninv
    rw [Nat.cast_mul, ZMod.natCast_mod, Nat.cast_pow] at this
    simpa using this
  rw [(ip i hi).2]
  have hcongr : ∀ t < 2 ^ k, (fun j => ((rd p j : Nat) : ZMod q)) t
      = exNtt ((omegaN q Ω k : Nat) : ZMod q) k
          (nmul (2 ^ k) (fun t => ((rd x t : Nat) : ZMod q)) (fun t => ((rd y t : Nat) : ZMod q))) t := by
    intro t ht
    rw [exNtt_nmul _ k hw _ _ t ht, ← (fx t ht).2, ← (fy t ht).2, ← Nat.cast_mul]
    exact cast_of_mod_eq (hprod t ht)
  have := exAll_congr (2 ^ k)
    (invLSteps k levI (tableInv q Ω k levI) ((modqPow (omegaN q Ω k) (-1) q : Nat) : ZMod q)
      ((modqPow (2 ^ k) (-1) q : Nat) : ZMod q))
    (dvd_of_mem_invLSteps k levI _ _ _) _ _ hcongr i hi
  rw [exAll_invLSteps, exAll_invLSteps] at this
  rw [this, exIntt_exNtt _ _ _ k hwv hn]

end Spq.Q120Ntt
