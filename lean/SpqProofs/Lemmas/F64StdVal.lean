/-
  Exact rational value of a binary64 pattern (`val`), finiteness (`Fin64`), the normal range of exact results
  (`NormalRange`) and the dictionary between `decode` triples and rationals (`sv`).
-/
import SpqProofs.Lemmas.F64Arith
import Mathlib.Algebra.Order.Field.Rat
import Mathlib.Algebra.Order.Field.Power
import Mathlib.Algebra.Order.Ring.Abs
import Mathlib.Data.Rat.Cast.Order
import Mathlib.Tactic.Linarith
import Mathlib.Tactic.Ring
import Mathlib.Tactic.Positivity
import Mathlib.Tactic.NormNum
import Mathlib.Tactic.FieldSimp
import Mathlib.Tactic.LinearCombination

namespace Spq.F64

/-- exact rational value of a (finite) pattern: `toScaled b / 2^1074` -/
def val (b : Nat) : ℚ := (toScaled b : ℚ) / 2 ^ 1074

/-- a finite binary64 pattern -/
def Fin64 (b : Nat) : Prop := b < 18446744073709551616 ∧ isFinite b = true

instance (b : Nat) : Decidable (Fin64 b) := by unfold Fin64; infer_instance

/-- the unit roundoff `2^-53` -/
def u64 : ℚ := 2 ^ (-53 : ℤ)
/-- the smallest normal number `2^-1022` -/
def minNormal : ℚ := 2 ^ (-1022 : ℤ)
/-- the overflow threshold of round-to-nearest: `2^1024·(1 − 2^-54) = (2^54 − 1)·2^970` -/
def ovfThr : ℚ := (2 ^ 54 - 1) * 2 ^ (970 : ℤ)
/-- half of the smallest subnormal: `2^-1075` -/
def halfMinSub : ℚ := 2 ^ (-1075 : ℤ)

/-- no overflow after rounding -/
def NoOvf (q : ℚ) : Prop := |q| < ovfThr
/-- an exact result that neither overflows nor falls into the subnormal range (or is 0) -/
def NormalRange (q : ℚ) : Prop := q = 0 ∨ (minNormal ≤ |q| ∧ |q| < ovfThr)

theorem NormalRange.noOvf {q : ℚ} (h : NormalRange q) : NoOvf q := by
  rcases h with rfl | ⟨_, h⟩
  · unfold NoOvf ovfThr; rw [abs_zero]; positivity
  · exact h

theorem ovfThr_eq : ovfThr = 2 ^ (1024 : ℤ) * (1 - 2 ^ (-54 : ℤ)) := by
  unfold ovfThr
  have h1 : (2 : ℚ) ^ (1024 : ℤ) = 2 ^ 54 * 2 ^ (970 : ℤ) := by
    rw [← zpow_natCast, ← zpow_add₀ (by norm_num)]; norm_num
  have h2 : (2 : ℚ) ^ 54 * 2 ^ (-54 : ℤ) = 1 := by
    rw [← zpow_natCast, ← zpow_add₀ (by norm_num)]; norm_num
  rw [h1]
  linear_combination (-(2 : ℚ) ^ (970 : ℤ)) * h2

/-- signed value of a decoded triple -/
def sv (s : Bool) (m : Nat) (e : Int) : ℚ := (sI s m : ℚ) * 2 ^ e

theorem sI_abs (s : Bool) (m : Nat) : |((sI s m : ℤ) : ℚ)| = (m : ℚ) := by
  cases s <;> simp [sI]

theorem sv_abs (s : Bool) (m : Nat) (e : Int) : |sv s m e| = (m : ℚ) * 2 ^ e := by
  unfold sv
  rw [abs_mul, sI_abs, abs_of_pos (zpow_pos (by norm_num) e)]

theorem sv_zero (s : Bool) (e : Int) : sv s 0 e = 0 := by
  cases s <;> simp [sv, sI]

theorem val_of_decode {b : Nat} {s : Bool} {m : Nat} {e : Int} (h : decode b = ⟨s, m, e⟩) :
    val b = sv s m e := by
  have he : -1074 ≤ e := by have := decode_e_ge b; rw [h] at this; exact this
  unfold val sv
  rw [toScaled_of_decode' h]
  obtain ⟨n, hn⟩ : ∃ n : Nat, e + 1074 = (n : Int) := ⟨(e + 1074).toNat, by omega⟩
  have e1 : e = (n : Int) - 1074 := by omega
  rw [hn, Int.toNat_natCast, e1]
  push_cast
  rw [zpow_sub₀ (by norm_num), zpow_natCast]
  rw [mul_div_assoc]
  norm_cast

theorem val_decode (b : Nat) : val b = sv (decode b).neg (decode b).m (decode b).e :=
  val_of_decode rfl

end Spq.F64
