/-
  The repaired `reim_to_znx64_avx2_bnd63_fma` (offset = divisor·(0.5 − 2^-54) = pred(d/2)): the contract
  `2·|r·d − x| ≤ d` holds unconditionally on |x/d| < 2^52.
-/
import SpqProofs.Lemmas.ConvBnd63
import SpqProofs.Lemmas.ConvBnd63Core

namespace Spq.Conv
open Spq.F64

theorem decode_D_PRED_HALF : decode D_PRED_HALF = ⟨false, 9007199254740991, -54⟩ := by
  have := decode_pos_pattern 1021 4503599627370495 (by norm_num) (by norm_num) (by norm_num)
  simpa using this

/-- `offset = divisor * (0.5 - 2^-54)` is exact: significand `2^53 − 1`, exponent `j − 54`, sign bit clear -/
theorem bnd63Offset_pow2 (j : Int) (hj1 : -1020 ≤ j) (hj2 : j ≤ 1023) :
    bnd63Offset (pow2 j) = (j + 1021).toNat * 4503599627370496 + 4503599627370495 := by
  unfold bnd63Offset
  rw [mul_of_decode (decode_pow2 j (by omega) hj2) decode_D_PRED_HALF]
  have hpw : 4503599627370496 * 9007199254740991 = 9007199254740991 * 2 ^ 52 := by norm_num
  rw [hpw, pack_exact_pattern (false != false) 9007199254740991 52 (j - 52 + -54) 0 (by norm_num) (by norm_num)
    (by push_cast; omega) (by push_cast; omega)]
  unfold normPat sgn
  simp only [bne_self_eq_false, Bool.false_eq_true, if_false, pow_zero, Nat.mul_one, Nat.zero_add]
  have e1 : (j - 52 + -54 + ((52 : Nat) : Int) - ((0 : Nat) : Int) + 1075).toNat = (j + 1021).toNat := by
    push_cast; congr 1; omega
  rw [e1]

/-- the sum computed by the repaired kernel: `x + sign(x)·pred(d/2) = pack sx (X + H') e` in the common unit `2^e`,
    `e = min ex (j−54)`, `X = mx·2^k1`, `H' = (2^53−1)·2^(dd−54)`, `dd = j − e ≥ 54` -/
theorem bnd63_sum (j : Int) (hj1 : -1020 ≤ j) (hj2 : j ≤ 971) (x : Nat) (hx64 : x < 18446744073709551616)
    {sx : Bool} {mx : Nat} {ex : Int} (hx : decode x = ⟨sx, mx, ex⟩) (he0 : -1074 ≤ ex) :
    ∃ (e : Int) (k1 dd : Nat), e = min ex (j - 54) ∧ ex = e + k1 ∧ j = e + dd ∧ 54 ≤ dd ∧ -1074 ≤ e ∧
      x &&& SIGN_MASK = sgn sx ∧
      add x ((x &&& SIGN_MASK) ||| bnd63Offset (pow2 j)) = pack sx (mx * 2 ^ k1 + 9007199254740991 * 2 ^ (dd - 54)) e ∧
      toScaled x = sI sx (mx * 2 ^ k1) * 2 ^ ((e + 1074).toNat) ∧
      toScaled (pow2 j) = ((2 ^ dd : Nat) : Int) * 2 ^ ((e + 1074).toNat) := by
  have hsx : signBit x = sx := by rw [← decode_neg_eq, hx]
  have hasign : x &&& SIGN_MASK = sgn sx := by rw [and_sign_eq_sgn x hx64, hsx]
  have hoff := bnd63Offset_pow2 j hj1 (by omega)
  have hcpat : (x &&& SIGN_MASK) ||| bnd63Offset (pow2 j)
      = sgn sx + (j + 1021).toNat * 4503599627370496 + 4503599627370495 := by
    rw [hasign, hoff, or_sign sx _ (by omega)]; omega
  have hc : decode ((x &&& SIGN_MASK) ||| bnd63Offset (pow2 j)) = ⟨sx, 9007199254740991, j - 54⟩ := by
    rw [hcpat, decode_normal_pattern sx (j + 1021).toNat 4503599627370495 (by omega) (by omega) (by norm_num)]
    have e2 : (((j + 1021).toNat : Nat) : Int) - 1075 = j - 54 := by omega
    rw [e2]
  obtain ⟨e, he⟩ : ∃ e, e = min ex (j - 54) := ⟨_, rfl⟩
  obtain ⟨k1, hk1⟩ : ∃ k1 : Nat, ex = e + k1 := ⟨(ex - e).toNat, by omega⟩
  obtain ⟨dd, hdd⟩ : ∃ dd : Nat, j = e + dd := ⟨(j - e).toNat, by omega⟩
  refine ⟨e, k1, dd, he, hk1, hdd, by omega, by omega, hasign, ?_, ?_, ?_⟩
  · rw [add_of_decode hx hc, ← he]
    have h1 : (ex - e).toNat = k1 := by omega
    have h2 : (j - 54 - e).toNat = dd - 54 := by omega
    rw [h1, h2]
    have e1 : sI sx mx * (2 : Int) ^ k1 = sI sx (mx * 2 ^ k1) := by
      have := sI_mul_nat sx mx (2 ^ k1); push_cast at this; exact this
    have e2 : sI sx 9007199254740991 * (2 : Int) ^ (dd - 54) = sI sx (9007199254740991 * 2 ^ (dd - 54)) := by
      have := sI_mul_nat sx 9007199254740991 (2 ^ (dd - 54)); push_cast at this; exact this
    rw [e1, e2, sI_add, packSigned_sI sx _ (by positivity)]
  · rw [toScaled_split hx e k1 hk1 (by omega)]
    congr 1
    have := sI_mul_nat sx mx (2 ^ k1); push_cast at this; exact this
  · rw [toScaled_pow2 j (by omega) (by omega)]
    push_cast
    rw [← pow_add]
    have : (j + 1074).toNat = dd + (e + 1074).toNat := by omega
    rw [this]

/-- the bit-level extraction applied to `a = pack sx V e` (`V` on the grid `2^k`, `k ≤ dd = j − e`):
    the lane returns `±⌊rne V k / 2^(dd−k)⌋`, also when the rounding carries into the next binade -/
theorem bnd63_lane_of_sum (j : Int) (hj1 : -1020 ≤ j) (hj2 : j ≤ 971) (x off : Nat) (sx : Bool) (V : Nat) (e : Int)
    (dd k : Nat) (hjd : j = e + dd) (he : -1074 ≤ e) (hk : k ≤ dd)
    (hlo : 4503599627370496 * 2 ^ k ≤ V) (hhi : V < 9007199254740992 * 2 ^ k)
    (hcarry : rne V k = 9007199254740992 → k < dd)
    (hasign : x &&& SIGN_MASK = sgn sx) (hadd : add x ((x &&& SIGN_MASK) ||| off) = pack sx V e) :
    toZnx64Bnd63Lane off (bnd63DiviBits (pow2 j)) x = sI sx (rne V k / 2 ^ (dd - k)) := by
  have hdb : bnd63DiviBits (pow2 j) = (j + 1075).toNat * 4503599627370496 := by
    rw [bnd63DiviBits_pow2 j (by omega) hj2]; unfold pow2; congr 2; omega
  have hround := pack_round sx V e k hlo hhi (by omega)
  obtain ⟨hq1, hq2⟩ := rne_range hlo hhi
  have c4 : (j + 1075).toNat ≤ 2046 := by omega
  rcases Nat.lt_or_ge (rne V k) 9007199254740992 with hlt | hge
  · have hapat : pack sx V e = normPat sx (e + k + 1075).toNat (rne V k - 4503599627370496) := by
      rw [hround, encode_normal sx _ _ hq1 hlt (by omega)]; unfold normPat; rfl
    have hex := bnd63_extract sx (e + k + 1075).toNat (rne V k - 4503599627370496) (j + 1075).toNat
      (by omega) (by omega) (by omega) c4 (by omega)
    simp only [] at hex
    unfold toZnx64Bnd63Lane
    simp only []
    rw [hadd, hapat, hasign, hdb, hex]
    have h1 : 4503599627370496 + (rne V k - 4503599627370496) = rne V k := by omega
    have h2 : (j + 1075).toNat - (e + k + 1075).toNat = dd - k := by omega
    rw [h1, h2]
  · have hqe : rne V k = 9007199254740992 := by omega
    have hkdd := hcarry hqe
    have hapat : pack sx V e = normPat sx (e + k + 1 + 1075).toNat 0 := by
      rw [hround, hqe, encode_carry sx _ (by omega)]; unfold normPat; rw [Nat.add_zero]
    have hex := bnd63_extract sx (e + k + 1 + 1075).toNat 0 (j + 1075).toNat
      (by omega) (by omega) (by norm_num) c4 (by omega)
    simp only [] at hex
    unfold toZnx64Bnd63Lane
    simp only []
    rw [hadd, hapat, hasign, hdb, hex, hqe]
    have h2 : (j + 1075).toNat - (e + k + 1 + 1075).toNat = dd - k - 1 := by omega
    rw [h2, Nat.add_zero]
    have hsucc : dd - k - 1 + 1 = dd - k := by omega
    have h3 : 2 ^ (dd - k) = 2 ^ (dd - k - 1) * 2 := by rw [← pow_succ, hsucc]
    have h4 : (9007199254740992 : Nat) = 4503599627370496 * 2 := by norm_num
    have h5 : 9007199254740992 / 2 ^ (dd - k) = 4503599627370496 / 2 ^ (dd - k - 1) := by
      rw [h3, h4, Nat.mul_div_mul_right _ _ (by norm_num)]
    rw [h5]

/-- Repaired `reim_to_znx64_avx2_bnd63_fma`, one lane: for every `x` with `|x/d| < 2^52` the result is within 1/2
    of `x/d` (ties included) -/
theorem toZnx64Bnd63Lane_spec (j : Int) (hj1 : -1020 ≤ j) (hj2 : j ≤ 971) (x : Nat)
    (hx64 : x < 18446744073709551616)
    (hdom : |toScaled x| < 4503599627370496 * toScaled (pow2 j)) :
    2 * |toZnx64Bnd63Lane (bnd63Offset (pow2 j)) (bnd63DiviBits (pow2 j)) x * toScaled (pow2 j) - toScaled x|
      ≤ toScaled (pow2 j) := by
  obtain ⟨sx, mx, ex, hx, hmx, he0, he1⟩ := exists_decode x
  obtain ⟨e, k1, dd, _, hk1, hjd, hdd, hee, hasign, hadd, hxs, hds⟩ := bnd63_sum j hj1 hj2 x hx64 hx he0
  obtain ⟨W, hW⟩ : ∃ W : Int, W = 2 ^ ((e + 1074).toNat) := ⟨_, rfl⟩
  rw [← hW] at hxs hds
  have hWpos : 0 < W := by rw [hW]; positivity
  -- domain in the common unit
  have hXdom : mx * 2 ^ k1 < 4503599627370496 * 2 ^ dd := by
    rw [hxs, hds, abs_sI_mul _ _ _ (le_of_lt hWpos), ← mul_assoc] at hdom
    have := lt_of_mul_lt_mul_right hdom (le_of_lt hWpos)
    exact_mod_cast this
  obtain ⟨hD, hDh⟩ := divisor_pows dd hdd
  have hδpos : 0 < 2 ^ (dd - 54) := by positivity
  obtain ⟨V, hV⟩ : ∃ V, V = mx * 2 ^ k1 + 9007199254740991 * 2 ^ (dd - 54) := ⟨_, rfl⟩
  have hVge : 4503599627370496 ≤ V := by rw [hV]; omega
  obtain ⟨k, hlo, hhi⟩ := exists_binade V hVge
  rw [hV] at hlo
  obtain ⟨hk, hup, hlow⟩ := core63 mx k1 dd k hmx hdd hXdom hlo
  rw [← hV] at hlo hup hlow hadd
  -- a carry can only happen strictly below the divisor's grid
  have hcarry : rne V k = 9007199254740992 → k < dd := by
    intro hq
    by_contra hc
    have hkd : k = dd := by omega
    subst hkd
    have hle : V ≤ 4503599627370497 * 2 ^ k := by rw [hV]; omega
    have := rne_le hle
    omega
  rw [bnd63_lane_of_sum j hj1 hj2 x _ sx V e dd k hjd hee hk hlo hhi hcarry hasign hadd, hxs, hds]
  obtain ⟨R, hR⟩ : ∃ R, R = rne V k / 2 ^ (dd - k) := ⟨_, rfl⟩
  rw [← hR] at hup hlow ⊢
  obtain ⟨X, hX⟩ : ∃ X, X = mx * 2 ^ k1 := ⟨_, rfl⟩
  rw [← hX] at hup hlow ⊢
  have hfac : sI sx R * (((2 ^ dd : Nat) : Int) * W) - sI sx X * W = (sI sx R * ((2 ^ dd : Nat) : Int) - sI sx X * 1) * W := by ring
  rw [hfac, abs_mul, abs_of_pos hWpos, sI_mul_sub, ← mul_assoc]
  apply mul_le_mul_of_nonneg_right _ (le_of_lt hWpos)
  obtain ⟨P, hP⟩ : ∃ P, P = R * 2 ^ dd := ⟨_, rfl⟩
  rw [← hP] at hup hlow
  have h1 : ((P : Nat) : Int) = (R : Int) * ((2 ^ dd : Nat) : Int) := by rw [hP]; push_cast; rfl
  rw [← h1]
  have hupI : (P : Int) ≤ (X : Int) + ((2 ^ (dd - 1) : Nat) : Int) := by exact_mod_cast hup
  have hlowI : (X : Int) ≤ (P : Int) + ((2 ^ (dd - 1) : Nat) : Int) := by exact_mod_cast hlow
  have hDI : ((2 ^ dd : Nat) : Int) = 2 * ((2 ^ (dd - 1) : Nat) : Int) := by exact_mod_cast hD
  rw [hDI]
  rcases abs_cases ((P : Int) - (X : Int) * 1) with ⟨h, _⟩ | ⟨h, _⟩ <;> rw [h] <;> linarith

end Spq.Conv
