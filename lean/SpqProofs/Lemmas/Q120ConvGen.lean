/-
  Facts about the constants READ FROM THE CODE (lean/Gen/Q120Consts.lean) that the conversion
  theorems of C10 need, by kernel evaluation; and the element-wise description of the vector forms
  of the conversions (what the driver runs).
-/
import SpqProofs.Lemmas.Q120Crt
import Gen.Q120Consts
namespace Spq.Q120

/-- the primes and CRT constants of the current build -/
def curParams : Q120Params := ⟨Gen.q120_q, Gen.q120_crt⟩

/-- `Qk_CRT_CST ≡ (Q/q_k)^{-1} (mod q_k)`, `Q` odd, sizes fit (see `crtOK`) -/
theorem crtOK_current : crtOK curParams = true := by decide +kernel
/-- `Q > 2^64`: every int64 is a centered representative -/
theorem bigQ_gt_current : 18446744073709551616 < bigQN curParams := by decide +kernel
/-- `0 < q_k ≤ 2^30` (what `add_bbb` needs not to wrap) -/
theorem primes_small_current : ∀ k, k < 4 → 0 < curParams.q k ∧ curParams.q k ≤ 1073741824 := by
  decide +kernel

theorem getD_ofFn' {α : Type} {n : Nat} (f : Fin n → α) (d : α) (j : Nat) (h : j < n) :
    (Array.ofFn f).getD j d = f ⟨j, h⟩ := by
  simp [Array.getD, h]

theorem addBbb_getD (p : Q120Params) (nn : Nat) (x y : Array Nat) (i : Nat) (hi : i < 4 * nn) :
    (addBbb p nn x y).getD i 0 = addBbbLane (p.q (i % 4)) (x.getD i 0) (y.getD i 0) := by
  unfold addBbb; rw [getD_ofFn' _ _ i hi]

theorem addCcc_getD (p : Q120Params) (nn : Nat) (x y : Array Nat) (i : Nat) (hi : i < 8 * nn) :
    (addCcc p nn x y).getD i 0 = addCccWord (p.q ((i % 8) / 2)) (x.getD i 0) (y.getD i 0) := by
  unfold addCcc; rw [getD_ofFn' _ _ i hi]

/-- words `2m`, `2m+1` of the output are the pair computed from lane `m` -/
theorem cFromB_getD (p : Q120Params) (nn : Nat) (x : Array Nat) (m : Nat) (hm : m < 4 * nn) :
    (cFromB p nn x).getD (2 * m) 0 = (cFromBLane (p.q (m % 4)) (x.getD m 0)).1
    ∧ (cFromB p nn x).getD (2 * m + 1) 0 = (cFromBLane (p.q (m % 4)) (x.getD m 0)).2 := by
  unfold cFromB
  rw [getD_ofFn' _ _ (2 * m) (by omega), getD_ofFn' _ _ (2 * m + 1) (by omega)]
  have e1 : 2 * m % 8 / 2 = m % 4 := by omega
  have e2 : (2 * m + 1) % 8 / 2 = m % 4 := by omega
  have e3 : 2 * m / 2 = m := by omega
  have e4 : (2 * m + 1) / 2 = m := by omega
  have e5 : 2 * m % 2 = 0 := by omega
  have e6 : (2 * m + 1) % 2 ≠ 0 := by omega
  simp only [e1, e2, e3, e4, e5, e6, if_true, if_false, and_self]

theorem bFromZnx64_getD (p : Q120Params) (nn : Nat) (x : Array Int) (i : Nat) (hi : i < 4 * nn) :
    (bFromZnx64 p nn x).getD i 0 = bFromZnx64Lane (p.q (i % 4)) (x.getD (i / 4) 0) := by
  unfold bFromZnx64; rw [getD_ofFn' _ _ i hi]

/-- words `8j+2k`, `8j+2k+1` of the output are the pair of prime `k` computed from `x[j]` -/
theorem cFromZnx64_getD (p : Q120Params) (nn : Nat) (x : Array Int) (j k : Nat) (hj : j < nn) (hk : k < 4) :
    (cFromZnx64 p nn x).getD (8 * j + 2 * k) 0 = (cFromZnx64Lane (p.q k) (x.getD j 0)).1
    ∧ (cFromZnx64 p nn x).getD (8 * j + 2 * k + 1) 0 = (cFromZnx64Lane (p.q k) (x.getD j 0)).2 := by
  unfold cFromZnx64
  rw [getD_ofFn' _ _ (8 * j + 2 * k) (by omega), getD_ofFn' _ _ (8 * j + 2 * k + 1) (by omega)]
  have e1 : (8 * j + 2 * k) % 8 / 2 = k := by omega
  have e2 : (8 * j + 2 * k + 1) % 8 / 2 = k := by omega
  have e3 : (8 * j + 2 * k) / 8 = j := by omega
  have e4 : (8 * j + 2 * k + 1) / 8 = j := by omega
  have e5 : (8 * j + 2 * k) % 2 = 0 := by omega
  have e6 : (8 * j + 2 * k + 1) % 2 ≠ 0 := by omega
  simp only [e1, e2, e3, e4, e5, e6, if_true, if_false, and_self]

theorem bToZnx128Vec_getD (p : Q120Params) (nn : Nat) (x : Array Nat) (j : Nat) (hj : j < nn) :
    (bToZnx128Vec p nn x).getD j 0 =
      bToZnx128 p (x.getD (4 * j) 0) (x.getD (4 * j + 1) 0) (x.getD (4 * j + 2) 0) (x.getD (4 * j + 3) 0) := by
  unfold bToZnx128Vec; rw [getD_ofFn' _ _ j hj]

end Spq.Q120
