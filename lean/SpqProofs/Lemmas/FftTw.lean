/-
  C06: arithmetic of the twiddle exponents: `fracrevbits` is a bit reversal, the entry power of a block, the
  exponents of the 16-point leaf pack.
-/
import SpqProofs.Lemmas.FftAlg
import Spq.Fft
namespace Spq.Fft.Tw
open Spq.Fft Spq.Fft.Alg

theorem frbN_zero (n : ℕ) : frbN n 0 = 0 := by rw [frbN]; simp
theorem frbN_one (n : ℕ) : frbN n 1 = n / 2 := by rw [frbN]; simp
theorem frbN_even (n i : ℕ) (hi : 2 ≤ i) (he : i % 2 = 0) : frbN n i = frbN (n / 2) (i / 2) := by
  rw [frbN]; rw [if_neg (by omega), if_neg (by omega), if_pos he]
theorem frbN_odd (n i : ℕ) (hi : 2 ≤ i) (he : i % 2 = 1) : frbN n i = frbN (n / 2) (i / 2) + n / 2 := by
  rw [frbN]; rw [if_neg (by omega), if_neg (by omega), if_neg (by omega)]
  have : (i - 1) / 2 = i / 2 := by omega
  rw [this]

/-- `fracrevbits(b) = brev_j(b) / 2^j` for `b < 2^j` (scaled by `n`, a multiple of `2^j`) -/
theorem frbN_brev (j : ℕ) : ∀ n b, 2 ^ j ∣ n → b < 2 ^ j → frbN n b * 2 ^ j = n * brev j b := by
  induction j with
  | zero =>
    intro n b _ hb
    have : b = 0 := by simpa using hb
    subst this
    simp [frbN_zero, brev]
  | succ j ih =>
    intro n b hn hb
    obtain ⟨c, hc⟩ := hn
    have hc' : n = 2 * (2 ^ j * c) := by rw [hc, pow_succ]; ring
    have hn2 : n / 2 = 2 ^ j * c := by omega
    have hnn : n = 2 * (n / 2) := by omega
    have hdiv : 2 ^ j ∣ n / 2 := ⟨c, hn2⟩
    have hb2 : b / 2 < 2 ^ j := by rw [pow_succ] at hb; omega
    have IH := ih (n / 2) (b / 2) hdiv hb2
    by_cases h0 : b = 0
    · subst h0; simp [frbN_zero, brev_zero_right]
    by_cases h1 : b = 1
    · subst h1
      rw [frbN_one, brev]
      simp only [Nat.reduceDiv, brev_zero_right, Nat.zero_add, Nat.mul_one, Nat.reduceMod]
      rw [pow_succ]
      calc n / 2 * (2 ^ j * 2) = (2 * (n / 2)) * 2 ^ j := by ring
        _ = n * 2 ^ j := by rw [← hnn]
    by_cases he : b % 2 = 0
    · rw [frbN_even n b (by omega) he, brev, he, pow_succ]
      calc frbN (n / 2) (b / 2) * (2 ^ j * 2) = 2 * (frbN (n / 2) (b / 2) * 2 ^ j) := by ring
        _ = 2 * (n / 2 * brev j (b / 2)) := by rw [IH]
        _ = (2 * (n / 2)) * brev j (b / 2) := by ring
        _ = n * (brev j (b / 2) + 2 ^ j * 0) := by rw [← hnn]; ring
    · rw [frbN_odd n b (by omega) (by omega), brev, show b % 2 = 1 by omega, pow_succ]
      calc (frbN (n / 2) (b / 2) + n / 2) * (2 ^ j * 2)
          = 2 * (frbN (n / 2) (b / 2) * 2 ^ j) + (2 * (n / 2)) * 2 ^ j := by ring
        _ = 2 * (n / 2 * brev j (b / 2)) + (2 * (n / 2)) * 2 ^ j := by rw [IH]
        _ = (2 * (n / 2)) * (brev j (b / 2) + 2 ^ j * 1) := by ring
        _ = n * (brev j (b / 2) + 2 ^ j * 1) := by rw [← hnn]

/-- entry power of the local block `b` (one of `2^j` blocks of size `2^e`) of a region whose own block index at
level `ℓ0` is `b0`: what the C computes as `ss + fracrevbits(b)` -/
theorem block_entry (ℓ0 j e b0 b : ℕ) (hb : b < 2 ^ j) :
    2 ^ e * (1 + 4 * brev ℓ0 b0) + frbN (4 * 2 ^ (ℓ0 + j + e)) b
      = 2 ^ e * (1 + 4 * brev (ℓ0 + j) (b0 * 2 ^ j + b)) := by
  have h1 := frbN_brev j (4 * 2 ^ (ℓ0 + j + e)) b ⟨4 * 2 ^ (ℓ0 + e), by rw [pow_add, pow_add, pow_add]; ring⟩ hb
  have h2 : frbN (4 * 2 ^ (ℓ0 + j + e)) b = 4 * 2 ^ (ℓ0 + e) * brev j b := by
    apply Nat.eq_of_mul_eq_mul_right (Nat.two_pow_pos j)
    rw [h1, pow_add, pow_add, pow_add]; ring
  rw [h2, brev_add ℓ0 j b0 b hb, pow_add]
  ring

theorem brev2_0 (ℓ B : ℕ) : brev (ℓ + 2) (4 * B) = brev ℓ B := by
  rw [show 4 * B = 2 * (2 * B) by ring, brev_even, brev_even]
theorem brev2_1 (ℓ B : ℕ) : brev (ℓ + 2) (4 * B + 1) = brev ℓ B + 2 * 2 ^ ℓ := by
  rw [show 4 * B + 1 = 2 * (2 * B) + 1 by ring, brev_odd, brev_even, pow_succ]; ring
theorem brev2_2 (ℓ B : ℕ) : brev (ℓ + 2) (4 * B + 2) = brev ℓ B + 2 ^ ℓ := by
  rw [show 4 * B + 2 = 2 * (2 * B + 1) by ring, brev_even, brev_odd]
theorem brev2_3 (ℓ B : ℕ) : brev (ℓ + 2) (4 * B + 3) = brev ℓ B + 2 ^ ℓ + 2 * 2 ^ ℓ := by
  rw [show 4 * B + 3 = 2 * (2 * B + 1) + 1 by ring, brev_odd, brev_odd, pow_succ]; ring

/-- the eight exponents of the 16-point leaf pack (`fill_reim_fft16_omegas`, `cplx_fft16_precomp`) are the
twiddle exponents of the four levels inside the leaf -/
theorem leaf_exps (ℓ B s U : ℕ) (hs : s = 16 * (1 + 4 * brev ℓ B)) (hU : U = 4 * 2 ^ (ℓ + 4)) :
    s / 2 = twE ℓ 3 B ∧ s / 4 = twE (ℓ + 1) 2 (2 * B) ∧ s / 8 = twE (ℓ + 2) 1 (4 * B) ∧
    s / 8 + U / 8 = twE (ℓ + 2) 1 (4 * B + 2) ∧ s / 16 = twE (ℓ + 3) 0 (8 * B) ∧
    s / 16 + U / 8 = twE (ℓ + 3) 0 (8 * B + 2) ∧ s / 16 + U / 16 = twE (ℓ + 3) 0 (8 * B + 4) ∧
    s / 16 + U / 8 + U / 16 = twE (ℓ + 3) 0 (8 * B + 6) := by
  have hU' : U = 64 * 2 ^ ℓ := by rw [hU, pow_add]; ring
  have b3_0 : brev (ℓ + 3) (8 * B) = brev ℓ B := by
    rw [show 8 * B = 2 * (4 * B) by ring, brev_even, brev2_0]
  have b3_2 : brev (ℓ + 3) (8 * B + 2) = brev ℓ B + 2 * 2 ^ ℓ := by
    rw [show 8 * B + 2 = 2 * (4 * B + 1) by ring, brev_even, brev2_1]
  have b3_4 : brev (ℓ + 3) (8 * B + 4) = brev ℓ B + 2 ^ ℓ := by
    rw [show 8 * B + 4 = 2 * (4 * B + 2) by ring, brev_even, brev2_2]
  have b3_6 : brev (ℓ + 3) (8 * B + 6) = brev ℓ B + 2 ^ ℓ + 2 * 2 ^ ℓ := by
    rw [show 8 * B + 6 = 2 * (4 * B + 3) by ring, brev_even, brev2_3]
  refine ⟨?_, ?_, ?_, ?_, ?_, ?_, ?_, ?_⟩ <;>
    simp only [twE, brev_even, brev2_0, brev2_2, b3_0, b3_2, b3_4, b3_6, hs, hU', Nat.reducePow] <;> omega

variable {R : Type} [CommRing R]

/-- the twiddle of the odd block `2c+1` is `i` times the twiddle of the even block `2c` -/
theorem twE_odd (ζ I : R) (k ℓ d c : ℕ) (hI : ζ ^ 2 ^ k = I) (hk : k = ℓ + 1 + d + 1) :
    ζ ^ twE (ℓ + 1) d (2 * c + 1) = I * ζ ^ twE (ℓ + 1) d (2 * c) := by
  have : twE (ℓ + 1) d (2 * c + 1) = 2 ^ k + twE (ℓ + 1) d (2 * c) := by
    simp only [twE, brev_odd, brev_even, hk, pow_add]; ring
  rw [this, pow_add, hI]

end Spq.Fft.Tw
