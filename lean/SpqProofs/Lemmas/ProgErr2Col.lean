/-
  C16, binary64 side, products of products, step 3: the METRIC invariant of one DFT-space limb (`LimbMetric`) and one
  output column of the binary64 `vmp_apply_dft_to_dft` in DFT space when the vector operand is only known up to an
  error (`vmpDD_col_stage`; generalises `VmpErr.col_dft_stage`, whose operand is the computed transform of an integer
  vector).
     rows `i < n = min nrows asz`:  ‖limb_i adft − DFT(P_i)‖₂² ≤ δ_i²·m  (finite cells),
     entries `M_ij` in the box with forward flags, flags of the accumulation of column `j` on `adft`  ⇒
     ‖column_j − DFT(Σ_i P_i ⊛ M_ij)‖₂² ≤ (Σ_i rowF μ_n δ_i (ε·nb_i) na_i nb_i ‖P_i‖₁ ‖M_ij‖₁ m)²·m,   μ_n = 3/2·γ(n).
-/
import SpqProofs.Lemmas.ProgErr2Abs
import SpqProofs.Lemmas.ProgErr2Cell
import SpqProofs.Lemmas.ProgErrMod
set_option linter.unusedSectionVars false
namespace Spq.ProgErr2
open Finset Spq Spq.Module Spq.Fft Spq.Fft.Alg Spq.FftErr Spq.F64 Spq.Reim4 Spq.ProdErr Spq.VmpErr Spq.ProgErr Spq.Closed
variable {K : Type} [Field K] [LinearOrder K] [IsStrictOrderedRing K]

/-- **`LimbMetric M d x δ`**: the `N` cells of the DFT-space limb `d` are finite doubles, and their values are within
    `δ` (root-mean-square over the `m = 2^k` complex points: `Σ_j |val(d)_j − DFT(x)_j|² ≤ δ²·m`) of the exact transform
    `DFT(x)_j = V ζ (pkC x m) k 0 j` of the integer polynomial `x` (the exact network of C06Err / C01Err). -/
def LimbMetric (M : F64Mod K) (d : Array ℕ) (x : Array Int) (δ : K) : Prop :=
  0 ≤ δ ∧ (∀ p, p < M.N → Fin64 (d.getD p 0)) ∧
  ∑ j ∈ range (2 ^ M.k), nsq (outC d M.k j - V M.ζ (pkC x (2 ^ M.k)) M.k 0 j) ≤ δ ^ 2 * 2 ^ M.k

theorem LimbMetric.mono {M : F64Mod K} {d : Array ℕ} {x : Array Int} {δ δ' : K} (h : LimbMetric M d x δ)
    (hle : δ ≤ δ') : LimbMetric M d x δ' := by
  obtain ⟨h0, h1, h2⟩ := h
  refine ⟨le_trans h0 hle, h1, le_trans h2 ?_⟩
  exact mul_le_mul_of_nonneg_right (pow_le_pow_left₀ h0 hle 2) (by positivity)

/-- the metric only reads the `N` coefficients of the polynomial -/
theorem LimbMetric.congr {M : F64Mod K} {d : Array ℕ} {x y : Array Int} {δ : K} (h : LimbMetric M d x δ)
    (hxy : ∀ t, t < M.N → x.getD t 0 = y.getD t 0) : LimbMetric M d y δ := by
  obtain ⟨h0, h1, h2⟩ := h
  refine ⟨h0, h1, le_trans (le_of_eq ?_) h2⟩
  have e : ∀ p, p < 2 ^ M.k → (pkC y (2 ^ M.k) p : Cplx K) = pkC x (2 ^ M.k) p := by
    intro p hp
    unfold pkC
    rw [hxy p (by show p < 2 * 2 ^ M.k; omega), hxy (2 ^ M.k + p) (by show 2 ^ M.k + p < 2 * 2 ^ M.k; omega)]
  apply sum_congr rfl
  intro j hj
  rw [V_top M.ζ _ M.k (zeta_neg M.k M.ζ M.hI) j (mem_range.1 hj),
    V_top M.ζ _ M.k (zeta_neg M.k M.ζ M.hI) j (mem_range.1 hj)]
  congr 2
  apply sumTo_congr
  intro i hi
  rw [e i hi]

/-- the exact column `Σ_{i<n} P_i ⊛ M[i][j]` in `ℤ[X]/(X^N + 1)` -/
def colSpecP (N : ℕ) (mat : Array Int) (ncols n : ℕ) (P : ℕ → Array Int) (j : ℕ) : Array Int :=
  isum N n (fun i => nmul N (P i) (matEntry mat ncols N i j))

/-- the DFT-space budget of output column `j`: `Σ_{i<n} rowF μ_n δ_i (ε·nb_i) na_i nb_i ‖P_i‖₁ ‖M_ij‖₁ m` -/
def colDelta (M : F64Mod K) (mat : Array Int) (ncols n : ℕ) (P : ℕ → Array Int) (j : ℕ) (δ na nb : ℕ → K) : K :=
  ∑ i ∈ range n, rowF ((muD n : ℚ) : K) (δ i) (eps K M.k * nb i) (na i) (nb i) (n1 K (P i) M.N)
    (n1 K (matEntry mat ncols M.N i j) M.N) (2 ^ M.k)

theorem n1_nonneg (x : Array Int) (N : ℕ) : (0 : K) ≤ n1 K x N := sum_nonneg (fun _ _ => abs_nonneg _)

theorem colDelta_nonneg (M : F64Mod K) (mat : Array Int) (ncols n : ℕ) (P : ℕ → Array Int) (j : ℕ) (δ na nb : ℕ → K)
    (hδ : ∀ i, i < n → 0 ≤ δ i) (hna : ∀ i, i < n → 0 ≤ na i) (hnb : ∀ i, i < n → 0 ≤ nb i) :
    0 ≤ colDelta M mat ncols n P j δ na nb := by
  apply sum_nonneg
  intro i hi
  have hi' := mem_range.1 hi
  have hμ : (0 : K) ≤ ((muD n : ℚ) : K) := by exact_mod_cast muD_nonneg n
  exact rowF_nonneg hμ (hδ i hi') (mul_nonneg (eps_nonneg M.k) (hnb i hi')) (hna i hi') (hnb i hi') (n1_nonneg _ _)
    (n1_nonneg _ _) (by positivity)

theorem vmpResD_size (M : F64Mod K) (mat : Array Int) (nrows ncols : ℕ) (adft : Array ℕ) (asz rsz : ℕ)
    (hM : ∀ i j, i < nrows → j < ncols → Box M.k (matEntry mat ncols M.N i j)) :
    (vmpResD M.c mat nrows ncols adft asz rsz).size = rsz * M.N := by
  have hnn := p_nn M.c M.k M.cN M.sN M.cNi M.sNi M.ok
  have hT : ∀ row col, row < nrows → col < ncols →
      (matDft (Cfg.parts M.c) mat ncols row col).size = (Cfg.parts M.c).nn := by
    intro row col hr hc
    rw [matDft_stF M.c M.k M.cN M.sN M.cNi M.sNi M.ok, hnn]
    exact stF_size M.c M.k M.cN M.sN M.cNi M.sNi M.ok.cfg _ (hM row col hr hc)
  obtain ⟨s, _⟩ := vmp_layout_g (Cfg.parts M.c) (p_hnn M.c M.k M.cN M.sN M.cNi M.sNi M.ok)
    (p_hblk M.c M.k M.cN M.sN M.cNi M.sNi M.ok) (p_hsm M.c M.k M.cN M.sN M.cNi M.sNi M.ok) mat nrows ncols rsz asz adft
    (fun _ => hT)
  rw [hnn] at s
  exact s

end Spq.ProgErr2
