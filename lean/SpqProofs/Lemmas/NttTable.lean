/-
  The model's twiddle tables (`tableFwd`, `tableInv`): where each level's words sit and what they are —
  packed residues of the expected powers of the root.  Gives the `TwSpec` hypotheses of `cert_sound`.
-/
import SpqProofs.Lemmas.NttSched

namespace Spq.Q120Ntt

/-! ### powers -/

theorem rd_push (acc : Array Nat) (v j : Nat) :
    rd (acc.push v) j = if j < acc.size then rd acc j else if j = acc.size then v else 0 := by
  by_cases h1 : j < acc.size
  · rw [if_pos h1, rd_of_lt _ (by simp; omega), rd_of_lt _ h1, Array.getElem_push_lt h1]
  · by_cases h2 : j = acc.size
    · subst h2; rw [if_neg h1, if_pos rfl, rd_of_lt _ (by simp)]; simp
    · rw [if_neg h1, if_neg h2, rd_of_ge _ (by simp; omega)]

theorem powsAux_spec (q w : Nat) (c cur : Nat) (acc : Array Nat) (hcur : cur < q) :
    (powsAux q w c cur acc).size = acc.size + c ∧
    (∀ j < acc.size, rd (powsAux q w c cur acc) j = rd acc j) ∧
    (∀ j < c, rd (powsAux q w c cur acc) (acc.size + j) = (cur * w ^ j) % q) := by
  induction c generalizing cur acc with
  | zero => exact ⟨rfl, fun _ _ => rfl, fun j hj => by omega⟩
  | succ c ih =>
    have hq : 0 < q := by omega
    obtain ⟨h1, h2, h3⟩ := ih ((cur * w) % q) (acc.push cur) (Nat.mod_lt _ hq)
    simp only [powsAux]
    refine ⟨by rw [h1]; simp; omega, ?_, ?_⟩
    · intro j hj
      rw [h2 j (by simp; omega), rd_push, if_pos hj]
    · intro j hj
      cases j with
      | zero =>
        rw [Nat.add_zero, h2 _ (by simp), rd_push, if_neg (by omega), if_pos rfl, pow_zero, Nat.mul_one,
          Nat.mod_eq_of_lt hcur]
      | succ j =>
        have := h3 j (by omega)
        simp only [Array.size_push] at this
        rw [show acc.size + (j + 1) = acc.size + 1 + j by omega, this, pow_succ, Nat.mod_mul_mod]
        congr 1; ring

theorem size_pows (q w n : Nat) (hq : 1 < q) : (pows q w n).size = n := by
  have := (powsAux_spec q w n 1 (Array.mkEmpty n) hq).1
  simpa [pows] using this

theorem rd_pows (q w n : Nat) (hq : 1 < q) {j : Nat} (hj : j < n) : rd (pows q w n) j = w ^ j % q := by
  have := (powsAux_spec q w n 1 (Array.mkEmpty n) hq).2.2 j hj
  simpa [pows] using this

theorem cast_pow_mod (q w j : Nat) : (((w ^ j % q : Nat) : Nat) : ZMod q) = ((w : Nat) : ZMod q) ^ j := by
  rw [ZMod.natCast_mod, Nat.cast_pow]

/-! ### layout of a table built by appending level slices -/

theorem rd_append_left (a b : Array Nat) {j : Nat} (h : j < a.size) : rd (a ++ b) j = rd a j := by
  rw [rd_of_lt _ (by simp; omega), rd_of_lt _ h, Array.getElem_append_left h]

theorem rd_append_right (a b : Array Nat) (t : Nat) : rd (a ++ b) (a.size + t) = rd b t := by
  by_cases h : t < b.size
  · rw [rd_of_lt _ (by simp; omega), rd_of_lt _ h, Array.getElem_append_right (by omega)]
    simp
  · rw [rd_of_ge _ (by simp; omega), rd_of_ge _ (by omega)]

/-- the steps' offsets are the running size of the table -/
def OffsOK (gen : Step → Array Nat) : List Step → Nat → Prop
  | [], _ => True
  | s :: l, o => s.off = o ∧ OffsOK gen l (o + (gen s).size)

theorem foldl_append_spec (gen : Step → Array Nat) (l : List Step) (acc : Array Nat)
    (hoff : OffsOK gen l acc.size) :
    acc.size ≤ (l.foldl (fun acc s => acc ++ gen s) acc).size ∧
    (∀ j < acc.size, rd (l.foldl (fun acc s => acc ++ gen s) acc) j = rd acc j) ∧
    ∀ s ∈ l, s.off + (gen s).size ≤ (l.foldl (fun acc s => acc ++ gen s) acc).size ∧
      ∀ t < (gen s).size, rd (l.foldl (fun acc s => acc ++ gen s) acc) (s.off + t) = rd (gen s) t := by
  induction l generalizing acc with
  | nil => exact ⟨le_refl _, fun _ _ => rfl, fun s hs => by cases hs⟩
  | cons s l ih =>
    obtain ⟨ho, hrest⟩ := hoff
    have hsz : (acc ++ gen s).size = acc.size + (gen s).size := by simp
    obtain ⟨h1, h2, h3⟩ := ih (acc ++ gen s) (by rw [hsz]; exact hrest)
    simp only [List.foldl_cons]
    refine ⟨by omega, ?_, ?_⟩
    · intro j hj
      rw [h2 j (by omega), rd_append_left _ _ hj]
    · intro s' hs'
      rcases List.mem_cons.1 hs' with rfl | hs'
      · refine ⟨by omega, fun t ht => ?_⟩
        rw [ho, h2 _ (by omega), rd_append_right]
      · exact h3 s' hs'

theorem size_levelSlice (q n2 : Nat) (pw : Array Nat) (s : Step) : (levelSlice q n2 pw s).size = s.nn / 2 - 1 := by
  simp [levelSlice]

theorem rd_levelSlice (q n2 : Nat) (pw : Array Nat) (s : Step) {t : Nat} (ht : t < s.nn / 2 - 1) :
    rd (levelSlice q n2 pw s) t = packTw q s.L.h (rd pw ((t + 1) * (n2 / s.nn))) := by
  rw [rd_of_lt _ (by rw [size_levelSlice]; exact ht)]
  simp [levelSlice]

theorem pow_succ_half (k : Nat) : 2 ^ (k + 1) / 2 = 2 ^ k := by
  rw [pow_succ]; exact Nat.mul_div_cancel _ (by norm_num)

theorem offsOK_fwdSteps (q n2 : Nat) (pw : Array Nat) (levels : Array Level) (k idx off : Nat) :
    OffsOK (levelSlice q n2 pw) (fwdSteps levels k idx off) off := by
  induction k generalizing idx off with
  | zero => trivial
  | succ k ih =>
    refine ⟨rfl, ?_⟩
    rw [size_levelSlice]
    show OffsOK _ _ (off + (2 ^ (k + 1) / 2 - 1))
    rw [pow_succ_half]
    exact ih _ _

theorem offsOK_invSteps (q n2 : Nat) (pw : Array Nat) (levels : Array Level) (c l off : Nat) :
    OffsOK (levelSlice q n2 pw) (invSteps levels c l off) off := by
  induction c generalizing l off with
  | zero => trivial
  | succ c ih =>
    refine ⟨rfl, ?_⟩
    rw [size_levelSlice]
    show OffsOK _ _ (off + (2 ^ (l + 1) / 2 - 1))
    rw [pow_succ_half]
    exact ih _ _

theorem size_foldl_invSteps (q n2 : Nat) (pw : Array Nat) (levels : Array Level) (c l off : Nat) (acc : Array Nat) :
    ((invSteps levels c l off).foldl (fun acc s => acc ++ levelSlice q n2 pw s) acc).size + c + 2 ^ l
      = acc.size + 2 ^ (l + c) := by
  induction c generalizing l off acc with
  | zero => simp [invSteps]
  | succ c ih =>
    simp only [invSteps, List.foldl_cons]
    have := ih (l + 1) (off + (2 ^ l - 1)) (acc ++ levelSlice q n2 pw ⟨2 ^ (l + 1), levels.getD l default, off⟩)
    rw [Array.size_append, size_levelSlice] at this
    simp only [pow_succ_half] at this
    have e1 : 2 ^ (l + 1) = 2 * 2 ^ l := by ring
    have e2 : l + 1 + c = l + (c + 1) := by omega
    have hp : 0 < 2 ^ l := by positivity
    rw [e2] at this
    omega

/-! ### membership in the step lists -/

theorem mem_fwdSteps (levels : Array Level) (k idx off : Nat) (s : Step) (h : s ∈ fwdSteps levels k idx off) :
    ∃ a, 1 ≤ a ∧ a ≤ k ∧ s.nn = 2 ^ a := by
  obtain ⟨a, h1, h2, h3⟩ := mem_fwdSteps_drop levels k idx off 0 s (by simpa using h)
  exact ⟨a, h1, by omega, h3⟩

theorem mem_invSteps (levels : Array Level) (c l off : Nat) (s : Step) (h : s ∈ invSteps levels c l off) :
    ∃ a, l + 1 ≤ a ∧ a ≤ l + c ∧ s.nn = 2 ^ a := by
  obtain ⟨a, h1, _, h3, h4⟩ := mem_invSteps_take levels c l off c s
    (by rw [List.take_of_length_le]; exact h; clear h; induction c generalizing l off with
        | zero => simp [invSteps]
        | succ c ih => simp only [invSteps, List.length_cons]; have := ih (l + 1) (off + (2 ^ l - 1)); omega)
  exact ⟨a, h1, h3, h4⟩

/-- index of the power used by word `t` of a level of size `2^a` in a transform of size `2^k` -/
theorem level_index_lt {k a t : Nat} (ha1 : 1 ≤ a) (hak : a ≤ k) (ht : t < 2 ^ a / 2 - 1) :
    (t + 1) * (2 * 2 ^ k / 2 ^ a) < 2 ^ k := by
  obtain ⟨b, rfl⟩ : ∃ b, a = b + 1 := ⟨a - 1, by omega⟩
  rw [pow_succ_half] at ht
  have e : 2 * 2 ^ k / 2 ^ (b + 1) = 2 ^ (k - b) := by
    rw [show 2 * 2 ^ k = 2 ^ (k + 1) by ring, Nat.pow_div (by omega) (by norm_num)]
    congr 1; omega
  rw [e]
  calc (t + 1) * 2 ^ (k - b) < 2 ^ b * 2 ^ (k - b) := by
        apply Nat.mul_lt_mul_of_lt_of_le (by omega) (le_refl _) (by positivity)
    _ = 2 ^ k := by rw [← pow_add]; congr 1; omega

/-! ### the tables give the twiddle specifications -/

/-- exact multiplier of word `t` of a level of size `nn` for a root `w` (`n2 = 2n`) -/
def τLevel {q : Nat} (w : ZMod q) (n2 nn : Nat) : Nat → ZMod q := fun t => w ^ ((t + 1) * (n2 / nn))

theorem twSpec_tableFwd_twist (q Ω k : Nat) (hq : 1 < q) (levels : Array Level) :
    TwSpec q (levels.getD 0 default).h (2 ^ k) (fun t => rd (tableFwd q Ω k levels) t)
      (fun i => ((omegaN q Ω k : Nat) : ZMod q) ^ i) := by
  intro t ht
  have hspec := foldl_append_spec (levelSlice q (2 * 2 ^ k) (pows q (omegaN q Ω k) (2 ^ k)))
    (fwdSteps levels k 1 (2 ^ k))
    (Array.ofFn (n := 2 ^ k) fun i => packTw q (levels.getD 0 default).h (rd (pows q (omegaN q Ω k) (2 ^ k)) i.val))
    (by simpa using offsOK_fwdSteps _ _ _ _ _ _ _)
  refine ⟨(omegaN q Ω k) ^ t % q, Nat.mod_lt _ (by omega), ?_, cast_pow_mod _ _ _⟩
  show rd (tableFwd q Ω k levels) t = _
  unfold tableFwd
  simp only
  rw [hspec.2.1 t (by simpa using ht), rd_of_lt _ (by simpa using ht)]
  simp only [Array.getElem_ofFn]
  rw [rd_pows q _ _ hq ht]

theorem twSpec_tableFwd_level (q Ω k : Nat) (hq : 1 < q) (levels : Array Level) (s : Step)
    (hs : s ∈ fwdSteps levels k 1 (2 ^ k)) :
    TwSpec q s.L.h (s.nn - s.nn / 2 - 1) (fun t => rd (tableFwd q Ω k levels) (s.off + t))
      (τLevel ((omegaN q Ω k : Nat) : ZMod q) (2 * 2 ^ k) s.nn) := by
  intro t ht
  obtain ⟨a, ha1, hak, hnn⟩ := mem_fwdSteps _ _ _ _ s hs
  have hhalf : s.nn - s.nn / 2 - 1 = s.nn / 2 - 1 := by
    obtain ⟨b, rfl⟩ : ∃ b, a = b + 1 := ⟨a - 1, by omega⟩
    rw [hnn, pow_succ_half, pow_succ]; omega
  rw [hhalf] at ht
  have hspec := foldl_append_spec (levelSlice q (2 * 2 ^ k) (pows q (omegaN q Ω k) (2 ^ k)))
    (fwdSteps levels k 1 (2 ^ k))
    (Array.ofFn (n := 2 ^ k) fun i => packTw q (levels.getD 0 default).h (rd (pows q (omegaN q Ω k) (2 ^ k)) i.val))
    (by simpa using offsOK_fwdSteps _ _ _ _ _ _ _)
  have hidx : (t + 1) * (2 * 2 ^ k / s.nn) < 2 ^ k := by rw [hnn]; exact level_index_lt ha1 hak (by rwa [hnn] at ht)
  refine ⟨(omegaN q Ω k) ^ ((t + 1) * (2 * 2 ^ k / s.nn)) % q, Nat.mod_lt _ (by omega), ?_, cast_pow_mod _ _ _⟩
  show rd (tableFwd q Ω k levels) (s.off + t) = _
  unfold tableFwd
  simp only
  rw [(hspec.2.2 s hs).2 t (by rw [size_levelSlice]; exact ht), rd_levelSlice _ _ _ _ ht, rd_pows q _ _ hq hidx]

theorem twSpec_tableInv_level (q Ω k : Nat) (hq : 1 < q) (levels : Array Level) (s : Step)
    (hs : s ∈ invSteps levels k 0 0) :
    TwSpec q s.L.h (s.nn - s.nn / 2 - 1) (fun t => rd (tableInv q Ω k levels) (s.off + t))
      (τLevel ((modqPow (omegaN q Ω k) (-1) q : Nat) : ZMod q) (2 * 2 ^ k) s.nn) := by
  intro t ht
  obtain ⟨a, ha1, hak, hnn⟩ := mem_invSteps _ _ _ _ s hs
  have hhalf : s.nn - s.nn / 2 - 1 = s.nn / 2 - 1 := by
    obtain ⟨b, rfl⟩ : ∃ b, a = b + 1 := ⟨a - 1, by omega⟩
    rw [hnn, pow_succ_half, pow_succ]; omega
  rw [hhalf] at ht
  have hspec := foldl_append_spec (levelSlice q (2 * 2 ^ k) (pows q (modqPow (omegaN q Ω k) (-1) q) (2 ^ k)))
    (invSteps levels k 0 0) #[] (by simpa using offsOK_invSteps _ _ _ _ _ _ _)
  have hidx : (t + 1) * (2 * 2 ^ k / s.nn) < 2 ^ k := by
    rw [hnn]; exact level_index_lt (by omega) (by omega) (by rwa [hnn] at ht)
  refine ⟨(modqPow (omegaN q Ω k) (-1) q) ^ ((t + 1) * (2 * 2 ^ k / s.nn)) % q, Nat.mod_lt _ (by omega), ?_,
    cast_pow_mod _ _ _⟩
  show rd (tableInv q Ω k levels) (s.off + t) = _
  unfold tableInv
  simp only
  have hin := (hspec.2.2 s hs).1
  rw [size_levelSlice] at hin
  rw [rd_append_left _ _ (by omega), (hspec.2.2 s hs).2 t (by rw [size_levelSlice]; exact ht),
    rd_levelSlice _ _ _ _ ht, rd_pows q _ _ hq hidx]

theorem twSpec_tableInv_twist (q Ω k : Nat) (hq : 1 < q) (levels : Array Level) :
    TwSpec q (levels.getD k default).h (2 ^ k) (fun t => rd (tableInv q Ω k levels) (2 ^ k - 1 - k + t))
      (fun i => ((modqPow (omegaN q Ω k) (-1) q : Nat) : ZMod q) ^ i * ((modqPow (2 ^ k) (-1) q : Nat) : ZMod q)) := by
  intro t ht
  have hsz := size_foldl_invSteps q (2 * 2 ^ k) (pows q (modqPow (omegaN q Ω k) (-1) q) (2 ^ k)) levels k 0 0 #[]
  simp only [pow_zero, Nat.zero_add] at hsz
  have hoff : 2 ^ k - 1 - k
      = ((invSteps levels k 0 0).foldl
          (fun acc s => acc ++ levelSlice q (2 * 2 ^ k) (pows q (modqPow (omegaN q Ω k) (-1) q) (2 ^ k)) s) #[]).size := by
    have : (#[] : Array Nat).size = 0 := rfl
    omega
  refine ⟨((modqPow (omegaN q Ω k) (-1) q) ^ t % q * modqPow (2 ^ k) (-1) q) % q, Nat.mod_lt _ (by omega), ?_, ?_⟩
  · show rd (tableInv q Ω k levels) (2 ^ k - 1 - k + t) = _
    unfold tableInv
    simp only
    rw [hoff, rd_append_right, rd_of_lt _ (by simpa using ht)]
    simp only [Array.getElem_ofFn]
    rw [rd_pows q _ _ hq ht]
  · rw [ZMod.natCast_mod, Nat.cast_mul, cast_pow_mod]

end Spq.Q120Ntt
