/-
  Lemmas for the `_simple` conversions of the q120 arithmetic (one prime / one lane at a time) and
  for the block extract / save copies.  `q` is a symbolic prime with the size facts stated as
  hypotheses (discharged on the extracted constants in `Q120ConvGen.lean`).
-/
import SpqProofs.Lemmas.Q120Basic
import Mathlib.Data.Int.ModEq
namespace Spq.Q120

/-- an int64 value -/
def IsI64 (x : Int) : Prop := -9223372036854775808 ≤ x ∧ x < 9223372036854775808

/-! ### int64 → b -/

/-- `q120_b_from_znx64_simple`, one lane: the lane is `x` for `x ≥ 0` and `x + 2^63 + OQ` for `x < 0`
  (an exact integer identity: the 64-bit addition does not wrap), hence congruent to `x` modulo `q`. -/
theorem bFromZnx64Lane_spec (q : Nat) (x : Int) (hq : 0 < q) (hq2 : q ≤ 9223372036854775808) (hx : IsI64 x) :
    ((bFromZnx64Lane q x : Nat) : Int) = x + (if x < 0 then 9223372036854775808 + (oq q : Int) else 0)
    ∧ ((bFromZnx64Lane q x : Nat) : Int) % (q : Int) = x % (q : Int) := by
  obtain ⟨h1, h2⟩ := hx
  have hr : 9223372036854775808 % q < q := Nat.mod_lt _ hq
  have hd := Nat.mod_add_div 9223372036854775808 q
  have e : ((bFromZnx64Lane q x : Nat) : Int)
      = x + (if x < 0 then 9223372036854775808 + (oq q : Int) else 0) := by
    unfold bFromZnx64Lane toU add64 oq
    by_cases hn : x < 0
    · have : ((x % 18446744073709551616).toNat / 9223372036854775808 != 0) = true := by
        simp only [bne_iff_ne, ne_eq]; omega
      simp only [this, if_true, hn]
      omega
    · have : ((x % 18446744073709551616).toNat / 9223372036854775808 != 0) = false := by
        simp only [bne_eq_false_iff_eq]; omega
      simp only [this, hn, Bool.false_eq_true, if_false]
      omega
  refine ⟨e, ?_⟩
  rw [e]
  by_cases hn : x < 0
  · simp only [hn, if_true]
    have : (9223372036854775808 + (oq q : Int)) = (q : Int) * ((9223372036854775808 / q + 1 : Nat) : Int) := by
      unfold oq
      have : ((q * (9223372036854775808 / q + 1) : Nat) : Int) = ((9223372036854775808 + (q - 9223372036854775808 % q) : Nat) : Int) := by
        congr 1
        have : q * (9223372036854775808 / q + 1) = q * (9223372036854775808 / q) + q := by ring
        omega
      push_cast at this ⊢
      omega
    rw [this, Int.add_mul_emod_self_left]
  · simp [hn]

/-! ### `posmod`, int64 → c, b → c -/

theorem posmod_eq (x q : Int) (hq : 0 < q) (hq2 : q < 4294967296) : posmod x q = x % q := by
  unfold posmod
  have h1 := Int.emod_nonneg x (show q ≠ 0 by omega)
  have h2 := Int.emod_lt_of_pos x hq
  rw [Int.tmod_eq_emod]
  have : (q.natAbs : Int) = q := by omega
  split
  · rw [if_neg (by omega)]
    simp
  · rw [this, if_pos (by omega)]
    unfold wrapS
    omega

/-- the second word of a layout-c pair computed from the first: `((uint64_t)r0 << 32) % q` -/
theorem cWord1_eq (q r0 : Nat) (hq : 0 < q) (hq2 : q < 4294967296) (hr : r0 < q) :
    (mul64 r0 4294967296 % q) % 4294967296 = (r0 * 4294967296) % q := by
  have : r0 * 4294967296 < 18446744073709551616 := by omega
  rw [mul64_eq _ _ this]
  exact Nat.mod_eq_of_lt (Nat.lt_trans (Nat.mod_lt _ hq) hq2)

/-- `q120_c_from_znx64_simple`, one prime: the pair is `(x mod q, (x mod q)·2^32 mod q)`, with the
  mathematical (non-negative) residue of the signed `x` -/
theorem cFromZnx64Lane_spec (q : Nat) (x : Int) (hq : 0 < q) (hq2 : q < 4294967296) :
    cFromZnx64Lane q x = ((x % (q : Int)).toNat, ((x % (q : Int)).toNat * 4294967296) % q)
    ∧ (x % (q : Int)).toNat < q := by
  have h1 := Int.emod_nonneg x (show (q : Int) ≠ 0 by omega)
  have h2 := Int.emod_lt_of_pos x (show (0 : Int) < q by omega)
  have lt : (x % (q : Int)).toNat < q := by omega
  have e0 : (posmod x (q : Int) % 4294967296).toNat = (x % (q : Int)).toNat := by
    rw [posmod_eq x q (by omega) (by omega)]
    congr 1
    omega
  unfold cFromZnx64Lane
  simp only [e0]
  rw [cWord1_eq q _ hq hq2 lt]
  exact ⟨rfl, lt⟩

/-- `q120_c_from_b_simple`, one prime: `(x mod q, (x mod q)·2^32 mod q)` for ANY 64-bit lane `x`
  (non-canonical representatives included) -/
theorem cFromBLane_spec (q x : Nat) (hq : 0 < q) (hq2 : q < 4294967296) :
    cFromBLane q x = (x % q, ((x % q) * 4294967296) % q) := by
  have lt : x % q < q := Nat.mod_lt _ hq
  unfold cFromBLane
  simp only [Nat.mod_eq_of_lt (Nat.lt_trans lt hq2)]
  rw [cWord1_eq q _ hq hq2 lt]

/-- a pair produced by `c_from_b` / `c_from_znx64` is a valid layout-c element in the sense used by
  the b·c products (`bbcVal_valid`): `y1 ≡ y0·2^32 (mod q)` -/
theorem cPair_valid (q r0 : Nat) : ((r0 * 4294967296) % q) % q = (r0 * 4294967296) % q := Nat.mod_mod _ _

/-! ### additions -/

/-- `q120_add_bbb_simple`, one lane, any 64-bit operands: the sum of the two operands reduced modulo
  `q·2^33` does not wrap (needs `q ≤ 2^30`) and is congruent to `x + y` -/
theorem addBbbLane_spec (q x y : Nat) (hq : 0 < q) (hq2 : q ≤ 1073741824) :
    addBbbLane q x y = x % (q * 8589934592) + y % (q * 8589934592)
    ∧ x % (q * 8589934592) + y % (q * 8589934592) < 18446744073709551616
    ∧ addBbbLane q x y % q = (x + y) % q := by
  have hm : 0 < q * 8589934592 := by omega
  have l1 := Nat.mod_lt x hm
  have l2 := Nat.mod_lt y hm
  have e : addBbbLane q x y = x % (q * 8589934592) + y % (q * 8589934592) := by
    unfold addBbbLane
    simp only [Nat.mod_eq_of_lt (show q * 8589934592 < 18446744073709551616 by omega)]
    exact add64_eq _ _ (by omega)
  refine ⟨e, by omega, ?_⟩
  rw [e, Nat.add_mod, Nat.mod_mod_of_dvd x (Dvd.intro _ rfl), Nat.mod_mod_of_dvd y (Dvd.intro _ rfl),
    ← Nat.add_mod]

/-- `q120_add_ccc_simple`, one uint32 word: `(x + y) mod q` exactly, for ANY 32-bit words -/
theorem addCccWord_spec (q x y : Nat) (hq : 0 < q) (hq2 : q < 4294967296)
    (hx : x < 4294967296) (hy : y < 4294967296) :
    addCccWord q x y = (x + y) % q ∧ addCccWord q x y < q := by
  have l := Nat.mod_lt (x + y) hq
  have e : addCccWord q x y = (x + y) % q := by
    unfold addCccWord
    rw [add64_eq _ _ (by omega)]
    exact Nat.mod_eq_of_lt (by omega)
  exact ⟨e, by rw [e]; exact l⟩

/-- adding two valid layout-c pairs word by word gives a valid pair of the sum:
  `y1+y1' ≡ (y0+y0')·2^32` -/
theorem addCcc_valid (q a0 a1 b0 b1 : Nat)
    (ha : a1 % q = (a0 * 4294967296) % q) (hb : b1 % q = (b0 * 4294967296) % q) :
    ((a1 + b1) % q) % q = (((a0 + b0) % q) * 4294967296) % q := by
  rw [Nat.mod_mod, Nat.add_mod, ha, hb, ← Nat.add_mod, Nat.mod_mul_mod, Nat.add_mul]

/-! ### block extract / save -/

theorem size_foldl_set (f : Nat → Nat) (b n : Nat) (dest : Array Nat) :
    ((List.range n).foldl (fun d i => d.setIfInBounds (b + i) (f i)) dest).size = dest.size := by
  induction n with
  | zero => rfl
  | succ m ihm => rw [List.range_succ, List.foldl_append]; simp [ihm]

/-- `for i < n: d[b+i] = f i` (in-bounds writes only) -/
theorem getElem?_foldl_set (f : Nat → Nat) (b n : Nat) (dest : Array Nat) (k : Nat) :
    ((List.range n).foldl (fun d i => d.setIfInBounds (b + i) (f i)) dest)[k]? =
      if b ≤ k ∧ k < b + n ∧ k < dest.size then some (f (k - b)) else dest[k]? := by
  induction n with
  | zero =>
    simp only [List.range_zero, List.foldl_nil]
    rw [if_neg (by omega)]
  | succ n ih =>
    rw [List.range_succ, List.foldl_append]
    simp only [List.foldl_cons, List.foldl_nil, Array.getElem?_setIfInBounds, size_foldl_set, ih]
    by_cases h1 : b + n = k
    · subst h1
      by_cases h2 : b + n < dest.size
      · simp only [h2, if_true]
        rw [if_pos ⟨by omega, by omega, trivial⟩]
        congr 2
        omega
      · simp [h2]
    · simp only [h1, if_false]
      by_cases h3 : b ≤ k ∧ k < b + n ∧ k < dest.size
      · rw [if_pos h3, if_pos (by omega)]
      · rw [if_neg h3, if_neg (by omega)]

theorem getElem?_save1blk (nn blk : Nat) (dest src : Array Nat) (k : Nat) :
    (save1blk nn blk dest src)[k]? =
      if 8 * blk ≤ k ∧ k < 8 * blk + 8 ∧ k < dest.size then some (src.getD (k - 8 * blk) 0) else dest[k]? :=
  getElem?_foldl_set (fun i => src.getD i 0) (8 * blk) 8 dest k

theorem size_save1blk (nn blk : Nat) (dest src : Array Nat) : (save1blk nn blk dest src).size = dest.size :=
  size_foldl_set (fun i => src.getD i 0) (8 * blk) 8 dest


theorem getElem?_extract1blk (nn blk : Nat) (src : Array Nat) (i : Nat) :
    (extract1blk nn blk src)[i]? = if i < 8 then some (src.getD (8 * blk + i) 0) else none := by
  unfold extract1blk
  simp only [Array.getElem?_ofFn]
  split <;> rfl

/-- save then extract the same block returns the saved block -/
theorem extract_save (nn blk : Nat) (dest src : Array Nat) (hs : src.size = 8) (hd : 8 * blk + 8 ≤ dest.size) :
    extract1blk nn blk (save1blk nn blk dest src) = src := by
  apply Array.ext_getElem?
  intro i
  rw [getElem?_extract1blk]
  by_cases hi : i < 8
  · simp only [hi, if_true, Array.getD_eq_getD_getElem?, getElem?_save1blk]
    rw [if_pos ⟨by omega, by omega, by omega⟩]
    have : 8 * blk + i - 8 * blk = i := by omega
    simp only [this, Option.getD_some]
    have : i < src.size := by omega
    simp [this]
  · simp only [hi, if_false]
    have : src.size ≤ i := by omega
    simp [this]

/-- extract then save back the same block leaves the vector unchanged -/
theorem save_extract (nn blk : Nat) (dest : Array Nat) :
    save1blk nn blk dest (extract1blk nn blk dest) = dest := by
  apply Array.ext_getElem?
  intro k
  rw [getElem?_save1blk]
  split
  · rename_i h
    have e : (extract1blk nn blk dest).getD (k - 8 * blk) 0 = dest.getD k 0 := by
      simp only [Array.getD_eq_getD_getElem?, getElem?_extract1blk]
      rw [if_pos (by omega)]
      have : 8 * blk + (k - 8 * blk) = k := by omega
      simp [this]
    rw [e]
    have : k < dest.size := h.2.2
    simp [Array.getD_eq_getD_getElem?, this]
  · rfl

/-- save only touches the 8 lanes of block `blk` -/
theorem save_frame (nn blk : Nat) (dest src : Array Nat) (k : Nat) (hk : ¬ (8 * blk ≤ k ∧ k < 8 * blk + 8)) :
    (save1blk nn blk dest src)[k]? = dest[k]? := by
  rw [getElem?_save1blk, if_neg (by omega)]

/-- the contiguous form extracts block `blk` of each of the `nrows` vectors of pitch `4·nn` -/
theorem extractContiguous_row (nn nrows blk : Nat) (src : Array Nat) (r i : Nat) (hr : r < nrows) (hi : i < 8) :
    (extractContiguous nn nrows blk src).getD (8 * r + i) 0 = src.getD (4 * nn * r + 8 * blk + i) 0 := by
  unfold extractContiguous
  have h : 8 * r + i < 8 * nrows := by omega
  simp only [Array.getD_eq_getD_getElem?, Array.getElem?_ofFn, h, dif_pos, Option.getD_some]
  have e1 : (8 * r + i) / 8 = r := by omega
  have e2 : (8 * r + i) % 8 = i := by omega
  rw [e1, e2]

end Spq.Q120
