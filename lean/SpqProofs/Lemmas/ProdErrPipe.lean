/-
  C01 rounding budget, step 7: the stages of `fft64_znx_small_single_product` in binary64
  (`stF` = conversion + forward FFT, `stM` = pointwise product, `stI` = inverse FFT), the dispatch conditions
  (`CfgOk`), the stage-wise flag hypothesis (`PipeOk`), and the forward / product stages in terms of the exact
  network `V ζ (pkC a m)`.
-/
import SpqProofs.Properties.C06Err
import SpqProofs.Lemmas.ProdErrMulF64
import SpqProofs.Lemmas.ProdErrInv
import SpqProofs.Lemmas.ProdErrExact
import SpqProofs.Lemmas.ProdErrConv
set_option linter.unusedSectionVars false
namespace Spq.ProdErr
open Finset Spq Spq.Module Spq.Fft Spq.Fft.Alg Spq.Fft.SimP Spq.Fft.LevelN Spq.Fft.SchedN Spq.Fft.RelN Spq.FftErr Spq.F64
  Spq.Reim4

/-- the forward table: `reimFftEnts` filled with the stored cos / sin patterns `cN e`, `sN e` -/
def tabF (k : ℕ) (cN sN : ℕ → ℕ) : Array ℕ := ((reimFftEnts (2 ^ k)).map (valP cN sN)).toArray
/-- the inverse table -/
def tabI (k : ℕ) (cNi sNi : ℕ → ℕ) : Array ℕ := ((reimIfftEnts (2 ^ k)).map (valP cNi sNi)).toArray

/-- `Cfg` consistent with the dispatch of the library for `N = 2·2^k`: FMA pointwise kernel only for `m ≥ 4`,
    4-lane conversion kernels only when `4 ∣ 2m` (the library installs them for `m ≥ 8` only), tables as built by
    the table constructors (equal exponents hold equal stored values). -/
structure CfgOk (c : Cfg) (k : ℕ) (cN sN cNi sNi : ℕ → ℕ) : Prop where
  nn : c.nn = 2 * 2 ^ k
  fftT : c.fftT = tabF k cN sN
  ifftT : c.ifftT = tabI k cNi sNi
  mulFma : c.mulFma = true → 2 ≤ k
  fromBnd50 : c.fromBnd50 = true → 1 ≤ k
  toVar : c.toVariant ≠ .ref → 1 ≤ k

/-- stage 1: conversion + forward transform -/
def stF (c : Cfg) (k : ℕ) (cN sN : ℕ → ℕ) (x : Array Int) : Array ℕ :=
  reimFft (if c.fftFma then "fma" else "ref") (2 ^ k) (tabF k cN sN) ((Cfg.parts c).fromZnx x)
/-- stage 2: pointwise product -/
def stM (c : Cfg) (k : ℕ) (cN sN : ℕ → ℕ) (a b : Array Int) : Array ℕ :=
  mulA F64.arith c.mulFma (2 ^ k) (stF c k cN sN a) (stF c k cN sN b)
/-- stage 3: inverse transform -/
def stI (c : Cfg) (k : ℕ) (cN sN cNi sNi : ℕ → ℕ) (a b : Array Int) : Array ℕ :=
  reimIfft (if c.ifftFma then "fma" else "ref") (2 ^ k) (tabI k cNi sNi) (stM c k cN sN a b)

/-- **flags of the flagged run, stage by stage**: every stage is re-run on flagged patterns (`aOk` / `arithOk`),
    starting from the actual binary64 inputs of the stage; the flag of an output says that every operation it depends
    on had finite operands and an exact result that is `0` or in the normal range (no overflow, no underflow). -/
structure PipeOk (c : Cfg) (k : ℕ) (cN sN cNi sNi : ℕ → ℕ) (a b : Array Int) : Prop where
  okA : ∀ p, p < 2 * 2 ^ k →
    ((reimFftA (famOf c.fftFma aOk) (2 ^ k) ((((reimFftEnts (2 ^ k)).map (valP cN sN)).toArray).map lift)
      (((Cfg.parts c).fromZnx a).map lift))[p]!).2
  okB : ∀ p, p < 2 * 2 ^ k →
    ((reimFftA (famOf c.fftFma aOk) (2 ^ k) ((((reimFftEnts (2 ^ k)).map (valP cN sN)).toArray).map lift)
      (((Cfg.parts c).fromZnx b).map lift))[p]!).2
  okM : ∀ p, p < 2 * 2 ^ k →
    ((mulA arithOk c.mulFma (2 ^ k) ((stF c k cN sN a).map lift) ((stF c k cN sN b).map lift)).getD p arithOk.zero).2
  okI : ∀ p, p < 2 * 2 ^ k →
    ((reimIfftA (ifamOf c.ifftFma aOk) (2 ^ k) ((((reimIfftEnts (2 ^ k)).map (valP cNi sNi)).toArray).map lift)
      ((stM c k cN sN a b).map lift))[p]!).2

theorem getElem!_nat (x : Array ℕ) (i : ℕ) : x[i]! = x.getD i 0 := by
  simp only [getElem!_def, Array.getD_eq_getD_getElem?]; rfl

/-- the model function is the composition of the stages -/
theorem smallProduct_stages (c : Cfg) (k : ℕ) (cN sN cNi sNi : ℕ → ℕ) (h : CfgOk c k cN sN cNi sNi) (a b : Array Int) :
    smallProduct (Cfg.parts c) a b = (Cfg.parts c).toZnx (stI c k cN sN cNi sNi a b) := by
  have hm : c.nn / 2 = 2 ^ k := by rw [h.nn]; exact pow_half k
  have hfft : ∀ d, (Cfg.parts c).fft d = reimFft (if c.fftFma then "fma" else "ref") (2 ^ k) (tabF k cN sN) d := by
    intro d
    show reimFft (if c.fftFma then "fma" else "ref") (c.nn / 2) c.fftT d = _
    rw [hm, h.fftT]
  have hifft : ∀ d, (Cfg.parts c).ifft d = reimIfft (if c.ifftFma then "fma" else "ref") (2 ^ k) (tabI k cNi sNi) d := by
    intro d
    show reimIfft (if c.ifftFma then "fma" else "ref") (c.nn / 2) c.ifftT d = _
    rw [hm, h.ifftT]
  have hmul : ∀ x y, Module.mul (Cfg.parts c) x y = mulA F64.arith c.mulFma (2 ^ k) x y := by
    intro x y
    show (let r := Array.replicate c.nn F64.arith.zero
      if c.mulFma then (reimFftvecMulFma F64.arith (c.nn / 2) r x y).getD r
      else reimFftvecMulRef F64.arith (c.nn / 2) r x y) = _
    rw [hm, h.nn]; rfl
  unfold smallProduct stI stM stF
  rw [hifft, hmul, hfft, hfft]

variable {K : Type} [Field K] [LinearOrder K] [IsStrictOrderedRing K]

theorem two_pow_re (k : ℕ) : ((2 : Cplx K) ^ k).re = 2 ^ k ∧ ((2 : Cplx K) ^ k).im = 0 := by
  induction k with
  | zero => simp [QuadraticAlgebra.re_one, QuadraticAlgebra.im_one]
  | succ k ih =>
    obtain ⟨h1, h2⟩ := ih
    have r2 : (2 : Cplx K).re = 2 := rfl
    have i2 : (2 : Cplx K).im = 0 := rfl
    rw [pow_succ, QuadraticAlgebra.re_mul, QuadraticAlgebra.im_mul, h1, h2, r2, i2, pow_succ]
    constructor <;> ring

/-- `(2^k·γ).re`, `.im` -/
theorem two_pow_mul_re (k : ℕ) (γ : Cplx K) : ((2 : Cplx K) ^ k * γ).re = 2 ^ k * γ.re ∧
    ((2 : Cplx K) ^ k * γ).im = 2 ^ k * γ.im := by
  obtain ⟨h1, h2⟩ := two_pow_re (K := K) k
  rw [QuadraticAlgebra.re_mul, QuadraticAlgebra.im_mul, h1, h2]
  constructor <;> ring

/-- the inverse root: `|ζi| = 1`, `ζi^m = −i` follow from `ζ·ζi = 1` -/
theorem inv_root (k : ℕ) (ζ ζi : Cplx K) (hζ : nsq ζ = 1) (hI : ζ ^ 2 ^ k = Ic) (hinv : ζ * ζi = 1) :
    nsq ζi = 1 ∧ ζi ^ 2 ^ k = -Ic := by
  constructor
  · have := congrArg nsq hinv
    rw [nsq_mul, hζ, one_mul, nsq_one] at this
    exact this
  · have h1 : ζ ^ 2 ^ k * ζi ^ 2 ^ k = 1 := by rw [← mul_pow, hinv, one_pow]
    rw [hI] at h1
    have h2 : ζi ^ 2 ^ k = -(Ic * Ic) * ζi ^ 2 ^ k := by rw [Ic_sq]; ring
    rw [h2, show -(Ic * Ic) * ζi ^ 2 ^ k = -Ic * (Ic * ζi ^ 2 ^ k) by ring, h1, mul_one]

/-- the exact transform of the converted input is the exact network on the packed integer coefficients -/
theorem exactOut_conv (c : Cfg) (k : ℕ) (hnn : c.nn = 2 * 2 ^ k) (hb : c.fromBnd50 = true → 1 ≤ k)
    (ζ : Cplx K) (hI : ζ ^ 2 ^ k = Ic) (x : Array Int)
    (hx : ∀ i, i < 2 * 2 ^ k → -1125899906842624 < x.getD i 0 ∧ x.getD i 0 < 1125899906842624)
    (j : ℕ) (hj : j < 2 ^ k) :
    exactOut ζ k ((Cfg.parts c).fromZnx x) j = V ζ (pkC x (2 ^ k)) k 0 j := by
  obtain ⟨_, hv⟩ := fromZnx_spec c k hnn hb x hx
  rw [V_top ζ _ k (zeta_neg k ζ hI) j hj]
  unfold exactOut
  apply sumTo_congr
  intro i hi
  congr 1
  unfold pkC
  rw [getElem!_nat, getElem!_nat, hv i (by omega), hv (2 ^ k + i) (by omega)]
  simp only [Rat.cast_intCast]

end Spq.ProdErr
