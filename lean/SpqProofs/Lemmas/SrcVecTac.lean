/-
  Proof steps shared by the limb-vector wrapper theorems (`Properties/SrcVec.lean`): one macro per shape of loop
  body (`znx_zero` on a result limb; a one-source kernel; a two-source kernel).  They expect in the context
  `nn rsl res m0 B hB hnn (nn < 2^61) hnn64 (nn < 2^64) hX (arena size < 2^64)` and, for the sources, the names
  passed as arguments.  Each closes the `hbody` obligation of `limb_for`.
-/
import SpqProofs.Lemmas.SrcVec
import SpqProofs.Lemmas.SrcVecKern
namespace Spq.CIR

/- body = `znx_zero_i64_ref(nn, res + i*res_sl)`;  `hsz : ∀ k, (heap before limb k).mem.size = X.size` -/
set_option hygiene false in
macro "vbody0" hsz:term : tactic =>
  `(tactic| (
    intro k _ hk a1 a2 f _
    change (Heap.limb0 _ _ _).ok = true at a2
    rw [limb0_ok] at a2
    simp only [Bool.and_eq_true, decide_eq_true_eq, size_kzero, $hsz:term] at a2
    cir_simp
    rw [mul_wrap k rsl (by omega), ptrAt_param _ _ 0 B res (k * rsl) rfl]; cir_simp
    rw [arena_zero m0 B hB _ nn hnn (res + k * rsl) (by rw [$hsz:term]; omega) f]
    cir_simp
    rfl))

/- body = `kernel(nn, res + i*res_sl, src + i*src_sl)`: `lem` = `arena_copy`/`arena_negate` applied up to `hB`,
   `pi` the pointer index of the source, `hd k hk : SameOrDisj …`, `fin` the trailing fuel arguments -/
set_option hygiene false in
macro "vbody1" lem:term:max hnnK:term:max pi:term:max src:term:max sl:term:max szl:term:max hsz:term:max hd:term:max : tactic =>
  `(tactic| (
    intro k hk0 hk a1 a2 f hfk
    change (Heap.limb1 0 nn _ _ _ _).ok = true at a2
    rw [limb1_ok] at a2
    simp only [Bool.and_eq_true, decide_eq_true_eq, $szl:term, $hsz:term] at a2
    cir_simp
    rw [mul_wrap k rsl (by omega), mul_wrap k $sl (by omega), ptrAt_param _ _ 0 B res (k * rsl) rfl]; cir_simp
    rw [ptrAt_param _ _ $pi B $src (k * $sl) rfl]; cir_simp
    rw [$lem m0 B hB _ nn $hnnK (res + k * rsl) ($src + k * $sl) (by rw [$hsz:term]; omega)
      (by rw [$hsz:term]; omega) ($hd k hk0 hk)]
    cir_simp
    rfl
    all_goals omega))

/- body = `kernel(nn, res + i*res_sl, a + i*a_sl, b + i*b_sl)`: `lem` = `arena_add` / `arena_sub` -/
set_option hygiene false in
macro "vbody2" lem:term:max szl:term:max hsz:term:max hda:term:max hdb:term:max : tactic =>
  `(tactic| (
    intro k hk0 hk a1 a2 f hfk
    change (Heap.limb2 0 nn _ _ _ _ _).ok = true at a2
    rw [limb2_ok] at a2
    simp only [Bool.and_eq_true, decide_eq_true_eq, $szl:term, $hsz:term] at a2
    cir_simp
    rw [mul_wrap k rsl (by omega), mul_wrap k asl (by omega), mul_wrap k bsl (by omega),
      ptrAt_param _ _ 0 B res (k * rsl) rfl]; cir_simp
    rw [ptrAt_param _ _ 1 B a (k * asl) rfl]; cir_simp
    rw [ptrAt_param _ _ 2 B b (k * bsl) rfl]; cir_simp
    rw [$lem m0 B hB _ nn hnn64 (res + k * rsl) (a + k * asl) (b + k * bsl) (by rw [$hsz:term]; omega)
      (by rw [$hsz:term]; omega) (by rw [$hsz:term]; omega) ($hda k hk0 hk) ($hdb k hk0 hk)]
    cir_simp
    rfl
    all_goals omega))

end Spq.CIR
