/-
  Helpers for the out-of-place automorphism kernels (a scatter loop): the state of the model's fold after
  `k` steps, and the store lemma for a result buffer held as `mem.setIfInBounds r X`.
-/
import Spq.Coeffs
import SpqProofs.Lemmas.SrcEval
import SpqProofs.Lemmas.SrcMask
namespace Spq.CIR

/-- the model's `(a, res)` after `k` iterations of the loop of `Coeffs.automorphism` -/
def autSt (o : Ops Int) (nn : Nat) (p : Int) (inp res0 : Array Int) (k : Nat) : Nat × Array Int :=
  (List.range k).foldl (Coeffs.automStep o nn p inp) (0, res0.setIfInBounds 0 (inp.getD 0 o.zero))

theorem autSt_zero (o : Ops Int) (nn : Nat) (p : Int) (inp res0 : Array Int) :
    autSt o nn p inp res0 0 = (0, res0.setIfInBounds 0 (inp.getD 0 o.zero)) := rfl

theorem autSt_succ (o : Ops Int) (nn : Nat) (p : Int) (inp res0 : Array Int) (k : Nat) :
    autSt o nn p inp res0 (k + 1) = Coeffs.automStep o nn p inp (autSt o nn p inp res0 k) k := by
  unfold autSt
  rw [List.range_succ, List.foldl_append]
  rfl

theorem automorphism_eq_autSt (o : Ops Int) (nn : Nat) (p : Int) (inp res0 : Array Int) :
    Coeffs.automorphism o nn p inp res0 = (autSt o nn p inp res0 (nn - 1)).2 := rfl

theorem autSt_size (o : Ops Int) (nn : Nat) (p : Int) (inp res0 : Array Int) (k : Nat) :
    (autSt o nn p inp res0 k).2.size = res0.size := by
  induction k with
  | zero => simp [autSt_zero]
  | succ k ih =>
    rw [autSt_succ]
    unfold Coeffs.automStep
    simp only
    split <;> simp [ih]

theorem autSt_lt (o : Ops Int) (nn : Nat) (hn : 0 < nn) (p : Int) (inp res0 : Array Int) (k : Nat) :
    (autSt o nn p inp res0 k).1 < 2 * nn := by
  cases k with
  | zero => simp [autSt_zero]; omega
  | succ k =>
    rw [autSt_succ]
    unfold Coeffs.automStep
    exact posMask_lt' _ _ (by omega)

/-- `(a + p) & _2mn` with `_2mn` already known to be `2*nn-1` -/
theorem posmask_src2 (t : Nat) (ht : t ≤ 63) (nn : Nat) (hnn : nn = 2 ^ t) (a : Nat) (p : Int) :
    ((((a : Int) + p % 18446744073709551616) % 18446744073709551616).toNat &&& (2 * nn - 1))
      = posMask ((a : Int) + p) (2 * nn) := by
  have h := posmask_src' t ht nn hnn a p
  rw [mask_val nn (hnn ▸ one_le_pow2 t) (hnn ▸ pow_le_p63 t ht)] at h
  exact h

theorem store_set (m : Mem) (r : Nat) (X : Array Int) (i : Nat) (v : Int) (hr : r < m.size) (hi : i < X.size) :
    storeCell (m.setIfInBounds r X) (some (r, 0)) (i : Int) v = .ok (m.setIfInBounds r (X.setIfInBounds i v)) := by
  rw [store0 _ _ _ _ (by rw [buf_set_self m r X hr]; exact hi), buf_set_self m r X hr, set_set]

end Spq.CIR

namespace Spq.CIR
theorem load0_zero (m : Mem) (b : Nat) (h : 0 < (buf m b).size) :
    loadCell m (some (b, 0)) 0 = .ok ((buf m b).getD 0 0) := load0 m b 0 h

theorem store0_zero (m : Mem) (b : Nat) (v : Int) (h : 0 < (buf m b).size) :
    storeCell m (some (b, 0)) 0 v = .ok (m.setIfInBounds b ((buf m b).setIfInBounds 0 v)) := store0 m b 0 v h
end Spq.CIR
