/-
  C02 rounding budget, step 9: the cells of one output column of the binary64 vector-matrix product.
  `vmp_layout_g` at the bit level and at the flagged level + the transfer of the accumulation recurrences:
  if the flag of cell `t` of column `j` holds, the cell is finite and its value is a perturbed sum (`PSum`) of the
  products of the VALUES of the forward transforms `stF (limb_i a)`, `stF (M[i][j])`.
-/
import SpqProofs.Lemmas.VmpErrStage
set_option linter.unusedSectionVars false
namespace Spq.VmpErr
open Finset Spq Spq.Module Spq.Fft Spq.Fft.Alg Spq.FftErr Spq.F64 Spq.Reim4 Spq.ProdErr

theorem PSum.congr {K : Type} [Field K] [LinearOrder K] [IsStrictOrderedRing K] {n : ℕ} {x m x' m' : ℕ → K} {G s : K}
    (h : PSum n x m G s) (hx : ∀ i, i < n → x i = x' i) (hm : ∀ i, i < n → m i = m' i) : PSum n x' m' G s := by
  obtain ⟨e, h1, h2⟩ := h
  refine ⟨e, fun i hi => by rw [← hm i hi]; exact h1 i hi, ?_⟩
  rw [h2]
  exact sum_congr rfl (fun i hi => by rw [hx i (mem_range.1 hi)])

/-- hypotheses on the dispatch for the vector-matrix product: `CfgOk` and "FMA addmul kernel only for `m ≥ 4`" -/
structure VCfgOk (c : Cfg) (k : ℕ) (cN sN cNi sNi : ℕ → ℕ) : Prop where
  cfg : CfgOk c k cN sN cNi sNi
  addmulFma : c.addmulFma = true → 2 ≤ k

/-- the output of `vmp_prepare` + `vmp_apply_dft` in the binary64 module -/
def vmpRes (c : Cfg) (mat : Array Int) (nrows ncols : ℕ) (a : Array Int) (asz asl rsz : ℕ) : Array ℕ :=
  vmpApplyDft (Cfg.parts c) rsz a asz asl (vmpPrepare (Cfg.parts c) mat nrows ncols) nrows ncols

/-- values of cell `t` / `t + m` of the forward transforms of the rows -/
def qA (c : Cfg) (k : ℕ) (cN sN : ℕ → ℕ) (a : Array Int) (asl t : ℕ) : ℕ → ℚ :=
  fun i => val ((stF c k cN sN (limbOf a i asl (2 * 2 ^ k))).getD t 0)
def qM (c : Cfg) (k : ℕ) (cN sN : ℕ → ℕ) (mat : Array Int) (ncols j t : ℕ) : ℕ → ℚ :=
  fun i => val ((stF c k cN sN (matEntry mat ncols (2 * 2 ^ k) i j)).getD t 0)

section
variable (c : Cfg) (k : ℕ) (cN sN cNi sNi : ℕ → ℕ) (h : VCfgOk c k cN sN cNi sNi)
include h

theorem p_nn : (Cfg.parts c).nn = 2 * 2 ^ k := h.cfg.nn
theorem p_hnn : (Cfg.parts c).nn = 2 * (Cfg.parts c).m := by
  rw [parts_m c k h.cfg.nn]; exact h.cfg.nn
theorem p_hblk : 8 ≤ (Cfg.parts c).nn → (Cfg.parts c).m % 4 = 0 := by
  intro h8
  rw [parts_m c k h.cfg.nn]
  rw [p_nn c k cN sN cNi sNi h] at h8
  have hk : 2 ≤ k := by
    by_contra hlt
    have : k = 0 ∨ k = 1 := by omega
    rcases this with rfl | rfl <;> omega
  exact pow_mod_four' k hk
theorem nn_lt8 : (Cfg.parts c).nn < 8 → k < 2 := by
  intro h8
  rw [p_nn c k cN sN cNi sNi h] at h8
  by_contra hge
  have : 2 ^ 2 ≤ 2 ^ k := Nat.pow_le_pow_right (by norm_num) (by omega)
  omega
theorem p_hsm : (Cfg.parts c).nn < 8 → (Cfg.parts c).mulFma = false ∧ (Cfg.parts c).addmulFma = false := by
  intro h8
  have hk := nn_lt8 c k cN sN cNi sNi h h8
  constructor
  · show c.mulFma = false
    cases hf : c.mulFma
    · rfl
    · have := h.cfg.mulFma hf; omega
  · show c.addmulFma = false
    cases hf : c.addmulFma
    · rfl
    · have := h.addmulFma hf; omega

theorem matDft_stF (mat : Array Int) (ncols i j : ℕ) :
    matDft (Cfg.parts c) mat ncols i j = stF c k cN sN (matEntry mat ncols (2 * 2 ^ k) i j) := by
  unfold matDft matEntry
  rw [parts_fft c k cN sN cNi sNi h.cfg, p_nn c k cN sN cNi sNi h]

/-- the DFT rows of the vector: cell `x` of row `i` -/
theorem vecDft_cell (a : Array Int) (asz asl n : ℕ) (hn : n ≤ asz)
    (hA : ∀ i, i < n → Box k (limbOf a i asl (2 * 2 ^ k))) (i x : ℕ) (hi : i < n) (hx : x < 2 * 2 ^ k) :
    (vecDft (Cfg.parts c) n a asz asl).getD (i * (2 * 2 ^ k) + x) 0 =
      (stF c k cN sN (limbOf a i asl (2 * 2 ^ k))).getD x 0 := by
  have hnn := p_nn c k cN sN cNi sNi h
  obtain ⟨_, b2⟩ := vecDft_spec (Cfg.parts c) n a asz asl (fun i => stF c k cN sN (limbOf a i asl (2 * 2 ^ k)))
    (fun i hi => by rw [if_pos (by omega), parts_fft c k cN sN cNi sNi h.cfg, hnn])
    (fun i hi => by rw [hnn]; exact stF_size c k cN sN cNi sNi h.cfg _ (hA i hi))
  have := b2 i hi
  rw [hnn] at this
  rw [← this, dlimb_get 0 _ i (2 * 2 ^ k) x hx]

end

/-- **cell transfer**: flag ⇒ finite and perturbed sum of the products of the transform values -/
theorem cell_transfer (c : Cfg) (k : ℕ) (cN sN cNi sNi : ℕ → ℕ) (h : VCfgOk c k cN sN cNi sNi)
    (mat : Array Int) (nrows ncols : ℕ) (a : Array Int) (asz asl rsz : ℕ)
    (hA : ∀ i, i < min nrows asz → Box k (limbOf a i asl (2 * 2 ^ k)))
    (hM : ∀ i j, i < nrows → j < ncols → Box k (matEntry mat ncols (2 * 2 ^ k) i j))
    (j t : ℕ) (hj : j < min ncols rsz) (ht : t < 2 ^ k) (hpos : k < 2 → 0 < min nrows asz) :
    (vmpFlag c mat nrows ncols a asz asl rsz (j * (2 * 2 ^ k) + t) →
      Fin64 ((vmpRes c mat nrows ncols a asz asl rsz).getD (j * (2 * 2 ^ k) + t) 0) ∧
      PSum (min nrows asz)
        (xRe (qA c k cN sN a asl t) (qA c k cN sN a asl (t + 2 ^ k)) (qM c k cN sN mat ncols j t) (qM c k cN sN mat ncols j (t + 2 ^ k)))
        (mRe (qA c k cN sN a asl t) (qA c k cN sN a asl (t + 2 ^ k)) (qM c k cN sN mat ncols j t) (qM c k cN sN mat ncols j (t + 2 ^ k)))
        (1 + gamD (min nrows asz)) (val ((vmpRes c mat nrows ncols a asz asl rsz).getD (j * (2 * 2 ^ k) + t) 0))) ∧
    (vmpFlag c mat nrows ncols a asz asl rsz (j * (2 * 2 ^ k) + t + 2 ^ k) →
      Fin64 ((vmpRes c mat nrows ncols a asz asl rsz).getD (j * (2 * 2 ^ k) + t + 2 ^ k) 0) ∧
      PSum (min nrows asz)
        (xIm (qA c k cN sN a asl t) (qA c k cN sN a asl (t + 2 ^ k)) (qM c k cN sN mat ncols j t) (qM c k cN sN mat ncols j (t + 2 ^ k)))
        (mIm (qA c k cN sN a asl t) (qA c k cN sN a asl (t + 2 ^ k)) (qM c k cN sN mat ncols j t) (qM c k cN sN mat ncols j (t + 2 ^ k)))
        (1 + gamD (min nrows asz)) (val ((vmpRes c mat nrows ncols a asz asl rsz).getD (j * (2 * 2 ^ k) + t + 2 ^ k) 0))) := by
  have hnn := p_nn c k cN sN cNi sNi h
  have hm := parts_m c k h.cfg.nn
  obtain ⟨n, hn⟩ : ∃ n, n = min nrows asz := ⟨_, rfl⟩
  obtain ⟨adft, hadft⟩ : ∃ adft, adft = vecDft (Cfg.parts c) (min nrows asz) a asz asl := ⟨_, rfl⟩
  have hT : ∀ row col, row < nrows → col < ncols → (matDft (Cfg.parts c) mat ncols row col).size = (Cfg.parts c).nn := by
    intro row col hr hc
    rw [matDft_stF c k cN sN cNi sNi h, hnn]
    exact stF_size c k cN sN cNi sNi h.cfg _ (hM row col hr hc)
  -- bit level
  obtain ⟨_, L1, _, _⟩ := vmp_layout_g (Cfg.parts c) (p_hnn c k cN sN cNi sNi h) (p_hblk c k cN sN cNi sNi h)
    (p_hsm c k cN sN cNi sNi h) mat nrows ncols rsz asz adft (fun _ => hT)
  have hpos' : (Cfg.parts c).nn < 8 → 0 < min nrows asz := fun h8 => hpos (nn_lt8 c k cN sN cNi sNi h h8)
  obtain ⟨c1, c2⟩ := L1 j t hj (by rw [hm]; exact ht) hpos'
  -- flagged level
  have hTo : ∀ row col, row < nrows → col < ncols → (matDft (pOk c) mat ncols row col).size = (pOk c).nn := by
    intro row col hr hc
    rw [matDft_pOk, Array.size_map]
    exact hT row col hr hc
  obtain ⟨_, L2, _, _⟩ := vmp_layout_g (pOk c) (p_hnn c k cN sN cNi sNi h) (p_hblk c k cN sN cNi sNi h)
    (p_hsm c k cN sN cNi sNi h) mat nrows ncols rsz asz (adft.map lift) (fun _ => hTo)
  obtain ⟨d1, d2⟩ := L2 j t hj (by show t < (Cfg.parts c).m; rw [hm]; exact ht) hpos'
  have hkind : colKind (pOk c) ncols rsz j = colKind (Cfg.parts c) ncols rsz j := rfl
  have hsm : colKind (Cfg.parts c) ncols rsz j = .sm → 1 ≤ min nrows asz := by
    intro hk
    unfold colKind at hk
    by_cases h8 : 8 ≤ (Cfg.parts c).nn
    · rw [if_pos h8] at hk
      unfold colKind8 at hk
      split at hk
      · have := kind1_ne _ hk; omega
      · have := kind2_ne _ hk; omega
    · exact hpos' (by omega)
  -- transfer
  obtain ⟨t1, t2⟩ := dot_transfer (colKind (Cfg.parts c) ncols rsz j)
    (aRe arithOk.zero (adft.map lift) (pOk c).nn t) (aIm arithOk.zero (adft.map lift) (pOk c).nn (pOk c).m t)
    (bRe (pOk c) mat ncols j t) (bIm (pOk c) mat ncols j t)
    (aRe 0 adft (Cfg.parts c).nn t) (aIm 0 adft (Cfg.parts c).nn (Cfg.parts c).m t)
    (bRe (Cfg.parts c) mat ncols j t) (bIm (Cfg.parts c) mat ncols j t)
    (fun i => val (aRe 0 adft (Cfg.parts c).nn t i)) (fun i => val (aIm 0 adft (Cfg.parts c).nn (Cfg.parts c).m t i))
    (fun i => val (bRe (Cfg.parts c) mat ncols j t i)) (fun i => val (bIm (Cfg.parts c) mat ncols j t i))
    (fun i => rel1_lift adft _) (fun i => rel1_lift adft _)
    (fun i => rel1_lift (matDft (Cfg.parts c) mat ncols i j) _) (fun i => rel1_lift (matDft (Cfg.parts c) mat ncols i j) _)
    (fun i => relQ_lift adft _) (fun i => relQ_lift adft _)
    (fun i => relQ_lift (matDft (Cfg.parts c) mat ncols i j) _) (fun i => relQ_lift (matDft (Cfg.parts c) mat ncols i j) _)
    (min nrows asz)
  obtain ⟨p1, p2⟩ := dot_psum_arG (colKind (Cfg.parts c) ncols rsz j)
    (fun i => val (aRe 0 adft (Cfg.parts c).nn t i)) (fun i => val (aIm 0 adft (Cfg.parts c).nn (Cfg.parts c).m t i))
    (fun i => val (bRe (Cfg.parts c) mat ncols j t i)) (fun i => val (bIm (Cfg.parts c) mat ncols j t i))
    (min nrows asz) hsm
  -- the lane data are the transform cells
  have eA1 : ∀ i, i < min nrows asz → val (aRe 0 adft (Cfg.parts c).nn t i) = qA c k cN sN a asl t i := by
    intro i hi
    unfold aRe qA
    rw [hnn, hadft, vecDft_cell c k cN sN cNi sNi h a asz asl _ (Nat.min_le_right _ _) hA i t hi (by omega)]
  have eA2 : ∀ i, i < min nrows asz →
      val (aIm 0 adft (Cfg.parts c).nn (Cfg.parts c).m t i) = qA c k cN sN a asl (t + 2 ^ k) i := by
    intro i hi
    unfold aIm qA
    rw [hnn, hm, hadft, Nat.add_assoc,
      vecDft_cell c k cN sN cNi sNi h a asz asl _ (Nat.min_le_right _ _) hA i (t + 2 ^ k) hi (by omega)]
  have eB1 : ∀ i, val (bRe (Cfg.parts c) mat ncols j t i) = qM c k cN sN mat ncols j t i := by
    intro i
    unfold bRe qM
    rw [matDft_stF c k cN sN cNi sNi h]; rfl
  have eB2 : ∀ i, val (bIm (Cfg.parts c) mat ncols j t i) = qM c k cN sN mat ncols j (t + 2 ^ k) i := by
    intro i
    unfold bIm qM
    rw [matDft_stF c k cN sN cNi sNi h, hm]; rfl
  have q1 := p1.congr (x' := xRe (qA c k cN sN a asl t) (qA c k cN sN a asl (t + 2 ^ k)) (qM c k cN sN mat ncols j t)
      (qM c k cN sN mat ncols j (t + 2 ^ k)))
    (m' := mRe (qA c k cN sN a asl t) (qA c k cN sN a asl (t + 2 ^ k)) (qM c k cN sN mat ncols j t)
      (qM c k cN sN mat ncols j (t + 2 ^ k)))
    (fun i hi => by simp only [xRe]; rw [eA1 i hi, eA2 i hi, eB1 i, eB2 i])
    (fun i hi => by simp only [mRe]; rw [eA1 i hi, eA2 i hi, eB1 i, eB2 i])
  have q2 := p2.congr (x' := xIm (qA c k cN sN a asl t) (qA c k cN sN a asl (t + 2 ^ k)) (qM c k cN sN mat ncols j t)
      (qM c k cN sN mat ncols j (t + 2 ^ k)))
    (m' := mIm (qA c k cN sN a asl t) (qA c k cN sN a asl (t + 2 ^ k)) (qM c k cN sN mat ncols j t)
      (qM c k cN sN mat ncols j (t + 2 ^ k)))
    (fun i hi => by simp only [xIm]; rw [eA1 i hi, eA2 i hi, eB1 i, eB2 i])
    (fun i hi => by simp only [mIm]; rw [eA1 i hi, eA2 i hi, eB1 i, eB2 i])
  have eres : vmpRes c mat nrows ncols a asz asl rsz =
      vmpApplyDftToDft (Cfg.parts c) rsz adft asz (vmpPrepare (Cfg.parts c) mat nrows ncols) nrows ncols := by
    rw [hadft]; rfl
  rw [hnn] at c1 c2
  rw [hm] at c2
  replace c1 : (vmpApplyDftToDft (Cfg.parts c) rsz adft asz (vmpPrepare (Cfg.parts c) mat nrows ncols) nrows ncols).getD
      (j * (2 * 2 ^ k) + t) 0 = colRe (Cfg.parts c) (colKind (Cfg.parts c) ncols rsz j) adft mat ncols (min nrows asz) j t := c1
  replace c2 : (vmpApplyDftToDft (Cfg.parts c) rsz adft asz (vmpPrepare (Cfg.parts c) mat nrows ncols) nrows ncols).getD
      (j * (2 * 2 ^ k) + t + 2 ^ k) 0 =
        colIm (Cfg.parts c) (colKind (Cfg.parts c) ncols rsz j) adft mat ncols (min nrows asz) j t := c2
  have hnn' : (pOk c).nn = 2 * 2 ^ k := hnn
  have hm' : (pOk c).m = 2 ^ k := hm
  rw [hnn'] at d1 d2
  rw [hm'] at d2
  constructor
  · intro hf
    have hf' : (colRe (pOk c) (colKind (pOk c) ncols rsz j) (adft.map lift) mat ncols (min nrows asz) j t).2 := by
      rw [← d1, hadft]; exact hf
    obtain ⟨f, e⟩ := t1 hf'
    rw [eres, c1]
    refine ⟨f, ?_⟩
    have e' : val (colRe (Cfg.parts c) (colKind (Cfg.parts c) ncols rsz j) adft mat ncols (min nrows asz) j t) = _ := e
    rw [e']; exact q1
  · intro hf
    have hf' : (colIm (pOk c) (colKind (pOk c) ncols rsz j) (adft.map lift) mat ncols (min nrows asz) j t).2 := by
      rw [← d2, hadft]; exact hf
    obtain ⟨f, e⟩ := t2 hf'
    rw [eres, c2]
    refine ⟨f, ?_⟩
    have e' : val (colIm (Cfg.parts c) (colKind (Cfg.parts c) ncols rsz j) adft mat ncols (min nrows asz) j t) = _ := e
    rw [e']; exact q2

end Spq.VmpErr
