/-
  Assembly of the in-place automorphism theorems: initial assignments, the level loop against `Coeffs.autLevels`
  (`memOf_loopN_levels`), the five cases from `SrcAutLevel.lean`.
-/
import SpqProofs.Lemmas.SrcAutLevel

namespace Spq.CIR
/- proof script of the in-place automorphism kernels; expects `t ht nn hnn p hp mem r hr` in the context; takes the
   generated function, the `Ops Int` instance and the five level lemmas of `SrcAutLevel.lean`. -/
set_option hygiene false in
macro "src_autin_proof" fn:ident o:term:max c1:ident c2:ident c3:ident c4:ident c5:ident : tactic =>
  `(tactic| (
    intro fuel hf
    have hn1 : 1 ≤ nn := hnn ▸ one_le_pow2 t
    have hn2 : nn ≤ 4611686018427387904 := by
      have : 2 ^ t ≤ 2 ^ 62 := Nat.pow_le_pow_right (by decide) ht
      have e : (2 : Nat) ^ 62 = 4611686018427387904 := by decide
      omega
    have hrm : r < mem.size := lt_size_of_buf_size_pos mem r (by omega)
    have em : ((2 % 18446744073709551616 * (nn : Int) % 18446744073709551616 - 1 % 18446744073709551616)
        % 18446744073709551616) = ((2 * nn - 1 : Nat) : Int) := by omega
    have em1 : (((nn : Int) - 1 % 18446744073709551616) % 18446744073709551616) = ((nn - 1 : Nat) : Int) := by omega
    -- p reduced mod 2nn
    obtain ⟨pm, hpmdef⟩ : ∃ pm, pm = posMask p (2 * nn) := ⟨_, rfl⟩
    have hpm2 : pm < 2 * nn := hpmdef ▸ posMask_lt' p (2 * nn) (by omega)
    have e2n : 2 * nn - 1 = 2 ^ (t + 1) - 1 := by rw [hnn, two_mul_pow]
    have hpmask : ∀ x : Int, (x % 18446744073709551616).toNat &&& (2 * nn - 1) = posMask x (2 * nn) := by
      intro x
      rw [e2n, u64_and_mask x (t + 1) (by omega), ← two_mul_pow, ← hnn]
      rfl
    cir_enter $fn
    cir_simp
    rw [em, em1, evalBin_shr_u64_one]; cir_simp
    simp only [Int.toNat_natCast]
    rw [hpmask p, ← hpmdef]
    have hpm63 : pm < 9223372036854775808 := by omega
    have ew : wrapS ((pm : Nat) : Int) = (pm : Int) := wrapS_nat pm hpm63
    show memOf (exec _ _ fuel ⟨[(nn : Int), wrapS (pm : Int), _, _, _, _, _, _, _, _, _, _, _, _, _, _, _, _, _, _, _, _], _⟩) = _
    rw [ew, exec_for_eq]; cir_simp
    simp only [Int.toNat_natCast]
    have evp : ((pm : Int) % 18446744073709551616).toNat &&& (2 * nn - 1) = pm := by
      rw [hpmask (pm : Int)]
      exact posMask_natCast pm (2 * nn) hpm2
    rw [evp]
    have e1 : (1 : Int) % 18446744073709551616 = ((1 : Nat) : Int) := by decide
    rw [e1, forLoop_def]
    -- the level loop
    let g0 : LG := ⟨0, 1, pm, nn / 2, buf mem r, [0, 0, 0, 0, 0, 0, 0, 0, 0, 0, 0, 0, 0, 0]⟩
    have hg0 : LGood t nn g0 := ⟨rfl, Nat.zero_le _, hpm2, Nat.div_le_self nn 2, hr, rfl⟩
    have e0 : ∀ env, (⟨env, mem⟩ : State) = ⟨env, mem.setIfInBounds r (buf mem r)⟩ := fun env => by
      rw [set_buf_self]
    rw [e0]
    change memOf (loopN _ _ fuel (lS nn pm mem r g0)) = _
    let modelL : Nat → LG → Mem := fun m g =>
      mem.setIfInBounds r (Coeffs.autLevels $o nn pm m g.binval g.vp g.orb g.res)
    rw [memOf_loopN_levels _ _ (lS nn pm mem r) (LGood t nn) (fun g => decide (g.binval < nn))
      (fun g M => ∀ m, modelL (m + 1) g = M)
      (fun g g' => (∀ m, modelL (m + 1) g = modelL m g') ∧ (t - g'.l) + 1 ≤ t - g.l)
      modelL (fun g => t - g.l) (3 * nn) ?hcond ?hrank ?hstop ?hdone ?hnext ?hstep 64 g0 fuel hg0 (by
        show t - 0 ≤ 64
        omega) (by
        show t - 0 + 3 * nn ≤ fuel
        omega)]
    · show R.ok (mem.setIfInBounds r (Coeffs.autLevels $o nn pm 64 1 pm (nn / 2) (buf mem r))) = _
      subst hpmdef
      rfl
    case hcond =>
      intro g
      simp only [lS, List.cons_append, List.nil_append]; cir_simp
      simp only [Nat.cast_lt]
    case hrank =>
      intro g hI hc
      obtain ⟨h1, h2, _⟩ := hI
      have hlt : g.binval < nn := by simpa using hc
      have hlt2 : 2 ^ g.l < 2 ^ t := by rw [← h1, ← hnn]; exact hlt
      have := (Nat.pow_lt_pow_iff_right (a := 2) (by decide)).mp hlt2
      omega
    case hstop =>
      intro m g hc
      have hge : ¬ g.binval < nn := by simpa using hc
      simp only [modelL, lS]
      cases m with
      | zero => rfl
      | succ m => unfold Coeffs.autLevels; rw [if_neg hge]
    case hdone => intro m g M _ h; exact h m
    case hnext => intro m g g' _ h; exact ⟨h.1 m, h.2⟩
    case hstep =>
      intro g hI hc f hf3
      obtain ⟨l, binval, vp, orb, res, rest⟩ := g
      obtain ⟨hbin, hl, hvp, horb, hres, hrest⟩ := hI
      simp only at hbin hl hvp horb hres hrest hc
      have hlt : binval < nn := by simpa using hc
      obtain ⟨x8, x9, x10, x11, x12, x13, x14, x15, x16, x17, x18, x19, x20, x21, rfl⟩ := list_len14 rest hrest
      have hpm1 : pm % 2 = 1 := hpmdef ▸ posMask_odd' nn (by omega) p hp
      have hb0 : binval % nn ≠ 0 := by
        have hb1 : 1 ≤ binval := hbin ▸ Nat.one_le_two_pow
        rw [Nat.mod_eq_of_lt hlt]; omega
      have hl1 : l + 1 ≤ t := by
        have hlt2 : 2 ^ l < 2 ^ t := by rw [← hbin, ← hnn]; exact hlt
        have := (Nat.pow_lt_pow_iff_right (a := 2) (by decide)).mp hlt2
        omega
      have hbin' : 2 * binval = 2 ^ (l + 1) := by rw [hbin, two_mul_pow]
      have hmodel := fun m => autLevels_succ $o nn pm m binval vp orb res hlt
      have hvp' : (2 * vp) % (2 * nn) < 2 * nn := Nat.mod_lt _ (by omega)
      have horb' : orb / 2 ≤ nn := by have := Nat.div_le_self orb 2; omega
      show (∃ σ', levelStep $fn r f (lS nn pm mem r _) = _ ∧ _) ∨ (∃ g', levelStep $fn r f (lS nn pm mem r _) = _ ∧ _)
      by_cases h1 : vp = binval
      · left
        refine ⟨_, $c1 t ht nn hnn pm hpm2 hpm1 mem r hrm l binval vp orb res x8 x9 x10 x11 x12 x13 x14 x15 x16 x17
          x18 x19 x20 x21 hbin hvp horb hres hlt h1 f, ?_⟩
        intro m
        simp only [modelL, hmodel, if_pos h1, lS]
      by_cases h2 : (vp + binval) % (2 * nn) = 0
      · left
        obtain ⟨σ', e1, e2⟩ := $c2 t ht nn hnn pm hpm2 hpm1 mem r hrm l binval vp orb res x8 x9 x10 x11 x12 x13 x14
          x15 x16 x17 x18 x19 x20 x21 hbin hvp horb hres hlt h1 h2 f hf3
        refine ⟨σ', e1, ?_⟩
        intro m
        simp only [modelL, hmodel, if_neg h1, if_pos h2, e2]
      by_cases h3 : (vp + 2 * nn - binval) % nn = 0
      · left
        obtain ⟨σ', e1, e2⟩ := $c3 t ht nn hnn pm hpm2 hpm1 mem r hrm l binval vp orb res x8 x9 x10 x11 x12 x13 x14
          x15 x16 x17 x18 x19 x20 x21 hbin hvp horb hres hlt h1 h2 h3 f hf3
        refine ⟨σ', e1, ?_⟩
        intro m
        simp only [modelL, hmodel, if_neg h1, if_neg h2, if_pos h3, e2]
      by_cases h4 : (vp + binval) % nn = 0
      · right
        obtain ⟨rest', hlen, e1⟩ := $c4 t ht nn hnn pm hpm2 hpm1 mem r hrm l binval vp orb res x8 x9 x10 x11 x12 x13
          x14 x15 x16 x17 x18 x19 x20 x21 hbin hvp horb hres hlt h1 h2 h3 h4 f hf3
        refine ⟨⟨l + 1, 2 * binval, (2 * vp) % (2 * nn), orb / 2, mMirror $o nn binval res, rest'⟩, e1, ⟨?_, ?_⟩,
          ⟨hbin', hl1, hvp', horb', by rw [mMirror_size]; exact hres, hlen⟩⟩
        · intro m
          simp only [modelL, hmodel, if_neg h1, if_neg h2, if_neg h3, if_pos h4]
        · show t - (l + 1) + 1 ≤ t - l
          omega
      · right
        obtain ⟨rest', hlen, e1⟩ := $c5 t ht nn hnn pm hpm2 hpm1 mem r hrm l binval vp orb res x8 x9 x10 x11 x12 x13
          x14 x15 x16 x17 x18 x19 x20 x21 hbin hvp horb hres hlt h1 h2 h3 h4 f hf3
        have hsz : (Coeffs.autWalkAll $o nn pm orb nn binval 0 res).size = nn := by
          have := autWalkAll_size $o t pm orb binval res (hnn ▸ hlt) (hnn ▸ hb0) (hnn ▸ hres) (by rw [← hnn]; omega)
          rw [← hnn] at this
          exact this
        refine ⟨⟨l + 1, 2 * binval, (2 * vp) % (2 * nn), orb / 2, Coeffs.autWalkAll $o nn pm orb nn binval 0 res,
          rest'⟩, e1, ⟨?_, ?_⟩, ⟨hbin', hl1, hvp', horb', hsz, hlen⟩⟩
        · intro m
          simp only [modelL, hmodel, if_neg h1, if_neg h2, if_neg h3, if_neg h4]
        · show t - (l + 1) + 1 ≤ t - l
          omega))
end Spq.CIR
