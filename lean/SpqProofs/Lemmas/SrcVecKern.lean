/-
  The coefficient kernels called on windows of an arena buffer (as the limb-vector wrappers call them): each
  lemma is the kernel's source theorem (`Properties/SrcElem.lean`, `SrcRot.lean`) transported through the window
  abstraction (`run_window`).  The side conditions `simple` / `wrPtrs` are decided on the generated terms.
-/
import SpqProofs.Lemmas.SrcArena
import SpqProofs.Properties.SrcElem
import SpqProofs.Properties.SrcRot
namespace Spq.CIR
open Spq Spq.Src

section
variable (m0 : Mem) (B : Nat) (hB : B < m0.size) (X : Array Int) (nn : Nat)
include hB

theorem arena_zero (hnn : nn < 2305843009213693952) (ro : Nat) (hr : ro + nn ≤ X.size) :
    ∀ fuel, run fuel Gen.CSrc.znx_zero_i64_ref [(nn : Int)] [some (B, ro)] (m0.setIfInBounds B X)
      = .ok (m0.setIfInBounds B (Heap.writeArr X ro (Coeffs.zero i64Ops nn))) := by
  intro fuel
  have hk := src_znx_zero_i64_ref_eq_model nn hnn #[win X ro nn] 0 (by simp [buf]) fuel
  have := run_window B nn _ _ 0 0 ro m0 X hB (win1 B nn ro) Gen.CSrc.znx_zero_i64_ref (by decide) (by decide)
    _ _ (mr1 B nn ro X hr) rfl rfl _ fuel hk
  rw [this]
  simp [buf]

theorem arena_copy (hnn : nn < 2305843009213693952) (ro ao : Nat) (hr : ro + nn ≤ X.size)
    (ha : ao + nn ≤ X.size) (hd : SameOrDisj nn ro ao) :
    ∀ fuel, run fuel Gen.CSrc.znx_copy_i64_ref [(nn : Int)] [some (B, ro), some (B, ao)] (m0.setIfInBounds B X)
      = .ok (m0.setIfInBounds B (Heap.writeArr X ro (Coeffs.copy i64Ops nn (win X ao nn)))) := by
  intro fuel
  have hk := src_znx_copy_i64_ref_eq_model nn hnn #[win X ro nn, win X ao nn] 0 (kOf ao ro 1)
    (by simp [buf]) (by rw [buf_kOf2]; simp) fuel
  have := run_window B nn _ _ 0 0 ro m0 X hB (win2 B nn ro ao hd) Gen.CSrc.znx_copy_i64_ref (by decide) (by decide)
    _ _ (mr2 B nn ro ao X hr ha) rfl rfl _ fuel hk
  rw [this, buf_kOf2]
  simp [buf]

theorem arena_negate (hnn : nn < 18446744073709551616) (ro ao : Nat) (hr : ro + nn ≤ X.size)
    (ha : ao + nn ≤ X.size) (hd : SameOrDisj nn ro ao) :
    ∀ fuel, nn ≤ fuel →
      run fuel Gen.CSrc.znx_negate_i64_ref [(nn : Int)] [some (B, ro), some (B, ao)] (m0.setIfInBounds B X)
        = .ok (m0.setIfInBounds B (Heap.writeArr X ro (Coeffs.negate i64Ops nn (win X ao nn)))) := by
  intro fuel hf
  have hk := src_znx_negate_i64_ref_eq_model nn hnn #[win X ro nn, win X ao nn] 0 (kOf ao ro 1)
    (by simp [buf]) (by rw [buf_kOf2]; simp) fuel hf
  have := run_window B nn _ _ 0 0 ro m0 X hB (win2 B nn ro ao hd) Gen.CSrc.znx_negate_i64_ref (by decide)
    (by decide) _ _ (mr2 B nn ro ao X hr ha) rfl rfl _ fuel hk
  rw [this, buf_kOf2]
  simp [buf]

theorem arena_add (hnn : nn < 18446744073709551616) (ro ao bo : Nat) (hr : ro + nn ≤ X.size)
    (ha : ao + nn ≤ X.size) (hb : bo + nn ≤ X.size) (hda : SameOrDisj nn ro ao) (hdb : SameOrDisj nn ro bo) :
    ∀ fuel, nn ≤ fuel →
      run fuel Gen.CSrc.znx_add_i64_ref [(nn : Int)] [some (B, ro), some (B, ao), some (B, bo)]
          (m0.setIfInBounds B X)
        = .ok (m0.setIfInBounds B (Heap.writeArr X ro (Coeffs.add i64Ops nn (win X ao nn) (win X bo nn)))) := by
  intro fuel hf
  have hk := src_znx_add_i64_ref_eq_model nn hnn #[win X ro nn, win X ao nn, win X bo nn] 0 (kOf ao ro 1)
    (kOf bo ro 2) (by simp [buf]) (by rw [buf_kOf3a]; simp) (by rw [buf_kOf3b]; simp) fuel hf
  have := run_window B nn _ _ 0 0 ro m0 X hB (win3 B nn ro ao bo hda hdb) Gen.CSrc.znx_add_i64_ref (by decide)
    (by decide) _ _ (mr3 B nn ro ao bo X hr ha hb) rfl rfl _ fuel hk
  rw [this, buf_kOf3a, buf_kOf3b]
  simp [buf]

theorem arena_sub (hnn : nn < 18446744073709551616) (ro ao bo : Nat) (hr : ro + nn ≤ X.size)
    (ha : ao + nn ≤ X.size) (hb : bo + nn ≤ X.size) (hda : SameOrDisj nn ro ao) (hdb : SameOrDisj nn ro bo) :
    ∀ fuel, nn ≤ fuel →
      run fuel Gen.CSrc.znx_sub_i64_ref [(nn : Int)] [some (B, ro), some (B, ao), some (B, bo)]
          (m0.setIfInBounds B X)
        = .ok (m0.setIfInBounds B (Heap.writeArr X ro (Coeffs.sub i64Ops nn (win X ao nn) (win X bo nn)))) := by
  intro fuel hf
  have hk := src_znx_sub_i64_ref_eq_model nn hnn #[win X ro nn, win X ao nn, win X bo nn] 0 (kOf ao ro 1)
    (kOf bo ro 2) (by simp [buf]) (by rw [buf_kOf3a]; simp) (by rw [buf_kOf3b]; simp) fuel hf
  have := run_window B nn _ _ 0 0 ro m0 X hB (win3 B nn ro ao bo hda hdb) Gen.CSrc.znx_sub_i64_ref (by decide)
    (by decide) _ _ (mr3 B nn ro ao bo X hr ha hb) rfl rfl _ fuel hk
  rw [this, buf_kOf3a, buf_kOf3b]
  simp [buf]

end
end Spq.CIR

namespace Spq.CIR
open Spq Spq.Src

section
variable (m0 : Mem) (B : Nat) (hB : B < m0.size) (X : Array Int) (nn : Nat)
include hB

theorem arena_rotate (t : Nat) (ht : t ≤ 63) (hnn : nn = 2 ^ t) (p : Int) (ro ao : Nat) (hr : ro + nn ≤ X.size)
    (ha : ao + nn ≤ X.size) (hd : ro + nn ≤ ao ∨ ao + nn ≤ ro) :
    ∀ fuel, nn ≤ fuel →
      run fuel Gen.CSrc.znx_rotate_i64 [(nn : Int), p] [some (B, ro), some (B, ao)] (m0.setIfInBounds B X)
        = .ok (m0.setIfInBounds B (Heap.writeArr X ro (Coeffs.rotate i64Ops nn p (win X ao nn)))) := by
  intro fuel hf
  have hn1 : 1 ≤ nn := hnn ▸ one_le_pow2 t
  have hne : ao ≠ ro := by omega
  have hk1 : kOf ao ro 1 = 1 := by simp [kOf, hne]
  have hk := src_znx_rotate_i64_eq_model t ht nn hnn p #[win X ro nn, win X ao nn] 0 1 (by decide)
    (by simp [buf]) (by simp [buf]) fuel hf
  have hW := win2 B nn ro ao (Or.inr hd)
  have hM := mr2 B nn ro ao X hr ha
  rw [hk1] at hW hM
  have := run_window B nn _ _ 0 0 ro m0 X hB hW Gen.CSrc.znx_rotate_i64 (by decide) (by decide)
    _ _ hM rfl rfl _ fuel hk
  rw [this]
  simp [buf]

theorem arena_rotate_inplace (t : Nat) (ht : t ≤ 63) (hnn : nn = 2 ^ t) (p : Int) (ro : Nat)
    (hr : ro + nn ≤ X.size) :
    ∀ fuel, 2 * nn ≤ fuel →
      run fuel Gen.CSrc.znx_rotate_inplace_i64 [(nn : Int), p] [some (B, ro)] (m0.setIfInBounds B X)
        = .ok (m0.setIfInBounds B (Heap.writeArr X ro (Coeffs.rotateInplace i64Ops nn p (win X ro nn)))) := by
  intro fuel hf
  have hk := src_znx_rotate_inplace_i64_eq_model t ht nn hnn p #[win X ro nn] 0 (by simp [buf]) fuel hf
  have := run_window B nn _ _ 0 0 ro m0 X hB (win1 B nn ro) Gen.CSrc.znx_rotate_inplace_i64 (by decide)
    (by decide) _ _ (mr1 B nn ro X hr) rfl rfl _ fuel hk
  rw [this]
  simp [buf]

end
end Spq.CIR
