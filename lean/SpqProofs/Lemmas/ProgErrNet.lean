/-
  C16, binary64 side: the binary64 budget `PreF` of a program implies the (shape-only) preconditions of the
  exact-network instance `Closed.dftOpsSound_network`, so the binary64 run and the exact-arithmetic run of the SAME
  model code can be compared (`Properties/C16Err.lean`, `f64_agrees_with_exact_network_partial`).
-/
import SpqProofs.Lemmas.ProgErrRun
import SpqProofs.Properties.Closed
set_option linter.unusedSectionVars false
namespace Spq.ProgErr
open Spq Spq.Module Spq.Prog Spq.Closed Spq.ClosedProps
variable {K : Type} [Field K] [LinearOrder K] [IsStrictOrderedRing K] {vars : List Var}
variable {R : Type} [CommRing R]

theorem preD_network_of_f64 (M : F64Mod K) (rt : RootData R M.k) (fl : Flags) (hfl : fl.ok M.k) (op : OpD) (a : AState)
    (h : PreF M vars op a) : PreD (dftOpsSound_network rt fl hfl) vars op a := by
  cases op with
  | coeff op => exact h
  | dft d x => exact ⟨h.1, trivial⟩
  | svpPrepare k x => exact ⟨h.1, h.2.1, trivial⟩
  | svp d k x =>
    obtain ⟨hx, sp, hk, _⟩ := h
    exact ⟨hx, sp, hk, trivial⟩
  | vmpPrepare m x => exact ⟨h.1, h.2.1, h.2.2.1, trivial⟩
  | vmp d x m =>
    obtain ⟨hx, Mv, hm, _⟩ := h
    exact ⟨hx, Mv, hm, trivial⟩
  | vmpDD d x m =>
    obtain ⟨hne, P, Mv, hP, hm, _⟩ := h
    exact ⟨hne, P, Mv, hP, hm, trivial⟩
  | idft d x =>
    obtain ⟨hd, P, hP, _⟩ := h
    exact ⟨hd, P, hP, trivial⟩
  | smallProduct d x y =>
    obtain ⟨hd, hx, hy, h1, h2, h3, _⟩ := h
    exact ⟨hd, hx, hy, h1, h2, h3, trivial⟩

theorem guarded_network_of_f64 (M : F64Mod K) (rt : RootData R M.k) (fl : Flags) (hfl : fl.ok M.k) :
    ∀ (ops : List OpD) (a : AState), Guarded (PreF M vars) (astepD M.N) ops a →
      Guarded (PreD (dftOpsSound_network rt fl hfl) vars) (astepD M.N) ops a
  | [], _, _ => trivial
  | op :: ops, a, h => ⟨preD_network_of_f64 M rt fl hfl op a h.1, guarded_network_of_f64 M rt fl hfl ops _ h.2⟩

end Spq.ProgErr
