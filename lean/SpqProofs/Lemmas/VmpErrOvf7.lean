/-
  No-overflow from a magnitude box, step 7: assembly for `fft64_znx_small_single_product`.
  `PipeOkU`: the underflow-only flags of the four stages; `pipe_no_ovf`: with the coefficient box and twiddles bounded
  by 1, `PipeOkU` implies `ProdErr.PipeOk` for every `k ≤ 100`.
-/
import SpqProofs.Lemmas.VmpErrOvf6
import SpqProofs.Lemmas.VmpErrStage
set_option linter.unusedSectionVars false
namespace Spq.VmpErr
open Spq Spq.Module Spq.Fft Spq.Fft.Alg Spq.Fft.RelN Spq.Fft.SimP Spq.Fft.LevelN Spq.Fft.SchedN Spq.Fft.Sim Spq.FftErr Spq.F64
  Spq.Reim4 Spq.ProdErr

theorem pow8 (k : ℕ) : (8 : ℚ) ^ k = 2 ^ (3 * k) := by rw [pow_mul]; norm_num

theorem pow2_lt_Tov (e : ℕ) (h : e < 1023) : (2 : ℚ) ^ e < Tov := by
  unfold Tov; exact pow_lt_pow_right₀ (by norm_num) h

/-- forward transform with the flavour selector of the module -/
theorem fft_no_ovf' (fma : Bool) (k : ℕ) (cN sN : ℕ → ℕ) (htab : TabOk cN sN) (data : Array ℕ)
    (hdata : data.size = 2 * 2 ^ k) (U0 : ℚ) (hU0 : 0 ≤ U0) (hd : ∀ p, p < 2 * 2 ^ k → |val data[p]!| ≤ U0)
    (hT : 8 ^ k * U0 < Tov)
    (hokU : ∀ p, p < 2 * 2 ^ k →
      ((reimFftA (famOf fma aU) (2 ^ k) ((((reimFftEnts (2 ^ k)).map (valP cN sN)).toArray).map lift) (data.map lift))[p]!).2) :
    ∀ p, p < 2 * 2 ^ k →
      ((reimFftA (famOf fma aOk) (2 ^ k) ((((reimFftEnts (2 ^ k)).map (valP cN sN)).toArray).map lift) (data.map lift))[p]!).2 ∧
      Fin64 ((reimFft (if fma then "fma" else "ref") (2 ^ k) (tabF k cN sN) data)[p]!) ∧
      |val ((reimFft (if fma then "fma" else "ref") (2 ^ k) (tabF k cN sN) data)[p]!)| ≤ 8 ^ k * U0 := by
  rw [reimFft_eq]
  unfold tabF
  cases fma
  · exact fft_no_ovf (fun {α} A => fwdRef (α := α) A) famRef fwdRef_bd k cN sN htab data hdata U0 hU0 hd hT hokU
  · exact fft_no_ovf (fun {α} A => fwdFma (α := α) A) famFma fwdFma_bd k cN sN htab data hdata U0 hU0 hd hT hokU

theorem ifft_no_ovf' (fma : Bool) (k : ℕ) (cN sN : ℕ → ℕ) (htab : TabOk cN sN) (data : Array ℕ)
    (hdata : data.size = 2 * 2 ^ k) (U0 : ℚ) (hU0 : 0 ≤ U0) (hd : ∀ p, p < 2 * 2 ^ k → |val data[p]!| ≤ U0)
    (hT : 8 ^ k * U0 < Tov)
    (hokU : ∀ p, p < 2 * 2 ^ k →
      ((reimIfftA (ifamOf fma aU) (2 ^ k) ((((reimIfftEnts (2 ^ k)).map (valP cN sN)).toArray).map lift) (data.map lift))[p]!).2) :
    ∀ p, p < 2 * 2 ^ k →
      ((reimIfftA (ifamOf fma aOk) (2 ^ k) ((((reimIfftEnts (2 ^ k)).map (valP cN sN)).toArray).map lift) (data.map lift))[p]!).2 ∧
      Fin64 ((reimIfft (if fma then "fma" else "ref") (2 ^ k) (tabI k cN sN) data)[p]!) ∧
      |val ((reimIfft (if fma then "fma" else "ref") (2 ^ k) (tabI k cN sN) data)[p]!)| ≤ 8 ^ k * U0 := by
  rw [reimIfft_eq]
  unfold tabI
  cases fma
  · exact ifft_no_ovf (fun {α} A => invRef (α := α) A) famIRef invRef_bd k cN sN htab data hdata U0 hU0 hd hT hokU
  · exact ifft_no_ovf (fun {α} A => invFma (α := α) A) famIFma invFma_bd k cN sN htab data hdata U0 hU0 hd hT hokU

/-- underflow-only flags of one forward transform of the integer polynomial `x` -/
def FwdOkU (c : Cfg) (k : ℕ) (cN sN : ℕ → ℕ) (x : Array Int) : Prop :=
  ∀ p, p < 2 * 2 ^ k →
    ((reimFftA (famOf c.fftFma aU) (2 ^ k) ((((reimFftEnts (2 ^ k)).map (valP cN sN)).toArray).map lift)
      (((Cfg.parts c).fromZnx x).map lift))[p]!).2

/-- forward stage of an integer polynomial in the box: underflow-only flags ⇒ full flags, outputs `≤ 2^(50+3k)` -/
theorem fwd_no_ovf (c : Cfg) (k : ℕ) (hk : k ≤ 100) (cN sN cNi sNi : ℕ → ℕ) (h : CfgOk c k cN sN cNi sNi)
    (htab : TabOk cN sN) (x : Array Int) (hx : Box k x) (hokU : FwdOkU c k cN sN x) :
    FwdOk c k cN sN x ∧
    ∀ p, p < 2 * 2 ^ k → Fin64 ((stF c k cN sN x)[p]!) ∧ |val ((stF c k cN sN x)[p]!)| ≤ 2 ^ (50 + 3 * k) := by
  obtain ⟨hsz, hv⟩ := fromZnx_spec c k h.nn h.fromBnd50 x hx
  have hd : ∀ p, p < 2 * 2 ^ k → |val ((Cfg.parts c).fromZnx x)[p]!| ≤ (2 : ℚ) ^ 50 := by
    intro p hp
    rw [getElem!_nat, hv p hp]
    obtain ⟨b1, b2⟩ := hx p hp
    have h1 : |(x.getD p 0 : ℚ)| = ((|x.getD p 0| : ℤ) : ℚ) := by push_cast; rfl
    rw [h1]
    have : |x.getD p 0| ≤ 1125899906842624 := by rw [abs_le]; omega
    have := (Int.cast_le (R := ℚ)).2 this
    refine le_trans this ?_
    norm_num
  have hT : (8 : ℚ) ^ k * 2 ^ 50 < Tov := by
    rw [pow8, ← pow_add]; exact pow2_lt_Tov _ (by omega)
  have r := fft_no_ovf' c.fftFma k cN sN htab _ hsz (2 ^ 50) (by positivity) hd hT hokU
  have e : (8 : ℚ) ^ k * 2 ^ 50 = 2 ^ (50 + 3 * k) := by rw [pow8, ← pow_add, Nat.add_comm]
  rw [e] at r
  exact ⟨fun p hp => (r p hp).1, fun p hp => (r p hp).2⟩

/-- **the underflow-only flags of the pipeline** (`ProdErr.PipeOk` with `NoUnd` in place of `NormalRange`) -/
structure PipeOkU (c : Cfg) (k : ℕ) (cN sN cNi sNi : ℕ → ℕ) (a b : Array Int) : Prop where
  okA : FwdOkU c k cN sN a
  okB : FwdOkU c k cN sN b
  okM : ∀ p, p < 2 * 2 ^ k →
    ((mulA arithU c.mulFma (2 ^ k) ((stF c k cN sN a).map lift) ((stF c k cN sN b).map lift)).getD p arithU.zero).2
  okI : ∀ p, p < 2 * 2 ^ k →
    ((reimIfftA (ifamOf c.ifftFma aU) (2 ^ k) ((((reimIfftEnts (2 ^ k)).map (valP cNi sNi)).toArray).map lift)
      ((stM c k cN sN a b).map lift))[p]!).2

theorem pipe_no_ovf (c : Cfg) (k : ℕ) (hk : k ≤ 100) (cN sN cNi sNi : ℕ → ℕ) (h : CfgOk c k cN sN cNi sNi)
    (htab : TabOk cN sN) (htabi : TabOk cNi sNi) (a b : Array Int) (ha : Box k a) (hb : Box k b)
    (hok : PipeOkU c k cN sN cNi sNi a b) : PipeOk c k cN sN cNi sNi a b := by
  obtain ⟨fa, ba⟩ := fwd_no_ovf c k hk cN sN cNi sNi h htab a ha hok.okA
  obtain ⟨fb, bb⟩ := fwd_no_ovf c k hk cN sN cNi sNi h htab b hb hok.okB
  have hm4 : c.mulFma = true → 2 ^ k % 4 = 0 := fun hf => pow_mod_four' k (h.mulFma hf)
  have hU : (0 : ℚ) ≤ 2 ^ (50 + 3 * k) := by positivity
  have eP : (4 : ℚ) * (2 ^ (50 + 3 * k) * 2 ^ (50 + 3 * k)) = 2 ^ (102 + 6 * k) := by
    rw [show (4 : ℚ) = 2 ^ 2 by norm_num, ← pow_add, ← pow_add]; congr 1; omega
  have hTm : (4 : ℚ) * (2 ^ (50 + 3 * k) * 2 ^ (50 + 3 * k)) < Tov := by
    rw [eP]; exact pow2_lt_Tov _ (by omega)
  have rm := mul_no_ovf c.mulFma (2 ^ k) hm4 (stF c k cN sN a) (stF c k cN sN b) _ _ hU hU
    (fun p hp => by rw [← getElem!_nat]; exact (ba p hp).2) (fun p hp => by rw [← getElem!_nat]; exact (bb p hp).2) hTm hok.okM
  have hMsz : (stM c k cN sN a b).size = 2 * 2 ^ k := (mulA_cells F64.arith c.mulFma (2 ^ k) hm4 _ _).1
  have hTi : (8 : ℚ) ^ k * (4 * (2 ^ (50 + 3 * k) * 2 ^ (50 + 3 * k))) < Tov := by
    rw [eP, pow8, ← pow_add]; exact pow2_lt_Tov _ (by omega)
  have ri := ifft_no_ovf' c.ifftFma k cNi sNi htabi (stM c k cN sN a b) hMsz _ (by positivity)
    (fun p hp => by rw [getElem!_nat]; exact (rm p hp).2.2) hTi hok.okI
  exact ⟨fa, fb, fun p hp => (rm p hp).1, fun p hp => (ri p hp).1⟩

end Spq.VmpErr
