/-
  C02.2: under H1–H4 the vector-matrix product, after the inverse DFT, is the sum of negacyclic products.
-/
import SpqProofs.Lemmas.ModuleVmpSmall
import SpqProofs.Lemmas.ModuleVmpCongr
namespace Spq.Module
open Finset Spq Reim4
variable {R : Type} [CommRing R]

/-- entry (i, j) of the integer matrix (row-major, `nn` coefficients per entry) -/
def matEntry (mat : Array Int) (ncols nn i j : Nat) : Array Int :=
  mat.extract ((i * ncols + j) * nn) ((i * ncols + j) * nn + nn)

/-- entries of a full `nrows × ncols` matrix have `nn` coefficients (discharges `hmat`) -/
theorem size_matEntry (mat : Array Int) (nrows ncols nn i j : Nat) (h : nrows * ncols * nn ≤ mat.size) (hi : i < nrows)
    (hj : j < ncols) : (matEntry mat ncols nn i j).size = nn := by
  unfold matEntry
  apply size_extract_of_le
  have h1 : i * ncols + j + 1 ≤ nrows * ncols := by
    have := mul_step i nrows ncols hi
    omega
  have h2 : (i * ncols + j + 1) * nn ≤ nrows * ncols * nn := Nat.mul_le_mul_right nn h1
  have h3 : (i * ncols + j + 1) * nn = (i * ncols + j) * nn + nn := by rw [Nat.add_mul, Nat.one_mul]
  omega

omit [CommRing R] in
theorem matDft_eq (c : Parts R) (mat : Array Int) (ncols i j : Nat) :
    matDft c mat ncols i j = c.fft (c.fromZnx (matEntry mat ncols c.nn i j)) := rfl

/-- the DFT is additive on integer vectors -/
theorem fft_isum (c : Parts R) (z : Nat → Cx R) (ha : ExactArith c) (hd : ExactDft c z) (n : Nat) (f : Nat → Array Int)
    (hf : ∀ i, i < n → (f i).size = c.nn) (j : Nat) (hj : j < c.m) :
    ∑ i ∈ range n, cx (c.fft (c.fromZnx (f i))) j (j + c.m) = cx (c.fft (c.fromZnx (isum c.nn n f))) j (j + c.m) := by
  rw [fft_embed c z ha hd _ (size_isum _ _ _) j hj]
  have : ∀ i ∈ range n, cx (c.fft (c.fromZnx (f i))) j (j + c.m) = evalF c.nn (fun k => zcx R (icoef (f i) k)) (z j) :=
    fun i hi => fft_embed c z ha hd _ (hf i (mem_range.1 hi)) j hj
  rw [sum_congr rfl this]
  unfold evalF
  rw [sum_comm]
  apply sum_congr rfl
  intro k hk
  simp only []
  rw [icoef_isum _ _ _ _ (mem_range.1 hk), map_sum, sum_mul]

/-- `vmp_prepare_contiguous`, `vmp_apply_dft`, `vec_znx_idft` in exact arithmetic -/
theorem vmp_exact_aux (c : Parts R) (z : Nat → Cx R) (ha : ExactArith c) (hd : ExactDft c z) (mat : Array Int)
    (nrows ncols : Nat) (hmat : ∀ i j, i < nrows → j < ncols → (matEntry mat ncols c.nn i j).size = c.nn)
    (a : Array Int) (asz asl : Nat) (hlimb : ∀ i, i < min nrows asz → (limbOf a i asl c.nn).size = c.nn) (rsz rsz2 : Nat) :
    (vecIdft c rsz2 (vmpApplyDft c rsz a asz asl (vmpPrepare c mat nrows ncols) nrows ncols) rsz).size = rsz2 * c.nn ∧
    ∀ j, j < rsz2 →
      dlimb (vecIdft c rsz2 (vmpApplyDft c rsz a asz asl (vmpPrepare c mat nrows ncols) nrows ncols) rsz) j c.nn =
        if j < min ncols rsz then
          isum c.nn (min nrows asz) (fun i => nmul c.nn (limbOf a i asl c.nn) (matEntry mat ncols c.nn i j))
        else Array.replicate c.nn 0 := by
  have hnn := ha.hnn
  have hra : min nrows asz ≤ asz := Nat.min_le_right _ _
  have hrn : min nrows asz ≤ nrows := Nat.min_le_left _ _
  have hcn : min ncols rsz ≤ ncols := Nat.min_le_left _ _
  have hcr : min ncols rsz ≤ rsz := Nat.min_le_right _ _
  obtain ⟨_, b2⟩ := vecDft_spec c (min nrows asz) a asz asl (fun i => c.fft (c.fromZnx (limbOf a i asl c.nn)))
    (fun i hi => by rw [if_pos (by omega)]) (fun i hi => hd.fft_size _ (hd.fromZnx_size _ (hlimb i hi)))
  have hT : ∀ row col, row < nrows → col < ncols → (matDft c mat ncols row col).size = c.nn :=
    fun row col hr hc => hd.fft_size _ (hd.fromZnx_size _ (hmat row col hr hc))
  have hD : vmpApplyDft c rsz a asz asl (vmpPrepare c mat nrows ncols) nrows ncols =
      vmpApplyDftToDft c rsz (vecDft c (min nrows asz) a asz asl) asz (vmpPrepare c mat nrows ncols) nrows ncols := rfl
  obtain ⟨L1, L2, L3⟩ := vmp_layout_aux c ha mat nrows ncols rsz asz (vecDft c (min nrows asz) a asz asl) (fun _ => hT)
  rw [← hD] at L1 L2 L3
  -- the computed columns
  have colj : ∀ j, j < min ncols rsz →
      dlimb (vmpApplyDft c rsz a asz asl (vmpPrepare c mat nrows ncols) nrows ncols) j c.nn =
        c.fft (c.fromZnx (isum c.nn (min nrows asz) (fun i => nmul c.nn (limbOf a i asl c.nn) (matEntry mat ncols c.nn i j)))) := by
    intro j hj
    have hstep := mul_step j rsz c.nn (by omega)
    apply eq_of_cx_reim c.m _ _ (by unfold dlimb; rw [size_extract_of_le _ _ _ (by omega)]; exact hnn)
      (by rw [hd.fft_size _ (hd.fromZnx_size _ (size_isum _ _ _))]; exact hnn)
    intro t ht
    rw [dlimb_cx _ j c.nn c.m t (by omega), L2 j t hj ht,
      ← fft_isum c z ha hd _ _ (fun i _ => size_nmul _ _ _) t ht]
    apply sum_congr rfl
    intro i hi
    have hi := mem_range.1 hi
    rw [← dlimb_cx _ i c.nn c.m t (by omega), b2 i hi, matDft_eq,
      ← (mul_exact c ha _ _).2 t ht, fft_prod c z ha hd _ _ (hlimb i hi) (hmat i j (by omega) (by omega))]
  -- the columns beyond the matrix
  have colz : ∀ j, min ncols rsz ≤ j → j < rsz →
      dlimb (vmpApplyDft c rsz a asz asl (vmpPrepare c mat nrows ncols) nrows ncols) j c.nn = Array.replicate c.nn 0 := by
    intro j hj hjr
    have hstep := mul_step j rsz c.nn hjr
    unfold dlimb
    apply ext_getD 0 _ _ (by rw [size_extract_of_le _ _ _ (by omega)]; simp)
    intro x
    rw [getD_extract, getD_replicate_zero]
    split
    · exact L3 j x hj
    · rfl
  apply vecIdft_spec
  · intro j hj
    by_cases h : j < rsz
    · rw [if_pos h]
      by_cases h2 : j < min ncols rsz
      · rw [if_pos h2, colj j h2, roundtrip c z hd _ (size_isum _ _ _)]
      · rw [if_neg h2, colz j (by omega) h, idft_zero c z ha hd]
    · rw [if_neg h, if_neg (by omega)]
  · intro j hj
    split
    · exact size_isum _ _ _
    · simp

end Spq.Module
