/-
  Array layer of the q120 NTT model: cell-wise reading of a pass, block-by-block = level-by-level
  (`blocks` distributes over passes that only read their own block), shape of the step lists, and the
  description of the level-by-level schedule as a chain of function-level passes (`runAll`).
-/
import SpqProofs.Lemmas.NttCert

namespace Spq.Q120Ntt

/-! ### reading arrays -/

theorem rd_of_lt (x : Array Nat) {i : Nat} (h : i < x.size) : rd x i = x[i] := by
  simp [rd, Array.getD, h]

theorem rd_of_ge (x : Array Nat) {i : Nat} (h : x.size ≤ i) : rd x i = 0 := by
  simp [rd, Array.getD, Nat.not_lt.2 h]

theorem ext_rd {x y : Array Nat} (hs : x.size = y.size) (h : ∀ i < x.size, rd x i = rd y i) : x = y := by
  apply Array.ext hs
  intro i h1 h2
  have := h i h1
  rwa [rd_of_lt x h1, rd_of_lt y h2] at this

@[simp] theorem size_pass (g : (Nat → Nat) → Nat → Nat) (x : Array Nat) : (pass g x).size = x.size := by
  simp [pass]

theorem rd_pass (g : (Nat → Nat) → Nat → Nat) (x : Array Nat) (i : Nat) :
    rd (pass g x) i = if i < x.size then g (rd x) i else 0 := by
  by_cases h : i < x.size
  · rw [rd_of_lt _ (by simpa using h), if_pos h]; simp [pass]
  · rw [rd_of_ge _ (by simpa using h), if_neg h]

theorem rd_pass_fun (g : (Nat → Nat) → Nat → Nat) (x : Array Nat) :
    rd (pass g x) = clip x.size (g (rd x)) := funext fun i => rd_pass g x i

@[simp] theorem size_blocks (bsz : Nat) (g : Array Nat → Array Nat) (x : Array Nat) :
    (blocks bsz g x).size = x.size := by simp [blocks]

theorem rd_blocks (bsz : Nat) (g : Array Nat → Array Nat) (x : Array Nat) (hdiv : bsz ∣ x.size)
    {i : Nat} (hi : i < x.size) :
    rd (blocks bsz g x) i = rd (g (x.extract (i / bsz * bsz) (i / bsz * bsz + bsz))) (i % bsz) := by
  have hb : i / bsz < x.size / bsz := Nat.div_lt_div_of_lt_of_dvd hdiv hi
  rw [rd_of_lt _ (by simpa using hi)]
  simp [blocks, Array.getD, hb]

theorem rd_extract (x : Array Nat) (c bsz : Nat) (hc : c * bsz + bsz ≤ x.size) {j : Nat} (hj : j < bsz) :
    rd (x.extract (c * bsz) (c * bsz + bsz)) j = rd x (c * bsz + j) := by
  have hs : (x.extract (c * bsz) (c * bsz + bsz)).size = bsz := by simp [Array.size_extract]; omega
  rw [rd_of_lt _ (by omega), rd_of_lt x (by omega)]
  simp [Array.getElem_extract]

theorem size_extract_block (x : Array Nat) (c bsz : Nat) (hc : c * bsz + bsz ≤ x.size) :
    (x.extract (c * bsz) (c * bsz + bsz)).size = bsz := by simp [Array.size_extract]; omega

theorem block_in_range {n bsz i : Nat} (hdiv : bsz ∣ n) (hi : i < n) : i / bsz * bsz + bsz ≤ n := by
  obtain ⟨d, rfl⟩ := hdiv
  have hb : 0 < bsz := by
    rcases Nat.eq_zero_or_pos bsz with h | h
    · subst h; simp at hi
    · exact h
  have h1 : i / bsz < d := Nat.div_lt_of_lt_mul hi
  have : (i / bsz + 1) * bsz ≤ d * bsz := Nat.mul_le_mul_right _ h1
  rw [Nat.add_mul, Nat.one_mul] at this
  rw [Nat.mul_comm bsz d]; exact this

theorem pos_of_dvd_lt {bsz n i : Nat} (hdiv : bsz ∣ n) (hi : i < n) : 0 < bsz := by
  rcases Nat.eq_zero_or_pos bsz with h | h
  · subst h; have := Nat.eq_zero_of_zero_dvd hdiv; omega
  · exact h

/-! ### block-by-block = level-by-level -/

/-- `g` computes cell `c*bsz + r` from block `c` only, and in the same way in every block -/
def BlockLocal (bsz : Nat) (g : (Nat → Nat) → Nat → Nat) : Prop :=
  ∀ (f f' : Nat → Nat) (c r : Nat), r < bsz → (∀ j < bsz, f' j = f (c * bsz + j)) → g f' r = g f (c * bsz + r)

theorem blocks_pass (bsz : Nat) (g : (Nat → Nat) → Nat → Nat) (hloc : BlockLocal bsz g)
    (x : Array Nat) (hdiv : bsz ∣ x.size) : blocks bsz (pass g) x = pass g x := by
  apply ext_rd (by simp)
  intro i hi
  have hi' : i < x.size := by simpa using hi
  have hr := block_in_range hdiv hi'
  have hb : 0 < bsz := pos_of_dvd_lt hdiv hi'
  rw [rd_blocks bsz _ x hdiv hi', rd_pass, rd_pass, if_pos hi', size_extract_block x _ bsz hr,
    if_pos (Nat.mod_lt _ hb)]
  have := hloc (rd x) (rd (x.extract (i / bsz * bsz) (i / bsz * bsz + bsz))) (i / bsz) (i % bsz) (Nat.mod_lt _ hb)
    (fun j hj => rd_extract x (i / bsz) bsz hr hj)
  rw [this]
  congr 1
  rw [Nat.mul_comm]; exact Nat.div_add_mod i bsz

theorem blocks_id (bsz : Nat) (x : Array Nat) (hdiv : bsz ∣ x.size) : blocks bsz (fun b => b) x = x := by
  apply ext_rd (by simp)
  intro i hi
  have hi' : i < x.size := by simpa using hi
  have hr := block_in_range hdiv hi'
  have hb : 0 < bsz := pos_of_dvd_lt hdiv hi'
  rw [rd_blocks bsz _ x hdiv hi', rd_extract x _ bsz hr (Nat.mod_lt _ hb)]
  congr 1
  rw [Nat.mul_comm]; exact Nat.div_add_mod i bsz

theorem blocks_comp (bsz : Nat) (g1 g2 : Array Nat → Array Nat) (hs : ∀ y, (g1 y).size = y.size)
    (x : Array Nat) (hdiv : bsz ∣ x.size) :
    blocks bsz (fun b => g2 (g1 b)) x = blocks bsz g2 (blocks bsz g1 x) := by
  apply ext_rd (by simp)
  intro i hi
  have hi' : i < x.size := by simpa using hi
  have hr := block_in_range hdiv hi'
  have hb : 0 < bsz := pos_of_dvd_lt hdiv hi'
  rw [rd_blocks bsz _ x hdiv hi', rd_blocks bsz g2 _ (by simpa using hdiv) (by simpa using hi')]
  congr 2
  apply ext_rd
  · rw [hs, size_extract_block x _ bsz hr, size_extract_block _ _ bsz (by simpa using hr)]
  · intro j hj
    rw [hs, size_extract_block x _ bsz hr] at hj
    rw [rd_extract _ _ bsz (by simpa using hr) hj]
    have hlt : i / bsz * bsz + j < x.size := by omega
    rw [rd_blocks bsz g1 x hdiv hlt]
    have e1 : (i / bsz * bsz + j) / bsz = i / bsz := by
      rw [Nat.add_comm, Nat.add_mul_div_right _ _ hb, Nat.div_eq_of_lt hj, Nat.zero_add]
    have e2 : (i / bsz * bsz + j) % bsz = j := by
      rw [Nat.add_comm, Nat.add_mul_mod_self_right, Nat.mod_eq_of_lt hj]
    rw [e1, e2]

/-- a sequence of size-preserving passes, each of which commutes with `blocks`, run block by block is the
    same as the passes run one after the other over the whole vector -/
theorem blocks_foldl {σ : Type} (bsz : Nat) (P : σ → Array Nat → Array Nat)
    (hsize : ∀ s y, (P s y).size = y.size) (l : List σ)
    (hP : ∀ s ∈ l, ∀ y : Array Nat, bsz ∣ y.size → blocks bsz (P s) y = P s y)
    (x : Array Nat) (hdiv : bsz ∣ x.size) :
    blocks bsz (fun b => l.foldl (fun y s => P s y) b) x = l.foldl (fun y s => P s y) x := by
  induction l generalizing x with
  | nil => exact blocks_id bsz x hdiv
  | cons s l ih =>
    simp only [List.foldl_cons]
    rw [blocks_comp bsz (P s) (fun b => l.foldl (fun y s => P s y) b) (hsize s) x hdiv,
      hP s (List.mem_cons_self ..) x hdiv]
    exact ih (fun t ht => hP t (List.mem_cons_of_mem _ ht)) _ (by rw [hsize]; exact hdiv)

theorem fwdAt_blockLocal (nn : Nat) (L : Level) (R : Reduc) (tw : Nat → Nat) (bsz : Nat) (hdiv : nn ∣ bsz) :
    BlockLocal bsz (fwdAt nn L R tw) := by
  intro f f' c r hr hf
  have hmod : (c * bsz + r) % nn = r % nn := by
    obtain ⟨d, rfl⟩ := hdiv
    rw [show c * (nn * d) + r = r + nn * (c * d) by ring, Nat.add_mul_mod_self_left]
  simp only [fwdAt, hmod]
  by_cases hj : r % nn < nn / 2
  · simp only [if_pos hj]
    rw [hf r hr, hf _ (idx_add_half hdiv hr hj), Nat.add_assoc]
  · simp only [if_neg hj]
    have hle : nn / 2 ≤ r := le_trans (by omega) (Nat.mod_le r nn)
    rw [hf r hr, hf (r - nn / 2) (by omega), show c * bsz + (r - nn / 2) = c * bsz + r - nn / 2 by omega]

theorem invAt_blockLocal (nn : Nat) (L : Level) (R : Reduc) (tw : Nat → Nat) (bsz : Nat) (hdiv : nn ∣ bsz) :
    BlockLocal bsz (invAt nn L R tw) := by
  intro f f' c r hr hf
  have hmod : (c * bsz + r) % nn = r % nn := by
    obtain ⟨d, rfl⟩ := hdiv
    rw [show c * (nn * d) + r = r + nn * (c * d) by ring, Nat.add_mul_mod_self_left]
  simp only [invAt, hmod]
  by_cases hj : r % nn < nn / 2
  · simp only [if_pos hj]
    rw [hf r hr, hf _ (idx_add_half hdiv hr hj), Nat.add_assoc]
  · simp only [if_neg hj]
    have hle : nn / 2 ≤ r := le_trans (by omega) (Nat.mod_le r nn)
    rw [hf r hr, hf (r - nn / 2) (by omega), show c * bsz + (r - nn / 2) = c * bsz + r - nn / 2 by omega]

@[simp] theorem size_fwdPass (R : Reduc) (tbl : Array Nat) (s : Step) (x : Array Nat) :
    (fwdPass R tbl s x).size = x.size := by simp [fwdPass]
@[simp] theorem size_invPass (R : Reduc) (tbl : Array Nat) (s : Step) (x : Array Nat) :
    (invPass R tbl s x).size = x.size := by simp [invPass]

theorem size_foldl_pass {σ : Type} (P : σ → Array Nat → Array Nat) (hsize : ∀ s y, (P s y).size = y.size)
    (l : List σ) (x : Array Nat) : (l.foldl (fun y s => P s y) x).size = x.size := by
  induction l generalizing x with
  | nil => rfl
  | cons s l ih => simp only [List.foldl_cons]; rw [ih, hsize]

/-! ### shape of the step lists -/

theorem mem_fwdSteps_drop (levels : Array Level) (k idx off d : Nat) (s : Step)
    (h : s ∈ (fwdSteps levels k idx off).drop d) : ∃ a, 1 ≤ a ∧ a ≤ k - d ∧ s.nn = 2 ^ a := by
  induction k generalizing idx off d with
  | zero => simp [fwdSteps] at h
  | succ k ih =>
    cases d with
    | zero =>
      simp only [fwdSteps, List.drop_zero, List.mem_cons] at h
      rcases h with h | h
      · exact ⟨k + 1, by omega, by omega, by rw [h]⟩
      · obtain ⟨a, h1, h2, h3⟩ := ih (idx + 1) (off + (2 ^ k - 1)) 0 (by simpa using h)
        exact ⟨a, h1, by omega, h3⟩
    | succ d =>
      simp only [fwdSteps, List.drop_succ_cons] at h
      obtain ⟨a, h1, h2, h3⟩ := ih _ _ d h
      exact ⟨a, h1, by omega, h3⟩

theorem mem_invSteps_take (levels : Array Level) (c l off t : Nat) (s : Step)
    (h : s ∈ (invSteps levels c l off).take t) : ∃ a, l + 1 ≤ a ∧ a ≤ l + t ∧ a ≤ l + c ∧ s.nn = 2 ^ a := by
  induction c generalizing l off t with
  | zero => simp [invSteps] at h
  | succ c ih =>
    cases t with
    | zero => simp at h
    | succ t =>
      simp only [invSteps, List.take_succ_cons, List.mem_cons] at h
      rcases h with h | h
      · exact ⟨l + 1, by omega, by omega, by omega, by rw [h]⟩
      · obtain ⟨a, h1, h2, h3, h4⟩ := ih _ _ t h
        exact ⟨a, by omega, by omega, by omega, h4⟩

/-! ### the plain level-by-level schedules -/

/-- forward transform, every level over the whole vector -/
def nttPlain (k : Nat) (levels : Array Level) (R : Reduc) (tbl : Array Nat) (x : Array Nat) : Array Nat :=
  if k = 0 then x else
  (fwdSteps levels k 1 (2 ^ k)).foldl (fun x s => fwdPass R tbl s x)
    (pass (twistAt (levels.getD 0 default) R false (fun t => rd tbl t)) x)

/-- inverse transform, every level over the whole vector -/
def inttPlain (k : Nat) (levels : Array Level) (R : Reduc) (tbl : Array Nat) (x : Array Nat) : Array Nat :=
  if k = 0 then x else
  pass (twistAt (levels.getD k default) R (levels.getD k default).reduce (fun t => rd tbl (2 ^ k - 1 - k + t)))
    ((invSteps levels k 0 0).foldl (fun x s => invPass R tbl s x) x)

theorem fwdPass_blocks (R : Reduc) (tbl : Array Nat) (s : Step) (a ks : Nat) (ha : a ≤ ks) (hs : s.nn = 2 ^ a)
    (y : Array Nat) (hy : 2 ^ ks ∣ y.size) : blocks (2 ^ ks) (fwdPass R tbl s) y = fwdPass R tbl s y :=
  blocks_pass _ _ (fwdAt_blockLocal _ _ _ _ _ (by rw [hs]; exact pow_dvd_pow 2 ha)) y hy

theorem invPass_blocks (R : Reduc) (tbl : Array Nat) (s : Step) (a ks : Nat) (ha : a ≤ ks) (hs : s.nn = 2 ^ a)
    (y : Array Nat) (hy : 2 ^ ks ∣ y.size) : blocks (2 ^ ks) (invPass R tbl s) y = invPass R tbl s y :=
  blocks_pass _ _ (invAt_blockLocal _ _ _ _ _ (by rw [hs]; exact pow_dvd_pow 2 ha)) y hy

/-- the mixed level-by-level / block-by-block schedule of `q120_ntt_bb_avx2` computes the same vector as the
    plain level-by-level schedule, for every split point `2^ks ≤ n` -/
theorem nttLaneS_eq_plain (ks k : Nat) (hks : ks ≤ k) (levels : Array Level) (R : Reduc) (tbl x : Array Nat)
    (hx : x.size = 2 ^ k) : nttLaneS ks k levels R tbl x = nttPlain k levels R tbl x := by
  unfold nttLaneS nttPlain
  split
  · rfl
  · simp only
    have hsz : ∀ (l : List Step) (y : Array Nat), (l.foldl (fun x s => fwdPass R tbl s x) y).size = y.size :=
      fun l y => size_foldl_pass (fun s y => fwdPass R tbl s y) (by simp) l y
    rw [blocks_foldl (2 ^ ks) (fun s y => fwdPass R tbl s y) (by simp)]
    · rw [← List.foldl_append, List.take_append_drop]
    · intro s hs y hy
      obtain ⟨a, _, h2, h3⟩ := mem_fwdSteps_drop _ _ _ _ _ s hs
      exact fwdPass_blocks R tbl s a ks (by omega) h3 y hy
    · rw [hsz, size_pass, hx]; exact pow_dvd_pow 2 hks

theorem inttLaneS_eq_plain (ks k : Nat) (hks : ks ≤ k) (levels : Array Level) (R : Reduc) (tbl x : Array Nat)
    (hx : x.size = 2 ^ k) : inttLaneS ks k levels R tbl x = inttPlain k levels R tbl x := by
  unfold inttLaneS inttPlain
  split
  · rfl
  · simp only
    rw [blocks_foldl (2 ^ ks) (fun s y => invPass R tbl s y) (by simp)]
    · rw [← List.foldl_append, List.take_append_drop]
    · intro s hs y hy
      obtain ⟨a, _, h2, _, h3⟩ := mem_invSteps_take _ _ _ _ _ s hs
      exact invPass_blocks R tbl s a ks (by omega) h3 y hy
    · rw [hx]; exact pow_dvd_pow 2 hks

/-! ### the plain schedules as chains of function-level passes -/

theorem rd_foldl_fwd {q : Nat} (R : Reduc) (tbl : Array Nat) (mk : Step → LStep q)
    (hmk : ∀ s, (mk s).d = ⟨.fwd, s.nn, s.L⟩ ∧ (mk s).tw = fun t => rd tbl (s.off + t))
    (l : List Step) (x : Array Nat) :
    rd (l.foldl (fun x s => fwdPass R tbl s x) x) = runAll x.size R (l.map mk) (rd x) := by
  induction l generalizing x with
  | nil => rfl
  | cons s l ih =>
    simp only [List.foldl_cons, List.map_cons, runAll]
    rw [ih, size_fwdPass]
    congr 1
    rw [fwdPass, rd_pass_fun, (hmk s).1, (hmk s).2]
    rfl

theorem rd_foldl_inv {q : Nat} (R : Reduc) (tbl : Array Nat) (mk : Step → LStep q)
    (hmk : ∀ s, (mk s).d = ⟨.inv, s.nn, s.L⟩ ∧ (mk s).tw = fun t => rd tbl (s.off + t))
    (l : List Step) (x : Array Nat) :
    rd (l.foldl (fun x s => invPass R tbl s x) x) = runAll x.size R (l.map mk) (rd x) := by
  induction l generalizing x with
  | nil => rfl
  | cons s l ih =>
    simp only [List.foldl_cons, List.map_cons, runAll]
    rw [ih, size_invPass]
    congr 1
    rw [invPass, rd_pass_fun, (hmk s).1, (hmk s).2]
    rfl

theorem runAll_append {q : Nat} (n : Nat) (R : Reduc) (l1 l2 : List (LStep q)) (f : Nat → Nat) :
    runAll n R (l1 ++ l2) f = runAll n R l2 (runAll n R l1 f) := by
  induction l1 generalizing f with
  | nil => rfl
  | cons s l ih => simp only [List.cons_append, runAll]; exact ih _

theorem exAll_append {q : Nat} (l1 l2 : List (LStep q)) (g : Nat → ZMod q) :
    exAll (l1 ++ l2) g = exAll l2 (exAll l1 g) := by
  induction l1 generalizing g with
  | nil => rfl
  | cons s l ih => simp only [List.cons_append, exAll]; exact ih _

end Spq.Q120Ntt
