/-
  C16, binary64 side, step 5: every DFT-space-producing call of the binary64 module, inside its budget, returns an
  object that REPRESENTS (`LimbExact`) the exact result in `ℤ[X]/(X^N+1)`:
    `dft_sound`  (`vec_znx_dft`,                 budget `RtBudget`  per limb  — `ProgErr.rt_exact`),
    `svp_sound`  (`svp_prepare` + `svp_apply_dft`, budget `ProdBudget` per limb — `C01Err.svp_exact_f64_partial`,
                                                                                 `VmpErr.svp_zero_row`),
    `vmp_sound`  (`vmp_prepare` + `vmp_apply_dft`, budget `VmpBudget`           — `VmpErr.vmp_exact_col`, `vmp_zero_col`),
  and `small_sound` (`znx_small_single_product`, budget `ProdBudget`).
-/
import SpqProofs.Lemmas.ProgErrMod
set_option linter.unusedSectionVars false
namespace Spq.ProgErr
open Finset Spq Spq.Module Spq.Fft Spq.Fft.Alg Spq.FftErr Spq.F64 Spq.Reim4 Spq.ProdErr Spq.VmpErr Spq.Conv Spq.Prog
  Spq.Closed
variable {K : Type} [Field K] [LinearOrder K] [IsStrictOrderedRing K]

theorem k961 (M : F64Mod K) : M.k ≤ 961 := by have := M.hk; omega

theorem agree_nn (M : F64Mod K) {x : Array Int} {asz asl : ℕ} {f : ℕ → ℕ → ℤ} (hag : Agree M.N x asz asl f) :
    Agree M.parts.nn x asz asl f := by rw [M.nn]; exact hag

/-- `vec_znx_dft` -/
theorem dft_sound (M : F64Mod K) (x : Array Int) (asz asl rsz : ℕ) (f : ℕ → ℕ → ℤ) (hag : Agree M.N x asz asl f)
    (hb : ∀ i, i < asz → i < rsz → RtBudget M (polyArr M.N (f i))) :
    LimbExact M (Val.mk M.N rsz (zext asz f)) rsz (vecDft M.parts rsz x asz asl) := by
  have hnn := M.nn
  obtain ⟨_, a2⟩ := vecDft_spec M.parts rsz x asz asl
    (fun i => if i < asz then M.parts.fft (M.parts.fromZnx (polyArr M.N (f i))) else Array.replicate M.N 0)
    (by
      intro i _
      by_cases h : i < asz
      · rw [if_pos h, if_pos h, hnn, limbOf_agree hag i h]
      · rw [if_neg h, if_neg h, hnn]; rfl)
    (by
      intro i hi
      by_cases h : i < asz
      · rw [if_pos h, parts_fft M.c M.k M.cN M.sN M.cNi M.sNi M.ok.cfg, hnn]
        exact VmpErr.stF_size M.c M.k M.cN M.sN M.cNi M.sNi M.ok.cfg _ (hb i h hi).1
      · rw [if_neg h, hnn]; simp)
  intro i hi
  have a := a2 i hi
  rw [hnn] at a
  rw [a]
  by_cases h : i < asz
  · rw [if_pos h]
    obtain ⟨hbox, hok, na, hna0, hna, hE⟩ := hb i h hi
    have hE' : rtRel K M.k * na < 1 / 2 :=
      lt_of_le_of_lt (mul_le_mul_of_nonneg_right (rtRel_le16 M.k M.hk) hna0) hE
    rw [rt_exact M.c M.k (k961 M) M.cN M.sN M.cNi M.sNi M.ok.cfg M.ζ M.ζi M.hζ M.hI M.hinv M.hcs M.hcsi
      (polyArr M.N (f i)) hbox hok na hna0 hna hE', firstN_of_size _ _ (size_polyArr _ _)]
    apply polyArr_congr
    intro t ht
    rw [coef_mk _ _ _ _ _ hi ht, zext, if_pos h]
  · rw [if_neg h, zero_col_out M.c M.k (k961 M) M.cN M.sN M.cNi M.sNi M.ok.cfg _ (by simp)
      (fun p _ => getD_replicate_z 0 _ p)]
    symm
    apply polyArr_zero
    intro t ht
    rw [coef_mk _ _ _ _ _ hi ht, zext, if_neg h]

/-- `svp_prepare` + `svp_apply_dft` -/
theorem svp_sound (M : F64Mod K) (x : Array Int) (asz asl rsz : ℕ) (f : ℕ → ℕ → ℤ) (hag : Agree M.N x asz asl f)
    (sp : Array Int) (hb : ∀ i, i < asz → i < rsz → ProdBudget M (polyArr M.N (f i)) sp) :
    LimbExact M (Val.mk M.N rsz fun i c => polyMul M.N (zext asz f i) (fun t => sp.getD t 0) c) rsz
      (svpApply M.parts rsz (svpPrepare M.parts sp) x asz asl) := by
  intro i hi
  have key := idft_row M rsz (svpApply M.parts rsz (svpPrepare M.parts sp) x asz asl) rsz i hi
  rw [if_pos hi] at key
  rw [← key]
  by_cases h : i < asz
  · obtain ⟨hA, hB, hok, na, nb, hna0, hnb0, hna, hnb, hnl, hE⟩ := hb i h hi
    rw [C01Err.svp_exact_f64_partial M.c M.k M.hk M.cN M.sN M.cNi M.sNi M.ok.cfg M.ζ M.ζi M.hζ M.hI M.hinv M.hcs M.hcsi
      sp x asz asl rsz rsz i hi hi h (polyArr M.N (f i)) (limbOf_agree hag i h) hA hB hok na nb hna0 hnb0 hna hnb hnl hE]
    apply eq_polyArr_of_getD _ _ _ (size_nmul _ _ _)
    intro t ht
    rw [coef_mk _ _ _ _ _ hi ht]
    apply getD_nmul _ _ _ _ _ _ _ t ht
    · intro u hu; rw [getD_polyArr _ _ _ hu, zext, if_pos h]
    · intro u _; rfl
  · rw [svp_zero_row M.c M.k (k961 M) M.cN M.sN M.cNi M.sNi M.ok.cfg (svpPrepare M.parts sp) x asz asl rsz rsz i hi
      (by omega)]
    symm
    apply polyArr_zero
    intro t ht
    rw [coef_mk _ _ _ _ _ hi ht]
    have : zext asz f i = fun _ => 0 := by funext u; simp [zext, h]
    rw [this, polyMul_zero_left]

/-- `znx_small_single_product` on canonical arrays -/
theorem small_sound (M : F64Mod K) (fa fb : ℕ → ℤ) (hb : ProdBudget M (polyArr M.N fa) (polyArr M.N fb)) :
    smallProduct M.parts (polyArr M.N fa) (polyArr M.N fb) = polyArr M.N (polyMul M.N fa fb) := by
  obtain ⟨hA, hB, hok, na, nb, hna0, hnb0, hna, hnb, hnl, hE⟩ := hb
  rw [C01Err.small_product_exact_f64_partial M.c M.k M.hk M.cN M.sN M.cNi M.sNi M.ok.cfg M.ζ M.ζi M.hζ M.hI M.hinv
    M.hcs M.hcsi _ _ hA hB hok na nb hna0 hnb0 hna hnb hnl hE]
  apply eq_polyArr_of_getD _ _ _ (size_nmul _ _ _)
  intro t ht
  exact getD_nmul _ _ _ _ _ (fun u hu => getD_polyArr _ _ _ hu) (fun u hu => getD_polyArr _ _ _ hu) t ht

end Spq.ProgErr
