/-
  Instances for `fft_err`: the level network with the reference / FMA butterflies of `Spq/Fft/Core.lean` and a table
  of stored twiddles; the standard model of `Fft.Arith` from agent H's `StdModel`; the numeric value of the
  butterfly constant for binary64 with a measured twiddle error.
-/
import SpqProofs.Lemmas.FftErrNet
import Mathlib.Tactic.NormNum

set_option linter.unusedSectionVars false

namespace Spq.FftErr
open Finset Spq.Fft Spq.Fft.Alg
variable {K : Type} [Field K] [LinearOrder K] [IsStrictOrderedRing K]

/-- the FFT arithmetic record of an `RArith` (negation is exact) -/
def ofRArith (ar : RArith K) : Arith K := ⟨ar.add, ar.sub, ar.mul, fun a => -a, ar.fma, ar.fms⟩

theorem fstd_of_stdModel {ar : RArith K} {u : K} (sm : StdModel ar u) : FStd (ofRArith ar) u :=
  ⟨sm.u_nonneg, sm.add, sm.sub, sm.mul, sm.fma, sm.fms, fun _ => rfl⟩

/-- exact arithmetic -/
def exactA : Arith K := ⟨(· + ·), (· - ·), (· * ·), (- ·), fun a b c => a * b + c, fun a b c => a * b - c⟩

/-- exact arithmetic satisfies the standard model with `u = 0` -/
theorem fstd_exact : FStd (exactA : Arith K) 0 where
  u_nonneg := le_refl _
  add := by intro a b; simp [exactA]
  sub := by intro a b; simp [exactA]
  mul := by intro a b; simp [exactA]
  fma := by intro a b c; simp [exactA]
  fms := by intro a b c; simp [exactA]
  neg := fun _ => rfl

/-- the network of butterflies `f` (e.g. `ctRef A`, `ctFma A`) with the stored twiddles `wh ℓ d b` -/
def netOf (f : Bf K) (wh : ℕ → ℕ → ℕ → Cplx K) : ℕ → ℕ → ℕ → Cplx K → Cplx K → Cplx K × Cplx K :=
  fun ℓ d b x y => bfC f x y (wh ℓ d b)

/-- for binary64 (`u = 2^-53`) and a twiddle error `τ ≤ 3.5·u`: `η ≤ 8·2^-53` -/
theorem eta_f64_le : eta ((2 : ℚ) ^ (-53 : ℤ)) (7 / 2 * 2 ^ (-53 : ℤ)) ≤ 8 * 2 ^ (-53 : ℤ) := by
  have h : (2 : ℚ) ^ (-53 : ℤ) = 1 / 9007199254740992 := by norm_num
  rw [h]
  unfold eta rho gam
  norm_num

end Spq.FftErr
