/-
  Specification of every kernel call of the heap-level module model: under "sources and destination inside
  the arena, aliasing as the kernel tolerates it" the call keeps `ok`, changes only its destination window
  and leaves there the functional kernel's value (encoded).
-/
import SpqProofs.Lemmas.ModHeapBase
import SpqProofs.Lemmas.Reim4Base
namespace Spq.ModuleHeap
open Spq Heap Module Reim4
variable {γ α : Type}

/-- the parts of a module map `nn`-cell limbs to `nn`-cell limbs -/
structure Sized (c : Parts α) : Prop where
  fromZnx : ∀ x, x.size = c.nn → (c.fromZnx x).size = c.nn
  fft : ∀ x, x.size = c.nn → (c.fft x).size = c.nn
  ifft : ∀ x, x.size = c.nn → (c.ifft x).size = c.nn
  toZnx : ∀ x, x.size = c.nn → (c.toZnx x).size = c.nn

/-! ### sizes of the functional kernels -/

theorem size_fold_of_step {β : Type} (n : Nat) (f : (i : Nat) → i < n → Array β → Array β) (a : Array β)
    (hf : ∀ i hi r, (f i hi r).size = r.size) : (Nat.fold n f a).size = a.size := by
  induction n with
  | zero => rfl
  | succ n ih =>
    rw [Nat.fold_succ, hf]
    exact ih (fun i hi => f i (by omega)) (fun i hi r => hf i (by omega) r)

theorem size_mapV4x2 (z : α) (n : Nat) (p q : Nat → Nat) (F : Nat → V4 α → V4 α → V4 α × V4 α) (r : Array α) :
    (mapV4x2 z n p q F r).size = r.size := by
  unfold mapV4x2
  exact size_fold_of_step n _ r (fun i _ r => by simp)

theorem size_mul (c : Parts α) (a b : Array α) : (Module.mul c a b).size = c.nn := by
  unfold Module.mul
  simp only
  split
  · unfold reimFftvecMulFma
    split
    · simp
    · simp [size_mapV4x2]
  · unfold reimFftvecMulRef; rw [lanes_size]; simp

theorem size_addmul (c : Parts α) (r a b : Array α) : (Module.addmul c r a b).size = r.size := by
  unfold Module.addmul
  split
  · unfold reimFftvecAddmulFma
    split
    · simp
    · simp [size_mapV4x2]
  · unfold reimFftvecAddmulRef; rw [lanes_size]

theorem size_copy4 (z : α) (dst : Array α) (d : Nat) (src : Array α) (s : Nat) : (copy4 z dst d src s).size = dst.size := by
  simp [copy4]

theorem size_extract1 (z : α) (m blk : Nat) (dst src : Array α) : (extract1blkFromReimRef z m blk dst src).size = dst.size := by
  simp [extract1blkFromReimRef, size_copy4]

theorem size_extractRows (z : α) (m rows blk : Nat) (dst src : Array α) :
    (extract1blkFromContiguousReimRef z m rows blk dst src).size = dst.size := by
  unfold extract1blkFromContiguousReimRef
  exact size_fold_of_step _ _ dst (fun i _ r => size_copy4 z r _ src _)

theorem size_zeroAt (ar : RArith α) (dst : Array α) (d : Nat) : (zeroAt ar dst d).size = dst.size := by
  unfold zeroAt
  exact size_fold_of_step _ _ dst (fun i _ r => by simp)

theorem size_addMulAt (ar : RArith α) (dst : Array α) (d : Nat) (u : Array α) (uo : Nat) (v : Array α) (vo : Nat) :
    (addMulAt ar dst d u uo v vo).size = dst.size := by
  unfold addMulAt; rw [lanes_size]

theorem size_prod2 (c : Parts α) (rows : Nat) (u v : Array α) : (prod2 c rows u v).size = 16 := by
  unfold prod2
  simp only
  split
  · simp [vecMat2colsProductAvx2]
  · unfold vecMat2colsProductRef
    simp only
    rw [size_fold_of_step _ _ _ (fun i _ r => by simp [vecMat2colsRefStep, size_addMulAt])]
    simp [size_zeroAt]

theorem size_prod1 (c : Parts α) (rows : Nat) (u v : Array α) : (prod1 c rows u v).size = 8 := by
  unfold prod1
  simp only
  split
  · simp [vecMat1colProductAvx2]
  · unfold vecMat1colProductRef
    simp only
    rw [size_fold_of_step _ _ _ (fun i _ r => by simp [size_addMulAt])]
    simp [size_zeroAt]

/-! ### kernel calls -/

section kernels
variable (c : Parts α) (cd : Cells γ α) (h : Heap γ)

theorem kFromZnx_spec (hs : Sized c) (dst src : Nat) (hsrc : src + c.nn ≤ h.mem.size) (hdst : dst + c.nn ≤ h.mem.size)
    (hal : sameOrDisj dst src c.nn = true) :
    Fr (In dst c.nn) h (kFromZnx c cd dst src h) ∧
    (kFromZnx c cd dst src h).readLimb cd.dflt dst c.nn = (c.fromZnx (rdI cd h src c.nn)).map cd.enc := by
  unfold kFromZnx wrD
  exact wr_spec h _ cd.dflt dst c.nn _ (by simp) (by rw [guard_ok _ _ hal, tch_ok _ _ _ hsrc])
    (by simp [hs.fromZnx]) hdst

theorem kFft_spec (hs : Sized c) (p : Nat) (hp : p + c.nn ≤ h.mem.size) :
    Fr (In p c.nn) h (kFft c cd p h) ∧
    (kFft c cd p h).readLimb cd.dflt p c.nn = (c.fft (rdD cd h p c.nn)).map cd.enc := by
  unfold kFft wrD
  exact wr_spec h _ cd.dflt p c.nn _ (by simp) (by rw [tch_ok _ _ _ hp]) (by simp [hs.fft]) hp

theorem kIfft_spec (hs : Sized c) (p : Nat) (hp : p + c.nn ≤ h.mem.size) :
    Fr (In p c.nn) h (kIfft c cd p h) ∧
    (kIfft c cd p h).readLimb cd.dflt p c.nn = (c.ifft (rdD cd h p c.nn)).map cd.enc := by
  unfold kIfft wrD
  exact wr_spec h _ cd.dflt p c.nn _ (by simp) (by rw [tch_ok _ _ _ hp]) (by simp [hs.ifft]) hp

theorem kToZnx_spec (hs : Sized c) (dst src : Nat) (hsrc : src + c.nn ≤ h.mem.size) (hdst : dst + c.nn ≤ h.mem.size)
    (hal : sameOrDisj dst src c.nn = true) :
    Fr (In dst c.nn) h (kToZnx c cd dst src h) ∧
    (kToZnx c cd dst src h).readLimb cd.dflt dst c.nn = (c.toZnx (rdD cd h src c.nn)).map cd.encI := by
  unfold kToZnx wrI
  exact wr_spec h _ cd.dflt dst c.nn _ (by simp) (by rw [guard_ok _ _ hal, tch_ok _ _ _ hsrc])
    (by simp [hs.toZnx]) hdst

theorem kMul_spec (r a b : Nat) (ha : a + c.nn ≤ h.mem.size) (hb : b + c.nn ≤ h.mem.size) (hr : r + c.nn ≤ h.mem.size)
    (hal : sameOrDisj r a c.nn = true) (hbl : sameOrDisj r b c.nn = true) :
    Fr (In r c.nn) h (kMul c cd r a b h) ∧
    (kMul c cd r a b h).readLimb cd.dflt r c.nn = (Module.mul c (rdD cd h a c.nn) (rdD cd h b c.nn)).map cd.enc := by
  unfold kMul wrD
  exact wr_spec h _ cd.dflt r c.nn _ (by simp)
    (by rw [guard_ok _ _ (by simp [hal, hbl]), tch_ok _ _ _ (by simpa using hb), tch_ok _ _ _ ha])
    (by simp [size_mul]) hr

theorem kAddmul_spec (r a b : Nat) (ha : a + c.nn ≤ h.mem.size) (hb : b + c.nn ≤ h.mem.size) (hr : r + c.nn ≤ h.mem.size)
    (hal : sameOrDisj r a c.nn = true) (hbl : sameOrDisj r b c.nn = true) :
    Fr (In r c.nn) h (kAddmul c cd r a b h) ∧
    (kAddmul c cd r a b h).readLimb cd.dflt r c.nn =
      (Module.addmul c (rdD cd h r c.nn) (rdD cd h a c.nn) (rdD cd h b c.nn)).map cd.enc := by
  unfold kAddmul wrD
  exact wr_spec h _ cd.dflt r c.nn _ (by simp)
    (by rw [guard_ok _ _ (by simp [hal, hbl]), tch_ok _ _ _ (by simpa using hb), tch_ok _ _ _ (by simpa using ha),
          tch_ok _ _ _ hr])
    (by simp [size_addmul]) hr

theorem kZeroD_spec (p n : Nat) (hp : p + n ≤ h.mem.size) :
    Fr (In p n) h (kZeroD c cd p n h) ∧
    (kZeroD c cd p n h).readLimb cd.dflt p n = (Array.replicate n c.ar.zero).map cd.enc := by
  unfold kZeroD wrD
  exact wr_spec h h cd.dflt p n _ rfl rfl (by simp) hp

theorem kZeroI_spec (p n : Nat) (hp : p + n ≤ h.mem.size) :
    Fr (In p n) h (kZeroI cd p n h) ∧
    (kZeroI cd p n h).readLimb cd.dflt p n = (Array.replicate n (0 : Int)).map cd.encI := by
  unfold kZeroI wrI
  exact wr_spec h h cd.dflt p n _ rfl rfl (by simp) hp

theorem kCopy_spec (dst src n : Nat) (hsrc : src + n ≤ h.mem.size) (hdst : dst + n ≤ h.mem.size)
    (hal : disj dst n src n = true) :
    Fr (In dst n) h (kCopy cd dst src n h) ∧
    (kCopy cd dst src n h).readLimb cd.dflt dst n = h.readLimb cd.dflt src n := by
  unfold kCopy
  exact wr_spec h _ cd.dflt dst n _ (by simp) (by rw [guard_ok _ _ hal, tch_ok _ _ _ hsrc]) (by simp) hdst

end kernels
end Spq.ModuleHeap
