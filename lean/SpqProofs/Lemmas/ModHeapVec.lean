/-
  Heap-level refinement of the limb-vector entry points: `vec_znx_dft`, `svp_prepare`, `svp_apply_dft`.
-/
import SpqProofs.Lemmas.ModHeapLoop
import SpqProofs.Lemmas.ModuleVec
namespace Spq.ModuleHeap
open Spq Heap Reim4
variable {γ α : Type}

/-- the int64 array a C pointer at offset `a` designates: everything from `a` to the end of the arena -/
def viewI (cd : Cells γ α) (mem : Array γ) (a : Nat) : Array Int := (mem.extract a mem.size).map cd.decI

theorem limbOf_viewI (cd : Cells γ α) (h : Heap γ) (a i sl nn : Nat) (hb : a + i * sl + nn ≤ h.mem.size) :
    Module.limbOf (viewI cd h.mem a) i sl nn = rdI cd h (a + i * sl) nn := by
  unfold Module.limbOf viewI rdI
  rw [readLimb_eq_extract _ _ _ _ hb, extract_map, Array.extract_extract]
  congr 2
  omega

theorem dlimb_eq (x : Array α) (i nn : Nat) : Module.dlimb x i nn = x.extract (i * nn) (i * nn + nn) := rfl

theorem map_replicate' {β δ : Type} (f : β → δ) (n : Nat) (z : β) : (Array.replicate n z).map f = Array.replicate n (f z) := by
  simp

section
variable (c : Module.Parts α) (cd : Cells γ α) (hs : Sized c) (hr : RoundTrip cd) (h : Heap γ)
include hs hr

/-- one iteration of `fft64_vec_znx_dft`: convert into the result window, transform in place -/
theorem dftStep (g : Heap γ) (W : Nat → Prop) (f : Fr W h g) (r s : Nat) (hrb : r + c.nn ≤ h.mem.size)
    (hsb : s + c.nn ≤ h.mem.size) (hd : s + c.nn ≤ r ∨ r + c.nn ≤ s) (hW : ∀ x, In s c.nn x → ¬ W x) :
    Fr (In r c.nn) g (kFft c cd r (kFromZnx c cd r s g)) ∧
    (kFft c cd r (kFromZnx c cd r s g)).readLimb cd.dflt r c.nn = (c.fft (c.fromZnx (rdI cd h s c.nn))).map cd.enc := by
  obtain ⟨f1, v1⟩ := kFromZnx_spec c cd g hs r s (by rw [f.size]; exact hsb) (by rw [f.size]; exact hrb)
    (sameOrDisj_of _ _ _ (by omega))
  obtain ⟨f2, v2⟩ := kFft_spec c cd (kFromZnx c cd r s g) hs r (by rw [f1.size, f.size]; exact hrb)
  refine ⟨f1.trans' f2, ?_⟩
  rw [v2, rdD_of_cells cd hr _ _ _ _ v1, rdI_of_fr f cd _ _ hW]

theorem vecDft_heap (res rsz a asz asl : Nat) (hres : res + rsz * c.nn ≤ h.mem.size)
    (hsrc : ∀ i, i < min rsz asz → a + i * asl + c.nn ≤ h.mem.size ∧
      (a + i * asl + c.nn ≤ res ∨ res + rsz * c.nn ≤ a + i * asl)) :
    Fr (In res (rsz * c.nn)) h (vecDft c cd h res rsz a asz asl) ∧
    (vecDft c cd h res rsz a asz asl).readLimb cd.dflt res (rsz * c.nn) =
      (Module.vecDft c rsz (viewI cd h.mem a) asz asl).map cd.enc := by
  have hsm : min rsz asz ≤ rsz := Nat.min_le_left _ _
  have hsmul := mul_le' _ _ c.nn hsm
  have e2 := sub_mul_add rsz (min rsz asz) c.nn hsm
  obtain ⟨fl, vl⟩ := limbLoop c.nn res (min rsz asz)
    (fun i h => h |> kFromZnx c cd (res + i * c.nn) (a + i * asl) |> kFft c cd (res + i * c.nn)) h cd.dflt
    (fun i => (c.fft (c.fromZnx (rdI cd h (a + i * asl) c.nn))).map cd.enc) (fun _ _ => False)
    (fun _ _ _ _ _ q => q.elim)
    (by
      intro i g hi f
      have hi2 := hsrc i hi
      have hm := mul_step i rsz c.nn (by omega)
      obtain ⟨f1, v1⟩ := dftStep c cd hs hr h g _ f (res + i * c.nn) (a + i * asl) (by omega) hi2.1 (by omega)
        (by
          intro x hx hw
          have hm2 := mul_le' i rsz c.nn (by omega)
          rcases hw with hw | ⟨j, _, hw⟩
          · unfold In at *; omega
          · exact hw)
      exact ⟨f1.mono (fun x q => Or.inl q), v1⟩)
  have flm : Fr (In res (min rsz asz * c.nn)) h _ := fl.mono (fun x q => by
    rcases q with q | ⟨j, _, q⟩
    · exact q
    · exact q.elim)
  obtain ⟨fz, vz⟩ := kZeroD_spec c cd _ (res + min rsz asz * c.nn) ((rsz - min rsz asz) * c.nn)
    (by rw [flm.size]; omega)
  refine ⟨(flm.trans fz).mono (fun x q => by unfold In at *; omega), ?_⟩
  -- the functional model, limb by limb
  obtain ⟨xs, xl⟩ := Module.vecDft_spec c rsz (viewI cd h.mem a) asz asl
    (fun i => if i < asz then c.fft (c.fromZnx (Module.limbOf (viewI cd h.mem a) i asl c.nn))
      else Array.replicate c.nn c.ar.zero)
    (fun i _ => rfl)
    (fun i hi => by
      by_cases hia : i < asz
      · have hi2 := hsrc i (by omega)
        rw [if_pos hia, limbOf_viewI cd h a i asl c.nn hi2.1]
        exact hs.fft _ (hs.fromZnx _ (by simp))
      · rw [if_neg hia]; simp)
  rw [map_replicate'] at vz
  refine region_assemble _ _ cd.dflt res rsz (min rsz asz) c.nn hsm _ (cd.enc c.ar.zero) _ (by simp [xs]) vl fz vz ?_ ?_
  · intro i hi
    have hi2 := hsrc i hi
    rw [extract_map, ← dlimb_eq, xl i (by omega), if_pos (by omega), limbOf_viewI cd h a i asl c.nn hi2.1]
  · intro i h1 h2
    rw [extract_map, ← dlimb_eq, xl i h2, if_neg (by omega), map_replicate']

/-- `fft64_svp_prepare_ref` -/
theorem svpPrepare_heap (ppol pol : Nat) (hp : ppol + c.nn ≤ h.mem.size) (hq : pol + c.nn ≤ h.mem.size)
    (hd : pol + c.nn ≤ ppol ∨ ppol + c.nn ≤ pol) :
    Fr (In ppol c.nn) h (svpPrepare c cd h ppol pol) ∧
    (svpPrepare c cd h ppol pol).readLimb cd.dflt ppol c.nn =
      (Module.svpPrepare c (rdI cd h pol c.nn)).map cd.enc :=
  dftStep c cd hs hr h h _ (Fr.refl (fun _ => False) h) ppol pol hp hq hd (fun _ _ q => q)

theorem svpApply_heap (res rsz ppol a asz asl : Nat) (hres : res + rsz * c.nn ≤ h.mem.size)
    (hpp : ppol + c.nn ≤ h.mem.size) (hpd : ppol + c.nn ≤ res ∨ res + rsz * c.nn ≤ ppol)
    (hsrc : ∀ i, i < min rsz asz → a + i * asl + c.nn ≤ h.mem.size ∧
      (a + i * asl + c.nn ≤ res ∨ res + rsz * c.nn ≤ a + i * asl)) :
    Fr (In res (rsz * c.nn)) h (svpApply c cd h res rsz ppol a asz asl) ∧
    (svpApply c cd h res rsz ppol a asz asl).readLimb cd.dflt res (rsz * c.nn) =
      (Module.svpApply c rsz (rdD cd h ppol c.nn) (viewI cd h.mem a) asz asl).map cd.enc := by
  have hsm : min rsz asz ≤ rsz := Nat.min_le_left _ _
  have hsmul := mul_le' _ _ c.nn hsm
  have e2 := sub_mul_add rsz (min rsz asz) c.nn hsm
  obtain ⟨fl, vl⟩ := limbLoop c.nn res (min rsz asz)
    (fun i h => h |> kFromZnx c cd (res + i * c.nn) (a + i * asl) |> kFft c cd (res + i * c.nn)
      |> kMul c cd (res + i * c.nn) (res + i * c.nn) ppol) h cd.dflt
    (fun i => (Module.mul c (c.fft (c.fromZnx (rdI cd h (a + i * asl) c.nn))) (rdD cd h ppol c.nn)).map cd.enc)
    (fun _ _ => False) (fun _ _ _ _ _ q => q.elim)
    (by
      intro i g hi f
      have hi2 := hsrc i hi
      have hm := mul_step i rsz c.nn (by omega)
      have hm2 := mul_le' i rsz c.nn (by omega)
      obtain ⟨f1, v1⟩ := dftStep c cd hs hr h g _ f (res + i * c.nn) (a + i * asl) (by omega) hi2.1 (by omega)
        (by
          intro x hx hw
          rcases hw with hw | ⟨j, _, hw⟩
          · unfold In at *; omega
          · exact hw)
      have fg1 := f.trans f1
      obtain ⟨f2, v2⟩ := kMul_spec c cd (kFft c cd (res + i * c.nn) (kFromZnx c cd (res + i * c.nn) (a + i * asl) g))
        (res + i * c.nn) (res + i * c.nn) ppol (by rw [fg1.size]; omega) (by rw [fg1.size]; omega) (by rw [fg1.size]; omega)
        (sameOrDisj_same _ _) (sameOrDisj_of _ _ _ (by omega))
      refine ⟨(f1.trans' f2).mono (fun x q => Or.inl q), ?_⟩
      rw [v2, rdD_of_cells cd hr _ _ _ _ v1, rdD_of_fr fg1 cd ppol c.nn ?_]
      intro x hx hw
      rcases hw with (hw | ⟨j, _, hw⟩) | hw
      · unfold In at *; omega
      · exact hw
      · unfold In at *; omega)
  have flm : Fr (In res (min rsz asz * c.nn)) h _ := fl.mono (fun x q => by
    rcases q with q | ⟨j, _, q⟩
    · exact q
    · exact q.elim)
  obtain ⟨fz, vz⟩ := kZeroD_spec c cd _ (res + min rsz asz * c.nn) ((rsz - min rsz asz) * c.nn)
    (by rw [flm.size]; omega)
  refine ⟨(flm.trans fz).mono (fun x q => by unfold In at *; omega), ?_⟩
  obtain ⟨xs, xl⟩ := Module.svpApply_spec c rsz (rdD cd h ppol c.nn) (viewI cd h.mem a) asz asl
    (fun i => if i < asz then Module.mul c (c.fft (c.fromZnx (Module.limbOf (viewI cd h.mem a) i asl c.nn))) (rdD cd h ppol c.nn)
      else Array.replicate c.nn c.ar.zero)
    (fun i _ => rfl)
    (fun i hi => by
      by_cases hia : i < asz
      · rw [if_pos hia]; exact size_mul c _ _
      · rw [if_neg hia]; simp)
  rw [map_replicate'] at vz
  refine region_assemble _ _ cd.dflt res rsz (min rsz asz) c.nn hsm _ (cd.enc c.ar.zero) _ (by simp [xs]) vl fz vz ?_ ?_
  · intro i hi
    have hi2 := hsrc i hi
    rw [extract_map, ← dlimb_eq, xl i (by omega), if_pos (by omega), limbOf_viewI cd h a i asl c.nn hi2.1]
  · intro i h1 h2
    rw [extract_map, ← dlimb_eq, xl i h2, if_neg (by omega), map_replicate']

end
end Spq.ModuleHeap
