/-
  Closing C16: the record `DftOpsSound c c.nn` from H1–H4 (`ExactArith`, `ExactDft`) and `FromLocal`
  (`fromZnx` reads exactly the `nn` coefficients of its argument, as `Conv.fromZnx64Ref` does).
  Representation relations (exact arithmetic):
    `RepV P sz d`  : `d` has `sz` limbs and limb `i` is `fft (fromZnx P_i)`;
    `RepS sp s`    : `s = fft (fromZnx sp)`;
    `RepM M r c pm`: `pm = vmpPrepare mat r c` for an integer matrix `mat` whose entries are the limbs of `M`.
  All budgets are `True`.  This file: the limb-level facts; `ClosedSound2`: the record.
-/
import SpqProofs.Lemmas.ClosedPoly
import SpqProofs.Lemmas.ModuleVmpExact
set_option linter.unusedSectionVars false
namespace Spq.Closed
open Finset Spq Spq.Module Spq.Prog Reim4

variable {R : Type} [CommRing R]

/-- `fromZnx` depends only on the coefficients `< nn` of its argument -/
def FromLocal (c : Parts R) : Prop :=
  ∀ x y : Array Int, (∀ t, t < c.nn → x.getD t 0 = y.getD t 0) → c.fromZnx x = c.fromZnx y

def RepVx (c : Parts R) (P : Val) (sz : ℕ) (d : Array R) : Prop :=
  d.size = sz * c.nn ∧ ∀ i, i < sz → dlimb d i c.nn = c.fft (c.fromZnx (polyArr c.nn (P.coef i)))

def RepSx (c : Parts R) (sp : Array Int) (s : Array R) : Prop :=
  s = c.fft (c.fromZnx (polyArr c.nn (fun t => sp.getD t 0)))

def RepMx (c : Parts R) (M : Val) (nrows ncols : ℕ) (pm : Array R) : Prop :=
  ∃ mat : Array Int,
    (∀ i j, i < nrows → j < ncols → (matEntry mat ncols c.nn i j).size = c.nn ∧
      ∀ t, t < c.nn → (matEntry mat ncols c.nn i j).getD t 0 = M.coef (i * ncols + j) t) ∧
    pm = vmpPrepare c mat nrows ncols

section
variable (c : Parts R) (z : ℕ → Cx R) (ha : ExactArith c) (hd : ExactDft c z) (hl : FromLocal c)
include ha hd hl

omit ha hd in
theorem fft_congr (x y : Array Int) (h : ∀ t, t < c.nn → x.getD t 0 = y.getD t 0) :
    c.fft (c.fromZnx x) = c.fft (c.fromZnx y) := by rw [hl x y h]

/-- the zero limb -/
theorem zero_limb (f : ℕ → ℤ) (hf : ∀ t, t < c.nn → f t = 0) :
    Array.replicate c.nn c.ar.zero = c.fft (c.fromZnx (polyArr c.nn f)) := by
  have hz : c.ar.zero = 0 := by rw [ha.har]; rfl
  rw [hz, ← fft_zero c z ha hd]
  apply fft_congr c hl
  intro t ht
  rw [getD_polyArr _ _ _ ht, hf t ht]
  simp [Array.getD_eq_getD_getElem?, ht]

omit ha hd hl in
theorem limbOf_getD (x : Array Int) (i sl nn t : ℕ) (ht : t < nn) :
    (limbOf x i sl nn).getD t 0 = x.getD (i * sl + t) 0 := by
  unfold limbOf
  rw [getD_extract, if_pos (by omega)]

/-- `vec_znx_dft` -/
theorem dft_sound (x : Array Int) (asz asl rsz : ℕ) (f : ℕ → ℕ → ℤ) (hag : Agree c.nn x asz asl f) :
    RepVx c (Val.mk c.nn rsz (zext asz f)) rsz (vecDft c rsz x asz asl) := by
  apply vecDft_spec
  · intro i hi
    by_cases h : i < asz
    · rw [if_pos h]
      apply fft_congr c hl
      intro t ht
      rw [limbOf_getD _ _ _ _ _ ht, hag.2 i t h ht, getD_polyArr _ _ _ ht, coef_mk _ _ _ _ _ hi ht, zext, if_pos h]
    · rw [if_neg h]
      apply zero_limb c z ha hd hl
      intro t ht
      rw [coef_mk _ _ _ _ _ hi ht, zext, if_neg h]
  · intro i _
    exact hd.fft_size _ (hd.fromZnx_size _ (size_polyArr _ _))

omit ha hd in
/-- `svp_prepare` -/
theorem svp_prepare_sound (x : Array Int) (f : ℕ → ℤ) (hx : ∀ t, t < c.nn → x.getD t 0 = f t) :
    RepSx c (Array.ofFn (n := c.nn) fun t => f t.val) (svpPrepare c x) := by
  unfold RepSx svpPrepare
  apply fft_congr c hl
  intro t ht
  rw [hx t ht, getD_polyArr _ _ _ ht]
  exact (getD_polyArr c.nn f t ht).symm

/-- `svp_apply_dft` -/
theorem svp_sound (x : Array Int) (asz asl rsz : ℕ) (f : ℕ → ℕ → ℤ) (sp : Array Int) (s : Array R)
    (hag : Agree c.nn x asz asl f) (hs : RepSx c sp s) :
    RepVx c (Val.mk c.nn rsz fun i t => polyMul c.nn (zext asz f i) (fun u => sp.getD u 0) t) rsz
      (svpApply c rsz s x asz asl) := by
  apply svpApply_spec
  · intro i hi
    by_cases h : i < asz
    · rw [if_pos h, hs, fft_prod c z ha hd _ _ (size_limbOf _ _ _ _ (hag.1 i h)) (size_polyArr _ _)]
      apply fft_congr c hl
      intro t ht
      rw [getD_polyArr _ _ _ ht, coef_mk _ _ _ _ _ hi ht]
      apply getD_nmul _ _ _ _ _ _ _ t ht
      · intro u hu; rw [limbOf_getD _ _ _ _ _ hu, hag.2 i u h hu, zext, if_pos h]
      · intro u hu; exact getD_polyArr _ _ _ hu
    · rw [if_neg h]
      apply zero_limb c z ha hd hl
      intro t ht
      rw [coef_mk _ _ _ _ _ hi ht]
      have : zext asz f i = fun _ => 0 := by funext u; simp [zext, h]
      rw [this, polyMul_zero_left]
  · intro i _
    exact hd.fft_size _ (hd.fromZnx_size _ (size_polyArr _ _))

end
end Spq.Closed
