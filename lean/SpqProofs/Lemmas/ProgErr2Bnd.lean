/-
  C16, binary64 side, products of products: the budgets in closed form with explicit constants (`k ≤ 16`, i.e.
  `N ≤ 131072`; `n ≤ 2^25 − 1` rows), and consistency with the single-product budgets of C01Err / C16Err:
   * `eps_le16`        : `ε = (1+8u)^k − 1 ≤ 8·log2(N)·u`;
   * `muD_le`          : `μ_n = 3/2·γ(n) ≤ 3/2·(2n+3)·u`;
   * `colDelta_le16`   : `δ'_j ≤ Σ_i [(1+μ̄)(1+ε̄·m)·δ_i·‖M_ij‖₁ + (1+μ̄)·ε̄·‖P_i‖₁·nb_i + μ̄·(‖P_i‖₁·nb_i + na_i·‖M_ij‖₁)/2]`,
                          `ε̄ = 8·log2(N)·u`, `μ̄ = 3/2·(2n+3)·u`;
   * `invBudget_raw_le16` : dft → idft: `invBudget na (ε·na) = (2ε + ε²)·na ≤ 17·log2(N)·u·na`  (the round-trip budget);
   * `invBudget_svp_le16` : svp → idft: `invBudget (S/2) (svpDelta) = eB ε μ θ·S ≤ 12·log2(N)·u·S` (C01Err's budget).
-/
import SpqProofs.Lemmas.ProgErr2Cons
set_option linter.unusedSectionVars false
namespace Spq.ProgErr2
open Finset Spq Spq.Module Spq.FftErr Spq.F64 Spq.ProdErr Spq.VmpErr Spq.ProgErr Spq.Closed Spq.Prog
variable {K : Type} [Field K] [LinearOrder K] [IsStrictOrderedRing K]

theorem eps_le16 (k : ℕ) (hk : k ≤ 16) : eps K k ≤ ((8 * (k + 1 : ℚ) * u64 : ℚ) : K) := by
  rw [eps_cast]
  exact (Rat.cast_le (K := K)).2 (bound16 k hk)

theorem muD_le (n : ℕ) (hn : 2 * n + 2 ≤ 67108864) : ((muD n : ℚ) : K) ≤ ((3 / 2 * ((2 * (n : ℚ) + 3) * u64) : ℚ) : K) := by
  apply (Rat.cast_le (K := K)).2
  unfold muD
  have := gamD_le_lin n hn
  linarith

/-- monotone form of `rowF_le` -/
theorem rowF_le_mono (μ μ' δ ε ε' na nb la lb t : K) (hμ : 0 ≤ μ) (hδ : 0 ≤ δ) (hε : 0 ≤ ε) (ht : 0 ≤ t)
    (hna : 0 ≤ na) (hnb : 0 ≤ nb) (hla : 0 ≤ la) (hnl : nb ≤ lb) (hμ' : μ ≤ μ') (hε' : ε ≤ ε') :
    rowF μ δ (ε * nb) na nb la lb t ≤
      (1 + μ') * (1 + ε' * t) * δ * lb + (1 + μ') * ε' * la * nb + μ' * ((la * nb + na * lb) / 2) := by
  have hlb : 0 ≤ lb := le_trans hnb hnl
  refine le_trans (rowF_le μ δ ε na nb la lb t hμ hδ hε ht hnl) ?_
  have h1 : (1 + μ) * (1 + ε * t) ≤ (1 + μ') * (1 + ε' * t) := by
    apply mul_le_mul (by linarith) _ (by positivity) (by linarith)
    have := mul_le_mul_of_nonneg_right hε' ht
    linarith
  have h2 : (1 + μ) * ε ≤ (1 + μ') * ε' := mul_le_mul (by linarith) hε' hε (by linarith)
  have a1 : (1 + μ) * (1 + ε * t) * δ * lb ≤ (1 + μ') * (1 + ε' * t) * δ * lb :=
    mul_le_mul_of_nonneg_right (mul_le_mul_of_nonneg_right h1 hδ) hlb
  have a2 : (1 + μ) * ε * la * nb ≤ (1 + μ') * ε' * la * nb :=
    mul_le_mul_of_nonneg_right (mul_le_mul_of_nonneg_right h2 hla) hnb
  have a3 : μ * ((la * nb + na * lb) / 2) ≤ μ' * ((la * nb + na * lb) / 2) :=
    mul_le_mul_of_nonneg_right hμ' (by positivity)
  linarith

/-- **the propagated budget of one output column with explicit constants** -/
theorem colDelta_le16 (M : F64Mod K) (mat : Array Int) (ncols n : ℕ) (P : ℕ → Array Int) (j : ℕ) (δ na nb : ℕ → K)
    (hn : 2 * n + 2 ≤ 67108864) (hδ : ∀ i, i < n → 0 ≤ δ i) (hna : ∀ i, i < n → 0 ≤ na i) (hnb : ∀ i, i < n → 0 ≤ nb i)
    (hnl : ∀ i, i < n → nb i ≤ n1 K (matEntry mat ncols M.N i j) M.N) :
    colDelta M mat ncols n P j δ na nb ≤
      ∑ i ∈ range n,
        ((1 + ((3 / 2 * ((2 * (n : ℚ) + 3) * u64) : ℚ) : K)) * (1 + ((8 * (M.k + 1 : ℚ) * u64 : ℚ) : K) * 2 ^ M.k) * δ i *
            n1 K (matEntry mat ncols M.N i j) M.N +
          (1 + ((3 / 2 * ((2 * (n : ℚ) + 3) * u64) : ℚ) : K)) * ((8 * (M.k + 1 : ℚ) * u64 : ℚ) : K) * n1 K (P i) M.N * nb i +
          ((3 / 2 * ((2 * (n : ℚ) + 3) * u64) : ℚ) : K) *
            ((n1 K (P i) M.N * nb i + na i * n1 K (matEntry mat ncols M.N i j) M.N) / 2)) := by
  unfold colDelta
  apply sum_le_sum
  intro i hi
  have hi' := mem_range.1 hi
  have hμ : (0 : K) ≤ ((muD n : ℚ) : K) := by exact_mod_cast muD_nonneg n
  exact rowF_le_mono _ _ (δ i) (eps K M.k) _ (na i) (nb i) _ _ (2 ^ M.k) hμ (hδ i hi') (eps_nonneg M.k) (by positivity)
    (hna i hi') (hnb i hi') (n1_nonneg _ _) (hnl i hi') (muD_le n hn) (eps_le16 M.k M.hk)

/-- dft → idft: the consumer budget of a raw transform is the round-trip budget of `C16Err.roundtrip_exact_f64_partial` -/
theorem invBudget_raw_le16 (M : F64Mod K) (na : K) (hna : 0 ≤ na) :
    invBudget M na (eps K M.k * na) ≤ ((17 * (M.k + 1 : ℚ) * u64 : ℚ) : K) * na := by
  have e : invBudget M na (eps K M.k * na) = rtRel K M.k * na := by unfold invBudget rtRel; ring
  rw [e]
  exact mul_le_mul_of_nonneg_right (rtRel_le16 M.k M.hk) hna

/-- svp → idft: the consumer budget of a single product is the budget `E'` of `C01Err.small_product_exact_f64_partial` -/
theorem invBudget_svp_le16 (M : F64Mod K) (a b : Array Int) (na nb : K) (hna : 0 ≤ na) (hnb : 0 ≤ nb) :
    invBudget M ((n1 K a M.N * nb + na * n1 K b M.N) / 2) (svpDelta M a b na nb) ≤
      ((12 * (M.k + 1 : ℚ) * u64 : ℚ) : K) * (n1 K a M.N * nb + na * n1 K b M.N) := by
  have e : invBudget M ((n1 K a M.N * nb + na * n1 K b M.N) / 2) (svpDelta M a b na nb) = budget K M.k a b na nb := by
    unfold invBudget svpDelta budget eB; ring
  rw [e]
  exact budget_le16 M.k M.hk a b na nb hna hnb

end Spq.ProgErr2
