/-
  C16, binary64 side, step 6: `vmp_prepare_contiguous` + `vmp_apply_dft` inside `VmpBudget` returns an object that
  represents the exact vector-matrix product (`vmp_sound`), and the `vmp_apply_dft_to_dft` form for a vector that is
  itself a raw `vec_znx_dft` (`vmpDD_eq`: bit for bit the same object as `vmp_apply_dft`).
-/
import SpqProofs.Lemmas.ProgErrOps
set_option linter.unusedSectionVars false
namespace Spq.ProgErr
open Finset Spq Spq.Module Spq.Fft Spq.Fft.Alg Spq.FftErr Spq.F64 Spq.Reim4 Spq.ProdErr Spq.VmpErr Spq.Conv Spq.Prog
  Spq.Closed
variable {K : Type} [Field K] [LinearOrder K] [IsStrictOrderedRing K]

/-- the canonical flat form of an abstract matrix -/
abbrev matOf (M : F64Mod K) (Mv : Val) (nrows ncols : ℕ) : Array Int :=
  flatOf M.N (nrows * ncols) (fun i t => Mv.coef i t)

/-- `vmp_apply_dft` on canonical arrays -/
theorem vmp_sound_canon (M : F64Mod K) (asz rsz : ℕ) (f : ℕ → ℕ → ℤ) (Mv : Val) (nrows ncols : ℕ)
    (hb : VmpBudget M (matOf M Mv nrows ncols) nrows ncols (flatOf M.N asz f) asz rsz) :
    LimbExact M (Val.mk M.N rsz (Prog.vmpVal M.N asz (zext asz f) Mv nrows ncols)) rsz
      (vmpApplyDft M.parts rsz (flatOf M.N asz f) asz M.N (vmpPrepare M.parts (matOf M Mv nrows ncols) nrows ncols)
        nrows ncols) := by
  obtain ⟨hn, hA, hM, hcol⟩ := hb
  intro j hj
  have key := idft_row M rsz (vmpApplyDft M.parts rsz (flatOf M.N asz f) asz M.N
    (vmpPrepare M.parts (matOf M Mv nrows ncols) nrows ncols) nrows ncols) rsz j hj
  rw [if_pos hj] at key
  rw [← key]
  have hra : min nrows asz ≤ asz := Nat.min_le_right _ _
  have hrn : min nrows asz ≤ nrows := Nat.min_le_left _ _
  by_cases hjc : j < min ncols rsz
  · have hjn : j < ncols := lt_of_lt_of_le hjc (Nat.min_le_left _ _)
    by_cases hz : M.k < 2 ∧ min nrows asz = 0
    · have z := vmp_zero_col M.c M.k (k961 M) M.cN M.sN M.cNi M.sNi M.ok (matOf M Mv nrows ncols) nrows ncols
        (flatOf M.N asz f) asz M.N rsz rsz hM j hj (Or.inr hz)
      unfold vmpRes at z
      rw [z]
      symm
      apply polyArr_zero
      intro t ht
      rw [coef_mk _ _ _ _ _ hj ht]
      unfold Prog.vmpVal
      rw [if_pos hjn, hz.2]
      rfl
    · have hpos : M.k < 2 → 0 < min nrows asz := by
        intro h2
        by_contra h0
        exact hz ⟨h2, by omega⟩
      obtain ⟨hok, na, nb, hna0, hnb0, hna, hnb, hnl, hE⟩ := hcol j hjc hpos
      have e := vmp_exact_col M.c M.k M.hk M.cN M.sN M.cNi M.sNi M.ok M.ζ M.ζi M.hζ M.hI M.hinv M.hcs M.hcsi
        (matOf M Mv nrows ncols) nrows ncols (flatOf M.N asz f) asz M.N rsz rsz hn hA hM j hjc hj hpos hok na nb hna0 hnb0
        hna hnb hnl hE
      unfold vmpRes at e
      rw [e]
      unfold colSpec
      apply eq_polyArr_of_getD _ _ _ (size_isum _ _ _)
      intro t ht
      rw [getD_isum _ _ _ _ ht, coef_mk _ _ _ _ _ hj ht]
      unfold Prog.vmpVal
      rw [if_pos hjn]
      apply progSumTo_congr
      intro i hi
      apply getD_nmul _ _ _ _ _ _ _ t ht
      · intro u hu
        rw [limbOf_flatOf _ _ _ i (by omega), getD_polyArr _ _ _ hu, zext, if_pos (by omega)]
      · intro u hu
        rw [matEntry_flatOf _ _ _ _ i j (by omega) hjn, getD_polyArr _ _ _ hu]
  · have z := vmp_zero_col M.c M.k (k961 M) M.cN M.sN M.cNi M.sNi M.ok (matOf M Mv nrows ncols) nrows ncols
      (flatOf M.N asz f) asz M.N rsz rsz hM j hj (Or.inl (by omega))
    unfold vmpRes at z
    rw [z]
    symm
    apply polyArr_zero
    intro t ht
    rw [coef_mk _ _ _ _ _ hj ht]
    unfold Prog.vmpVal
    rw [if_neg (by omega)]

/-- `vmp_apply_dft` on any array holding the vector -/
theorem vmp_sound (M : F64Mod K) (x : Array Int) (asz asl rsz : ℕ) (f : ℕ → ℕ → ℤ) (hag : Agree M.N x asz asl f)
    (Mv : Val) (nrows ncols : ℕ)
    (hb : VmpBudget M (matOf M Mv nrows ncols) nrows ncols (flatOf M.N asz f) asz rsz) :
    LimbExact M (Val.mk M.N rsz (Prog.vmpVal M.N asz (zext asz f) Mv nrows ncols)) rsz
      (vmpApplyDft M.parts rsz x asz asl (vmpPrepare M.parts (matOf M Mv nrows ncols) nrows ncols) nrows ncols) := by
  have hc := vmpApplyDft_canon M.parts rsz (vmpPrepare M.parts (matOf M Mv nrows ncols) nrows ncols) nrows ncols
    (agree_nn M hag)
  rw [M.nn] at hc
  rw [hc]
  exact vmp_sound_canon M asz rsz f Mv nrows ncols hb

/-- `vmp_prepare_contiguous` of any array holding the matrix is the prepared canonical matrix -/
theorem vmpPrepare_matOf (M : F64Mod K) (x : Array Int) (nrows ncols : ℕ) (f : ℕ → ℕ → ℤ)
    (hag : Agree M.N x (nrows * ncols) M.N f) :
    vmpPrepare M.parts x nrows ncols = vmpPrepare M.parts (matOf M (Val.mk M.N (nrows * ncols) f) nrows ncols) nrows ncols := by
  have hag' : Agree M.parts.nn x (nrows * ncols) M.parts.nn f := by rw [M.nn]; exact hag
  have h1 := vmpPrepare_canon M.parts nrows ncols hag'
  rw [M.nn] at h1
  rw [h1]
  apply vmpPrepare_congr
  intro i j hi hj
  rw [M.nn, matEntry_flatOf _ _ _ _ i j hi hj, matEntry_flatOf _ _ _ _ i j hi hj]
  have hidx : i * ncols + j < nrows * ncols := by
    have := Module.mul_step i nrows ncols hi
    omega
  apply polyArr_congr
  intro t ht
  rw [coef_mk _ _ _ _ _ hidx ht]

end Spq.ProgErr
