/-
  The standard model for the binary64 operations of `Spq/F64.lean`: `add`, `sub`, `mul`, `fma`, `fms` return a
  finite pattern whose value is the exact result up to a relative error `2^-53` (normal range) or an absolute
  error `2^-1075` (subnormal range), provided the exact result is below the overflow threshold.
-/
import SpqProofs.Lemmas.F64StdPack

namespace Spq.F64

/-- `r` is a finite pattern whose value is a correct rounding of the exact value `q`: relative error `≤ 2^-53`
    when `q` is in the normal range (`|q| ≥ 2^-1022`, or `q = 0`: then exact), absolute error `≤ 2^-1075` when
    `|q| ≤ 2^-1022` -/
def RoundsTo (r : Nat) (q : ℚ) : Prop :=
  Fin64 r ∧ (NormalRange q → |val r - q| ≤ u64 * |q|) ∧ (|q| ≤ minNormal → |val r - q| ≤ halfMinSub)

theorem roundsTo_of {r : Nat} {q : ℚ} (hfin : Fin64 r) (h0 : q = 0 → val r = 0)
    (h2 : minNormal ≤ |q| → |val r - q| ≤ u64 * |q|) (h3 : |q| ≤ minNormal → |val r - q| ≤ halfMinSub) :
    RoundsTo r q := by
  refine ⟨hfin, fun hn => ?_, h3⟩
  rcases hn with h | ⟨h, _⟩
  · rw [h0 h, h]; simp
  · exact h2 h

theorem sI_decide_natAbs (v : Int) : sI (decide (v < 0)) v.natAbs = v := by
  unfold sI
  by_cases h : v < 0
  · simp only [h, decide_true, if_true]; omega
  · simp only [h, decide_false, Bool.false_eq_true, if_false]; omega

theorem natAbs_cast_abs (v : Int) : ((v.natAbs : ℕ) : ℚ) = |(v : ℚ)| := by
  rw [Nat.cast_natAbs, Int.cast_abs]

/-- `packSigned v e z` rounds `v·2^e`; for `e ≥ -1074` the relative bound needs no lower limit -/
theorem packSigned_std (v : Int) (e : Int) (z : Bool) (hov : |(v : ℚ) * 2 ^ e| < ovfThr) :
    RoundsTo (packSigned v e z) ((v : ℚ) * 2 ^ e) ∧
    (-1074 ≤ e → |val (packSigned v e z) - (v : ℚ) * 2 ^ e| ≤ u64 * |(v : ℚ) * 2 ^ e|) := by
  by_cases hv : v = 0
  · subst hv
    rw [packSigned_zero]
    have hz : ((0 : ℤ) : ℚ) * 2 ^ e = 0 := by simp
    rw [hz]
    have hh : (0 : ℚ) ≤ halfMinSub := le_of_lt (two_zpow_pos _)
    refine ⟨roundsTo_of (fin64_sgn z) (fun _ => val_sgn z) ?_ ?_, fun _ => ?_⟩ <;>
      simp [val_sgn, hh]
  rw [packSigned_ne_zero hv]
  have habs : |(v : ℚ) * 2 ^ e| = ((v.natAbs : ℕ) : ℚ) * 2 ^ e := by
    rw [abs_mul, abs_of_pos (two_zpow_pos e), natAbs_cast_abs]
  have hsv : sv (decide (v < 0)) v.natAbs e = (v : ℚ) * 2 ^ e := by
    unfold sv; rw [sI_decide_natAbs]
  have hne : (v : ℚ) * 2 ^ e ≠ 0 := mul_ne_zero (by exact_mod_cast hv) (ne_of_gt (two_zpow_pos e))
  rw [habs] at hov
  obtain ⟨h1, h2, h3, h4⟩ := pack_std (decide (v < 0)) v.natAbs e hov
  rw [hsv, ← habs] at h2 h3 h4
  exact ⟨roundsTo_of h1 (fun h => absurd h hne) h2 h3, h4⟩

/-- `(m·2^(xe−e))·2^e = m·2^xe` -/
theorem scale_back (m : Int) {xe e : Int} (h : e ≤ xe) :
    (((m * (2 : Int) ^ ((xe - e).toNat) : Int) : ℚ)) * 2 ^ e = (m : ℚ) * 2 ^ xe := by
  obtain ⟨n, hn⟩ : ∃ n : Nat, xe - e = (n : Int) := ⟨(xe - e).toNat, by omega⟩
  have hx : xe = (n : ℤ) + e := by omega
  rw [hn, Int.toNat_natCast, hx, two_zpow_add, zpow_natCast]
  push_cast; ring

theorem toIntM_eq (d : Dec) : toIntM d = sI d.neg d.m := rfl

/-- the exact sum, as the scaled integer that `add` packs -/
theorem add_exact (a b : Nat) :
    add a b = packSigned
      (toIntM (decode a) * (2 : Int) ^ (((decode a).e - min (decode a).e (decode b).e).toNat) +
        toIntM (decode b) * (2 : Int) ^ (((decode b).e - min (decode a).e (decode b).e).toNat))
      (min (decode a).e (decode b).e) ((decode a).neg && (decode b).neg) := rfl

theorem add_value (a b : Nat) :
    (((toIntM (decode a) * (2 : Int) ^ (((decode a).e - min (decode a).e (decode b).e).toNat) +
        toIntM (decode b) * (2 : Int) ^ (((decode b).e - min (decode a).e (decode b).e).toNat) : Int)) : ℚ) *
      2 ^ (min (decode a).e (decode b).e) = val a + val b := by
  rw [Int.cast_add, add_mul, scale_back _ (min_le_left _ _), scale_back _ (min_le_right _ _),
    val_decode a, val_decode b]
  rfl

/-- addition: finite result, relative error `≤ 2^-53` for every exact sum below the overflow threshold
    (sums in the subnormal range are exact) -/
theorem add_std (a b : Nat) (hov : NoOvf (val a + val b)) :
    Fin64 (add a b) ∧ |val (add a b) - (val a + val b)| ≤ u64 * |val a + val b| := by
  unfold NoOvf at hov
  rw [add_exact]
  rw [← add_value a b] at hov ⊢
  obtain ⟨⟨h1, _, _⟩, h4⟩ := packSigned_std _ _ ((decode a).neg && (decode b).neg) hov
  exact ⟨h1, h4 (le_min (decode_e_ge a) (decode_e_ge b))⟩

/-! ### negation and subtraction -/

theorem sv_not (s : Bool) (m : Nat) (e : Int) : sv (!s) m e = - sv s m e := by
  unfold sv; rw [sI_not]; push_cast; ring

theorem val_neg {b : Nat} (hb : b < 18446744073709551616) : val (neg b) = - val b := by
  rw [val_of_decode (decode_neg hb (s := (decode b).neg) (m := (decode b).m) (e := (decode b).e) rfl), sv_not,
    val_decode b]

theorem fin64_neg {b : Nat} (hb : Fin64 b) : Fin64 (neg b) := by
  obtain ⟨h1, h2⟩ := hb
  unfold Fin64 isFinite expField at *
  have hexp : neg b / 4503599627370496 % 2048 = b / 4503599627370496 % 2048 := by
    unfold neg; split <;> omega
  rw [hexp]
  refine ⟨?_, h2⟩
  unfold neg; split <;> omega

/-- subtraction: as for addition, no lower limit -/
theorem sub_std (a b : Nat) (hb : b < 18446744073709551616) (hov : NoOvf (val a - val b)) :
    Fin64 (sub a b) ∧ |val (sub a b) - (val a - val b)| ≤ u64 * |val a - val b| := by
  have e : val a - val b = val a + val (neg b) := by rw [val_neg hb]; ring
  rw [e] at hov ⊢
  exact add_std a (neg b) hov

/-! ### multiplication -/

theorem sI_bne (s1 s2 : Bool) (m1 m2 : Nat) : sI (s1 != s2) (m1 * m2) = sI s1 m1 * sI s2 m2 := by
  cases s1 <;> cases s2 <;> simp [sI]

theorem sv_mul (s1 s2 : Bool) (m1 m2 : Nat) (e1 e2 : Int) :
    sv (s1 != s2) (m1 * m2) (e1 + e2) = sv s1 m1 e1 * sv s2 m2 e2 := by
  unfold sv; rw [sI_bne, two_zpow_add]; push_cast; ring

theorem sv_eq_zero {s : Bool} {m : Nat} {e : Int} (h : sv s m e = 0) : m = 0 := by
  have h2 := sv_abs s m e
  rw [h, abs_zero] at h2
  have := two_zpow_pos e
  rcases mul_eq_zero.1 h2.symm with h3 | h3
  · exact_mod_cast h3
  · linarith

/-- `pack` as a rounding of the signed value `sv neg M E` -/
theorem pack_roundsTo (neg : Bool) (M : Nat) (E : Int) (hov : NoOvf (sv neg M E)) :
    RoundsTo (pack neg M E) (sv neg M E) := by
  unfold NoOvf at hov
  rw [sv_abs] at hov
  obtain ⟨h1, h2, h3, _⟩ := pack_std neg M E hov
  rw [← sv_abs neg] at h2 h3
  refine roundsTo_of h1 (fun h => ?_) h2 h3
  rw [sv_eq_zero h, pack_zero, val_sgn]

theorem mul_std (a b : Nat) (hov : NoOvf (val a * val b)) : RoundsTo (mul a b) (val a * val b) := by
  have e : val a * val b = sv ((decode a).neg != (decode b).neg) ((decode a).m * (decode b).m) ((decode a).e + (decode b).e) := by
    rw [sv_mul, ← val_decode, ← val_decode]
  rw [e] at hov ⊢
  exact pack_roundsTo _ _ _ hov

/-! ### fused multiply-add -/

theorem fma_exact (a b c : Nat) :
    fma a b c = packSigned
      (sI ((decode a).neg != (decode b).neg) ((decode a).m * (decode b).m) *
          (2 : Int) ^ (((decode a).e + (decode b).e - min ((decode a).e + (decode b).e) (decode c).e).toNat) +
        toIntM (decode c) * (2 : Int) ^ (((decode c).e - min ((decode a).e + (decode b).e) (decode c).e).toNat))
      (min ((decode a).e + (decode b).e) (decode c).e) (((decode a).neg != (decode b).neg) && (decode c).neg) := by
  unfold fma sI
  simp only []

theorem fma_value (a b c : Nat) :
      ((sI ((decode a).neg != (decode b).neg) ((decode a).m * (decode b).m) *
          (2 : Int) ^ (((decode a).e + (decode b).e - min ((decode a).e + (decode b).e) (decode c).e).toNat) +
        toIntM (decode c) * (2 : Int) ^ (((decode c).e - min ((decode a).e + (decode b).e) (decode c).e).toNat) : Int) : ℚ) *
      2 ^ (min ((decode a).e + (decode b).e) (decode c).e) = val a * val b + val c := by
  rw [Int.cast_add, add_mul, scale_back _ (min_le_left _ _), scale_back _ (min_le_right _ _),
    val_decode a, val_decode b, val_decode c, ← sv_mul]
  rfl

theorem fma_std (a b c : Nat) (hov : NoOvf (val a * val b + val c)) :
    RoundsTo (fma a b c) (val a * val b + val c) := by
  unfold NoOvf at hov
  rw [fma_exact]
  rw [← fma_value a b c] at hov ⊢
  exact (packSigned_std _ _ _ hov).1

theorem fms_std (a b c : Nat) (hc : c < 18446744073709551616) (hov : NoOvf (val a * val b - val c)) :
    RoundsTo (fms a b c) (val a * val b - val c) := by
  have e : val a * val b - val c = val a * val b + val (neg c) := by rw [val_neg hc]; ring
  rw [e] at hov ⊢
  exact fma_std a b (neg c) hov

theorem fnma_std (a b c : Nat) (ha : a < 18446744073709551616) (hov : NoOvf (-(val a * val b) + val c)) :
    RoundsTo (fnma a b c) (-(val a * val b) + val c) := by
  have e : -(val a * val b) + val c = val (neg a) * val b + val c := by rw [val_neg ha]; ring
  rw [e] at hov ⊢
  exact fma_std (neg a) b c hov

end Spq.F64
