/-
  Exact-arithmetic description of the interleaved-complex helper kernels of `Spq/Cover.lean`
  (`cplx_fftvec_{add,sub2_to,copy,twiddle}_fma`, `cplx_fftvec_twiddle_avx512`).
-/
import SpqProofs.Lemmas.CoverBase
namespace Spq

/-! ### more complex-number vocabulary -/
namespace Cx
variable {R : Type} [CommRing R]

instance : Sub (Cx R) := ⟨fun x y => ⟨x.re - y.re, x.im - y.im⟩⟩
@[simp] theorem sub_re (x y : Cx R) : (x - y).re = x.re - y.re := rfl
@[simp] theorem sub_im (x y : Cx R) : (x - y).im = x.im - y.im := rfl

/-- multiplication by `i` -/
def mulI (x : Cx R) : Cx R := ⟨-x.im, x.re⟩
@[simp] theorem mulI_re (x : Cx R) : (mulI x).re = -x.im := rfl
@[simp] theorem mulI_im (x : Cx R) : (mulI x).im = x.re := rfl

end Cx

namespace Cover
open Reim4
variable {R : Type} [CommRing R]

/-- the arithmetic of a commutative ring with the sign flip -/
def CArith.ofRing (R : Type) [CommRing R] : CArith R := { toRArith := RArith.ofRing R, neg := fun a => -a }

@[simp] theorem ofRing_neg (a : R) : (CArith.ofRing R).neg a = -a := rfl
@[simp] theorem ofRing_toRArith : (CArith.ofRing R).toRArith = RArith.ofRing R := rfl

/-- the complex number stored in cells `p`, `p+1` -/
def cxAt (x : Array R) (p : Nat) : Cx R := cx x p (p + 1)
@[simp] theorem cxAt_re (x : Array R) (p : Nat) : (cxAt x p).re = x.getD p 0 := rfl
@[simp] theorem cxAt_im (x : Array R) (p : Nat) : (cxAt x p).im = x.getD (p + 1) 0 := rfl

theorem ev_idxCplx (x : Array R) (i : Nat) : ev idxCplx x i = cxAt x (2 * i) := rfl

/-! ### loop counts in the domain of the kernels -/

theorem ymmCount_fma (m : Nat) (hm : m % 8 = 0) (h0 : 0 < m) : ymmCount (m / 2) 4 = m / 2 := by
  unfold ymmCount doWhileIters; rw [Nat.max_def]; split <;> omega
theorem ymmCount_avx512 (m : Nat) (hm : m % 16 = 0) (h0 : 0 < m) : 2 * ymmCount (m / 4) 4 = m / 2 := by
  unfold ymmCount doWhileIters; rw [Nat.max_def]; split <;> omega
theorem ymmCount_bitw_fma (m : Nat) (hm : m % 2 = 0) (h0 : 0 < m) : ymmCount (m / 2) 1 = m / 2 := by
  unfold ymmCount doWhileIters; rw [Nat.max_def]; split <;> omega
theorem ymmCount_bitw_avx512 (m : Nat) (hm : m % 8 = 0) (h0 : 0 < m) : 2 * ymmCount (m / 4) 2 = m / 2 := by
  unfold ymmCount doWhileIters; rw [Nat.max_def]; split <;> omega

/-! ### cell-wise register loops (`add`, `sub2_to`, `copy`) -/

theorem mapV4_cellwise {α : Type} (z : α) (n : Nat) (F : Nat → V4 α → V4 α) (g : Nat → α → α) (r : Array α)
    (hb : 4 * n ≤ r.size)
    (hF : ∀ j, j < n → ∀ v l, l < 4 → (F j v).lane l = g (4 * j + l) (v.lane l)) :
    (mapV4 z n (fun j => 4 * j) F r).size = r.size ∧
    (∀ x, x < 4 * n → (mapV4 z n (fun j => 4 * j) F r).getD x z = g x (r.getD x z)) ∧
    (∀ x, 4 * n ≤ x → (mapV4 z n (fun j => 4 * j) F r).getD x z = r.getD x z) := by
  obtain ⟨s1, s2, s3⟩ := mapV4_spec z n (fun j => 4 * j) F r (by intro j j' _ _ _; omega) (by intro j hj; omega)
  refine ⟨s1, ?_, fun x hx => s3 x (by intro j hj; omega)⟩
  intro x hx
  have e : x = 4 * (x / 4) + x % 4 := by omega
  have := s2 (x / 4) (by omega) (x % 4) (by omega)
  rw [hF (x / 4) (by omega) _ _ (by omega), V4.lane_load _ _ _ _ (by omega), ← e] at this
  exact this

/-- a cell-wise description of the first `2m` cells is a `Pointwise` description on the interleaved layout -/
theorem pointwise_of_cells (m : Nat) (r res : Array R) (g : Nat → R)
    (hs : res.size = r.size) (hv : ∀ x, x < 2 * m → res.getD x 0 = g x) (hf : ∀ x, 2 * m ≤ x → res.getD x 0 = r.getD x 0) :
    Pointwise idxCplx m r res (fun i => ⟨g (2 * i), g (2 * i + 1)⟩) := by
  refine ⟨hs, ?_, hf⟩
  intro i hi
  ext
  · simp only [ev, idxCplx, cx_re]; exact hv _ (by omega)
  · simp only [ev, idxCplx, cx_im]; exact hv _ (by omega)

theorem cplxFftvecAddFma_spec (m : Nat) (hm : m % 8 = 0) (h0 : 0 < m) (r a b : Array R) (hr : 2 * m ≤ r.size) :
    Pointwise idxCplx m r (cplxFftvecAddFma (RArith.ofRing R) m r a b) (fun i => ev idxCplx a i + ev idxCplx b i) := by
  unfold cplxFftvecAddFma
  rw [ymmCount_fma m hm h0]
  obtain ⟨s1, s2, s3⟩ := mapV4_cellwise (0 : R) (m / 2)
    (fun j _ => V4.add (RArith.ofRing R) (V4.load 0 a (4 * j)) (V4.load 0 b (4 * j)))
    (fun x _ => a.getD x 0 + b.getD x 0) r (by omega)
    (by
      intro j _ v l hl
      simp only [V4.add, V4.lane_map2, V4.lane_load _ _ _ _ hl, ofRing_add])
  have e : 4 * (m / 2) = 2 * m := by omega
  rw [e] at s2 s3
  exact pointwise_of_cells m r _ (fun x => a.getD x 0 + b.getD x 0) s1 s2 s3

theorem cplxFftvecSub2ToFma_spec (m : Nat) (hm : m % 8 = 0) (h0 : 0 < m) (r a b : Array R) (hr : 2 * m ≤ r.size) :
    Pointwise idxCplx m r (cplxFftvecSub2ToFma (RArith.ofRing R) m r a b)
      (fun i => ev idxCplx r i - (ev idxCplx a i + ev idxCplx b i)) := by
  unfold cplxFftvecSub2ToFma
  rw [ymmCount_fma m hm h0]
  obtain ⟨s1, s2, s3⟩ := mapV4_cellwise (0 : R) (m / 2)
    (fun j rri => V4.sub (RArith.ofRing R) rri (V4.add (RArith.ofRing R) (V4.load 0 a (4 * j)) (V4.load 0 b (4 * j))))
    (fun x old => old - (a.getD x 0 + b.getD x 0)) r (by omega)
    (by
      intro j _ v l hl
      simp only [V4.add, V4.sub, V4.lane_map2, V4.lane_load _ _ _ _ hl, ofRing_add, ofRing_sub])
  have e : 4 * (m / 2) = 2 * m := by omega
  rw [e] at s2 s3
  exact pointwise_of_cells m r _ (fun x => r.getD x 0 - (a.getD x 0 + b.getD x 0)) s1 s2 s3

theorem cplxFftvecCopyFma_spec (m : Nat) (hm : m % 8 = 0) (h0 : 0 < m) (r a : Array R) (hr : 2 * m ≤ r.size) :
    Pointwise idxCplx m r (cplxFftvecCopyFma (RArith.ofRing R) m r a) (fun i => ev idxCplx a i) := by
  unfold cplxFftvecCopyFma
  rw [ymmCount_fma m hm h0]
  obtain ⟨s1, s2, s3⟩ := mapV4_cellwise (0 : R) (m / 2) (fun j _ => V4.load 0 a (4 * j)) (fun x _ => a.getD x 0) r (by omega)
    (by
      intro j _ v l hl
      simp only [V4.lane_load _ _ _ _ hl])
  have e : 4 * (m / 2) = 2 * m := by omega
  rw [e] at s2 s3
  exact pointwise_of_cells m r _ (fun x => a.getD x 0) s1 s2 s3

/-- the copy kernel moves bits: for every element type, the first `2m` cells of `r` become those of `a` -/
theorem cplxFftvecCopyFma_any {α : Type} (ar : RArith α) (m : Nat) (hm : m % 8 = 0) (h0 : 0 < m) (r a : Array α)
    (hr : 2 * m ≤ r.size) :
    (cplxFftvecCopyFma ar m r a).size = r.size ∧
    (∀ x, x < 2 * m → (cplxFftvecCopyFma ar m r a).getD x ar.zero = a.getD x ar.zero) ∧
    (∀ x, 2 * m ≤ x → (cplxFftvecCopyFma ar m r a).getD x ar.zero = r.getD x ar.zero) := by
  unfold cplxFftvecCopyFma
  rw [ymmCount_fma m hm h0]
  obtain ⟨s1, s2, s3⟩ := mapV4_cellwise ar.zero (m / 2) (fun j _ => V4.load ar.zero a (4 * j))
    (fun x _ => a.getD x ar.zero) r (by omega)
    (by
      intro j _ v l hl
      simp only [V4.lane_load _ _ _ _ hl])
  have e : 4 * (m / 2) = 2 * m := by omega
  rw [e] at s2 s3
  exact ⟨s1, s2, s3⟩

end Cover
end Spq
