/-
  `rint` (round to nearest integer, ties to even), `toIntTrunc` (cvttsd2si) and division by a power of two
  at decode level.
-/
import SpqProofs.Lemmas.F64Arith

namespace Spq.F64

theorem rint_of_decode_neg {y : Nat} {s : Bool} {m : Nat} {e : Int} (hy : decode y = ⟨s, m, e⟩) (he : e < 0) :
    rint y = if rne m (-e).toNat == 0 then sgn s else pack s (rne m (-e).toNat) 0 := by
  unfold rint
  simp only [hy]
  have : ¬ e ≥ 0 := by omega
  simp only [this, if_false]
  unfold rne sgn
  rfl

theorem rint_of_decode_nonneg {y : Nat} {s : Bool} {m : Nat} {e : Int} (hy : decode y = ⟨s, m, e⟩) (he : 0 ≤ e) :
    rint y = y := by
  unfold rint
  simp only [hy]
  have : e ≥ 0 := he
  simp only [this, if_true]

theorem toIntTrunc_of_decode {y : Nat} {s : Bool} {m : Nat} {e : Int} (hy : decode y = ⟨s, m, e⟩) :
    toIntTrunc y =
      (let mag : Int := if e ≥ 0 then (m : Int) * (2 : Int) ^ e.toNat else ((m / 2 ^ ((-e).toNat) : Nat) : Int)
       let v := if s then -mag else mag
       if v < -9223372036854775808 || v > 9223372036854775807 then -9223372036854775808 else v) := by
  unfold toIntTrunc
  simp only [hy]

theorem decode_sgn (s : Bool) : decode (sgn s) = ⟨s, 0, -1074⟩ := by
  have := decode_subnormal_pattern s 0 (by norm_num)
  simpa using this

theorem toIntTrunc_sgn (s : Bool) : toIntTrunc (sgn s) = 0 := by
  rw [toIntTrunc_of_decode (decode_sgn s)]
  have : ¬ ((-1074 : Int) ≥ 0) := by omega
  simp only [this, if_false, Nat.zero_div, Nat.cast_zero, neg_zero, ite_self]
  decide

/-- `(int64_t)` of an exactly packed small integer `q ≤ 2^52` -/
theorem toIntTrunc_pack_int (s : Bool) (q : Nat) (hq0 : q ≠ 0) (hq : q ≤ 4503599627370496) :
    toIntTrunc (pack s q 0) = sI s q := by
  obtain ⟨k, hk, hn1, hn2⟩ := exists_norm_shift hq0 (by omega)
  have hd := decode_pack_small s q 0 k hn1 hn2 (by omega) (by omega)
  rw [toIntTrunc_of_decode hd]
  have hP : 0 < 2 ^ k := by positivity
  have hmag : (if (0 : Int) - k ≥ 0 then ((q * 2 ^ k : Nat) : Int) * (2 : Int) ^ ((0 : Int) - k).toNat
      else ((q * 2 ^ k / 2 ^ ((-((0 : Int) - k)).toNat) : Nat) : Int)) = q := by
    split
    · rename_i h
      have hk0 : k = 0 := by omega
      subst hk0; simp
    · have : (-((0 : Int) - k)).toNat = k := by omega
      rw [this, Nat.mul_div_cancel _ hP]
  simp only [hmag]
  unfold sI
  cases s
  · simp only [Bool.false_eq_true, if_false]
    have h1 : ¬ ((q : Int) < -9223372036854775808) := by omega
    have h2 : ¬ ((q : Int) > 9223372036854775807) := by omega
    simp [h1, h2]
  · simp only [if_true]
    have h1 : ¬ (-(q : Int) < -9223372036854775808) := by omega
    have h2 : ¬ (-(q : Int) > 9223372036854775807) := by omega
    simp [h1, h2]

/-- `(int64_t)rint(y)` for `y = ±m·2^e`, `e < 0`: the significand rounded to nearest-even at the binary point -/
theorem toIntTrunc_rint_neg {y : Nat} {s : Bool} {m : Nat} {e : Int} (hy : decode y = ⟨s, m, e⟩) (he : e < 0)
    (hm : m < 9007199254740992) :
    toIntTrunc (rint y) = sI s (rne m (-e).toNat) := by
  rw [rint_of_decode_neg hy he]
  have hk : 0 < (-e).toNat := by omega
  have hq : rne m (-e).toNat ≤ 4503599627370496 := by
    apply rne_le
    have : 2 * 1 ≤ 2 ^ (-e).toNat := by
      calc 2 * 1 = 2 ^ 1 := by norm_num
        _ ≤ 2 ^ (-e).toNat := Nat.pow_le_pow_right (by norm_num) hk
    nlinarith
  by_cases h0 : rne m (-e).toNat = 0
  · simp only [h0, beq_self_eq_true, if_true]
    rw [toIntTrunc_sgn]; simp [sI]
  · have : (rne m (-e).toNat == 0) = false := by simpa using h0
    simp only [this, Bool.false_eq_true, if_false]
    exact toIntTrunc_pack_int s _ h0 hq

/-- `(int64_t)rint(y)` for an integer-valued `y = ±m·2^e`, `e ≥ 0`, below 2^63 -/
theorem toIntTrunc_rint_nonneg {y : Nat} {s : Bool} {m : Nat} {e : Int} (hy : decode y = ⟨s, m, e⟩) (he : 0 ≤ e)
    (hlt : (m : Int) * 2 ^ e.toNat < 9223372036854775808) :
    toIntTrunc (rint y) = sI s m * 2 ^ e.toNat := by
  rw [rint_of_decode_nonneg hy he, toIntTrunc_of_decode hy]
  have : e ≥ 0 := he
  simp only [this, if_true]
  have hnn : (0 : Int) ≤ (m : Int) * 2 ^ e.toNat := by positivity
  unfold sI
  cases s
  · simp only [Bool.false_eq_true, if_false]
    have h1 : ¬ ((m : Int) * 2 ^ e.toNat < -9223372036854775808) := by omega
    have h2 : ¬ ((m : Int) * 2 ^ e.toNat > 9223372036854775807) := by omega
    simp [h1, h2]
  · simp only [if_true]
    have h1 : ¬ (-((m : Int) * 2 ^ e.toNat) < -9223372036854775808) := by omega
    have h2 : ¬ (-((m : Int) * 2 ^ e.toNat) > 9223372036854775807) := by omega
    simp [h1, h2]

/-! ### results below the normal range -/

/-- a product/quotient whose exact value is below `2^-1022` packs to a pattern with exponent field ≤ 1:
    `decode = ⟨neg, q, -1074⟩` with `q ≤ 2^52` -/
theorem decode_pack_tiny (neg : Bool) (M : Nat) (E : Int) (L : Nat) (hM : M ≠ 0) (hlt : M < 2 ^ L)
    (h : E + L - 53 < -1074) :
    ∃ q, q ≤ 4503599627370496 ∧ decode (pack neg M E) = ⟨neg, q, -1074⟩ := by
  obtain ⟨len, hlen⟩ : ∃ len, M.log2 + 1 = len := ⟨_, rfl⟩
  have hb1 : 2 ^ M.log2 ≤ M := Nat.log2_self_le hM
  have hlenL : len ≤ L := by
    have : 2 ^ M.log2 < 2 ^ L := lt_of_le_of_lt hb1 hlt
    have := (Nat.pow_lt_pow_iff_right (a := 2) (by norm_num)).1 this
    omega
  have hb2 : M < 2 ^ len := by rw [← hlen]; exact Nat.lt_log2_self
  have hsh : shiftOf M E = -1074 - E := shiftOf_subnormal hlen (by omega)
  have hq : rneI M (-1074 - E) ≤ 4503599627370496 := by
    unfold rneI
    split
    · rename_i hle
      -- left shift by E + 1074 ≥ 0 : M·2^(E+1074) < 2^(len+E+1074) ≤ 2^52
      have hk : (-1074 - E).natAbs + len ≤ 52 := by omega
      have : M * 2 ^ (-1074 - E).natAbs < 2 ^ len * 2 ^ (-1074 - E).natAbs :=
        Nat.mul_lt_mul_of_pos_right hb2 (by positivity)
      rw [← pow_add] at this
      have h2 : 2 ^ (len + (-1074 - E).natAbs) ≤ 2 ^ 52 := Nat.pow_le_pow_right (by norm_num) (by omega)
      norm_num at h2
      omega
    · rename_i hgt
      apply rne_le
      have hk : len ≤ 52 + (-1074 - E).toNat := by omega
      have h2 : 2 ^ len ≤ 2 ^ (52 + (-1074 - E).toNat) := Nat.pow_le_pow_right (by norm_num) hk
      rw [pow_add] at h2
      norm_num at h2
      omega
  refine ⟨rneI M (-1074 - E), hq, ?_⟩
  rw [pack_eq neg M E hM, hsh]
  have he : E + (-1074 - E) = -1074 := by ring
  rw [he]
  rcases Nat.lt_or_ge (rneI M (-1074 - E)) 4503599627370496 with hlt' | hge
  · exact decode_encode_subnormal neg _ _ hlt'
  · exact decode_encode_normal neg _ _ hge (by omega) (by omega) (by omega)

theorem rne_small_of_lt (q k : Nat) (hk : 0 < k) (hq : q < 2 ^ (k - 1)) : rne q k = 0 := by
  have h2 : (2 : Nat) ^ (k - 1) < 2 ^ k := Nat.pow_lt_pow_right (by norm_num) (by omega)
  unfold rne
  generalize 2 ^ (k - 1) = H at *
  generalize 2 ^ k = P at *
  have hdiv : q / P = 0 := Nat.div_eq_of_lt (by omega)
  have hmod : q % P = q := Nat.mod_eq_of_lt (by omega)
  rw [hdiv, hmod]
  have c1 : ¬ (q > H) := by omega
  have c2 : (q == H) = false := by
    rw [beq_eq_false_iff_ne]; omega
  simp only [c1, decide_false, c2, Bool.false_and, Bool.or_self, Bool.false_eq_true, if_false]

theorem rne_tiny (q : Nat) (hq : q ≤ 4503599627370496) : rne q 1074 = 0 := by
  apply rne_small_of_lt q 1074 (by norm_num)
  have key : ∀ n, 53 ≤ n → (2 : Nat) ^ 53 ≤ 2 ^ n := fun n h => Nat.pow_le_pow_right (by omega) h
  have := key (1074 - 1) (by omega)
  have h53 : (2 : Nat) ^ 53 = 9007199254740992 := by norm_num
  rw [h53] at this
  exact lt_of_lt_of_le (by omega) this

/-- `(int64_t)rint(y) = 0` for such a tiny `y` -/
theorem toIntTrunc_rint_tiny {y : Nat} {s : Bool} {q : Nat} (hy : decode y = ⟨s, q, -1074⟩) (hq : q ≤ 4503599627370496) :
    toIntTrunc (rint y) = 0 := by
  rw [toIntTrunc_rint_neg hy (by omega) (by omega)]
  have : (-(-1074 : Int)).toNat = 1074 := by omega
  rw [this, rne_tiny q hq]
  cases s <;> simp [sI]

/-! ### division by a power of two -/

theorem div_pow2_of_decode {a b : Nat} {sa : Bool} {ma : Nat} {ea eb : Int}
    (ha : decode a = ⟨sa, ma, ea⟩) (hb : decode b = ⟨false, 4503599627370496, eb⟩) (hma : ma ≠ 0) :
    div a b = pack sa (ma * 2 ^ 59) (ea - eb - 111) := by
  unfold div
  simp only [ha, hb]
  have h1 : ((4503599627370496 : Nat) == 0) = false := by rfl
  have h2 : (ma == 0) = false := by simpa using hma
  rw [h1, h2]
  simp only [Bool.false_eq_true, if_false]
  have t2 : (2 : Nat) ^ 110 = 2 ^ 58 * 4503599627370496 := by norm_num
  have hd : ma * 2 ^ 110 / 4503599627370496 = ma * 2 ^ 58 := by
    rw [t2, ← mul_assoc, Nat.mul_div_cancel _ (by norm_num)]
  have hm : ma * 2 ^ 110 % 4503599627370496 = 0 := by
    rw [t2, ← mul_assoc, Nat.mul_mod_left]
  rw [hd, hm]
  have hs : (sa != false) = sa := by cases sa <;> rfl
  rw [hs]
  have h3 : (2 * (ma * 2 ^ 58) + if ((0 : Nat) == 0) = true then 0 else 1) = ma * 2 ^ 59 := by
    have h0 : ((0 : Nat) == 0) = true := rfl
    rw [if_pos h0, Nat.add_zero]
    have : (2 : Nat) ^ 59 = 2 * 2 ^ 58 := by norm_num
    rw [this]
    generalize (2:Nat) ^ 58 = P
    exact Nat.mul_left_comm 2 ma P
  rw [h3]

end Spq.F64
