/-
  C06.4 `fft_err`: rounding error of the radix-2 level network `V` of `FftAlg.lean` computed with butterflies of
  2-norm relative error `η` (`BfErrAt`, e.g. `butterfly_err_*`): after `ℓ` levels
      Σ_p ‖V̂ ℓ d p − V ℓ d p‖² ≤ ((1+η)^ℓ − 1)² · Σ_p ‖V ℓ d p‖².
-/
import SpqProofs.Lemmas.FftErrBfly
import SpqProofs.Lemmas.FftAlg

set_option linter.unusedSectionVars false

namespace Spq.FftErr
open Finset Spq.Fft.Alg
variable {K : Type} [Field K] [LinearOrder K] [IsStrictOrderedRing K]

/-- one exact level on blocks of size `2h`: `(x_p, x_{p+h}) ← (x_p + w_b·x_{p+h}, x_p − w_b·x_{p+h})` -/
def Lvl (w : ℕ → Cplx K) (h : ℕ) (x : ℕ → Cplx K) (p : ℕ) : Cplx K :=
  if p % (2 * h) < h then x p + w (p / (2 * h)) * x (p + h) else x (p - h) - w (p / (2 * h)) * x p

/-- one computed level: block `b` uses the computed butterfly `g b` -/
def LvlH (g : ℕ → Cplx K → Cplx K → Cplx K × Cplx K) (h : ℕ) (x : ℕ → Cplx K) (p : ℕ) : Cplx K :=
  if p % (2 * h) < h then (g (p / (2 * h)) (x p) (x (p + h))).1 else (g (p / (2 * h)) (x (p - h)) (x p)).2

/-- the computed level network: as `V`, with the computed butterfly `g ℓ d b` in block `b` of level `(ℓ, d)` -/
def VH (g : ℕ → ℕ → ℕ → Cplx K → Cplx K → Cplx K × Cplx K) (a : ℕ → Cplx K) : ℕ → ℕ → ℕ → Cplx K
  | 0, _, p => a p
  | ℓ + 1, d, p => LvlH (g ℓ d) (2 ^ d) (VH g a ℓ (d + 1)) p

theorem V_succ (ζ : Cplx K) (a : ℕ → Cplx K) (ℓ d p : ℕ) :
    V ζ a (ℓ + 1) d p = Lvl (fun b => ζ ^ twE ℓ d b) (2 ^ d) (V ζ a ℓ (d + 1)) p := by
  rw [V]; rfl

/-! ### positions of a pair -/

theorem pos_lo (h b r : ℕ) (hr : r < h) : (2 * h * b + r) % (2 * h) = r ∧ (2 * h * b + r) / (2 * h) = b :=
  ⟨mul_add_mod' _ _ _ (by omega), mul_add_div' _ _ _ (by omega)⟩

theorem pos_hi (h b r : ℕ) (hr : r < h) :
    (2 * h * b + r + h) % (2 * h) = r + h ∧ (2 * h * b + r + h) / (2 * h) = b := by
  rw [show 2 * h * b + r + h = 2 * h * b + (r + h) by ring]
  exact ⟨mul_add_mod' _ _ _ (by omega), mul_add_div' _ _ _ (by omega)⟩

theorem Lvl_lo (w : ℕ → Cplx K) (h : ℕ) (x : ℕ → Cplx K) (b r : ℕ) (hr : r < h) :
    Lvl w h x (2 * h * b + r) = x (2 * h * b + r) + w b * x (2 * h * b + r + h) := by
  obtain ⟨e1, e2⟩ := pos_lo h b r hr
  unfold Lvl; rw [e1, e2, if_pos hr]

theorem Lvl_hi (w : ℕ → Cplx K) (h : ℕ) (x : ℕ → Cplx K) (b r : ℕ) (hr : r < h) :
    Lvl w h x (2 * h * b + r + h) = x (2 * h * b + r) - w b * x (2 * h * b + r + h) := by
  obtain ⟨e1, e2⟩ := pos_hi h b r hr
  unfold Lvl; rw [e1, e2, if_neg (by omega), Nat.add_sub_cancel]

theorem LvlH_lo (g : ℕ → Cplx K → Cplx K → Cplx K × Cplx K) (h : ℕ) (x : ℕ → Cplx K) (b r : ℕ) (hr : r < h) :
    LvlH g h x (2 * h * b + r) = (g b (x (2 * h * b + r)) (x (2 * h * b + r + h))).1 := by
  obtain ⟨e1, e2⟩ := pos_lo h b r hr
  unfold LvlH; rw [e1, e2, if_pos hr]

theorem LvlH_hi (g : ℕ → Cplx K → Cplx K → Cplx K × Cplx K) (h : ℕ) (x : ℕ → Cplx K) (b r : ℕ) (hr : r < h) :
    LvlH g h x (2 * h * b + r + h) = (g b (x (2 * h * b + r)) (x (2 * h * b + r + h))).2 := by
  obtain ⟨e1, e2⟩ := pos_hi h b r hr
  unfold LvlH; rw [e1, e2, if_neg (by omega), Nat.add_sub_cancel]

/-- a sum over `nb` blocks of size `2h`, pair by pair -/
theorem sum_pairs (h nb : ℕ) (G : ℕ → K) :
    ∑ p ∈ range (nb * (2 * h)), G p =
      ∑ b ∈ range nb, ∑ r ∈ range h, (G (2 * h * b + r) + G (2 * h * b + r + h)) := by
  induction nb with
  | zero => simp
  | succ nb ih =>
    rw [Nat.succ_mul, sum_range_add, ih, sum_range_succ, two_mul h, sum_range_add, sum_add_distrib]
    congr 1
    congr 1
    · apply sum_congr rfl; intro r _; congr 1; ring
    · apply sum_congr rfl; intro r _; congr 1; ring

/-! ### one level -/

/-- an exact level with unit-modulus twiddles doubles the squared 2-norm -/
theorem lvl_norm (w : ℕ → Cplx K) (hw : ∀ b, nsq (w b) = 1) (h nb : ℕ) (x : ℕ → Cplx K) :
    ∑ p ∈ range (nb * (2 * h)), nsq (Lvl w h x p) = 2 * ∑ p ∈ range (nb * (2 * h)), nsq (x p) := by
  rw [sum_pairs h nb (fun p => nsq (Lvl w h x p)), sum_pairs h nb (fun p => nsq (x p)), mul_sum]
  apply sum_congr rfl; intro b _
  rw [mul_sum]
  apply sum_congr rfl; intro r hr
  have hr' : r < h := mem_range.1 hr
  rw [Lvl_lo w h x b r hr', Lvl_hi w h x b r hr', bfly_norm _ _ _ (hw b)]
  ring

/-- a level is linear -/
theorem lvl_sub (w : ℕ → Cplx K) (h : ℕ) (x y : ℕ → Cplx K) (p : ℕ) :
    Lvl w h x p - Lvl w h y p = Lvl w h (fun q => x q - y q) p := by
  unfold Lvl
  split <;> ring

/-- a computed level: the errors of its butterflies add up -/
theorem lvl_err (w : ℕ → Cplx K) (g : ℕ → Cplx K → Cplx K → Cplx K × Cplx K) (η : K) (h nb : ℕ)
    (hg : ∀ b, b < nb → BfErrAt (g b) (w b) η) (x : ℕ → Cplx K) :
    ∑ p ∈ range (nb * (2 * h)), nsq (LvlH g h x p - Lvl w h x p) ≤
      η ^ 2 * ∑ p ∈ range (nb * (2 * h)), nsq (Lvl w h x p) := by
  rw [sum_pairs h nb (fun p => nsq (LvlH g h x p - Lvl w h x p)), sum_pairs h nb (fun p => nsq (Lvl w h x p)), mul_sum]
  apply sum_le_sum; intro b hb
  rw [mul_sum]
  apply sum_le_sum; intro r hr
  have hr' : r < h := mem_range.1 hr
  rw [Lvl_lo w h x b r hr', Lvl_hi w h x b r hr', LvlH_lo g h x b r hr', LvlH_hi g h x b r hr']
  exact hg b (mem_range.1 hb) _ _

/-! ### the network -/

/-- **`fft_err`** for the level network: with butterflies of relative error `η` (twiddle error included) and
    unit-modulus exact twiddles, `ℓ` levels have relative 2-norm error `(1+η)^ℓ − 1` -/
theorem net_err (ζ : Cplx K) (hζ : nsq ζ = 1) (a : ℕ → Cplx K) (η : K) (hη : 0 ≤ η) (k : ℕ)
    (g : ℕ → ℕ → ℕ → Cplx K → Cplx K → Cplx K × Cplx K)
    (hg : ∀ ℓ d b, ℓ + d + 1 = k → b < 2 ^ ℓ → BfErrAt (g ℓ d b) (ζ ^ twE ℓ d b) η) :
    ∀ ℓ d, ℓ + d = k →
      ∑ p ∈ range (2 ^ k), nsq (VH g a ℓ d p - V ζ a ℓ d p) ≤
        ((1 + η) ^ ℓ - 1) ^ 2 * ∑ p ∈ range (2 ^ k), nsq (V ζ a ℓ d p) := by
  intro ℓ
  induction ℓ with
  | zero =>
    intro d _
    simp [VH, V]
  | succ ℓ ih =>
    intro d hk
    have ih' := ih (d + 1) (by omega)
    have hn : 2 ^ k = 2 ^ ℓ * (2 * 2 ^ d) := by rw [← hk, pow_add, pow_succ]; ring
    obtain ⟨G, hG⟩ : ∃ G, G = (1 + η) ^ ℓ - 1 := ⟨_, rfl⟩
    have hG0 : 0 ≤ G := by
      rw [hG]; have : (1 : K) ≤ (1 + η) ^ ℓ := one_le_pow₀ (by linarith); linarith
    rw [← hG] at ih'
    have hw : ∀ b, nsq ((fun b => ζ ^ twE ℓ d b) b) = 1 := fun b => by simp only []; rw [nsq_pow, hζ, one_pow]
    obtain ⟨x, hx⟩ : ∃ x, x = V ζ a ℓ (d + 1) := ⟨_, rfl⟩
    obtain ⟨xh, hxh⟩ : ∃ xh, xh = VH g a ℓ (d + 1) := ⟨_, rfl⟩
    obtain ⟨w, hwd⟩ : ∃ w : ℕ → Cplx K, w = fun b => ζ ^ twE ℓ d b := ⟨_, rfl⟩
    have e1 : ∀ p, V ζ a (ℓ + 1) d p = Lvl w (2 ^ d) x p := fun p => by rw [V_succ, hx, hwd]
    have e2 : ∀ p, VH g a (ℓ + 1) d p = LvlH (g ℓ d) (2 ^ d) xh p := fun p => by rw [hxh]; rfl
    simp only [e1, e2]
    rw [← hx, ← hxh] at ih'
    rw [← hwd] at hw
    rw [hn] at ih' ⊢
    obtain ⟨X, hX⟩ : ∃ X, X = ∑ p ∈ range (2 ^ ℓ * (2 * 2 ^ d)), nsq (x p) := ⟨_, rfl⟩
    rw [← hX] at ih'
    have hY : ∑ p ∈ range (2 ^ ℓ * (2 * 2 ^ d)), nsq (Lvl w (2 ^ d) x p) = 2 * X := by
      rw [hX]; exact lvl_norm w hw _ _ x
    rw [hY]
    -- propagated error
    have p1 : ∑ p ∈ range (2 ^ ℓ * (2 * 2 ^ d)), nsq (Lvl w (2 ^ d) xh p - Lvl w (2 ^ d) x p) ≤ G ^ 2 * (2 * X) := by
      simp only [lvl_sub]
      rw [lvl_norm w hw]
      linarith
    -- size of the computed input
    have p2 : ∑ p ∈ range (2 ^ ℓ * (2 * 2 ^ d)), nsq (xh p) ≤ (1 + G) ^ 2 * X := by
      have := sum_tri (range (2 ^ ℓ * (2 * 2 ^ d))) x (fun p => xh p - x p) 1 G X (by norm_num) hG0
        (by rw [← hX]; linarith) ih'
      simp only [add_sub_cancel] at this
      exact this
    -- fresh error
    have p3 : ∑ p ∈ range (2 ^ ℓ * (2 * 2 ^ d)), nsq (LvlH (g ℓ d) (2 ^ d) xh p - Lvl w (2 ^ d) xh p) ≤
        (η * (1 + G)) ^ 2 * (2 * X) := by
      have h1 := lvl_err w (g ℓ d) η (2 ^ d) (2 ^ ℓ) (fun b hb => by rw [hwd]; exact hg ℓ d b (by omega) hb) xh
      rw [lvl_norm w hw] at h1
      have hη2 : 0 ≤ η ^ 2 := by positivity
      have := mul_le_mul_of_nonneg_left p2 hη2
      rw [mul_pow]
      linarith
    have := sum_tri (range (2 ^ ℓ * (2 * 2 ^ d))) (fun p => LvlH (g ℓ d) (2 ^ d) xh p - Lvl w (2 ^ d) xh p)
      (fun p => Lvl w (2 ^ d) xh p - Lvl w (2 ^ d) x p) (η * (1 + G)) G (2 * X) (by positivity) hG0 p3 p1
    simp only [sub_add_sub_cancel] at this
    have e : (1 + η) ^ (ℓ + 1) - 1 = η * (1 + G) + G := by rw [hG, pow_succ]; ring
    rw [e]
    exact this

end Spq.FftErr
