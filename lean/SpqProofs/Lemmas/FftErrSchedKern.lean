/-
  C06.4, structural kernel layer: the array kernels advance their block of the network `VN g a` whenever the
  butterflies they execute (butterfly function + the table entries they read) are the `g`'s of the blocks.
-/
import SpqProofs.Lemmas.FftErrSchedSim
import SpqProofs.Lemmas.FftErrSchedLevel
set_option linter.unusedSectionVars false
namespace Spq.Fft.KernN
open Spq.Fft Spq.Fft.Alg Spq.Fft.View Spq.Fft.Sim Spq.Fft.SimP Spq.Fft.LevelN

variable {R : Type} [Inhabited R]
variable (g : ℕ → ℕ → ℕ → R × R → R × R → (R × R) × (R × R)) (a : ℕ → R × R)

theorem bq_of_eq (f : Bf R) (wr wi : R) (gb : R × R → R × R → (R × R) × (R × R)) (h : bfV f wr wi = gb) :
    Bq (fun u v => (bfV f wr wi u v).1) (fun u v => (bfV f wr wi u v).2) gb := by
  subst h; exact fun _ _ => ⟨rfl, rfl⟩

theorem twPass_advN (f : Bf R) (N ℓ d b off : ℕ) (wr wi : R) (s : RI R) (hs : Valid N s)
    (hoff : off = 2 * 2 ^ d * b) (hN : off + 2 * 2 ^ d ≤ N) (hq : bfV f wr wi = g ℓ d b) :
    AdvN g a (prs s) (prs (twPass f (2 ^ d) off wr wi s)) ℓ (d + 1) (ℓ + 1) d off (2 * 2 ^ d) ∧
      Valid N (twPass f (2 ^ d) off wr wi s) := by
  have h1 := twPass_sim N f wr wi _ _ (realP f wr wi) (2 ^ d) off s hs (by omega)
  rw [h1.1]
  exact ⟨AdvN.tw g a _ ℓ d b off hoff _ _ (bq_of_eq f wr wi _ hq), h1.2⟩

theorem bitwiddle_advN (F : Flav R) (T : Array R) (t N ℓ d b off h : ℕ) (s : RI R)
    (hs : Valid N s) (hh : h = 2 ^ d) (hoff : off = 4 * h * b) (hN : off + 4 * h ≤ N)
    (hq0 : bfV F.ct T[t]! T[t + 1]! = g ℓ (d + 1) b)
    (hq1 : bfV F.ct T[t + 2]! T[t + 3]! = g (ℓ + 1) d (2 * b))
    (hq1' : bfV F.cit T[t + 2]! T[t + 3]! = g (ℓ + 1) d (2 * b + 1)) :
    AdvN g a (prs s) (prs (bitwiddle F T t h off s)) ℓ (d + 2) (ℓ + 2) d off (4 * h) ∧
      Valid N (bitwiddle F T t h off s) := by
  have h1 := bitwiddle_sim N F T t h off _ _ _ _ _ _ (realP _ _ _) (realP _ _ _) (realP _ _ _) s hs hN
  rw [h1.1]
  exact ⟨AdvN.bw g a _ ℓ d b off h hh hoff _ _ _ _ _ _ (bq_of_eq _ _ _ _ hq0) (bq_of_eq _ _ _ _ hq1)
    (bq_of_eq _ _ _ _ hq1'), h1.2⟩

theorem fft16K_advN (F : Flav R) (w : ℕ → R × R) (N ℓ b off : ℕ) (s : RI R)
    (hs : Valid N s) (hoff : off = 16 * b) (hN : off + 16 ≤ N)
    (h0 : bfV F.ct (w 0).1 (w 0).2 = g ℓ 3 b)
    (h1 : bfV F.ct (w 1).1 (w 1).2 = g (ℓ + 1) 2 (2 * b)) (h1' : bfV F.cit (w 1).1 (w 1).2 = g (ℓ + 1) 2 (2 * b + 1))
    (h2 : bfV F.ct (w 2).1 (w 2).2 = g (ℓ + 2) 1 (4 * b)) (h2' : bfV F.cit (w 2).1 (w 2).2 = g (ℓ + 2) 1 (4 * b + 1))
    (h3 : bfV F.ct (w 3).1 (w 3).2 = g (ℓ + 2) 1 (4 * b + 2))
    (h3' : bfV F.cit (w 3).1 (w 3).2 = g (ℓ + 2) 1 (4 * b + 3))
    (h4 : ∀ q, q < 4 → bfV F.ct (w (4 + q)).1 (w (4 + q)).2 = g (ℓ + 3) 0 (8 * b + 2 * q))
    (h4' : ∀ q, q < 4 → bfV F.cit (w (4 + q)).1 (w (4 + q)).2 = g (ℓ + 3) 0 (8 * b + 2 * q + 1)) :
    AdvN g a (prs s) (prs (fft16K F w off s)) ℓ 4 (ℓ + 4) 0 off 16 ∧ Valid N (fft16K F w off s) := by
  have e := fft16K_sim N F w
    (fun q => (fun u v => (bfV F.ct (w q).1 (w q).2 u v).1, fun u v => (bfV F.ct (w q).1 (w q).2 u v).2))
    (fun q => (fun u v => (bfV F.cit (w q).1 (w q).2 u v).1, fun u v => (bfV F.cit (w q).1 (w q).2 u v).2))
    (fun q _ => realP _ _ _) (fun q _ => realP _ _ _) off s hs hN
  rw [e.1]
  refine ⟨AdvN.leaf g a _ ℓ b off hoff _ _ (bq_of_eq _ _ _ _ h0) (bq_of_eq _ _ _ _ h1) (bq_of_eq _ _ _ _ h1')
    (bq_of_eq _ _ _ _ h2) (bq_of_eq _ _ _ _ h2') (bq_of_eq _ _ _ _ h3) (bq_of_eq _ _ _ _ h3')
    (fun q hq => bq_of_eq _ _ _ _ (h4 q hq)) (fun q hq => bq_of_eq _ _ _ _ (h4' q hq)), e.2⟩

/-- a loop whose step `b` advances block `b` advances the whole region -/
theorem sweepN (A B : ℕ → R × R) (step : ℕ → RI R → RI R) (N off sz n : ℕ)
    (h : ∀ b s, b < n → Valid N s → AdvG A B (prs s) (prs (step b s)) (off + b * sz) sz ∧ Valid N (step b s))
    (s : RI R) (hs : Valid N s) :
    AdvG A B (prs s) (prs (iterFrom step n 0 s)) off (n * sz) ∧ Valid N (iterFrom step n 0 s) := by
  induction n with
  | zero => exact ⟨by simpa [iterFrom] using AdvG.empty A B _ off, hs⟩
  | succ n ih =>
    rw [iterFrom_succ_last, Nat.zero_add]
    have h1 := ih (fun b s hb hs => h b s (by omega) hs)
    have h2 := h n (iterFrom step n 0 s) (by omega) h1.2
    exact ⟨(h1.1.par h2.1).of_eq rfl (by ring), h2.2⟩

end Spq.Fft.KernN
