/-
  C16, binary64 side, step 1: the PURE ROUND TRIP `vec_znx_idft (vec_znx_dft a)` of one limb in the binary64 module:
  `toZnx (ifft (fft (fromZnx a)))`.  Composition of C06Err's forward bound (relative `ε = (1+8u)^k − 1`), the inverse
  bound (`ProdErr.inv_compose` with `F = ε·na`, `S2 = na`) and the final conversion:
      |r_i − a_i| ≤ (2ε + ε²)·na + 1/2,      na ≥ ‖a‖₂,
  hence `r = a` when `(2ε + ε²)·na < 1/2`; for `k ≤ 16`: `2ε + ε² ≤ 17·(k+1)·2^-53`.
-/
import SpqProofs.Lemmas.VmpErrTop
set_option linter.unusedSectionVars false
namespace Spq.ProgErr
open Finset Spq Spq.Module Spq.Fft Spq.Fft.Alg Spq.Fft.SimP Spq.Fft.LevelN Spq.Fft.SchedN Spq.Fft.RelN Spq.FftErr Spq.F64
  Spq.Reim4 Spq.C06Err Spq.ProdErr Spq.VmpErr Spq.Conv
variable {K : Type} [Field K] [LinearOrder K] [IsStrictOrderedRing K]

/-- the computed inverse transform of the computed forward transform of `a` -/
def rtI (c : Cfg) (k : ℕ) (cN sN cNi sNi : ℕ → ℕ) (a : Array Int) : Array ℕ :=
  reimIfft (if c.ifftFma then "fma" else "ref") (2 ^ k) (tabI k cNi sNi) (stF c k cN sN a)

/-- relative round-trip budget `2ε + ε²` -/
def rtRel (K : Type) [Field K] (k : ℕ) : K := 2 * eps K k + eps K k ^ 2

theorem rtRel_nonneg (k : ℕ) : (0 : K) ≤ rtRel K k := by
  unfold rtRel; have := eps_nonneg (K := K) k; positivity

/-- flags of the round trip of the integer polynomial `a`: forward transform of `a`, inverse transform of the
    computed forward transform -/
structure RtOk (c : Cfg) (k : ℕ) (cN sN cNi sNi : ℕ → ℕ) (a : Array Int) : Prop where
  okF : FwdOk c k cN sN a
  okI : InvOk c k cNi sNi (stF c k cN sN a)

theorem rt_stage (c : Cfg) (k : ℕ) (cN sN cNi sNi : ℕ → ℕ) (h : CfgOk c k cN sN cNi sNi)
    (ζ ζi : Cplx K) (hζ : nsq ζ = 1) (hI : ζ ^ 2 ^ k = Ic) (hinv : ζ * ζi = 1)
    (hcs : ∀ ℓ d b, ℓ + d + 1 = k → b < 2 ^ ℓ →
      nsq (toC (((val (cN (twE ℓ d b)) : ℚ) : K), ((val (sN (twE ℓ d b)) : ℚ) : K)) - ζ ^ twE ℓ d b) ≤
        (((7 / 2 * u64 : ℚ)) : K) ^ 2)
    (hcsi : ∀ ℓ d b, ℓ + d + 1 = k → b < 2 ^ ℓ →
      nsq (toC (((val (cNi (twE ℓ d b)) : ℚ) : K), ((val (sNi (twE ℓ d b)) : ℚ) : K)) - ζi ^ twE ℓ d b) ≤
        (((7 / 2 * u64 : ℚ)) : K) ^ 2)
    (a : Array Int)
    (ha : ∀ i, i < 2 * 2 ^ k → -1125899906842624 < a.getD i 0 ∧ a.getD i 0 < 1125899906842624)
    (hok : RtOk c k cN sN cNi sNi a) (na : K) (hna0 : 0 ≤ na) (hna : n2sq K a (2 * 2 ^ k) ≤ na ^ 2) :
    (∀ p, p < 2 * 2 ^ k → Fin64 ((rtI c k cN sN cNi sNi a)[p]!)) ∧
    ∀ i, i < 2 * 2 ^ k →
      |((val ((rtI c k cN sN cNi sNi a)[i]!) : ℚ) : K) - 2 ^ k * ((a.getD i 0 : Int) : K)| ≤ rtRel K k * na * 2 ^ k := by
  obtain ⟨hζi, hIi⟩ := inv_root k ζ ζi hζ hI hinv
  obtain ⟨hAsz, _⟩ := fromZnx_spec c k h.nn h.fromBnd50 a ha
  have hFsz := VmpErr.stF_size c k cN sN cNi sNi h a ha
  have FA := (reim_fft_err c.fftFma k ζ hζ hI cN sN hcs _ hAsz hok.okF).2
  have eA : ∀ j ∈ range (2 ^ k), exactOut ζ k ((Cfg.parts c).fromZnx a) j = V ζ (pkC a (2 ^ k)) k 0 j :=
    fun j hj => exactOut_conv c k h.nn h.fromBnd50 ζ hI a ha j (mem_range.1 hj)
  have hA : ∑ j ∈ range (2 ^ k), nsq (outC (stF c k cN sN a) k j - V ζ (pkC a (2 ^ k)) k 0 j) ≤
      eps K k ^ 2 * ∑ j ∈ range (2 ^ k), nsq (V ζ (pkC a (2 ^ k)) k 0 j) := by
    have e1 : ∑ j ∈ range (2 ^ k), nsq (outC (stF c k cN sN a) k j - V ζ (pkC a (2 ^ k)) k 0 j) =
        ∑ j ∈ range (2 ^ k), nsq (outC (stF c k cN sN a) k j - exactOut ζ k ((Cfg.parts c).fromZnx a) j) :=
      sum_congr rfl (fun j hj => by rw [eA j hj])
    have e2 : ∑ j ∈ range (2 ^ k), nsq (V ζ (pkC a (2 ^ k)) k 0 j) =
        ∑ j ∈ range (2 ^ k), nsq (exactOut ζ k ((Cfg.parts c).fromZnx a) j) :=
      sum_congr rfl (fun j hj => by rw [eA j hj])
    rw [e1, e2]
    exact FA
  have hM0 : (0 : K) ≤ 2 ^ k := by positivity
  have hAn : ∑ j ∈ range (2 ^ k), nsq (V ζ (pkC a (2 ^ k)) k 0 j) ≤ na ^ 2 * 2 ^ k := by
    rw [V_sum k ζ hζ a, mul_comm]
    exact mul_le_mul_of_nonneg_right hna hM0
  have hy : ∑ j ∈ range (2 ^ k), nsq (outC (stF c k cN sN a) k j - V ζ (pkC a (2 ^ k)) k 0 j) ≤
      (eps K k * na) ^ 2 * 2 ^ k := by
    refine le_trans hA ?_
    have := mul_le_mul_of_nonneg_left hAn (show (0 : K) ≤ eps K k ^ 2 by positivity)
    rw [show (eps K k * na) ^ 2 * 2 ^ k = eps K k ^ 2 * (na ^ 2 * 2 ^ k) by ring]
    exact this
  have FI := reim_ifft_err c.ifftFma k ζi hζi hIi cNi sNi hcsi (stF c k cN sN a) hFsz hok.okI
  refine ⟨FI.1, ?_⟩
  have hch : ∑ p ∈ range (2 ^ k), nsq (outC (rtI c k cN sN cNi sNi a) k p -
        WIk k ζi (fun q => outC (stF c k cN sN a) k q) k p) ≤
      eps K k ^ 2 * ∑ p ∈ range (2 ^ k), nsq (WIk k ζi (fun q => outC (stF c k cN sN a) k q) k p) := FI.2
  have hc := inv_compose k ζ ζi hζi hinv (pkC a (2 ^ k)) (fun q => outC (stF c k cN sN a) k q)
    (fun p => outC (rtI c k cN sN cNi sNi a) k p) (eps K k) (eps K k * na) na (2 ^ k) rfl (eps_nonneg k)
    (mul_nonneg (eps_nonneg k) hna0) hna0 hy hAn hch
  have hE : (eps K k * (na + eps K k * na) + eps K k * na) * 2 ^ k = rtRel K k * na * 2 ^ k := by
    unfold rtRel; ring
  rw [hE] at hc
  have hB0 : 0 ≤ rtRel K k * na * 2 ^ k := mul_nonneg (mul_nonneg (rtRel_nonneg k) hna0) (by positivity)
  intro i hi
  by_cases hlt : i < 2 ^ k
  · have := (coord_of_sum (2 ^ k) (fun p => outC (rtI c k cN sN cNi sNi a) k p -
      2 ^ k * pkC a (2 ^ k) p) _ hB0 hc i hlt).1
    simp only [QuadraticAlgebra.re_sub, (two_pow_mul_re k _).1] at this
    exact this
  · obtain ⟨p, rfl⟩ : ∃ p, i = 2 ^ k + p := ⟨i - 2 ^ k, by omega⟩
    have := (coord_of_sum (2 ^ k) (fun p => outC (rtI c k cN sN cNi sNi a) k p -
      2 ^ k * pkC a (2 ^ k) p) _ hB0 hc p (by omega)).2
    simp only [QuadraticAlgebra.im_sub, (two_pow_mul_re k _).2] at this
    exact this

end Spq.ProgErr
