/-
  Exact-arithmetic description of `cplx_fftvec_twiddle_{fma,avx512}`.
-/
import SpqProofs.Lemmas.CoverCplx
namespace Spq
namespace Cover
open Reim4
variable {R : Type} [CommRing R]

/-- twiddle `e` (`e = 0, 1`) of the `omg` argument: cells `(2e, 2e+1)` -/
def omW (om : Array R) (e : Nat) : Cx R := cxAt om (2 * e)

/-- what `twP` computes on the complex `b` of parity 1 when the pair is not swapped (`shuf9`, AVX-512 kernel):
    `(b.re·w.re − b.re·w.im, b.im·w.re + b.im·w.im)` -/
def badMul (b w : Cx R) : Cx R := ⟨b.re * w.re - b.re * w.im, b.im * w.re + b.im * w.im⟩

/-- per-complex product of the FMA kernel: `b·ω_e` -/
def twMulFma (om : Array R) (e : Nat) (b : Cx R) : Cx R := b * omW om e
/-- per-complex "product" of the AVX-512 kernel -/
def twMulAvx512 (om : Array R) (e : Nat) (b : Cx R) : Cx R := if e = 0 then b * omW om 0 else badMul b (omW om 1)

theorem twP_shuf5_lane (v o : V4 R) (e : Nat) (he : e < 2) :
    (twP (RArith.ofRing R) V4.shuf5 v (V4.shuf0 o) (V4.shuf15 o)).lane (2 * e) =
      ((⟨v.lane (2 * e), v.lane (2 * e + 1)⟩ : Cx R) * ⟨o.lane (2 * e), o.lane (2 * e + 1)⟩).re ∧
    (twP (RArith.ofRing R) V4.shuf5 v (V4.shuf0 o) (V4.shuf15 o)).lane (2 * e + 1) =
      ((⟨v.lane (2 * e), v.lane (2 * e + 1)⟩ : Cx R) * ⟨o.lane (2 * e), o.lane (2 * e + 1)⟩).im := by
  rcases e with _ | _ | e
  · refine ⟨rfl, ?_⟩
    show v.x1 * o.x0 + v.x0 * o.x1 = v.x0 * o.x1 + v.x1 * o.x0
    ring
  · refine ⟨rfl, ?_⟩
    show v.x3 * o.x2 + v.x2 * o.x3 = v.x2 * o.x3 + v.x3 * o.x2
    ring
  · omega

theorem twP_shuf9_lane1 (v o : V4 R) :
    (twP (RArith.ofRing R) shuf9 v (V4.shuf0 o) (V4.shuf15 o)).lane 2 = (badMul ⟨v.lane 2, v.lane 3⟩ ⟨o.lane 2, o.lane 3⟩).re ∧
    (twP (RArith.ofRing R) shuf9 v (V4.shuf0 o) (V4.shuf15 o)).lane 3 = (badMul ⟨v.lane 2, v.lane 3⟩ ⟨o.lane 2, o.lane 3⟩).im :=
  ⟨rfl, rfl⟩

theorem twP_shuf9_lane0 (v o : V4 R) :
    (twP (RArith.ofRing R) shuf9 v (V4.shuf0 o) (V4.shuf15 o)).lane 0 =
      ((⟨v.lane 0, v.lane 1⟩ : Cx R) * ⟨o.lane 0, o.lane 1⟩).re ∧
    (twP (RArith.ofRing R) shuf9 v (V4.shuf0 o) (V4.shuf15 o)).lane 1 =
      ((⟨v.lane 0, v.lane 1⟩ : Cx R) * ⟨o.lane 0, o.lane 1⟩).im := by
  refine ⟨rfl, ?_⟩
  show v.x1 * o.x0 + v.x0 * o.x1 = v.x0 * o.x1 + v.x1 * o.x0
  ring

theorem lane_add_ofRing (x y : V4 R) (l : Nat) : (V4.add (RArith.ofRing R) x y).lane l = x.lane l + y.lane l := by
  simp only [V4.add, V4.lane_map2, ofRing_add]
theorem lane_sub_ofRing (x y : V4 R) (l : Nat) : (V4.sub (RArith.ofRing R) x y).lane l = x.lane l - y.lane l := by
  simp only [V4.sub, V4.lane_map2, ofRing_sub]

/-- the twiddle loop over `nreg` registers for any pair shuffle `sh`, given what `twP` computes per complex -/
theorem twiddleSimd_spec (nreg : Nat) (sh : V4 R → V4 R) (a b om : Array R) (Pm : Nat → Cx R → Cx R → Cx R)
    (ha : 4 * nreg ≤ a.size) (hb : 4 * nreg ≤ b.size)
    (hP : ∀ v o e, e < 2 →
      (twP (RArith.ofRing R) sh v (V4.shuf0 o) (V4.shuf15 o)).lane (2 * e) =
        (Pm e ⟨v.lane (2 * e), v.lane (2 * e + 1)⟩ ⟨o.lane (2 * e), o.lane (2 * e + 1)⟩).re ∧
      (twP (RArith.ofRing R) sh v (V4.shuf0 o) (V4.shuf15 o)).lane (2 * e + 1) =
        (Pm e ⟨v.lane (2 * e), v.lane (2 * e + 1)⟩ ⟨o.lane (2 * e), o.lane (2 * e + 1)⟩).im) :
    Pointwise idxCplx (2 * nreg) a (cplxFftvecTwiddleSimd (RArith.ofRing R) nreg sh a b om).1
      (fun i => ev idxCplx a i + Pm (i % 2) (ev idxCplx b i) (omW om (i % 2))) ∧
    Pointwise idxCplx (2 * nreg) b (cplxFftvecTwiddleSimd (RArith.ofRing R) nreg sh a b om).2
      (fun i => ev idxCplx a i - Pm (i % 2) (ev idxCplx b i) (omW om (i % 2))) := by
  unfold cplxFftvecTwiddleSimd
  simp only [ofRing_zero]
  obtain ⟨a1, a2, a3⟩ := mapV4_spec (0 : R) nreg (fun j => 4 * j)
    (fun j ari => V4.add (RArith.ofRing R) ari
      (twP (RArith.ofRing R) sh (V4.load 0 b (4 * j)) (V4.shuf0 (V4.load 0 om 0)) (V4.shuf15 (V4.load 0 om 0)))) a
    (by intro j j' _ _ _; omega) (by intro j hj; omega)
  obtain ⟨b1, b2, b3⟩ := mapV4_spec (0 : R) nreg (fun j => 4 * j)
    (fun j bri => V4.sub (RArith.ofRing R) (V4.load 0 a (4 * j))
      (twP (RArith.ofRing R) sh bri (V4.shuf0 (V4.load 0 om 0)) (V4.shuf15 (V4.load 0 om 0)))) b
    (by intro j j' _ _ _; omega) (by intro j hj; omega)
  have key : ∀ i, i < 2 * nreg → ∀ (x : Array R),
      (⟨(V4.load 0 x (4 * (i / 2))).lane (2 * (i % 2)), (V4.load 0 x (4 * (i / 2))).lane (2 * (i % 2) + 1)⟩ : Cx R) =
        ev idxCplx x i := by
    intro i _ x
    rw [V4.lane_load _ _ _ _ (by omega), V4.lane_load _ _ _ _ (by omega)]
    have q0 : 4 * (i / 2) + 2 * (i % 2) = 2 * i := by omega
    have q1 : 4 * (i / 2) + (2 * (i % 2) + 1) = 2 * i + 1 := by omega
    rw [q0, q1]; rfl
  have keyo : ∀ e, e < 2 →
      (⟨(V4.load 0 om 0).lane (2 * e), (V4.load 0 om 0).lane (2 * e + 1)⟩ : Cx R) = omW om e := by
    intro e he
    rw [V4.lane_load _ _ _ _ (by omega), V4.lane_load _ _ _ _ (by omega)]
    simp only [Nat.zero_add]; rfl
  constructor
  · refine ⟨a1, ?_, fun x hx => a3 x (by intro j hj; omega)⟩
    intro i hi
    have he : i % 2 < 2 := by omega
    have e0 := a2 (i / 2) (by omega) (2 * (i % 2)) (by omega)
    have e1 := a2 (i / 2) (by omega) (2 * (i % 2) + 1) (by omega)
    obtain ⟨l0, l1⟩ := hP (V4.load 0 b (4 * (i / 2))) (V4.load 0 om 0) (i % 2) he
    rw [key i hi b, keyo _ he] at l0 l1
    rw [lane_add_ofRing] at e0 e1
    rw [l0] at e0
    rw [l1] at e1
    have ka := key i hi a
    have q0 : 4 * (i / 2) + 2 * (i % 2) = 2 * i := by omega
    have q1 : 4 * (i / 2) + (2 * (i % 2) + 1) = 2 * i + 1 := by omega
    rw [q0] at e0
    rw [q1] at e1
    ext
    · simp only [ev, idxCplx, cx_re, Cx.add_re]
      rw [e0]
      have := congrArg Cx.re ka
      simp only [ev, idxCplx, cx_re] at this
      rw [this]; rfl
    · simp only [ev, idxCplx, cx_im, Cx.add_im]
      rw [e1]
      have := congrArg Cx.im ka
      simp only [ev, idxCplx, cx_im] at this
      rw [this]; rfl
  · refine ⟨b1, ?_, fun x hx => b3 x (by intro j hj; omega)⟩
    intro i hi
    have he : i % 2 < 2 := by omega
    have e0 := b2 (i / 2) (by omega) (2 * (i % 2)) (by omega)
    have e1 := b2 (i / 2) (by omega) (2 * (i % 2) + 1) (by omega)
    obtain ⟨l0, l1⟩ := hP (V4.load 0 b (4 * (i / 2))) (V4.load 0 om 0) (i % 2) he
    rw [key i hi b, keyo _ he] at l0 l1
    rw [lane_sub_ofRing] at e0 e1
    rw [l0] at e0
    rw [l1] at e1
    have ka := key i hi a
    have q0 : 4 * (i / 2) + 2 * (i % 2) = 2 * i := by omega
    have q1 : 4 * (i / 2) + (2 * (i % 2) + 1) = 2 * i + 1 := by omega
    rw [q0] at e0
    rw [q1] at e1
    ext
    · simp only [ev, idxCplx, cx_re, Cx.sub_re]
      rw [e0]
      have := congrArg Cx.re ka
      simp only [ev, idxCplx, cx_re] at this
      rw [this]; rfl
    · simp only [ev, idxCplx, cx_im, Cx.sub_im]
      rw [e1]
      have := congrArg Cx.im ka
      simp only [ev, idxCplx, cx_im] at this
      rw [this]; rfl

end Cover
end Spq
