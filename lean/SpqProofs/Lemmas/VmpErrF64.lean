/-
  C02 rounding budget, step 5: binary64 instance of the accumulation recurrences.  Flagged run (`arithOk`) ⇒ the
  bit-level result is finite and its value is the result of the guarded rational arithmetic `arG` (standard model,
  `u = 2^-53`), hence a perturbed sum with `G = (1+u)^(2n+2)`.
-/
import SpqProofs.Lemmas.VmpErrDotErr
import SpqProofs.Lemmas.VmpErrCells
import SpqProofs.Lemmas.F64StdDot
set_option linter.unusedSectionVars false
namespace Spq.VmpErr
open Finset Spq Spq.Reim4 Spq.F64

/-- the accumulation constant: `γ(n) = (1+u)^(2n+2) − 1 ≈ (2n+2)·u`, `u = 2^-53` -/
def gamD (n : ℕ) : ℚ := (1 + u64) ^ (2 * n + 2) - 1

theorem gamD_nonneg (n : ℕ) : 0 ≤ gamD n := by
  unfold gamD
  have : (1 : ℚ) ≤ (1 + u64) ^ (2 * n + 2) := one_le_pow₀ (by have := u64_pos; linarith)
  linarith

/-- transfer of one accumulated complex: flags ⇒ finite, and values computed by `arG` on the values -/
theorem dot_transfer (Kd : DotK) (a b c d : ℕ → ℕ × Prop) (a' b' c' d' : ℕ → ℕ) (aq bq cq dq : ℕ → ℚ)
    (ha : ∀ i, (a i).1 = a' i) (hb : ∀ i, (b i).1 = b' i) (hc : ∀ i, (c i).1 = c' i) (hd : ∀ i, (d i).1 = d' i)
    (qa : ∀ i, RelQ (a i) (aq i)) (qb : ∀ i, RelQ (b i) (bq i)) (qc : ∀ i, RelQ (c i) (cq i)) (qd : ∀ i, RelQ (d i) (dq i))
    (n : ℕ) :
    ((dotRe arithOk Kd a b c d n).2 →
      Fin64 (dotRe F64.arith Kd a' b' c' d' n) ∧ val (dotRe F64.arith Kd a' b' c' d' n) = dotRe arG Kd aq bq cq dq n) ∧
    ((dotIm arithOk Kd a b c d n).2 →
      Fin64 (dotIm F64.arith Kd a' b' c' d' n) ∧ val (dotIm F64.arith Kd a' b' c' d' n) = dotIm arG Kd aq bq cq dq n) := by
  obtain ⟨s1, t1⟩ := dot_sim arithOk_sim_arith Kd a b c d a' b' c' d' ha hb hc hd n
  obtain ⟨s2, t2⟩ := dot_sim arithOk_sim_arG Kd a b c d aq bq cq dq qa qb qc qd n
  constructor
  · intro hf
    generalize dotRe arithOk Kd a b c d n = X at s1 s2 hf
    obtain ⟨h1, h2⟩ := s2 hf
    rw [s1] at h1 h2
    exact ⟨h1, h2⟩
  · intro hf
    generalize dotIm arithOk Kd a b c d n = X at t1 t2 hf
    obtain ⟨h1, h2⟩ := t2 hf
    rw [t1] at h1 h2
    exact ⟨h1, h2⟩

/-- `arG` results as perturbed sums -/
theorem dot_psum_arG (Kd : DotK) (a b c d : ℕ → ℚ) (n : ℕ) (hn : Kd = .sm → 1 ≤ n) :
    PSum n (xRe a b c d) (mRe a b c d) (1 + gamD n) (dotRe arG Kd a b c d n) ∧
    PSum n (xIm a b c d) (mIm a b c d) (1 + gamD n) (dotIm arG Kd a b c d n) := by
  have := dot_psum arG u64 arG_stdModel a b c d Kd n hn
  unfold gamD
  rw [show (1 : ℚ) + ((1 + u64) ^ (2 * n + 2) - 1) = (1 + u64) ^ (2 * n + 2) by ring]
  exact this

/-! ### the lifted lane data -/

theorem rel1_lift (x : Array ℕ) (i : ℕ) : ((x.map lift).getD i arithOk.zero).1 = x.getD i 0 := lift_rel_arith x i

theorem relQ_lift (x : Array ℕ) (i : ℕ) : RelQ ((x.map lift).getD i arithOk.zero) (val (x.getD i 0)) := by
  have := lift_rel_arG x i
  rw [show arG.zero = (0 : ℚ) from rfl, ← val_zero, getD_map] at this
  exact this

/-- values of the lane data -/
def qRe (u : Array ℕ) (k : ℕ) : ℕ → ℚ := fun i => val (u.getD (8 * i + k) 0)
def qIm (u : Array ℕ) (k : ℕ) : ℕ → ℚ := fun i => val (u.getD (8 * i + k + 4) 0)
def qvRe (v : Array ℕ) (w o k : ℕ) : ℕ → ℚ := fun i => val (v.getD (w * i + o + k) 0)
def qvIm (v : Array ℕ) (w o k : ℕ) : ℕ → ℚ := fun i => val (v.getD (w * i + o + k + 4) 0)

/-- one accumulated complex of lane data: flagged recurrences ⇒ finite results within `γ(n)·Σ|·|` of the exact sums
    (forward form) — and the backward form `PSum` for the composition -/
theorem lane_err (Kd : DotK) (n : ℕ) (hn : Kd = .sm → 1 ≤ n) (u v : Array ℕ) (w o k : ℕ) :
    ((dotRe arithOk Kd (uRe arithOk.zero (u.map lift) k) (uIm arithOk.zero (u.map lift) k)
        (vRe arithOk.zero (v.map lift) w o k) (vIm arithOk.zero (v.map lift) w o k) n).2 →
      Fin64 (dotRe F64.arith Kd (uRe 0 u k) (uIm 0 u k) (vRe 0 v w o k) (vIm 0 v w o k) n) ∧
      PSum n (xRe (qRe u k) (qIm u k) (qvRe v w o k) (qvIm v w o k)) (mRe (qRe u k) (qIm u k) (qvRe v w o k) (qvIm v w o k))
        (1 + gamD n) (val (dotRe F64.arith Kd (uRe 0 u k) (uIm 0 u k) (vRe 0 v w o k) (vIm 0 v w o k) n))) ∧
    ((dotIm arithOk Kd (uRe arithOk.zero (u.map lift) k) (uIm arithOk.zero (u.map lift) k)
        (vRe arithOk.zero (v.map lift) w o k) (vIm arithOk.zero (v.map lift) w o k) n).2 →
      Fin64 (dotIm F64.arith Kd (uRe 0 u k) (uIm 0 u k) (vRe 0 v w o k) (vIm 0 v w o k) n) ∧
      PSum n (xIm (qRe u k) (qIm u k) (qvRe v w o k) (qvIm v w o k)) (mIm (qRe u k) (qIm u k) (qvRe v w o k) (qvIm v w o k))
        (1 + gamD n) (val (dotIm F64.arith Kd (uRe 0 u k) (uIm 0 u k) (vRe 0 v w o k) (vIm 0 v w o k) n))) := by
  obtain ⟨t1, t2⟩ := dot_transfer Kd (uRe arithOk.zero (u.map lift) k) (uIm arithOk.zero (u.map lift) k)
    (vRe arithOk.zero (v.map lift) w o k) (vIm arithOk.zero (v.map lift) w o k)
    (uRe 0 u k) (uIm 0 u k) (vRe 0 v w o k) (vIm 0 v w o k) (qRe u k) (qIm u k) (qvRe v w o k) (qvIm v w o k)
    (fun i => rel1_lift u _) (fun i => rel1_lift u _) (fun i => rel1_lift v _) (fun i => rel1_lift v _)
    (fun i => relQ_lift u _) (fun i => relQ_lift u _) (fun i => relQ_lift v _) (fun i => relQ_lift v _) n
  obtain ⟨p1, p2⟩ := dot_psum_arG Kd (qRe u k) (qIm u k) (qvRe v w o k) (qvIm v w o k) n hn
  constructor
  · intro hf
    obtain ⟨f, e⟩ := t1 hf
    exact ⟨f, by rw [e]; exact p1⟩
  · intro hf
    obtain ⟨f, e⟩ := t2 hf
    exact ⟨f, by rw [e]; exact p2⟩

/-! ### the constant in closed form -/

theorem pow_le_quad (u : ℚ) (hu : 0 ≤ u) (p : ℕ) (h : (p : ℚ) * u ≤ 1) : (1 + u) ^ p ≤ 1 + p * u + (p * u) ^ 2 := by
  induction p with
  | zero => simp
  | succ p ih =>
    have hp : (p : ℚ) * u ≤ 1 := by
      push_cast at h
      nlinarith
    have i := ih hp
    have h0 : (0 : ℚ) ≤ p := Nat.cast_nonneg p
    have h1 : (0 : ℚ) ≤ 1 + u := by linarith
    have h2 := mul_le_mul_of_nonneg_right i h1
    rw [pow_succ]
    push_cast
    have key : (p : ℚ) ^ 2 * u ^ 3 ≤ ((p : ℚ) + 1) * u ^ 2 := by
      have a1 : (p : ℚ) * ((p : ℚ) * u) ≤ (p : ℚ) * 1 := mul_le_mul_of_nonneg_left hp h0
      have a2 : (0 : ℚ) ≤ u ^ 2 := by positivity
      nlinarith [mul_le_mul_of_nonneg_right a1 a2]
    nlinarith

/-- `γ(n) ≤ (2n+3)·2^-53` for `2n + 2 ≤ 2^26` -/
theorem gamD_le_lin (n : ℕ) (hn : 2 * n + 2 ≤ 67108864) : gamD n ≤ (2 * (n : ℚ) + 3) * u64 := by
  unfold gamD
  have hu : (0 : ℚ) ≤ u64 := le_of_lt u64_pos
  have hu' : u64 = 1 / 9007199254740992 := by unfold u64; norm_num
  have hp : ((2 * n + 2 : ℕ) : ℚ) ≤ 67108864 := by exact_mod_cast hn
  have hp0 : (0 : ℚ) ≤ ((2 * n + 2 : ℕ) : ℚ) := Nat.cast_nonneg _
  have h1 : ((2 * n + 2 : ℕ) : ℚ) * u64 ≤ 1 := by rw [hu']; nlinarith
  have h := pow_le_quad u64 hu (2 * n + 2) h1
  have h2 : (((2 * n + 2 : ℕ) : ℚ) * u64) ^ 2 ≤ u64 := by
    rw [hu']
    have : ((2 * n + 2 : ℕ) : ℚ) ^ 2 ≤ 67108864 ^ 2 := pow_le_pow_left₀ hp0 hp 2
    rw [mul_pow]
    nlinarith
  have e : ((2 * n + 2 : ℕ) : ℚ) = 2 * (n : ℚ) + 2 := by push_cast; ring
  rw [e] at h h2
  nlinarith

end Spq.VmpErr
