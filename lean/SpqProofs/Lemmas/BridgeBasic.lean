/-
  Bridge between the closed coefficient formulas used as specifications (`Spq.Q120Ntt.nmul`,
  `Spq.Rq.rotCoeff`, …) and the ring `R[X]/(X^n+1)` built by Mathlib (`AdjoinRoot (X^n+1)`).

  This file: the carrier `Rq n R`, `toPoly`, `mk`, `root`, the image of a coefficient vector as a sum of
  powers of `root`, the negacyclic product (1) and uniqueness of the representation (5).
-/
import SpqProofs.Lemmas.NttEval
import Mathlib.RingTheory.AdjoinRoot
import Mathlib.Algebra.Polynomial.BigOperators
import Mathlib.Algebra.Polynomial.Degree.Lemmas

namespace Spq.Bridge
open Polynomial Finset

variable {R : Type} [CommRing R]

/-- the modulus `X^n + 1` -/
noncomputable def modulus (R : Type) [CommRing R] (n : Nat) : R[X] := X ^ n + 1

/-- the ring `R[X]/(X^n+1)` -/
abbrev Rq (R : Type) [CommRing R] (n : Nat) : Type := AdjoinRoot (modulus R n)

/-- the polynomial `Σ_{i<n} a_i X^i` of a coefficient vector (only `a 0 … a (n-1)` are read) -/
noncomputable def toPoly (n : Nat) (a : Nat → R) : R[X] := ∑ i ∈ range n, C (a i) * X ^ i

/-- the quotient map `R[X] → R[X]/(X^n+1)` -/
noncomputable abbrev mk (n : Nat) : R[X] →+* Rq R n := AdjoinRoot.mk (modulus R n)

/-- the class of `X` -/
noncomputable abbrev root (n : Nat) : Rq R n := AdjoinRoot.root (modulus R n)

/-- the embedding of the coefficients -/
noncomputable abbrev of (n : Nat) : R →+* Rq R n := AdjoinRoot.of (modulus R n)

theorem root_pow_n (n : Nat) : (root n : Rq R n) ^ n = -1 := by
  have h : mk n (X ^ n + 1 : R[X]) = 0 := AdjoinRoot.mk_self (f := modulus R n)
  rw [map_add, map_pow, map_one, AdjoinRoot.mk_X] at h
  exact eq_neg_of_add_eq_zero_left h

theorem root_pow_2n (n : Nat) : (root n : Rq R n) ^ (2 * n) = 1 := by
  rw [Nat.mul_comm, pow_mul, root_pow_n]; norm_num

/-- the class of `Σ a_i X^i` is `Σ a_i root^i` -/
theorem mk_toPoly (n : Nat) (a : Nat → R) :
    mk n (toPoly n a) = ∑ i ∈ range n, of n (a i) * (root n) ^ i := by
  simp only [toPoly, map_sum, map_mul, map_pow, AdjoinRoot.mk_C, AdjoinRoot.mk_X]

theorem toPoly_coeff (n : Nat) (a : Nat → R) (k : Nat) :
    (toPoly n a).coeff k = if k < n then a k else 0 := by
  simp only [toPoly, finsetSum_coeff, coeff_C_mul_X_pow]
  by_cases h : k < n
  · rw [if_pos h, sum_eq_single k]
    · simp
    · intro b _ hb; rw [if_neg (fun e => hb e.symm)]
    · intro hk; exact absurd (mem_range.2 h) hk
  · rw [if_neg h]
    apply sum_eq_zero
    intro b hb
    rw [if_neg]; intro e; subst e; exact h (mem_range.1 hb)

theorem toPoly_degree_lt (n : Nat) (a : Nat → R) : (toPoly n a).degree < n := by
  rw [degree_lt_iff_coeff_zero]
  intro m hm
  rw [toPoly_coeff, if_neg (by omega)]

theorem toPoly_sub (n : Nat) (a b : Nat → R) :
    toPoly n (fun i => a i - b i) = toPoly n a - toPoly n b := by
  simp only [toPoly, ← sum_sub_distrib, C_sub, sub_mul]

theorem toPoly_add (n : Nat) (a b : Nat → R) :
    toPoly n (fun i => a i + b i) = toPoly n a + toPoly n b := by
  simp only [toPoly, ← sum_add_distrib, C_add, add_mul]

theorem toPoly_neg (n : Nat) (a : Nat → R) :
    toPoly n (fun i => - a i) = - toPoly n a := by
  simp only [toPoly, ← sum_neg_distrib, C_neg, neg_mul]

theorem toPoly_congr (n : Nat) (a b : Nat → R) (h : ∀ i, i < n → a i = b i) :
    toPoly n a = toPoly n b := by
  unfold toPoly
  apply sum_congr rfl
  intro i hi; rw [h i (mem_range.1 hi)]

end Spq.Bridge
