/-
  C06: the inverse cplx schedule (`cibfs2`, `cibfs16`, `cirec16`, `cifftRI`) undoes the level network.
-/
import SpqProofs.Lemmas.FftReimInvSmall
import SpqProofs.Lemmas.FftCplxFwd
set_option linter.unusedSectionVars false
set_option linter.unusedSimpArgs false
namespace Spq.Fft.CplxInv
open Spq.Fft Spq.Fft.Alg Spq.Fft.View Spq.Fft.Level Spq.Fft.Sim Spq.Fft.Tab Spq.Fft.Tw Spq.Fft.Kern Spq.Fft.Sched
open Spq.Fft.ReimInv

variable {R : Type} [CommRing R] [Inhabited R]

/-- every butterfly of an inverse cplx implementation is exact -/
structure CInvOK (I : R) (F : CFlav R) : Prop where
  ctTop : ∀ wr wi, Realises I F.ctTop wr wi iφ (iψ (wr + I * wi))
  ctOdd : ∀ wr wi, Realises I F.ctOdd wr wi iφ (iψ (wr + I * wi))
  last : ∀ wr wi nwr nwi, Realises I (fun ra ia rb ib wr' wi' => F.last ra ia rb ib wr' wi' nwr nwi) wr wi
    iφ (iψ (wr + I * wi))
  big : InvOK I F.big
  /-- the odd-log pass of `cibfs16` stores ONE complex per block: no lane may read a second copy -/
  lanesOdd : F.lanesOdd = false

theorem cinvRef_ok (I : R) (hI : I * I = -1) : CInvOK I (cinvRef ringA) :=
  ⟨ictRef_real I hI, ictRef_real I hI, fun wr wi _ _ => ictRef_real I hI wr wi, invRef_ok I hI, rfl⟩
theorem cinvFma_ok (I : R) (hI : I * I = -1) : CInvOK I (cinvFma ringA 0) :=
  ⟨ictFmaC_real I hI, ictFmaC_real I hI, fun wr wi _ _ => ictFma_real I hI wr wi, invFma_ok I hI, rfl⟩

variable (Y : ICtx R)

/-- inverse `twPassL` (the second copy of the twiddle matters only when `lanes`) -/
theorem itwPassL_adv (f : Bf R) (hf : ∀ wr wi, Realises Y.I f wr wi iφ (iψ (wr + Y.I * wi)))
    (lanes : Bool) (T : Array R) (t N ℓ d b off : ℕ) (cf : R) (s : RI R) (hs : Valid N s)
    (hoff : off = 2 * 2 ^ d * b) (hN : off + 2 * 2 ^ d ≤ N)
    (hw0 : T[t]! + Y.I * T[t + 1]! = Y.ζi ^ twE ℓ d b)
    (hw1 : lanes = true → T[t + 2]! + Y.I * T[t + 3]! = Y.ζi ^ twE ℓ d b) :
    IAdv Y.ζ Y.a (cxs Y.I s) (cxs Y.I (twPassL f lanes T t (2 ^ d) off s)) cf (2 * cf) (ℓ + 1) d ℓ (d + 1) off
        (2 * 2 ^ d) ∧
      Valid N (twPassL f lanes T t (2 ^ d) off s) := by
  unfold twPassL
  have l := loop_sim Y.I N
    (fun i s => bf f s (off + i) (off + 2 ^ d + i) T[if (lanes && i % 2 == 1) = true then t + 2 else t]!
      T[(if (lanes && i % 2 == 1) = true then t + 2 else t) + 1]!)
    (fun i x => G iφ (iψ (Y.ζi ^ twE ℓ d b)) (off + i) (off + 2 ^ d + i) x) (2 ^ d)
    (fun j s hj hs => by
      by_cases hc : (lanes && j % 2 == 1) = true
      · rw [if_pos hc]
        have hl : lanes = true := by
          cases lanes <;> simp_all
        have := hf T[t + 2]! T[t + 2 + 1]!
        rw [show t + 2 + 1 = t + 3 by ring, hw1 hl] at this
        exact bf_sim Y.I N f _ _ _ _ (by rw [show t + 2 + 1 = t + 3 by ring]; exact this) s _ _ hs (by omega)
          (by omega) (by omega)
      · rw [if_neg hc]
        have := hf T[t]! T[t + 1]!
        rw [hw0] at this
        exact bf_sim Y.I N f _ _ _ _ this s _ _ hs (by omega) (by omega) (by omega)) s hs
  rw [loop1] at l
  rw [l.1]
  exact ⟨IAdv.tw Y.ζ Y.a _ cf ℓ d b off hoff _ (inv_pow Y _), l.2⟩

/-- the cplx inverse leaf pack `cplx_ifft16_precomp(e)` read through `cplxW16` -/
theorem icleaf_read (T : Array R) (t e U : ℕ) (h : Seg T t ((ciFill16 U e).map (val Y.c Y.s))) :
    ∀ q, q < 8 → (cplxW16 T t q).1 + Y.I * (cplxW16 T t q).2 = Y.ζi ^ ileafE e U q := by
  have hl : ((ciFill16 U e).map (val Y.c Y.s)).length = 16 := by simp [ciFill16, eM, gam]
  have g : ∀ j, j < 16 → T[t + j]! = ((ciFill16 U e).map (val Y.c Y.s))[j]! := fun j hj => h j (by omega)
  intro q hq
  have : q = 0 ∨ q = 1 ∨ q = 2 ∨ q = 3 ∨ q = 4 ∨ q = 5 ∨ q = 6 ∨ q = 7 := by omega
  rcases this with rfl | rfl | rfl | rfl | rfl | rfl | rfl | rfl
  · have a := g 0 (by omega); have b := g 1 (by omega)
    simp only [Nat.add_zero] at a
    simp only [cplxW16, ileafE, Nat.reduceMul, Nat.reduceAdd, Nat.add_zero, Nat.add_assoc]
    rw [a, b, ← Y.hcsi]; simp [ciFill16, eM, gam, val, Nat.add_assoc]; ring
  · have a := g 2 (by omega); have b := g 3 (by omega)
    simp only [cplxW16, ileafE, Nat.reduceMul, Nat.reduceAdd, Nat.add_zero, Nat.add_assoc]
    rw [a, b, ← Y.hcsi]; simp [ciFill16, eM, gam, val, Nat.add_assoc]; ring
  · have a := g 4 (by omega); have b := g 5 (by omega)
    simp only [cplxW16, ileafE, Nat.reduceMul, Nat.reduceAdd, Nat.add_zero, Nat.add_assoc]
    rw [a, b, ← Y.hcsi]; simp [ciFill16, eM, gam, val, Nat.add_assoc]; ring
  · have a := g 6 (by omega); have b := g 7 (by omega)
    simp only [cplxW16, ileafE, Nat.reduceMul, Nat.reduceAdd, Nat.add_zero, Nat.add_assoc]
    rw [a, b, ← Y.hcsi]; simp [ciFill16, eM, gam, val, Nat.add_assoc]; ring
  · have a := g 8 (by omega); have b := g 9 (by omega)
    simp only [cplxW16, ileafE, Nat.reduceMul, Nat.reduceAdd, Nat.add_zero, Nat.add_assoc]
    rw [a, b, ← Y.hcsi]; simp [ciFill16, eM, gam, val, Nat.add_assoc]; ring
  · have a := g 10 (by omega); have b := g 11 (by omega)
    simp only [cplxW16, ileafE, Nat.reduceMul, Nat.reduceAdd, Nat.add_zero, Nat.add_assoc]
    rw [a, b, ← Y.hcsi]; simp [ciFill16, eM, gam, val, Nat.add_assoc]; ring
  · have a := g 12 (by omega); have b := g 13 (by omega)
    simp only [cplxW16, ileafE, Nat.reduceMul, Nat.reduceAdd, Nat.add_zero, Nat.add_assoc]
    rw [a, b, ← Y.hcsi]; simp [ciFill16, eM, gam, val, Nat.add_assoc]; ring
  · have a := g 14 (by omega); have b := g 15 (by omega)
    simp only [cplxW16, ileafE, Nat.reduceMul, Nat.reduceAdd, Nat.add_zero, Nat.add_assoc]
    rw [a, b, ← Y.hcsi]; simp [ciFill16, eM, gam, val, Nat.add_assoc]; ring

/-- the loop over the inverse 16-point leaves -/
theorem icleaves_spec (F : Flav R) (hF : InvOK Y.I F) (T : Array R) (N ℓ0 j b0 off m' t : ℕ) (cf : R) (s : RI R)
    (hs : Valid N s) (hk : Y.k = ℓ0 + j + 4) (hm : m' = 2 ^ (j + 4)) (hoff : off = m' * b0) (hN : off + m' ≤ N)
    (hT : Seg T t (((List.range (m' / 16)).flatMap
      (fun b => ciFill16 (4 * 2 ^ Y.k) (16 * (1 + 4 * brev ℓ0 b0) + frbN (4 * 2 ^ Y.k) b))).map (val Y.c Y.s))) :
    let r := iterFrom (fun b (st : RI R × ℕ) => (ifft16K F (cplxW16 T st.2) (off + 16 * b) st.1, st.2 + 16)) (m' / 16) 0 (s, t)
    IAdv Y.ζ Y.a (cxs Y.I s) (cxs Y.I r.1) cf (16 * cf) (ℓ0 + j + 4) 0 (ℓ0 + j) 4 off m' ∧ Valid N r.1 ∧
      r.2 = t + m' := by
  intro r
  have hnb : m' / 16 = 2 ^ j := by rw [hm, pow_add]; norm_num
  have hm16 : m' = 2 ^ j * 16 := by rw [hm, pow_add]; norm_num
  have hr : r = (iterFrom (fun b s => ifft16K F (cplxW16 T (t + 16 * b)) (off + 16 * b) s) (m' / 16) 0 s, t + 16 * (m' / 16)) :=
    iter_counter (fun b t s => ifft16K F (cplxW16 T t) (off + 16 * b) s) 16 (m' / 16) s t
  rw [hr]
  simp only
  rw [List.map_flatMap] at hT
  have hseg := Seg.flatMap (T := T) (t := t) _ 16 (m' / 16) (fun b => by simp [ciFill16, eM, gam]) hT
  have sw := sweepG Y (fun p => cf * V Y.ζ Y.a (ℓ0 + j + 4) 0 p) (fun p => 16 * cf * V Y.ζ Y.a (ℓ0 + j) 4 p)
    (fun b s => ifft16K F (cplxW16 T (t + 16 * b)) (off + 16 * b) s) N off 16 (m' / 16)
    (fun b s hb hs => by
      have hb' : b < 2 ^ j := by omega
      have := ifft16K_adv Y F hF (cplxW16 T (t + 16 * b)) N (ℓ0 + j) (b0 * 2 ^ j + b) (off + 16 * b)
        (16 * (1 + 4 * brev ℓ0 b0) + frbN (4 * 2 ^ Y.k) b) cf s hs
        (by rw [hoff, hm16]; ring) (by omega) hk
        (by
          have := block_entry ℓ0 j 4 b0 b hb'
          rw [← hk] at this
          simpa using this)
        (icleaf_read Y T (t + 16 * b) _ _ (by
          have := hseg b hb
          rwa [show t + b * 16 = t + 16 * b by ring] at this))
      exact ⟨this.1.of_eq (by ring) rfl, this.2⟩) s hs
  refine ⟨sw.1.of_eq rfl (by omega), sw.2, by omega⟩


/-- `fracrevbits(2b) = fracrevbits(b)/2` -/
theorem frbN_double (j n b : ℕ) (hn : 2 ^ (j + 1) ∣ n) (hb : b < 2 ^ j) : frbN n (2 * b) * 2 = frbN n b := by
  have h1 := frbN_brev (j + 1) n (2 * b) hn (by rw [pow_succ]; omega)
  have h2 := frbN_brev j n b (Dvd.dvd.trans ⟨2, by rw [pow_succ]⟩ hn) hb
  rw [brev_even] at h1
  apply Nat.eq_of_mul_eq_mul_right (Nat.two_pow_pos j)
  rw [h2, ← h1, pow_succ]; ring

theorem flatMap_congr_range {β : Type} (f g : ℕ → List β) (n : ℕ) (h : ∀ b, b < n → f b = g b) :
    (List.range n).flatMap f = (List.range n).flatMap g := by
  induction n with
  | zero => rfl
  | succ n ih =>
    rw [List.range_succ, List.flatMap_append, List.flatMap_append, ih (fun b hb => h b (by omega))]
    simp [h n (by omega)]

/-- one inverse radix-4 level, cplx table layout (`fracrevbits(2b)`) -/
theorem cir4_spec (F : CFlav R) (hF : CInvOK Y.I F) (T : Array R) (N ℓ0 j e2 b0 off m' h t : ℕ) (cf : R) (s : RI R)
    (hs : Valid N s) (hk : Y.k = ℓ0 + j + (e2 + 2)) (hm : m' = 2 ^ (j + (e2 + 2))) (hh : h = 2 ^ e2) (he2 : 2 ≤ e2)
    (hoff : off = m' * b0) (hN : off + m' ≤ N)
    (hT : Seg T t (((List.range (m' / (4 * h))).flatMap (fun b =>
      eM (h * (1 + 4 * brev ℓ0 b0) + frbN (4 * 2 ^ Y.k) (2 * b) / 2) ++
      eM (2 * (h * (1 + 4 * brev ℓ0 b0)) + frbN (4 * 2 ^ Y.k) (2 * b)))).map (val Y.c Y.s))) :
    let r := iterFrom (fun b (st : RI R × ℕ) => (invbitwiddle F.big T st.2 h (off + b * (4 * h)) st.1, st.2 + 4))
      (m' / (4 * h)) 0 (s, t)
    IAdv Y.ζ Y.a (cxs Y.I s) (cxs Y.I r.1) cf (4 * cf) (ℓ0 + j + 2) e2 (ℓ0 + j) (e2 + 2) off m' ∧ Valid N r.1 ∧
      r.2 = t + 4 * (m' / (4 * h)) := by
  have hnb : m' / (4 * h) = 2 ^ j := by
    rw [hm, hh, show 4 * 2 ^ e2 = 2 ^ (e2 + 2) by rw [pow_add]; ring, pow_add]
    exact Nat.mul_div_cancel _ (Nat.two_pow_pos _)
  have hlist : (List.range (m' / (4 * h))).flatMap (fun b =>
      eM (h * (1 + 4 * brev ℓ0 b0) + frbN (4 * 2 ^ Y.k) (2 * b) / 2) ++
      eM (2 * (h * (1 + 4 * brev ℓ0 b0)) + frbN (4 * 2 ^ Y.k) (2 * b)))
    = (List.range (m' / (4 * h))).flatMap (fun b =>
      eM (h * (1 + 4 * brev ℓ0 b0) + frbN (4 * 2 ^ Y.k) b / 4) ++
      eM (2 * (h * (1 + 4 * brev ℓ0 b0) + frbN (4 * 2 ^ Y.k) b / 4))) := by
    apply flatMap_congr_range
    intro b hb
    rw [hnb] at hb
    have hd := frbN_double j (4 * 2 ^ Y.k) b ⟨2 * 2 ^ (ℓ0 + (e2 + 2)), by rw [hk, pow_add, pow_add, pow_succ]; ring⟩ hb
    have h4 : 4 ∣ frbN (4 * 2 ^ Y.k) b := by
      have hE := block_entry ℓ0 j (e2 + 2) b0 b hb
      rw [← hk] at hE
      have e1 : 2 ^ (e2 + 2) * (1 + 4 * brev ℓ0 b0) = 4 * (2 ^ e2 * (1 + 4 * brev ℓ0 b0)) := by rw [pow_add]; ring
      have e2' : 2 ^ (e2 + 2) * (1 + 4 * brev (ℓ0 + j) (b0 * 2 ^ j + b))
          = 4 * (2 ^ e2 * (1 + 4 * brev (ℓ0 + j) (b0 * 2 ^ j + b))) := by rw [pow_add]; ring
      rw [e1, e2'] at hE
      omega
    obtain ⟨q, hq⟩ := h4
    have x1 : frbN (4 * 2 ^ Y.k) (2 * b) / 2 = frbN (4 * 2 ^ Y.k) b / 4 := by omega
    have x2 : 2 * (h * (1 + 4 * brev ℓ0 b0)) + frbN (4 * 2 ^ Y.k) (2 * b)
        = 2 * (h * (1 + 4 * brev ℓ0 b0) + frbN (4 * 2 ^ Y.k) b / 4) := by omega
    rw [x1, x2]
  rw [hlist] at hT
  rw [show 4 * h = h * 4 by ring]
  rw [show 4 * h = h * 4 by ring] at hT
  have := ir4_spec Y F.big hF.big T N ℓ0 j e2 b0 off m' h t cf s hs hk hm hh hoff hN
    (by rw [show 4 * h = h * 4 by ring]; exact hT)
  exact this

/-- the `for (; h < m; h <<= 2)` loop of `cibfs16`: `i` inverse radix-4 levels up to the whole region -/
theorem cibfsLevels_spec (F : CFlav R) (hF : CInvOK Y.I F) (T : Array R) (N ℓ0 D b0 off m' : ℕ)
    (hk : Y.k = ℓ0 + D) (hm : m' = 2 ^ D) (hoff : off = m' * b0) (hN : off + m' ≤ N) :
    ∀ i fuel e h p (s : RI R) (t : ℕ) (cf : R), e + 2 * i = D → h = 2 ^ e → 2 ≤ e →
      p = h * (1 + 4 * brev ℓ0 b0) → i ≤ fuel → Valid N s →
      Seg T t ((ciBfs16Levels (4 * 2 ^ Y.k) m' fuel h p).map (val Y.c Y.s)) →
      IAdv Y.ζ Y.a (cxs Y.I s) (cxs Y.I (cibfsLevels F T m' off fuel h (s, t)).1) cf (4 ^ i * cf)
          (ℓ0 + 2 * i) e ℓ0 D off m' ∧
        Valid N (cibfsLevels F T m' off fuel h (s, t)).1 ∧
        (cibfsLevels F T m' off fuel h (s, t)).2 = t + (ciBfs16Levels (4 * 2 ^ Y.k) m' fuel h p).length := by
  intro i
  induction i with
  | zero =>
    intro fuel e h p s t cf he hh he2 hp hfuel hs hT
    have hhm : h = m' := by rw [hh, hm, show e = D by omega]
    cases fuel with
    | zero =>
      rw [cibfsLevels, ciBfs16Levels]
      exact ⟨IAdv_id Y _ _ _ _ _ _ _ _ _ (by ring) (by omega) (by omega), hs, by simp⟩
    | succ f =>
      rw [cibfsLevels, if_neg (by omega), ciBfs16Levels, if_neg (by omega)]
      exact ⟨IAdv_id Y _ _ _ _ _ _ _ _ _ (by ring) (by omega) (by omega), hs, by simp⟩
  | succ i ih =>
    intro fuel e h p s t cf he hh he2 hp hfuel hs hT
    obtain ⟨f, rfl⟩ : ∃ f, fuel = f + 1 := ⟨fuel - 1, by omega⟩
    have hlt : h < m' := by rw [hh, hm]; exact Nat.pow_lt_pow_right (by omega) (by omega)
    rw [cibfsLevels, if_pos hlt]
    have hlenT : (ciBfs16Levels (4 * 2 ^ Y.k) m' (f + 1) h p).length
        = 4 * (m' / (4 * h)) + (ciBfs16Levels (4 * 2 ^ Y.k) m' f (h * 4) (p * 4)).length := by
      rw [ciBfs16Levels, if_pos hlt, List.length_append, length_flatMap_const _ 4 _ (fun b => by simp [eM])]; ring
    rw [ciBfs16Levels, if_pos hlt, List.map_append, hp] at hT
    have st := cir4_spec Y F hF T N ℓ0 (2 * i) e b0 off m' h t cf s hs (by omega) (by rw [hm]; congr 1; omega) hh he2
      hoff hN hT.left
    simp only at st
    obtain ⟨sA, tA, hst⟩ : ∃ sA tA, iterFrom (fun b (st : RI R × ℕ) =>
      (invbitwiddle F.big T st.2 h (off + b * (4 * h)) st.1, st.2 + 4)) (m' / (4 * h)) 0 (s, t) = (sA, tA) :=
      ⟨_, _, rfl⟩
    rw [hst] at st
    simp only [hst]
    obtain ⟨a1, v1, p1⟩ := st
    simp only at a1 v1 p1
    have hlen : (List.map (val Y.c Y.s) ((List.range (m' / (4 * h))).flatMap (fun b =>
        eM (h * (1 + 4 * brev ℓ0 b0) + frbN (4 * 2 ^ Y.k) (2 * b) / 2) ++
        eM (2 * (h * (1 + 4 * brev ℓ0 b0)) + frbN (4 * 2 ^ Y.k) (2 * b))))).length = 4 * (m' / (4 * h)) := by
      rw [List.length_map, length_flatMap_const _ 4 _ (fun b => by simp [eM])]; ring
    have hT2 := hT.right
    rw [hlen, ← p1] at hT2
    have nx := ih f (e + 2) (h * 4) (h * (1 + 4 * brev ℓ0 b0) * 4) sA tA (4 * cf) (by omega)
      (by rw [hh, pow_add]; norm_num) (by omega) (by ring) (by omega) v1 hT2
    obtain ⟨a2, v2, p2⟩ := nx
    refine ⟨?_, v2, ?_⟩
    · have a1' := IAdv.cast Y.ζ Y.a a1 cf (4 * cf) (ℓ0 + 2 * (i + 1)) e (ℓ0 + 2 * i) (e + 2) rfl rfl (by ring) rfl rfl rfl
      have a2' := IAdv.cast Y.ζ Y.a a2 (4 * cf) (4 ^ (i + 1) * cf) (ℓ0 + 2 * i) (e + 2) ℓ0 D rfl (by ring) rfl rfl rfl
        rfl
      exact a1'.seq a2'
    · rw [p2, p1, hlenT, hp, Nat.add_assoc]

/-- the odd-log pass of `cibfs16`: blocks of 16 become blocks of 32, one twiddle per block -/
theorem ciodd_spec (F : CFlav R) (hF : CInvOK Y.I F) (T : Array R) (N ℓ0 j b0 off m' t : ℕ) (cf : R) (s : RI R)
    (hs : Valid N s) (hk : Y.k = ℓ0 + j + 5) (hm : m' = 2 ^ (j + 5)) (hoff : off = m' * b0) (hN : off + m' ≤ N)
    (hT : Seg T t (((List.range (m' / 32)).flatMap (fun i =>
      eM (16 * (1 + 4 * brev ℓ0 b0) + frbN (4 * 2 ^ Y.k) i / 2))).map (val Y.c Y.s))) :
    let r := iterFrom (fun b (st : RI R × ℕ) =>
      (twPassL F.ctOdd F.lanesOdd T st.2 16 (off + b * 32) st.1, st.2 + 2)) (m' / 32) 0 (s, t)
    IAdv Y.ζ Y.a (cxs Y.I s) (cxs Y.I r.1) cf (2 * cf) (ℓ0 + j + 1) 4 (ℓ0 + j) 5 off m' ∧ Valid N r.1 ∧
      r.2 = t + 2 * (m' / 32) := by
  intro r
  have hnb : m' / 32 = 2 ^ j := by rw [hm, pow_add]; norm_num
  have hm' : m' = 2 ^ j * 32 := by rw [hm, pow_add]; norm_num
  have hr : r = (iterFrom (fun b s => twPassL F.ctOdd F.lanesOdd T (t + 2 * b) 16 (off + b * 32) s) (m' / 32) 0 s,
      t + 2 * (m' / 32)) :=
    iter_counter (fun b t s => twPassL F.ctOdd F.lanesOdd T t 16 (off + b * 32) s) 2 (m' / 32) s t
  rw [hr]
  simp only
  rw [List.map_flatMap] at hT
  have hseg := Seg.flatMap (T := T) (t := t) _ 2 (m' / 32) (fun b => by simp [eM]) hT
  have sw := sweepG Y (fun p => cf * V Y.ζ Y.a (ℓ0 + j + 1) 4 p) (fun p => 2 * cf * V Y.ζ Y.a (ℓ0 + j) 5 p)
    (fun b s => twPassL F.ctOdd F.lanesOdd T (t + 2 * b) 16 (off + b * 32) s) N off 32 (m' / 32)
    (fun b s hb hs => by
      have hb' : b < 2 ^ j := by omega
      have hsb := hseg b hb
      rw [show t + b * 2 = t + 2 * b by ring] at hsb
      have e := CplxFwd.tw_exps ℓ0 j 4 b0 b Y.k hb' hk
      have w0 := read_eM Y T (t + 2 * b) _ hsb
      rw [show (2 : ℕ) ^ 4 = 16 by norm_num] at e
      rw [e] at w0
      have := itwPassL_adv Y F.ctOdd hF.ctOdd F.lanesOdd T (t + 2 * b) N (ℓ0 + j) 4 (b0 * 2 ^ j + b)
        (off + b * 32) cf s hs (by rw [hoff, hm']; ring) (by omega) w0
        (fun hl => by rw [hF.lanesOdd] at hl; exact absurd hl (by simp))
      exact this) s hs
  refine ⟨sw.1.of_eq rfl (by rw [hnb, hm']), sw.2, trivial⟩

/-- `cibfs16` (m' = 2^D ≥ 16) -/
theorem cibfs16_spec (F : CFlav R) (hF : CInvOK Y.I F) (T : Array R) (N ℓ0 D b0 off m' t : ℕ) (cf : R) (s : RI R)
    (hk : Y.k = ℓ0 + D) (hm : m' = 2 ^ D) (hD : 4 ≤ D) (hoff : off = m' * b0) (hN : off + m' ≤ N)
    (hs : Valid N s)
    (hT : Seg T t ((ciBfs16 (4 * 2 ^ Y.k) m' (m' * (1 + 4 * brev ℓ0 b0))).map (val Y.c Y.s))) :
    IAdv Y.ζ Y.a (cxs Y.I s) (cxs Y.I (cibfs16 F T m' off (s, t)).1) cf (2 ^ D * cf) Y.k 0 ℓ0 D off m' ∧
      Valid N (cibfs16 F T m' off (s, t)).1 ∧
      (cibfs16 F T m' off (s, t)).2 = t + (ciBfs16 (4 * 2 ^ Y.k) m' (m' * (1 + 4 * brev ℓ0 b0))).length := by
  have hlog : m'.log2 = D := by rw [hm]; exact Nat.log2_two_pow
  have hpos : 0 < m' := by rw [hm]; exact Nat.two_pow_pos _
  have h16 : m' / 16 * 16 = m' := by
    have : m' = 2 ^ (D - 4) * 16 := by
      rw [hm, show (16 : ℕ) = 2 ^ 4 by norm_num, ← pow_add 2 (D - 4) 4]; congr 1; omega
    omega
  obtain ⟨i, p, hp, hDi⟩ : ∃ i p, p < 2 ∧ D = 4 + 2 * i + p := ⟨(D - 4) / 2, (D - 4) % 2, by omega, by omega⟩
  have hss : m' * (1 + 4 * brev ℓ0 b0) * 16 / m' = 16 * (1 + 4 * brev ℓ0 b0) := by
    rw [show m' * (1 + 4 * brev ℓ0 b0) * 16 = m' * (16 * (1 + 4 * brev ℓ0 b0)) by ring]
    exact Nat.mul_div_cancel_left _ hpos
  have hlenL : ((List.range (m' / 16)).flatMap (fun b =>
      ciFill16 (4 * 2 ^ Y.k) (16 * (1 + 4 * brev ℓ0 b0) + frbN (4 * 2 ^ Y.k) b))).length = m' := by
    rw [length_flatMap_const _ 16 _ (fun b => by simp [ciFill16, eM, gam]), h16]
  have h4 : (4 : R) ^ i = 2 ^ (2 * i) := by rw [pow_mul]; norm_num
  have hfuel : i ≤ m' := by have := @Nat.lt_two_pow_self D; omega
  unfold cibfs16
  rw [ciBfs16, hss, hlog, List.map_append] at hT
  rw [ciBfs16, hss, hlog, List.length_append, hlenL]
  have s1 := icleaves_spec Y F.big hF.big T N ℓ0 (2 * i + p) b0 off m' t cf s hs (by omega)
    (by rw [hm, hDi]; congr 1; omega) hoff hN hT.left
  simp only at s1
  obtain ⟨sA, tA, hst⟩ : ∃ sA tA, iterFrom (fun b (st : RI R × ℕ) =>
    (ifft16K F.big (cplxW16 T st.2) (off + 16 * b) st.1, st.2 + 16)) (m' / 16) 0 (s, t) = (sA, tA) := ⟨_, _, rfl⟩
  rw [hst] at s1
  simp only [hst]
  obtain ⟨a1, v1, p1⟩ := s1
  simp only at a1 v1 p1
  have hT2 := hT.right
  rw [List.length_map, hlenL, ← p1] at hT2
  by_cases hodd : D % 2 != 0
  · have hp1 : p = 1 := by simp at hodd; omega
    subst hp1
    rw [if_pos hodd] at hT2 ⊢
    rw [if_pos hodd]
    rw [List.map_append] at hT2
    have s2 := ciodd_spec Y F hF T N ℓ0 (2 * i) b0 off m' tA (16 * cf) sA v1 (by omega)
      (by rw [hm, hDi]; congr 1; omega) hoff hN hT2.left
    simp only at s2
    obtain ⟨sB, tB, hst2⟩ : ∃ sB tB, iterFrom (fun b (st : RI R × ℕ) =>
      (twPassL F.ctOdd F.lanesOdd T st.2 16 (off + b * 32) st.1, st.2 + 2)) (m' / 32) 0 (sA, tA) = (sB, tB) :=
      ⟨_, _, rfl⟩
    rw [hst2] at s2
    simp only [hst2]
    obtain ⟨a2, v2, p2⟩ := s2
    simp only at a2 v2 p2
    have hlenO : (List.map (val Y.c Y.s) ((List.range (m' / 32)).flatMap (fun i =>
        eM (16 * (1 + 4 * brev ℓ0 b0) + frbN (4 * 2 ^ Y.k) i / 2)))).length = 2 * (m' / 32) := by
      rw [List.length_map, length_flatMap_const _ 2 _ (fun b => by simp [eM])]; ring
    have hT3 := hT2.right
    rw [hlenO, ← p2] at hT3
    have s3 := cibfsLevels_spec Y F hF T N ℓ0 D b0 off m' hk hm hoff hN i m' 5 32
      (16 * (1 + 4 * brev ℓ0 b0) * 2) sB tB (2 * (16 * cf)) (by omega) (by norm_num) (by omega) (by ring) hfuel v2 hT3
    obtain ⟨a3, v3, p3⟩ := s3
    refine ⟨?_, v3, ?_⟩
    · have b1 := IAdv.cast Y.ζ Y.a a1 cf (16 * cf) Y.k 0 (ℓ0 + 2 * i + 1) 4 rfl rfl (by omega) rfl (by ring) rfl
      have b3 := IAdv.cast Y.ζ Y.a a3 (2 * (16 * cf)) (2 ^ D * cf) (ℓ0 + 2 * i) 5 ℓ0 D rfl (by rw [hDi, h4]; ring) rfl rfl
        rfl rfl
      exact (b1.seq a2).seq b3
    · rw [p3, p2, p1, List.length_append, length_flatMap_const _ 2 _ (fun b => by simp [eM])]; ring
  · have hp0 : p = 0 := by simp at hodd; omega
    subst hp0
    rw [if_neg hodd] at hT2 ⊢
    rw [if_neg hodd]
    have s3 := cibfsLevels_spec Y F hF T N ℓ0 D b0 off m' hk hm hoff hN i m' 4 16
      (16 * (1 + 4 * brev ℓ0 b0)) sA tA (16 * cf) (by omega) (by norm_num) (by omega) rfl hfuel v1 hT2
    obtain ⟨a3, v3, p3⟩ := s3
    refine ⟨?_, v3, ?_⟩
    · have b1 := IAdv.cast Y.ζ Y.a a1 cf (16 * cf) Y.k 0 (ℓ0 + 2 * i) 4 rfl rfl (by omega) rfl (by ring) rfl
      have b3 := IAdv.cast Y.ζ Y.a a3 (16 * cf) (2 ^ D * cf) (ℓ0 + 2 * i) 4 ℓ0 D rfl (by rw [hDi, h4]; ring) rfl rfl
        rfl rfl
      exact b1.seq b3
    · rw [p3, p1]; ring

/-- one inverse twiddle level of `cibfs2` over the whole region (blocks of size `h` become blocks of size `2h`) -/
theorem cilevel_spec (F : CFlav R) (hF : CInvOK Y.I F) (T : Array R) (N ℓ0 j d b0 off m' h t : ℕ) (cf : R) (s : RI R)
    (hs : Valid N s) (hk : Y.k = ℓ0 + j + (d + 1)) (hm : m' = 2 ^ (j + (d + 1))) (hh : h = 2 ^ d)
    (hoff : off = m' * b0) (hN : off + m' ≤ N)
    (hT : Seg T t (((List.range (m' / (2 * h))).flatMap (fun b =>
      eM (h * (1 + 4 * brev ℓ0 b0) + frbN (4 * 2 ^ Y.k) b / 2) ++
      eM (h * (1 + 4 * brev ℓ0 b0) + frbN (4 * 2 ^ Y.k) b / 2))).map (val Y.c Y.s))) :
    let r := iterFrom (fun b (st : RI R × ℕ) =>
      (twPassL F.ctTop F.lanesTop T st.2 h (off + b * (2 * h)) st.1, st.2 + 4)) (m' / (2 * h)) 0 (s, t)
    IAdv Y.ζ Y.a (cxs Y.I s) (cxs Y.I r.1) cf (2 * cf) (ℓ0 + j + 1) d (ℓ0 + j) (d + 1) off m' ∧ Valid N r.1 ∧
      r.2 = t + 4 * (m' / (2 * h)) := by
  intro r
  have hmm : 2 * h = 2 ^ (d + 1) := by rw [hh, pow_succ]; ring
  have hnb : m' / (2 * h) = 2 ^ j := by
    rw [hm, hmm, pow_add]; exact Nat.mul_div_cancel _ (Nat.two_pow_pos _)
  have hm' : m' = 2 ^ j * (2 * h) := by rw [hm, hmm, pow_add]
  have hr : r = (iterFrom (fun b s => twPassL F.ctTop F.lanesTop T (t + 4 * b) h (off + b * (2 * h)) s)
      (m' / (2 * h)) 0 s, t + 4 * (m' / (2 * h))) :=
    iter_counter (fun b t s => twPassL F.ctTop F.lanesTop T t h (off + b * (2 * h)) s) 4 (m' / (2 * h)) s t
  rw [hr]
  simp only
  rw [List.map_flatMap] at hT
  have hseg := Seg.flatMap (T := T) (t := t) _ 4 (m' / (2 * h)) (fun b => by simp [eM]) hT
  have sw := sweepG Y (fun p => cf * V Y.ζ Y.a (ℓ0 + j + 1) d p) (fun p => 2 * cf * V Y.ζ Y.a (ℓ0 + j) (d + 1) p)
    (fun b s => twPassL F.ctTop F.lanesTop T (t + 4 * b) h (off + b * (2 * h)) s) N off (2 * h) (m' / (2 * h))
    (fun b s hb hs => by
      have hb' : b < 2 ^ j := by omega
      have hsb := hseg b hb
      rw [List.map_append, show t + b * 4 = t + 4 * b by ring] at hsb
      have e := CplxFwd.tw_exps ℓ0 j d b0 b Y.k hb' hk
      rw [← hh] at e
      have w0 := read_eM Y T (t + 4 * b) _ hsb.left
      have w1 := read_eM Y T (t + 4 * b + 2) _ (by simpa [eM] using hsb.right)
      rw [e] at w0 w1
      have hbm' : b * (2 * h) + 2 * h ≤ 2 ^ j * (2 * h) := by
        have : (b + 1) * (2 * h) ≤ 2 ^ j * (2 * h) := Nat.mul_le_mul_right _ hb'
        rw [Nat.add_mul] at this; omega
      have := itwPassL_adv Y F.ctTop hF.ctTop F.lanesTop T (t + 4 * b) N (ℓ0 + j) d (b0 * 2 ^ j + b)
        (off + b * (2 * h)) cf s hs (by rw [hoff, hm', hh]; ring) (by rw [← hh]; omega) w0
        (fun _ => by rw [show t + 4 * b + 2 + 1 = t + 4 * b + 3 by ring] at w1; exact w1)
      rw [← hh] at this
      exact this) s hs
  refine ⟨sw.1.of_eq rfl (by rw [hnb, hm']), sw.2, trivial⟩

/-- the `h = 2, 4, …, m/2` loop of `cibfs2` -/
theorem cibfs2Levels_spec (F : CFlav R) (hF : CInvOK Y.I F) (T : Array R) (N ℓ0 D b0 off m' : ℕ)
    (hk : Y.k = ℓ0 + D) (hm : m' = 2 ^ D) (hoff : off = m' * b0) (hN : off + m' ≤ N) :
    ∀ n fuel d h pom (s : RI R) (t : ℕ) (cf : R), d + n = D → 1 ≤ d → h = 2 ^ d →
      pom = h * (1 + 4 * brev ℓ0 b0) → n ≤ fuel → Valid N s →
      Seg T t ((ciBfs2Levels (4 * 2 ^ Y.k) m' fuel h pom).map (val Y.c Y.s)) →
      IAdv Y.ζ Y.a (cxs Y.I s) (cxs Y.I (cibfs2Levels F T m' off fuel h (s, t)).1) cf (2 ^ n * cf)
          (ℓ0 + n) d ℓ0 D off m' ∧
        Valid N (cibfs2Levels F T m' off fuel h (s, t)).1 ∧
        (cibfs2Levels F T m' off fuel h (s, t)).2 = t + (ciBfs2Levels (4 * 2 ^ Y.k) m' fuel h pom).length := by
  have hm2 : m' / 2 = 2 ^ (D - 1) ∨ D = 0 := by
    by_cases h0 : D = 0
    · exact Or.inr h0
    · left
      obtain ⟨D1, rfl⟩ : ∃ D1, D = D1 + 1 := ⟨D - 1, by omega⟩
      rw [hm, pow_succ]; simp
  intro n
  induction n with
  | zero =>
    intro fuel d h pom s t cf hd hd1 hh hpom hfuel hs hT
    have hnot : ¬ h ≤ m' / 2 := by
      rcases hm2 with h2 | h2
      · rw [h2, hh, show d = D by omega]
        have : 2 ^ (D - 1) < 2 ^ D := Nat.pow_lt_pow_right (by omega) (by omega)
        omega
      · omega
    cases fuel with
    | zero =>
      rw [cibfs2Levels, ciBfs2Levels]
      exact ⟨IAdv_id Y _ _ _ _ _ _ _ _ _ (by ring) (by omega) (by omega), hs, by simp⟩
    | succ f =>
      rw [cibfs2Levels, if_neg hnot, ciBfs2Levels, if_neg hnot]
      exact ⟨IAdv_id Y _ _ _ _ _ _ _ _ _ (by ring) (by omega) (by omega), hs, by simp⟩
  | succ n ih =>
    intro fuel d h pom s t cf hd hd1 hh hpom hfuel hs hT
    obtain ⟨f, rfl⟩ : ∃ f, fuel = f + 1 := ⟨fuel - 1, by omega⟩
    have hle : h ≤ m' / 2 := by
      rcases hm2 with h2 | h2
      · rw [h2, hh]; exact Nat.pow_le_pow_right (by omega) (by omega)
      · omega
    rw [cibfs2Levels, if_pos hle]
    have hlenT : (ciBfs2Levels (4 * 2 ^ Y.k) m' (f + 1) h pom).length
        = 4 * (m' / (2 * h)) + (ciBfs2Levels (4 * 2 ^ Y.k) m' f (h * 2) (pom * 2)).length := by
      rw [ciBfs2Levels, if_pos hle, List.length_append, length_flatMap_const _ 4 _ (fun b => by simp [eM])]; ring
    rw [ciBfs2Levels, if_pos hle, List.map_append, hpom] at hT
    have st := cilevel_spec Y F hF T N ℓ0 n d b0 off m' h t cf s hs (by omega) (by rw [hm]; congr 1; omega) hh
      hoff hN hT.left
    simp only at st
    obtain ⟨sA, tA, hst⟩ : ∃ sA tA, iterFrom (fun b (st : RI R × ℕ) =>
      (twPassL F.ctTop F.lanesTop T st.2 h (off + b * (2 * h)) st.1, st.2 + 4)) (m' / (2 * h)) 0 (s, t) = (sA, tA) :=
      ⟨_, _, rfl⟩
    rw [hst] at st
    simp only [hst]
    obtain ⟨a1, v1, p1⟩ := st
    simp only at a1 v1 p1
    have hlen : (List.map (val Y.c Y.s) ((List.range (m' / (2 * h))).flatMap (fun b =>
        eM (h * (1 + 4 * brev ℓ0 b0) + frbN (4 * 2 ^ Y.k) b / 2) ++
        eM (h * (1 + 4 * brev ℓ0 b0) + frbN (4 * 2 ^ Y.k) b / 2)))).length = 4 * (m' / (2 * h)) := by
      rw [List.length_map, length_flatMap_const _ 4 _ (fun b => by simp [eM])]; ring
    have hT2 := hT.right
    rw [hlen, ← p1] at hT2
    have nx := ih f (d + 1) (h * 2) (h * (1 + 4 * brev ℓ0 b0) * 2) sA tA (2 * cf) (by omega) (by omega)
      (by rw [hh, pow_succ]) (by ring) (by omega) v1 hT2
    obtain ⟨a2, v2, p2⟩ := nx
    refine ⟨?_, v2, ?_⟩
    · have a1' := IAdv.cast Y.ζ Y.a a1 cf (2 * cf) (ℓ0 + (n + 1)) d (ℓ0 + n) (d + 1) rfl rfl (by ring) rfl rfl rfl
      have a2' := IAdv.cast Y.ζ Y.a a2 (2 * cf) (2 ^ (n + 1) * cf) (ℓ0 + n) (d + 1) ℓ0 D rfl (by ring) rfl rfl rfl rfl
      exact a1'.seq a2'
    · rw [p2, p1, hlenT, hpom, Nat.add_assoc]

/-- the `h = 1` loop of `cibfs2`: one inverse butterfly per pair, one table entry per pair -/
theorem cifirst_spec (F : CFlav R) (hF : CInvOK Y.I F) (T : Array R) (N ℓ0 D1 b0 off m' t : ℕ) (cf : R) (s : RI R)
    (hs : Valid N s) (hk : Y.k = ℓ0 + D1 + 1) (hm : m' = 2 ^ (D1 + 1)) (hoff : off = m' * b0) (hN : off + m' ≤ N)
    (hT : Seg T t (((List.range (m' / 2)).flatMap (fun i =>
      eM (1 + 4 * brev ℓ0 b0 + frbN (4 * 2 ^ Y.k) i / 2))).map (val Y.c Y.s))) :
    let r := iterFrom (fun j (st : RI R × ℕ) =>
      let t := st.2
      let s := st.1
      let a := off + 2 * j
      let r := F.last s.re[a]! s.im[a]! s.re[a + 1]! s.im[a + 1]! T[t]! T[t + 1]! T[t]! T[t + 1]!
      ((⟨(s.re.set! a r.1).set! (a + 1) r.2.2.1, (s.im.set! a r.2.1).set! (a + 1) r.2.2.2⟩ : RI R), t + 2))
      (m' / 2) 0 (s, t)
    IAdv Y.ζ Y.a (cxs Y.I s) (cxs Y.I r.1) cf (2 * cf) (ℓ0 + D1 + 1) 0 (ℓ0 + D1) 1 off m' ∧ Valid N r.1 ∧
      r.2 = t + 2 * (m' / 2) := by
  intro r
  have hnb : m' / 2 = 2 ^ D1 := by rw [hm, pow_succ]; simp
  have hm' : m' = 2 ^ D1 * 2 := by rw [hm, pow_succ]
  have hr : r = (iterFrom (fun j s => bf (fun ra ia rb ib wr wi => F.last ra ia rb ib wr wi T[t + 2 * j]!
      T[t + 2 * j + 1]!) s (off + 2 * j) (off + 2 * j + 1) T[t + 2 * j]! T[t + 2 * j + 1]!) (m' / 2) 0 s,
      t + 2 * (m' / 2)) :=
    iter_counter (fun j t s => bf (fun ra ia rb ib wr wi => F.last ra ia rb ib wr wi T[t]! T[t + 1]!) s
      (off + 2 * j) (off + 2 * j + 1) T[t]! T[t + 1]!) 2 (m' / 2) s t
  rw [hr]
  simp only
  rw [List.map_flatMap] at hT
  have hseg := Seg.flatMap (T := T) (t := t) _ 2 (m' / 2) (fun b => by simp [eM]) hT
  have sw := sweepG Y (fun p => cf * V Y.ζ Y.a (ℓ0 + D1 + 1) 0 p) (fun p => 2 * cf * V Y.ζ Y.a (ℓ0 + D1) 1 p)
    (fun j s => bf (fun ra ia rb ib wr wi => F.last ra ia rb ib wr wi T[t + 2 * j]!
      T[t + 2 * j + 1]!) s (off + 2 * j) (off + 2 * j + 1) T[t + 2 * j]! T[t + 2 * j + 1]!) N off 2 (m' / 2)
    (fun j s hj hs => by
      have hj' : j < 2 ^ D1 := by omega
      have hsb := hseg j hj
      rw [show t + j * 2 = t + 2 * j by ring] at hsb
      have e := CplxFwd.tw_exps ℓ0 D1 0 b0 j Y.k hj' (by omega)
      rw [pow_zero, Nat.one_mul] at e
      have w := read_eM Y T (t + 2 * j) _ hsb
      rw [e] at w
      have := ipair1_adv Y (fun ra ia rb ib wr wi => F.last ra ia rb ib wr wi T[t + 2 * j]! T[t + 2 * j + 1]!)
        T[t + 2 * j]! T[t + 2 * j + 1]! _ (hF.last _ _ T[t + 2 * j]! T[t + 2 * j + 1]!) N (ℓ0 + D1) (b0 * 2 ^ D1 + j)
        (off + 2 * j) cf s hs (by rw [hoff, hm']; ring) (by
          have : (j + 1) * 2 ≤ 2 ^ D1 * 2 := Nat.mul_le_mul_right _ hj'
          omega) (by rw [w]; exact inv_pow Y _)
      exact ⟨this.1.of_eq (by ring) rfl, this.2⟩) s hs
  refine ⟨sw.1.of_eq rfl (by rw [hnb, hm']), sw.2, trivial⟩

/-- `cibfs2` (any m' = 2^D ≥ 2) -/
theorem cibfs2_spec (F : CFlav R) (hF : CInvOK Y.I F) (T : Array R) (N ℓ0 D b0 off m' t : ℕ) (cf : R) (s : RI R)
    (hk : Y.k = ℓ0 + D) (hm : m' = 2 ^ D) (hD : 1 ≤ D) (hoff : off = m' * b0) (hN : off + m' ≤ N)
    (hs : Valid N s)
    (hT : Seg T t ((ciBfs2 (4 * 2 ^ Y.k) m' (m' * (1 + 4 * brev ℓ0 b0))).map (val Y.c Y.s))) :
    IAdv Y.ζ Y.a (cxs Y.I s) (cxs Y.I (cibfs2 F T m' off (s, t)).1) cf (2 ^ D * cf) Y.k 0 ℓ0 D off m' ∧
      Valid N (cibfs2 F T m' off (s, t)).1 ∧
      (cibfs2 F T m' off (s, t)).2 = t + (ciBfs2 (4 * 2 ^ Y.k) m' (m' * (1 + 4 * brev ℓ0 b0))).length := by
  obtain ⟨D1, rfl⟩ : ∃ D1, D = D1 + 1 := ⟨D - 1, by omega⟩
  have hpos : 0 < m' := by rw [hm]; exact Nat.two_pow_pos _
  have hkap : m' * (1 + 4 * brev ℓ0 b0) / m' = 1 + 4 * brev ℓ0 b0 := Nat.mul_div_cancel_left _ hpos
  have hfuel : D1 ≤ m' := by have := @Nat.lt_two_pow_self (D1 + 1); omega
  have hlenF : ((List.range (m' / 2)).flatMap (fun i =>
      eM (1 + 4 * brev ℓ0 b0 + frbN (4 * 2 ^ Y.k) i / 2))).length = 2 * (m' / 2) := by
    rw [length_flatMap_const _ 2 _ (fun b => by simp [eM])]; ring
  unfold cibfs2
  rw [ciBfs2, hkap, List.map_append] at hT
  rw [ciBfs2, hkap, List.length_append, hlenF]
  have s1 := cifirst_spec Y F hF T N ℓ0 D1 b0 off m' t cf s hs (by omega) hm hoff hN hT.left
  simp only at s1
  obtain ⟨sA, tA, hst⟩ : ∃ sA tA, iterFrom (fun j (st : RI R × ℕ) =>
      let t := st.2
      let s := st.1
      let a := off + 2 * j
      let r := F.last s.re[a]! s.im[a]! s.re[a + 1]! s.im[a + 1]! T[t]! T[t + 1]! T[t]! T[t + 1]!
      ((⟨(s.re.set! a r.1).set! (a + 1) r.2.2.1, (s.im.set! a r.2.1).set! (a + 1) r.2.2.2⟩ : RI R), t + 2))
      (m' / 2) 0 (s, t) = (sA, tA) := ⟨_, _, rfl⟩
  rw [hst] at s1
  simp only [hst]
  obtain ⟨a1, v1, p1⟩ := s1
  simp only at a1 v1 p1
  have hT2 := hT.right
  rw [List.length_map, hlenF, ← p1] at hT2
  have s2 := cibfs2Levels_spec Y F hF T N ℓ0 (D1 + 1) b0 off m' hk hm hoff hN D1 m' 1 2
    ((1 + 4 * brev ℓ0 b0) * 2) sA tA (2 * cf) (by omega) (by omega) (by norm_num) (by ring) hfuel v1 hT2
  obtain ⟨a2, v2, p2⟩ := s2
  refine ⟨?_, v2, ?_⟩
  · have b1 := IAdv.cast Y.ζ Y.a a1 cf (2 * cf) Y.k 0 (ℓ0 + D1) 1 rfl rfl (by omega) rfl rfl rfl
    have b2 := IAdv.cast Y.ζ Y.a a2 (2 * cf) (2 ^ (D1 + 1) * cf) (ℓ0 + D1) 1 ℓ0 (D1 + 1) rfl (by ring) rfl rfl rfl rfl
    exact b1.seq b2
  · rw [p2, p1]; ring

/-- `cirec16` -/
theorem cirec16_spec (F : CFlav R) (hF : CInvOK Y.I F) (T : Array R) (N : ℕ) :
    ∀ fuel D ℓ0 b0 off m' t (cf : R) (s : RI R), Y.k = ℓ0 + D → m' = 2 ^ D → 1 ≤ D → m' ≤ fuel → off = m' * b0 →
      off + m' ≤ N → Valid N s →
      Seg T t ((ciRec (4 * 2 ^ Y.k) fuel m' (m' * (1 + 4 * brev ℓ0 b0))).map (val Y.c Y.s)) →
      IAdv Y.ζ Y.a (cxs Y.I s) (cxs Y.I (cirec16 F T fuel m' off (s, t)).1) cf (2 ^ D * cf) Y.k 0 ℓ0 D off m' ∧
        Valid N (cirec16 F T fuel m' off (s, t)).1 ∧
        (cirec16 F T fuel m' off (s, t)).2 = t + (ciRec (4 * 2 ^ Y.k) fuel m' (m' * (1 + 4 * brev ℓ0 b0))).length := by
  intro fuel
  induction fuel with
  | zero =>
    intro D ℓ0 b0 off m' t cf s hk hm hD hfuel
    have : 0 < m' := by rw [hm]; exact Nat.two_pow_pos _
    omega
  | succ f ih =>
    intro D ℓ0 b0 off m' t cf s hk hm hD hfuel hoff hN hs hT
    have h2 : 2 ≤ m' := by
      have : 2 ^ 1 ≤ 2 ^ D := Nat.pow_le_pow_right (by omega) hD
      rw [hm]; simpa using this
    rw [cirec16]
    rw [ciRec] at hT ⊢
    have hn1 : ¬ m' ≤ 1 := by omega
    rw [if_neg hn1] at hT ⊢
    rw [if_neg hn1]
    by_cases h8 : m' ≤ 8
    · rw [if_pos h8] at hT ⊢
      rw [if_pos h8]
      exact cibfs2_spec Y F hF T N ℓ0 D b0 off m' t cf s hk hm hD hoff hN hs hT
    rw [if_neg h8] at hT ⊢
    rw [if_neg h8]
    have hD4 : 4 ≤ D := by
      by_contra hc
      have : D ≤ 3 := by omega
      have : 2 ^ D ≤ 2 ^ 3 := Nat.pow_le_pow_right (by omega) this
      rw [← hm] at this; omega
    by_cases hle : m' ≤ 2048
    · rw [if_pos hle] at hT ⊢
      rw [if_pos hle]
      exact cibfs16_spec Y F hF T N ℓ0 D b0 off m' t cf s hk hm hD4 hoff hN hs hT
    · rw [if_neg hle] at hT ⊢
      rw [if_neg hle]
      obtain ⟨D1, rfl⟩ : ∃ D1, D = D1 + 1 := ⟨D - 1, by omega⟩
      have hD1 : 1 ≤ D1 := by omega
      have hmm : m' = 2 * 2 ^ D1 := by rw [hm, pow_succ]; ring
      have hh : m' / 2 = 2 ^ D1 := by omega
      have hpw : m' * (1 + 4 * brev ℓ0 b0) / 2 = m' / 2 * (1 + 4 * brev ℓ0 b0) := by
        rw [hmm, Nat.mul_assoc, Nat.mul_div_cancel_left _ (by omega : 0 < 2),
          Nat.mul_div_cancel_left _ (by omega : 0 < 2)]
      have hpL : m' * (1 + 4 * brev ℓ0 b0) / 2 = m' / 2 * (1 + 4 * brev (ℓ0 + 1) (2 * b0)) := by
        rw [hpw, brev_even]
      have hpR : m' * (1 + 4 * brev ℓ0 b0) / 2 + 4 * 2 ^ Y.k / 2 = m' / 2 * (1 + 4 * brev (ℓ0 + 1) (2 * b0 + 1)) := by
        rw [hpw, brev_odd, hk, hh, pow_add, pow_succ]
        have : 4 * (2 ^ ℓ0 * (2 ^ D1 * 2)) / 2 = 4 * (2 ^ ℓ0 * 2 ^ D1) := by
          rw [show 4 * (2 ^ ℓ0 * (2 ^ D1 * 2)) = 2 * (4 * (2 ^ ℓ0 * 2 ^ D1)) by ring]
          exact Nat.mul_div_cancel_left _ (by omega)
        rw [this]; ring
      have hl2 : ∀ x, (List.map (val Y.c Y.s) (eM x)).length = 2 := fun x => by simp [eM]
      rw [List.map_append, List.map_append, List.map_append, hpR] at hT
      rw [hpR]
      -- left half
      have hTL := hT.left.left.left
      rw [hpL] at hTL
      have s1 := ih D1 (ℓ0 + 1) (2 * b0) off (m' / 2) t cf s (by omega) hh hD1 (by omega)
        (by rw [hoff, hh, hmm]; ring) (by omega) hs hTL
      obtain ⟨sA, tA, hst⟩ : ∃ sA tA, cirec16 F T f (m' / 2) off (s, t) = (sA, tA) := ⟨_, _, rfl⟩
      rw [hst] at s1
      simp only [hst]
      obtain ⟨a1, v1, p1⟩ := s1
      simp only at a1 v1 p1
      -- right half
      have hTR := hT.left.left.right
      rw [List.length_map, hpL, ← p1] at hTR
      have s2 := ih D1 (ℓ0 + 1) (2 * b0 + 1) (off + m' / 2) (m' / 2) tA cf sA (by omega) hh hD1 (by omega)
        (by rw [hoff, hh, hmm]; ring) (by omega) v1 hTR
      obtain ⟨sB, tB, hst2⟩ : ∃ sB tB, cirec16 F T f (m' / 2) (off + m' / 2) (sA, tA) = (sB, tB) := ⟨_, _, rfl⟩
      rw [hst2] at s2
      simp only [hst2]
      obtain ⟨a2, v2, p2⟩ := s2
      simp only at a2 v2 p2
      -- twiddle (stored twice)
      have hTW0 := hT.left.right
      rw [List.length_append, List.length_map, List.length_map, hpL, ← Nat.add_assoc, ← p1, ← p2] at hTW0
      have hTW1 := hT.right
      rw [List.length_append, List.length_append, List.length_map, List.length_map, hl2, hpL,
        show t + ((ciRec (4 * 2 ^ Y.k) f (m' / 2) (m' / 2 * (1 + 4 * brev (ℓ0 + 1) (2 * b0)))).length +
          (ciRec (4 * 2 ^ Y.k) f (m' / 2) (m' / 2 * (1 + 4 * brev (ℓ0 + 1) (2 * b0 + 1)))).length + 2)
          = t + (ciRec (4 * 2 ^ Y.k) f (m' / 2) (m' / 2 * (1 + 4 * brev (ℓ0 + 1) (2 * b0)))).length +
          (ciRec (4 * 2 ^ Y.k) f (m' / 2) (m' / 2 * (1 + 4 * brev (ℓ0 + 1) (2 * b0 + 1)))).length + 2 by ring,
        ← p1, ← p2] at hTW1
      have w0 := read_eM Y T _ _ hTW0
      have w1 := read_eM Y T _ _ hTW1
      rw [show tB + 2 + 1 = tB + 3 by ring] at w1
      have s3 := itwPassL_adv Y F.ctTop hF.ctTop F.lanesTop T tB N ℓ0 D1 b0 off (2 ^ D1 * cf) sB v2
        (by rw [hoff, hmm]) (by omega) (by rw [w0, brev_even, hh, twE]) (fun _ => by rw [w1, brev_even, hh, twE])
      rw [← hh] at s3
      refine ⟨?_, s3.2, ?_⟩
      · have b12 := (a1.par a2).of_eq rfl (show m' = m' / 2 + m' / 2 by omega)
        have b3 := IAdv.cast Y.ζ Y.a (s3.1.of_eq rfl (show m' = 2 * (m' / 2) by omega)) (2 ^ D1 * cf)
          (2 ^ (D1 + 1) * cf) (ℓ0 + 1) D1 ℓ0 (D1 + 1) rfl (by rw [pow_succ]; ring) rfl rfl rfl rfl
        exact b12.seq b3
      · simp only [List.length_append, eM, List.length_cons, List.length_nil, hpL]
        omega

/-- the inverse cplx transform of every size `2^k` -/
theorem cifftRI_adv (F : CFlav R) (hF : CInvOK Y.I F) (cf : R) (s : RI R) (hs : Valid (2 ^ Y.k) s) :
    IAdv Y.ζ Y.a (cxs Y.I s)
        (cxs Y.I (cifftRI F (2 ^ Y.k) (((cplxIfftEnts (2 ^ Y.k)).map (val Y.c Y.s)).toArray) s))
        cf (2 ^ Y.k * cf) Y.k 0 0 Y.k 0 (2 ^ Y.k) ∧
      Valid (2 ^ Y.k) (cifftRI F (2 ^ Y.k) (((cplxIfftEnts (2 ^ Y.k)).map (val Y.c Y.s)).toArray) s) := by
  have hb0 : 2 ^ Y.k * (1 + 4 * brev 0 0) = 2 ^ Y.k := by simp [brev]
  by_cases hk0 : Y.k = 0
  · rw [hk0] at hs ⊢
    simp only [cifftRI, pow_zero, Nat.le_refl, ↓reduceIte]
    exact ⟨IAdv_id Y _ _ _ _ _ _ _ _ _ (by ring) rfl rfl, hs⟩
  have h2 : 2 ≤ 2 ^ Y.k := by
    have : 2 ^ 1 ≤ 2 ^ Y.k := Nat.pow_le_pow_right (by omega) (by omega)
    simpa using this
  have hpos : 0 < 2 ^ Y.k := by omega
  obtain ⟨f, hf⟩ : ∃ f, 2 ^ Y.k = f + 1 := ⟨2 ^ Y.k - 1, by omega⟩
  have hE : cplxIfftEnts (2 ^ Y.k) = if 2 ^ Y.k ≤ 8 then ciBfs2 (4 * 2 ^ Y.k) (2 ^ Y.k) (2 ^ Y.k)
      else if 2 ^ Y.k ≤ 2048 then ciBfs16 (4 * 2 ^ Y.k) (2 ^ Y.k) (2 ^ Y.k)
      else ciRec (4 * 2 ^ Y.k) (2 ^ Y.k) (2 ^ Y.k) (2 ^ Y.k) := by
    unfold cplxIfftEnts
    by_cases h8 : 2 ^ Y.k ≤ 8
    · rw [if_pos h8]; conv_lhs => rw [hf, ciRec, ← hf, if_neg (show ¬ 2 ^ Y.k ≤ 1 by omega), if_pos h8]
    · rw [if_neg h8]
      by_cases hle : 2 ^ Y.k ≤ 2048
      · rw [if_pos hle]
        conv_lhs => rw [hf, ciRec, ← hf, if_neg (show ¬ 2 ^ Y.k ≤ 1 by omega), if_neg h8, if_pos hle]
      · rw [if_neg hle]
  unfold cifftRI
  rw [if_neg (show ¬ 2 ^ Y.k ≤ 1 by omega), hE]
  by_cases h8 : 2 ^ Y.k ≤ 8
  · rw [if_pos h8, if_pos h8]
    have hseg := Seg.of_toArray ((ciBfs2 (4 * 2 ^ Y.k) (2 ^ Y.k) (2 ^ Y.k)).map (val Y.c Y.s))
    have := cibfs2_spec Y F hF _ (2 ^ Y.k) 0 Y.k 0 0 (2 ^ Y.k) 0 cf s (by omega) rfl (by omega) (by ring) (by omega)
      hs (by rw [hb0]; exact hseg)
    exact ⟨this.1, this.2.1⟩
  rw [if_neg h8, if_neg h8]
  have hD4 : 4 ≤ Y.k := by
    by_contra hc
    have : Y.k ≤ 3 := by omega
    have : 2 ^ Y.k ≤ 2 ^ 3 := Nat.pow_le_pow_right (by omega) this
    omega
  by_cases hle : 2 ^ Y.k ≤ 2048
  · rw [if_pos hle, if_pos hle]
    have hseg := Seg.of_toArray ((ciBfs16 (4 * 2 ^ Y.k) (2 ^ Y.k) (2 ^ Y.k)).map (val Y.c Y.s))
    have := cibfs16_spec Y F hF _ (2 ^ Y.k) 0 Y.k 0 0 (2 ^ Y.k) 0 cf s (by omega) rfl hD4 (by ring) (by omega) hs
      (by rw [hb0]; exact hseg)
    exact ⟨this.1, this.2.1⟩
  · rw [if_neg hle, if_neg hle]
    have hseg := Seg.of_toArray ((ciRec (4 * 2 ^ Y.k) (2 ^ Y.k) (2 ^ Y.k) (2 ^ Y.k)).map (val Y.c Y.s))
    have := cirec16_spec Y F hF _ (2 ^ Y.k) (2 ^ Y.k) Y.k 0 0 0 (2 ^ Y.k) 0 cf s (by omega) rfl (by omega)
      (Nat.le_refl _) (by ring) (by omega) hs (by rw [hb0]; exact hseg)
    exact ⟨this.1, this.2.1⟩

end Spq.Fft.CplxInv
