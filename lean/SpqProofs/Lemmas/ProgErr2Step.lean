/-
  C16, binary64 side, products of products, step 11: ONE CALL.  Under its budget `PreM`, the binary64 step simulates the
  exact step and the metric invariant is re-established with the propagated budgets (`stepM_refines`); programs by
  induction (`runM_refines`).  No dataflow restriction: `vmp_apply_dft_to_dft` may read the output of `svp_apply_dft`,
  `vmp_apply_dft` or another `vmp_apply_dft_to_dft`.
-/
import SpqProofs.Lemmas.ProgErr2Lang
set_option linter.unusedSectionVars false
namespace Spq.ProgErr2
open Finset Spq Heap Spq.C08 Spq.Module Spq.FftErr Spq.F64 Spq.ProdErr Spq.VmpErr Spq.ProgErr Spq.Closed Spq.Prog
variable {K : Type} [Field K] [LinearOrder K] [IsStrictOrderedRing K] {hsz : ℕ} {vars : List Var}

/-- the invariant of the `VEC_ZNX_DFT` store after a call that writes `d` -/
theorem dvec_upd (M : F64Mod K) (a : AState) (β : Bud K) (s : CState ℕ) (d : DVar) (P0 : Val) (x0 : Array ℕ)
    (δn : ℕ → K) (r2 : ∀ v P, a.dvec v = some P → MetricRep M P v.size (s.dvec v) (β v))
    (h0 : MetricRep M P0 d.size x0 δn) (v : DVar) (P : Val) (hv : upd a.dvec d (some P0) v = some P) :
    MetricRep M P v.size (upd s.dvec d x0 v) (upd β d δn v) := by
  by_cases e : v = d
  · subst e
    rw [upd_same] at hv ⊢
    rw [upd_same]
    cases hv
    exact h0
  · rw [upd_other _ _ _ _ e] at hv ⊢
    rw [upd_other _ _ _ _ e]
    exact r2 v P hv

theorem stepM_refines (M : F64Mod K) (wf : WF M.N hsz vars) (o : OpD) (a : AState) (β : Bud K) (s : CState ℕ)
    (δn : ℕ → K) (hpre : PreM M vars o a β s δn) (hR : RM M hsz vars a β s) :
    RM M hsz vars (astepD M.N o a) (bstep o β δn) (cstepD M.parts M.N o s) := by
  obtain ⟨r1, r2, r3, r4⟩ := hR
  have hnn := M.nn
  cases o with
  | coeff op => exact ⟨C16.step_refines wf op a.env s.heap hpre r1, r2, r3, r4⟩
  | dft d x =>
    obtain ⟨hx, hδ0, hb⟩ := hpre
    have hag := flat_agree wf r1 x hx
    refine ⟨r1, fun v P hv => ?_, r3, r4⟩
    exact dvec_upd M a β s d _ _ δn r2 (dft_metric M _ x.size x.stride d.size _ hag δn hδ0 hb) v P hv
  | svpPrepare k x =>
    obtain ⟨hx, h0, hb⟩ := hpre
    refine ⟨r1, r2, fun j sp hj => ?_, r4⟩
    by_cases e : j = k
    · subst e
      simp only [astepD, cstepD, upd_same] at hj ⊢
      cases hj
      have := (dftOpsSound_f64 M).svp_prepare_exact _ _ (fun t ht => flat_limb0 wf r1 x hx h0 t ht) hb
      have this' : svpPrepare M.parts (limbOf (flat s.heap x) 0 x.stride M.N) =
          svpPrepare M.parts (spOf M (Array.ofFn (n := M.N) fun t => (a.env x).coef 0 t.val)) := this
      simpa [Prog.ext, h0] using this'
    · simp only [astepD, cstepD, upd_other _ _ _ _ e] at hj ⊢
      exact r3 j sp hj
  | svp d k x =>
    obtain ⟨hx, hδ0, sp, hk, hb⟩ := hpre
    have hag := flat_agree wf r1 x hx
    refine ⟨r1, fun v P hv => ?_, r3, r4⟩
    simp only [astepD, cstepD, bstep, hk, Option.getD_some] at hv ⊢
    rw [r3 k sp hk]
    refine dvec_upd M a β s d _ _ δn r2 ?_ v P hv
    refine MetricRep.congr (svp_metric M _ x.size x.stride d.size _ hag (spOf M sp) δn hδ0 hb) ?_
    intro i t hi ht
    rw [coef_mk _ _ _ _ _ hi ht, coef_mk _ _ _ _ _ hi ht]
    exact polyMul_congr _ _ _ _ _ (fun _ _ => rfl) (fun u hu => getD_polyArr _ _ _ hu) t ht
  | vmpPrepare m x =>
    obtain ⟨hx, hst, hsz', hb⟩ := hpre
    refine ⟨r1, r2, r3, fun j Mv hj => ?_⟩
    by_cases e : j = m
    · subst e
      simp only [astepD, cstepD, upd_same] at hj ⊢
      cases hj
      have ag := flat_agree wf r1 x hx
      rw [hst, hsz'] at ag
      have := vmpPrepare_matOf M _ j.nrows j.ncols _ ag
      have e2 : Val.mk M.N (j.nrows * j.ncols) (Prog.ext a.env x) =
          Val.mk M.N (j.nrows * j.ncols) (fun i t => (a.env x).coef i t) := by
        unfold Val.mk
        congr 1; funext i; congr 1; funext t
        have := i.isLt
        simp [Prog.ext, hsz', this]
      rw [e2]; exact this
    · simp only [astepD, cstepD, upd_other _ _ _ _ e] at hj ⊢
      exact r4 j Mv hj
  | vmp d x m =>
    obtain ⟨hx, hδ0, Mv, hm, hb⟩ := hpre
    have hag := flat_agree wf r1 x hx
    refine ⟨r1, fun v P hv => ?_, r3, r4⟩
    simp only [astepD, cstepD, bstep, hm, Option.getD_some] at hv ⊢
    rw [r4 m Mv hm]
    have hc := vmpApplyDft_canon M.parts d.size (vmpPrepare M.parts (matOf M Mv m.nrows m.ncols) m.nrows m.ncols)
      m.nrows m.ncols (agree_nn M hag)
    rw [hnn] at hc
    rw [hc]
    exact dvec_upd M a β s d _ _ δn r2 (vmp_metric M x.size d.size _ Mv m.nrows m.ncols δn hδ0 hb) v P hv
  | vmpDD d x m =>
    obtain ⟨-, hδ0, P, Mv, hP, hm, hb⟩ := hpre
    refine ⟨r1, fun v Q hv => ?_, r3, r4⟩
    simp only [astepD, cstepD, bstep, hP, hm, Option.getD_some] at hv ⊢
    rw [r4 m Mv hm]
    exact dvec_upd M a β s d _ _ δn r2
      (vmpDD_metric M P x.size d.size (s.dvec x) (β x) Mv m.nrows m.ncols (r2 x P hP) δn hδ0 hb) v Q hv
  | idft d x =>
    obtain ⟨hd, P, hP, hb⟩ := hpre
    refine ⟨?_, r2, r3, r4⟩
    have hres : InBounds M.N s.heap.mem.size d.off d.size d.stride :=
      r1.1 ▸ inBounds_of_wf wf d hd _ (Nat.le_refl _)
    obtain ⟨s1, s2, s3, s4⟩ := storeVec_spec (nn := M.N) s.heap d
      (Module.vecIdft M.parts d.size (s.dvec x) x.size) (wf.stride d hd) hres
    simp only [astepD, cstepD, hP, Option.getD_some]
    refine R_step wf a.env s.heap _ d hd _ r1 s1 s2 (fun i t hi ht => ?_) s4
    rw [s3 i t hi ht, idftM_read M P x.size d.size (s.dvec x) (β x) (r2 x P hP) hb i t hi ht]
  | smallProduct d x y =>
    obtain ⟨hd, hx, hy, hd1, hx0, hy0, hb⟩ := hpre
    refine ⟨?_, r2, r3, r4⟩
    have hres : InBounds M.N s.heap.mem.size d.off d.size d.stride :=
      r1.1 ▸ inBounds_of_wf wf d hd _ (Nat.le_refl _)
    obtain ⟨s1, s2, s3, s4⟩ := storeVec_spec (nn := M.N) s.heap d
      (Module.smallProduct M.parts (Module.limbOf (flat s.heap x) 0 x.stride M.N)
        (Module.limbOf (flat s.heap y) 0 y.stride M.N)) (wf.stride d hd) hres
    simp only [astepD, cstepD]
    refine R_step wf a.env s.heap _ d hd _ r1 s1 s2 (fun i t hi ht => ?_) s4
    have hi0 : i = 0 := by omega
    subst hi0
    rw [s3 0 t hi ht, Nat.zero_mul, Nat.zero_add,
      (dftOpsSound_f64 M).small_product_exact _ _ _ _ (fun t ht => flat_limb0 wf r1 x hx hx0 t ht)
        (fun t ht => flat_limb0 wf r1 y hy hy0 t ht) hb t ht]
    have ex : Prog.ext a.env x 0 = (a.env x).coef 0 := by funext t; exact ext_of_lt _ _ _ _ hx0
    have ey : Prog.ext a.env y 0 = (a.env y).coef 0 := by funext t; exact ext_of_lt _ _ _ _ hy0
    rw [ex, ey]

/-- programs: the binary64 run simulates the exact run, with SOME final budget map -/
theorem runM_refines (M : F64Mod K) (wf : WF M.N hsz vars) : ∀ (ops : List OpD) (a : AState) (β : Bud K) (s : CState ℕ),
    GuardedM M vars ops a β s → RM M hsz vars a β s →
    ∃ β', RM M hsz vars (run (astepD M.N) ops a) β' (run (cstepD M.parts M.N) ops s)
  | [], _, β, _, _, hR => ⟨β, hR⟩
  | o :: ops, a, β, s, hg, hR => by
    obtain ⟨δn, hpre, hrest⟩ := hg
    rw [run_cons, run_cons]
    exact runM_refines M wf ops _ _ _ hrest (stepM_refines M wf o a β s δn hpre hR)

end Spq.ProgErr2
