/-
  `reim_to_tnx_basic_ref`: `ri = x/d; r = ri - rint(ri)`.  The subtraction `y - rint(y)` is exact for every
  double `y`, so `r = x/d − n` exactly whenever the quotient `x/d` is exact (it is unless it underflows).
-/
import SpqProofs.Lemmas.ConvToTnx
import SpqProofs.Lemmas.ConvBnd63

namespace Spq.Conv
open Spq.F64

/-- a pattern with exponent field 0 or 1 packs to itself (no rounding at exponent -1074) -/
theorem decode_pack_at_min (neg : Bool) (M : Nat) (hM : M < 9007199254740992) :
    decode (pack neg M (-1074)) = ⟨neg, M, -1074⟩ := by
  by_cases hM0 : M = 0
  · subst hM0; rw [pack_zero]; exact decode_sgn neg
  rcases Nat.lt_or_ge M 4503599627370496 with hlt | hge
  · -- subnormal
    obtain ⟨len, hlen⟩ : ∃ len, M.log2 + 1 = len := ⟨_, rfl⟩
    have hb1 : 2 ^ M.log2 ≤ M := Nat.log2_self_le hM0
    have hlen52 : len ≤ 52 := by
      by_contra hc
      have : 2 ^ 52 ≤ 2 ^ M.log2 := Nat.pow_le_pow_right (by norm_num) (by omega)
      norm_num at this; omega
    have hsh : shiftOf M (-1074) = 0 := by
      rw [shiftOf_subnormal hlen (by omega)]; ring
    rw [pack_eq neg M (-1074) hM0, hsh]
    have : rneI M 0 = M := by unfold rneI; simp
    rw [this]
    exact decode_encode_subnormal neg M _ hlt
  · have := decode_pack_small neg M (-1074) 0 (by simpa using hge) (by simpa using hM) (by norm_num) (by norm_num)
    simpa using this

/-- `y - rint(y)` is computed exactly and lies in [-1/2, 1/2]: `r = y − n` with `n = rint(y)` an integer -/
theorem sub_rint_exact {y : Nat} (hy64 : y < 18446744073709551616) {s : Bool} {m : Nat} {e : Int}
    (hy : decode y = ⟨s, m, e⟩) (hm : m < 9007199254740992) (he0 : -1074 ≤ e) (he1 : e ≤ 971)
    (hnorm : -1074 < e → 4503599627370496 ≤ m) :
    ∃ n : Int, toScaled (F64.sub y (rint y)) = toScaled y - n * 2 ^ 1074 ∧
      2 * |toScaled (F64.sub y (rint y))| ≤ 2 ^ 1074 := by
  have hys : toScaled y = sI s m * 2 ^ ((e + 1074).toNat) := toScaled_of_decode' hy
  rcases Int.lt_or_le e 0 with hneg | hnn
  · -- fractional bits
    obtain ⟨kk, hkk⟩ : ∃ kk : Nat, (kk : Int) = -e := ⟨(-e).toNat, by omega⟩
    have hkk' : (-e).toNat = kk := by omega
    have hkpos : 0 < kk := by omega
    obtain ⟨a, ha⟩ : ∃ a : Nat, (a : Int) = e + 1074 := ⟨(e + 1074).toNat, by omega⟩
    have ha' : (e + 1074).toNat = a := by omega
    have hak : a + kk = 1074 := by omega
    have key : ∀ n, a + kk = n → (2 : Int) ^ n = 2 ^ kk * 2 ^ a := fun n hn => by
      rw [← hn, Nat.add_comm, pow_add]
    have h1074 := key 1074 hak
    rw [ha'] at hys
    have hrint := rint_of_decode_neg hy hneg
    rw [hkk'] at hrint
    obtain ⟨e1, e2⟩ := rne_err m kk
    by_cases hq0 : rne m kk = 0
    · -- rint y = ±0, result = y
      rw [hq0] at e1 e2
      have hr : rint y = sgn s := by rw [hrint, hq0]; rfl
      have hsg64 : sgn s < 18446744073709551616 := by cases s <;> simp [sgn]
      by_cases hm0 : m = 0
      · -- y = ±0 : the result is +0
        subst hm0
        have hz : sI s 0 = 0 := by cases s <;> simp [sI]
        have hsub0 : F64.sub y (sgn s) = sgn (s && !s) := by
          rw [sub_of_decode hsg64 hy (decode_sgn s), hz, zero_mul, zero_mul, sub_zero, packSigned_zero]
        have hval0 : toScaled (sgn (s && !s)) = 0 := by
          rw [toScaled_of_decode' (decode_sgn _)]
          cases s <;> simp [sI]
        refine ⟨0, ?_, ?_⟩
        · rw [hr, hsub0, hval0, hys, hz, zero_mul, zero_mul, sub_zero]
        · rw [hr, hsub0, hval0, abs_zero, mul_zero]; positivity
      have hsub : F64.sub y (sgn s) = pack s (m * 2 ^ a) (-1074) := by
        rw [sub_of_decode hsg64 hy (decode_sgn s)]
        have hmin : min e (-1074) = -1074 := by omega
        rw [hmin]
        have h1 : (e - -1074).toNat = a := by omega
        have h2 : ((-1074 : Int) - -1074).toNat = 0 := by omega
        rw [h1, h2]
        have hz : sI s 0 = 0 := by cases s <;> simp [sI]
        rw [hz, zero_mul, sub_zero]
        have h3 := sI_mul_nat s m (2 ^ a)
        push_cast at h3
        rw [h3, packSigned_sI s (m * 2 ^ a) (by positivity)]
      rw [hr, hsub]
      -- m·2^a < 2^53 : either a = 0, or m·2^a·2 ≤ 2^kk·2^a = 2^1074 … we only need representability:
      have hrepr : decode (pack s (m * 2 ^ a) (-1074)) = ⟨s, m, e⟩ ∨ a = 0 := by
        by_cases ha0 : a = 0
        · right; exact ha0
        · left
          have hen : -1074 < e := by omega
          have hmn := hnorm hen
          have := decode_pack_exact s m a (-1074) 0 (by simpa using hmn) (by simpa using hm) (by push_cast; omega) (by push_cast; omega)
          rw [this, pow_zero, Nat.mul_one]
          have e2 : (-1074 : Int) + (a : Int) - ((0 : Nat) : Int) = e := by push_cast; omega
          rw [e2]
      have hval : toScaled (pack s (m * 2 ^ a) (-1074)) = sI s m * 2 ^ a := by
        rcases hrepr with hd | ha0
        · rw [toScaled_of_decode' hd, ha']
        · subst ha0
          rw [pow_zero, Nat.mul_one, toScaled_of_decode' (decode_pack_at_min s m hm)]
          simp
      refine ⟨0, ?_, ?_⟩
      · rw [hval, hys, zero_mul, sub_zero]
      · rw [hval, abs_sI_mul _ _ _ (by positivity)]
        have h2' : 2 * ((m : Int)) ≤ 2 ^ kk := by
          have : 2 * m ≤ 2 * (0 * 2 ^ kk) + 2 ^ kk := e2
          rw [Nat.zero_mul, Nat.mul_zero, Nat.zero_add] at this
          exact_mod_cast this
        have hpa : (0 : Int) < 2 ^ a := by positivity
        rw [h1074]
        nlinarith
    · -- rint y = ±q, q ≥ 1
      obtain ⟨q, hq⟩ : ∃ q, q = rne m kk := ⟨_, rfl⟩
      rw [← hq] at hq0 e1 e2 hrint
      have hqb : (rne m kk == 0) = false := by rw [← hq]; simpa using hq0
      have hr : rint y = pack s q 0 := by
        rw [hrint]
        have : (q == 0) = false := by simpa using hq0
        simp only [this, Bool.false_eq_true, if_false]
      -- m ≥ 2^(kk-1), hence kk ≤ 53 and y is normal
      have hmlow : 2 ^ (kk - 1) ≤ m := by
        by_contra hc
        have := rne_small_of_lt m kk hkpos (by omega)
        omega
      have hkk53 : kk ≤ 53 := by
        by_contra hc
        have : 2 ^ 53 ≤ 2 ^ (kk - 1) := Nat.pow_le_pow_right (by norm_num) (by omega)
        norm_num at this; omega
      have hmn : 4503599627370496 ≤ m := hnorm (by omega)
      have hqle : q ≤ 4503599627370496 := by
        rw [hq]; apply rne_le
        have : 2 * 1 ≤ 2 ^ kk := by
          calc 2 * 1 = 2 ^ 1 := by norm_num
            _ ≤ 2 ^ kk := Nat.pow_le_pow_right (by norm_num) hkpos
        nlinarith
      -- q·2^kk ≥ 2^52, so the normalising shift of q is at most kk
      obtain ⟨k'', hk'', hn1, hn2⟩ := exists_norm_shift hq0 (by omega)
      have hdq := decode_pack_small s q 0 k'' hn1 hn2 (by omega) (by omega)
      have hqk : 4503599627370496 ≤ q * 2 ^ kk := by
        have hP : 0 < 2 ^ kk := by positivity
        by_cases hk52 : kk ≤ 52
        · have hfl : m / 2 ^ kk ≤ q := by
            have hc := rne_cases m kk
            rw [← hq] at hc
            rcases hc with h | h <;> omega
          have h1 : 4503599627370496 / 2 ^ kk ≤ m / 2 ^ kk := Nat.div_le_div_right hmn
          have h2 : 4503599627370496 / 2 ^ kk * 2 ^ kk = 4503599627370496 := by
            have : (4503599627370496 : Nat) = 2 ^ (52 - kk) * 2 ^ kk := by
              rw [← pow_add]; have : 52 - kk + kk = 52 := by omega
              rw [this]; norm_num
            rw [this, Nat.mul_div_cancel _ hP]
          calc 4503599627370496 = 4503599627370496 / 2 ^ kk * 2 ^ kk := h2.symm
            _ ≤ q * 2 ^ kk := Nat.mul_le_mul_right _ (le_trans h1 hfl)
        · have hk53 : kk = 53 := by omega
          subst hk53
          have : 1 * 2 ^ 53 ≤ q * 2 ^ 53 := Nat.mul_le_mul_right _ (by omega)
          norm_num at this ⊢
          omega
      have hk''le : k'' ≤ kk := by
        by_contra hc
        have : 2 ^ (kk + 1) ≤ 2 ^ k'' := Nat.pow_le_pow_right (by norm_num) (by omega)
        have h3 : q * 2 ^ (kk + 1) ≤ q * 2 ^ k'' := Nat.mul_le_mul_left _ this
        rw [pow_succ, ← mul_assoc] at h3
        omega
      have hr64 : pack s q 0 < 18446744073709551616 := by
        rw [pack_small s q 0 k'' hn1 hn2 (by omega), encode_normal s _ _ hn1 hn2 (by omega)]
        rcases sgn_cases s with ⟨_, h⟩ | ⟨_, h⟩ <;> rw [h] <;> omega
      rw [hr, sub_of_decode hr64 hy hdq]
      have hmin : min e ((0 : Int) - k'') = e := by omega
      rw [hmin]
      have h1 : (e - e).toNat = 0 := by omega
      have h2 : ((0 : Int) - k'' - e).toNat = kk - k'' := by omega
      rw [h1, h2, pow_zero, mul_one]
      have h3 := sI_mul_nat s (q * 2 ^ k'') (2 ^ (kk - k''))
      push_cast at h3
      have h4 : q * 2 ^ k'' * 2 ^ (kk - k'') = q * 2 ^ kk := by
        rw [mul_assoc, ← pow_add]; congr 2; omega
      have h3' : sI s (q * 2 ^ k'') * (2 : Int) ^ (kk - k'') = sI s (q * 2 ^ kk) := by
        have := sI_mul_nat s (q * 2 ^ k'') (2 ^ (kk - k''))
        rw [h4] at this
        push_cast at this ⊢
        exact this
      rw [h3']
      -- the exact difference
      obtain ⟨v, hv⟩ : ∃ v : Int, v = sI s m - sI s (q * 2 ^ kk) := ⟨_, rfl⟩
      rw [← hv]
      have e1' : 2 * ((q : Int) * 2 ^ kk) ≤ 2 * m + 2 ^ kk := by exact_mod_cast e1
      have e2' : 2 * (m : Int) ≤ 2 * ((q : Int) * 2 ^ kk) + 2 ^ kk := by exact_mod_cast e2
      have hP53 : (2 : Int) ^ kk ≤ 9007199254740992 := by
        have : (2 : Nat) ^ kk ≤ 2 ^ 53 := Nat.pow_le_pow_right (by norm_num) hkk53
        norm_num at this
        exact_mod_cast this
      have hvabs : 2 * |v| ≤ 2 ^ kk := by
        rw [hv]
        have := sI_mul_sub s m (q * 2 ^ kk) 1 1
        simp only [mul_one] at this
        rw [this]; push_cast
        rcases abs_cases ((m : Int) - (q : Int) * 2 ^ kk) with ⟨h, _⟩ | ⟨h, _⟩ <;> rw [h] <;> linarith
      have hvnat : v.natAbs < 9007199254740992 := by
        have : |v| < 9007199254740992 := by linarith [abs_nonneg v]
        rw [Int.abs_eq_natAbs] at this
        exact_mod_cast this
      rw [toScaled_packSigned_exact v e _ hvnat (by omega) (by omega), ha']
      refine ⟨sI s q, ?_, ?_⟩
      · rw [hys, hv]
        have h5 := sI_mul_nat s q (2 ^ kk)
        push_cast at h5
        rw [h1074, ← h5]; ring
      · have hpa : (0 : Int) < 2 ^ a := by positivity
        rw [abs_mul, abs_of_pos hpa]
        rw [h1074, ← mul_assoc]
        exact mul_le_mul_of_nonneg_right hvabs (le_of_lt hpa)
  · -- y is an integer: rint y = y, y - y = +0
    rw [rint_of_decode_nonneg hy hnn, sub_of_decode hy64 hy hy]
    simp only [min_self, sub_self, Int.toNat_zero, pow_zero, mul_one]
    rw [packSigned_zero]
    have hz : toScaled (sgn (s && !s)) = 0 := by
      rw [toScaled_of_decode' (decode_sgn _)]
      cases s <;> simp [sI]
    rw [hz]
    refine ⟨sI s m * 2 ^ e.toNat, ?_, ?_⟩
    · rw [hys]
      have : (e + 1074).toNat = e.toNat + 1074 := by omega
      rw [this, pow_add]
      generalize (2 : Int) ^ 1074 = P
      ring
    · rw [abs_zero, mul_zero]; positivity

/-- `reim_to_tnx_basic_ref`, one lane, when the quotient `x/d` does not underflow (`x = 0` or `|x/d| ≥ 2^-1022`) and
    `|x/d| < 2^1000`: `r = x/d − n` *exactly* for an integer `n`, and `|r| ≤ 1/2`
    (`rs·ds = (xs − n·ds)·2^1074` on the values scaled by 2^1074). -/
theorem toTnxBasicLane_spec (j : Int) (hj1 : -1022 ≤ j) (hj2 : j ≤ 1023) (x : Nat)
    (hnz : toScaled x = 0 ∨ toScaled (pow2 j) ≤ |toScaled x| * 2 ^ 1022)
    (hup : |toScaled x| < 2 ^ 1000 * toScaled (pow2 j)) :
    ∃ n : Int, toScaled (toTnxBasicLane (pow2 j) x) * toScaled (pow2 j) = (toScaled x - n * toScaled (pow2 j)) * 2 ^ 1074 ∧
      2 * |toScaled (toTnxBasicLane (pow2 j) x)| ≤ 2 ^ 1074 := by
  obtain ⟨sx, mx, ex, hx, hmx, he0, he1⟩ := exists_decode x
  have hd := decode_pow2 j hj1 hj2
  obtain ⟨a, ha⟩ : ∃ a : Nat, (a : Int) = ex + 1074 := ⟨(ex + 1074).toNat, by omega⟩
  obtain ⟨b, hb⟩ : ∃ b : Nat, (b : Int) = j + 1074 := ⟨(j + 1074).toNat, by omega⟩
  have hxs : toScaled x = sI sx mx * 2 ^ a := by
    rw [toScaled_of_decode' hx]; congr 2; omega
  have hds : toScaled (pow2 j) = 2 ^ b := by
    rw [toScaled_pow2 j hj1 hj2]; congr 1; omega
  unfold toTnxBasicLane
  simp only []
  by_cases hm0 : mx = 0
  · -- x = ±0: the quotient is ±0
    subst hm0
    have hri : F64.div x (pow2 j) = sgn sx := by
      unfold F64.div
      simp only [hx, hd]
      have h1 : ((4503599627370496 : Nat) == 0) = false := by rfl
      have hs : (sx != false) = sx := by cases sx <;> rfl
      rw [h1, hs]
      simp only [Bool.false_eq_true, if_false, beq_self_eq_true, if_true]
      rfl
    rw [hri]
    have hsg64 : sgn sx < 18446744073709551616 := by cases sx <;> simp [sgn]
    obtain ⟨n, hn1, hn2⟩ := sub_rint_exact hsg64 (decode_sgn sx) (by norm_num) (by norm_num) (by norm_num) (by intro h; omega)
    refine ⟨n, ?_, hn2⟩
    have hz : toScaled (sgn sx) = 0 := by
      rw [toScaled_of_decode' (decode_sgn _)]; cases sx <;> simp [sI]
    have hxz : toScaled x = 0 := by rw [hxs]; cases sx <;> simp [sI]
    rw [hn1, hz, hxz]
    generalize (2 : Int) ^ 1074 = P
    ring
  · obtain ⟨k, hk, hn1, hn2⟩ := exists_norm_shift hm0 hmx
    have hri : F64.div x (pow2 j) = pack sx (mx * 2 ^ 59) (ex - (j - 52) - 111) := div_pow2_of_decode hx hd hm0
    have hPa : (0 : Int) < 2 ^ a := by positivity
    have hPb : (0 : Int) < 2 ^ b := by positivity
    -- bounds on the exponent of the quotient from the two magnitude hypotheses
    have hxabs : |toScaled x| = (mx : Int) * 2 ^ a := by rw [hxs, abs_sI_mul _ _ _ (le_of_lt hPa)]
    have hmk1 : ((mx * 2 ^ k : Nat) : Int) = (mx : Int) * 2 ^ k := by push_cast; rfl
    have hEy0 : -1074 ≤ ex - j - k := by
      rcases hnz with h0 | hge
      · exfalso
        rw [hxs] at h0
        have : sI sx mx ≠ 0 := by
          cases sx <;> simp [sI] <;> omega
        rcases mul_eq_zero.1 h0 with h | h
        · exact this h
        · exact absurd h (ne_of_gt hPa)
      · by_contra hc
        -- then mx·2^a·2^1022 < 2^b
        rw [hds, hxabs] at hge
        have hc' : a + k + 1 ≤ b := by omega
        have h1 : (mx : Int) * 2 ^ k < 9007199254740992 := by exact_mod_cast hn2
        have h2 : (2 : Int) ^ b * 2 ^ k ≤ (mx : Int) * 2 ^ a * 2 ^ 1022 * 2 ^ k :=
          mul_le_mul_of_nonneg_right hge (by positivity)
        have h3 : (mx : Int) * 2 ^ a * 2 ^ 1022 * 2 ^ k = ((mx : Int) * 2 ^ k) * 2 ^ (a + 1022) := by
          rw [pow_add]
          generalize (2 : Int) ^ 1022 = P
          ring
        have h4 : ((mx : Int) * 2 ^ k) * 2 ^ (a + 1022) < 9007199254740992 * 2 ^ (a + 1022) :=
          mul_lt_mul_of_pos_right h1 (by positivity)
        have h5 : (9007199254740992 : Int) * 2 ^ (a + 1022) = 2 ^ (a + 1075) := by
          have : (9007199254740992 : Int) = 2 ^ 53 := by norm_num
          have e2 : 53 + (a + 1022) = a + 1075 := by omega
          rw [this, ← pow_add, e2]
        have h6 : (2 : Int) ^ (a + 1075) ≤ 2 ^ (b + k) := by
          apply pow_le_pow_right₀ (by norm_num); omega
        have h7 : (2 : Int) ^ b * 2 ^ k = 2 ^ (b + k) := by rw [pow_add]
        rw [h3, h7] at h2
        rw [h5] at h4
        exact absurd (lt_of_le_of_lt h2 (lt_of_lt_of_le h4 h6)) (lt_irrefl _)
    have hEy1 : ex - j - k ≤ 971 := by
      by_contra hc
      rw [hds, hxabs] at hup
      have hc' : b + k + 972 ≤ a := by omega
      have h1 : (4503599627370496 : Int) ≤ (mx : Int) * 2 ^ k := by exact_mod_cast hn1
      have h2 : (mx : Int) * 2 ^ a * 2 ^ k < 2 ^ 1000 * 2 ^ b * 2 ^ k := mul_lt_mul_of_pos_right hup (by positivity)
      have h3 : (mx : Int) * 2 ^ a * 2 ^ k = ((mx : Int) * 2 ^ k) * 2 ^ a := by ring
      have h4 : (4503599627370496 : Int) * 2 ^ a ≤ ((mx : Int) * 2 ^ k) * 2 ^ a := mul_le_mul_of_nonneg_right h1 (le_of_lt hPa)
      have h5 : (2 : Int) ^ 1000 * 2 ^ b * 2 ^ k = 2 ^ (1000 + b + k) := by rw [pow_add, pow_add]
      have h6 : (4503599627370496 : Int) * 2 ^ a = 2 ^ (52 + a) := by
        have : (4503599627370496 : Int) = 2 ^ 52 := by norm_num
        rw [this, ← pow_add]
      have h7 : (2 : Int) ^ (1000 + b + k) ≤ 2 ^ (52 + a) := by
        apply pow_le_pow_right₀ (by norm_num); omega
      rw [h3] at h2; rw [h5] at h2; rw [h6] at h4
      exact absurd (lt_of_le_of_lt h4 (lt_of_lt_of_le h2 h7)) (lt_irrefl _)
    have hdri := decode_pack_exact sx mx 59 (ex - (j - 52) - 111) k hn1 hn2 (by push_cast; omega) (by push_cast; omega)
    have hEy : ex - (j - 52) - 111 + ((59 : Nat) : Int) - (k : Int) = ex - j - k := by push_cast; omega
    rw [hEy] at hdri
    have hri64 : pack sx (mx * 2 ^ 59) (ex - (j - 52) - 111) < 18446744073709551616 := by
      rw [pack_exact_pattern sx mx 59 (ex - (j - 52) - 111) k hn1 hn2 (by push_cast; omega) (by push_cast; omega)]
      unfold normPat
      rcases sgn_cases sx with ⟨_, h⟩ | ⟨_, h⟩ <;> rw [h] <;> omega
    rw [hri]
    obtain ⟨n, hn1', hn2'⟩ := sub_rint_exact hri64 hdri hn2 hEy0 hEy1 (fun _ => hn1)
    refine ⟨n, ?_, hn2'⟩
    rw [hn1', toScaled_of_decode' hdri, hxs, hds]
    obtain ⟨c, hc⟩ : ∃ c : Nat, (c : Int) = ex - j - k + 1074 := ⟨(ex - j - k + 1074).toNat, by omega⟩
    have hc' : (ex - j - k + 1074).toNat = c := by omega
    rw [hc']
    have h3 := sI_mul_nat sx mx (2 ^ k)
    push_cast at h3
    rw [← h3]
    have key : ∀ n1, k + c + b = a + n1 → (2 : Int) ^ k * 2 ^ c * 2 ^ b = 2 ^ a * 2 ^ n1 := fun n1 h => by
      rw [← pow_add, ← pow_add, ← pow_add, h]
    have hk1074 := key 1074 (by omega)
    have : sI sx mx * 2 ^ k * 2 ^ c * 2 ^ b = sI sx mx * (2 ^ k * 2 ^ c * 2 ^ b) := by ring
    rw [sub_mul, this, hk1074]
    generalize (2 : Int) ^ 1074 = P
    ring

end Spq.Conv
