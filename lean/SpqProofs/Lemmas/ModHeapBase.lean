/-
  Base lemmas for the heap-level module model (`Spq.ModuleHeap`): frames, read-after-write, the
  specification of every kernel call, range loops with an invariant.
-/
import SpqProofs.Lemmas.Heap
import SpqProofs.Lemmas.ModuleArr
import Spq.ModuleHeap
namespace Spq.ModuleHeap
open Spq Heap Module Reim4
variable {γ α : Type}

/-- `x` lies in the `n` cells starting at `p` -/
def In (p n x : Nat) : Prop := p ≤ x ∧ x < p + n

/-- `g` is `h` except possibly for the cells in `W`: same arena size, same `ok` flag -/
structure Fr (W : Nat → Prop) (h g : Heap γ) : Prop where
  size : g.mem.size = h.mem.size
  ok : g.ok = h.ok
  out : ∀ x, ¬ W x → g.mem[x]? = h.mem[x]?

theorem Fr.refl (W : Nat → Prop) (h : Heap γ) : Fr W h h := ⟨rfl, rfl, fun _ _ => rfl⟩

theorem Fr.trans {W W' : Nat → Prop} {h g k : Heap γ} (a : Fr W h g) (b : Fr W' g k) :
    Fr (fun x => W x ∨ W' x) h k :=
  ⟨b.size.trans a.size, b.ok.trans a.ok, fun x hx => by
    rw [b.out x (fun q => hx (Or.inr q)), a.out x (fun q => hx (Or.inl q))]⟩

theorem Fr.mono {W W' : Nat → Prop} {h g : Heap γ} (a : Fr W h g) (hw : ∀ x, W x → W' x) : Fr W' h g :=
  ⟨a.size, a.ok, fun x hx => a.out x (fun q => hx (hw x q))⟩

/-- two steps inside the same window -/
theorem Fr.trans' {W : Nat → Prop} {h g k : Heap γ} (a : Fr W h g) (b : Fr W g k) : Fr W h k :=
  (a.trans b).mono (fun _ q => q.elim id id)

/-! ### reading -/

theorem readLimb_of_fr {W : Nat → Prop} {h g : Heap γ} (f : Fr W h g) (d : γ) (p n : Nat)
    (hd : ∀ x, In p n x → ¬ W x) : g.readLimb d p n = h.readLimb d p n :=
  readLimb_congr g h d p n (fun x h1 h2 => f.out x (hd x ⟨h1, h2⟩))

theorem readLimb_eq_extract (h : Heap γ) (d : γ) (p n : Nat) (hb : p + n ≤ h.mem.size) :
    h.readLimb d p n = h.mem.extract p (p + n) := by
  apply Array.ext
  · simp; omega
  · intro i h1 h2
    simp only [size_readLimb] at h1
    simp only [readLimb, Array.getElem_ofFn, Array.getElem_extract, Array.getD_eq_getD_getElem?]
    rw [Array.getElem?_eq_getElem (by omega)]; rfl

/-- a sub-window of a read -/
theorem readLimb_extract (h : Heap γ) (d : γ) (p n i k : Nat) (hk : i + k ≤ n) :
    (h.readLimb d p n).extract i (i + k) = h.readLimb d (p + i) k := by
  apply Array.ext
  · simp; omega
  · intro j h1 h2
    simp only [size_readLimb] at h2
    simp only [readLimb, Array.getElem_extract, Array.getElem_ofFn]
    congr 1; omega

theorem readLimb_writeLimb_same (h : Heap γ) (d : γ) (off : Nat) (l : Array γ) (hb : off + l.size ≤ h.mem.size) :
    (h.writeLimb off l).readLimb d off l.size = l := by
  apply Array.ext
  · simp
  · intro i h1 h2
    simp only [readLimb, Array.getElem_ofFn, writeLimb, Array.getD_eq_getD_getElem?]
    rw [getElem?_writeArr_of_in _ _ _ _ h2 hb, Array.getElem?_eq_getElem h2]; rfl

theorem fr_writeLimb (h : Heap γ) (off : Nat) (l : Array γ) (hb : off + l.size ≤ h.mem.size) :
    Fr (In off l.size) h (h.writeLimb off l) := by
  refine ⟨by simp [writeLimb], by simp [writeLimb, hb], ?_⟩
  intro x hx
  simp only [writeLimb]
  apply getElem?_writeArr_of_out
  unfold In at hx; omega

/-- a heap that differs from `h` in the `ok` flag only, the flag being unchanged under the side conditions -/
theorem wr_spec (h h1 : Heap γ) (d : γ) (p n : Nat) (l : Array γ) (hm : h1.mem = h.mem) (ho : h1.ok = h.ok)
    (hl : l.size = n) (hb : p + n ≤ h.mem.size) :
    Fr (In p n) h (h1.writeLimb p l) ∧ (h1.writeLimb p l).readLimb d p n = l := by
  subst hl
  have e : h1 = h := by cases h1; cases h; simp_all
  subst e
  exact ⟨fr_writeLimb _ p l hb, readLimb_writeLimb_same _ d p l hb⟩

@[simp] theorem tch_mem (off n : Nat) (h : Heap γ) : (tch off n h).mem = h.mem := rfl
@[simp] theorem guard_mem (b : Bool) (h : Heap γ) : (guard b h).mem = h.mem := rfl
@[simp] theorem scr_mem (tb rel n : Nat) (h : Heap γ) : (scr tb rel n h).mem = h.mem := rfl
theorem tch_ok (off n : Nat) (h : Heap γ) (hb : off + n ≤ h.mem.size) : (tch off n h).ok = h.ok := by
  simp [tch, touch, hb]
theorem guard_ok (b : Bool) (h : Heap γ) (hb : b = true) : (guard b h).ok = h.ok := by
  simp [guard, hb]
theorem scr_ok (tb rel n : Nat) (h : Heap γ) (hb : 8 * (rel + n) ≤ tb) : (scr tb rel n h).ok = h.ok := by
  simp [scr, guard, hb]

theorem fr_scr (tb rel n : Nat) (h : Heap γ) (hb : 8 * (rel + n) ≤ tb) : Fr (fun _ => False) h (scr tb rel n h) :=
  ⟨rfl, scr_ok tb rel n h hb, fun _ _ => rfl⟩

theorem scr_eq (tb rel n : Nat) (h : Heap γ) (hb : 8 * (rel + n) ≤ tb) : scr tb rel n h = h := by
  cases h; simp [scr, guard, hb]

theorem disj_of (p np q nq : Nat) (h : p + np ≤ q ∨ q + nq ≤ p) : disj p np q nq = true := by
  simp [disj]; omega
theorem sameOrDisj_same (p n : Nat) : sameOrDisj p p n = true := by simp [sameOrDisj]
theorem sameOrDisj_of (p q n : Nat) (h : p + n ≤ q ∨ q + n ≤ p) : sameOrDisj p q n = true := by
  simp [sameOrDisj, disj]; omega

/-! ### typed reads and writes -/

@[simp] theorem size_rdD (cd : Cells γ α) (h : Heap γ) (p n : Nat) : (rdD cd h p n).size = n := by simp [rdD]
@[simp] theorem size_rdI (cd : Cells γ α) (h : Heap γ) (p n : Nat) : (rdI cd h p n).size = n := by simp [rdI]

theorem rdD_of_fr {W : Nat → Prop} {h g : Heap γ} (f : Fr W h g) (cd : Cells γ α) (p n : Nat)
    (hd : ∀ x, In p n x → ¬ W x) : rdD cd g p n = rdD cd h p n := by
  unfold rdD; rw [readLimb_of_fr f _ p n hd]
theorem rdI_of_fr {W : Nat → Prop} {h g : Heap γ} (f : Fr W h g) (cd : Cells γ α) (p n : Nat)
    (hd : ∀ x, In p n x → ¬ W x) : rdI cd g p n = rdI cd h p n := by
  unfold rdI; rw [readLimb_of_fr f _ p n hd]

/-- the codec law the in-place steps rely on: a stored DFT-space value is read back unchanged -/
def RoundTrip (cd : Cells γ α) : Prop := ∀ x, cd.dec (cd.enc x) = x

theorem map_dec_enc (cd : Cells γ α) (hr : RoundTrip cd) (x : Array α) : (x.map cd.enc).map cd.dec = x := by
  rw [Array.map_map]
  have : cd.dec ∘ cd.enc = id := funext hr
  rw [this, Array.map_id]

/-- reading as DFT-space values what a kernel has just stored -/
theorem rdD_of_cells (cd : Cells γ α) (hr : RoundTrip cd) (g : Heap γ) (p n : Nat) (v : Array α)
    (hc : g.readLimb cd.dflt p n = v.map cd.enc) : rdD cd g p n = v := by
  unfold rdD; rw [hc, map_dec_enc cd hr]

/-! ### range loops -/

theorem loop_inv (P : Nat → Heap γ → Prop) (n : Nat) (body : Nat → Heap γ → Heap γ) (h : Heap γ)
    (h0 : P 0 h) (hs : ∀ i g, i < n → P i g → P (i + 1) (body i g)) : P n (loop n body h) :=
  foldl_range_inv P (fun h i => body i h) n h h0 hs

theorem loop_zero (body : Nat → Heap γ → Heap γ) (h : Heap γ) : loop 0 body h = h := rfl

end Spq.ModuleHeap
