/-
  Out-of-place rotation and (X^p-1) product: the models equal the closed coefficient formulas.
-/
import SpqProofs.Lemmas.CoeffsBasic
namespace Spq.Rq
open Spq
variable {α : Type}

/-- signed exponent `(k - p) mod 2N` from which coefficient `k` of `X^p·a` is read -/
def rotSrc (nn : Nat) (p : Int) (k : Nat) : Nat := (((k : Int) - p) % (2 * nn : Nat)).toNat

theorem rotSrc_lt (nn : Nat) (hn : 0 < nn) (p : Int) (k : Nat) : rotSrc nn p k < 2 * nn := by
  unfold rotSrc
  have := Int.emod_lt_of_pos ((k : Int) - p) (show (0 : Int) < (2 * nn : Nat) by omega)
  have := Int.emod_nonneg ((k : Int) - p) (show ((2 * nn : Nat) : Int) ≠ 0 by omega)
  omega

/-- the closed formula in terms of the signed read -/
theorem rotCoeff_eq_sget (o : Ops α) (nn : Nat) (hn : 0 < nn) (p : Int) (a : Array α) (k : Nat) :
    rotCoeff o nn p a k = sget o nn a (rotSrc nn p k) := by
  unfold rotCoeff sget rotSrc
  have f := emod_facts ((k : Int) - p) (nn : Int) (by omega)
  have e2 : ((2 * nn : Nat) : Int) = 2 * (nn : Int) := by push_cast; ring
  rw [e2]
  obtain ⟨f1, f2, f3, f4, f5⟩ := f
  simp only []
  by_cases c : (((k : Int) - p) % (2 * (nn : Int))).toNat < nn
  · simp only [c, if_true]
    congr 1
    omega
  · simp only [c, if_false]
    congr 2
    omega

theorem rotSrc_eq (nn : Nat) (hn : 0 < nn) (p : Int) (k : Nat) :
    rotSrc nn p k = (k + negMask p (2 * nn)) % (2 * nn) := by
  unfold rotSrc negMask
  have hm : 0 < 2 * nn := by omega
  generalize 2 * nn = m at *
  have hpos : (0 : Int) < (m : Int) := by omega
  have a0 := Int.emod_nonneg (-p) (show (m : Int) ≠ 0 by omega)
  have e : ((k : Int) - p) % (m : Int) = ((k : Int) + (-p) % (m : Int)) % (m : Int) := by
    rw [Int.add_emod_emod]; congr 1
  rw [e]
  have : ((k : Int) + (-p) % (m : Int)) = (((k + ((-p) % (m : Int)).toNat : Nat)) : Int) := by
    rw [Int.natCast_add, Int.toNat_of_nonneg a0]
  rw [this, ← Int.natCast_mod, Int.toNat_natCast]

theorem rotate_size (o : Ops α) (nn : Nat) (p : Int) (inp : Array α) :
    (Coeffs.rotate o nn p inp).size = nn := by simp [Coeffs.rotate]

theorem mulXp_size (o : Ops α) (nn : Nat) (p : Int) (inp : Array α) :
    (Coeffs.mulXpMinusOne o nn p inp).size = nn := by simp [Coeffs.mulXpMinusOne]

theorem negMask_lt (p : Int) (m : Nat) (hm : 0 < m) : negMask p m < m := by
  unfold negMask
  have := Int.emod_lt_of_pos (-p) (show (0 : Int) < m by omega)
  have := Int.emod_nonneg (-p) (show (m : Int) ≠ 0 by omega)
  omega

theorem posMask_lt (p : Int) (m : Nat) (hm : 0 < m) : posMask p m < m := by
  unfold posMask
  have := Int.emod_lt_of_pos p (show (0 : Int) < m by omega)
  have := Int.emod_nonneg p (show (m : Int) ≠ 0 by omega)
  omega

theorem mod_two_mul_cases (x nn : Nat) (h : x < 3 * nn) :
    x % (2 * nn) = if x < 2 * nn then x else x - 2 * nn := by
  split
  · exact Nat.mod_eq_of_lt (by assumption)
  · rw [Nat.mod_eq_sub_mod (by omega)]; exact Nat.mod_eq_of_lt (by omega)

theorem rotate_getElem (o : Ops α) (nn : Nat) (p : Int) (inp : Array α) (k : Nat) (hk : k < nn) :
    (Coeffs.rotate o nn p inp)[k]'(by rw [rotate_size]; exact hk) = sget o nn inp (rotSrc nn p k) := by
  have hn : 0 < nn := by omega
  rw [rotSrc_eq nn hn]
  simp only [Coeffs.rotate, Array.getElem_ofFn, sget]
  have ha := negMask_lt p (2 * nn) (by omega)
  generalize negMask p (2 * nn) = a at ha
  rw [mod_two_mul_cases _ _ (by omega)]
  by_cases c1 : a < nn
  · by_cases c2 : k < nn - a
    · have c3 : k + a < 2 * nn := by omega
      have c4 : k + a < nn := by omega
      simp only [c1, c2, c3, c4, if_true]
    · have c3 : k + a < 2 * nn := by omega
      have c4 : ¬ k + a < nn := by omega
      simp only [c1, c2, c3, c4, if_true, if_false]
      congr 2; omega
  · by_cases c2 : k < nn - (a - nn)
    · have c3 : k + a < 2 * nn := by omega
      have c4 : ¬ k + a < nn := by omega
      simp only [c1, c2, c3, c4, if_true, if_false]
      congr 2; omega
    · have c3 : ¬ k + a < 2 * nn := by omega
      have c4 : k + a - 2 * nn < nn := by omega
      simp only [c1, c2, c3, c4, if_true, if_false]
      congr 1; omega

theorem mulXp_getElem (o : Ops α) (nn : Nat) (p : Int) (inp : Array α) (k : Nat) (hk : k < nn) :
    (Coeffs.mulXpMinusOne o nn p inp)[k]'(by rw [mulXp_size]; exact hk) =
      o.sub (sget o nn inp (rotSrc nn p k)) (inp.getD k o.zero) := by
  have hn : 0 < nn := by omega
  rw [rotSrc_eq nn hn]
  simp only [Coeffs.mulXpMinusOne, Array.getElem_ofFn, sget]
  have ha := negMask_lt p (2 * nn) (by omega)
  generalize negMask p (2 * nn) = a at ha
  rw [mod_two_mul_cases _ _ (by omega)]
  by_cases c1 : a < nn
  · by_cases c2 : k < nn - a
    · have c3 : k + a < 2 * nn := by omega
      have c4 : k + a < nn := by omega
      simp only [c1, c2, c3, c4, if_true]
    · have c3 : k + a < 2 * nn := by omega
      have c4 : ¬ k + a < nn := by omega
      simp only [c1, c2, c3, c4, if_true, if_false]
      congr 3; omega
  · by_cases c2 : k < nn - (a - nn)
    · have c3 : k + a < 2 * nn := by omega
      have c4 : ¬ k + a < nn := by omega
      simp only [c1, c2, c3, c4, if_true, if_false]
      congr 3; omega
    · have c3 : ¬ k + a < 2 * nn := by omega
      have c4 : k + a - 2 * nn < nn := by omega
      simp only [c1, c2, c3, c4, if_true, if_false]
      congr 2; omega

theorem rotate_getD (o : Ops α) (nn : Nat) (p : Int) (inp : Array α) (k : Nat) (hk : k < nn) (z : α) :
    (Coeffs.rotate o nn p inp).getD k z = sget o nn inp (rotSrc nn p k) := by
  have h : k < (Coeffs.rotate o nn p inp).size := by rw [rotate_size]; exact hk
  rw [Array.getD_eq_getD_getElem?, Array.getElem?_eq_getElem h, Option.getD_some, rotate_getElem o nn p inp k hk]

theorem mulXp_getD (o : Ops α) (nn : Nat) (p : Int) (inp : Array α) (k : Nat) (hk : k < nn) (z : α) :
    (Coeffs.mulXpMinusOne o nn p inp).getD k z =
      o.sub (sget o nn inp (rotSrc nn p k)) (inp.getD k o.zero) := by
  have h : k < (Coeffs.mulXpMinusOne o nn p inp).size := by rw [mulXp_size]; exact hk
  rw [Array.getD_eq_getD_getElem?, Array.getElem?_eq_getElem h, Option.getD_some, mulXp_getElem o nn p inp k hk]

end Spq.Rq
