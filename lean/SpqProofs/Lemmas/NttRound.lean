/-
  Consequences of the refinement for one lane, symbolic metadata: round trip `intt (ntt x) ≡ x (mod q)` and
  linearity mod q, stated on residues (`% q`).
-/
import SpqProofs.Lemmas.NttRefine

namespace Spq.Q120Ntt

theorem cast_one_of_mod {q a : Nat} (hq : 1 < q) (h : a % q = 1) : ((a : Nat) : ZMod q) = 1 := by
  have : ((a : Nat) : ZMod q) = ((1 : Nat) : ZMod q) := cast_of_mod_eq (by rw [h, Nat.mod_eq_of_lt hq])
  simpa using this

theorem mod_eq_of_cast {q a b : Nat} (h : ((a : Nat) : ZMod q) = ((b : Nat) : ZMod q)) : a % q = b % q :=
  (ZMod.natCast_eq_natCast_iff' a b q).1 h

/-- **round trip of one lane** (symbolic metadata): if the certificate accepts the forward and the inverse
    metadata for any 64-bit input, the forward outputs are 64-bit words, and the roots satisfy
    `omega * omega^-1 = 1`, `n * n^-1 = 1 (mod q)`, then `intt (ntt x) ≡ x (mod q)` cell by cell. -/
theorem roundtrip_lane (q Ω k : Nat) (hq : 1 < q) (hk : k ≠ 0)
    (levF levI : Array Level) (RF RI : Reduc) (BF BI : Nat)
    (hcF : certOK q RF (fwdDescs k levF) W64 = some BF) (hBF : BF ≤ W64)
    (hcI : certOK q RI (invDescs k levI) W64 = some BI)
    (hroot : (omegaN q Ω k * modqPow (omegaN q Ω k) (-1) q) % q = 1)
    (hninv : (2 ^ k % q * modqPow (2 ^ k) (-1) q) % q = 1)
    (x : Array Nat) (hx : x.size = 2 ^ k) (hlt : ∀ i < 2 ^ k, rd x i < W64) :
    ∀ i < 2 ^ k,
      rd (inttLane k levI RI (tableInv q Ω k levI) (nttLane k levF RF (tableFwd q Ω k levF) x)) i % q
        = rd x i % q := by
  intro i hi
  obtain ⟨f1, _, f3⟩ := nttLane_refines q Ω k hq hk levF RF BF hcF x hx hlt
  obtain ⟨_, _, i3⟩ := inttLane_refines q Ω k hq hk levI RI BI hcI _ f1
    (fun t ht => lt_of_lt_of_le (f3 t ht).1 hBF)
  apply mod_eq_of_cast
  rw [(i3 i hi).2]
  have hwv : ((omegaN q Ω k : Nat) : ZMod q) * ((modqPow (omegaN q Ω k) (-1) q : Nat) : ZMod q) = 1 := by
    rw [← Nat.cast_mul]; exact cast_one_of_mod hq hroot
  have hn : (2 : ZMod q) ^ k * ((modqPow (2 ^ k) (-1) q : Nat) : ZMod q) = 1 := by
    have := cast_one_of_mod hq hninv
    rw [Nat.cast_mul, ZMod.natCast_mod, Nat.cast_pow] at this
    simpa using this
  have hcongr : ∀ t < 2 ^ k,
      (fun j => ((rd (nttLane k levF RF (tableFwd q Ω k levF) x) j : Nat) : ZMod q)) t
        = exNtt ((omegaN q Ω k : Nat) : ZMod q) k (fun j => ((rd x j : Nat) : ZMod q)) t :=
    fun t ht => (f3 t ht).2
  -- the inverse exact transform only reads cells < n
  have := exAll_congr (2 ^ k)
    (invLSteps k levI (tableInv q Ω k levI) ((modqPow (omegaN q Ω k) (-1) q : Nat) : ZMod q)
      ((modqPow (2 ^ k) (-1) q : Nat) : ZMod q))
    (dvd_of_mem_invLSteps k levI _ _ _) _ _ hcongr i hi
  rw [exAll_invLSteps, exAll_invLSteps] at this
  rw [this, exIntt_exNtt _ _ _ k hwv hn]

/-! ### linearity -/

theorem exFwdAll_add {K : Type} [CommRing K] (ls : List (Nat × (Nat → K))) (g g' : Nat → K) :
    exFwdAll ls (fun j => g j + g' j) = fun i => exFwdAll ls g i + exFwdAll ls g' i := by
  induction ls generalizing g g' with
  | nil => rfl
  | cons s ls ih =>
    simp only [exFwdAll]
    rw [show exFwd s.1 s.2 (fun j => g j + g' j) = fun i => exFwd s.1 s.2 g i + exFwd s.1 s.2 g' i from
      funext fun i => exL_add .fwd s.1 s.2 g g' i]
    exact ih _ _

theorem exFwdAll_smul {K : Type} [CommRing K] (ls : List (Nat × (Nat → K))) (c : K) (g : Nat → K) :
    exFwdAll ls (fun j => c * g j) = fun i => c * exFwdAll ls g i := by
  induction ls generalizing g with
  | nil => rfl
  | cons s ls ih =>
    simp only [exFwdAll]
    rw [show exFwd s.1 s.2 (fun j => c * g j) = fun i => c * exFwd s.1 s.2 g i from
      funext fun i => exL_smul .fwd s.1 s.2 c g i]
    exact ih _

theorem exNtt_add {q : Nat} (w : ZMod q) (k : Nat) (g g' : Nat → ZMod q) (i : Nat) :
    exNtt w k (fun j => g j + g' j) i = exNtt w k g i + exNtt w k g' i := by
  unfold exNtt
  rw [show exTwist (fun i => w ^ i) (fun j => g j + g' j)
      = fun i => exTwist (fun i => w ^ i) g i + exTwist (fun i => w ^ i) g' i from
    funext fun i => exL_add (.twist false) 0 _ g g' i, exFwdAll_add]

theorem exNtt_smul {q : Nat} (w : ZMod q) (k : Nat) (c : ZMod q) (g : Nat → ZMod q) (i : Nat) :
    exNtt w k (fun j => c * g j) i = c * exNtt w k g i := by
  unfold exNtt
  rw [show exTwist (fun i => w ^ i) (fun j => c * g j) = fun i => c * exTwist (fun i => w ^ i) g i from
    funext fun i => exL_smul (.twist false) 0 _ c g i, exFwdAll_smul]

/-- the exact transform only reads cells `< 2^k` to produce cells `< 2^k` -/
theorem exNtt_congr {q : Nat} (w : ZMod q) (k : Nat) (g g' : Nat → ZMod q) (h : ∀ i < 2 ^ k, g i = g' i) :
    ∀ i < 2 ^ k, exNtt w k g i = exNtt w k g' i := by
  intro i hi
  have := exAll_congr (2 ^ k) (fwdLSteps k #[] #[] w) (dvd_of_mem_fwdLSteps k _ _ _) g g' h i hi
  rwa [exAll_fwdLSteps, exAll_fwdLSteps] at this

/-- **linearity of one lane mod q** (symbolic metadata): if `z ≡ a*x + y (mod q)` cell by cell then
    `ntt z ≡ a * ntt x + ntt y (mod q)` cell by cell -/
theorem linear_lane (q Ω k : Nat) (hq : 1 < q) (hk : k ≠ 0) (lev : Array Level) (R : Reduc) (B' : Nat)
    (hc : certOK q R (fwdDescs k lev) W64 = some B')
    (a : Nat) (x y z : Array Nat) (hx : x.size = 2 ^ k) (hy : y.size = 2 ^ k) (hz : z.size = 2 ^ k)
    (hxl : ∀ i < 2 ^ k, rd x i < W64) (hyl : ∀ i < 2 ^ k, rd y i < W64) (hzl : ∀ i < 2 ^ k, rd z i < W64)
    (hlin : ∀ i < 2 ^ k, rd z i % q = (a * rd x i + rd y i) % q) :
    ∀ i < 2 ^ k,
      rd (nttLane k lev R (tableFwd q Ω k lev) z) i % q
        = (a * rd (nttLane k lev R (tableFwd q Ω k lev) x) i + rd (nttLane k lev R (tableFwd q Ω k lev) y) i) % q := by
  intro i hi
  obtain ⟨_, _, fx⟩ := nttLane_refines q Ω k hq hk lev R B' hc x hx hxl
  obtain ⟨_, _, fy⟩ := nttLane_refines q Ω k hq hk lev R B' hc y hy hyl
  obtain ⟨_, _, fz⟩ := nttLane_refines q Ω k hq hk lev R B' hc z hz hzl
  apply mod_eq_of_cast
  rw [Nat.cast_add, Nat.cast_mul, (fz i hi).2, (fx i hi).2, (fy i hi).2, ← exNtt_smul, ← exNtt_add]
  apply exNtt_congr _ k _ _ _ i hi
  intro t ht
  have := cast_of_mod_eq (hlin t ht)
  simpa using this

end Spq.Q120Ntt
