/-
  C06.4, structural level layer for the INVERSE network: `VNI k g y n p` = cell `p` after `n` inverse levels
  (blocks of size `2^n`), block `b` of step `n` running the arbitrary butterfly function `g (k-1-n) n b`.
-/
import SpqProofs.Lemmas.FftErrSchedLevel
namespace Spq.Fft.LevelN
open Spq.Fft Spq.Fft.Alg Spq.Fft.View

variable {β : Type}

/-- the inverse level network with per-block butterflies; `g` is indexed like the forward one: `(ℓ, d, b)` with
`ℓ = k − 1 − n`, `d = n` -/
def VNI (k : ℕ) (g : ℕ → ℕ → ℕ → β → β → β × β) (y : ℕ → β) : ℕ → ℕ → β
  | 0, p => y p
  | n + 1, p =>
    if p % (2 * 2 ^ n) < 2 ^ n then
      (g (k - 1 - n) n (p / (2 * 2 ^ n)) (VNI k g y n p) (VNI k g y n (p + 2 ^ n))).1
    else (g (k - 1 - n) n (p / (2 * 2 ^ n)) (VNI k g y n (p - 2 ^ n)) (VNI k g y n p)).2

variable (k : ℕ) (g : ℕ → ℕ → ℕ → β → β → β × β) (y : ℕ → β)

/-- advance a block of the inverse network from step `d` to step `d'` -/
abbrev AdvI (x x' : ℕ → β) (d d' off sz : ℕ) : Prop := AdvG (VNI k g y d) (VNI k g y d') x x' off sz

theorem AdvI.cast {x x' : ℕ → β} {d d' off sz : ℕ} (h : AdvI k g y x x' d d' off sz) (d1 d1' : ℕ) (e1 : d1 = d)
    (e2 : d1' = d') : AdvI k g y x x' d1 d1' off sz := by subst e1 e2; exact h

/-- a pass of `2^d` butterflies that ARE the inverse butterfly of block `b` at step `d` -/
theorem AdvI.tw (x : ℕ → β) (ℓ d b off : ℕ) (hℓ : ℓ = k - 1 - d) (hoff : off = 2 * 2 ^ d * b) (φ ψ : β → β → β)
    (hq : Bq φ ψ (g ℓ d b)) : AdvI k g y x (twG φ ψ (2 ^ d) off x) d (d + 1) off (2 * 2 ^ d) := by
  subst hℓ
  constructor
  · intro hx p hp hp'
    obtain ⟨h, hh⟩ : ∃ h, h = 2 ^ d := ⟨_, rfl⟩
    have hpos : 0 < h := by rw [hh]; exact Nat.two_pow_pos d
    rw [← hh] at hp' hoff hx ⊢
    have hb : p / (2 * h) = b := by
      rw [show p = 2 * h * b + (p - off) by omega]; exact mul_add_div' _ _ _ (by omega)
    have hr : p % (2 * h) = p - off := by
      rw [show p = 2 * h * b + (p - off) by omega]
      rw [show 2 * h * b + (p - off) - off = p - off by omega]
      exact mul_add_mod' _ _ _ (by omega)
    rw [VNI]
    simp only [← hh, hb, hr]
    by_cases hlt : p - off < h
    · rw [if_pos hlt, twG_lo _ _ _ _ _ _ (by omega), (hq _ _).1, hx p hp (by omega), hx (p + h) (by omega) (by omega)]
    · rw [if_neg hlt, twG_hi _ _ _ _ _ _ (by omega), (hq _ _).2, hx p hp (by omega), hx (p - h) (by omega) (by omega)]
  · intro p hp
    exact twG_out _ _ _ _ _ _ (by omega)

/-- inverse radix-4 pass: blocks `2b`, `2b+1` of step `d`, then block `b` of step `d+1` -/
theorem AdvI.bw (x : ℕ → β) (ℓ d b off h : ℕ) (hℓ : ℓ + d + 2 = k) (hh : h = 2 ^ d) (hoff : off = 4 * h * b)
    (φ0 ψ0 φ0' ψ0' φ1 ψ1 : β → β → β) (h0 : Bq φ0 ψ0 (g (ℓ + 1) d (2 * b)))
    (h0' : Bq φ0' ψ0' (g (ℓ + 1) d (2 * b + 1))) (h1 : Bq φ1 ψ1 (g ℓ (d + 1) b)) :
    AdvI k g y x (twG φ1 ψ1 (2 * h) off (twG φ0' ψ0' h (off + 2 * h) (twG φ0 ψ0 h off x))) d (d + 2) off (4 * h) := by
  have e2 : 2 ^ (d + 1) = 2 * h := by rw [pow_succ, hh]; ring
  have t1 := AdvI.tw k g y x (ℓ + 1) d (2 * b) off (by omega) (by rw [← hh, hoff]; ring) φ0 ψ0 h0
  rw [← hh] at t1
  have t2 := AdvI.tw k g y (twG φ0 ψ0 h off x) (ℓ + 1) d (2 * b + 1) (off + 2 * h) (by omega)
    (by rw [← hh, hoff]; ring) φ0' ψ0' h0'
  rw [← hh] at t2
  have t3 := AdvI.tw k g y (twG φ0' ψ0' h (off + 2 * h) (twG φ0 ψ0 h off x)) ℓ (d + 1) b off (by omega)
    (by rw [e2, hoff]; ring) φ1 ψ1 h1
  rw [e2] at t3
  exact (((t1.par t2).of_eq rfl (show 4 * h = 2 * h + 2 * h by ring)).seq
    (t3.of_eq rfl (show 4 * h = 2 * (2 * h) by ring)))

/-- the inverse 16-point leaf (block `b` of level `ℓ`, `ℓ + 4 = k`): steps 0..3 -/
theorem AdvI.leaf (x : ℕ → β) (ℓ b off : ℕ) (hℓ : ℓ + 4 = k) (hoff : off = 16 * b)
    (Φ Φ' : ℕ → (β → β → β) × (β → β → β))
    (h0 : ∀ q, q < 4 → Bq (Φ q).1 (Φ q).2 (g (ℓ + 3) 0 (8 * b + 2 * q)))
    (h0' : ∀ q, q < 4 → Bq (Φ' q).1 (Φ' q).2 (g (ℓ + 3) 0 (8 * b + 2 * q + 1)))
    (h4 : Bq (Φ 4).1 (Φ 4).2 (g (ℓ + 2) 1 (4 * b))) (h4' : Bq (Φ' 4).1 (Φ' 4).2 (g (ℓ + 2) 1 (4 * b + 1)))
    (h5 : Bq (Φ 5).1 (Φ 5).2 (g (ℓ + 2) 1 (4 * b + 2))) (h5' : Bq (Φ' 5).1 (Φ' 5).2 (g (ℓ + 2) 1 (4 * b + 3)))
    (h6 : Bq (Φ 6).1 (Φ 6).2 (g (ℓ + 1) 2 (2 * b))) (h6' : Bq (Φ' 6).1 (Φ' 6).2 (g (ℓ + 1) 2 (2 * b + 1)))
    (h7 : Bq (Φ 7).1 (Φ 7).2 (g ℓ 3 b)) :
    AdvI k g y x (ifft16V Φ Φ' off x) 0 4 off 16 := by
  unfold ifft16V
  simp only
  have s4 := AdvG.iter (VNI k g y 0) (VNI k g y (0 + 1))
    (fun q x => twG (Φ' q).1 (Φ' q).2 1 (off + 4 * q + 2) (twG (Φ q).1 (Φ q).2 1 (off + 4 * q) x)) off 4 4
    (fun q z hq => by
      have t1 := AdvI.tw k g y z (ℓ + 3) 0 (8 * b + 2 * q) (off + q * 4) (by omega) (by omega) _ _ (h0 q hq)
      have t2 := AdvI.tw k g y (twG (Φ q).1 (Φ q).2 (2 ^ 0) (off + q * 4) z) (ℓ + 3) 0 (8 * b + 2 * q + 1)
        (off + q * 4 + 2 * 2 ^ 0) (by omega) (by omega) _ _ (h0' q hq)
      have := t1.par t2
      have e1 : off + q * 4 = off + 4 * q := by omega
      have e2 : off + q * 4 + 2 * 2 ^ 0 = off + 4 * q + 2 := by omega
      rw [e2, e1] at this
      exact this.of_eq (by omega) (by norm_num)) x
  obtain ⟨x1, hx1⟩ : ∃ x1, x1 = iterFrom (fun q x => twG (Φ' q).1 (Φ' q).2 1 (off + 4 * q + 2)
    (twG (Φ q).1 (Φ q).2 1 (off + 4 * q) x)) 4 0 x := ⟨_, rfl⟩
  rw [← hx1] at s4 ⊢
  have s3a := AdvI.tw k g y x1 (ℓ + 2) 1 (4 * b) off (by omega) (by omega) _ _ h4
  have s3b := AdvI.tw k g y (twG (Φ 4).1 (Φ 4).2 2 off x1) (ℓ + 2) 1 (4 * b + 1) (off + 4) (by omega) (by omega) _ _ h4'
  have s3c := AdvI.tw k g y (twG (Φ' 4).1 (Φ' 4).2 2 (off + 4) (twG (Φ 4).1 (Φ 4).2 2 off x1)) (ℓ + 2) 1 (4 * b + 2)
    (off + 8) (by omega) (by omega) _ _ h5
  have s3d := AdvI.tw k g y (twG (Φ 5).1 (Φ 5).2 2 (off + 8) (twG (Φ' 4).1 (Φ' 4).2 2 (off + 4)
    (twG (Φ 4).1 (Φ 4).2 2 off x1))) (ℓ + 2) 1 (4 * b + 3) (off + 12) (by omega) (by omega) _ _ h5'
  have s3 := ((s3a.par s3b).par (s3c.of_eq (by omega) rfl)).par (s3d.of_eq (by omega) rfl)
  obtain ⟨x2, hx2⟩ : ∃ x2, x2 = twG (Φ' 5).1 (Φ' 5).2 2 (off + 12) (twG (Φ 5).1 (Φ 5).2 2 (off + 8)
    (twG (Φ' 4).1 (Φ' 4).2 2 (off + 4) (twG (Φ 4).1 (Φ 4).2 2 off x1))) := ⟨_, rfl⟩
  rw [← hx2]
  have s3' : AdvI k g y x1 x2 1 2 off 16 := by rw [hx2]; exact s3
  have s2a := AdvI.tw k g y x2 (ℓ + 1) 2 (2 * b) off (by omega) (by omega) _ _ h6
  have s2b := AdvI.tw k g y (twG (Φ 6).1 (Φ 6).2 4 off x2) (ℓ + 1) 2 (2 * b + 1) (off + 8) (by omega) (by omega) _ _ h6'
  have s2 := s2a.par s2b
  have s1 := AdvI.tw k g y (twG (Φ' 6).1 (Φ' 6).2 4 (off + 8) (twG (Φ 6).1 (Φ 6).2 4 off x2)) ℓ 3 b off (by omega)
    (by omega) _ _ h7
  exact ((AdvG.seq s4 s3').seq s2).seq s1

end Spq.Fft.LevelN
