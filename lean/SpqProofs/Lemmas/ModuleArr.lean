/-
  Array lemmas for the module-level pipelines: `extract`, `writeAt`, range folds with an invariant,
  and "block writes at pairwise distinct slots".
-/
import Spq.Module
import SpqProofs.Lemmas.Reim4Layout
namespace Spq.Module
open Spq
variable {α : Type}

theorem getD_extract (a : Array α) (s e i : Nat) (z : α) :
    (a.extract s e).getD i z = if s + i < e then a.getD (s + i) z else z := by
  simp only [Array.getD_eq_getD_getElem?, Array.getElem?_extract]
  by_cases h : s + i < e
  · rw [if_pos h]
    by_cases h2 : s + i < a.size
    · rw [if_pos (by omega)]
    · rw [if_neg (by omega), Array.getElem?_eq_none (by omega)]
  · rw [if_neg h, if_neg (by omega)]; rfl

theorem size_extract_of_le (a : Array α) (s n : Nat) (h : s + n ≤ a.size) : (a.extract s (s + n)).size = n := by
  simp; omega

/-! ### `writeAt` -/

theorem writeAt_spec (dst : Array α) (off : Nat) (src : Array α) (z : α) :
    (writeAt dst off src).size = dst.size ∧
    ∀ x, (writeAt dst off src).getD x z =
      if off ≤ x ∧ x < off + src.size ∧ x < dst.size then src.getD (x - off) z else dst.getD x z := by
  unfold writeAt
  suffices H : ∀ n (hn : n ≤ src.size),
      (Nat.fold n (fun i h d => d.setIfInBounds (off + i) (src[i]'(by omega))) dst).size = dst.size ∧
      ∀ x, (Nat.fold n (fun i h d => d.setIfInBounds (off + i) (src[i]'(by omega))) dst).getD x z =
        if off ≤ x ∧ x < off + n ∧ x < dst.size then src.getD (x - off) z else dst.getD x z from
    H src.size (Nat.le_refl _)
  intro n
  induction n with
  | zero =>
    intro _
    refine ⟨rfl, fun x => ?_⟩
    rw [if_neg (by omega)]; rfl
  | succ n ih =>
    intro hn
    obtain ⟨i1, i2⟩ := ih (by omega)
    rw [Nat.fold_succ]
    refine ⟨by rw [Array.size_setIfInBounds, i1], fun x => ?_⟩
    rw [getD_setIfInBounds, i1, i2 x]
    by_cases hx : off + n = x
    · subst hx
      by_cases hb : off + n < dst.size
      · rw [if_pos ⟨rfl, hb⟩, if_pos (by omega)]
        have e : off + n - off = n := by omega
        rw [e, Array.getD_eq_getD_getElem?, Array.getElem?_eq_getElem (by omega)]; rfl
      · rw [if_neg (by omega), if_neg (by omega), if_neg (by omega)]
    · rw [if_neg (by omega)]
      by_cases hc : off ≤ x ∧ x < off + n ∧ x < dst.size
      · rw [if_pos hc, if_pos (by omega)]
      · rw [if_neg hc, if_neg (by omega)]

@[simp] theorem size_writeAt (dst : Array α) (off : Nat) (src : Array α) : (writeAt dst off src).size = dst.size := by
  unfold writeAt
  suffices H : ∀ n (hn : n ≤ src.size),
      (Nat.fold n (fun i h d => d.setIfInBounds (off + i) (src[i]'(by omega))) dst).size = dst.size from
    H src.size (Nat.le_refl _)
  intro n
  induction n with
  | zero => intro _; rfl
  | succ n ih => intro hn; rw [Nat.fold_succ, Array.size_setIfInBounds, ih (by omega)]

theorem getD_writeAt_in (dst : Array α) (off : Nat) (src : Array α) (z : α) (k : Nat)
    (hk : k < src.size) (hb : off + src.size ≤ dst.size) : (writeAt dst off src).getD (off + k) z = src.getD k z := by
  rw [(writeAt_spec dst off src z).2, if_pos (by omega)]
  congr 1; omega

theorem getD_writeAt_out (dst : Array α) (off : Nat) (src : Array α) (z : α) (x : Nat)
    (hx : x < off ∨ off + src.size ≤ x) : (writeAt dst off src).getD x z = dst.getD x z := by
  rw [(writeAt_spec dst off src z).2, if_neg (by omega)]

/-! ### range folds -/

theorem foldl_range_inv {β : Type} (P : Nat → β → Prop) (f : β → Nat → β) (n : Nat) (b : β)
    (h0 : P 0 b) (hs : ∀ i b, i < n → P i b → P (i + 1) (f b i)) : P n ((List.range n).foldl f b) := by
  induction n with
  | zero => exact h0
  | succ n ih =>
    rw [List.range_succ, List.foldl_append]
    exact hs n _ (by omega) (ih (fun i b hi => hs i b (by omega)))

/-! ### block writes at pairwise distinct slots -/

/-- after some of the `w`-cell blocks `val i` have been written at `w * slot i` (those with `done i`),
    each of them can be read back -/
def SlotInv {ι : Type} (w total : Nat) (z : α) (slot : ι → Nat) (val : ι → Array α) (dom done : ι → Prop)
    (pm : Array α) : Prop :=
  pm.size = total ∧ ∀ i, dom i → done i → ∀ k, k < w → pm.getD (w * slot i + k) z = (val i).getD k z

theorem SlotInv.mono {ι : Type} {w total : Nat} {z : α} {slot : ι → Nat} {val : ι → Array α} {dom done done' : ι → Prop}
    {pm : Array α} (h : SlotInv w total z slot val dom done pm) (hd : ∀ i, dom i → done' i → done i) :
    SlotInv w total z slot val dom done' pm :=
  ⟨h.1, fun i di d k hk => h.2 i di (hd i di d) k hk⟩

theorem SlotInv.step {ι : Type} {w total : Nat} {z : α} {slot : ι → Nat} {val : ι → Array α} {dom done : ι → Prop}
    {pm : Array α} (j : ι) (h : SlotInv w total z slot val dom done pm)
    (hinj : ∀ i, dom i → slot i = slot j → i = j) (hb : w * slot j + w ≤ total) (hv : (val j).size = w) :
    SlotInv w total z slot val dom (fun i => done i ∨ i = j) (writeAt pm (w * slot j) (val j)) := by
  obtain ⟨h1, h2⟩ := h
  refine ⟨by rw [size_writeAt, h1], ?_⟩
  intro i di d k hk
  by_cases e : i = j
  · subst e
    exact getD_writeAt_in pm (w * slot i) (val i) z k (by omega) (by omega)
  · have hd : done i := by
      rcases d with d | d
      · exact d
      · exact absurd d e
    have hne : slot i ≠ slot j := fun q => e (hinj i di q)
    rw [getD_writeAt_out _ _ _ _ _ ?_]
    · exact h2 i di hd k hk
    · rw [hv]
      rcases Nat.lt_or_gt_of_ne hne with q | q
      · left
        have : w * (slot i + 1) ≤ w * slot j := Nat.mul_le_mul_left w q
        rw [Nat.mul_add, Nat.mul_one] at this
        omega
      · right
        have : w * (slot j + 1) ≤ w * slot i := Nat.mul_le_mul_left w q
        rw [Nat.mul_add, Nat.mul_one] at this
        omega

end Spq.Module
