/-
  complex double → torus32 (`cplx_to_tnx32_ref`, `cplx_to_tnx32_avx2_fma`) at lane level.
-/
import SpqProofs.Lemmas.ConvToTnx

namespace Spq.Conv
open Spq.F64

/-! ### bit flip of the top bit of a 32-bit word -/

theorem xor_two_pow_hi (n a lo : Nat) (hlo : lo < 2 ^ n) :
    (2 ^ n * a + lo) ^^^ 2 ^ n = 2 ^ n * (a ^^^ 1) + lo := by
  apply Nat.eq_of_testBit_eq
  intro i
  rw [Nat.testBit_xor, Nat.testBit_two_pow_mul_add _ hlo, Nat.testBit_two_pow_mul_add _ hlo, Nat.testBit_two_pow]
  by_cases hi : i < n
  · have : ¬ n = i := by omega
    simp [hi, this]
  · simp only [hi, if_false]
    rw [Nat.testBit_xor]
    congr 1
    rcases Nat.eq_zero_or_pos (i - n) with h0 | hpos
    · have : n = i := by omega
      simp [this]
    · have : ¬ n = i := by omega
      have h1 : (1 : Nat).testBit (i - n) = false :=
        Bool.eq_false_iff.mpr (fun h => by
          have := Nat.testBit_one_eq_true_iff_self_eq_zero.mp h
          omega)
      simp [this, h1]

/-- `(v ^ 0x80000000)` on a 32-bit word is `v + 2^31 (mod 2^32)` -/
theorem xor_top32 (v : Nat) (hv : v < 4294967296) : v ^^^ 2147483648 = (v + 2147483648) % 4294967296 := by
  have h31 : (2 : Nat) ^ 31 = 2147483648 := by norm_num
  have hsplit : v = 2 ^ 31 * (v / 2147483648) + v % 2147483648 := by rw [h31]; omega
  have hlo : v % 2147483648 < 2 ^ 31 := by rw [h31]; omega
  have := xor_two_pow_hi 31 (v / 2147483648) (v % 2147483648) hlo
  rw [← hsplit, h31] at this
  rw [this]
  have ha : v / 2147483648 = 0 ∨ v / 2147483648 = 1 := by omega
  rcases ha with h | h <;> rw [h] <;> simp <;> omega

/-! ### constants -/

/-- `0.5 + (double)(3<<19)` -/
theorem tnx32_C0_eq : add D_HALF (ofInt 1572864) = 4699506213308596224 := by decide +kernel
/-- `(double)(1<<32)` -/
theorem d2p32_eq : ofInt 4294967296 = 4751297606875873280 := by decide +kernel

theorem decode_tnx32_C0 : decode 4699506213308596224 = ⟨false, 6755401588539392, -32⟩ := by
  have := decode_pos_pattern 1043 2251801961168896 (by norm_num) (by norm_num) (by norm_num)
  simpa using this

theorem decode_d2p32 : decode 4751297606875873280 = ⟨false, 4503599627370496, -20⟩ := by
  have := decode_pos_pattern 1055 0 (by norm_num) (by norm_num) (by norm_num)
  simpa using this

/-- `R = (0.5 + 3·2^19) * divisor`, exactly -/
theorem decode_toTnx32R (j : Int) (hj1 : -1022 ≤ j) (hj2 : j ≤ 900) :
    decode (toTnx32R (pow2 j)) = ⟨false, 6755401588539392, j - 32⟩ := by
  unfold toTnx32R
  rw [tnx32_C0_eq, mul_of_decode decode_tnx32_C0 (decode_pow2 j hj1 (by omega))]
  have hpw : (4503599627370496 : Nat) = 2 ^ 52 := by norm_num
  rw [hpw]
  have := decode_pack_exact (false != false) 6755401588539392 52 (-32 + (j - 52)) 0
    (by norm_num) (by norm_num) (by push_cast; omega) (by push_cast; omega)
  rw [this, pow_zero, Nat.mul_one]
  have e2 : (-32 : Int) + (j - 52) + ((52 : Nat) : Int) - ((0 : Nat) : Int) = j - 32 := by push_cast; omega
  rw [e2]; rfl

/-- `factor = 2^32 / divisor`, exactly -/
theorem decode_toTnx32Factor (j : Int) (hj1 : -990 ≤ j) (hj2 : j ≤ 1000) :
    decode (toTnx32Factor (pow2 j)) = ⟨false, 4503599627370496, -20 - j⟩ := by
  unfold toTnx32Factor
  rw [d2p32_eq, div_pow2_of_decode decode_d2p32 (decode_pow2 j (by omega) (by omega)) (by norm_num)]
  have hpw : (4503599627370496 : Nat) = 2 ^ 52 := by norm_num
  have := decode_pack_exact false 4503599627370496 59 (-20 - (j - 52) - 111) 0 (by norm_num) (by norm_num)
    (by push_cast; omega) (by push_cast; omega)
  rw [this, pow_zero, Nat.mul_one]
  have e2 : (-20 : Int) - (j - 52) - 111 + ((59 : Nat) : Int) - ((0 : Nat) : Int) = -20 - j := by push_cast; omega
  rw [e2]

/-! ### the integer core of the avx lane -/

theorem tnx32_core (T : Int) (k2 : Nat) (hT1 : -(1125899906842624 * 2 ^ k2 : Int) < T) (hT2 : T < 1125899906842624 * 2 ^ k2) :
    ∃ V : Nat, (V : Int) = T + ((6755401588539392 : Nat) : Int) * 2 ^ k2 ∧
      4503599627370496 * 2 ^ k2 ≤ V ∧ V < 9007199254740992 * 2 ^ k2 ∧ rne V k2 < 9007199254740992 ∧
      2 * |((rne V k2 : Int) - 6755401588539392) * 2 ^ k2 - T| ≤ 2 ^ k2 := by
  have hD : (0 : Int) < 2 ^ k2 := by positivity
  have hpos : 0 ≤ T + ((6755401588539392 : Nat) : Int) * 2 ^ k2 := by push_cast; nlinarith
  obtain ⟨V, hV⟩ : ∃ V : Nat, (V : Int) = T + ((6755401588539392 : Nat) : Int) * 2 ^ k2 :=
    ⟨(T + ((6755401588539392 : Nat) : Int) * 2 ^ k2).toNat, by rw [Int.toNat_of_nonneg hpos]⟩
  have hV' : (V : Int) = T + 6755401588539392 * 2 ^ k2 := by rw [hV]; push_cast; ring
  have hlo : 4503599627370496 * 2 ^ k2 ≤ V := by
    have : ((4503599627370496 * 2 ^ k2 : Nat) : Int) ≤ V := by push_cast; rw [hV']; nlinarith
    exact_mod_cast this
  have hhi : V < 9007199254740992 * 2 ^ k2 := by
    have : (V : Int) < ((9007199254740992 * 2 ^ k2 : Nat) : Int) := by push_cast; rw [hV']; nlinarith
    exact_mod_cast this
  refine ⟨V, hV, hlo, hhi, ?_, ?_⟩
  · have hle : V ≤ 7881301495382016 * 2 ^ k2 := by
      have : (V : Int) ≤ ((7881301495382016 * 2 ^ k2 : Nat) : Int) := by push_cast; rw [hV']; nlinarith
      exact_mod_cast this
    have := rne_le hle
    omega
  · obtain ⟨e1, e2⟩ := rne_err V k2
    have e1' : 2 * ((rne V k2 : Int) * 2 ^ k2) ≤ 2 * V + 2 ^ k2 := by exact_mod_cast e1
    have e2' : 2 * (V : Int) ≤ 2 * ((rne V k2 : Int) * 2 ^ k2) + 2 ^ k2 := by exact_mod_cast e2
    have hrw : ((rne V k2 : Int) - 6755401588539392) * 2 ^ k2 - T = (rne V k2 : Int) * 2 ^ k2 - V := by
      rw [hV']; ring
    rw [hrw]
    rcases abs_cases ((rne V k2 : Int) * 2 ^ k2 - V) with ⟨h, _⟩ | ⟨h, _⟩ <;> rw [h] <;> linarith

theorem low32 (A q : Nat) (_hA : 1 ≤ A) (hq : 4503599627370496 ≤ q) :
    (A * 4503599627370496 + (q - 4503599627370496)) % 4294967296 = q % 4294967296 := by
  omega

theorem s32_flip_congr (q : Nat) :
    (s32 ((q % 4294967296 + 2147483648) % 4294967296) - ((q : Int) - 6755401588539392)) % 4294967296 = 0 := by
  unfold s32; omega

theorem s32_range (v : Nat) : -2147483648 ≤ s32 (v % 4294967296) ∧ s32 (v % 4294967296) < 2147483648 := by
  unfold s32; omega

theorem wrap32_congr (v : Int) : (wrap32 v - v) % 4294967296 = 0 := by
  unfold wrap32; omega

theorem wrap32_range (v : Int) : -2147483648 ≤ wrap32 v ∧ wrap32 v < 2147483648 := by
  unfold wrap32; omega

/-- `cplx_to_tnx32_avx2_fma`, one lane: for `|x/d| < 2^18` the result is `n mod 2^32` (as an int32) for an
    integer `n` within 1/2 of `x·2^32/d` -/
theorem cplxToTnx32AvxLane_spec (j : Int) (hj1 : -1022 ≤ j) (hj2 : j ≤ 900) (x : Nat)
    (hdom : |toScaled x| < 262144 * toScaled (pow2 j)) :
    ∃ n : Int, (cplxToTnx32AvxLane (toTnx32R (pow2 j)) x - n) % 4294967296 = 0 ∧
      2 * |n * toScaled (pow2 j) - toScaled x * 4294967296| ≤ toScaled (pow2 j) ∧
      -2147483648 ≤ cplxToTnx32AvxLane (toTnx32R (pow2 j)) x ∧ cplxToTnx32AvxLane (toTnx32R (pow2 j)) x < 2147483648 := by
  obtain ⟨sx, mx, ex, hx, hmx, he0, he1⟩ := exists_decode x
  have hc := decode_toTnx32R j hj1 hj2
  obtain ⟨e, he⟩ : ∃ e, e = min ex (j - 32) := ⟨_, rfl⟩
  obtain ⟨k1, hk1⟩ : ∃ k1 : Nat, ex = e + k1 := ⟨(ex - e).toNat, by omega⟩
  obtain ⟨k2, hk2⟩ : ∃ k2 : Nat, j - 32 = e + k2 := ⟨(j - 32 - e).toNat, by omega⟩
  have hxs : toScaled x = sI sx mx * 2 ^ k1 * 2 ^ ((e + 1074).toNat) := toScaled_split hx e k1 hk1 (by omega)
  have hds : toScaled (pow2 j) = 2 ^ k2 * 4294967296 * 2 ^ ((e + 1074).toNat) := by
    rw [toScaled_pow2 j hj1 (by omega)]
    have h32 : (4294967296 : Int) = 2 ^ 32 := by norm_num
    rw [h32, ← pow_add, ← pow_add]; congr 1; omega
  obtain ⟨W, hW⟩ : ∃ W : Int, W = 2 ^ ((e + 1074).toNat) := ⟨_, rfl⟩
  rw [← hW] at hxs hds
  have hWpos : 0 < W := by rw [hW]; positivity
  obtain ⟨T, hT⟩ : ∃ T : Int, T = sI sx mx * 2 ^ k1 := ⟨_, rfl⟩
  rw [← hT] at hxs
  have hD : (0 : Int) < 2 ^ k2 := by positivity
  have hdom' : |T| < 1125899906842624 * 2 ^ k2 := by
    rw [hxs, hds, abs_mul, abs_of_pos hWpos] at hdom
    have h2 : (262144 : Int) * (2 ^ k2 * 4294967296 * W) = (1125899906842624 * 2 ^ k2) * W := by ring
    rw [h2] at hdom
    exact lt_of_mul_lt_mul_right hdom (le_of_lt hWpos)
  obtain ⟨hT1, hT2⟩ := abs_lt.1 hdom'
  obtain ⟨V, hV, hlo, hhi, hq, herr⟩ := tnx32_core T k2 hT1 hT2
  have hq1 := (rne_range hlo hhi).1
  obtain ⟨_, hpat⟩ := add_magic hx hc e k1 k2 he hk1 hk2 V (by rw [hV, hT]) hlo hhi hq (by omega) (by omega)
  obtain ⟨q, hqdef⟩ : ∃ q, q = rne V k2 := ⟨_, rfl⟩
  rw [← hqdef] at hq hq1 herr hpat
  have hlane : cplxToTnx32AvxLane (toTnx32R (pow2 j)) x = s32 ((q % 4294967296 + 2147483648) % 4294967296) := by
    unfold cplxToTnx32AvxLane
    rw [hpat, low32 _ q (by omega) hq1, xor_top32 _ (Nat.mod_lt _ (by norm_num))]
  rw [hlane]
  refine ⟨(q : Int) - 6755401588539392, s32_flip_congr q, ?_, (s32_range _).1, (s32_range _).2⟩
  · rw [hxs, hds]
    have hexpr : ((q : Int) - 6755401588539392) * (2 ^ k2 * 4294967296 * W) - T * W * 4294967296
        = (4294967296 * W) * (((q : Int) - 6755401588539392) * 2 ^ k2 - T) := by ring
    rw [hexpr, abs_mul, abs_of_pos (by positivity : (0 : Int) < 4294967296 * W)]
    have hr : (2 : Int) ^ k2 * 4294967296 * W = (4294967296 * W) * 2 ^ k2 := by ring
    rw [hr, ← mul_assoc, mul_comm 2, mul_assoc]
    exact mul_le_mul_of_nonneg_left herr (by positivity)

/-- `cplx_to_tnx32_ref`, one lane: same contract (for `|x/d| < 2^30`, which contains the documented `2^18`) -/
theorem cplxToTnx32RefLane_spec (j : Int) (hj1 : -990 ≤ j) (hj2 : j ≤ 1000) (x : Nat)
    (hdom : |toScaled x| < 1073741824 * toScaled (pow2 j)) :
    ∃ n : Int, (cplxToTnx32RefLane (toTnx32Factor (pow2 j)) x - n) % 4294967296 = 0 ∧
      2 * |n * toScaled (pow2 j) - toScaled x * 4294967296| ≤ toScaled (pow2 j) ∧
      -2147483648 ≤ cplxToTnx32RefLane (toTnx32Factor (pow2 j)) x ∧ cplxToTnx32RefLane (toTnx32Factor (pow2 j)) x < 2147483648 := by
  obtain ⟨sx, mx, ex, hx, hm, he0, he1⟩ := exists_decode x
  have hp := decode_toTnx32Factor j hj1 hj2
  obtain ⟨a, ha⟩ : ∃ a : Nat, (a : Int) = ex + 1074 := ⟨(ex + 1074).toNat, by omega⟩
  obtain ⟨b, hb⟩ : ∃ b : Nat, (b : Int) = j - 32 + 1074 := ⟨(j - 32 + 1074).toNat, by omega⟩
  have hxs : toScaled x = sI sx mx * 2 ^ a := by
    rw [toScaled_of_decode' hx]; congr 2; omega
  have hds : toScaled (pow2 j) = 2 ^ b * 4294967296 := by
    rw [toScaled_pow2 j (by omega) (by omega)]
    have h32 : (4294967296 : Int) = 2 ^ 32 := by norm_num
    rw [h32, ← pow_add]; congr 1; omega
  rw [hxs, hds] at hdom ⊢
  rw [abs_sI_mul _ _ _ (by positivity)] at hdom
  have hdomN : mx * 2 ^ a < 9223372036854775808 * 2 ^ b := by
    have : (mx : Int) * 2 ^ a < 9223372036854775808 * 2 ^ b := by
      have hb0 : (0 : Int) < 2 ^ b := by positivity
      nlinarith
    exact_mod_cast this
  have hcore := quot_round_core hx hp hm a b ha (by rw [hb]; ring) hdomN
  refine ⟨toIntTrunc (rint (mul x (toTnx32Factor (pow2 j)))), wrap32_congr _, ?_, (wrap32_range _).1, (wrap32_range _).2⟩
  · have hexpr : toIntTrunc (rint (mul x (toTnx32Factor (pow2 j)))) * (2 ^ b * 4294967296) - sI sx mx * 2 ^ a * 4294967296
        = 4294967296 * (toIntTrunc (rint (mul x (toTnx32Factor (pow2 j)))) * 2 ^ b - sI sx mx * 2 ^ a) := by ring
    rw [hexpr, abs_mul, abs_of_pos (by norm_num : (0 : Int) < 4294967296)]
    linarith

end Spq.Conv
