/-
  Orbits of `j ↦ (j + pn) mod nn` on `[0, nn)`: they are the classes modulo `d = gcd pn nn`, each of
  length `nn / d` (no assumption on `nn` besides `0 < nn`).
-/
import SpqProofs.Lemmas.CoeffsBasic
import Mathlib.Logic.Function.Iterate
import Mathlib.Data.Int.GCD
import Mathlib.Data.Nat.ModEq
set_option linter.unusedSectionVars false
namespace Spq.Rq

def addMod (nn pn : Nat) (j : Nat) : Nat := (j + pn) % nn

theorem addMod_iter (nn pn j i : Nat) (hj : j < nn) : (addMod nn pn)^[i] j = (j + i * pn) % nn := by
  induction i with
  | zero => simp [Nat.mod_eq_of_lt hj]
  | succ i ih =>
    rw [Function.iterate_succ_apply', ih, addMod, Nat.mod_add_mod]
    congr 1; ring

theorem addMod_iter_lt (nn pn j i : Nat) (hj : j < nn) : (addMod nn pn)^[i] j < nn := by
  rw [addMod_iter nn pn j i hj]; exact Nat.mod_lt _ (by omega)

section
variable (nn pn : Nat) (hn : 0 < nn)
include hn

theorem gcd_pos' : 0 < Nat.gcd pn nn := Nat.gcd_pos_of_pos_right _ hn

theorem orbLen_pos : 0 < nn / Nat.gcd pn nn :=
  Nat.div_pos (Nat.le_of_dvd hn (Nat.gcd_dvd_right _ _)) (gcd_pos' nn pn hn)

theorem orbLen_mul : nn / Nat.gcd pn nn * Nat.gcd pn nn = nn :=
  Nat.div_mul_cancel (Nat.gcd_dvd_right _ _)

/-- `L * pn` is a multiple of `nn` -/
theorem orbLen_mul_pn : nn / Nat.gcd pn nn * pn = pn / Nat.gcd pn nn * nn := by
  have h1 := orbLen_mul nn pn hn
  have h2 : pn / Nat.gcd pn nn * Nat.gcd pn nn = pn := Nat.div_mul_cancel (Nat.gcd_dvd_left _ _)
  generalize nn / Nat.gcd pn nn = L at *
  generalize pn / Nat.gcd pn nn = b at *
  calc L * pn = L * (b * Nat.gcd pn nn) := by rw [h2]
    _ = b * (L * Nat.gcd pn nn) := by ring
    _ = b * nn := by rw [h1]

theorem addMod_ret (j : Nat) (hj : j < nn) : (addMod nn pn)^[nn / Nat.gcd pn nn] j = j := by
  rw [addMod_iter nn pn j _ hj, orbLen_mul_pn nn pn hn, Nat.add_mul_mod_self_right, Nat.mod_eq_of_lt hj]

theorem addMod_dist (j : Nat) (hj : j < nn) (i i' : Nat) (hi : i < nn / Nat.gcd pn nn)
    (hi' : i' < nn / Nat.gcd pn nn) (e : (addMod nn pn)^[i] j = (addMod nn pn)^[i'] j) : i = i' := by
  rw [addMod_iter nn pn j _ hj, addMod_iter nn pn j _ hj] at e
  have key : ∀ a b : Nat, a ≤ b → b < nn / Nat.gcd pn nn → (j + a * pn) % nn = (j + b * pn) % nn → a = b := by
    intro a b hab hb e
    have e1 : a * pn ≡ b * pn [MOD nn] := Nat.ModEq.add_left_cancel' j e
    have e2 : nn ∣ b * pn - a * pn := (Nat.modEq_iff_dvd' (Nat.mul_le_mul_right _ hab)).1 e1
    rw [← Nat.sub_mul] at e2
    have hd := gcd_pos' nn pn hn
    have h1 := orbLen_mul nn pn hn
    have h2 : pn / Nat.gcd pn nn * Nat.gcd pn nn = pn := Nat.div_mul_cancel (Nat.gcd_dvd_left _ _)
    have cop : Nat.Coprime (nn / Nat.gcd pn nn) (pn / Nat.gcd pn nn) :=
      (Nat.coprime_div_gcd_div_gcd hd).symm
    have e3 : nn / Nat.gcd pn nn * Nat.gcd pn nn ∣ (b - a) * (pn / Nat.gcd pn nn) * Nat.gcd pn nn := by
      rw [h1, Nat.mul_assoc, h2]; exact e2
    have e4 := Nat.dvd_of_mul_dvd_mul_right hd e3
    have e5 := cop.dvd_of_dvd_mul_right e4
    have := Nat.eq_zero_of_dvd_of_lt e5 (by omega)
    omega
  rcases Nat.le_total i i' with h | h
  · exact key i i' h hi' e
  · exact (key i' i h hi e.symm).symm

theorem addMod_iter_mod (j i : Nat) (hj : j < nn) :
    ((addMod nn pn)^[i] j) % Nat.gcd pn nn = j % Nat.gcd pn nn := by
  rw [addMod_iter nn pn j _ hj, Nat.mod_mod_of_dvd _ (Nat.gcd_dvd_right _ _)]
  obtain ⟨b, hb⟩ := Nat.gcd_dvd_left pn nn
  have : j + i * pn = j + Nat.gcd pn nn * (i * b) := by
    conv_lhs => rw [hb]
    ring
  rw [this, Nat.add_mul_mod_self_left]

theorem addMod_mod (j : Nat) : (addMod nn pn j) % Nat.gcd pn nn = j % Nat.gcd pn nn := by
  unfold addMod
  rw [Nat.mod_mod_of_dvd _ (Nat.gcd_dvd_right _ _)]
  obtain ⟨b, hb⟩ := Nat.gcd_dvd_left pn nn
  have : j + pn = j + Nat.gcd pn nn * b := by
    conv_lhs => rw [hb]
  rw [this, Nat.add_mul_mod_self_left]

/-- every element of the class of `s` modulo `d` is on the orbit of `s` -/
theorem addMod_surj (s y : Nat) (hy : y < nn) (hs : s < Nat.gcd pn nn) (hys : y % Nat.gcd pn nn = s) :
    ∃ i, i < nn / Nat.gcd pn nn ∧ y = (addMod nn pn)^[i] s := by
  have hd := gcd_pos' nn pn hn
  have hL := orbLen_pos nn pn hn
  have hdle : Nat.gcd pn nn ≤ nn := Nat.le_of_dvd hn (Nat.gcd_dvd_right _ _)
  have hsn : s < nn := by omega
  rcases Nat.lt_or_ge (Nat.gcd pn nn) nn with hlt | hge
  · obtain ⟨u, -, hu⟩ := Nat.exists_mul_mod_eq_gcd hlt
    have hy' : y = s + (y / Nat.gcd pn nn) * Nat.gcd pn nn := by
      have := Nat.div_add_mod y (Nat.gcd pn nn)
      rw [hys] at this
      rw [Nat.mul_comm]; omega
    set k := y / Nat.gcd pn nn
    set m := k * u
    refine ⟨m % (nn / Nat.gcd pn nn), Nat.mod_lt _ hL, ?_⟩
    rw [addMod_iter nn pn s _ hsn]
    have hm : m * pn = m % (nn / Nat.gcd pn nn) * pn +
        (m / (nn / Nat.gcd pn nn)) * (pn / Nat.gcd pn nn) * nn := by
      have e := Nat.div_add_mod m (nn / Nat.gcd pn nn)
      have e2 := orbLen_mul_pn nn pn hn
      calc m * pn = ((nn / Nat.gcd pn nn) * (m / (nn / Nat.gcd pn nn)) + m % (nn / Nat.gcd pn nn)) * pn := by rw [e]
        _ = m % (nn / Nat.gcd pn nn) * pn + (m / (nn / Nat.gcd pn nn)) * ((nn / Nat.gcd pn nn) * pn) := by ring
        _ = _ := by rw [e2]; ring
    have e1 : (s + m % (nn / Nat.gcd pn nn) * pn) % nn = (s + m * pn) % nn := by
      rw [hm, ← Nat.add_assoc, Nat.add_mul_mod_self_right]
    rw [e1]
    have e2 : pn * u ≡ Nat.gcd pn nn [MOD nn] := by
      unfold Nat.ModEq; rw [hu, Nat.mod_eq_of_lt hlt]
    have e3 : s + m * pn ≡ s + k * Nat.gcd pn nn [MOD nn] := by
      apply Nat.ModEq.add_left
      have : m * pn = k * (pn * u) := by simp only [m]; ring
      rw [this]
      exact Nat.ModEq.mul_left _ e2
    rw [e3, ← hy', Nat.mod_eq_of_lt hy]
  · have hdn : Nat.gcd pn nn = nn := by omega
    refine ⟨0, hL, ?_⟩
    rw [hdn] at hys
    rw [Nat.mod_eq_of_lt hy] at hys
    simp [hys]

end
end Spq.Rq
