/-
  Convenience lemmas for concrete instances: small integers as doubles, simple sufficient conditions for
  `NoOvf` / `NormalRange`.
-/
import SpqProofs.Lemmas.F64StdOps
namespace Spq.F64

theorem val_ofInt {x : Int} (hx : x.natAbs < 9007199254740992) : val (ofInt x) = x := by
  unfold val
  rw [toScaled_ofInt hx, Int.cast_mul, Int.cast_pow, Int.cast_ofNat, mul_div_assoc,
    div_self (pow_ne_zero _ (by norm_num)), mul_one]

theorem noOvf_of_le {q : ℚ} (h : |q| ≤ 2 ^ (1023 : ℤ)) : NoOvf q := by
  unfold NoOvf
  refine lt_of_le_of_lt h ?_
  rw [ovfThr_eq_971]
  have e : (2 : ℚ) ^ (1023 : ℤ) = 2 ^ 52 * 2 ^ (971 : ℤ) := by
    rw [← zpow_natCast, ← two_zpow_add]; norm_num
  rw [e]
  exact mul_lt_mul_of_pos_right (by norm_num) (two_zpow_pos 971)

theorem normalRange_of {q : ℚ} (h1 : 2 ^ (-1022 : ℤ) ≤ |q|) (h2 : |q| ≤ 2 ^ (1023 : ℤ)) : NormalRange q :=
  Or.inr ⟨h1, noOvf_of_le h2⟩

/-- integers of magnitude below `2^53` are in the normal range -/
theorem normalRange_int (x : Int) (hx : x.natAbs < 9007199254740992) : NormalRange (x : ℚ) := by
  by_cases h0 : x = 0
  · left; exact_mod_cast h0
  · apply normalRange_of
    · have h1 : (1 : ℚ) ≤ |(x : ℚ)| := by
        rw [← Int.cast_abs]; exact_mod_cast Int.one_le_abs h0
      have h2 : (2 : ℚ) ^ (-1022 : ℤ) ≤ 1 := zpow_le_one_of_nonpos₀ (by norm_num) (by norm_num)
      exact le_trans h2 h1
    · have h1 : |(x : ℚ)| ≤ 2 ^ (53 : ℤ) := by
        rw [← natAbs_cast_abs]
        have : (2 : ℚ) ^ (53 : ℤ) = ((9007199254740992 : ℕ) : ℚ) := by norm_num
        rw [this]; exact_mod_cast (le_of_lt hx)
      exact le_trans h1 (two_zpow_le (by norm_num))
end Spq.F64
