/-
  C16, binary64 side: a concrete instance of every hypothesis of the program-level theorems.
  `N = 2` (`k = 0`), `K = ℚ`, `ζ = i`, the all-reference module `exC` (`ProdErrExample.lean`), a heap of 8 cells,
  `x = 1 + 2X`, `y = 3 + 4X`, and the program
      P0 := svp_prepare(y);  D0 := svp_apply_dft(P0, x);  z := idft(D0);            -- prepare → apply → idft
      M0 := vmp_prepare(y);  D1 := dft(x);  D2 := vmp_apply_dft_to_dft(D1, M0);     -- dft → vmp (dft_to_dft) → idft
      w := idft(D2);  D3 := vmp_apply_dft(x, M0);  w := idft(D3);                   -- prepare → apply → idft
      w := idft(D1);                                                                 -- pure round trip dft → idft
      z := z + x.
-/
import SpqProofs.Lemmas.ProgErrRun
import SpqProofs.Lemmas.VmpErrExample
set_option linter.unusedSectionVars false
namespace Spq.ProgErr
open Finset Spq Spq.Module Spq.Fft Spq.Fft.Alg Spq.Fft.SimP Spq.Fft.LevelN Spq.Fft.SchedN Spq.Fft.RelN Spq.FftErr Spq.F64
  Spq.Reim4 Spq.Conv Spq.ProdErr Spq.VmpErr Spq.Prog Spq.Closed

/-- the binary64 module of dimension 2 with its (trivially exact) root data -/
def exMod : F64Mod ℚ where
  c := exC
  k := 0
  hk := by omega
  cN := z0
  sN := z0
  cNi := z0
  sNi := z0
  ok := exVCfgOk
  ζ := Ic
  ζi := -Ic
  hζ := by simp [nsq, Ic]
  hI := by simp
  hinv := by rw [mul_neg, Ic_sq, neg_neg]
  hcs := fun ℓ d b h => by omega
  hcsi := fun ℓ d b h => by omega

def exX : Var := ⟨0, 1, 2⟩
def exY : Var := ⟨2, 1, 2⟩
def exZ : Var := ⟨4, 1, 2⟩
def exW : Var := ⟨6, 1, 2⟩
def exVars : List Var := [exX, exY, exZ, exW]
def exHeap : Heap Int := ⟨#[1, 2, 3, 4, 0, 0, 0, 0], true⟩
def exEnv : Env := fun v => readVar 2 exHeap v
def exD0 : DVar := ⟨0, 1⟩
def exD1 : DVar := ⟨1, 1⟩
def exD2 : DVar := ⟨2, 1⟩
def exD3 : DVar := ⟨3, 1⟩
def exM0 : MVar := ⟨0, 1, 1⟩
def exA : AState := ⟨exEnv, fun _ => none, fun _ => none, fun _ => none, fun _ => none⟩
def exS : CState ℕ := ⟨exHeap, fun _ => #[], fun _ => #[], fun _ => #[]⟩

def exProg : List OpD :=
  [.svpPrepare 0 exY, .svp exD0 0 exX, .idft exZ exD0,
   .vmpPrepare exM0 exY, .dft exD1 exX, .vmpDD exD2 exD1 exM0, .idft exW exD2,
   .vmp exD3 exX exM0, .idft exW exD3, .idft exW exD1,
   .coeff (.add exZ exZ exX)]

/-- flags of the inverse transform of the computed forward transform of `1 + 2X` -/
theorem ex_okRI : InvOk exC 0 z0 z0 (stF exC 0 z0 z0 #[1, 2]) := by
  unfold InvOk
  intro p hp
  rw [exFA]
  have : p = 0 ∨ p = 1 := by omega
  rcases this with rfl | rfl <;> simp [reimIfftA, ifftRI, joinRI, splitRI, lift] <;> decide

theorem exRtOk : RtOk exC 0 z0 z0 z0 z0 #[1, 2] := ⟨ex_okA, ex_okRI⟩

theorem box12 : Box 0 #[1, 2] := by
  intro i hi
  have : i = 0 ∨ i = 1 := by omega
  rcases this with rfl | rfl <;> decide

theorem box34 : Box 0 #[3, 4] := by
  intro i hi
  have : i = 0 ∨ i = 1 := by omega
  rcases this with rfl | rfl <;> decide

/-- the round-trip budget of `1 + 2X` (`na = 3 ≥ √5`) -/
theorem exRtBudget : RtBudget exMod #[1, 2] := by
  refine ⟨box12, exRtOk, 3, by norm_num, ?_, ?_⟩
  · show ∑ t ∈ range 2, _ ≤ _
    simp [sum_range_succ]; norm_num
  · show ((17 * ((0 : ℕ) + 1 : ℚ) * u64 : ℚ) : ℚ) * 3 < 1 / 2
    unfold u64; norm_num

/-- the product budget of `(1 + 2X)·(3 + 4X)` (`na = 3`, `nb = 5`) -/
theorem exProdBudget : ProdBudget exMod #[1, 2] #[3, 4] := by
  refine ⟨box12, box34, exPipeOk, 3, 5, by norm_num, by norm_num, ?_, ?_, ?_, ?_⟩
  · show ∑ t ∈ range 2, _ ≤ _
    simp [sum_range_succ]; norm_num
  · show ∑ t ∈ range 2, _ ≤ _
    simp [sum_range_succ]; norm_num
  · show _ ≤ ∑ t ∈ range 2, _
    simp [sum_range_succ]; norm_num
  · show ((12 * ((0 : ℕ) + 1 : ℚ) * u64 : ℚ) : ℚ) * ((∑ t ∈ range 2, _) * _ + _ * ∑ t ∈ range 2, _) < _
    unfold u64; simp [sum_range_succ]; norm_num

end Spq.ProgErr
