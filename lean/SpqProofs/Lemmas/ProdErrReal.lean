/-
  C01 rounding budget over `K = ℝ` with the true 2-norms `‖x‖₂ = √Σ x_t²` (`na = ‖a‖₂`, `nb = ‖b‖₂`): the three
  side conditions on `na`, `nb` of the end-to-end theorems hold.
-/
import SpqProofs.Lemmas.ProdErrFinal
import Mathlib.Analysis.Real.Sqrt
set_option linter.unusedSectionVars false
namespace Spq.ProdErr
open Finset

/-- the 2-norm of the first `N` coefficients -/
noncomputable def n2 (x : Array Int) (N : ℕ) : ℝ := Real.sqrt (∑ t ∈ range N, ((x.getD t 0 : Int) : ℝ) ^ 2)

theorem n2_nonneg (x : Array Int) (N : ℕ) : 0 ≤ n2 x N := Real.sqrt_nonneg _

theorem n2_sq (x : Array Int) (N : ℕ) : ∑ t ∈ range N, ((x.getD t 0 : Int) : ℝ) ^ 2 ≤ n2 x N ^ 2 := by
  unfold n2
  rw [Real.sq_sqrt (sum_nonneg (fun _ _ => by positivity))]

theorem sum_sq_le_sq_sum (N : ℕ) (f : ℕ → ℝ) : ∑ t ∈ range N, f t ^ 2 ≤ (∑ t ∈ range N, |f t|) ^ 2 := by
  induction N with
  | zero => simp
  | succ N ih =>
    rw [sum_range_succ, sum_range_succ]
    have h0 : 0 ≤ ∑ t ∈ range N, |f t| := sum_nonneg (fun _ _ => abs_nonneg _)
    have h1 := abs_nonneg (f N)
    have h2 : f N ^ 2 = |f N| ^ 2 := (sq_abs _).symm
    nlinarith

/-- `‖x‖₂ ≤ ‖x‖₁` -/
theorem n2_le_n1 (x : Array Int) (N : ℕ) : n2 x N ≤ ∑ t ∈ range N, |((x.getD t 0 : Int) : ℝ)| := by
  unfold n2
  rw [Real.sqrt_le_left (sum_nonneg (fun _ _ => abs_nonneg _))]
  exact sum_sq_le_sq_sum N _

end Spq.ProdErr
