/-
  Generic in-place cycle walk carrying two values (cells `σ j` and `τ (σ j)` are written together):
  the do-while of `znx_automorphism_inplace_i64`.
-/
import SpqProofs.Lemmas.CoeffsWalk
namespace Spq.Rq
open Spq
variable {α : Type}

def walkP (σ τ : Nat → Nat) (g : Nat → α → α) (z : α) (j0 : Nat) :
    Nat → Nat → α → α → Array α → Nat → Array α × Nat
  | 0, _, _, _, res, nb => (res, nb)
  | fuel + 1, j, t1, t2, res, nb =>
    let nj := σ j
    let t1a := res.getD nj z
    let t2a := res.getD (τ nj) z
    let res' := (res.setIfInBounds nj (g j t1)).setIfInBounds (τ nj) (g j t2)
    if nj = j0 then (res', nb + 2) else walkP σ τ g z j0 fuel nj t1a t2a res' (nb + 2)

/-- state after `s` steps of the pair walk started at `j0` on `f0` -/
def PairInv (σ τ : Nat → Nat) (g : Nat → α → α) (z : α) (j0 : Nat) (f0 : Array α) (s : Nat)
    (f : Array α) : Prop :=
  f.size = f0.size ∧
  (∀ i, i < s → f.getD (σ^[i+1] j0) z = g (σ^[i] j0) (f0.getD (σ^[i] j0) z) ∧
               f.getD (τ (σ^[i+1] j0)) z = g (σ^[i] j0) (f0.getD (τ (σ^[i] j0)) z)) ∧
  (∀ x, (∀ i, i < s → x ≠ σ^[i+1] j0 ∧ x ≠ τ (σ^[i+1] j0)) → f.getD x z = f0.getD x z)

theorem walkP_spec (σ τ : Nat → Nat) (g : Nat → α → α) (z : α) (j0 L : Nat) (f0 : Array α)
    (hb : ∀ i, σ^[i] j0 < f0.size) (hbt : ∀ i, τ (σ^[i] j0) < f0.size)
    (hL : 0 < L) (hret : σ^[L] j0 = j0)
    (hdist : ∀ i j, i < L → j < L → σ^[i] j0 = σ^[j] j0 → i = j)
    (hdt : ∀ i j, i < L → j < L → τ (σ^[i] j0) = τ (σ^[j] j0) → i = j)
    (hcross : ∀ i j, i < L → j < L → τ (σ^[i] j0) ≠ σ^[j] j0) :
    ∀ (r s fuel : Nat) (f : Array α) (nb : Nat), s + r = L → 0 < r → r ≤ fuel →
      PairInv σ τ g z j0 f0 s f →
      (walkP σ τ g z j0 fuel (σ^[s] j0) (f0.getD (σ^[s] j0) z) (f0.getD (τ (σ^[s] j0)) z) f nb).2
          = nb + 2 * r ∧
      PairInv σ τ g z j0 f0 L
        (walkP σ τ g z j0 fuel (σ^[s] j0) (f0.getD (σ^[s] j0) z) (f0.getD (τ (σ^[s] j0)) z) f nb).1 := by
  -- `σ^[a+1] j0` for `a < L` is `σ^[a'] j0` with `a' < L` (wrapping `L` to `0`)
  have wrap : ∀ a, a < L → ∃ a', a' < L ∧ σ^[a+1] j0 = σ^[a'] j0 ∧ (a + 1 < L → a' = a + 1) ∧
      (a + 1 = L → a' = 0) := by
    intro a ha
    by_cases c : a + 1 = L
    · exact ⟨0, hL, by rw [c, hret]; rfl, fun h => by omega, fun _ => rfl⟩
    · exact ⟨a + 1, by omega, rfl, fun _ => rfl, fun h => by omega⟩
  have ne1 : ∀ i s, i < s → s < L → σ^[i+1] j0 ≠ σ^[s+1] j0 :=
    fun i s his hs => iter_ne σ j0 L hL hret hdist i s his hs
  have ne2 : ∀ i s, i < s → s < L → τ (σ^[i+1] j0) ≠ τ (σ^[s+1] j0) := by
    intro i s his hs e
    obtain ⟨a, ha, ea, ea1, ea2⟩ := wrap i (by omega)
    obtain ⟨b, hb', eb, eb1, eb2⟩ := wrap s hs
    rw [ea, eb] at e
    have := hdt a b ha hb' e
    by_cases c : s + 1 = L
    · have := eb2 c; have := ea1 (by omega); omega
    · have := eb1 (by omega); have := ea1 (by omega); omega
  have ne3 : ∀ i s, i < L → s < L → τ (σ^[i+1] j0) ≠ σ^[s+1] j0 := by
    intro i s hi hs e
    obtain ⟨a, ha, ea, -, -⟩ := wrap i hi
    obtain ⟨b, hb', eb, -, -⟩ := wrap s hs
    rw [ea, eb] at e
    exact hcross a b ha hb' e
  intro r
  induction r with
  | zero => intro s fuel f nb _ h0; omega
  | succ r ih =>
    intro s fuel f nb hs _ hfuel hinv
    obtain ⟨fuel', rfl⟩ : ∃ k, fuel = k + 1 := ⟨fuel - 1, by omega⟩
    obtain ⟨hsz, hi1, hi2⟩ := hinv
    have hsL : s < L := by omega
    have hnj : σ (σ^[s] j0) = σ^[s+1] j0 := (Function.iterate_succ_apply' σ s j0).symm
    have horig1 : f.getD (σ^[s+1] j0) z = f0.getD (σ^[s+1] j0) z :=
      hi2 _ (fun i hi => ⟨(ne1 i s hi hsL).symm, (ne3 i s (by omega) hsL).symm⟩)
    have horig2 : f.getD (τ (σ^[s+1] j0)) z = f0.getD (τ (σ^[s+1] j0)) z :=
      hi2 _ (fun i hi => ⟨ne3 s i hsL (by omega), (ne2 i s hi hsL).symm⟩)
    have hinb1 : σ^[s+1] j0 < f.size := by rw [hsz]; exact hb _
    have hinb2 : τ (σ^[s+1] j0) < f.size := by rw [hsz]; exact hbt _
    have hself : τ (σ^[s+1] j0) ≠ σ^[s+1] j0 := ne3 s s hsL hsL
    have hinv' : PairInv σ τ g z j0 f0 (s+1)
        ((f.setIfInBounds (σ^[s+1] j0) (g (σ^[s] j0) (f0.getD (σ^[s] j0) z))).setIfInBounds
          (τ (σ^[s+1] j0)) (g (σ^[s] j0) (f0.getD (τ (σ^[s] j0)) z))) := by
      refine ⟨by simp [hsz], ?_, ?_⟩
      · intro i hi
        by_cases his : i = s
        · subst his
          constructor
          · rw [getD_setIfInBounds, if_neg (fun h => hself h.1), getD_setIfInBounds,
              if_pos ⟨rfl, hinb1⟩]
          · rw [getD_setIfInBounds, if_pos ⟨rfl, by simpa using hinb2⟩]
        · have his' : i < s := by omega
          obtain ⟨v1, v2⟩ := hi1 i his'
          constructor
          · rw [getD_setIfInBounds, if_neg (fun h => ne3 s i hsL (by omega) h.1), getD_setIfInBounds,
              if_neg (fun h => ne1 i s his' hsL h.1.symm)]
            exact v1
          · rw [getD_setIfInBounds, if_neg (fun h => ne2 i s his' hsL h.1.symm), getD_setIfInBounds,
              if_neg (fun h => ne3 i s (by omega) hsL h.1.symm)]
            exact v2
      · intro x hx
        rw [getD_setIfInBounds, if_neg (fun h => (hx s (by omega)).2 h.1.symm), getD_setIfInBounds,
          if_neg (fun h => (hx s (by omega)).1 h.1.symm)]
        exact hi2 x (fun i hi => hx i (by omega))
    simp only [walkP, hnj, horig1, horig2]
    by_cases hend : σ^[s+1] j0 = j0
    · have hlast : s + 1 = L := by
        by_contra hne'
        have : σ^[s+1] j0 = σ^[0] j0 := by rw [hend]; rfl
        have := hdist (s+1) 0 (by omega) hL this
        omega
      simp only [hend, if_true]
      rw [hend] at hinv'
      refine ⟨by omega, ?_⟩
      rw [← hlast]; exact hinv'
    · simp only [hend, if_false]
      have hr : 0 < r := by
        by_contra h
        have : s + 1 = L := by omega
        rw [this, hret] at hend; exact hend rfl
      have := ih (s+1) fuel' _ (nb+2) (by omega) hr (by omega) hinv'
      refine ⟨by rw [this.1]; omega, this.2⟩

theorem walkP_cycle (σ τ : Nat → Nat) (g : Nat → α → α) (z : α) (j0 L : Nat) (f0 : Array α)
    (hb : ∀ i, σ^[i] j0 < f0.size) (hbt : ∀ i, τ (σ^[i] j0) < f0.size)
    (hL : 0 < L) (hret : σ^[L] j0 = j0)
    (hdist : ∀ i j, i < L → j < L → σ^[i] j0 = σ^[j] j0 → i = j)
    (hdt : ∀ i j, i < L → j < L → τ (σ^[i] j0) = τ (σ^[j] j0) → i = j)
    (hcross : ∀ i j, i < L → j < L → τ (σ^[i] j0) ≠ σ^[j] j0)
    (fuel nb : Nat) (hfuel : L ≤ fuel) :
    (walkP σ τ g z j0 fuel j0 (f0.getD j0 z) (f0.getD (τ j0) z) f0 nb).2 = nb + 2 * L ∧
    PairInv σ τ g z j0 f0 L (walkP σ τ g z j0 fuel j0 (f0.getD j0 z) (f0.getD (τ j0) z) f0 nb).1 := by
  have := walkP_spec σ τ g z j0 L f0 hb hbt hL hret hdist hdt hcross L 0 fuel f0 nb (by omega) hL hfuel
    ⟨rfl, fun i hi => by omega, fun x _ => rfl⟩
  simpa using this

end Spq.Rq
