/-
  One limb on the live module, ZMod side: zero limbs, evaluation form, products in DFT space.
-/
import SpqProofs.Lemmas.NttModLimb

namespace Spq.ModuleNtt
open Spq Spq.Q120 Spq.Q120Ntt Finset

/-! ### the inverse transform of a zero limb -/

theorem exIntt_zero {q : Nat} (w v ninv : ZMod q) (k : Nat) (hwv : w * v = 1) (hn : (2 : ZMod q) ^ k * ninv = 1) :
    exIntt v ninv k (fun _ => 0) = fun _ => 0 := by
  have h0 : exNtt w k (fun _ => (0 : ZMod q)) = fun _ => 0 := by
    funext i
    have := exNtt_smul w k 0 (fun _ => 0) i
    simpa using this
  have := exIntt_exNtt w v ninv k hwv hn (fun _ => 0)
  rwa [h0] at this

/-- `w·w^-1 = 1`, `2^k·n^-1 = 1` in `ZMod q` from the decidable facts on the roots -/
theorem roots_cast (q Ω k : Nat) (hq : 1 < q)
    (hroot : (omegaN q Ω k * modqPow (omegaN q Ω k) (-1) q) % q = 1)
    (hninv : (2 ^ k % q * modqPow (2 ^ k) (-1) q) % q = 1) :
    ((omegaN q Ω k : Nat) : ZMod q) * ((modqPow (omegaN q Ω k) (-1) q : Nat) : ZMod q) = 1
    ∧ (2 : ZMod q) ^ k * ((modqPow (2 ^ k) (-1) q : Nat) : ZMod q) = 1 := by
  constructor
  · rw [← Nat.cast_mul]; exact cast_one_of_mod hq hroot
  · have := cast_one_of_mod hq hninv
    rw [Nat.cast_mul, ZMod.natCast_mod, Nat.cast_pow] at this
    simpa using this

theorem rd_lane_zero (c : Array Nat) (hc : ∀ i, c.getD i 0 = 0) (j t : Nat) : rd (lane c j) t = 0 := by
  by_cases ht : t < c.size / 4
  · rw [rd_lane _ _ _ ht]; exact hc _
  · unfold rd; exact getD_of_size_le _ _ _ (by rw [size_lane]; omega)

/-- **zero limb**: the inverse transform + CRT lift of an all-zero DFT limb is the zero polynomial -/
theorem idft_zero_limb (k : Nat) (hk : k ≤ 16) (c : Array Nat) (hsz : c.size = 4 * 2 ^ k) (hc : ∀ i, c.getD i 0 = 0)
    (t : Nat) (ht : t < 2 ^ k) : (idftLimb (curMod k) c).getD t 0 = 0 := by
  apply idftLimb_eq (curMod k) crtOK_current _ t ht 0 (i64_centered 0 (by unfold IsI64; omega))
  intro j hj
  have hl : (lane c j).size = 2 ^ k := by rw [size_lane, hsz]; omega
  rcases Nat.eq_zero_or_pos k with h0 | hpos
  · subst h0
    have : rd (lane c j) t = 0 := rd_lane_zero c hc j t
    simp [inttLane, inttLaneS, curMod, this]
  · obtain ⟨cF, _, cR, eq, eΩ, _⟩ := cert_current k j hpos hk hj
    obtain ⟨hq, _, _, _⟩ := certBound_spec cF
    simp only [rootsOK, Bool.and_eq_true, decide_eq_true_eq] at cR
    rw [← eq, ← eΩ] at cR
    rw [← eq] at hq
    obtain ⟨hwv, hn⟩ := roots_cast _ _ k hq cR.1 cR.2
    have hz : (fun t => ((rd (lane c j) t : Nat) : ZMod (Gen.inttMeta k j).q)) = fun _ => 0 := by
      funext t; rw [rd_lane_zero c hc j t]; simp
    have h := ((intt_nowrap k j hpos hk hj (lane c j) hl
      (fun i _ => by rw [rd_lane_zero c hc j i]; decide)).2 t ht).2
    rw [hz, exIntt_zero _ _ _ k hwv hn] at h
    have h' := mod_eq_of_cast (b := 0) (by rw [h]; simp)
    have h'' := congrArg (fun n : Nat => (n : Int)) h'
    simp only [Int.natCast_mod] at h''
    show ((rd (inttLane k (Gen.inttMeta k j).levels (Gen.inttMeta k j).R
      (tableInv (Gen.inttMeta k j).q (Gen.inttMeta k j).Ω k (Gen.inttMeta k j).levels) (lane c j)) t : Nat) : Int)
        % ((Gen.q120_q j : Nat) : Int) = 0 % ((Gen.q120_q j : Nat) : Int)
    rw [← (meta_q k j hj).2.1]
    simpa using h''

/-! ### evaluation form -/

theorem cast_of_int_mod {q : Nat} {a : Nat} {b : Int} (h : (a : Int) % (q : Int) = b % (q : Int)) :
    ((a : Nat) : ZMod q) = ((b : Int) : ZMod q) := by
  have := (ZMod.intCast_eq_intCast_iff' (a : Int) b q).2 h
  simpa using this

theorem int_mod_of_cast {q : Nat} {a : Nat} {b : Int} (h : ((a : Nat) : ZMod q) = ((b : Int) : ZMod q)) :
    (a : Int) % (q : Int) = b % (q : Int) := by
  apply (ZMod.intCast_eq_intCast_iff' (a : Int) b q).1
  simpa using h

/-- **evaluation form of a DFT limb** (`1 ≤ k ≤ 16`): with `w_j = OMEGA_j^(2^16/n)`, a primitive `2n`-th root of unity
    modulo `q_j`, cell `(p, j)` of the DFT limb of the int64 limb `x` is, in `ZMod q_j`, the value of `Σ_t x_t X^t` at
    `w_j^(2·brev_k(p)+1)` -/
theorem dft_limb_eval (k j : Nat) (hk1 : 1 ≤ k) (hk : k ≤ 16) (hj : j < 4) (x : Array Int) (hx : ∀ t, IsI64 (x.getD t 0)) :
    let q := Gen.q120_q j
    let w : ZMod q := ((omegaN q (Gen.q120_omega j) k : Nat) : ZMod q)
    w ^ (2 ^ k) = -1 ∧
    ∀ p < 2 ^ k,
      (((dftLimb (curMod k) x).getD (4 * p + j) 0 : Nat) : ZMod q)
        = ∑ t ∈ range (2 ^ k), ((x.getD t 0 : Int) : ZMod q) * w ^ (t * (2 * brev k p + 1)) := by
  intro q w
  obtain ⟨hs, hlt, hcg⟩ := lane_b k j hj x hx
  obtain ⟨cF, _, _, _, _, cP⟩ := cert_current k j hk1 hk hj
  obtain ⟨hq, B', hc, _⟩ := certBound_spec cF
  simp only [primOK, decide_eq_true_eq] at cP
  obtain ⟨e1, _, e3⟩ := meta_q k j hj
  rw [e1, e3] at cP
  rw [e1] at hq hc
  refine ⟨cast_neg_one_of_sqPow hq cP, ?_⟩
  intro p hp
  have hcell : (dftLimb (curMod k) x).getD (4 * p + j) 0
      = rd (nttLane k (Gen.nttMeta k j).levels (Gen.nttMeta k j).R
          (tableFwd (Gen.q120_q j) (Gen.q120_omega j) k (Gen.nttMeta k j).levels)
          (lane (bFromZnx64 curParams (2 ^ k) x) j)) p := by
    have := getD_nttCells (curMod k) (bFromZnx64 curParams (2 ^ k) x) p j hp hj
    rw [← e1, ← e3]
    exact this
  rw [hcell, eval_lane (Gen.q120_q j) (Gen.q120_omega j) k hq (by omega) (Gen.nttMeta k j).levels (Gen.nttMeta k j).R
    B' hc cP _ hs hlt p hp]
  apply sum_congr rfl
  intro t ht
  rw [cast_of_int_mod (hcg t (mem_range.1 ht))]

/-! ### products in DFT space -/

/-- coefficient `i` of the negacyclic product `x·y mod X^n + 1` of two integer limbs (exact integers) -/
def nprodZ (n : Nat) (x y : Array Int) (i : Nat) : Int :=
  nmul n (fun t => x.getD t 0) (fun t => y.getD t 0) i

theorem nmul_congr {K : Type} [CommRing K] (n : Nat) (g g' h h' : Nat → K) (hg : ∀ a < n, g a = g' a)
    (hh : ∀ b < n, h b = h' b) (i : Nat) : nmul n g h i = nmul n g' h' i := by
  unfold nmul
  apply sum_congr rfl
  intro a ha
  apply sum_congr rfl
  intro b hb
  rw [hg a (mem_range.1 ha), hh b (mem_range.1 hb)]

theorem cast_nmul (q n : Nat) (g h : Nat → Int) (i : Nat) :
    ((nmul n g h i : Int) : ZMod q) = nmul n (fun t => ((g t : Int) : ZMod q)) (fun t => ((h t : Int) : ZMod q)) i := by
  unfold nmul
  rw [Int.cast_sum]
  apply sum_congr rfl
  intro a _
  rw [Int.cast_sum]
  apply sum_congr rfl
  intro b _
  split
  · rw [Int.cast_mul]
  · split
    · rw [Int.cast_neg, Int.cast_mul]
    · rw [Int.cast_zero]

/-- residues of the CRT lift -/
theorem idftLimb_mod (M : ModPre) (ok : crtOK M.P = true) (c : Array Nat) (t : Nat) (ht : t < 2 ^ M.k) (j : Nat) (hj : j < 4) :
    (idftLimb M c).getD t 0 % (M.P.q j : Int)
      = ((rd (inttLane M.k (M.inv j).levels (M.inv j).R (M.inv j).tbl (lane c j)) t : Nat) : Int) % (M.P.q j : Int) := by
  unfold idftLimb
  rw [bToZnx128Vec_getD _ M.nn _ _ ht, bToZnx128_mod M.P ok _ _ _ _ j hj, sel4_getD _ t j hj,
    getD_inttCells M c t j ht hj, Int.natCast_mod]

/-- one lane of `idft_prod_limb` -/
theorem prod_lane_cur (k j : Nat) (hk1 : 1 ≤ k) (hk : k ≤ 16) (hj : j < 4)
    (x y : Array Int) (hx : ∀ t, IsI64 (x.getD t 0)) (hy : ∀ t, IsI64 (y.getD t 0))
    (pc : Array Nat) (hsz : pc.size = 4 * 2 ^ k) (hlt : ∀ i, pc.getD i 0 < W64)
    (hprod : ∀ t < 2 ^ k, pc.getD (4 * t + j) 0 % Gen.q120_q j
      = ((dftLimb (curMod k) x).getD (4 * t + j) 0 * (dftLimb (curMod k) y).getD (4 * t + j) 0) % Gen.q120_q j)
    (t : Nat) (ht : t < 2 ^ k) :
    ((rd (inttLane k ((curMod k).inv j).levels ((curMod k).inv j).R ((curMod k).inv j).tbl (lane pc j)) t : Nat) : Int)
        % (Gen.q120_q j : Int) = nprodZ (2 ^ k) x y t % (Gen.q120_q j : Int) := by
  obtain ⟨cF, cI, cR, eq, eΩ, cP⟩ := cert_current k j hk1 hk hj
  obtain ⟨hq, BF, hcF, _⟩ := certBound_spec cF
  obtain ⟨_, BI, hcI, _⟩ := certBound_spec cI
  simp only [rootsOK, Bool.and_eq_true, decide_eq_true_eq] at cR
  simp only [primOK, decide_eq_true_eq] at cP
  obtain ⟨e1, _, _⟩ := meta_q k j hj
  obtain ⟨hsx, hltx, hcgx⟩ := lane_b k j hj x hx
  obtain ⟨hsy, hlty, hcgy⟩ := lane_b k j hj y hy
  have hsp : (lane pc j).size = 2 ^ k := by rw [size_lane, hsz]; omega
  have hltp : ∀ i < 2 ^ k, rd (lane pc j) i < W64 := fun i hi => by
    rw [rd_lane _ _ _ (by rw [hsz]; omega)]; exact hlt _
  rw [eq] at hcI
  have hpr : ∀ i < 2 ^ k, rd (lane pc j) i % (Gen.nttMeta k j).q
      = (rd (nttLane k (Gen.nttMeta k j).levels (Gen.nttMeta k j).R
            (tableFwd (Gen.nttMeta k j).q (Gen.nttMeta k j).Ω k (Gen.nttMeta k j).levels)
            (lane (bFromZnx64 curParams (2 ^ k) x) j)) i
        * rd (nttLane k (Gen.nttMeta k j).levels (Gen.nttMeta k j).R
            (tableFwd (Gen.nttMeta k j).q (Gen.nttMeta k j).Ω k (Gen.nttMeta k j).levels)
            (lane (bFromZnx64 curParams (2 ^ k) y) j)) i) % (Gen.nttMeta k j).q := by
    intro i hi
    have h := hprod i hi
    rw [show dftLimb (curMod k) x = nttCells (curMod k) (bFromZnx64 curParams (2 ^ k) x) from rfl,
      show dftLimb (curMod k) y = nttCells (curMod k) (bFromZnx64 curParams (2 ^ k) y) from rfl,
      getD_nttCells (curMod k) _ i j hi hj, getD_nttCells (curMod k) _ i j hi hj] at h
    rw [← e1] at h
    rw [rd_lane _ _ _ (by rw [hsz]; omega)]
    exact h
  have h := mul_lane (Gen.nttMeta k j).q (Gen.nttMeta k j).Ω k hq (by omega) (Gen.nttMeta k j).levels
    (Gen.inttMeta k j).levels (Gen.nttMeta k j).R (Gen.inttMeta k j).R BF BI hcF hcI cR.1 cR.2 cP
    (lane (bFromZnx64 curParams (2 ^ k) x) j) (lane (bFromZnx64 curParams (2 ^ k) y) j) (lane pc j)
    hsx hsy hsp hltx hlty hltp hpr t ht
  have hnm : nmul (2 ^ k)
      (fun t => ((rd (lane (bFromZnx64 curParams (2 ^ k) x) j) t : Nat) : ZMod (Gen.nttMeta k j).q))
      (fun t => ((rd (lane (bFromZnx64 curParams (2 ^ k) y) j) t : Nat) : ZMod (Gen.nttMeta k j).q)) t
      = ((nprodZ (2 ^ k) x y t : Int) : ZMod (Gen.nttMeta k j).q) := by
    unfold nprodZ
    rw [cast_nmul]
    apply nmul_congr
    · intro a ha; exact cast_of_int_mod (by rw [e1]; exact hcgx a ha)
    · intro b hb; exact cast_of_int_mod (by rw [e1]; exact hcgy b hb)
  rw [hnm] at h
  have h2 := int_mod_of_cast h
  show ((rd (inttLane k (Gen.inttMeta k j).levels (Gen.inttMeta k j).R
      (tableInv (Gen.inttMeta k j).q (Gen.inttMeta k j).Ω k (Gen.inttMeta k j).levels) (lane pc j)) t : Nat) : Int)
        % ((Gen.q120_q j : Nat) : Int) = _
  rw [eq, eΩ, ← e1]
  exact h2

end Spq.ModuleNtt
