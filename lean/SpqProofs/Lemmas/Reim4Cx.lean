/-
  Exact-arithmetic instance of the kernels' arithmetic and the complex numbers `Cx R` over a
  commutative ring `R` the C17 arithmetic theorems are stated with:
    (a + ib)(c + id) = (ac − bd) + i(ad + bc).
-/
import SpqProofs.Lemmas.Reim4Kernels
import Mathlib.Algebra.BigOperators.Intervals
import Mathlib.Tactic.Ring
namespace Spq
open Finset

/-- the arithmetic of a commutative ring: every operation exact, `fma a b c = a*b + c`, `fms a b c = a*b - c` -/
def RArith.ofRing (R : Type) [CommRing R] : RArith R :=
  { zero := 0, add := (· + ·), sub := (· - ·), mul := (· * ·), fma := fun a b c => a * b + c, fms := fun a b c => a * b - c }

/-- complex numbers over `R` -/
@[ext] structure Cx (R : Type) where
  re : R
  im : R

namespace Cx
variable {R : Type} [CommRing R]

instance : Zero (Cx R) := ⟨⟨0, 0⟩⟩
instance : Add (Cx R) := ⟨fun x y => ⟨x.re + y.re, x.im + y.im⟩⟩
/-- `(a + ib)(c + id) = (ac − bd) + i(ad + bc)` -/
instance : Mul (Cx R) := ⟨fun x y => ⟨x.re * y.re - x.im * y.im, x.re * y.im + x.im * y.re⟩⟩

@[simp] theorem zero_re : (0 : Cx R).re = 0 := rfl
@[simp] theorem zero_im : (0 : Cx R).im = 0 := rfl
@[simp] theorem add_re (x y : Cx R) : (x + y).re = x.re + y.re := rfl
@[simp] theorem add_im (x y : Cx R) : (x + y).im = x.im + y.im := rfl
@[simp] theorem mul_re (x y : Cx R) : (x * y).re = x.re * y.re - x.im * y.im := rfl
@[simp] theorem mul_im (x y : Cx R) : (x * y).im = x.re * y.im + x.im * y.re := rfl

instance : AddCommMonoid (Cx R) where
  add_assoc := by intro a b c; ext <;> simp [add_assoc]
  zero_add := by intro a; ext <;> simp
  add_zero := by intro a; ext <;> simp
  add_comm := by intro a b; ext <;> simp [add_comm]
  nsmul := nsmulRec

theorem mul_comm' (x y : Cx R) : x * y = y * x := by ext <;> simp <;> ring

def reHom : Cx R →+ R := { toFun := Cx.re, map_zero' := rfl, map_add' := fun _ _ => rfl }
def imHom : Cx R →+ R := { toFun := Cx.im, map_zero' := rfl, map_add' := fun _ _ => rfl }

theorem sum_re {ι : Type} (s : Finset ι) (f : ι → Cx R) : (∑ i ∈ s, f i).re = ∑ i ∈ s, (f i).re :=
  map_sum reHom f s
theorem sum_im {ι : Type} (s : Finset ι) (f : ι → Cx R) : (∑ i ∈ s, f i).im = ∑ i ∈ s, (f i).im :=
  map_sum imHom f s

end Cx

/-- the complex number stored in cells `(i, j)` of an array -/
def cx {R : Type} [CommRing R] (a : Array R) (i j : Nat) : Cx R := ⟨a.getD i 0, a.getD j 0⟩

@[simp] theorem cx_re {R : Type} [CommRing R] (a : Array R) (i j : Nat) : (cx a i j).re = a.getD i 0 := rfl
@[simp] theorem cx_im {R : Type} [CommRing R] (a : Array R) (i j : Nat) : (cx a i j).im = a.getD j 0 := rfl

section
variable {R : Type} [CommRing R]
@[simp] theorem ofRing_zero : (RArith.ofRing R).zero = 0 := rfl
@[simp] theorem ofRing_add (a b : R) : (RArith.ofRing R).add a b = a + b := rfl
@[simp] theorem ofRing_sub (a b : R) : (RArith.ofRing R).sub a b = a - b := rfl
@[simp] theorem ofRing_mul (a b : R) : (RArith.ofRing R).mul a b = a * b := rfl
@[simp] theorem ofRing_fma (a b c : R) : (RArith.ofRing R).fma a b c = a * b + c := rfl
@[simp] theorem ofRing_fms (a b c : R) : (RArith.ofRing R).fms a b c = a * b - c := rfl
@[simp] theorem reRef_ofRing (a b c d : R) : Reim4.reRef (RArith.ofRing R) a b c d = a * c - b * d := rfl
@[simp] theorem imRef_ofRing (a b c d : R) : Reim4.imRef (RArith.ofRing R) a b c d = a * d + b * c := rfl
end

end Spq
