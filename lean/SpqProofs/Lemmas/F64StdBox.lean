/-
  The example arrays of `F64StdEx.lean` lie in the box `(g, E0) = (0, 2)` (integers of magnitude ≤ 4).
-/
import SpqProofs.Lemmas.F64StdEx
import SpqProofs.Lemmas.F64StdAbs
import Mathlib.Tactic.IntervalCases
namespace Spq.F64

theorem gridQ_ofInt (x : Int) (hx : x.natAbs < 9007199254740992) : GridQ 0 (val (ofInt x)) := by
  rw [val_ofInt hx]; exact ⟨x, by simp⟩

theorem box_small_int {b : Nat} {x : Int} (h : b = ofInt x) (hx : x.natAbs ≤ 4) :
    Fin64 b ∧ GridQ 0 (val b) ∧ |val b| ≤ 2 ^ (2 : ℤ) := by
  have hx' : x.natAbs < 9007199254740992 := by omega
  subst h
  refine ⟨?_, gridQ_ofInt x hx', ?_⟩
  · have := (packSigned_std x 0 false (by
      rw [zpow_zero, mul_one]; exact (normalRange_int x hx').noOvf)).1.1
    exact this
  · rw [val_ofInt hx', ← natAbs_cast_abs]
    have h4 : ((x.natAbs : ℕ) : ℚ) ≤ 4 := by exact_mod_cast hx
    have e : (2 : ℚ) ^ (2 : ℤ) = 4 := by norm_num
    rw [e]; exact h4

theorem exU_box : InBox 0 2 exU := by
  intro i hi
  have hi' : i < 8 := hi
  have p1 : (4607182418800017408 : Nat) = ofInt 1 := by decide +kernel
  have p3 : (4613937818241073152 : Nat) = ofInt 3 := by decide +kernel
  interval_cases i
  all_goals first
    | exact box_small_int (x := 3) p3 (by decide)
    | exact box_small_int (x := 1) p1 (by decide)

theorem exV_box : InBox 0 2 exV := by
  intro i hi
  have hi' : i < 8 := hi
  have p1 : (4607182418800017408 : Nat) = ofInt 1 := by decide +kernel
  have p2 : (4611686018427387904 : Nat) = ofInt 2 := by decide +kernel
  interval_cases i
  all_goals first
    | exact box_small_int (x := 2) p2 (by decide)
    | exact box_small_int (x := 1) p1 (by decide)
end Spq.F64
