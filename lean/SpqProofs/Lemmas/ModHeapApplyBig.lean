/-
  Heap-level simulation of the block loop of `fft64_vmp_apply_dft_to_dft_{ref,avx}` (`nn ≥ 8`): the result region
  evolves as the raw filler `applyBigG (map enc)`, the scratch (`tmp[0,16)` accumulator, `tmp[16, 16+8*row_max)`
  extracted block) stays inside its declared extent, nothing else changes.
-/
import SpqProofs.Lemmas.ModHeapApplyStep
namespace Spq.ModuleHeap
open Spq Heap Reim4
variable {γ α : Type}

/-! ### the loop bodies of the model, named -/

def pairBody (c : Module.Parts α) (cd : Cells γ α) (res pmat nrows ncols tmp tb rowMax blk t : Nat) (h : Heap γ) : Heap γ :=
  h |> scr tb 0 16 |> scr tb 16 (8 * rowMax)
    |> kProd2 c cd rowMax nrows tmp (tmp + 16) (pmat + blk * (8 * nrows * ncols) + 2 * t * (8 * nrows))
    |> kSave c cd blk (res + 2 * t * c.nn) tmp
    |> kSave c cd blk (res + (2 * t + 1) * c.nn) (tmp + 8)

def tailBody (c : Module.Parts α) (cd : Cells γ α) (res pmat nrows ncols tmp tb rowMax colMax blk : Nat) (h : Heap γ) : Heap γ :=
  (if ncols == colMax then
      h |> scr tb 0 8 |> scr tb 16 (8 * rowMax)
        |> kProd1 c cd rowMax nrows tmp (tmp + 16) (pmat + blk * (8 * nrows * ncols) + (colMax - 1) * (8 * nrows))
    else
      h |> scr tb 0 16 |> scr tb 16 (8 * rowMax)
        |> kProd2 c cd rowMax nrows tmp (tmp + 16) (pmat + blk * (8 * nrows * ncols) + (colMax - 1) * (8 * nrows)))
    |> kSave c cd blk (res + (colMax - 1) * c.nn) tmp

def bigBody (c : Module.Parts α) (cd : Cells γ α) (res adft pmat nrows ncols tmp tb rowMax colMax blk : Nat) (h : Heap γ) : Heap γ :=
  let h := h |> scr tb 16 (8 * rowMax) |> kExtractRows c cd rowMax blk (tmp + 16) adft
  let h := h |> loop (colMax / 2) (fun t h => pairBody c cd res pmat nrows ncols tmp tb rowMax blk t h)
  if colMax % 2 == 1 then tailBody c cd res pmat nrows ncols tmp tb rowMax colMax blk h else h

def smallBody (c : Module.Parts α) (cd : Cells γ α) (res adft pmat nrows rowMax col : Nat) (h : Heap γ) : Heap γ :=
  if rowMax == 0 then kZeroD c cd (res + col * c.nn) c.nn h
  else
    h |> kMul c cd (res + col * c.nn) adft (pmat + col * nrows * c.nn)
      |> loop (rowMax - 1) (fun k => kAddmul c cd (res + col * c.nn) (adft + (k + 1) * c.nn) (pmat + col * nrows * c.nn + (k + 1) * c.nn))

theorem vmpApplyDftToDft_unfold (c : Module.Parts α) (cd : Cells γ α) (h : Heap γ)
    (res rsz adft asz pmat nrows ncols tmp tb : Nat) :
    vmpApplyDftToDft c cd h res rsz adft asz pmat nrows ncols tmp tb =
      kZeroD c cd (res + min ncols rsz * c.nn) ((rsz - min ncols rsz) * c.nn)
        (if c.nn ≥ 8 then loop (c.m / 4) (bigBody c cd res adft pmat nrows ncols tmp tb (min nrows asz) (min ncols rsz)) h
         else loop (min ncols rsz) (smallBody c cd res adft pmat nrows (min nrows asz)) h) := rfl

/-! ### context of the block loop -/

structure BigCtx (c : Module.Parts α) (h : Heap γ) (res rsz adft pmat nrows ncols tmp tb rowMax colMax : Nat) : Prop where
  hnn : c.nn = 2 * c.m
  hm4 : c.m % 4 = 0
  hcol : colMax ≤ ncols
  hcolr : colMax ≤ rsz
  htb : 128 + 64 * rowMax ≤ tb
  hres : res + rsz * c.nn ≤ h.mem.size
  hadft : adft + rowMax * c.nn ≤ h.mem.size
  hpm : pmat + c.nn * nrows * ncols ≤ h.mem.size
  htmp : tmp + (16 + 8 * rowMax) ≤ h.mem.size
  dra : adft + rowMax * c.nn ≤ res ∨ res + rsz * c.nn ≤ adft
  drp : pmat + c.nn * nrows * ncols ≤ res ∨ res + rsz * c.nn ≤ pmat
  drt : tmp + (16 + 8 * rowMax) ≤ res ∨ res + rsz * c.nn ≤ tmp
  dat : tmp + (16 + 8 * rowMax) ≤ adft ∨ adft + rowMax * c.nn ≤ tmp
  dpt : tmp + (16 + 8 * rowMax) ≤ pmat ∨ pmat + c.nn * nrows * ncols ≤ tmp

/-- the cells the block loop may change -/
def bigW (c : Module.Parts α) (res rsz tmp rowMax : Nat) (x : Nat) : Prop :=
  In res (rsz * c.nn) x ∨ In tmp (16 + 8 * rowMax) x

section
variable (c : Module.Parts α) (cd : Cells γ α) (hr : RoundTrip cd) (h : Heap γ)
  (res rsz adft pmat nrows ncols tmp tb rowMax colMax : Nat)
  (K : BigCtx c h res rsz adft pmat nrows ncols tmp tb rowMax colMax)
include hr K

/-- invariant inside one block: frame, content of the result region, content of the extraction buffer -/
def BlkInv (blk : Nat) (g : Heap γ) (R : Array γ) : Prop :=
  (Fr (bigW c res rsz tmp rowMax) h g ∧ g.readLimb cd.dflt res (rsz * c.nn) = R) ∧
  g.readLimb cd.dflt (tmp + 16) (8 * rowMax) =
    (extOf c rowMax blk (rdD cd h adft (rowMax * c.nn))).map cd.enc

omit hr K in
theorem blkInv_def (blk : Nat) (g : Heap γ) (R : Array γ) :
    BlkInv c cd h res rsz adft tmp rowMax blk g R ↔
    ((Fr (bigW c res rsz tmp rowMax) h g ∧ g.readLimb cd.dflt res (rsz * c.nn) = R) ∧
      g.readLimb cd.dflt (tmp + 16) (8 * rowMax) = (extOf c rowMax blk (rdD cd h adft (rowMax * c.nn))).map cd.enc) := Iff.rfl

/-- a save of 8 accumulator cells (at `src` inside `tmp[0,16)`) into limb `col`, after a step `g → ga` that changed
    the accumulator only -/
theorem prodSaveStep (blk col src : Nat) (hblk : blk < c.m / 4) (hcol : col < colMax) (hsrc : tmp ≤ src ∧ src + 8 ≤ tmp + 16)
    (g ga : Heap γ) (R : Array γ)
    (O8 : Array α) (P : BlkInv c cd h res rsz adft tmp rowMax blk g R)
    (fa : Fr (In tmp 16) g ga) (va : ga.readLimb cd.dflt src 8 = O8.map cd.enc) (hO : O8.size = 8) :
    BlkInv c cd h res rsz adft tmp rowMax blk (kSave c cd blk (res + col * c.nn) src ga)
      (saveG (Array.map cd.enc) c.m c.nn blk R col O8) ∧
    Fr (In res (rsz * c.nn)) ga (kSave c cd blk (res + col * c.nn) src ga) := by
  obtain ⟨⟨f, v⟩, ve⟩ := P
  have hm := mul_step col rsz c.nn (by have := K.hcolr; omega)
  have h1 := K.hnn; have h2 := K.hm4; have h3 := K.hres; have h4 := K.htmp; have h5 := K.drt
  have Fa := f.trans fa
  have vra : ga.readLimb cd.dflt res (rsz * c.nn) = R := by
    rw [region_keep cd.dflt res _ fa (fun x hx hw => by unfold In at *; omega)]; exact v
  obtain ⟨fs, vs⟩ := saveStep c cd hr ga res (rsz * c.nn) blk col src R O8 hO vra va
    (by rw [Fa.size]; omega) (by rw [Fa.size]; omega) (by omega) (by omega) (by omega)
  refine ⟨⟨⟨(Fa.trans fs).mono (fun x q => ?_), vs⟩, ?_⟩, fs⟩
  · unfold bigW at *
    rcases q with (q | q) | q
    · exact q
    · right; unfold In at *; omega
    · exact Or.inl q
  · rw [region_keep cd.dflt _ _ fs (fun x hx hw => by unfold In at *; omega),
        region_keep cd.dflt _ _ fa (fun x hx hw => by unfold In at *; omega)]
    exact ve

end
end Spq.ModuleHeap
