/-
  Discrete-log coordinates on one valuation class of `[0, 2^(b+n+2))`:
  `Rel b n y e` says `y ≡ ± 2^b · 5^e (mod 2^(b+n+2))`.
-/
import SpqProofs.Lemmas.CoeffsPow5
import SpqProofs.Lemmas.CoeffsBasic
namespace Spq.Rq

/-- `y ≡ ± 2^b·5^e` modulo `2^(b+n+2)` -/
def Rel (b n y e : Nat) : Prop :=
  ((y : ZMod (2 ^ (b + n + 2))) = 2 ^ b * 5 ^ e) ∨ ((y : ZMod (2 ^ (b + n + 2))) = -(2 ^ b * 5 ^ e))

theorem zmod_bridge (b n : Nat) (X : Int) :
    ((2 : ZMod (2 ^ (b + n + 2))) ^ b * ((X : Int) : ZMod (2 ^ (b + n + 2))) = 0) ↔ (2 : Int) ^ (n + 2) ∣ X := by
  have : ((2 : ZMod (2 ^ (b + n + 2))) ^ b * ((X : Int) : ZMod (2 ^ (b + n + 2)))) =
      (((2 : Int) ^ b * X : Int) : ZMod (2 ^ (b + n + 2))) := by push_cast; rfl
  rw [this, ZMod.intCast_zmod_eq_zero_iff_dvd]
  have e : ((2 ^ (b + n + 2) : Nat) : Int) = (2 : Int) ^ b * (2 : Int) ^ (n + 2) := by
    push_cast; ring
  rw [e]
  exact mul_dvd_mul_iff_left (by positivity)

theorem cell_eq_iff (b n e e' : Nat) :
    ((2 : ZMod (2 ^ (b + n + 2))) ^ b * 5 ^ e = 2 ^ b * 5 ^ e') ↔ e ≡ e' [MOD 2 ^ n] := by
  rw [← five_pow_sub_dvd_iff, ← zmod_bridge b n]
  push_cast
  constructor
  · intro h; rw [mul_sub, h, sub_self]
  · intro h; rw [mul_sub] at h; exact sub_eq_zero.1 h

theorem cell_ne_neg (b n e e' : Nat) :
    ((2 : ZMod (2 ^ (b + n + 2))) ^ b * 5 ^ e) ≠ -(2 ^ b * 5 ^ e') := by
  intro h
  apply five_pow_add_not_dvd n e e'
  rw [← zmod_bridge b n]
  push_cast
  rw [mul_add, h]; ring

theorem Rel.unique {b n y e e' : Nat} (h : Rel b n y e) (h' : Rel b n y e') : e ≡ e' [MOD 2 ^ n] := by
  rcases h with h | h <;> rcases h' with h' | h'
  · exact (cell_eq_iff b n e e').1 (h.symm.trans h')
  · exact absurd (h.symm.trans h') (cell_ne_neg b n e e')
  · exact absurd (h'.symm.trans h) (cell_ne_neg b n e' e)
  · exact (cell_eq_iff b n e e').1 (neg_injective (h.symm.trans h'))

theorem Rel.congr {b n y e e' : Nat} (h : Rel b n y e) (he : e ≡ e' [MOD 2 ^ n]) : Rel b n y e' := by
  have := (cell_eq_iff b n e e').2 he
  rcases h with h | h
  · left; rw [h, this]
  · right; rw [h, this]

theorem natCast_inj_of_lt {N y z : Nat} (hy : y < N) (hz : z < N) (h : (y : ZMod N) = z) : y = z := by
  rw [ZMod.natCast_eq_natCast_iff] at h
  exact Nat.ModEq.eq_of_lt_of_lt h hy hz

theorem natCast_mirror {N y : Nat} (hy : y ≤ N) : ((N - y : Nat) : ZMod N) = -(y : ZMod N) := by
  rw [Nat.cast_sub hy, ZMod.natCast_self]; ring

theorem Rel.mirror {b n y e : Nat} (h : Rel b n y e) (hy : y ≤ 2 ^ (b + n + 2)) :
    Rel b n (2 ^ (b + n + 2) - y) e := by
  unfold Rel
  rw [natCast_mirror hy]
  rcases h with h | h
  · right; rw [h]
  · left; rw [h]; ring

theorem Rel.eq_or_mirror {b n y z e : Nat} (hy : y < 2 ^ (b + n + 2)) (hz : z < 2 ^ (b + n + 2))
    (hz0 : 0 < z) (h : Rel b n y e) (h' : Rel b n z e) : y = z ∨ y = 2 ^ (b + n + 2) - z := by
  have hm : ((2 ^ (b + n + 2) - z : Nat) : ZMod (2 ^ (b + n + 2))) = -(z : ZMod _) :=
    natCast_mirror (by omega)
  rcases h with h | h <;> rcases h' with h' | h'
  · left; exact natCast_inj_of_lt hy hz (h.trans h'.symm)
  · right; apply natCast_inj_of_lt hy (by omega); rw [hm, h', h]; ring
  · right; apply natCast_inj_of_lt hy (by omega); rw [hm, h', h]
  · left; exact natCast_inj_of_lt hy hz (h.trans h'.symm)

theorem five_pow_odd (e : Nat) : (5 : Int) ^ e % 2 = 1 := by
  have := five_pow_mod_four e; omega

theorem two_pow_succ_dvd_N (b n : Nat) : ((2 : Int) ^ (b + 1)) ∣ ((2 ^ (b + n + 2) : Nat) : Int) := by
  refine ⟨2 ^ (n + 1), ?_⟩
  push_cast; ring

/-- a cell related to some exponent lies in the valuation class `b` -/
theorem Rel.cls {b n y e : Nat} (h : Rel b n y e) : y % 2 ^ (b + 1) = 2 ^ b := by
  obtain ⟨k, hk⟩ : ∃ k : Int, (5 : Int) ^ e = 2 * k + 1 :=
    ⟨(5 : Int) ^ e / 2, by have := five_pow_odd e; omega⟩
  have hpos : (0 : Int) < 2 ^ b := by positivity
  have key : ((y : Int)) % (2 : Int) ^ (b + 1) = 2 ^ b := by
    apply emod_eq_of_dvd_sub (by positivity) (by rw [pow_succ]; omega)
    rcases h with h | h
    · have h1 : ((y : Int) : ZMod (2 ^ (b + n + 2))) = (((2 : Int) ^ b * 5 ^ e : Int) : ZMod _) := by
        push_cast; exact h
      rw [ZMod.intCast_eq_intCast_iff_dvd_sub] at h1
      have h2 := Dvd.dvd.trans (two_pow_succ_dvd_N b n) h1
      obtain ⟨c, hc⟩ := h2
      refine ⟨k - c, ?_⟩
      rw [hk] at hc
      have : (2 : Int) ^ (b + 1) = 2 * 2 ^ b := by ring
      rw [this] at hc ⊢
      linear_combination (-1 : Int) * hc
    · have h1 : ((y : Int) : ZMod (2 ^ (b + n + 2))) = ((-((2 : Int) ^ b * 5 ^ e) : Int) : ZMod _) := by
        push_cast; exact h
      rw [ZMod.intCast_eq_intCast_iff_dvd_sub] at h1
      have h2 := Dvd.dvd.trans (two_pow_succ_dvd_N b n) h1
      obtain ⟨c, hc⟩ := h2
      refine ⟨-k - 1 - c, ?_⟩
      rw [hk] at hc
      have : (2 : Int) ^ (b + 1) = 2 * 2 ^ b := by ring
      rw [this] at hc ⊢
      linear_combination (-1 : Int) * hc
  have : ((y % 2 ^ (b + 1) : Nat) : Int) = ((2 ^ b : Nat) : Int) := by
    push_cast; exact key
  exact_mod_cast this

/-- every cell of the valuation class `b` is `± 2^b·5^e` -/
theorem Rel.exists {b n y : Nat} (hy : y % 2 ^ (b + 1) = 2 ^ b) : ∃ e, e < 2 ^ n ∧ Rel b n y e := by
  have hB : 0 < 2 ^ b := Nat.pow_pos (by norm_num)
  have e1 := Nat.div_add_mod y (2 ^ (b + 1))
  rw [hy] at e1
  have hyu : y = 2 ^ b * (2 * (y / 2 ^ (b + 1)) + 1) := by
    generalize y / 2 ^ (b + 1) = q at e1
    rw [pow_succ] at e1; rw [← e1]; ring
  set u := 2 * (y / 2 ^ (b + 1)) + 1 with hu
  obtain ⟨e, he, hd⟩ := odd_dlog n u (by omega)
  refine ⟨e, he, ?_⟩
  have hy' : (y : ZMod (2 ^ (b + n + 2))) = 2 ^ b * (u : ZMod _) := by
    rw [hyu]; push_cast; ring
  rcases hd with hd | hd
  · left
    have := (zmod_bridge b n _).2 hd
    push_cast at this
    rw [hy']; linear_combination this
  · right
    have := (zmod_bridge b n _).2 hd
    push_cast at this
    rw [hy']; linear_combination this

/-- position map of the automorphism: `j ↦ (j·pm mod 2N) mod N` -/
def autSigma (N pm j : Nat) : Nat := (j * pm) % (2 * N) % N

theorem autSigma_cast (N pm j : Nat) : ((autSigma N pm j : Nat) : ZMod N) = (j : ZMod N) * pm := by
  unfold autSigma
  rw [Nat.mod_mod_of_dvd _ ⟨2, by ring⟩, ZMod.natCast_mod, Nat.cast_mul]

theorem autSigma_lt (N pm j : Nat) (hN : 0 < N) : autSigma N pm j < N := Nat.mod_lt _ hN

/-- the multiplier is `± 5^a` on the class -/
theorem pm_dlog (b n pm : Nat) (hpm : pm % 2 = 1) :
    ∃ a, a < 2 ^ n ∧ ∃ ε : ZMod (2 ^ (b + n + 2)), (ε = 1 ∨ ε = -1) ∧
      (2 : ZMod (2 ^ (b + n + 2))) ^ b * pm = ε * (2 ^ b * 5 ^ a) := by
  obtain ⟨a, ha, hd⟩ := odd_dlog n pm hpm
  refine ⟨a, ha, ?_⟩
  rcases hd with hd | hd
  · refine ⟨1, Or.inl rfl, ?_⟩
    have := (zmod_bridge b n _).2 hd
    push_cast at this
    linear_combination this
  · refine ⟨-1, Or.inr rfl, ?_⟩
    have := (zmod_bridge b n _).2 hd
    push_cast at this
    linear_combination this

theorem Rel.step {b n pm a y e : Nat} (ε : ZMod (2 ^ (b + n + 2))) (hε : ε = 1 ∨ ε = -1)
    (hpm : (2 : ZMod (2 ^ (b + n + 2))) ^ b * pm = ε * (2 ^ b * 5 ^ a)) (hre : Rel b n y e) :
    Rel b n (autSigma (2 ^ (b + n + 2)) pm y) (e + a) := by
  have h1 := autSigma_cast (2 ^ (b + n + 2)) pm y
  rcases hre with h | h
  · rcases hε with he | he
    · left; rw [h1, h]; rw [he] at hpm
      linear_combination (5 ^ e : ZMod (2 ^ (b + n + 2))) * hpm
    · right; rw [h1, h]; rw [he] at hpm; linear_combination (5 ^ e : ZMod (2 ^ (b + n + 2))) * hpm
  · rcases hε with he | he
    · right; rw [h1, h]; rw [he] at hpm; linear_combination (-(5 ^ e) : ZMod (2 ^ (b + n + 2))) * hpm
    · left; rw [h1, h]; rw [he] at hpm; linear_combination (-(5 ^ e) : ZMod (2 ^ (b + n + 2))) * hpm

theorem sign_pow {R : Type} [Ring R] (ε : R) (h : ε = 1 ∨ ε = -1) (i : Nat) : ε ^ i = 1 ∨ ε ^ i = -1 := by
  rcases h with h | h
  · left; rw [h, one_pow]
  · rw [h]; exact neg_one_pow_eq_or R i

theorem autSigma_iter_cast (b n pm a : Nat) (ε : ZMod (2 ^ (b + n + 2)))
    (hpm : (2 : ZMod (2 ^ (b + n + 2))) ^ b * pm = ε * (2 ^ b * 5 ^ a)) (j0 l : Nat)
    (hj0 : (j0 : ZMod (2 ^ (b + n + 2))) = 2 ^ b * 5 ^ l) (i : Nat) :
    (((autSigma (2 ^ (b + n + 2)) pm)^[i] j0 : Nat) : ZMod (2 ^ (b + n + 2))) =
      ε ^ i * (2 ^ b * 5 ^ (l + i * a)) := by
  induction i with
  | zero => simp [hj0]
  | succ i ih =>
    rw [Function.iterate_succ_apply', autSigma_cast, ih]
    have : (5 : ZMod (2 ^ (b + n + 2))) ^ (l + (i + 1) * a) = 5 ^ (l + i * a) * 5 ^ a := by
      rw [← pow_add]; congr 1; ring
    rw [this]
    linear_combination (ε ^ i * 5 ^ (l + i * a)) * hpm

theorem autSigma_iter_rel (b n pm a : Nat) (ε : ZMod (2 ^ (b + n + 2))) (hε : ε = 1 ∨ ε = -1)
    (hpm : (2 : ZMod (2 ^ (b + n + 2))) ^ b * pm = ε * (2 ^ b * 5 ^ a)) (j0 l : Nat)
    (hj0 : (j0 : ZMod (2 ^ (b + n + 2))) = 2 ^ b * 5 ^ l) (i : Nat) :
    Rel b n ((autSigma (2 ^ (b + n + 2)) pm)^[i] j0) (l + i * a) := by
  have h := autSigma_iter_cast b n pm a ε hpm j0 l hj0 i
  rcases sign_pow ε hε i with s | s
  · left; rw [h, s, one_mul]
  · right; rw [h, s]; ring

end Spq.Rq
