/-
  C16, binary64 side: the flag hypotheses inside the budgets reduce to their UNDERFLOW half (C02Err item 4): with the
  coefficient box and stored twiddles that are finite doubles of magnitude `≤ 1` (`TabOk`), the underflow-only flags
  (`RtOkU`, `PipeOkU`, `VmpOkU`) imply the full flags used by `RtBudget`, `ProdBudget`, `VmpBudget`.
-/
import SpqProofs.Lemmas.ProgErrMod
import SpqProofs.Lemmas.VmpErrOvf12
set_option linter.unusedSectionVars false
namespace Spq.ProgErr
open Finset Spq Spq.Module Spq.Fft Spq.Fft.Alg Spq.Fft.SimP Spq.Fft.LevelN Spq.Fft.SchedN Spq.Fft.RelN Spq.FftErr Spq.F64
  Spq.Reim4 Spq.ProdErr Spq.VmpErr Spq.Conv
variable {K : Type} [Field K] [LinearOrder K] [IsStrictOrderedRing K]

/-- underflow-only flags of the round trip -/
structure RtOkU (c : Cfg) (k : ℕ) (cN sN cNi sNi : ℕ → ℕ) (a : Array Int) : Prop where
  okF : FwdOkU c k cN sN a
  okI : ∀ p, p < 2 * 2 ^ k →
    ((reimIfftA (ifamOf c.ifftFma aU) (2 ^ k) ((((reimIfftEnts (2 ^ k)).map (valP cNi sNi)).toArray).map lift)
      ((stF c k cN sN a).map lift))[p]!).2

/-- round trip: no exact intermediate exceeds `2^(50+6k)` -/
theorem rt_no_ovf (c : Cfg) (k : ℕ) (hk : k ≤ 100) (cN sN cNi sNi : ℕ → ℕ) (h : CfgOk c k cN sN cNi sNi)
    (htab : TabOk cN sN) (htabi : TabOk cNi sNi) (a : Array Int) (ha : Box k a) (hok : RtOkU c k cN sN cNi sNi a) :
    RtOk c k cN sN cNi sNi a := by
  obtain ⟨fa, ba⟩ := fwd_no_ovf c k hk cN sN cNi sNi h htab a ha hok.okF
  have hFsz := VmpErr.stF_size c k cN sN cNi sNi h a ha
  have hTi : (8 : ℚ) ^ k * 2 ^ (50 + 3 * k) < Tov := by
    rw [pow8, ← pow_add]; exact pow2_lt_Tov _ (by omega)
  have ri := ifft_no_ovf' c.ifftFma k cNi sNi htabi (stF c k cN sN a) hFsz _ (by positivity)
    (fun p hp => (ba p hp).2) hTi hok.okI
  exact ⟨fa, fun p hp => (ri p hp).1⟩

theorem rtBudget_of_noovf (M : F64Mod K) (htab : TabOk M.cN M.sN) (htabi : TabOk M.cNi M.sNi) (a : Array Int)
    (hbox : Box M.k a) (hok : RtOkU M.c M.k M.cN M.sN M.cNi M.sNi a)
    (hn : ∃ na : K, 0 ≤ na ∧ n2sq K a M.N ≤ na ^ 2 ∧ ((17 * (M.k + 1 : ℚ) * u64 : ℚ) : K) * na < 1 / 2) :
    RtBudget M a :=
  ⟨hbox, rt_no_ovf M.c M.k (by have := M.hk; omega) M.cN M.sN M.cNi M.sNi M.ok.cfg htab htabi a hbox hok, hn⟩

theorem prodBudget_of_noovf (M : F64Mod K) (htab : TabOk M.cN M.sN) (htabi : TabOk M.cNi M.sNi) (a b : Array Int)
    (ha : Box M.k a) (hb : Box M.k b) (hok : PipeOkU M.c M.k M.cN M.sN M.cNi M.sNi a b)
    (hn : ∃ na nb : K, 0 ≤ na ∧ 0 ≤ nb ∧ n2sq K a M.N ≤ na ^ 2 ∧ n2sq K b M.N ≤ nb ^ 2 ∧ nb ≤ n1 K b M.N ∧
      ((12 * (M.k + 1 : ℚ) * u64 : ℚ) : K) * (n1 K a M.N * nb + na * n1 K b M.N) < 1 / 2) :
    ProdBudget M a b :=
  ⟨ha, hb, pipe_no_ovf M.c M.k (by have := M.hk; omega) M.cN M.sN M.cNi M.sNi M.ok.cfg htab htabi a b ha hb hok, hn⟩

/-- the column budget with underflow-only flags -/
def VmpColBudgetU (M : F64Mod K) (mat : Array Int) (nrows ncols : ℕ) (a : Array Int) (asz rsz j : ℕ) : Prop :=
  VmpOkU M.c M.k M.cN M.sN M.cNi M.sNi mat nrows ncols a asz M.N rsz j ∧
  ∃ na nb : ℕ → K, (∀ i, i < min nrows asz → 0 ≤ na i) ∧ (∀ i, i < min nrows asz → 0 ≤ nb i) ∧
    (∀ i, i < min nrows asz → n2sq K (limbOf a i M.N M.N) M.N ≤ na i ^ 2) ∧
    (∀ i, i < min nrows asz → n2sq K (matEntry mat ncols M.N i j) M.N ≤ nb i ^ 2) ∧
    (∀ i, i < min nrows asz → nb i ≤ n1 K (matEntry mat ncols M.N i j) M.N) ∧
    Esum K M.k mat nrows ncols a asz M.N j na nb < 1 / 2

theorem vmpBudget_of_noovf (M : F64Mod K) (htab : TabOk M.cN M.sN) (htabi : TabOk M.cNi M.sNi) (mat : Array Int)
    (nrows ncols : ℕ) (a : Array Int) (asz rsz : ℕ) (hn : 2 * min nrows asz + 2 ≤ 67108864)
    (hA : ∀ i, i < min nrows asz → Box M.k (limbOf a i M.N M.N))
    (hM : ∀ i j, i < nrows → j < ncols → Box M.k (matEntry mat ncols M.N i j))
    (hcol : ∀ j, j < min ncols rsz → (M.k < 2 → 0 < min nrows asz) → VmpColBudgetU M mat nrows ncols a asz rsz j) :
    VmpBudget M mat nrows ncols a asz rsz := by
  refine ⟨hn, hA, hM, fun j hj hpos => ?_⟩
  obtain ⟨hok, rest⟩ := hcol j hj hpos
  exact ⟨vmp_no_ovf M.c M.k (by have := M.hk; omega) M.cN M.sN M.cNi M.sNi M.ok htab htabi mat nrows ncols a asz M.N rsz
    hn hA hM j hj hpos hok, rest⟩

end Spq.ProgErr
