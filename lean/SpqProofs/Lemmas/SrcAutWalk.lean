/-
  In-place automorphism (`znx_automorphism_inplace_i64` / `rnx_automorphism_inplace_f64`): the paired orbit walk
  (inner do-while, outer while) — abstract states, relation to the model (`Coeffs.autWalkCycle`,
  `Coeffs.autWalkAll`) and the number theory: for odd `p` and `nn = 2^t`, `j ↦ j·p mod nn` never reaches 0 from a
  nonzero start and returns to its start within `nn` steps.
-/
import Spq.Coeffs
import SpqProofs.Lemmas.SrcSim
import SpqProofs.Lemmas.SrcMask
import Mathlib.Tactic.Ring
namespace Spq.CIR
open Spq

/-- locals of the inner do-while -/
structure PA where
  j : Nat
  t1 : Int
  t2 : Int
  res : Array Int
  nb : Nat
  newj : Int      -- dead between iterations: kept as the `Int` the slot holds
  newjn : Int
  t1a : Int
  t2a : Int

def pStp (o : Ops Int) (nn pm : Nat) (a : PA) : PA :=
  let newj := (a.j * pm) % (2 * nn)
  let newjn := newj % nn
  let t1a := a.res.getD newjn o.zero
  let t2a := a.res.getD (nn - newjn) o.zero
  let res' :=
    if newj < nn then (a.res.setIfInBounds newjn a.t1).setIfInBounds (nn - newjn) a.t2
    else (a.res.setIfInBounds newjn (o.neg a.t1)).setIfInBounds (nn - newjn) (o.neg a.t2)
  { j := newjn, t1 := t1a, t2 := t2a, res := res', nb := a.nb + 2, newj := (newj : Int), newjn := (newjn : Int),
    t1a := t1a, t2a := t2a }

def pEx (jstart : Nat) (a : PA) : Bool := a.j == jstart

theorem autWalkCycle_eq (o : Ops Int) (nn pm jstart : Nat) :
    ∀ (m : Nat) (a : PA),
      Coeffs.autWalkCycle o nn pm jstart m a.j a.t1 a.t2 a.res a.nb
        = ((walkA (pStp o nn pm) (pEx jstart) m a).res, (walkA (pStp o nn pm) (pEx jstart) m a).nb) := by
  intro m
  induction m with
  | zero => intro a; rfl
  | succ m ih =>
    intro a
    unfold Coeffs.autWalkCycle
    simp only [walkA]
    by_cases h : a.j * pm % (2 * nn) % nn = jstart
    · have hex : pEx jstart (pStp o nn pm a) = true := by
        simp only [pEx, pStp]; exact beq_iff_eq.mpr h
      simp only [h, if_true, hex]
      simp only [pStp, h]
    · have hex : pEx jstart (pStp o nn pm a) = false := by
        simp only [pEx, pStp]; exact beq_false_of_ne h
      simp only [h, if_false, hex, Bool.false_eq_true]
      exact ih (pStp o nn pm a)

theorem pwalk_size (o : Ops Int) (nn pm jstart : Nat) :
    ∀ (m : Nat) (a : PA), (walkA (pStp o nn pm) (pEx jstart) m a).res.size = a.res.size := by
  intro m
  induction m with
  | zero => intro a; rfl
  | succ m ih =>
    intro a
    simp only [walkA]
    have hs : (pStp o nn pm a).res.size = a.res.size := by
      simp only [pStp]; split <;> simp
    split
    · exact hs
    · rw [ih]; exact hs

theorem pwalk_nb (o : Ops Int) (nn pm jstart : Nat) :
    ∀ (m : Nat) (a : PA), a.nb + 2 ≤ (walkA (pStp o nn pm) (pEx jstart) (m + 1) a).nb ∧
      (walkA (pStp o nn pm) (pEx jstart) (m + 1) a).nb ≤ a.nb + 2 * (m + 1) := by
  intro m
  induction m with
  | zero =>
    intro a
    simp only [walkA]
    have e : (pStp o nn pm a).nb = a.nb + 2 := rfl
    split <;> omega
  | succ m ih =>
    intro a
    rw [walkA]
    have e : (pStp o nn pm a).nb = a.nb + 2 := rfl
    split
    · omega
    · have := ih (pStp o nn pm a)
      omega

/-! ### number theory -/
theorem coprime_pow2_of_odd (t pm : Nat) (h : pm % 2 = 1) : Nat.Coprime (2 ^ t) pm := by
  apply Nat.Coprime.pow_left
  unfold Nat.Coprime
  rw [Nat.gcd_rec, h]
  exact Nat.gcd_one_left 2

/-- multiplication by an odd number keeps residues mod `2^t` nonzero -/
theorem mul_odd_mod_ne_zero (t pm j : Nat) (h : pm % 2 = 1) (hj : j % 2 ^ t ≠ 0) : (j * pm) % 2 ^ t ≠ 0 := by
  intro h0
  apply hj
  have hd : 2 ^ t ∣ j * pm := Nat.dvd_of_mod_eq_zero h0
  exact Nat.mod_eq_zero_of_dvd ((coprime_pow2_of_odd t pm h).dvd_of_dvd_mul_right hd)

/-- `p^(2^t) ≡ 1 (mod 2^(t+1))` for odd `p` -/
theorem odd_pow_two_pow (pm : Nat) (h : pm % 2 = 1) : ∀ t : Nat, pm ^ (2 ^ t) % 2 ^ (t + 1) = 1 := by
  intro t
  induction t with
  | zero => simpa using h
  | succ t ih =>
    -- pm^(2^t) = 1 + c * 2^(t+1)  ⇒  its square is 1 mod 2^(t+2)
    obtain ⟨c, hc⟩ : ∃ c, pm ^ (2 ^ t) = 1 + c * 2 ^ (t + 1) := by
      refine ⟨pm ^ (2 ^ t) / 2 ^ (t + 1), ?_⟩
      have := Nat.div_add_mod (pm ^ (2 ^ t)) (2 ^ (t + 1))
      rw [ih] at this
      rw [Nat.mul_comm] at this
      omega
    have e : pm ^ (2 ^ (t + 1)) = (pm ^ (2 ^ t)) ^ 2 := by
      rw [← Nat.pow_mul, Nat.pow_succ]
    rw [e, hc]
    have e2 : (1 + c * 2 ^ (t + 1)) ^ 2 = 1 + (c + c * c * 2 ^ t) * 2 ^ (t + 1 + 1) := by
      rw [Nat.pow_succ 2 (t + 1), Nat.pow_succ 2 t]; ring
    rw [e2, Nat.add_mul_mod_self_right]
    exact Nat.mod_eq_of_lt (Nat.one_lt_two_pow (by omega))

theorem odd_pow_nn (t pm : Nat) (h : pm % 2 = 1) (ht : 1 ≤ t) : pm ^ (2 ^ t) % 2 ^ t = 1 := by
  have h1 := odd_pow_two_pow pm h t
  have hd : 2 ^ t ∣ 2 ^ (t + 1) := Nat.pow_dvd_pow 2 (by omega)
  rw [← Nat.mod_mod_of_dvd _ hd, h1]
  exact Nat.mod_eq_of_lt (Nat.one_lt_two_pow (by omega))

/-! ### termination of the paired walk -/
def PCloses (nn pm jstart m j : Nat) : Prop := ∃ s : Nat, 1 ≤ s ∧ s ≤ m ∧ (j * pm ^ s) % nn = jstart

theorem pcloses_self (t pm jstart : Nat) (h : pm % 2 = 1) (ht : 1 ≤ t) (hj : jstart < 2 ^ t) :
    PCloses (2 ^ t) pm jstart (2 ^ t) jstart := by
  refine ⟨2 ^ t, Nat.one_le_two_pow, Nat.le_refl _, ?_⟩
  rw [Nat.mul_mod, odd_pow_nn t pm h ht, Nat.mul_one, Nat.mod_mod, Nat.mod_eq_of_lt hj]

theorem pStp_j (o : Ops Int) (nn pm : Nat) (a : PA) : (pStp o nn pm a).j = (a.j * pm) % nn := by
  show (a.j * pm) % (2 * nn) % nn = _
  exact Nat.mod_mul_left_mod _ _ _

theorem termA_of_pcloses (o : Ops Int) (nn pm jstart : Nat) :
    ∀ (m : Nat) (a : PA), PCloses nn pm jstart m a.j → TermA (pStp o nn pm) (pEx jstart) m a := by
  intro m
  induction m with
  | zero => intro a ⟨s, h1, h2, _⟩; omega
  | succ m ih =>
    intro a ⟨s, h1, h2, h3⟩
    by_cases hex : pEx jstart (pStp o nn pm a) = true
    · exact Or.inl hex
    · right
      apply ih
      have hs : s ≠ 1 := by
        intro hs1
        subst hs1
        apply hex
        simp only [pEx, beq_iff_eq]
        rw [pStp_j, ← h3, Nat.pow_one]
      refine ⟨s - 1, by omega, by omega, ?_⟩
      rw [pStp_j, Nat.mod_mul_mod, ← h3]
      congr 1
      have e : s = (s - 1) + 1 := by omega
      rw [Nat.mul_assoc]
      congr 1
      conv => rhs; rw [e, Nat.pow_succ, Nat.mul_comm]

/-! ### the outer `while (nb_modif < orb_size)` loop -/
structure PB where
  jstart : Nat
  jdead : Int     -- content of the slot of `j` at the head of the outer loop (dead there)
  a : PA

def pbTst (orb : Nat) (b : PB) : Bool := decide (b.a.nb < orb)

def pbEnter (o : Ops Int) (nn : Nat) (b : PB) : PA :=
  { b.a with j := b.jstart, t1 := b.a.res.getD b.jstart o.zero, t2 := b.a.res.getD (nn - b.jstart) o.zero }

def pbStp (o : Ops Int) (nn pm : Nat) (b : PB) : PB :=
  { jstart := (5 * b.jstart) % nn,
    jdead := ((walkA (pStp o nn pm) (pEx b.jstart) nn (pbEnter o nn b)).j : Int),
    a := walkA (pStp o nn pm) (pEx b.jstart) nn (pbEnter o nn b) }

theorem autWalkAll_eq (o : Ops Int) (nn pm orb : Nat) :
    ∀ (m : Nat) (b : PB),
      Coeffs.autWalkAll o nn pm orb m b.jstart b.a.nb b.a.res
        = (whileA (pbTst orb) (pbStp o nn pm) m b).a.res := by
  intro m
  induction m with
  | zero => intro b; rfl
  | succ m ih =>
    intro b
    unfold Coeffs.autWalkAll
    simp only [whileA, pbTst]
    by_cases h : b.a.nb < orb
    · simp only [h, if_true, decide_true]
      have hc := autWalkCycle_eq o nn pm b.jstart nn (pbEnter o nn b)
      simp only [pbEnter] at hc
      rw [hc]
      exact ih (pbStp o nn pm b)
    · simp only [h, if_false, decide_false, Bool.false_eq_true]

/-- invariant of the inner walk (`m` steps of budget) -/
def PAG (nn : Nat) (m : Nat) (a : PA) : Prop :=
  a.res.size = nn ∧ a.j % nn ≠ 0 ∧ a.nb + 2 * m < 18446744073709551616

/-- invariant of the outer loop (`m` leaders of budget) -/
def PBG (nn orb : Nat) (m : Nat) (b : PB) : Prop :=
  b.a.res.size = nn ∧ b.jstart % nn ≠ 0 ∧ b.jstart < nn ∧ orb ≤ b.a.nb + 2 * m ∧ b.a.nb ≤ orb + 2 * nn

theorem PAG_step (o : Ops Int) (t pm : Nat) (hp : pm % 2 = 1) (m : Nat) (a : PA) (h : PAG (2 ^ t) (m + 1) a) :
    PAG (2 ^ t) m (pStp o (2 ^ t) pm a) := by
  obtain ⟨h1, h2, h3⟩ := h
  refine ⟨?_, ?_, ?_⟩
  · simp only [pStp]; split <;> simp [h1]
  · rw [pStp_j, Nat.mod_mod]; exact mul_odd_mod_ne_zero t pm a.j hp h2
  · have e : (pStp o (2 ^ t) pm a).nb = a.nb + 2 := rfl
    omega

theorem PBG_step (o : Ops Int) (t pm orb : Nat) (m : Nat) (b : PB)
    (h : PBG (2 ^ t) orb (m + 1) b) (htst : pbTst orb b = true) : PBG (2 ^ t) orb m (pbStp o (2 ^ t) pm b) := by
  obtain ⟨h1, h2, h3, h4, h5⟩ := h
  have hlt : b.a.nb < orb := by simpa [pbTst] using htst
  have hpos : 0 < 2 ^ t := Nat.two_pow_pos t
  obtain ⟨n', hn'⟩ : ∃ n', 2 ^ t = n' + 1 := ⟨2 ^ t - 1, by omega⟩
  have hnb := pwalk_nb o (2 ^ t) pm b.jstart n' (pbEnter o (2 ^ t) b)
  rw [← hn'] at hnb
  have hsz := pwalk_size o (2 ^ t) pm b.jstart (2 ^ t) (pbEnter o (2 ^ t) b)
  have e1 : (pbEnter o (2 ^ t) b).nb = b.a.nb := rfl
  have e2 : (pbEnter o (2 ^ t) b).res.size = b.a.res.size := rfl
  refine ⟨?_, ?_, ?_, ?_, ?_⟩
  · show (walkA _ _ (2 ^ t) (pbEnter o (2 ^ t) b)).res.size = 2 ^ t
    rw [hsz, e2, h1]
  · show (5 * b.jstart) % 2 ^ t % 2 ^ t ≠ 0
    rw [Nat.mod_mod, Nat.mul_comm]
    exact mul_odd_mod_ne_zero t 5 b.jstart (by decide) h2
  · exact Nat.mod_lt _ hpos
  · show orb ≤ (walkA _ _ (2 ^ t) (pbEnter o (2 ^ t) b)).nb + 2 * m
    omega
  · show (walkA _ _ (2 ^ t) (pbEnter o (2 ^ t) b)).nb ≤ orb + 2 * 2 ^ t
    omega

end Spq.CIR

namespace Spq.CIR
open Spq
theorem whileA_size (o : Ops Int) (t pm orb : Nat) :
    ∀ (m : Nat) (b : PB), PBG (2 ^ t) orb m b →
      (whileA (pbTst orb) (pbStp o (2 ^ t) pm) m b).a.res.size = 2 ^ t := by
  intro m
  induction m with
  | zero => intro b h; exact h.1
  | succ m ih =>
    intro b h
    simp only [whileA]
    by_cases ht : pbTst orb b = true
    · rw [if_pos ht]
      exact ih _ (PBG_step o t pm orb m b h ht)
    · rw [if_neg ht]; exact h.1

theorem posMask_odd' (nn : Nat) (hn : 0 < nn) (p : Int) (hp : p % 2 = 1) : posMask p (2 * nn) % 2 = 1 := by
  unfold posMask
  have h0 : (0 : Int) ≤ p % ((2 * nn : Nat) : Int) := Int.emod_nonneg _ (by omega)
  have hd : (2 : Int) ∣ ((2 * nn : Nat) : Int) := ⟨(nn : Int), by push_cast; ring⟩
  have h1 : p % ((2 * nn : Nat) : Int) % 2 = 1 := by rw [Int.emod_emod_of_dvd _ hd]; exact hp
  omega
end Spq.CIR
