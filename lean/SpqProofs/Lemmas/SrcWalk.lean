/-
  In-place rotation / (X^p - 1) kernels (`znx_rotate_inplace_i64`, `rnx_rotate_inplace_f64`,
  `rnx_mul_xp_minus_one_inplace`): the abstract states of the two nested loops, their relation to the model
  (`Coeffs.walkCycle`, `Coeffs.walkAll`) and the number theory that makes the inner do-while terminate
  (`j ↦ j + p mod nn` returns to its start within `nn` steps).
-/
import Spq.Coeffs
import SpqProofs.Lemmas.SrcSim
import SpqProofs.Lemmas.SrcMask
import Mathlib.Tactic.Ring
namespace Spq.CIR
open Spq

/-- locals of the inner do-while (all of them: the dead ones too, so that states are explicit) -/
structure WA where
  j : Nat
  t : Int
  res : Array Int
  nb : Nat
  newj : Nat
  newjn : Nat
  tmp2 : Int

def wStp (o : Ops Int) (nn : Nat) (p : Int) (sub : Bool) (a : WA) : WA :=
  let newj := posMask ((a.j : Int) + p) (2 * nn)
  let newjn := newj % nn
  let t2 := a.res.getD newjn o.zero
  let v := if newj < nn then a.t else o.neg a.t
  let v := if sub then o.sub v t2 else v
  { j := newjn, t := t2, res := a.res.setIfInBounds newjn v, nb := a.nb + 1, newj := newj, newjn := newjn,
    tmp2 := t2 }

def wEx (jstart : Nat) (a : WA) : Bool := a.j == jstart

/-- the model's cycle walk is the abstract do-while -/
theorem walkCycle_eq (o : Ops Int) (nn : Nat) (p : Int) (sub : Bool) (jstart : Nat) :
    ∀ (m : Nat) (a : WA),
      Coeffs.walkCycle o nn p sub jstart m a.j a.t a.res a.nb
        = ((walkA (wStp o nn p sub) (wEx jstart) m a).res, (walkA (wStp o nn p sub) (wEx jstart) m a).nb) := by
  intro m
  induction m with
  | zero => intro a; rfl
  | succ m ih =>
    intro a
    unfold Coeffs.walkCycle
    simp only [walkA]
    by_cases h : posMask ((a.j : Int) + p) (2 * nn) % nn = jstart
    · have hex : wEx jstart (wStp o nn p sub a) = true := by simp [wEx, wStp, h]
      simp only [h, if_true, hex]
      simp only [wStp, h]
    · have hex : wEx jstart (wStp o nn p sub a) = false := by simp [wEx, wStp, h]
      simp only [h, if_false, hex, Bool.false_eq_true]
      exact ih (wStp o nn p sub a)

theorem walkA_size (o : Ops Int) (nn : Nat) (p : Int) (sub : Bool) (jstart : Nat) :
    ∀ (m : Nat) (a : WA), (walkA (wStp o nn p sub) (wEx jstart) m a).res.size = a.res.size := by
  intro m
  induction m with
  | zero => intro a; rfl
  | succ m ih =>
    intro a
    simp only [walkA]
    split
    · simp [wStp]
    · rw [ih]; simp [wStp]

theorem walkA_nb (o : Ops Int) (nn : Nat) (p : Int) (sub : Bool) (jstart : Nat) :
    ∀ (m : Nat) (a : WA), a.nb + 1 ≤ (walkA (wStp o nn p sub) (wEx jstart) (m + 1) a).nb ∧
      (walkA (wStp o nn p sub) (wEx jstart) (m + 1) a).nb ≤ a.nb + m + 1 := by
  intro m
  induction m with
  | zero =>
    intro a
    simp only [walkA]
    split <;> simp [wStp]
  | succ m ih =>
    intro a
    rw [walkA]
    split
    · simp [wStp]
    · have := ih (wStp o nn p sub a)
      have e : (wStp o nn p sub a).nb = a.nb + 1 := rfl
      omega

/-! ### termination of the inner walk -/
theorem posMask_mod (nn : Nat) (hn : 0 < nn) (x : Int) :
    ((posMask x (2 * nn) % nn : Nat) : Int) = x % (nn : Int) := by
  unfold posMask
  have h2 : (0 : Int) ≤ x % ((2 * nn : Nat) : Int) := Int.emod_nonneg _ (by omega)
  rw [Int.natCast_emod, Int.toNat_of_nonneg h2]
  apply Int.emod_emod_of_dvd
  exact ⟨2, by push_cast; ring⟩

/-- the walk started at `j` reaches `jstart` within `m` steps -/
def Closes (nn : Nat) (p : Int) (jstart m j : Nat) : Prop :=
  ∃ s : Nat, 1 ≤ s ∧ s ≤ m ∧ ((j : Int) + (s : Int) * p) % (nn : Int) = (jstart : Int)

theorem closes_self (nn : Nat) (hn : 0 < nn) (p : Int) (jstart : Nat) (hj : jstart < nn) :
    Closes nn p jstart nn jstart := by
  refine ⟨nn, hn, Nat.le_refl _, ?_⟩
  rw [Int.add_mul_emod_self_left]
  exact Int.emod_eq_of_lt (by omega) (by omega)

theorem termA_of_closes (o : Ops Int) (nn : Nat) (hn : 0 < nn) (p : Int) (sub : Bool) (jstart : Nat) :
    ∀ (m : Nat) (a : WA), Closes nn p jstart m a.j → TermA (wStp o nn p sub) (wEx jstart) m a := by
  intro m
  induction m with
  | zero => intro a ⟨s, h1, h2, _⟩; omega
  | succ m ih =>
    intro a ⟨s, h1, h2, h3⟩
    have hj' : (((wStp o nn p sub a).j : Nat) : Int) = ((a.j : Int) + p) % (nn : Int) :=
      posMask_mod nn hn _
    by_cases hex : wEx jstart (wStp o nn p sub a) = true
    · exact Or.inl hex
    · right
      apply ih
      have hs : s ≠ 1 := by
        intro hs1
        subst hs1
        apply hex
        simp only [wEx, beq_iff_eq]
        have : (((wStp o nn p sub a).j : Nat) : Int) = (jstart : Int) := by
          rw [hj', ← h3]; congr 1; ring
        exact_mod_cast this
      refine ⟨s - 1, by omega, by omega, ?_⟩
      rw [hj', Int.emod_add_emod, ← h3]
      congr 1
      have : ((s - 1 : Nat) : Int) = (s : Int) - 1 := by omega
      rw [this]; ring

/-! ### the outer `while (nb_modif < nn)` loop -/
structure WB where
  jstart : Nat
  a : WA

def bTst (nn : Nat) (b : WB) : Bool := decide (b.a.nb < nn)

/-- the abstract state at the start of the do-while of the cycle led by `b.jstart` -/
def bEnter (o : Ops Int) (b : WB) : WA := { b.a with j := b.jstart, t := b.a.res.getD b.jstart o.zero }

def bStp (o : Ops Int) (nn : Nat) (p : Int) (sub : Bool) (b : WB) : WB :=
  { jstart := b.jstart + 1, a := walkA (wStp o nn p sub) (wEx b.jstart) nn (bEnter o b) }

theorem walkAll_eq (o : Ops Int) (nn : Nat) (p : Int) (sub : Bool) :
    ∀ (m : Nat) (b : WB),
      Coeffs.walkAll o nn p sub m b.jstart b.a.nb b.a.res
        = (whileA (bTst nn) (bStp o nn p sub) m b).a.res := by
  intro m
  induction m with
  | zero => intro b; rfl
  | succ m ih =>
    intro b
    unfold Coeffs.walkAll
    simp only [whileA, bTst]
    by_cases h : b.a.nb < nn
    · simp only [h, if_true, decide_true]
      have hc := walkCycle_eq o nn p sub b.jstart nn (bEnter o b)
      simp only [bEnter] at hc
      rw [hc]
      exact ih (bStp o nn p sub b)
    · simp only [h, if_false, decide_false, Bool.false_eq_true]

/-- invariant of the outer loop with `m` leaders still allowed -/
def BG (nn : Nat) (m : Nat) (b : WB) : Prop :=
  b.a.res.size = nn ∧ b.jstart ≤ b.a.nb ∧ nn ≤ b.a.nb + m ∧ b.a.nb < 2 * nn

/-- invariant of the inner loop with `m` steps still allowed -/
def AG (nn : Nat) (m : Nat) (a : WA) : Prop :=
  a.res.size = nn ∧ a.nb + m < 18446744073709551616

theorem AG_step (o : Ops Int) (nn : Nat) (p : Int) (sub : Bool) (m : Nat) (a : WA) (h : AG nn (m + 1) a) :
    AG nn m (wStp o nn p sub a) := by
  obtain ⟨h1, h2⟩ := h
  refine ⟨by simp [wStp, h1], ?_⟩
  have e : (wStp o nn p sub a).nb = a.nb + 1 := rfl
  omega

theorem BG_step (o : Ops Int) (nn : Nat) (hn : 0 < nn) (p : Int) (sub : Bool) (m : Nat) (b : WB)
    (h : BG nn (m + 1) b) (ht : bTst nn b = true) : BG nn m (bStp o nn p sub b) := by
  obtain ⟨h1, h2, h3, h4⟩ := h
  have hlt : b.a.nb < nn := by simpa [bTst] using ht
  obtain ⟨n', rfl⟩ : ∃ n', nn = n' + 1 := ⟨nn - 1, by omega⟩
  have hnb := walkA_nb o (n' + 1) p sub b.jstart n' (bEnter o b)
  have hsz := walkA_size o (n' + 1) p sub b.jstart (n' + 1) (bEnter o b)
  have e1 : (bEnter o b).nb = b.a.nb := rfl
  have e2 : (bEnter o b).res.size = b.a.res.size := rfl
  refine ⟨?_, ?_, ?_, ?_⟩
  · show (walkA _ _ (n' + 1) (bEnter o b)).res.size = n' + 1
    rw [hsz, e2, h1]
  · show b.jstart + 1 ≤ (walkA _ _ (n' + 1) (bEnter o b)).nb
    omega
  · show n' + 1 ≤ (walkA _ _ (n' + 1) (bEnter o b)).nb + m
    omega
  · show (walkA _ _ (n' + 1) (bEnter o b)).nb < 2 * (n' + 1)
    omega

end Spq.CIR

namespace Spq.CIR
/-- the IR state of the in-place kernels for an abstract state: 11 slots
    `nn p _2mn _mn nb_modif j_start j tmp1 new_j new_j_n tmp2`, the (single) buffer `r` holds `a.res` -/
def wS (nn : Nat) (p : Int) (mem : Mem) (r : Nat) (jstart : Nat) (a : WA) : State :=
  ⟨[(nn : Int), p, ((2 * nn - 1 : Nat) : Int), ((nn - 1 : Nat) : Int), (a.nb : Int), (jstart : Int), (a.j : Int),
      a.t, (a.newj : Int), (a.newjn : Int), a.tmp2], mem.setIfInBounds r a.res⟩

def bS (nn : Nat) (p : Int) (mem : Mem) (r : Nat) (b : WB) : State := wS nn p mem r b.jstart b.a

theorem load_set_self (m : Mem) (r : Nat) (X : Array Int) (i : Nat) (hr : r < m.size) (hi : i < X.size) :
    loadCell (m.setIfInBounds r X) (some (r, 0)) (i : Int) = .ok (X.getD i 0) := by
  rw [load0 _ _ _ (by rw [buf_set_self m r X hr]; exact hi), buf_set_self m r X hr]

/-- `new_j & _mn` -/
theorem and_mn (t : Nat) (nn : Nat) (hnn : nn = 2 ^ t) (x : Nat) : x &&& (nn - 1) = x % nn := by
  subst hnn
  exact Nat.and_two_pow_sub_one_eq_mod x t

theorem b2i_decide_ne_zero (q : Prop) [Decidable q] : (b2i (decide q) ≠ 0) ↔ q := by
  by_cases h : q <;> simp [b2i, h]
end Spq.CIR
