/-
  Helper lemmas for `Properties/C14Sel.lean`: what `Conv.initToZnx64` (= `init_reim_to_znx64_precomp`,
  spqlios/reim/reim_conversions.c) selects, and the parity of `m` that passes the `m & (m-1)` test (uint32).
-/
import Spq.Conv
import SpqProofs.Lemmas.ConvToTnx

namespace Spq.Conv
open Spq Spq.F64

/-- `m - 1` on uint32 for `0 < m < 2^32` -/
theorem u32_pred (m : Nat) (h0 : 0 < m) (h32 : m < 4294967296) :
    (m + 4294967296 - 1) % 4294967296 = m - 1 := by omega

/-- an odd `m` with `m & (m-1) = 0` is `1` (or `0`) -/
theorem and_pred_of_odd (m : Nat) (hodd : m % 2 = 1) (h : m &&& (m - 1) = 0) : m < 2 := by
  have h1 : (m &&& (m - 1)) >>> 1 = 0 := by rw [h]; rfl
  rw [Nat.shiftRight_and_distrib] at h1
  have e1 : (m - 1) >>> 1 = m >>> 1 := by
    rw [Nat.shiftRight_eq_div_pow, Nat.shiftRight_eq_div_pow]; omega
  rw [e1, Nat.and_self, Nat.shiftRight_eq_div_pow] at h1
  omega

/-- a uint32 `m ≥ 2` that passes the power-of-two test of the constructors is even -/
theorem even_of_notPow2U32 (m : Nat) (h32 : m < 4294967296) (h2 : 2 ≤ m) (h : notPow2U32 m = false) :
    m % 2 = 0 := by
  unfold notPow2U32 at h
  rw [u32_pred m (by omega) h32] at h
  have h' : m &&& (m - 1) = 0 := by simpa using h
  rcases Nat.mod_two_eq_zero_or_one m with h0 | h1
  · exact h0
  · have := and_pred_of_odd m h1 h'
    omega

/-- the three argument checks of `init_reim_to_znx64_precomp` and the selected function pointer -/
theorem initToZnx64_some (m divisor log2bound : Nat) (avx2 : Bool) (v : ToZnx64Variant)
    (h : initToZnx64 m divisor log2bound avx2 = some v) :
    notPow2U32 m = false ∧ isNotPow2Double divisor = 0 ∧ log2bound ≤ 64 ∧
    v = (if avx2 = true ∧ 8 ≤ m then (if log2bound ≤ 50 then ToZnx64Variant.bnd50 else ToZnx64Variant.bnd63)
         else ToZnx64Variant.ref) := by
  unfold initToZnx64 at h
  split at h
  · exact absurd h (by simp)
  · rename_i h1
    split at h
    · exact absurd h (by simp)
    · rename_i h2
      split at h
      · exact absurd h (by simp)
      · rename_i h3
        refine ⟨by simpa using h1, by simpa using h2, by omega, ?_⟩
        simp only [Option.some.injEq, Bool.and_eq_true, decide_eq_true_eq, ge_iff_le] at h
        exact h.symm

/-- conversely, a uint32 power of two `m`, a power-of-two divisor and `log2bound ≤ 64` are accepted -/
theorem initToZnx64_pow2 (m : Nat) (j : Int) (log2bound : Nat) (avx2 : Bool)
    (hm : notPow2U32 m = false) (hL : log2bound ≤ 64) :
    initToZnx64 m (pow2 j) log2bound avx2 =
      some (if avx2 = true ∧ 8 ≤ m then (if log2bound ≤ 50 then ToZnx64Variant.bnd50 else ToZnx64Variant.bnd63)
            else ToZnx64Variant.ref) := by
  have hd := isNotPow2Double_pow2 j
  have hL' : ¬ log2bound > 64 := by omega
  unfold initToZnx64
  simp only [hm, hd, hL', Bool.false_eq_true, if_false, Bool.and_eq_true, decide_eq_true_eq, ge_iff_le]

end Spq.Conv
