/-
  Basic facts used by the C09 proofs: `getD`/`setIfInBounds`, reduction modulo `N` and `2N`.
-/
import SpqProofs.Lemmas.RqSpec
import Mathlib.Tactic.Ring
import Mathlib.Tactic.Linarith
namespace Spq.Rq
variable {α : Type}

theorem getD_setIfInBounds (a : Array α) (i j : Nat) (v z : α) :
    (a.setIfInBounds i v).getD j z = if i = j ∧ i < a.size then v else a.getD j z := by
  simp only [Array.getD_eq_getD_getElem?, Array.getElem?_setIfInBounds]
  by_cases h : i = j
  · subst h
    by_cases h2 : i < a.size
    · simp [h2]
    · simp [h2]
  · simp [h]

theorem getD_of_getElem? {a : Array α} {i : Nat} {v z : α} (h : a[i]? = some v) : a.getD i z = v := by
  simp [Array.getD_eq_getD_getElem?, h]

theorem getElem?_of_getD {a : Array α} {i : Nat} (z : α) (h : i < a.size) :
    a[i]? = some (a.getD i z) := by
  simp [Array.getD_eq_getD_getElem?, h]

/-! ### integers modulo `M` and `2M` -/

theorem emod_eq_of_dvd_sub {x y M : Int} (h0 : 0 ≤ y) (h1 : y < M) (hd : M ∣ x - y) : x % M = y := by
  obtain ⟨c, hc⟩ := hd
  have : x = y + M * c := by omega
  rw [this, Int.add_mul_emod_self_left]
  exact Int.emod_eq_of_lt h0 h1

theorem emod_facts (z M : Int) (hM : 0 < M) :
    0 ≤ z % M ∧ z % M < M ∧ 0 ≤ z % (2 * M) ∧ z % (2 * M) < 2 * M ∧
      (z % (2 * M) = z % M ∨ z % (2 * M) = z % M + M) := by
  have h2 : (0 : Int) < 2 * M := by omega
  have a1 := Int.emod_nonneg z (show M ≠ 0 by omega)
  have a2 := Int.emod_lt_of_pos z hM
  have a3 := Int.emod_nonneg z (show 2 * M ≠ 0 by omega)
  have a4 := Int.emod_lt_of_pos z h2
  refine ⟨a1, a2, a3, a4, ?_⟩
  have e : z % (2 * M) % M = z % M := Int.emod_emod_of_dvd z ⟨2, by ring⟩
  by_cases c : z % (2 * M) < M
  · left; rw [← e]; exact (Int.emod_eq_of_lt a3 c).symm
  · right
    have : z % (2 * M) % M = z % (2 * M) - M :=
      emod_eq_of_dvd_sub (by omega) (by omega) ⟨1, by ring⟩
    omega

end Spq.Rq
