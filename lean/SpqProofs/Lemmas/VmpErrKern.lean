/-
  C02 rounding budget, item 1 at the level of the kernels: the four reim4 dot-product kernels and the `nn < 8`
  chain (`reim_fftvec_mul` of row 0, then `reim_fftvec_addmul`), in binary64: flag of the output cell ⇒ finite and
  within `γ(n)·Σ|·|` of the exact sum, `γ(n) = (1+u)^(2n+2) − 1`.
-/
import SpqProofs.Lemmas.VmpErrStage
set_option linter.unusedSectionVars false
namespace Spq.VmpErr
open Finset Spq Spq.Module Spq.Reim4 Spq.F64

/-- the four reim4 accumulation kernels -/
inductive Kern where
  | ref1 | avx1 | ref2 | avx2

/-- cells per matrix row: one column or a column pair -/
def Kern.w : Kern → ℕ
  | .ref1 => 8 | .avx1 => 8 | .ref2 => 16 | .avx2 => 16
def Kern.dk : Kern → DotK
  | .ref1 => .ref | .avx1 => .av1 | .ref2 => .ref | .avx2 => .av2
/-- the model function (`Spq/Reim4.lean`) -/
def Kern.run {α : Type} (ar : RArith α) : Kern → ℕ → Array α → Array α → Array α → Array α
  | .ref1 => vecMat1colProductRef ar
  | .avx1 => vecMat1colProductAvx2 ar
  | .ref2 => vecMat2colsProductRef ar
  | .avx2 => vecMat2colsProductAvx2 ar

theorem Kern.dk_ne (Kn : Kern) : Kn.dk = .sm → 1 ≤ 0 := by cases Kn <;> intro h <;> cases h

/-- cells of the kernels, any arithmetic: lane `k` of the column at offset `o` (`0`, or `8` for the second column of a
    pair) -/
theorem kern_cells {α : Type} (ar : RArith α) (Kn : Kern) (n : ℕ) (dst u v : Array α) (hb : Kn.w ≤ dst.size) (o : ℕ)
    (ho : o = 0 ∨ (o = 8 ∧ Kn.w = 16)) (k : ℕ) (hk : k < 4) :
    (Kn.run ar n dst u v).getD (o + k) ar.zero =
      dotRe ar Kn.dk (uRe ar.zero u k) (uIm ar.zero u k) (vRe ar.zero v Kn.w o k) (vIm ar.zero v Kn.w o k) n ∧
    (Kn.run ar n dst u v).getD (o + k + 4) ar.zero =
      dotIm ar Kn.dk (uRe ar.zero u k) (uIm ar.zero u k) (vRe ar.zero v Kn.w o k) (vIm ar.zero v Kn.w o k) n := by
  cases Kn with
  | ref1 =>
    have ho' : o = 0 := by rcases ho with h | ⟨_, h⟩; exact h; simp [Kern.w] at h
    subst ho'
    obtain ⟨_, r1, r2⟩ := mat1colRef_cells ar n dst u v hb k hk
    rw [Nat.zero_add]
    exact ⟨r1, r2⟩
  | avx1 =>
    have ho' : o = 0 := by rcases ho with h | ⟨_, h⟩; exact h; simp [Kern.w] at h
    subst ho'
    obtain ⟨_, r1, r2⟩ := mat1colAvx2_cells' ar n dst u v hb k hk
    rw [Nat.zero_add]
    exact ⟨r1, r2⟩
  | ref2 =>
    obtain ⟨_, r1, r2, r3, r4⟩ := mat2colsRef_cells ar n dst u v hb k hk
    rcases ho with h | ⟨h, _⟩
    · subst h; rw [Nat.zero_add]; exact ⟨r1, r2⟩
    · subst h; exact ⟨r3, r4⟩
  | avx2 =>
    obtain ⟨_, r1, r2, r3, r4⟩ := mat2colsAvx2_cells ar n dst u v hb k hk
    rcases ho with h | ⟨h, _⟩
    · subst h; rw [Nat.zero_add]; exact ⟨r1, r2⟩
    · subst h; exact ⟨r3, r4⟩

/-- binary64 error of one output complex of a reim4 kernel -/
theorem kern_err (Kn : Kern) (n : ℕ) (dst u v : Array ℕ) (hb : Kn.w ≤ dst.size) (o : ℕ)
    (ho : o = 0 ∨ (o = 8 ∧ Kn.w = 16)) (k : ℕ) (hk : k < 4) :
    (Ok ((Kn.run arithOk n (dst.map lift) (u.map lift) (v.map lift)).getD (o + k) (lift 0)) →
      Fin64 ((Kn.run F64.arith n dst u v).getD (o + k) 0) ∧
      |val ((Kn.run F64.arith n dst u v).getD (o + k) 0) -
          ∑ i ∈ range n, xRe (qRe u k) (qIm u k) (qvRe v Kn.w o k) (qvIm v Kn.w o k) i| ≤
        gamD n * ∑ i ∈ range n, mRe (qRe u k) (qIm u k) (qvRe v Kn.w o k) (qvIm v Kn.w o k) i) ∧
    (Ok ((Kn.run arithOk n (dst.map lift) (u.map lift) (v.map lift)).getD (o + k + 4) (lift 0)) →
      Fin64 ((Kn.run F64.arith n dst u v).getD (o + k + 4) 0) ∧
      |val ((Kn.run F64.arith n dst u v).getD (o + k + 4) 0) -
          ∑ i ∈ range n, xIm (qRe u k) (qIm u k) (qvRe v Kn.w o k) (qvIm v Kn.w o k) i| ≤
        gamD n * ∑ i ∈ range n, mIm (qRe u k) (qIm u k) (qvRe v Kn.w o k) (qvIm v Kn.w o k) i) := by
  have hbl : Kn.w ≤ (dst.map lift).size := by rw [Array.size_map]; exact hb
  obtain ⟨a1, a2⟩ := kern_cells arithOk Kn n (dst.map lift) (u.map lift) (v.map lift) hbl o ho k hk
  obtain ⟨b1, b2⟩ := kern_cells F64.arith Kn n dst u v hb o ho k hk
  obtain ⟨l1, l2⟩ := lane_err Kn.dk n (fun h => by have := Kn.dk_ne h; omega) u v Kn.w o k
  have eg : (1 + gamD n) - 1 = gamD n := by ring
  constructor
  · intro hf
    have hf' := hf.ok
    change ((Kn.run arithOk n (dst.map lift) (u.map lift) (v.map lift)).getD (o + k) arithOk.zero).2 at hf'
    rw [a1] at hf'
    obtain ⟨f, p⟩ := l1 hf'
    have b1' : (Kn.run F64.arith n dst u v).getD (o + k) 0 = _ := b1
    rw [b1']
    exact ⟨f, by have := p.err; rw [eg] at this; exact this⟩
  · intro hf
    have hf' := hf.ok
    change ((Kn.run arithOk n (dst.map lift) (u.map lift) (v.map lift)).getD (o + k + 4) arithOk.zero).2 at hf'
    rw [a2] at hf'
    obtain ⟨f, p⟩ := l2 hf'
    have b2' : (Kn.run F64.arith n dst u v).getD (o + k + 4) 0 = _ := b2
    rw [b2']
    exact ⟨f, by have := p.err; rw [eg] at this; exact this⟩

/-! ### the `nn < 8` chain -/

/-- `reim_fftvec_mul` of row 0, then `reim_fftvec_addmul` of the rows `1 .. n-1` (as `vmp_apply_dft_to_dft` runs
    them for `nn < 8`, `n = row_max ≥ 1`) -/
def smallChain {α : Type} (c : Parts α) (n : ℕ) (A B : ℕ → Array α) : Array α :=
  (List.range (n - 1)).foldl (fun r k => addmul c r (A (k + 1)) (B (k + 1))) (mul c (A 0) (B 0))

theorem smallChain_cells {α : Type} (c : Parts α) (hnn : c.nn = 2 * c.m) (hmf : c.mulFma = false)
    (haf : c.addmulFma = false) (n : ℕ) (A B : ℕ → Array α) :
    (smallChain c n A B).size = c.nn ∧
    ∀ t, t < c.m →
      (smallChain c n A B).getD t c.ar.zero =
        smRe c.ar (fun i => (A i).getD t c.ar.zero) (fun i => (A i).getD (t + c.m) c.ar.zero)
          (fun i => (B i).getD t c.ar.zero) (fun i => (B i).getD (t + c.m) c.ar.zero) (n - 1) ∧
      (smallChain c n A B).getD (t + c.m) c.ar.zero =
        smIm c.ar (fun i => (A i).getD t c.ar.zero) (fun i => (A i).getD (t + c.m) c.ar.zero)
          (fun i => (B i).getD t c.ar.zero) (fun i => (B i).getD (t + c.m) c.ar.zero) (n - 1) := by
  unfold smallChain
  refine foldl_range_inv
    (P := fun k (r : Array α) => r.size = c.nn ∧ ∀ t, t < c.m →
      r.getD t c.ar.zero = smRe c.ar (fun i => (A i).getD t c.ar.zero) (fun i => (A i).getD (t + c.m) c.ar.zero)
          (fun i => (B i).getD t c.ar.zero) (fun i => (B i).getD (t + c.m) c.ar.zero) k ∧
      r.getD (t + c.m) c.ar.zero = smIm c.ar (fun i => (A i).getD t c.ar.zero) (fun i => (A i).getD (t + c.m) c.ar.zero)
          (fun i => (B i).getD t c.ar.zero) (fun i => (B i).getD (t + c.m) c.ar.zero) k) _ _ _ ?_ ?_
  · obtain ⟨m1, m2⟩ := mul_cells_g c hnn hmf (A 0) (B 0)
    exact ⟨m1, fun t ht => by obtain ⟨v1, v2⟩ := m2 t ht; rw [v1, v2]; exact ⟨rfl, rfl⟩⟩
  · intro k r _ ⟨i1, i2⟩
    obtain ⟨m1, m2⟩ := addmul_cells_g c hnn haf r (A (k + 1)) (B (k + 1)) i1
    refine ⟨m1, fun t ht => ?_⟩
    obtain ⟨v1, v2⟩ := m2 t ht
    obtain ⟨j1, j2⟩ := i2 t ht
    rw [v1, v2, j1, j2]
    exact ⟨rfl, rfl⟩

/-- binary64 error of one output complex of the `nn < 8` chain (`m = nn/2 ∈ {1, 2}`; reference kernels) -/
theorem small_chain_err (c : Cfg) (hnn : c.nn = 2 * (c.nn / 2)) (hmf : c.mulFma = false) (haf : c.addmulFma = false)
    (n : ℕ) (hn : 1 ≤ n) (A B : ℕ → Array ℕ) (t : ℕ) (ht : t < c.nn / 2) :
    (Ok ((smallChain (pOk c) n (fun i => (A i).map lift) (fun i => (B i).map lift)).getD t (lift 0)) →
      Fin64 ((smallChain (Cfg.parts c) n A B).getD t 0) ∧
      |val ((smallChain (Cfg.parts c) n A B).getD t 0) -
          ∑ i ∈ range n, xRe (fun i => val ((A i).getD t 0)) (fun i => val ((A i).getD (t + c.nn / 2) 0))
            (fun i => val ((B i).getD t 0)) (fun i => val ((B i).getD (t + c.nn / 2) 0)) i| ≤
        gamD n * ∑ i ∈ range n, mRe (fun i => val ((A i).getD t 0)) (fun i => val ((A i).getD (t + c.nn / 2) 0))
            (fun i => val ((B i).getD t 0)) (fun i => val ((B i).getD (t + c.nn / 2) 0)) i) ∧
    (Ok ((smallChain (pOk c) n (fun i => (A i).map lift) (fun i => (B i).map lift)).getD (t + c.nn / 2) (lift 0)) →
      Fin64 ((smallChain (Cfg.parts c) n A B).getD (t + c.nn / 2) 0) ∧
      |val ((smallChain (Cfg.parts c) n A B).getD (t + c.nn / 2) 0) -
          ∑ i ∈ range n, xIm (fun i => val ((A i).getD t 0)) (fun i => val ((A i).getD (t + c.nn / 2) 0))
            (fun i => val ((B i).getD t 0)) (fun i => val ((B i).getD (t + c.nn / 2) 0)) i| ≤
        gamD n * ∑ i ∈ range n, mIm (fun i => val ((A i).getD t 0)) (fun i => val ((A i).getD (t + c.nn / 2) 0))
            (fun i => val ((B i).getD t 0)) (fun i => val ((B i).getD (t + c.nn / 2) 0)) i) := by
  obtain ⟨_, a⟩ := smallChain_cells (pOk c) hnn hmf haf n (fun i => (A i).map lift) (fun i => (B i).map lift)
  obtain ⟨_, b⟩ := smallChain_cells (Cfg.parts c) hnn hmf haf n A B
  obtain ⟨a1, a2⟩ := a t ht
  obtain ⟨b1, b2⟩ := b t ht
  obtain ⟨t1, t2⟩ := dot_transfer .sm
    (fun i => ((A i).map lift).getD t arithOk.zero) (fun i => ((A i).map lift).getD (t + c.nn / 2) arithOk.zero)
    (fun i => ((B i).map lift).getD t arithOk.zero) (fun i => ((B i).map lift).getD (t + c.nn / 2) arithOk.zero)
    (fun i => (A i).getD t 0) (fun i => (A i).getD (t + c.nn / 2) 0) (fun i => (B i).getD t 0)
    (fun i => (B i).getD (t + c.nn / 2) 0)
    (fun i => val ((A i).getD t 0)) (fun i => val ((A i).getD (t + c.nn / 2) 0)) (fun i => val ((B i).getD t 0))
    (fun i => val ((B i).getD (t + c.nn / 2) 0))
    (fun i => rel1_lift _ _) (fun i => rel1_lift _ _) (fun i => rel1_lift _ _) (fun i => rel1_lift _ _)
    (fun i => relQ_lift _ _) (fun i => relQ_lift _ _) (fun i => relQ_lift _ _) (fun i => relQ_lift _ _) n
  obtain ⟨p1, p2⟩ := dot_psum_arG .sm (fun i => val ((A i).getD t 0)) (fun i => val ((A i).getD (t + c.nn / 2) 0))
    (fun i => val ((B i).getD t 0)) (fun i => val ((B i).getD (t + c.nn / 2) 0)) n (fun _ => hn)
  have eg : (1 + gamD n) - 1 = gamD n := by ring
  constructor
  · intro hf
    have hf' : ((smallChain (pOk c) n (fun i => (A i).map lift) (fun i => (B i).map lift)).getD t (pOk c).ar.zero).2 := hf.ok
    rw [a1] at hf'
    obtain ⟨f, e⟩ := t1 hf'
    have b1' : (smallChain (Cfg.parts c) n A B).getD t 0 = _ := b1
    rw [b1']
    refine ⟨f, ?_⟩
    have e' : val (smRe (Cfg.parts c).ar (fun i => (A i).getD t (Cfg.parts c).ar.zero)
      (fun i => (A i).getD (t + (Cfg.parts c).m) (Cfg.parts c).ar.zero) (fun i => (B i).getD t (Cfg.parts c).ar.zero)
      (fun i => (B i).getD (t + (Cfg.parts c).m) (Cfg.parts c).ar.zero) (n - 1)) = _ := e
    rw [e']
    have := p1.err; rw [eg] at this; exact this
  · intro hf
    have hf' : ((smallChain (pOk c) n (fun i => (A i).map lift) (fun i => (B i).map lift)).getD (t + (pOk c).m)
      (pOk c).ar.zero).2 := hf.ok
    rw [a2] at hf'
    obtain ⟨f, e⟩ := t2 hf'
    have b2' : (smallChain (Cfg.parts c) n A B).getD (t + (Cfg.parts c).m) 0 = _ := b2
    have b2'' : (smallChain (Cfg.parts c) n A B).getD (t + c.nn / 2) 0 = _ := b2'
    rw [b2'']
    refine ⟨f, ?_⟩
    have e' : val (smIm (Cfg.parts c).ar (fun i => (A i).getD t (Cfg.parts c).ar.zero)
      (fun i => (A i).getD (t + (Cfg.parts c).m) (Cfg.parts c).ar.zero) (fun i => (B i).getD t (Cfg.parts c).ar.zero)
      (fun i => (B i).getD (t + (Cfg.parts c).m) (Cfg.parts c).ar.zero) (n - 1)) = _ := e
    rw [e']
    have := p2.err; rw [eg] at this; exact this

end Spq.VmpErr
