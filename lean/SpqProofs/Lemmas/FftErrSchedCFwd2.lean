/-
  C06.4, structural schedule theorem (forward cplx), part 2: `cbfs16`, the radix-2 schedule `cbfs2`, `crec16` and the
  top-level theorem `cfftRI_struct`.
-/
import SpqProofs.Lemmas.FftErrSchedCFwd
set_option linter.unusedSectionVars false
set_option linter.unusedSimpArgs false
namespace Spq.Fft.SchedC
open Spq.Fft Spq.Fft.Alg Spq.Fft.View Spq.Fft.Sim Spq.Fft.SimP Spq.Fft.LevelN Spq.Fft.KernN Spq.Fft.Tw Spq.Fft.SchedN
open Spq.Fft.Tab (length_flatMap_const)
open Spq.Fft.Sched (iter_counter)
open Spq.Fft.CplxFwd (tw_exps)

variable {R : Type} [Inhabited R]
variable (F : CFlav R) (c s ns nc : ℕ → R) (k : ℕ) (a : ℕ → R × R)

/-- `cbfs16` (m' = 2^D, 16 ≤ m' ≤ 2048; sub-blocks of a larger transform have size 2048) -/
theorem cbfs16_specN (T : Array R) (N ℓ0 D b0 off m' t : ℕ) (s0 : RI R)
    (hk : k = ℓ0 + D) (hm : m' = 2 ^ D) (hD : 4 ≤ D) (hD11 : D ≤ 11) (hb0 : D = 11 ∨ ℓ0 = 0)
    (hoff : off = m' * b0) (hN : off + m' ≤ N) (hs : Valid N s0)
    (hT : SegP T t ((cBfs16 (4 * 2 ^ k) m' (m' * (1 + 4 * brev ℓ0 b0))).map (valQ c s ns nc))) :
    AdvN (gNetC F c s ns nc k) a (prs s0) (prs (cbfs16 F T m' off (s0, t)).1) ℓ0 D k 0 off m' ∧
      Valid N (cbfs16 F T m' off (s0, t)).1 ∧
      (cbfs16 F T m' off (s0, t)).2 = t + (cBfs16 (4 * 2 ^ k) m' (m' * (1 + 4 * brev ℓ0 b0))).length := by
  have hlog : m'.log2 = D := by rw [hm]; exact Nat.log2_two_pow
  have h16 : m' / 16 * 16 = m' := by
    have : m' = 2 ^ (D - 4) * 16 := by
      rw [hm, show (16 : ℕ) = 2 ^ 4 by norm_num, ← pow_add 2 (D - 4) 4]; congr 1; omega
    omega
  obtain ⟨i, p, hp, hDi⟩ : ∃ i p, p < 2 ∧ D = 4 + 2 * i + p := ⟨(D - 4) / 2, (D - 4) % 2, by omega, by omega⟩
  unfold cbfs16
  rw [cBfs16, hlog] at hT
  rw [cBfs16, hlog]
  by_cases hodd : (D % 2 == 1) = true
  · have hp1 : p = 1 := by simp at hodd; omega
    subst hp1
    rw [if_pos hodd] at hT ⊢
    rw [if_pos hodd]
    rw [List.map_append, List.map_append] at hT
    have hm2 : m' / 2 = 2 ^ (4 + 2 * i) := by rw [hm, hDi, pow_succ]; omega
    have hmm : m' = 2 * 2 ^ (4 + 2 * i) := by rw [hm, hDi, pow_succ]; ring
    have hpw : m' * (1 + 4 * brev ℓ0 b0) / 2 = m' / 2 * (1 + 4 * brev ℓ0 b0) := by
      rw [hmm, Nat.mul_assoc, Nat.mul_div_cancel_left _ (by omega : 0 < 2), Nat.mul_div_cancel_left _ (by omega : 0 < 2)]
    obtain ⟨w0, w0'⟩ := read_ePQ c s ns nc T t _ hT.left.left
    have hsecond := hT.left.right
    rw [show (List.map (valQ c s ns nc) (eP (m' * (1 + 4 * brev ℓ0 b0) / 2))).length = 2 by simp [eP]] at hsecond
    obtain ⟨w1, w1'⟩ := read_ePQ c s ns nc T (t + 2) _ hsecond
    rw [show t + 2 + 1 = t + 3 by ring] at w1'
    have hgo := gNetC_odd F c s ns nc k ℓ0 (4 + 2 * i) b0 (by omega) (by omega) (by omega) (by omega)
    have s1 := twPassL_advN a (gNetC F c s ns nc k) F.ctOdd F.lanesOdd T t N ℓ0 (4 + 2 * i) b0 off s0 hs
      (by rw [hoff, hmm]) (by omega) (by rw [hgo, w0, w0', hpw, hm2, twE]) (by rw [hgo, w1, w1', hpw, hm2, twE])
    rw [← hm2] at s1
    obtain ⟨a1, v1⟩ := s1
    have hT2 := hT.right
    rw [List.length_append, List.length_map,
      show (eP (m' * (1 + 4 * brev ℓ0 b0) / 2)).length = 2 by simp [eP], hpw] at hT2
    have s2 := cbfsLevels_specN F c s ns nc k a T N ℓ0 D b0 off m' hD11 hk hm hoff hN i m' 1 (m' / 2)
      (m' / 2 * (1 + 4 * brev ℓ0 b0)) _ (t + 4) (by omega) hm2 (by omega) rfl v1 hT2
    obtain ⟨a2, v2, p2, q2⟩ := s2
    have s3 := cleaves_specN F c s ns nc k a T N ℓ0 (2 * i + 1) b0 off m' _ _ v2 (by omega)
      (by rw [hm, hDi]; congr 1; omega) hoff hN p2
    simp only at s3
    obtain ⟨a3, v3, p3⟩ := s3
    refine ⟨?_, v3, ?_⟩
    · have b1 := AdvN.cast _ _ a1 ℓ0 D (ℓ0 + 1) (4 + 2 * i) rfl (by omega) rfl rfl
      have b1' := b1.of_eq rfl (show m' = 2 * (m' / 2) by omega)
      have b2 := AdvN.cast _ _ a2 (ℓ0 + 1) (4 + 2 * i) (ℓ0 + (2 * i + 1)) 4 rfl rfl (by ring) rfl
      have b3 := AdvN.cast _ _ a3 (ℓ0 + (2 * i + 1)) 4 k 0 rfl rfl (by omega) rfl
      exact (b1'.seq b2).seq b3
    · rw [p3, List.length_append, List.length_append, hpw]
      simp only [eP, List.length_cons, List.length_nil]
      omega
  · have hp0 : p = 0 := by simp at hodd; omega
    subst hp0
    rw [if_neg hodd] at hT ⊢
    rw [if_neg hodd]
    have s2 := cbfsLevels_specN F c s ns nc k a T N ℓ0 D b0 off m' hD11 hk hm hoff hN i m' 0 m'
      (m' * (1 + 4 * brev ℓ0 b0)) s0 t (by omega) (by rw [hm, hDi]; rfl) (by omega) rfl hs hT
    obtain ⟨a2, v2, p2, q2⟩ := s2
    have s3 := cleaves_specN F c s ns nc k a T N ℓ0 (2 * i) b0 off m' _ _ v2 (by omega)
      (by rw [hm, hDi]; congr 1; omega) hoff hN p2
    simp only at s3
    obtain ⟨a3, v3, p3⟩ := s3
    refine ⟨?_, v3, ?_⟩
    · have b2 := AdvN.cast _ _ a2 ℓ0 D (ℓ0 + 2 * i) 4 (by omega) (by omega) (by ring) rfl
      have b3 := AdvN.cast _ _ a3 (ℓ0 + 2 * i) 4 k 0 rfl rfl (by omega) rfl
      exact b2.seq b3
    · rw [p3]; omega

/-- one twiddle level of `cbfs2` over the whole region (all blocks of size `2h`, `h ≥ 2`) -/
theorem clevel_specN (hk3 : k ≤ 3) (T : Array R) (N ℓ0 j d b0 off m' h t : ℕ) (s0 : RI R) (hd : d ≠ 0)
    (hs : Valid N s0) (hk : k = ℓ0 + j + (d + 1)) (hm : m' = 2 ^ (j + (d + 1))) (hh : h = 2 ^ d)
    (hoff : off = m' * b0) (hN : off + m' ≤ N)
    (hT : SegP T t (((List.range (m' / (2 * h))).flatMap (fun b =>
      eP (h * (1 + 4 * brev ℓ0 b0) + frbN (4 * 2 ^ k) b / 2) ++
      eP (h * (1 + 4 * brev ℓ0 b0) + frbN (4 * 2 ^ k) b / 2))).map (valQ c s ns nc))) :
    let r := iterFrom (fun b (st : RI R × ℕ) =>
      (twPassL F.ctTop F.lanesTop T st.2 h (off + b * (2 * h)) st.1, st.2 + 4)) (m' / (2 * h)) 0 (s0, t)
    AdvN (gNetC F c s ns nc k) a (prs s0) (prs r.1) (ℓ0 + j) (d + 1) (ℓ0 + j + 1) d off m' ∧ Valid N r.1 ∧
      r.2 = t + 4 * (m' / (2 * h)) := by
  intro r
  have hmm : 2 * h = 2 ^ (d + 1) := by rw [hh, pow_succ]; ring
  have hnb : m' / (2 * h) = 2 ^ j := by
    rw [hm, hmm, pow_add]; exact Nat.mul_div_cancel _ (Nat.two_pow_pos _)
  have hm' : m' = 2 ^ j * (2 * h) := by rw [hm, hmm, pow_add]
  have hr : r = (iterFrom (fun b s => twPassL F.ctTop F.lanesTop T (t + 4 * b) h (off + b * (2 * h)) s)
      (m' / (2 * h)) 0 s0, t + 4 * (m' / (2 * h))) :=
    iter_counter (fun b t s => twPassL F.ctTop F.lanesTop T t h (off + b * (2 * h)) s) 4 (m' / (2 * h)) s0 t
  rw [hr]
  simp only
  rw [List.map_flatMap] at hT
  have hseg := SegP.flatMap (T := T) (t := t) _ 4 (m' / (2 * h)) (fun b => by simp [eP]) hT
  have sw := sweepN (VN (gNetC F c s ns nc k) a (ℓ0 + j) (d + 1)) (VN (gNetC F c s ns nc k) a (ℓ0 + j + 1) d)
    (fun b s => twPassL F.ctTop F.lanesTop T (t + 4 * b) h (off + b * (2 * h)) s) N off (2 * h) (m' / (2 * h))
    (fun b s1 hb hs1 => by
      have hb' : b < 2 ^ j := by omega
      have hsb := hseg b hb
      rw [List.map_append, show t + b * 4 = t + 4 * b by ring] at hsb
      have e := tw_exps ℓ0 j d b0 b k hb' hk
      rw [← hh] at e
      obtain ⟨w0, w0'⟩ := read_ePQ c s ns nc T (t + 4 * b) _ hsb.left
      obtain ⟨w1, w1'⟩ := read_ePQ c s ns nc T (t + 4 * b + 2) _ (by simpa [eP] using hsb.right)
      rw [e] at w0 w0' w1 w1'
      rw [show t + 4 * b + 2 + 1 = t + 4 * b + 3 by ring] at w1'
      have hbm' : b * (2 * h) + 2 * h ≤ 2 ^ j * (2 * h) := by
        have : (b + 1) * (2 * h) ≤ 2 ^ j * (2 * h) := Nat.mul_le_mul_right _ hb'
        rw [Nat.add_mul] at this; omega
      have hg := gNetC_small F c s ns nc k (ℓ0 + j) d (b0 * 2 ^ j + b) hk3 hd
      have := twPassL_advN a (gNetC F c s ns nc k) F.ctTop F.lanesTop T (t + 4 * b) N (ℓ0 + j) d (b0 * 2 ^ j + b)
        (off + b * (2 * h)) s1 hs1 (by rw [hoff, hm', hh]; ring) (by rw [← hh]; omega) (by rw [hg, w0, w0'])
        (by rw [hg, w1, w1'])
      rw [← hh] at this
      exact this) s0 hs
  refine ⟨sw.1.of_eq rfl (by rw [hnb, hm']), sw.2, trivial⟩

/-- the twiddle levels of `cbfs2`: from blocks of size `2·2^d` down to blocks of size 2 -/
theorem cbfs2Levels_specN (hk3 : k ≤ 3) (T : Array R) (N ℓ0 D b0 off m' : ℕ)
    (hk : k = ℓ0 + D) (hm : m' = 2 ^ D) (hoff : off = m' * b0) (hN : off + m' ≤ N) :
    ∀ d fuel j h pom (s0 : RI R) (t : ℕ), j + (d + 1) = D → h = 2 ^ d → pom = h * (1 + 4 * brev ℓ0 b0) →
      d + 1 ≤ fuel → Valid N s0 →
      SegP T t ((cBfs2Levels (4 * 2 ^ k) m' fuel h pom).map (valQ c s ns nc)) →
      AdvN (gNetC F c s ns nc k) a (prs s0) (prs (cbfs2Levels F T m' off fuel h (s0, t)).1) (ℓ0 + j) (d + 1)
          (ℓ0 + j + d) 1 off m' ∧
        Valid N (cbfs2Levels F T m' off fuel h (s0, t)).1 ∧
        SegP T (cbfs2Levels F T m' off fuel h (s0, t)).2 (((List.range (m' / 2)).flatMap (fun i =>
          eP (1 + 4 * brev ℓ0 b0 + frbN (4 * 2 ^ k) i / 2) ++
          eN (1 + 4 * brev ℓ0 b0 + frbN (4 * 2 ^ k) i / 2))).map (valQ c s ns nc)) ∧
        (cbfs2Levels F T m' off fuel h (s0, t)).2 + m' / 2 * 4 = t + (cBfs2Levels (4 * 2 ^ k) m' fuel h pom).length := by
  intro d
  induction d with
  | zero =>
    intro fuel j h pom s0 t hj hh hpom hfuel hs hT
    obtain ⟨f, rfl⟩ : ∃ f, fuel = f + 1 := ⟨fuel - 1, by omega⟩
    have h1 : h = 1 := by rw [hh]; rfl
    subst h1
    rw [cbfs2Levels, if_neg (by omega)]
    rw [cBfs2Levels, if_neg (by omega), hpom, Nat.one_mul] at hT
    refine ⟨AdvN.cast _ _ (AdvG.id (VN (gNetC F c s ns nc k) a (ℓ0 + j) 1) (prs s0) off m') (ℓ0 + j) (0 + 1)
      (ℓ0 + j + 0) 1 rfl rfl rfl rfl, hs, hT, ?_⟩
    rw [cBfs2Levels, if_neg (by omega), length_flatMap_const _ 4 _ (fun b => by simp [eP, eN])]
  | succ d ih =>
    intro fuel j h pom s0 t hj hh hpom hfuel hs hT
    obtain ⟨f, rfl⟩ : ∃ f, fuel = f + 1 := ⟨fuel - 1, by omega⟩
    have hh2 : h = 2 * 2 ^ d := by rw [hh, pow_succ]; ring
    have hge : h ≥ 2 := by have := Nat.two_pow_pos d; omega
    have hq : h / 2 = 2 ^ d := by omega
    rw [cbfs2Levels, if_pos hge]
    have hlenT : (cBfs2Levels (4 * 2 ^ k) m' (f + 1) h pom).length
        = 4 * (m' / (2 * h)) + (cBfs2Levels (4 * 2 ^ k) m' f (h / 2) (pom / 2)).length := by
      rw [cBfs2Levels, if_pos hge, List.length_append, length_flatMap_const _ 4 _ (fun b => by simp [eP])]; ring
    rw [cBfs2Levels, if_pos hge, List.map_append, hpom] at hT
    have st := clevel_specN F c s ns nc k a hk3 T N ℓ0 j (d + 1) b0 off m' h t s0 (by omega) hs (by omega)
      (by rw [hm]; congr 1; omega) hh hoff hN hT.left
    simp only at st
    obtain ⟨sA, tA, hst⟩ : ∃ sA tA, iterFrom (fun b (st : RI R × ℕ) =>
      (twPassL F.ctTop F.lanesTop T st.2 h (off + b * (2 * h)) st.1, st.2 + 4)) (m' / (2 * h)) 0 (s0, t) = (sA, tA) :=
      ⟨_, _, rfl⟩
    rw [hst] at st
    simp only [hst]
    obtain ⟨a1, v1, p1⟩ := st
    simp only at a1 v1 p1
    have hlen : (List.map (valQ c s ns nc) ((List.range (m' / (2 * h))).flatMap (fun b =>
        eP (h * (1 + 4 * brev ℓ0 b0) + frbN (4 * 2 ^ k) b / 2) ++
        eP (h * (1 + 4 * brev ℓ0 b0) + frbN (4 * 2 ^ k) b / 2)))).length = 4 * (m' / (2 * h)) := by
      rw [List.length_map, length_flatMap_const _ 4 _ (fun b => by simp [eP])]; ring
    have hT2 := hT.right
    have hpom2 : h * (1 + 4 * brev ℓ0 b0) / 2 = h / 2 * (1 + 4 * brev ℓ0 b0) := by
      rw [hh2, Nat.mul_assoc, Nat.mul_div_cancel_left _ (by omega : 0 < 2),
        Nat.mul_div_cancel_left _ (by omega : 0 < 2)]
    rw [hlen, ← p1, hpom2] at hT2
    have nx := ih f (j + 1) (h / 2) (h / 2 * (1 + 4 * brev ℓ0 b0)) sA tA (by omega) hq rfl (by omega) v1 hT2
    obtain ⟨a2, v2, p2, q2⟩ := nx
    refine ⟨?_, v2, p2, ?_⟩
    · exact (AdvN.cast _ _ a1 (ℓ0 + j) (d + 1 + 1) (ℓ0 + (j + 1)) (d + 1) rfl rfl (by ring) rfl).seq
        (AdvN.cast _ _ a2 (ℓ0 + (j + 1)) (d + 1) (ℓ0 + j + (d + 1)) 1 rfl rfl (by ring) rfl)
    · rw [q2, p1, hlenT, hpom, hpom2, Nat.add_assoc]

end Spq.Fft.SchedC
