/-
  Exact-arithmetic lemmas for the accumulating kernels of C17 (dot products, convolution).
-/
import SpqProofs.Lemmas.Reim4Cx
import SpqProofs.Lemmas.Reim4Layout
namespace Spq.Reim4
open Finset
variable {R : Type} [CommRing R]

/-- `reim4_add_mul` in exact arithmetic -/
theorem addMulAt_exact (dst : Array R) (d : Nat) (u : Array R) (uo : Nat) (v : Array R) (vo : Nat)
    (hb : d + 8 ≤ dst.size) :
    (addMulAt (RArith.ofRing R) dst d u uo v vo).size = dst.size ∧
    (∀ k, k < 4 → cx (addMulAt (RArith.ofRing R) dst d u uo v vo) (d + k) (d + k + 4) =
        cx dst (d + k) (d + k + 4) + cx u (uo + k) (uo + k + 4) * cx v (vo + k) (vo + k + 4)) ∧
    (∀ x, x < d ∨ d + 8 ≤ x → (addMulAt (RArith.ofRing R) dst d u uo v vo).getD x 0 = dst.getD x 0) := by
  obtain ⟨s1, s2, s3⟩ := addMulAt_spec (RArith.ofRing R) dst d u uo v vo hb
  simp only [ofRing_zero, ofRing_add, reRef_ofRing, imRef_ofRing] at s2 s3
  refine ⟨s1, ?_, s3⟩
  intro k hk
  obtain ⟨a, b⟩ := s2 k hk
  ext
  · simp only [cx_re, Cx.add_re, Cx.mul_re, cx_im]; rw [a]
  · simp only [cx_re, Cx.add_im, Cx.mul_im, cx_im]; rw [b]

/-- `n` successive `reim4_add_mul` into the same block: the block accumulates the sum of the products -/
theorem accum_spec (n d : Nat) (uo vo : Nat → Nat) (dst u v : Array R) (hb : d + 8 ≤ dst.size) :
    (Nat.fold n (fun t _ dst => addMulAt (RArith.ofRing R) dst d u (uo t) v (vo t)) dst).size = dst.size ∧
    (∀ k, k < 4 →
      cx (Nat.fold n (fun t _ dst => addMulAt (RArith.ofRing R) dst d u (uo t) v (vo t)) dst) (d + k) (d + k + 4) =
        cx dst (d + k) (d + k + 4) + ∑ t ∈ range n, cx u (uo t + k) (uo t + k + 4) * cx v (vo t + k) (vo t + k + 4)) ∧
    (∀ x, x < d ∨ d + 8 ≤ x →
      (Nat.fold n (fun t _ dst => addMulAt (RArith.ofRing R) dst d u (uo t) v (vo t)) dst).getD x 0 = dst.getD x 0) := by
  induction n with
  | zero =>
    refine ⟨rfl, ?_, fun x _ => rfl⟩
    intro k hk
    simp [Nat.fold_zero]
  | succ n ih =>
    rw [Nat.fold_succ]
    generalize Nat.fold n (fun t _ dst => addMulAt (RArith.ofRing R) dst d u (uo t) v (vo t)) dst = rn at ih
    obtain ⟨ihs, ihv, ihf⟩ := ih
    obtain ⟨s1, s2, s3⟩ := addMulAt_exact rn d u (uo n) v (vo n) (by omega)
    refine ⟨by rw [s1, ihs], ?_, ?_⟩
    · intro k hk
      rw [s2 k hk, ihv k hk, sum_range_succ, add_assoc]
    · intro x hx
      rw [s3 x hx, ihf x hx]

/-- the two-column reference loop accumulates both blocks -/
theorem accum2_spec (n : Nat) (dst u v : Array R) (hb : 16 ≤ dst.size) :
    (Nat.fold n (fun i _ dst => vecMat2colsRefStep (RArith.ofRing R) u v i dst) dst).size = dst.size ∧
    (∀ c k, c < 2 → k < 4 →
      cx (Nat.fold n (fun i _ dst => vecMat2colsRefStep (RArith.ofRing R) u v i dst) dst) (8 * c + k) (8 * c + k + 4) =
        cx dst (8 * c + k) (8 * c + k + 4) +
          ∑ i ∈ range n, cx u (8 * i + k) (8 * i + k + 4) * cx v (16 * i + 8 * c + k) (16 * i + 8 * c + k + 4)) ∧
    (∀ x, 16 ≤ x →
      (Nat.fold n (fun i _ dst => vecMat2colsRefStep (RArith.ofRing R) u v i dst) dst).getD x 0 = dst.getD x 0) := by
  induction n with
  | zero =>
    refine ⟨rfl, ?_, fun x _ => rfl⟩
    intro c k _ _
    simp [Nat.fold_zero]
  | succ n ih =>
    rw [Nat.fold_succ]
    generalize Nat.fold n (fun i _ dst => vecMat2colsRefStep (RArith.ofRing R) u v i dst) dst = rn at ih
    obtain ⟨ihs, ihv, ihf⟩ := ih
    unfold vecMat2colsRefStep
    obtain ⟨a1, a2, a3⟩ := addMulAt_exact rn 0 u (8 * n) v (2 * (8 * n)) (by omega)
    obtain ⟨b1, b2, b3⟩ := addMulAt_exact (addMulAt (RArith.ofRing R) rn 0 u (8 * n) v (2 * (8 * n))) 8 u (8 * n) v
      (2 * (8 * n) + 8) (by omega)
    refine ⟨by rw [b1, a1, ihs], ?_, ?_⟩
    · intro c k hc hk
      rw [sum_range_succ, ← add_assoc, ← ihv c k hc hk]
      rcases c with _ | _ | c
      · -- column 0: written by the first add_mul, untouched by the second
        have e1 : cx (addMulAt (RArith.ofRing R) (addMulAt (RArith.ofRing R) rn 0 u (8 * n) v (2 * (8 * n))) 8 u (8 * n) v (2 * (8 * n) + 8))
            (8 * 0 + k) (8 * 0 + k + 4) = cx (addMulAt (RArith.ofRing R) rn 0 u (8 * n) v (2 * (8 * n))) (0 + k) (0 + k + 4) := by
          ext
          · simp only [cx_re]; rw [b3 _ (by omega)]
          · simp only [cx_im]; rw [b3 _ (by omega)]
        have e2 : 16 * n + 8 * 0 + k = 2 * (8 * n) + k := by omega
        rw [e1, a2 k hk, e2]
      · have e1 : cx rn (8 * 1 + k) (8 * 1 + k + 4) =
            cx (addMulAt (RArith.ofRing R) rn 0 u (8 * n) v (2 * (8 * n))) (8 + k) (8 + k + 4) := by
          ext
          · simp only [cx_re]; rw [a3 _ (by omega)]
          · simp only [cx_im]; rw [a3 _ (by omega)]
        have e2 : 16 * n + 8 * 1 + k = 2 * (8 * n) + 8 + k := by omega
        rw [e1, e2]
        exact b2 k hk
      · omega
    · intro x hx
      rw [b3 x (by omega), a3 x (by omega), ihf x hx]

/-! ### AVX2 accumulators -/

/-- `reim4_vec_mat1col_product_avx2` after `n` rows: lane `l` of `(re1, re2, im1, im2)` -/
theorem mat1colAvx2_acc (n : Nat) (u v : Array R) (l : Nat) (hl : l < 4) :
    let acc := Nat.fold n (fun i _ s => vecMat1colAvx2Step (RArith.ofRing R) u v i s)
      (V4.splat (0 : R), V4.splat (0 : R), V4.splat (0 : R), V4.splat (0 : R))
    acc.1.lane l = ∑ i ∈ range n, u.getD (8 * i + l) 0 * v.getD (8 * i + l) 0 ∧
    acc.2.1.lane l = ∑ i ∈ range n, u.getD (8 * i + 4 + l) 0 * v.getD (8 * i + 4 + l) 0 ∧
    acc.2.2.1.lane l = ∑ i ∈ range n, u.getD (8 * i + l) 0 * v.getD (8 * i + 4 + l) 0 ∧
    acc.2.2.2.lane l = ∑ i ∈ range n, u.getD (8 * i + 4 + l) 0 * v.getD (8 * i + l) 0 := by
  induction n with
  | zero => simp [Nat.fold_zero, V4.lane_splat]
  | succ n ih =>
    simp only [Nat.fold_succ]
    generalize Nat.fold n (fun i _ s => vecMat1colAvx2Step (RArith.ofRing R) u v i s)
      (V4.splat (0 : R), V4.splat (0 : R), V4.splat (0 : R), V4.splat (0 : R)) = s at ih
    obtain ⟨re1, re2, im1, im2⟩ := s
    obtain ⟨h1, h2, h3, h4⟩ := ih
    simp only at h1 h2 h3 h4
    simp only [vecMat1colAvx2Step, V4.fmadd, V4.lane_map3, V4.lane_load _ _ _ _ hl, ofRing_fma, ofRing_zero,
      sum_range_succ, h1, h2, h3, h4]
    refine ⟨by ring, by ring, by ring, by ring⟩

/-- `reim4_vec_mat2cols_product_avx2` after `n` rows: lane `l` of `(re1, im1, re2, im2)` -/
theorem mat2colsAvx2_acc (n : Nat) (u v : Array R) (l : Nat) (hl : l < 4) :
    let acc := Nat.fold n (fun i _ s => vecMat2colsAvx2Step (RArith.ofRing R) u v i s)
      (V4.splat (0 : R), V4.splat (0 : R), V4.splat (0 : R), V4.splat (0 : R))
    acc.1.lane l = ∑ i ∈ range n, (u.getD (8 * i + l) 0 * v.getD (16 * i + l) 0 - u.getD (8 * i + 4 + l) 0 * v.getD (16 * i + 4 + l) 0) ∧
    acc.2.1.lane l = ∑ i ∈ range n, (u.getD (8 * i + l) 0 * v.getD (16 * i + 4 + l) 0 + u.getD (8 * i + 4 + l) 0 * v.getD (16 * i + l) 0) ∧
    acc.2.2.1.lane l = ∑ i ∈ range n, (u.getD (8 * i + l) 0 * v.getD (16 * i + 8 + l) 0 - u.getD (8 * i + 4 + l) 0 * v.getD (16 * i + 12 + l) 0) ∧
    acc.2.2.2.lane l = ∑ i ∈ range n, (u.getD (8 * i + l) 0 * v.getD (16 * i + 12 + l) 0 + u.getD (8 * i + 4 + l) 0 * v.getD (16 * i + 8 + l) 0) := by
  induction n with
  | zero => simp [Nat.fold_zero, V4.lane_splat]
  | succ n ih =>
    simp only [Nat.fold_succ]
    generalize Nat.fold n (fun i _ s => vecMat2colsAvx2Step (RArith.ofRing R) u v i s)
      (V4.splat (0 : R), V4.splat (0 : R), V4.splat (0 : R), V4.splat (0 : R)) = s at ih
    obtain ⟨re1, im1, re2, im2⟩ := s
    obtain ⟨h1, h2, h3, h4⟩ := ih
    simp only at h1 h2 h3 h4
    simp only [vecMat2colsAvx2Step, V4.fmadd, V4.fmsub, V4.lane_map3, V4.lane_load _ _ _ _ hl, ofRing_fma, ofRing_fms,
      ofRing_zero, sum_range_succ, h1, h2, h3, h4]
    refine ⟨by ring, by ring, by ring, by ring⟩

/-! ### the convolution window -/

/-- the index window `[jmin, jmax)` of the code is exactly the set of `j < sizeb` with `k - j` a valid index of `a` -/
theorem conv_window (k sizea sizeb : Nat) (h : k < sizea + sizeb) :
    Ico (convJmin k sizea) (convJmax k sizeb) = (range sizeb).filter (fun j => j ≤ k ∧ k - j < sizea) := by
  ext j
  simp only [mem_Ico, mem_filter, mem_range, convJmin, convJmax]
  split <;> split <;> omega

/-- past the end of the product no pair of indices contributes -/
theorem conv_window_empty (k sizea sizeb : Nat) (h : sizea + sizeb ≤ k) :
    (range sizeb).filter (fun j => j ≤ k ∧ k - j < sizea) = ∅ := by
  ext j
  simp only [mem_filter, mem_range, notMem_empty, iff_false]
  omega

/-- term `a[k-j]·b[j]` (lane `l`) of a convolution coefficient -/
def convTerm (a b : Array R) (k l j : Nat) : Cx R :=
  cx a (8 * (k - j) + l) (8 * (k - j) + l + 4) * cx b (8 * j + l) (8 * j + l + 4)

/-- coefficient `k` (lane `l`) of the product of `a` (`sizea` reim4 blocks) and `b` (`sizeb` blocks), by definition:
    the sum of `a[i]·b[j]` over all `i < sizea`, `j < sizeb` with `i + j = k` -/
def convCoeff (a : Array R) (sizea : Nat) (b : Array R) (sizeb : Nat) (k l : Nat) : Cx R :=
  ∑ j ∈ (range sizeb).filter (fun j => j ≤ k ∧ k - j < sizea), convTerm a b k l j

theorem cx_zeroAt (dest : Array R) (d l : Nat) (hb : d + 8 ≤ dest.size) (hl : l < 4) :
    cx (zeroAt (RArith.ofRing R) dest d) (d + l) (d + l + 4) = 0 := by
  obtain ⟨_, z2, _⟩ := zeroAt_spec (RArith.ofRing R) dest d hb
  simp only [ofRing_zero] at z2
  have e : d + l + 4 = d + (l + 4) := by omega
  ext
  · simp only [cx_re, Cx.zero_re]; exact z2 l (by omega)
  · simp only [cx_im, Cx.zero_im]; rw [e]; exact z2 (l + 4) (by omega)

/-- `reim4_convolution_1coeff_ref(k, dest + d, …)` in exact arithmetic -/
theorem conv1At_exact (k : Nat) (dest : Array R) (d : Nat) (a : Array R) (sizea : Nat) (b : Array R) (sizeb : Nat)
    (hb : d + 8 ≤ dest.size) :
    (convolution1coeffAt (RArith.ofRing R) k dest d a sizea b sizeb).size = dest.size ∧
    (∀ l, l < 4 → cx (convolution1coeffAt (RArith.ofRing R) k dest d a sizea b sizeb) (d + l) (d + l + 4) =
      convCoeff a sizea b sizeb k l) ∧
    (∀ x, x < d ∨ d + 8 ≤ x →
      (convolution1coeffAt (RArith.ofRing R) k dest d a sizea b sizeb).getD x 0 = dest.getD x 0) := by
  obtain ⟨z1, _, z3⟩ := zeroAt_spec (RArith.ofRing R) dest d hb
  simp only [ofRing_zero] at z3
  unfold convolution1coeffAt
  by_cases hk : k ≥ sizea + sizeb
  · simp only [hk, if_true]
    refine ⟨z1, ?_, z3⟩
    intro l hl
    rw [cx_zeroAt dest d l hb hl, convCoeff, conv_window_empty k sizea sizeb hk, sum_empty]
  · simp only [hk, if_false]
    obtain ⟨s1, s2, s3⟩ := accum_spec (R := R) (convJmax k sizeb - convJmin k sizea) d
      (fun t => 8 * (k - (convJmin k sizea + t))) (fun t => 8 * (convJmin k sizea + t))
      (zeroAt (RArith.ofRing R) dest d) a b (by rw [z1]; exact hb)
    refine ⟨by rw [s1, z1], ?_, fun x hx => by rw [s3 x hx, z3 x hx]⟩
    intro l hl
    rw [s2 l hl, cx_zeroAt dest d l hb hl, zero_add, convCoeff, ← conv_window k sizea sizeb (by omega),
      sum_Ico_eq_sum_range]
    rfl

/-- `reim4_convolution_ref`: coefficient `t + offset` lands in block `t` of `dest` -/
theorem conv_exact (dest : Array R) (destSize destOffset : Nat) (a : Array R) (sizea : Nat) (b : Array R) (sizeb : Nat)
    (hb : 8 * destSize ≤ dest.size) :
    (convolutionRef (RArith.ofRing R) dest destSize destOffset a sizea b sizeb).size = dest.size ∧
    (∀ t l, t < destSize → l < 4 →
      cx (convolutionRef (RArith.ofRing R) dest destSize destOffset a sizea b sizeb) (8 * t + l) (8 * t + l + 4) =
        convCoeff a sizea b sizeb (t + destOffset) l) ∧
    (∀ x, 8 * destSize ≤ x →
      (convolutionRef (RArith.ofRing R) dest destSize destOffset a sizea b sizeb).getD x 0 = dest.getD x 0) := by
  unfold convolutionRef
  have one : ∀ t, t < destSize → ∀ r' : Array R, r'.size = dest.size →
      (convolution1coeffAt (RArith.ofRing R) (t + destOffset) r' (8 * t) a sizea b sizeb).size = r'.size ∧
      (∀ l, l < 4 → cx (convolution1coeffAt (RArith.ofRing R) (t + destOffset) r' (8 * t) a sizea b sizeb) (8 * t + l) (8 * t + l + 4) =
        convCoeff a sizea b sizeb (t + destOffset) l) ∧
      (∀ x, x < 8 * t ∨ 8 * t + 8 ≤ x →
        (convolution1coeffAt (RArith.ofRing R) (t + destOffset) r' (8 * t) a sizea b sizeb).getD x 0 = r'.getD x 0) :=
    fun t ht r' hs => conv1At_exact (t + destOffset) r' (8 * t) a sizea b sizeb (by omega)
  -- value of a cell of block t, read off the complex equation
  have cell : ∀ t, t < destSize → ∀ r' : Array R, r'.size = dest.size → ∀ x, 8 * t ≤ x → x < 8 * t + 8 →
      (convolution1coeffAt (RArith.ofRing R) (t + destOffset) r' (8 * t) a sizea b sizeb).getD x 0 =
        if x < 8 * t + 4 then (convCoeff a sizea b sizeb (t + destOffset) (x - 8 * t)).re
        else (convCoeff a sizea b sizeb (t + destOffset) (x - 8 * t - 4)).im := by
    intro t ht r' hs x h1 h2
    obtain ⟨_, v, _⟩ := one t ht r' hs
    by_cases h4 : x < 8 * t + 4
    · rw [if_pos h4, ← v (x - 8 * t) (by omega)]
      simp only [cx_re]
      congr 1; omega
    · rw [if_neg h4, ← v (x - 8 * t - 4) (by omega)]
      simp only [cx_im]
      congr 1; omega
  have main := fold_disjoint (0 : R) destSize
    (fun t r => convolution1coeffAt (RArith.ofRing R) (t + destOffset) r (8 * t) a sizea b sizeb)
    (fun t x => 8 * t ≤ x ∧ x < 8 * t + 8)
    (by
      intro t r'
      unfold convolution1coeffAt
      have hz : ∀ (r'' : Array R) d, (zeroAt (RArith.ofRing R) r'' d).size = r''.size := by
        intro r'' d; rw [zeroAt_eq]; simp
      have hf : ∀ n (f : Nat → Nat) (g : Nat → Nat) (r'' : Array R),
          (Nat.fold n (fun t' _ dest => addMulAt (RArith.ofRing R) dest (8 * t) a (f t') b (g t')) r'').size = r''.size := by
        intro n f g r''
        induction n with
        | zero => rfl
        | succ n ih => rw [Nat.fold_succ]; unfold addMulAt; rw [lanes_size]; exact ih
      split
      · exact hz _ _
      · rw [hf _ (fun t' => 8 * (t + destOffset - (convJmin (t + destOffset) sizea + t'))) (fun t' => 8 * (convJmin (t + destOffset) sizea + t'))]
        exact hz _ _)
    dest
    (by
      intro t ht r' x hs hx
      exact (one t ht r' hs).2.2 x (by omega))
    (by
      intro t ht r1 r2 hs1 hs2 _ x hx
      rw [cell t ht r1 hs1 x hx.1 hx.2, cell t ht r2 hs2 x hx.1 hx.2])
    (by intro j j' x _ _ _ hx hx'; omega)
  obtain ⟨ms, mv, mf⟩ := main
  refine ⟨ms, ?_, ?_⟩
  · intro t l ht hl
    obtain ⟨_, v, _⟩ := one t ht dest rfl
    rw [← v l hl]
    ext
    · simp only [cx_re]; exact mv t ht (8 * t + l) (by omega)
    · simp only [cx_im]; exact mv t ht (8 * t + l + 4) (by omega)
  · intro x hx
    apply mf
    intro t ht
    omega

/-- two arrays that hold the same complex numbers in their first `nb` reim4 blocks and agree elsewhere are equal -/
theorem eq_of_blocks (nb : Nat) (res res' : Array R) (hs : res.size = res'.size)
    (hv : ∀ t k, t < nb → k < 4 → cx res (8 * t + k) (8 * t + k + 4) = cx res' (8 * t + k) (8 * t + k + 4))
    (hf : ∀ x, 8 * nb ≤ x → res.getD x 0 = res'.getD x 0) : res = res' := by
  apply ext_getD 0 _ _ hs
  intro x
  by_cases hx : x < 8 * nb
  · by_cases h4 : x % 8 < 4
    · have := congrArg Cx.re (hv (x / 8) (x % 8) (by omega) h4)
      simp only [cx_re] at this
      have e : 8 * (x / 8) + x % 8 = x := by omega
      rw [e] at this; exact this
    · have := congrArg Cx.im (hv (x / 8) (x % 8 - 4) (by omega) (by omega))
      simp only [cx_im] at this
      have e : 8 * (x / 8) + (x % 8 - 4) + 4 = x := by omega
      rw [e] at this; exact this
  · exact hf x (by omega)

end Spq.Reim4
