/-
  `vmp_apply_dft_to_dft`, `nn < 8`: one column of the result = `mul` of the first row, `addmul` of the others
  (zeros when no row is usable).  Generic filler, equality with `Spq.Module.vmpApplyDftToDft`, `Agree`, coverage.
-/
import SpqProofs.Lemmas.ModHeapApplyCore
namespace Spq.ModuleHeap
open Spq Heap Reim4
variable {γ α δ : Type}

/-- row `row` of column `col` of the prepared matrix (plain layout) -/
def pcolOf (nn nrows col : Nat) (pmat : Array α) (row : Nat) : Array α :=
  pmat.extract ((col * nrows + row) * nn) ((col * nrows + row) * nn + nn)

/-- the `mul` / `addmul` chain of one column (`rowMax ≥ 1`) -/
def chainOf (c : Module.Parts α) (rowMax nrows col : Nat) (adft pmat : Array α) : Array α :=
  (List.range (rowMax - 1)).foldl
    (fun r k => Module.addmul c r (Module.dlimb adft (k + 1) c.nn) (pcolOf c.nn nrows col pmat (k + 1)))
    (Module.mul c (Module.dlimb adft 0 c.nn) (pcolOf c.nn nrows col pmat 0))

def colVal (c : Module.Parts α) (rowMax nrows col : Nat) (adft pmat : Array α) : Array α :=
  if rowMax == 0 then Array.replicate c.nn c.ar.zero else chainOf c rowMax nrows col adft pmat

def applySmallG (st : Array α → Array δ) (c : Module.Parts α) (rowMax colMax nrows : Nat) (adft pmat : Array α)
    (res : Array δ) : Array δ :=
  (List.range colMax).foldl (fun res col => Module.writeAt res (col * c.nn) (st (colVal c rowMax nrows col adft pmat))) res

theorem size_chainOf (c : Module.Parts α) (rowMax nrows col : Nat) (adft pmat : Array α) :
    (chainOf c rowMax nrows col adft pmat).size = c.nn := by
  unfold chainOf
  have := Module.foldl_range_inv (P := fun _ (r : Array α) => r.size = c.nn)
    (fun r k => Module.addmul c r (Module.dlimb adft (k + 1) c.nn) (pcolOf c.nn nrows col pmat (k + 1))) (rowMax - 1)
    (Module.mul c (Module.dlimb adft 0 c.nn) (pcolOf c.nn nrows col pmat 0)) (size_mul c _ _)
    (fun i r _ hr => by rw [size_addmul]; exact hr)
  exact this

theorem size_colVal (c : Module.Parts α) (rowMax nrows col : Nat) (adft pmat : Array α) :
    (colVal c rowMax nrows col adft pmat).size = c.nn := by
  unfold colVal
  split
  · simp
  · exact size_chainOf c rowMax nrows col adft pmat

theorem writeAt_replicate_same {β : Type} (N off n : Nat) (z : β) :
    Module.writeAt (Array.replicate N z) off (Array.replicate n z) = Array.replicate N z := by
  apply Array.ext
  · simp
  · intro i h1 h2
    rw [← Option.some_inj, ← Array.getElem?_eq_getElem, ← Array.getElem?_eq_getElem, writeAt_eq_writeArr, getElem?_writeArr]
    simp only [Array.size_replicate] at h2 ⊢
    split
    · rw [Array.getElem?_replicate, Array.getElem?_replicate, if_pos (by omega), if_pos (by omega)]
    · rfl

theorem foldl_const {β ι : Type} (l : List ι) (b : β) : l.foldl (fun r _ => r) b = b := by
  induction l with
  | nil => rfl
  | cons x xs ih => exact ih

theorem vmpApply_eq_small (c : Module.Parts α) (rsz : Nat) (adft : Array α) (asz : Nat) (pmat : Array α) (nrows ncols : Nat)
    (h8 : ¬ c.nn ≥ 8) :
    Module.vmpApplyDftToDft c rsz adft asz pmat nrows ncols =
      applySmallG id c (min nrows asz) (min ncols rsz) nrows adft pmat (Array.replicate (rsz * c.nn) c.ar.zero) := by
  unfold Module.vmpApplyDftToDft applySmallG colVal
  simp only [if_neg h8]
  by_cases h0 : (min nrows asz == 0) = true
  · simp only [h0, if_true, id]
    rw [foldl_const]
    have := Module.foldl_range_inv (P := fun _ (r : Array α) => r = Array.replicate (rsz * c.nn) c.ar.zero)
      (fun res col => Module.writeAt res (col * c.nn) (Array.replicate c.nn c.ar.zero)) (min ncols rsz)
      (Array.replicate (rsz * c.nn) c.ar.zero) rfl (fun i r _ hr => by rw [hr, writeAt_replicate_same])
    exact this.symm
  · simp only [h0, if_false, id, Bool.false_eq_true]
    rfl

theorem applySmallG_agree (enc : α → γ) (c : Module.Parts α) (rowMax colMax nrows : Nat) (adft pmat : Array α) :
    Agree enc (fun x => ∃ col, col < colMax ∧ In (col * c.nn) c.nn x)
      (fun R => applySmallG id c rowMax colMax nrows adft pmat R)
      (fun G => applySmallG (Array.map enc) c rowMax colMax nrows adft pmat G) := by
  unfold applySmallG
  exact Agree.fold colMax (fun col x => In (col * c.nn) c.nn x)
    (fun res col => Module.writeAt res (col * c.nn) (id (colVal c rowMax nrows col adft pmat)))
    (fun res col => Module.writeAt res (col * c.nn) (Array.map enc (colVal c rowMax nrows col adft pmat)))
    (fun col _ => Agree.write' enc _ _ c.nn (size_colVal c rowMax nrows col adft pmat))

theorem smallCells_iff (nn colMax x : Nat) : (∃ col, col < colMax ∧ In (col * nn) nn x) ↔ x < colMax * nn := by
  rw [lt_mul_iff]
  unfold In
  constructor
  · rintro ⟨col, hc, hx⟩
    exact ⟨col, x - col * nn, hc, by omega, by omega⟩
  · rintro ⟨col, j, hc, hj, e⟩
    exact ⟨col, hc, by omega⟩

end Spq.ModuleHeap
