/-
  One level of the in-place automorphism (`znx_automorphism_inplace_i64` / `rnx_automorphism_inplace_f64`): the five
  cases of the loop body, each as its own lemma about `levelStep` (body + increment of the generated `for`, obtained
  from the generated term by projection, never restated).  The int64 and the double halves are the same scripts.
-/
import Gen.CSrc
import SpqProofs.Lemmas.SrcAutIn
namespace Spq.CIR
open Spq

section zaut
variable (t : Nat) (ht : t ≤ 62) (nn : Nat) (hnn : nn = 2 ^ t) (pm : Nat) (hpm2 : pm < 2 * nn) (hpm1 : pm % 2 = 1)
  (mem : Mem) (r : Nat) (hrm : r < mem.size) (l binval vp orb : Nat) (res : Array Int)
  (x8 x9 x10 x11 x12 x13 x14 x15 x16 x17 x18 x19 x20 x21 : Int)
  (hbin : binval = 2 ^ l) (hvp : vp < 2 * nn) (horb : orb ≤ nn) (hres : res.size = nn) (hlt : binval < nn)
include ht hnn hpm2 hpm1 hrm hbin hvp horb hres hlt

theorem zaut_case1 (h1 : vp = binval) (f : Nat) :
    levelStep Gen.CSrc.znx_automorphism_inplace_i64 r f (lS nn pm mem r ⟨l, binval, vp, orb, res,
        [x8, x9, x10, x11, x12, x13, x14, x15, x16, x17, x18, x19, x20, x21]⟩)
      = .ok (.ret, lS nn pm mem r ⟨l, binval, vp, orb, res,
        [x8, x9, x10, x11, x12, x13, x14, x15, x16, x17, x18, x19, x20, x21]⟩) := by
  have hd : decide ((vp : Int) = (binval : Int)) = true := decide_eq_true (by omega)
  simp only [levelStep, levelBody, levelInc, Gen.CSrc.znx_automorphism_inplace_i64, lS, List.cons_append, List.nil_append]
  cir_simp
  simp only [hd, if_true]
  cir_simp

theorem zaut_case2 (h1 : vp ≠ binval) (h2 : (vp + binval) % (2 * nn) = 0) (f : Nat) (hf3 : 3 * nn ≤ f) :
    ∃ σ', levelStep Gen.CSrc.znx_automorphism_inplace_i64 r f (lS nn pm mem r ⟨l, binval, vp, orb, res,
        [x8, x9, x10, x11, x12, x13, x14, x15, x16, x17, x18, x19, x20, x21]⟩) = .ok (.ret, σ') ∧
      σ'.mem = mem.setIfInBounds r (mNegMirror i64Ops nn binval res) := by
  have hb1 : 1 ≤ binval := hbin ▸ Nat.one_le_two_pow
  have hn1 : 1 ≤ nn := hnn ▸ one_le_pow2 t
  have hn2 : nn ≤ 4611686018427387904 := by
    have : 2 ^ t ≤ 2 ^ 62 := Nat.pow_le_pow_right (by decide) ht
    have e : (2 : Nat) ^ 62 = 4611686018427387904 := by decide
    omega
  have hbm := band_mask_nat t nn hnn
  have ez : (0 : Int) % 18446744073709551616 = 0 := by decide
  have eadd : (((vp : Int) + (binval : Int)) % 18446744073709551616).toNat = vp + binval := by omega
  have hd1 : decide ((vp : Int) = (binval : Int)) = false := decide_eq_false (by omega)
  simp only [levelStep, levelBody, levelInc, Gen.CSrc.znx_automorphism_inplace_i64, lS, List.cons_append, List.nil_append]
  cir_simp
  simp only [hd1, Bool.false_eq_true, if_false]; cir_simp
  simp only [Int.toNat_natCast, eadd, (hbm _).1, ez]
  have hd2 : decide ((((vp + binval) % (2 * nn) : Nat) : Int) = 0) = true := decide_eq_true (by omega)
  simp only [hd2, if_true]
  let F2 : Array Int → Nat → Array Int := fun r j =>
    (r.setIfInBounds j (negS (r.getD (nn - j) 0))).setIfInBounds (nn - j) (negS (r.getD j 0))
  have hF2 : ∀ r j, (F2 r j).size = r.size := by intro r j; simp [F2]
  let A : Nat → Array Int := strideFold F2 binval binval res
  have hA : ∀ k, (A k).size = nn := fun k => by rw [strideFold_size F2 hF2]; exact hres
  let S : Nat → State := fun k =>
    ⟨[(nn : Int), (pm : Int), ((2 * nn - 1 : Nat) : Int), ((nn - 1 : Nat) : Int), ((nn / 2 : Nat) : Int),
        (binval : Int), (vp : Int), (orb : Int), ((binval + k * binval : Nat) : Int),
        prevD x9 (fun i => (A i).getD (binval + i * binval) 0) k,
        x10, x11, x12, x13, x14, x15, x16, x17, x18, x19, x20, x21], mem.setIfInBounds r (A k)⟩
  have hcnt := stride_lt_iff binval (nn / 2) binval
  rw [exec_for_range _ _ _ _ _ _ S 0 ((nn / 2 - binval + binval - 1) / binval) 0 (Nat.zero_le _)
    ?hi0 ?hc ?hs ?hx f (by
      have : (nn / 2 - binval + binval - 1) / binval ≤ nn / 2 - binval + binval - 1 := Nat.div_le_self _ _
      omega)]
  case hi0 =>
    intro f'; cir_simp
    simp only [S, A, prevD_zero, strideFold_zero, Nat.zero_mul, Nat.add_zero]
  case hc =>
    intro k _ hk
    simp only [S]; cir_simp
    exact ok_decide_true (by have := (hcnt k hb1).mpr hk; omega)
  case hx =>
    simp only [S]; cir_simp
    refine ok_decide_false ?_
    intro hlt'
    have : binval + ((nn / 2 - binval + binval - 1) / binval) * binval < nn / 2 := by omega
    have := (hcnt _ hb1).mp this
    omega
  case hs =>
    intro k _ hk f' _
    have hj : binval + k * binval < nn / 2 := (hcnt k hb1).mpr hk
    simp only [S]; cir_simp
    have e1 : ((nn : Int) - ((binval + k * binval : Nat) : Int)) % 18446744073709551616
        = ((nn - (binval + k * binval) : Nat) : Int) := by omega
    have e2 : (((binval + k * binval : Nat) : Int) + (binval : Int)) % 18446744073709551616
        = ((binval + (k + 1) * binval : Nat) : Int) := by rw [Nat.succ_mul]; omega
    rw [load_set_self _ _ _ _ hrm (by rw [hA]; omega)]; cir_simp
    rw [e1, load_set_self _ _ _ _ hrm (by rw [hA]; omega)]; cir_simp
    rw [store_set _ _ _ _ _ hrm (by rw [hA]; omega)]; cir_simp
    rw [e1, store_set _ _ _ _ _ hrm (by rw [Array.size_setIfInBounds, hA]; omega)]; cir_simp
    rw [e2]
    simp only [S, A, prevD_succ, strideFold_succ]
    rfl
  simp only [S]; cir_simp
  rw [load_set_self _ _ _ _ hrm (by rw [hA]; omega)]; cir_simp
  rw [store_set _ _ _ _ _ hrm (by rw [hA]; omega)]; cir_simp
  refine ⟨_, rfl, ?_⟩
  simp only [mNegMirror]
  rw [foldl_stepRange _ _ _ _ hb1]
  rfl

theorem zaut_case3 (h1 : vp ≠ binval) (h2 : (vp + binval) % (2 * nn) ≠ 0) (h3 : (vp + 2 * nn - binval) % nn = 0)
    (f : Nat) (hf3 : 3 * nn ≤ f) :
    ∃ σ', levelStep Gen.CSrc.znx_automorphism_inplace_i64 r f (lS nn pm mem r ⟨l, binval, vp, orb, res,
        [x8, x9, x10, x11, x12, x13, x14, x15, x16, x17, x18, x19, x20, x21]⟩) = .ok (.ret, σ') ∧
      σ'.mem = mem.setIfInBounds r (mNegate i64Ops nn binval res) := by
  have hb1 : 1 ≤ binval := hbin ▸ Nat.one_le_two_pow
  have hn1 : 1 ≤ nn := hnn ▸ one_le_pow2 t
  have hn2 : nn ≤ 4611686018427387904 := by
    have : 2 ^ t ≤ 2 ^ 62 := Nat.pow_le_pow_right (by decide) ht
    have e : (2 : Nat) ^ 62 = 4611686018427387904 := by decide
    omega
  have hbm := band_mask_nat t nn hnn
  have ez : (0 : Int) % 18446744073709551616 = 0 := by decide
  have eadd : (((vp : Int) + (binval : Int)) % 18446744073709551616).toNat = vp + binval := by omega
  have hd1 : decide ((vp : Int) = (binval : Int)) = false := decide_eq_false (by omega)
  have hd2 : decide ((((vp + binval) % (2 * nn) : Nat) : Int) = 0) = false := decide_eq_false (by omega)
  have esub := sub_mask_mod t nn hnn (by omega) vp binval (by omega)
  have e2b : ((2 : Int) % 18446744073709551616 * (binval : Int)) % 18446744073709551616
      = ((2 * binval : Nat) : Int) := by omega
  simp only [levelStep, levelBody, levelInc, Gen.CSrc.znx_automorphism_inplace_i64, lS, List.cons_append, List.nil_append]
  cir_simp
  simp only [hd1, Bool.false_eq_true, if_false]; cir_simp
  simp only [Int.toNat_natCast, eadd, (hbm _).1, ez, hd2, Bool.false_eq_true, if_false]; cir_simp
  simp only [Int.toNat_natCast, (hbm _).2, esub, ez]
  have hd3 : decide ((((vp + 2 * nn - binval) % nn : Nat) : Int) = 0) = true := decide_eq_true (by omega)
  simp only [hd3, if_true]
  let F3 : Array Int → Nat → Array Int := fun r j => r.setIfInBounds j (negS (r.getD j 0))
  have hF3 : ∀ r j, (F3 r j).size = r.size := by intro r j; simp [F3]
  let A : Nat → Array Int := strideFold F3 binval (2 * binval) res
  have hA : ∀ k, (A k).size = nn := fun k => by rw [strideFold_size F3 hF3]; exact hres
  let S : Nat → State := fun k =>
    ⟨[(nn : Int), (pm : Int), ((2 * nn - 1 : Nat) : Int), ((nn - 1 : Nat) : Int), ((nn / 2 : Nat) : Int),
        (binval : Int), (vp : Int), (orb : Int), x8, x9, ((binval + k * (2 * binval) : Nat) : Int),
        x11, x12, x13, x14, x15, x16, x17, x18, x19, x20, x21], mem.setIfInBounds r (A k)⟩
  have hcnt := stride_lt_iff binval nn (2 * binval)
  have hs2 : 0 < 2 * binval := by omega
  rw [exec_for_range _ _ _ _ _ _ S 0 ((nn - binval + 2 * binval - 1) / (2 * binval)) 0 (Nat.zero_le _)
    ?hi0 ?hc ?hs ?hx f (by
      have : (nn - binval + 2 * binval - 1) / (2 * binval) ≤ nn - binval + 2 * binval - 1 := Nat.div_le_self _ _
      omega)]
  case hi0 =>
    intro f'; cir_simp
    simp only [S, A, strideFold_zero, Nat.zero_mul, Nat.add_zero]
  case hc =>
    intro k _ hk
    simp only [S]; cir_simp
    exact ok_decide_true (by have := (hcnt k hs2).mpr hk; omega)
  case hx =>
    simp only [S]; cir_simp
    refine ok_decide_false ?_
    intro hlt'
    have : binval + ((nn - binval + 2 * binval - 1) / (2 * binval)) * (2 * binval) < nn := by omega
    have := (hcnt _ hs2).mp this
    omega
  case hs =>
    intro k _ hk f' _
    have hj : binval + k * (2 * binval) < nn := (hcnt k hs2).mpr hk
    simp only [S]; cir_simp
    have e2 : (((binval + k * (2 * binval) : Nat) : Int) + ((2 * binval : Nat) : Int)) % 18446744073709551616
        = ((binval + (k + 1) * (2 * binval) : Nat) : Int) := by
      have e3 : (k + 1) * (2 * binval) = k * (2 * binval) + 2 * binval := by rw [Nat.add_mul, Nat.one_mul]
      rw [e3]
      generalize k * (2 * binval) = q at hj ⊢
      omega
    rw [load_set_self _ _ _ _ hrm (by rw [hA]; omega)]; cir_simp
    rw [store_set _ _ _ _ _ hrm (by rw [hA]; omega)]; cir_simp
    rw [e2b, e2]
    simp only [S, A, strideFold_succ]
    rfl
  simp only [S]; cir_simp
  refine ⟨_, rfl, ?_⟩
  simp only [mNegate]
  rw [foldl_stepRange _ _ _ _ hs2]
  rfl

theorem zaut_case4 (h1 : vp ≠ binval) (h2 : (vp + binval) % (2 * nn) ≠ 0) (h3 : (vp + 2 * nn - binval) % nn ≠ 0)
    (h4 : (vp + binval) % nn = 0) (f : Nat) (hf3 : 3 * nn ≤ f) :
    ∃ rest', rest'.length = 14 ∧
      levelStep Gen.CSrc.znx_automorphism_inplace_i64 r f (lS nn pm mem r ⟨l, binval, vp, orb, res,
        [x8, x9, x10, x11, x12, x13, x14, x15, x16, x17, x18, x19, x20, x21]⟩)
      = .ok (.norm, lS nn pm mem r ⟨l + 1, 2 * binval, (2 * vp) % (2 * nn), orb / 2, mMirror i64Ops nn binval res,
          rest'⟩) := by
  have hb1 : 1 ≤ binval := hbin ▸ Nat.one_le_two_pow
  have hn1 : 1 ≤ nn := hnn ▸ one_le_pow2 t
  have hn2 : nn ≤ 4611686018427387904 := by
    have : 2 ^ t ≤ 2 ^ 62 := Nat.pow_le_pow_right (by decide) ht
    have e : (2 : Nat) ^ 62 = 4611686018427387904 := by decide
    omega
  have hbm := band_mask_nat t nn hnn
  have ez : (0 : Int) % 18446744073709551616 = 0 := by decide
  have eadd : (((vp : Int) + (binval : Int)) % 18446744073709551616).toNat = vp + binval := by omega
  have hd1 : decide ((vp : Int) = (binval : Int)) = false := decide_eq_false (by omega)
  have hd2 : decide ((((vp + binval) % (2 * nn) : Nat) : Int) = 0) = false := decide_eq_false (by omega)
  have esub := sub_mask_mod t nn hnn (by omega) vp binval (by omega)
  have e2b : ((2 : Int) % 18446744073709551616 * (binval : Int)) % 18446744073709551616
      = ((2 * binval : Nat) : Int) := by omega
  have hd3 : decide ((((vp + 2 * nn - binval) % nn : Nat) : Int) = 0) = false := decide_eq_false (by omega)
  have hs2 : 0 < 2 * binval := by omega
  have evp2 : ((((vp : Int) * 2) % 18446744073709551616).toNat) &&& (2 * nn - 1) = (2 * vp) % (2 * nn) := by
    have : (((vp : Int) * 2) % 18446744073709551616).toNat = 2 * vp := by omega
    rw [this, (hbm _).1]
  have ebin2 : ((binval : Int) * 2) % 18446744073709551616 = ((2 * binval : Nat) : Int) := by omega
  simp only [levelStep, levelBody, levelInc, Gen.CSrc.znx_automorphism_inplace_i64, lS, List.cons_append, List.nil_append]
  cir_simp
  simp only [hd1, Bool.false_eq_true, if_false]; cir_simp
  simp only [Int.toNat_natCast, eadd, (hbm _).1, ez, hd2, Bool.false_eq_true, if_false]; cir_simp
  simp only [Int.toNat_natCast, (hbm _).2, esub, ez, hd3, Bool.false_eq_true, if_false]; cir_simp
  simp only [Int.toNat_natCast, eadd, (hbm _).2, ez]
  have hd4 : decide ((((vp + binval) % nn : Nat) : Int) = 0) = true := decide_eq_true (by omega)
  simp only [hd4, if_true]
  let F4 : Array Int → Nat → Array Int := fun r j =>
    (r.setIfInBounds j (r.getD (nn - j) 0)).setIfInBounds (nn - j) (r.getD j 0)
  have hF4 : ∀ r j, (F4 r j).size = r.size := by intro r j; simp [F4]
  let A : Nat → Array Int := strideFold F4 binval (2 * binval) res
  have hA : ∀ k, (A k).size = nn := fun k => by rw [strideFold_size F4 hF4]; exact hres
  let S : Nat → State := fun k =>
    ⟨[(nn : Int), (pm : Int), ((2 * nn - 1 : Nat) : Int), ((nn - 1 : Nat) : Int), ((nn / 2 : Nat) : Int),
        (binval : Int), (vp : Int), (orb : Int), x8, x9, x10, ((binval + k * (2 * binval) : Nat) : Int),
        prevD x12 (fun i => (A i).getD (binval + i * (2 * binval)) 0) k,
        x13, x14, x15, x16, x17, x18, x19, x20, x21], mem.setIfInBounds r (A k)⟩
  have hcnt := stride_lt_iff binval (nn / 2) (2 * binval)
  rw [exec_for_range _ _ _ _ _ _ S 0 ((nn / 2 - binval + 2 * binval - 1) / (2 * binval)) 0 (Nat.zero_le _)
    ?hi0 ?hc ?hs ?hx f (by
      have : (nn / 2 - binval + 2 * binval - 1) / (2 * binval) ≤ nn / 2 - binval + 2 * binval - 1 :=
        Nat.div_le_self _ _
      omega)]
  case hi0 =>
    intro f'; cir_simp
    simp only [S, A, prevD_zero, strideFold_zero, Nat.zero_mul, Nat.add_zero]
  case hc =>
    intro k _ hk
    simp only [S]; cir_simp
    exact ok_decide_true (by have := (hcnt k hs2).mpr hk; omega)
  case hx =>
    simp only [S]; cir_simp
    refine ok_decide_false ?_
    intro hlt'
    have : binval + ((nn / 2 - binval + 2 * binval - 1) / (2 * binval)) * (2 * binval) < nn / 2 := by omega
    have := (hcnt _ hs2).mp this
    omega
  case hs =>
    intro k _ hk f' _
    have hj : binval + k * (2 * binval) < nn / 2 := (hcnt k hs2).mpr hk
    simp only [S]; cir_simp
    have e1 : ((nn : Int) - ((binval + k * (2 * binval) : Nat) : Int)) % 18446744073709551616
        = ((nn - (binval + k * (2 * binval)) : Nat) : Int) := by omega
    have e2 : (((binval + k * (2 * binval) : Nat) : Int) + ((2 * binval : Nat) : Int)) % 18446744073709551616
        = ((binval + (k + 1) * (2 * binval) : Nat) : Int) := by
      have e3 : (k + 1) * (2 * binval) = k * (2 * binval) + 2 * binval := by rw [Nat.add_mul, Nat.one_mul]
      rw [e3]
      generalize k * (2 * binval) = q at hj ⊢
      omega
    rw [load_set_self _ _ _ _ hrm (by rw [hA]; omega)]; cir_simp
    rw [e1, load_set_self _ _ _ _ hrm (by rw [hA]; omega)]; cir_simp
    rw [store_set _ _ _ _ _ hrm (by rw [hA]; omega)]; cir_simp
    rw [e1, store_set _ _ _ _ _ hrm (by rw [Array.size_setIfInBounds, hA]; omega)]; cir_simp
    rw [e2b, e2]
    simp only [S, A, prevD_succ, strideFold_succ]
    rfl
  simp only [S]; cir_simp
  rw [evalBin_shl_u64_one]; cir_simp
  rw [evalBin_shl_u64_one]; cir_simp
  simp only [Int.toNat_natCast, evp2]
  rw [evalBin_shr_u64_one]; cir_simp
  rw [ebin2]
  refine ⟨[x8, x9, x10, ((binval + (nn / 2 - binval + 2 * binval - 1) / (2 * binval) * (2 * binval) : Nat) : Int),
      prevD x12 (fun i => (A i).getD (binval + i * (2 * binval)) 0)
        ((nn / 2 - binval + 2 * binval - 1) / (2 * binval)),
      x13, x14, x15, x16, x17, x18, x19, x20, x21], rfl, ?_⟩
  simp only [mMirror]
  rw [foldl_stepRange _ _ _ _ hs2]
  rfl

theorem zaut_case5 (h1 : vp ≠ binval) (h2 : (vp + binval) % (2 * nn) ≠ 0) (h3 : (vp + 2 * nn - binval) % nn ≠ 0)
    (h4 : (vp + binval) % nn ≠ 0) (f : Nat) (hf3 : 3 * nn ≤ f) :
    ∃ rest', rest'.length = 14 ∧
      levelStep Gen.CSrc.znx_automorphism_inplace_i64 r f (lS nn pm mem r ⟨l, binval, vp, orb, res,
        [x8, x9, x10, x11, x12, x13, x14, x15, x16, x17, x18, x19, x20, x21]⟩)
      = .ok (.norm, lS nn pm mem r ⟨l + 1, 2 * binval, (2 * vp) % (2 * nn), orb / 2,
          Coeffs.autWalkAll i64Ops nn pm orb nn binval 0 res, rest'⟩) := by
  have hb1 : 1 ≤ binval := hbin ▸ Nat.one_le_two_pow
  have hn1 : 1 ≤ nn := hnn ▸ one_le_pow2 t
  have hn2 : nn ≤ 4611686018427387904 := by
    have : 2 ^ t ≤ 2 ^ 62 := Nat.pow_le_pow_right (by decide) ht
    have e : (2 : Nat) ^ 62 = 4611686018427387904 := by decide
    omega
  have hbm := band_mask_nat t nn hnn
  have ez : (0 : Int) % 18446744073709551616 = 0 := by decide
  have eadd : (((vp : Int) + (binval : Int)) % 18446744073709551616).toNat = vp + binval := by omega
  have hd1 : decide ((vp : Int) = (binval : Int)) = false := decide_eq_false (by omega)
  have hd2 : decide ((((vp + binval) % (2 * nn) : Nat) : Int) = 0) = false := decide_eq_false (by omega)
  have esub := sub_mask_mod t nn hnn (by omega) vp binval (by omega)
  have e2b : ((2 : Int) % 18446744073709551616 * (binval : Int)) % 18446744073709551616
      = ((2 * binval : Nat) : Int) := by omega
  have hd3 : decide ((((vp + 2 * nn - binval) % nn : Nat) : Int) = 0) = false := decide_eq_false (by omega)
  have hs2 : 0 < 2 * binval := by omega
  have evp2 : ((((vp : Int) * 2) % 18446744073709551616).toNat) &&& (2 * nn - 1) = (2 * vp) % (2 * nn) := by
    have : (((vp : Int) * 2) % 18446744073709551616).toNat = 2 * vp := by omega
    rw [this, (hbm _).1]
  have ebin2 : ((binval : Int) * 2) % 18446744073709551616 = ((2 * binval : Nat) : Int) := by omega
  simp only [levelStep, levelBody, levelInc, Gen.CSrc.znx_automorphism_inplace_i64, lS, List.cons_append, List.nil_append]
  have hd4 : decide ((((vp + binval) % nn : Nat) : Int) = 0) = false := decide_eq_false (by omega)
  cir_simp
  simp only [hd1, Bool.false_eq_true, if_false]; cir_simp
  simp only [Int.toNat_natCast, eadd, (hbm _).1, ez, hd2, Bool.false_eq_true, if_false]; cir_simp
  simp only [Int.toNat_natCast, (hbm _).2, esub, ez, hd3, Bool.false_eq_true, if_false]; cir_simp
  simp only [Int.toNat_natCast, eadd, (hbm _).2, ez, hd4, Bool.false_eq_true, if_false]; cir_simp
  have ht1 : 1 ≤ t := by
    rcases Nat.eq_zero_or_pos t with h | h
    · subst h; simp at hnn; omega
    · exact h
  let b0 : PB := ⟨binval, x15, ⟨0, x16, x17, res, 0, x18, x19, x20, x21⟩⟩
  let bSt : PB → State := fun b => pS nn pm mem r binval vp orb x8 x9 x10 x11 x12 b.jstart b.jdead b.a
  have hb0 : PBG nn orb nn b0 := ⟨hres, by
    show binval % nn ≠ 0
    rw [Nat.mod_eq_of_lt hlt]; omega, hlt, by show orb ≤ 0 + 2 * nn; omega, by show 0 ≤ orb + 2 * nn; omega⟩
  change ∃ rest', _ ∧ thenStep (exec _ (Stmt.while _ _) f (bSt b0)) _ = _
  rw [while_sim _ _ _ bSt (pbTst orb) (pbStp i64Ops nn pm) (PBG nn orb) nn ?hG ?hzero ?hcond ?hbody
    nn b0 f hb0 (by omega)]
  case hG =>
    intro m b h htst
    have := PBG_step i64Ops t pm orb m b (hnn ▸ h) htst
    rw [← hnn] at this
    exact this
  case hzero =>
    intro b ⟨_, _, _, h4, _⟩
    simp only [pbTst]
    exact decide_eq_false (by omega)
  case hcond =>
    intro m b _
    simp only [bSt, pS]; cir_simp
    simp only [pbTst, Nat.cast_lt]
  case hbody =>
    intro m b f' hG htst hf'
    obtain ⟨g1, g2, g3, g4, g5⟩ := hG
    have hnb : b.a.nb < orb := by simpa [pbTst] using htst
    simp only [bSt, pS]; cir_simp
    have ej : ((nn : Int) - (b.jstart : Int)) % 18446744073709551616 = ((nn - b.jstart : Nat) : Int) := by omega
    have hjs1 : 1 ≤ b.jstart := by
      rcases Nat.eq_zero_or_pos b.jstart with h | h
      · rw [h] at g2; simp at g2
      · exact h
    rw [load_set_self _ _ _ _ hrm (by omega)]; cir_simp
    rw [ej, load_set_self _ _ _ _ hrm (by omega)]; cir_simp
    change seqK (exec _ (Stmt.doWhile _ _) f'
      ((fun a : PA => pS nn pm mem r binval vp orb x8 x9 x10 x11 x12 b.jstart (a.j : Int) a)
        (pbEnter i64Ops nn b))) _ = _
    rw [doWhile_sim _ _ _ (fun a => pS nn pm mem r binval vp orb x8 x9 x10 x11 x12 b.jstart (a.j : Int) a)
      (pStp i64Ops nn pm) (pEx b.jstart) (PAG nn) ?hG ?hbody ?hcond nn (pbEnter i64Ops nn b) f'
      ?hG0 ?hT (by omega)]
    · simp only [pS]; cir_simp
      have e5 := five_mul_mask1 t nn hnn (by omega) b.jstart
      simp only [Int.toNat_natCast, e5]
      rfl
    case hG =>
      intro m' a h _
      have := PAG_step i64Ops t pm hpm1 m' a (hnn ▸ h)
      rw [← hnn] at this
      exact this
    case hG0 =>
      refine ⟨g1, ?_, ?_⟩
      · show b.jstart % nn ≠ 0
        exact g2
      · show b.a.nb + 2 * nn < 18446744073709551616
        omega
    case hT =>
      apply termA_of_pcloses i64Ops nn pm b.jstart nn
      have := pcloses_self t pm b.jstart hpm1 ht1 (hnn ▸ g3)
      rw [← hnn] at this
      exact this
    case hcond =>
      intro a
      simp only [pS]; cir_simp
      simp only [pEx]
      congr 1
      by_cases h : a.j = b.jstart
      · rw [h]; simp
      · have h' : ¬ ((a.j : Int) = (b.jstart : Int)) := by omega
        simp [h, h']
    case hbody =>
      intro m' a f'' hA
      obtain ⟨q1, q2, q3⟩ := hA
      simp only [pS]; cir_simp
      simp only [Int.toNat_natCast]
      rw [mul_mask2 t nn hnn (by omega) a.j pm, (hbm _).2]
      have hnj : a.j * pm % (2 * nn) % nn = (a.j * pm) % nn := Nat.mod_mul_left_mod _ _ _
      have hnz : (a.j * pm) % nn ≠ 0 := by
        have := mul_odd_mod_ne_zero t pm a.j hpm1 (hnn ▸ q2)
        rw [← hnn] at this
        exact this
      have hmod : a.j * pm % (2 * nn) % nn < nn := Nat.mod_lt _ (by omega)
      have e19 : ((nn : Int) - ((a.j * pm % (2 * nn) % nn : Nat) : Int)) % 18446744073709551616
          = ((nn - a.j * pm % (2 * nn) % nn : Nat) : Int) := by omega
      have enb : ((a.nb : Int) + 2 % 18446744073709551616) % 18446744073709551616 = ((a.nb + 2 : Nat) : Int) := by
        omega
      rw [load_set_self _ _ _ _ hrm (by omega)]; cir_simp
      rw [e19, load_set_self _ _ _ _ hrm (by omega)]; cir_simp
      by_cases hlt2 : a.j * pm % (2 * nn) < nn
      · have hdd : decide (((a.j * pm % (2 * nn) : Nat) : Int) < (nn : Int)) = true := decide_eq_true (by omega)
        simp only [hdd, if_true]
        rw [store_set _ _ _ _ _ hrm (by omega)]; cir_simp
        rw [e19, store_set _ _ _ _ _ hrm (by rw [Array.size_setIfInBounds]; omega)]; cir_simp
        rw [enb]
        simp only [pStp, if_pos hlt2]
        rfl
      · have hnl : ¬ (((a.j * pm % (2 * nn) : Nat) : Int) < (nn : Int)) := by omega
        have hdd : decide (((a.j * pm % (2 * nn) : Nat) : Int) < (nn : Int)) = false := decide_eq_false hnl
        simp only [hdd, Bool.false_eq_true, if_false]
        rw [store_set _ _ _ _ _ hrm (by omega)]; cir_simp
        rw [e19, store_set _ _ _ _ _ hrm (by rw [Array.size_setIfInBounds]; omega)]; cir_simp
        rw [enb]
        simp only [pStp, if_neg hlt2]
        rfl
  have hW : Coeffs.autWalkAll i64Ops nn pm orb nn binval 0 res
      = (whileA (pbTst orb) (pbStp i64Ops nn pm) nn b0).a.res := autWalkAll_eq i64Ops nn pm orb nn b0
  rw [hW]
  simp only [bSt, pS]; cir_simp
  rw [evalBin_shl_u64_one]; cir_simp
  rw [evalBin_shl_u64_one]; cir_simp
  simp only [Int.toNat_natCast, evp2]
  rw [evalBin_shr_u64_one]; cir_simp
  rw [ebin2]
  refine ⟨[x8, x9, x10, x11, x12, _, _, _, _, _, _, _, _, _], rfl, rfl⟩

end zaut

section raut
variable (t : Nat) (ht : t ≤ 62) (nn : Nat) (hnn : nn = 2 ^ t) (pm : Nat) (hpm2 : pm < 2 * nn) (hpm1 : pm % 2 = 1)
  (mem : Mem) (r : Nat) (hrm : r < mem.size) (l binval vp orb : Nat) (res : Array Int)
  (x8 x9 x10 x11 x12 x13 x14 x15 x16 x17 x18 x19 x20 x21 : Int)
  (hbin : binval = 2 ^ l) (hvp : vp < 2 * nn) (horb : orb ≤ nn) (hres : res.size = nn) (hlt : binval < nn)
include ht hnn hpm2 hpm1 hrm hbin hvp horb hres hlt

theorem raut_case1 (h1 : vp = binval) (f : Nat) :
    levelStep Gen.CSrc.rnx_automorphism_inplace_f64 r f (lS nn pm mem r ⟨l, binval, vp, orb, res,
        [x8, x9, x10, x11, x12, x13, x14, x15, x16, x17, x18, x19, x20, x21]⟩)
      = .ok (.ret, lS nn pm mem r ⟨l, binval, vp, orb, res,
        [x8, x9, x10, x11, x12, x13, x14, x15, x16, x17, x18, x19, x20, x21]⟩) := by
  have hd : decide ((vp : Int) = (binval : Int)) = true := decide_eq_true (by omega)
  simp only [levelStep, levelBody, levelInc, Gen.CSrc.rnx_automorphism_inplace_f64, lS, List.cons_append, List.nil_append]
  cir_simp
  simp only [hd, if_true]
  cir_simp

theorem raut_case2 (h1 : vp ≠ binval) (h2 : (vp + binval) % (2 * nn) = 0) (f : Nat) (hf3 : 3 * nn ≤ f) :
    ∃ σ', levelStep Gen.CSrc.rnx_automorphism_inplace_f64 r f (lS nn pm mem r ⟨l, binval, vp, orb, res,
        [x8, x9, x10, x11, x12, x13, x14, x15, x16, x17, x18, x19, x20, x21]⟩) = .ok (.ret, σ') ∧
      σ'.mem = mem.setIfInBounds r (mNegMirror f64Ops nn binval res) := by
  have hb1 : 1 ≤ binval := hbin ▸ Nat.one_le_two_pow
  have hn1 : 1 ≤ nn := hnn ▸ one_le_pow2 t
  have hn2 : nn ≤ 4611686018427387904 := by
    have : 2 ^ t ≤ 2 ^ 62 := Nat.pow_le_pow_right (by decide) ht
    have e : (2 : Nat) ^ 62 = 4611686018427387904 := by decide
    omega
  have hbm := band_mask_nat t nn hnn
  have ez : (0 : Int) % 18446744073709551616 = 0 := by decide
  have eadd : (((vp : Int) + (binval : Int)) % 18446744073709551616).toNat = vp + binval := by omega
  have hd1 : decide ((vp : Int) = (binval : Int)) = false := decide_eq_false (by omega)
  simp only [levelStep, levelBody, levelInc, Gen.CSrc.rnx_automorphism_inplace_f64, lS, List.cons_append, List.nil_append]
  cir_simp
  simp only [hd1, Bool.false_eq_true, if_false]; cir_simp
  simp only [Int.toNat_natCast, eadd, (hbm _).1, ez]
  have hd2 : decide ((((vp + binval) % (2 * nn) : Nat) : Int) = 0) = true := decide_eq_true (by omega)
  simp only [hd2, if_true]
  let F2 : Array Int → Nat → Array Int := fun r j =>
    (r.setIfInBounds j (fneg (r.getD (nn - j) 0))).setIfInBounds (nn - j) (fneg (r.getD j 0))
  have hF2 : ∀ r j, (F2 r j).size = r.size := by intro r j; simp [F2]
  let A : Nat → Array Int := strideFold F2 binval binval res
  have hA : ∀ k, (A k).size = nn := fun k => by rw [strideFold_size F2 hF2]; exact hres
  let S : Nat → State := fun k =>
    ⟨[(nn : Int), (pm : Int), ((2 * nn - 1 : Nat) : Int), ((nn - 1 : Nat) : Int), ((nn / 2 : Nat) : Int),
        (binval : Int), (vp : Int), (orb : Int), ((binval + k * binval : Nat) : Int),
        prevD x9 (fun i => (A i).getD (binval + i * binval) 0) k,
        x10, x11, x12, x13, x14, x15, x16, x17, x18, x19, x20, x21], mem.setIfInBounds r (A k)⟩
  have hcnt := stride_lt_iff binval (nn / 2) binval
  rw [exec_for_range _ _ _ _ _ _ S 0 ((nn / 2 - binval + binval - 1) / binval) 0 (Nat.zero_le _)
    ?hi0 ?hc ?hs ?hx f (by
      have : (nn / 2 - binval + binval - 1) / binval ≤ nn / 2 - binval + binval - 1 := Nat.div_le_self _ _
      omega)]
  case hi0 =>
    intro f'; cir_simp
    simp only [S, A, prevD_zero, strideFold_zero, Nat.zero_mul, Nat.add_zero]
  case hc =>
    intro k _ hk
    simp only [S]; cir_simp
    exact ok_decide_true (by have := (hcnt k hb1).mpr hk; omega)
  case hx =>
    simp only [S]; cir_simp
    refine ok_decide_false ?_
    intro hlt'
    have : binval + ((nn / 2 - binval + binval - 1) / binval) * binval < nn / 2 := by omega
    have := (hcnt _ hb1).mp this
    omega
  case hs =>
    intro k _ hk f' _
    have hj : binval + k * binval < nn / 2 := (hcnt k hb1).mpr hk
    simp only [S]; cir_simp
    have e1 : ((nn : Int) - ((binval + k * binval : Nat) : Int)) % 18446744073709551616
        = ((nn - (binval + k * binval) : Nat) : Int) := by omega
    have e2 : (((binval + k * binval : Nat) : Int) + (binval : Int)) % 18446744073709551616
        = ((binval + (k + 1) * binval : Nat) : Int) := by rw [Nat.succ_mul]; omega
    rw [load_set_self _ _ _ _ hrm (by rw [hA]; omega)]; cir_simp
    rw [e1, load_set_self _ _ _ _ hrm (by rw [hA]; omega)]; cir_simp
    rw [store_set _ _ _ _ _ hrm (by rw [hA]; omega)]; cir_simp
    rw [e1, store_set _ _ _ _ _ hrm (by rw [Array.size_setIfInBounds, hA]; omega)]; cir_simp
    rw [e2]
    simp only [S, A, prevD_succ, strideFold_succ]
    rfl
  simp only [S]; cir_simp
  rw [load_set_self _ _ _ _ hrm (by rw [hA]; omega)]; cir_simp
  rw [store_set _ _ _ _ _ hrm (by rw [hA]; omega)]; cir_simp
  refine ⟨_, rfl, ?_⟩
  simp only [mNegMirror]
  rw [foldl_stepRange _ _ _ _ hb1]
  rfl

theorem raut_case3 (h1 : vp ≠ binval) (h2 : (vp + binval) % (2 * nn) ≠ 0) (h3 : (vp + 2 * nn - binval) % nn = 0)
    (f : Nat) (hf3 : 3 * nn ≤ f) :
    ∃ σ', levelStep Gen.CSrc.rnx_automorphism_inplace_f64 r f (lS nn pm mem r ⟨l, binval, vp, orb, res,
        [x8, x9, x10, x11, x12, x13, x14, x15, x16, x17, x18, x19, x20, x21]⟩) = .ok (.ret, σ') ∧
      σ'.mem = mem.setIfInBounds r (mNegate f64Ops nn binval res) := by
  have hb1 : 1 ≤ binval := hbin ▸ Nat.one_le_two_pow
  have hn1 : 1 ≤ nn := hnn ▸ one_le_pow2 t
  have hn2 : nn ≤ 4611686018427387904 := by
    have : 2 ^ t ≤ 2 ^ 62 := Nat.pow_le_pow_right (by decide) ht
    have e : (2 : Nat) ^ 62 = 4611686018427387904 := by decide
    omega
  have hbm := band_mask_nat t nn hnn
  have ez : (0 : Int) % 18446744073709551616 = 0 := by decide
  have eadd : (((vp : Int) + (binval : Int)) % 18446744073709551616).toNat = vp + binval := by omega
  have hd1 : decide ((vp : Int) = (binval : Int)) = false := decide_eq_false (by omega)
  have hd2 : decide ((((vp + binval) % (2 * nn) : Nat) : Int) = 0) = false := decide_eq_false (by omega)
  have esub := sub_mask_mod t nn hnn (by omega) vp binval (by omega)
  have e2b : ((2 : Int) % 18446744073709551616 * (binval : Int)) % 18446744073709551616
      = ((2 * binval : Nat) : Int) := by omega
  simp only [levelStep, levelBody, levelInc, Gen.CSrc.rnx_automorphism_inplace_f64, lS, List.cons_append, List.nil_append]
  cir_simp
  simp only [hd1, Bool.false_eq_true, if_false]; cir_simp
  simp only [Int.toNat_natCast, eadd, (hbm _).1, ez, hd2, Bool.false_eq_true, if_false]; cir_simp
  simp only [Int.toNat_natCast, (hbm _).2, esub, ez]
  have hd3 : decide ((((vp + 2 * nn - binval) % nn : Nat) : Int) = 0) = true := decide_eq_true (by omega)
  simp only [hd3, if_true]
  let F3 : Array Int → Nat → Array Int := fun r j => r.setIfInBounds j (fneg (r.getD j 0))
  have hF3 : ∀ r j, (F3 r j).size = r.size := by intro r j; simp [F3]
  let A : Nat → Array Int := strideFold F3 binval (2 * binval) res
  have hA : ∀ k, (A k).size = nn := fun k => by rw [strideFold_size F3 hF3]; exact hres
  let S : Nat → State := fun k =>
    ⟨[(nn : Int), (pm : Int), ((2 * nn - 1 : Nat) : Int), ((nn - 1 : Nat) : Int), ((nn / 2 : Nat) : Int),
        (binval : Int), (vp : Int), (orb : Int), x8, x9, ((binval + k * (2 * binval) : Nat) : Int),
        x11, x12, x13, x14, x15, x16, x17, x18, x19, x20, x21], mem.setIfInBounds r (A k)⟩
  have hcnt := stride_lt_iff binval nn (2 * binval)
  have hs2 : 0 < 2 * binval := by omega
  rw [exec_for_range _ _ _ _ _ _ S 0 ((nn - binval + 2 * binval - 1) / (2 * binval)) 0 (Nat.zero_le _)
    ?hi0 ?hc ?hs ?hx f (by
      have : (nn - binval + 2 * binval - 1) / (2 * binval) ≤ nn - binval + 2 * binval - 1 := Nat.div_le_self _ _
      omega)]
  case hi0 =>
    intro f'; cir_simp
    simp only [S, A, strideFold_zero, Nat.zero_mul, Nat.add_zero]
  case hc =>
    intro k _ hk
    simp only [S]; cir_simp
    exact ok_decide_true (by have := (hcnt k hs2).mpr hk; omega)
  case hx =>
    simp only [S]; cir_simp
    refine ok_decide_false ?_
    intro hlt'
    have : binval + ((nn - binval + 2 * binval - 1) / (2 * binval)) * (2 * binval) < nn := by omega
    have := (hcnt _ hs2).mp this
    omega
  case hs =>
    intro k _ hk f' _
    have hj : binval + k * (2 * binval) < nn := (hcnt k hs2).mpr hk
    simp only [S]; cir_simp
    have e2 : (((binval + k * (2 * binval) : Nat) : Int) + ((2 * binval : Nat) : Int)) % 18446744073709551616
        = ((binval + (k + 1) * (2 * binval) : Nat) : Int) := by
      have e3 : (k + 1) * (2 * binval) = k * (2 * binval) + 2 * binval := by rw [Nat.add_mul, Nat.one_mul]
      rw [e3]
      generalize k * (2 * binval) = q at hj ⊢
      omega
    rw [load_set_self _ _ _ _ hrm (by rw [hA]; omega)]; cir_simp
    rw [store_set _ _ _ _ _ hrm (by rw [hA]; omega)]; cir_simp
    rw [e2b, e2]
    simp only [S, A, strideFold_succ]
    rfl
  simp only [S]; cir_simp
  refine ⟨_, rfl, ?_⟩
  simp only [mNegate]
  rw [foldl_stepRange _ _ _ _ hs2]
  rfl

theorem raut_case4 (h1 : vp ≠ binval) (h2 : (vp + binval) % (2 * nn) ≠ 0) (h3 : (vp + 2 * nn - binval) % nn ≠ 0)
    (h4 : (vp + binval) % nn = 0) (f : Nat) (hf3 : 3 * nn ≤ f) :
    ∃ rest', rest'.length = 14 ∧
      levelStep Gen.CSrc.rnx_automorphism_inplace_f64 r f (lS nn pm mem r ⟨l, binval, vp, orb, res,
        [x8, x9, x10, x11, x12, x13, x14, x15, x16, x17, x18, x19, x20, x21]⟩)
      = .ok (.norm, lS nn pm mem r ⟨l + 1, 2 * binval, (2 * vp) % (2 * nn), orb / 2, mMirror f64Ops nn binval res,
          rest'⟩) := by
  have hb1 : 1 ≤ binval := hbin ▸ Nat.one_le_two_pow
  have hn1 : 1 ≤ nn := hnn ▸ one_le_pow2 t
  have hn2 : nn ≤ 4611686018427387904 := by
    have : 2 ^ t ≤ 2 ^ 62 := Nat.pow_le_pow_right (by decide) ht
    have e : (2 : Nat) ^ 62 = 4611686018427387904 := by decide
    omega
  have hbm := band_mask_nat t nn hnn
  have ez : (0 : Int) % 18446744073709551616 = 0 := by decide
  have eadd : (((vp : Int) + (binval : Int)) % 18446744073709551616).toNat = vp + binval := by omega
  have hd1 : decide ((vp : Int) = (binval : Int)) = false := decide_eq_false (by omega)
  have hd2 : decide ((((vp + binval) % (2 * nn) : Nat) : Int) = 0) = false := decide_eq_false (by omega)
  have esub := sub_mask_mod t nn hnn (by omega) vp binval (by omega)
  have e2b : ((2 : Int) % 18446744073709551616 * (binval : Int)) % 18446744073709551616
      = ((2 * binval : Nat) : Int) := by omega
  have hd3 : decide ((((vp + 2 * nn - binval) % nn : Nat) : Int) = 0) = false := decide_eq_false (by omega)
  have hs2 : 0 < 2 * binval := by omega
  have evp2 : ((((vp : Int) * 2) % 18446744073709551616).toNat) &&& (2 * nn - 1) = (2 * vp) % (2 * nn) := by
    have : (((vp : Int) * 2) % 18446744073709551616).toNat = 2 * vp := by omega
    rw [this, (hbm _).1]
  have ebin2 : ((binval : Int) * 2) % 18446744073709551616 = ((2 * binval : Nat) : Int) := by omega
  simp only [levelStep, levelBody, levelInc, Gen.CSrc.rnx_automorphism_inplace_f64, lS, List.cons_append, List.nil_append]
  cir_simp
  simp only [hd1, Bool.false_eq_true, if_false]; cir_simp
  simp only [Int.toNat_natCast, eadd, (hbm _).1, ez, hd2, Bool.false_eq_true, if_false]; cir_simp
  simp only [Int.toNat_natCast, (hbm _).2, esub, ez, hd3, Bool.false_eq_true, if_false]; cir_simp
  simp only [Int.toNat_natCast, eadd, (hbm _).2, ez]
  have hd4 : decide ((((vp + binval) % nn : Nat) : Int) = 0) = true := decide_eq_true (by omega)
  simp only [hd4, if_true]
  let F4 : Array Int → Nat → Array Int := fun r j =>
    (r.setIfInBounds j (r.getD (nn - j) 0)).setIfInBounds (nn - j) (r.getD j 0)
  have hF4 : ∀ r j, (F4 r j).size = r.size := by intro r j; simp [F4]
  let A : Nat → Array Int := strideFold F4 binval (2 * binval) res
  have hA : ∀ k, (A k).size = nn := fun k => by rw [strideFold_size F4 hF4]; exact hres
  let S : Nat → State := fun k =>
    ⟨[(nn : Int), (pm : Int), ((2 * nn - 1 : Nat) : Int), ((nn - 1 : Nat) : Int), ((nn / 2 : Nat) : Int),
        (binval : Int), (vp : Int), (orb : Int), x8, x9, x10, ((binval + k * (2 * binval) : Nat) : Int),
        prevD x12 (fun i => (A i).getD (binval + i * (2 * binval)) 0) k,
        x13, x14, x15, x16, x17, x18, x19, x20, x21], mem.setIfInBounds r (A k)⟩
  have hcnt := stride_lt_iff binval (nn / 2) (2 * binval)
  rw [exec_for_range _ _ _ _ _ _ S 0 ((nn / 2 - binval + 2 * binval - 1) / (2 * binval)) 0 (Nat.zero_le _)
    ?hi0 ?hc ?hs ?hx f (by
      have : (nn / 2 - binval + 2 * binval - 1) / (2 * binval) ≤ nn / 2 - binval + 2 * binval - 1 :=
        Nat.div_le_self _ _
      omega)]
  case hi0 =>
    intro f'; cir_simp
    simp only [S, A, prevD_zero, strideFold_zero, Nat.zero_mul, Nat.add_zero]
  case hc =>
    intro k _ hk
    simp only [S]; cir_simp
    exact ok_decide_true (by have := (hcnt k hs2).mpr hk; omega)
  case hx =>
    simp only [S]; cir_simp
    refine ok_decide_false ?_
    intro hlt'
    have : binval + ((nn / 2 - binval + 2 * binval - 1) / (2 * binval)) * (2 * binval) < nn / 2 := by omega
    have := (hcnt _ hs2).mp this
    omega
  case hs =>
    intro k _ hk f' _
    have hj : binval + k * (2 * binval) < nn / 2 := (hcnt k hs2).mpr hk
    simp only [S]; cir_simp
    have e1 : ((nn : Int) - ((binval + k * (2 * binval) : Nat) : Int)) % 18446744073709551616
        = ((nn - (binval + k * (2 * binval)) : Nat) : Int) := by omega
    have e2 : (((binval + k * (2 * binval) : Nat) : Int) + ((2 * binval : Nat) : Int)) % 18446744073709551616
        = ((binval + (k + 1) * (2 * binval) : Nat) : Int) := by
      have e3 : (k + 1) * (2 * binval) = k * (2 * binval) + 2 * binval := by rw [Nat.add_mul, Nat.one_mul]
      rw [e3]
      generalize k * (2 * binval) = q at hj ⊢
      omega
    rw [load_set_self _ _ _ _ hrm (by rw [hA]; omega)]; cir_simp
    rw [e1, load_set_self _ _ _ _ hrm (by rw [hA]; omega)]; cir_simp
    rw [store_set _ _ _ _ _ hrm (by rw [hA]; omega)]; cir_simp
    rw [e1, store_set _ _ _ _ _ hrm (by rw [Array.size_setIfInBounds, hA]; omega)]; cir_simp
    rw [e2b, e2]
    simp only [S, A, prevD_succ, strideFold_succ]
    rfl
  simp only [S]; cir_simp
  rw [evalBin_shl_u64_one]; cir_simp
  rw [evalBin_shl_u64_one]; cir_simp
  simp only [Int.toNat_natCast, evp2]
  rw [evalBin_shr_u64_one]; cir_simp
  rw [ebin2]
  refine ⟨[x8, x9, x10, ((binval + (nn / 2 - binval + 2 * binval - 1) / (2 * binval) * (2 * binval) : Nat) : Int),
      prevD x12 (fun i => (A i).getD (binval + i * (2 * binval)) 0)
        ((nn / 2 - binval + 2 * binval - 1) / (2 * binval)),
      x13, x14, x15, x16, x17, x18, x19, x20, x21], rfl, ?_⟩
  simp only [mMirror]
  rw [foldl_stepRange _ _ _ _ hs2]
  rfl

theorem raut_case5 (h1 : vp ≠ binval) (h2 : (vp + binval) % (2 * nn) ≠ 0) (h3 : (vp + 2 * nn - binval) % nn ≠ 0)
    (h4 : (vp + binval) % nn ≠ 0) (f : Nat) (hf3 : 3 * nn ≤ f) :
    ∃ rest', rest'.length = 14 ∧
      levelStep Gen.CSrc.rnx_automorphism_inplace_f64 r f (lS nn pm mem r ⟨l, binval, vp, orb, res,
        [x8, x9, x10, x11, x12, x13, x14, x15, x16, x17, x18, x19, x20, x21]⟩)
      = .ok (.norm, lS nn pm mem r ⟨l + 1, 2 * binval, (2 * vp) % (2 * nn), orb / 2,
          Coeffs.autWalkAll f64Ops nn pm orb nn binval 0 res, rest'⟩) := by
  have hb1 : 1 ≤ binval := hbin ▸ Nat.one_le_two_pow
  have hn1 : 1 ≤ nn := hnn ▸ one_le_pow2 t
  have hn2 : nn ≤ 4611686018427387904 := by
    have : 2 ^ t ≤ 2 ^ 62 := Nat.pow_le_pow_right (by decide) ht
    have e : (2 : Nat) ^ 62 = 4611686018427387904 := by decide
    omega
  have hbm := band_mask_nat t nn hnn
  have ez : (0 : Int) % 18446744073709551616 = 0 := by decide
  have eadd : (((vp : Int) + (binval : Int)) % 18446744073709551616).toNat = vp + binval := by omega
  have hd1 : decide ((vp : Int) = (binval : Int)) = false := decide_eq_false (by omega)
  have hd2 : decide ((((vp + binval) % (2 * nn) : Nat) : Int) = 0) = false := decide_eq_false (by omega)
  have esub := sub_mask_mod t nn hnn (by omega) vp binval (by omega)
  have e2b : ((2 : Int) % 18446744073709551616 * (binval : Int)) % 18446744073709551616
      = ((2 * binval : Nat) : Int) := by omega
  have hd3 : decide ((((vp + 2 * nn - binval) % nn : Nat) : Int) = 0) = false := decide_eq_false (by omega)
  have hs2 : 0 < 2 * binval := by omega
  have evp2 : ((((vp : Int) * 2) % 18446744073709551616).toNat) &&& (2 * nn - 1) = (2 * vp) % (2 * nn) := by
    have : (((vp : Int) * 2) % 18446744073709551616).toNat = 2 * vp := by omega
    rw [this, (hbm _).1]
  have ebin2 : ((binval : Int) * 2) % 18446744073709551616 = ((2 * binval : Nat) : Int) := by omega
  simp only [levelStep, levelBody, levelInc, Gen.CSrc.rnx_automorphism_inplace_f64, lS, List.cons_append, List.nil_append]
  have hd4 : decide ((((vp + binval) % nn : Nat) : Int) = 0) = false := decide_eq_false (by omega)
  cir_simp
  simp only [hd1, Bool.false_eq_true, if_false]; cir_simp
  simp only [Int.toNat_natCast, eadd, (hbm _).1, ez, hd2, Bool.false_eq_true, if_false]; cir_simp
  simp only [Int.toNat_natCast, (hbm _).2, esub, ez, hd3, Bool.false_eq_true, if_false]; cir_simp
  simp only [Int.toNat_natCast, eadd, (hbm _).2, ez, hd4, Bool.false_eq_true, if_false]; cir_simp
  have ht1 : 1 ≤ t := by
    rcases Nat.eq_zero_or_pos t with h | h
    · subst h; simp at hnn; omega
    · exact h
  let b0 : PB := ⟨binval, x15, ⟨0, x16, x17, res, 0, x18, x19, x20, x21⟩⟩
  let bSt : PB → State := fun b => pS nn pm mem r binval vp orb x8 x9 x10 x11 x12 b.jstart b.jdead b.a
  have hb0 : PBG nn orb nn b0 := ⟨hres, by
    show binval % nn ≠ 0
    rw [Nat.mod_eq_of_lt hlt]; omega, hlt, by show orb ≤ 0 + 2 * nn; omega, by show 0 ≤ orb + 2 * nn; omega⟩
  change ∃ rest', _ ∧ thenStep (exec _ (Stmt.while _ _) f (bSt b0)) _ = _
  rw [while_sim _ _ _ bSt (pbTst orb) (pbStp f64Ops nn pm) (PBG nn orb) nn ?hG ?hzero ?hcond ?hbody
    nn b0 f hb0 (by omega)]
  case hG =>
    intro m b h htst
    have := PBG_step f64Ops t pm orb m b (hnn ▸ h) htst
    rw [← hnn] at this
    exact this
  case hzero =>
    intro b ⟨_, _, _, h4, _⟩
    simp only [pbTst]
    exact decide_eq_false (by omega)
  case hcond =>
    intro m b _
    simp only [bSt, pS]; cir_simp
    simp only [pbTst, Nat.cast_lt]
  case hbody =>
    intro m b f' hG htst hf'
    obtain ⟨g1, g2, g3, g4, g5⟩ := hG
    have hnb : b.a.nb < orb := by simpa [pbTst] using htst
    simp only [bSt, pS]; cir_simp
    have ej : ((nn : Int) - (b.jstart : Int)) % 18446744073709551616 = ((nn - b.jstart : Nat) : Int) := by omega
    have hjs1 : 1 ≤ b.jstart := by
      rcases Nat.eq_zero_or_pos b.jstart with h | h
      · rw [h] at g2; simp at g2
      · exact h
    rw [load_set_self _ _ _ _ hrm (by omega)]; cir_simp
    rw [ej, load_set_self _ _ _ _ hrm (by omega)]; cir_simp
    change seqK (exec _ (Stmt.doWhile _ _) f'
      ((fun a : PA => pS nn pm mem r binval vp orb x8 x9 x10 x11 x12 b.jstart (a.j : Int) a)
        (pbEnter f64Ops nn b))) _ = _
    rw [doWhile_sim _ _ _ (fun a => pS nn pm mem r binval vp orb x8 x9 x10 x11 x12 b.jstart (a.j : Int) a)
      (pStp f64Ops nn pm) (pEx b.jstart) (PAG nn) ?hG ?hbody ?hcond nn (pbEnter f64Ops nn b) f'
      ?hG0 ?hT (by omega)]
    · simp only [pS]; cir_simp
      have e5 := five_mul_mask1 t nn hnn (by omega) b.jstart
      simp only [Int.toNat_natCast, e5]
      rfl
    case hG =>
      intro m' a h _
      have := PAG_step f64Ops t pm hpm1 m' a (hnn ▸ h)
      rw [← hnn] at this
      exact this
    case hG0 =>
      refine ⟨g1, ?_, ?_⟩
      · show b.jstart % nn ≠ 0
        exact g2
      · show b.a.nb + 2 * nn < 18446744073709551616
        omega
    case hT =>
      apply termA_of_pcloses f64Ops nn pm b.jstart nn
      have := pcloses_self t pm b.jstart hpm1 ht1 (hnn ▸ g3)
      rw [← hnn] at this
      exact this
    case hcond =>
      intro a
      simp only [pS]; cir_simp
      simp only [pEx]
      congr 1
      by_cases h : a.j = b.jstart
      · rw [h]; simp
      · have h' : ¬ ((a.j : Int) = (b.jstart : Int)) := by omega
        simp [h, h']
    case hbody =>
      intro m' a f'' hA
      obtain ⟨q1, q2, q3⟩ := hA
      simp only [pS]; cir_simp
      simp only [Int.toNat_natCast]
      rw [mul_mask2 t nn hnn (by omega) a.j pm, (hbm _).2]
      have hnj : a.j * pm % (2 * nn) % nn = (a.j * pm) % nn := Nat.mod_mul_left_mod _ _ _
      have hnz : (a.j * pm) % nn ≠ 0 := by
        have := mul_odd_mod_ne_zero t pm a.j hpm1 (hnn ▸ q2)
        rw [← hnn] at this
        exact this
      have hmod : a.j * pm % (2 * nn) % nn < nn := Nat.mod_lt _ (by omega)
      have e19 : ((nn : Int) - ((a.j * pm % (2 * nn) % nn : Nat) : Int)) % 18446744073709551616
          = ((nn - a.j * pm % (2 * nn) % nn : Nat) : Int) := by omega
      have enb : ((a.nb : Int) + 2 % 18446744073709551616) % 18446744073709551616 = ((a.nb + 2 : Nat) : Int) := by
        omega
      rw [load_set_self _ _ _ _ hrm (by omega)]; cir_simp
      rw [e19, load_set_self _ _ _ _ hrm (by omega)]; cir_simp
      by_cases hlt2 : a.j * pm % (2 * nn) < nn
      · have hdd : decide (((a.j * pm % (2 * nn) : Nat) : Int) < (nn : Int)) = true := decide_eq_true (by omega)
        simp only [hdd, if_true]
        rw [store_set _ _ _ _ _ hrm (by omega)]; cir_simp
        rw [e19, store_set _ _ _ _ _ hrm (by rw [Array.size_setIfInBounds]; omega)]; cir_simp
        rw [enb]
        simp only [pStp, if_pos hlt2]
        rfl
      · have hnl : ¬ (((a.j * pm % (2 * nn) : Nat) : Int) < (nn : Int)) := by omega
        have hdd : decide (((a.j * pm % (2 * nn) : Nat) : Int) < (nn : Int)) = false := decide_eq_false hnl
        simp only [hdd, Bool.false_eq_true, if_false]
        rw [store_set _ _ _ _ _ hrm (by omega)]; cir_simp
        rw [e19, store_set _ _ _ _ _ hrm (by rw [Array.size_setIfInBounds]; omega)]; cir_simp
        rw [enb]
        simp only [pStp, if_neg hlt2]
        rfl
  have hW : Coeffs.autWalkAll f64Ops nn pm orb nn binval 0 res
      = (whileA (pbTst orb) (pbStp f64Ops nn pm) nn b0).a.res := autWalkAll_eq f64Ops nn pm orb nn b0
  rw [hW]
  simp only [bSt, pS]; cir_simp
  rw [evalBin_shl_u64_one]; cir_simp
  rw [evalBin_shl_u64_one]; cir_simp
  simp only [Int.toNat_natCast, evp2]
  rw [evalBin_shr_u64_one]; cir_simp
  rw [ebin2]
  refine ⟨[x8, x9, x10, x11, x12, _, _, _, _, _, _, _, _, _], rfl, rfl⟩

end raut

end Spq.CIR
