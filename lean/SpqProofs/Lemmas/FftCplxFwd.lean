/-
  C06: the forward cplx schedule (`cbfs2`, `cbfs16`, `crec16`, `cfftRI`) computes the level network.
-/
import SpqProofs.Lemmas.FftReimSmall
set_option linter.unusedSectionVars false
set_option linter.unusedSimpArgs false
namespace Spq.Fft.CplxFwd
open Spq.Fft Spq.Fft.Alg Spq.Fft.View Spq.Fft.Level Spq.Fft.Sim Spq.Fft.Tab Spq.Fft.Tw Spq.Fft.Kern Spq.Fft.Sched
open Spq.Fft.ReimFwd

variable {R : Type} [CommRing R] [Inhabited R]

/-- every butterfly of a forward cplx implementation is exact -/
structure CFwdOK (I : R) (F : CFlav R) : Prop where
  ctTop : ∀ wr wi, Realises I F.ctTop wr wi (fφ (wr + I * wi)) (fψ (wr + I * wi))
  ctOdd : ∀ wr wi, Realises I F.ctOdd wr wi (fφ (wr + I * wi)) (fψ (wr + I * wi))
  /-- the `h = 1` butterfly, called with the table entries `(ω, −ω)` -/
  last : ∀ wr wi, Realises I (fun ra ia rb ib wr' wi' => F.last ra ia rb ib wr' wi' (-wr) (-wi)) wr wi
    (fφ (wr + I * wi)) (fψ (wr + I * wi))
  big : FwdOK I F.big

theorem cfwdRef_ok (I : R) (hI : I * I = -1) : CFwdOK I (cfwdRef ringA) :=
  ⟨ctRef_real I hI, ctRef_real I hI, fun wr wi => ctRef_real I hI wr wi, fwdRef_ok I hI⟩

theorem lastFma_real (I : R) (hI : I * I = -1) (wr wi : R) :
    Realises I (fun ra ia rb ib wr' wi' => lastFma ringA ra ia rb ib wr' wi' (-wr) (-wi)) wr wi
      (fφ (wr + I * wi)) (fψ (wr + I * wi)) := by
  intro ra ia rb ib; simp only [lastFma, ringA, fφ, fψ]; constructor <;> grind

theorem cfwdFma_ok (I : R) (hI : I * I = -1) : CFwdOK I (cfwdFma ringA 0) :=
  ⟨ctFmaC_real I hI, ctFma_real I hI, lastFma_real I hI, fwdFma_ok I hI⟩

variable (X : Ctx R)

/-- `twPassL`: the twiddle is stored twice; whatever copy a lane reads, the butterfly is the same -/
theorem twPassL_adv (f : Bf R) (hf : ∀ wr wi, Realises X.I f wr wi (fφ (wr + X.I * wi)) (fψ (wr + X.I * wi)))
    (lanes : Bool) (T : Array R) (t N ℓ d b off : ℕ) (s : RI R) (hs : Valid N s) (hoff : off = 2 * 2 ^ d * b)
    (hN : off + 2 * 2 ^ d ≤ N) (hw0 : T[t]! + X.I * T[t + 1]! = X.ζ ^ twE ℓ d b)
    (hw1 : T[t + 2]! + X.I * T[t + 3]! = X.ζ ^ twE ℓ d b) :
    Adv X.ζ X.a (cxs X.I s) (cxs X.I (twPassL f lanes T t (2 ^ d) off s)) ℓ (d + 1) (ℓ + 1) d off (2 * 2 ^ d) ∧
      Valid N (twPassL f lanes T t (2 ^ d) off s) := by
  unfold twPassL
  have l := loop_sim X.I N
    (fun i s => bf f s (off + i) (off + 2 ^ d + i) T[if (lanes && i % 2 == 1) = true then t + 2 else t]!
      T[(if (lanes && i % 2 == 1) = true then t + 2 else t) + 1]!)
    (fun i x => G (fφ (X.ζ ^ twE ℓ d b)) (fψ (X.ζ ^ twE ℓ d b)) (off + i) (off + 2 ^ d + i) x) (2 ^ d)
    (fun j s hj hs => by
      by_cases hc : (lanes && j % 2 == 1) = true
      · rw [if_pos hc]
        have := hf T[t + 2]! T[t + 2 + 1]!
        rw [show t + 2 + 1 = t + 3 by ring, hw1] at this
        exact bf_sim X.I N f _ _ _ _ (by rw [show t + 2 + 1 = t + 3 by ring]; exact this) s _ _ hs (by omega)
          (by omega) (by omega)
      · rw [if_neg hc]
        have := hf T[t]! T[t + 1]!
        rw [hw0] at this
        exact bf_sim X.I N f _ _ _ _ this s _ _ hs (by omega) (by omega) (by omega)) s hs
  rw [loop1] at l
  rw [l.1]
  exact ⟨Adv.tw X.ζ X.a _ ℓ d b off hoff, l.2⟩

/-- the cplx leaf pack `cplx_fft16_precomp(e)` read through `cplxW16` -/
theorem cleaf_read (T : Array R) (t e U : ℕ) (h : Seg T t ((cFill16 U e).map (val X.c X.s))) :
    ∀ q, q < 8 → (cplxW16 T t q).1 + X.I * (cplxW16 T t q).2 = X.ζ ^ leafE e U q := by
  have hl : ((cFill16 U e).map (val X.c X.s)).length = 16 := by simp [cFill16, eP, gam]
  have g : ∀ j, j < 16 → T[t + j]! = ((cFill16 U e).map (val X.c X.s))[j]! := fun j hj => h j (by omega)
  intro q hq
  have : q = 0 ∨ q = 1 ∨ q = 2 ∨ q = 3 ∨ q = 4 ∨ q = 5 ∨ q = 6 ∨ q = 7 := by omega
  rcases this with rfl | rfl | rfl | rfl | rfl | rfl | rfl | rfl
  · have a := g 0 (by omega); have b := g 1 (by omega)
    simp only [Nat.add_zero] at a
    simp only [cplxW16, leafE, Nat.reduceMul, Nat.reduceAdd, Nat.add_zero, Nat.add_assoc]
    rw [a, b]; simp [cFill16, eP, gam, val, X.hcs, Nat.add_assoc]
  · have a := g 2 (by omega); have b := g 3 (by omega)
    simp only [cplxW16, leafE, Nat.reduceMul, Nat.reduceAdd, Nat.add_zero, Nat.add_assoc]
    rw [a, b]; simp [cFill16, eP, gam, val, X.hcs, Nat.add_assoc]
  · have a := g 4 (by omega); have b := g 5 (by omega)
    simp only [cplxW16, leafE, Nat.reduceMul, Nat.reduceAdd, Nat.add_zero, Nat.add_assoc]
    rw [a, b]; simp [cFill16, eP, gam, val, X.hcs, Nat.add_assoc]
  · have a := g 6 (by omega); have b := g 7 (by omega)
    simp only [cplxW16, leafE, Nat.reduceMul, Nat.reduceAdd, Nat.add_zero, Nat.add_assoc]
    rw [a, b]; simp [cFill16, eP, gam, val, X.hcs, Nat.add_assoc]
  · have a := g 8 (by omega); have b := g 9 (by omega)
    simp only [cplxW16, leafE, Nat.reduceMul, Nat.reduceAdd, Nat.add_zero, Nat.add_assoc]
    rw [a, b]; simp [cFill16, eP, gam, val, X.hcs, Nat.add_assoc]
  · have a := g 10 (by omega); have b := g 11 (by omega)
    simp only [cplxW16, leafE, Nat.reduceMul, Nat.reduceAdd, Nat.add_zero, Nat.add_assoc]
    rw [a, b]; simp [cFill16, eP, gam, val, X.hcs, Nat.add_assoc]
  · have a := g 12 (by omega); have b := g 13 (by omega)
    simp only [cplxW16, leafE, Nat.reduceMul, Nat.reduceAdd, Nat.add_zero, Nat.add_assoc]
    rw [a, b]; simp [cFill16, eP, gam, val, X.hcs, Nat.add_assoc]
  · have a := g 14 (by omega); have b := g 15 (by omega)
    simp only [cplxW16, leafE, Nat.reduceMul, Nat.reduceAdd, Nat.add_zero, Nat.add_assoc]
    rw [a, b]; simp [cFill16, eP, gam, val, X.hcs, Nat.add_assoc]

/-- the loop over the 16-point leaves -/
theorem cleaves_spec (F : Flav R) (hF : FwdOK X.I F) (T : Array R) (N ℓ0 j b0 off m' t : ℕ) (s : RI R)
    (hs : Valid N s) (hk : X.k = ℓ0 + j + 4) (hm : m' = 2 ^ (j + 4)) (hoff : off = m' * b0) (hN : off + m' ≤ N)
    (hT : Seg T t (((List.range (m' / 16)).flatMap
      (fun b => cFill16 (4 * 2 ^ X.k) (16 * (1 + 4 * brev ℓ0 b0) + frbN (4 * 2 ^ X.k) b))).map (val X.c X.s))) :
    let r := iterFrom (fun b (st : RI R × ℕ) => (fft16K F (cplxW16 T st.2) (off + 16 * b) st.1, st.2 + 16)) (m' / 16) 0 (s, t)
    Adv X.ζ X.a (cxs X.I s) (cxs X.I r.1) (ℓ0 + j) 4 (ℓ0 + j + 4) 0 off m' ∧ Valid N r.1 ∧ r.2 = t + m' := by
  intro r
  have hnb : m' / 16 = 2 ^ j := by rw [hm, pow_add]; norm_num
  have hm16 : m' = 2 ^ j * 16 := by rw [hm, pow_add]; norm_num
  have hr : r = (iterFrom (fun b s => fft16K F (cplxW16 T (t + 16 * b)) (off + 16 * b) s) (m' / 16) 0 s, t + 16 * (m' / 16)) :=
    iter_counter (fun b t s => fft16K F (cplxW16 T t) (off + 16 * b) s) 16 (m' / 16) s t
  rw [hr]
  simp only
  rw [List.map_flatMap] at hT
  have hseg := Seg.flatMap (T := T) (t := t) _ 16 (m' / 16) (fun b => by simp [cFill16, eP, gam]) hT
  have sw := sweep X (fun b s => fft16K F (cplxW16 T (t + 16 * b)) (off + 16 * b) s) N (ℓ0 + j) 4 (ℓ0 + j + 4) 0 off 16
    (m' / 16)
    (fun b s hb hs => by
      have hb' : b < 2 ^ j := by omega
      have := fft16K_adv X F hF (cplxW16 T (t + 16 * b)) N (ℓ0 + j) (b0 * 2 ^ j + b) (off + 16 * b)
        (16 * (1 + 4 * brev ℓ0 b0) + frbN (4 * 2 ^ X.k) b) s hs
        (by rw [hoff, hm16]; ring) (by omega) hk
        (by
          have := block_entry ℓ0 j 4 b0 b hb'
          rw [← hk] at this
          simpa using this)
        (cleaf_read X T (t + 16 * b) _ _ (by
          have := hseg b hb
          rwa [show t + b * 16 = t + 16 * b by ring] at this))
      exact ⟨this.1.of_eq X.ζ X.a (by ring) rfl, this.2⟩) s hs
  refine ⟨sw.1.of_eq X.ζ X.a rfl (by omega), sw.2, by omega⟩


/-- the `while (mm > 16)` loop of `bfs16`: all radix-4 levels down to blocks of 16 -/
theorem cbfsLevels_spec (F : CFlav R) (hF : FwdOK X.I F.big) (T : Array R) (N ℓ0 D b0 off m' : ℕ)
    (hk : X.k = ℓ0 + D) (hm : m' = 2 ^ D) (hoff : off = m' * b0) (hN : off + m' ≤ N) :
    ∀ i fuel j mm ss (s : RI R) (t : ℕ), j + (4 + 2 * i) = D → mm = 2 ^ (4 + 2 * i) → mm ≤ fuel →
      ss = mm * (1 + 4 * brev ℓ0 b0) → Valid N s →
      Seg T t ((cBfs16Levels (4 * 2 ^ X.k) m' fuel mm ss).map (val X.c X.s)) →
      Adv X.ζ X.a (cxs X.I s) (cxs X.I (cbfsLevels F T m' off fuel mm (s, t)).1) (ℓ0 + j) (4 + 2 * i)
          (ℓ0 + j + 2 * i) 4 off m' ∧
        Valid N (cbfsLevels F T m' off fuel mm (s, t)).1 ∧
        Seg T (cbfsLevels F T m' off fuel mm (s, t)).2 (((List.range (m' / 16)).flatMap
          (fun b => cFill16 (4 * 2 ^ X.k) (16 * (1 + 4 * brev ℓ0 b0) + frbN (4 * 2 ^ X.k) b))).map (val X.c X.s)) ∧
        (cbfsLevels F T m' off fuel mm (s, t)).2 + m' / 16 * 16 = t + (cBfs16Levels (4 * 2 ^ X.k) m' fuel mm ss).length := by
  intro i
  induction i with
  | zero =>
    intro fuel j mm ss s t hj hmm hfuel hss hs hT
    have hmm16 : mm = 16 := by rw [hmm]; norm_num
    subst hmm16
    obtain ⟨f, rfl⟩ : ∃ f, fuel = f + 1 := ⟨fuel - 1, by omega⟩
    rw [cbfsLevels, if_neg (by omega)]
    rw [cBfs16Levels, if_neg (by omega), hss] at hT
    refine ⟨Adv_id X _ _ _ _ _ _ _ (by omega) (by omega), hs, hT, ?_⟩
    rw [cBfs16Levels, if_neg (by omega), length_flatMap_const _ 16 _ (fun b => by simp [cFill16, eP, gam])]
  | succ i ih =>
    intro fuel j mm ss s t hj hmm hfuel hss hs hT
    obtain ⟨f, rfl⟩ : ∃ f, fuel = f + 1 := ⟨fuel - 1, by
      have : 0 < mm := by rw [hmm]; exact Nat.two_pow_pos _
      omega⟩
    have hmm' : mm = 2 ^ (4 + 2 * i + 2) := by rw [hmm]; congr 1
    have hmm4 : mm = 4 * 2 ^ (4 + 2 * i) := by rw [hmm', pow_add]; ring
    have hgt : mm > 16 := by
      have : 1 ≤ 2 ^ (2 * i) := Nat.one_le_two_pow
      rw [hmm4, pow_add]; omega
    have hq : mm / 4 = 2 ^ (4 + 2 * i) := by omega
    rw [cbfsLevels, if_pos hgt]
    have hlenT : (cBfs16Levels (4 * 2 ^ X.k) m' (f + 1) mm ss).length
        = 4 * (m' / mm) + (cBfs16Levels (4 * 2 ^ X.k) m' f (mm / 4) (ss / 4)).length := by
      rw [cBfs16Levels, if_pos hgt, List.length_append, length_flatMap_const _ 4 _ (fun b => by simp [eP])]; ring
    rw [cBfs16Levels, if_pos hgt, List.map_append, hss] at hT
    have hm2 : m' = 2 ^ (j + (4 + 2 * i + 2)) := by rw [hm, ← hj]; congr 1
    have st := r4_spec X F.big hF T N ℓ0 j (4 + 2 * i) b0 off m' mm t s hs (by omega) hm2 hmm' hoff hN hT.left
    simp only at st
    obtain ⟨a1, v1, p1⟩ := st
    have hlen : (List.map (val X.c X.s) ((List.range (m' / mm)).flatMap (fun b =>
        eP (2 * (mm * (1 + 4 * brev ℓ0 b0) / 4 + frbN (4 * 2 ^ X.k) b / 4)) ++
        eP (mm * (1 + 4 * brev ℓ0 b0) / 4 + frbN (4 * 2 ^ X.k) b / 4)))).length = 4 * (m' / mm) := by
      rw [List.length_map, length_flatMap_const _ 4 _ (fun b => by simp [eP])]; ring
    have hT2 := hT.right
    rw [hlen, ← p1] at hT2
    have hss4 : mm * (1 + 4 * brev ℓ0 b0) / 4 = mm / 4 * (1 + 4 * brev ℓ0 b0) := by
      rw [hmm4, Nat.mul_assoc, Nat.mul_div_cancel_left _ (by omega : 0 < 4), Nat.mul_div_cancel_left _ (by omega : 0 < 4)]
    rw [hss4] at hT2
    have nx := ih f (j + 2) (mm / 4) (mm / 4 * (1 + 4 * brev ℓ0 b0))
      (iterFrom (fun b (st : RI R × ℕ) => (bitwiddle F.big T st.2 (mm / 4) (off + b * mm) st.1, st.2 + 4))
        (m' / mm) 0 (s, t)).1
      (iterFrom (fun b (st : RI R × ℕ) => (bitwiddle F.big T st.2 (mm / 4) (off + b * mm) st.1, st.2 + 4))
        (m' / mm) 0 (s, t)).2 (by omega) hq (by omega) rfl v1 hT2
    obtain ⟨a2, v2, p2, q2⟩ := nx
    refine ⟨?_, v2, p2, ?_⟩
    swap
    · rw [q2, p1, hlenT, hss, hss4]; ring
    exact (a1.cast X.ζ X.a (ℓ0 + j) (4 + 2 * (i + 1)) (ℓ0 + (j + 2)) (4 + 2 * i) rfl (by ring) (by ring) rfl).seq
      X.ζ X.a (a2.cast X.ζ X.a (ℓ0 + (j + 2)) (4 + 2 * i) (ℓ0 + j + 2 * (i + 1)) 4 rfl rfl (by ring) rfl)


/-- `cbfs16` (m' = 2^D ≥ 16) -/
theorem cbfs16_spec (F : CFlav R) (hF : CFwdOK X.I F) (T : Array R) (N ℓ0 D b0 off m' t : ℕ) (s : RI R)
    (hk : X.k = ℓ0 + D) (hm : m' = 2 ^ D) (hD : 4 ≤ D) (hoff : off = m' * b0) (hN : off + m' ≤ N)
    (hs : Valid N s)
    (hT : Seg T t ((cBfs16 (4 * 2 ^ X.k) m' (m' * (1 + 4 * brev ℓ0 b0))).map (val X.c X.s))) :
    Adv X.ζ X.a (cxs X.I s) (cxs X.I (cbfs16 F T m' off (s, t)).1) ℓ0 D X.k 0 off m' ∧
      Valid N (cbfs16 F T m' off (s, t)).1 ∧
      (cbfs16 F T m' off (s, t)).2 = t + (cBfs16 (4 * 2 ^ X.k) m' (m' * (1 + 4 * brev ℓ0 b0))).length := by
  have hlog : m'.log2 = D := by rw [hm]; exact Nat.log2_two_pow
  have h16 : m' / 16 * 16 = m' := by
    have : m' = 2 ^ (D - 4) * 16 := by
      rw [hm, show (16 : ℕ) = 2 ^ 4 by norm_num, ← pow_add 2 (D - 4) 4]; congr 1; omega
    omega
  obtain ⟨i, p, hp, hDi⟩ : ∃ i p, p < 2 ∧ D = 4 + 2 * i + p := ⟨(D - 4) / 2, (D - 4) % 2, by omega, by omega⟩
  unfold cbfs16
  rw [cBfs16, hlog] at hT
  rw [cBfs16, hlog]
  by_cases hodd : (D % 2 == 1) = true
  · have hp1 : p = 1 := by simp at hodd; omega
    subst hp1
    rw [if_pos hodd] at hT ⊢
    rw [if_pos hodd]
    rw [List.map_append, List.map_append] at hT
    have hm2 : m' / 2 = 2 ^ (4 + 2 * i) := by rw [hm, hDi, pow_succ]; omega
    have hmm : m' = 2 * 2 ^ (4 + 2 * i) := by rw [hm, hDi, pow_succ]; ring
    have hpw : m' * (1 + 4 * brev ℓ0 b0) / 2 = m' / 2 * (1 + 4 * brev ℓ0 b0) := by
      rw [hmm, Nat.mul_assoc, Nat.mul_div_cancel_left _ (by omega : 0 < 2), Nat.mul_div_cancel_left _ (by omega : 0 < 2)]
    have w0 := read_eP X T t _ hT.left.left
    have hsecond := hT.left.right
    rw [show (List.map (val X.c X.s) (eP (m' * (1 + 4 * brev ℓ0 b0) / 2))).length = 2 by simp [eP]] at hsecond
    have w1 := read_eP X T (t + 2) _ hsecond
    rw [show t + 2 + 1 = t + 3 by ring] at w1
    have s1 := twPassL_adv X F.ctOdd hF.ctOdd F.lanesOdd T t N ℓ0 (4 + 2 * i) b0 off s hs (by rw [hoff, hmm])
      (by omega) (by rw [w0, hpw, hm2, twE]) (by rw [w1, hpw, hm2, twE])
    rw [← hm2] at s1
    obtain ⟨a1, v1⟩ := s1
    have hT2 := hT.right
    rw [List.length_append, List.length_map,
      show (eP (m' * (1 + 4 * brev ℓ0 b0) / 2)).length = 2 by simp [eP], hpw] at hT2
    have s2 := cbfsLevels_spec X F hF.big T N ℓ0 D b0 off m' hk hm hoff hN i m' 1 (m' / 2)
      (m' / 2 * (1 + 4 * brev ℓ0 b0)) _ (t + 4) (by omega) hm2 (by omega) rfl v1 hT2
    obtain ⟨a2, v2, p2, q2⟩ := s2
    have s3 := cleaves_spec X F.big hF.big T N ℓ0 (2 * i + 1) b0 off m' _ _ v2 (by omega)
      (by rw [hm, hDi]; congr 1; omega) hoff hN p2
    simp only at s3
    obtain ⟨a3, v3, p3⟩ := s3
    refine ⟨?_, v3, ?_⟩
    · have b1 := a1.cast X.ζ X.a ℓ0 D (ℓ0 + 1) (4 + 2 * i) rfl (by omega) rfl rfl
      have b1' := b1.of_eq X.ζ X.a rfl (show m' = 2 * (m' / 2) by omega)
      have b2 := a2.cast X.ζ X.a (ℓ0 + 1) (4 + 2 * i) (ℓ0 + (2 * i + 1)) 4 rfl rfl (by ring) rfl
      have b3 := a3.cast X.ζ X.a (ℓ0 + (2 * i + 1)) 4 X.k 0 rfl rfl (by omega) rfl
      exact (b1'.seq X.ζ X.a b2).seq X.ζ X.a b3
    · rw [p3, List.length_append, List.length_append, hpw]
      simp only [eP, List.length_cons, List.length_nil]
      omega
  · have hp0 : p = 0 := by simp at hodd; omega
    subst hp0
    rw [if_neg hodd] at hT ⊢
    rw [if_neg hodd]
    have s2 := cbfsLevels_spec X F hF.big T N ℓ0 D b0 off m' hk hm hoff hN i m' 0 m'
      (m' * (1 + 4 * brev ℓ0 b0)) s t (by omega) (by rw [hm, hDi]; rfl) (by omega) rfl hs hT
    obtain ⟨a2, v2, p2, q2⟩ := s2
    have s3 := cleaves_spec X F.big hF.big T N ℓ0 (2 * i) b0 off m' _ _ v2 (by omega)
      (by rw [hm, hDi]; congr 1; omega) hoff hN p2
    simp only at s3
    obtain ⟨a3, v3, p3⟩ := s3
    refine ⟨?_, v3, ?_⟩
    · have b2 := a2.cast X.ζ X.a ℓ0 D (ℓ0 + 2 * i) 4 (by omega) (by omega) (by ring) rfl
      have b3 := a3.cast X.ζ X.a (ℓ0 + 2 * i) 4 X.k 0 rfl rfl (by omega) rfl
      exact b2.seq X.ζ X.a b3
    · rw [p3]; omega

/-- exponent of a plain twiddle entry `pom + fracrevbits(b)/2` -/
theorem tw_exps (ℓ0 j d b0 b k : ℕ) (hb : b < 2 ^ j) (hk : k = ℓ0 + j + (d + 1)) :
    2 ^ d * (1 + 4 * brev ℓ0 b0) + frbN (4 * 2 ^ k) b / 2 = twE (ℓ0 + j) d (b0 * 2 ^ j + b) := by
  subst hk
  have hE := block_entry ℓ0 j (d + 1) b0 b hb
  have h1 : 2 ^ (d + 1) * (1 + 4 * brev ℓ0 b0) = 2 * (2 ^ d * (1 + 4 * brev ℓ0 b0)) := by rw [pow_succ]; ring
  have h2 : 2 ^ (d + 1) * (1 + 4 * brev (ℓ0 + j) (b0 * 2 ^ j + b))
      = 2 * (2 ^ d * (1 + 4 * brev (ℓ0 + j) (b0 * 2 ^ j + b))) := by rw [pow_succ]; ring
  rw [h1, h2] at hE
  rw [twE]
  omega

/-- one twiddle level of `cbfs2` over the whole region (all blocks of size `2h`) -/
theorem clevel_spec (F : CFlav R) (hF : CFwdOK X.I F) (T : Array R) (N ℓ0 j d b0 off m' h t : ℕ) (s : RI R)
    (hs : Valid N s) (hk : X.k = ℓ0 + j + (d + 1)) (hm : m' = 2 ^ (j + (d + 1))) (hh : h = 2 ^ d)
    (hoff : off = m' * b0) (hN : off + m' ≤ N)
    (hT : Seg T t (((List.range (m' / (2 * h))).flatMap (fun b =>
      eP (h * (1 + 4 * brev ℓ0 b0) + frbN (4 * 2 ^ X.k) b / 2) ++
      eP (h * (1 + 4 * brev ℓ0 b0) + frbN (4 * 2 ^ X.k) b / 2))).map (val X.c X.s))) :
    let r := iterFrom (fun b (st : RI R × ℕ) =>
      (twPassL F.ctTop F.lanesTop T st.2 h (off + b * (2 * h)) st.1, st.2 + 4)) (m' / (2 * h)) 0 (s, t)
    Adv X.ζ X.a (cxs X.I s) (cxs X.I r.1) (ℓ0 + j) (d + 1) (ℓ0 + j + 1) d off m' ∧ Valid N r.1 ∧
      r.2 = t + 4 * (m' / (2 * h)) := by
  intro r
  have hmm : 2 * h = 2 ^ (d + 1) := by rw [hh, pow_succ]; ring
  have hnb : m' / (2 * h) = 2 ^ j := by
    rw [hm, hmm, pow_add]; exact Nat.mul_div_cancel _ (Nat.two_pow_pos _)
  have hm' : m' = 2 ^ j * (2 * h) := by rw [hm, hmm, pow_add]
  have hr : r = (iterFrom (fun b s => twPassL F.ctTop F.lanesTop T (t + 4 * b) h (off + b * (2 * h)) s)
      (m' / (2 * h)) 0 s, t + 4 * (m' / (2 * h))) :=
    iter_counter (fun b t s => twPassL F.ctTop F.lanesTop T t h (off + b * (2 * h)) s) 4 (m' / (2 * h)) s t
  rw [hr]
  simp only
  rw [List.map_flatMap] at hT
  have hseg := Seg.flatMap (T := T) (t := t) _ 4 (m' / (2 * h)) (fun b => by simp [eP]) hT
  have sw := sweep X (fun b s => twPassL F.ctTop F.lanesTop T (t + 4 * b) h (off + b * (2 * h)) s) N (ℓ0 + j) (d + 1)
    (ℓ0 + j + 1) d off (2 * h) (m' / (2 * h))
    (fun b s hb hs => by
      have hb' : b < 2 ^ j := by omega
      have hsb := hseg b hb
      rw [List.map_append, show t + b * 4 = t + 4 * b by ring] at hsb
      have e := tw_exps ℓ0 j d b0 b X.k hb' hk
      rw [← hh] at e
      have w0 := read_eP X T (t + 4 * b) _ hsb.left
      have w1 := read_eP X T (t + 4 * b + 2) _ (by simpa [eP] using hsb.right)
      rw [e] at w0 w1
      have hbm' : b * (2 * h) + 2 * h ≤ 2 ^ j * (2 * h) := by
        have : (b + 1) * (2 * h) ≤ 2 ^ j * (2 * h) := Nat.mul_le_mul_right _ hb'
        rw [Nat.add_mul] at this; omega
      have := twPassL_adv X F.ctTop hF.ctTop F.lanesTop T (t + 4 * b) N (ℓ0 + j) d (b0 * 2 ^ j + b)
        (off + b * (2 * h)) s hs (by rw [hoff, hm', hh]; ring) (by rw [← hh]; omega) w0
        (by rw [show t + 4 * b + 2 + 1 = t + 4 * b + 3 by ring] at w1; exact w1)
      rw [← hh] at this
      exact this) s hs
  refine ⟨sw.1.of_eq X.ζ X.a rfl (by rw [hnb, hm']), sw.2, trivial⟩

/-- the twiddle levels of `cbfs2`: from blocks of size `2·2^d` down to blocks of size 2 -/
theorem cbfs2Levels_spec (F : CFlav R) (hF : CFwdOK X.I F) (T : Array R) (N ℓ0 D b0 off m' : ℕ)
    (hk : X.k = ℓ0 + D) (hm : m' = 2 ^ D) (hoff : off = m' * b0) (hN : off + m' ≤ N) :
    ∀ d fuel j h pom (s : RI R) (t : ℕ), j + (d + 1) = D → h = 2 ^ d → pom = h * (1 + 4 * brev ℓ0 b0) →
      d + 1 ≤ fuel → Valid N s →
      Seg T t ((cBfs2Levels (4 * 2 ^ X.k) m' fuel h pom).map (val X.c X.s)) →
      Adv X.ζ X.a (cxs X.I s) (cxs X.I (cbfs2Levels F T m' off fuel h (s, t)).1) (ℓ0 + j) (d + 1)
          (ℓ0 + j + d) 1 off m' ∧
        Valid N (cbfs2Levels F T m' off fuel h (s, t)).1 ∧
        Seg T (cbfs2Levels F T m' off fuel h (s, t)).2 (((List.range (m' / 2)).flatMap (fun i =>
          eP (1 + 4 * brev ℓ0 b0 + frbN (4 * 2 ^ X.k) i / 2) ++
          eN (1 + 4 * brev ℓ0 b0 + frbN (4 * 2 ^ X.k) i / 2))).map (val X.c X.s)) ∧
        (cbfs2Levels F T m' off fuel h (s, t)).2 + m' / 2 * 4 = t + (cBfs2Levels (4 * 2 ^ X.k) m' fuel h pom).length := by
  intro d
  induction d with
  | zero =>
    intro fuel j h pom s t hj hh hpom hfuel hs hT
    obtain ⟨f, rfl⟩ : ∃ f, fuel = f + 1 := ⟨fuel - 1, by omega⟩
    have h1 : h = 1 := by rw [hh]; rfl
    subst h1
    rw [cbfs2Levels, if_neg (by omega)]
    rw [cBfs2Levels, if_neg (by omega), hpom, Nat.one_mul] at hT
    refine ⟨Adv_id X _ _ _ _ _ _ _ (by omega) (by omega), hs, hT, ?_⟩
    rw [cBfs2Levels, if_neg (by omega), length_flatMap_const _ 4 _ (fun b => by simp [eP, eN])]
  | succ d ih =>
    intro fuel j h pom s t hj hh hpom hfuel hs hT
    obtain ⟨f, rfl⟩ : ∃ f, fuel = f + 1 := ⟨fuel - 1, by omega⟩
    have hh2 : h = 2 * 2 ^ d := by rw [hh, pow_succ]; ring
    have hge : h ≥ 2 := by have := Nat.two_pow_pos d; omega
    have hq : h / 2 = 2 ^ d := by omega
    rw [cbfs2Levels, if_pos hge]
    have hlenT : (cBfs2Levels (4 * 2 ^ X.k) m' (f + 1) h pom).length
        = 4 * (m' / (2 * h)) + (cBfs2Levels (4 * 2 ^ X.k) m' f (h / 2) (pom / 2)).length := by
      rw [cBfs2Levels, if_pos hge, List.length_append, length_flatMap_const _ 4 _ (fun b => by simp [eP])]; ring
    rw [cBfs2Levels, if_pos hge, List.map_append, hpom] at hT
    have st := clevel_spec X F hF T N ℓ0 j (d + 1) b0 off m' h t s hs (by omega) (by rw [hm]; congr 1; omega) hh
      hoff hN hT.left
    simp only at st
    obtain ⟨sA, tA, hst⟩ : ∃ sA tA, iterFrom (fun b (st : RI R × ℕ) =>
      (twPassL F.ctTop F.lanesTop T st.2 h (off + b * (2 * h)) st.1, st.2 + 4)) (m' / (2 * h)) 0 (s, t) = (sA, tA) :=
      ⟨_, _, rfl⟩
    rw [hst] at st
    simp only [hst]
    obtain ⟨a1, v1, p1⟩ := st
    simp only at a1 v1 p1
    have hlen : (List.map (val X.c X.s) ((List.range (m' / (2 * h))).flatMap (fun b =>
        eP (h * (1 + 4 * brev ℓ0 b0) + frbN (4 * 2 ^ X.k) b / 2) ++
        eP (h * (1 + 4 * brev ℓ0 b0) + frbN (4 * 2 ^ X.k) b / 2)))).length = 4 * (m' / (2 * h)) := by
      rw [List.length_map, length_flatMap_const _ 4 _ (fun b => by simp [eP])]; ring
    have hT2 := hT.right
    have hpom2 : h * (1 + 4 * brev ℓ0 b0) / 2 = h / 2 * (1 + 4 * brev ℓ0 b0) := by
      rw [hh2, Nat.mul_assoc, Nat.mul_div_cancel_left _ (by omega : 0 < 2),
        Nat.mul_div_cancel_left _ (by omega : 0 < 2)]
    rw [hlen, ← p1, hpom2] at hT2
    have nx := ih f (j + 1) (h / 2) (h / 2 * (1 + 4 * brev ℓ0 b0)) sA tA (by omega) hq rfl (by omega) v1 hT2
    obtain ⟨a2, v2, p2, q2⟩ := nx
    refine ⟨?_, v2, p2, ?_⟩
    · exact (a1.cast X.ζ X.a (ℓ0 + j) (d + 1 + 1) (ℓ0 + (j + 1)) (d + 1) rfl rfl (by ring) rfl).seq X.ζ X.a
        (a2.cast X.ζ X.a (ℓ0 + (j + 1)) (d + 1) (ℓ0 + j + (d + 1)) 1 rfl rfl (by ring) rfl)
    · rw [q2, p1, hlenT, hpom, hpom2, Nat.add_assoc]

/-- the `h = 1` loop of `cbfs2`: one butterfly per pair, table `(ω, −ω)` -/
theorem clast_spec (F : CFlav R) (hF : CFwdOK X.I F) (T : Array R) (N ℓ0 D1 b0 off m' t : ℕ) (s : RI R)
    (hs : Valid N s) (hk : X.k = ℓ0 + D1 + 1) (hm : m' = 2 ^ (D1 + 1)) (hoff : off = m' * b0) (hN : off + m' ≤ N)
    (hT : Seg T t (((List.range (m' / 2)).flatMap (fun i =>
      eP (1 + 4 * brev ℓ0 b0 + frbN (4 * 2 ^ X.k) i / 2) ++
      eN (1 + 4 * brev ℓ0 b0 + frbN (4 * 2 ^ X.k) i / 2))).map (val X.c X.s))) :
    let r := iterFrom (fun j (st : RI R × ℕ) =>
      let t := st.2
      let s := st.1
      let a := off + 2 * j
      let r := F.last s.re[a]! s.im[a]! s.re[a + 1]! s.im[a + 1]! T[t]! T[t + 1]! T[t + 2]! T[t + 3]!
      ((⟨(s.re.set! a r.1).set! (a + 1) r.2.2.1, (s.im.set! a r.2.1).set! (a + 1) r.2.2.2⟩ : RI R), t + 4))
      (m' / 2) 0 (s, t)
    Adv X.ζ X.a (cxs X.I s) (cxs X.I r.1) (ℓ0 + D1) 1 (ℓ0 + D1 + 1) 0 off m' ∧ Valid N r.1 ∧
      r.2 = t + 4 * (m' / 2) := by
  intro r
  have hnb : m' / 2 = 2 ^ D1 := by rw [hm, pow_succ]; simp
  have hm' : m' = 2 ^ D1 * 2 := by rw [hm, pow_succ]
  have hr : r = (iterFrom (fun j s => bf (fun ra ia rb ib wr wi => F.last ra ia rb ib wr wi T[t + 4 * j + 2]!
      T[t + 4 * j + 3]!) s (off + 2 * j) (off + 2 * j + 1) T[t + 4 * j]! T[t + 4 * j + 1]!) (m' / 2) 0 s,
      t + 4 * (m' / 2)) :=
    iter_counter (fun j t s => bf (fun ra ia rb ib wr wi => F.last ra ia rb ib wr wi T[t + 2]! T[t + 3]!) s
      (off + 2 * j) (off + 2 * j + 1) T[t]! T[t + 1]!) 4 (m' / 2) s t
  rw [hr]
  simp only
  rw [List.map_flatMap] at hT
  have hseg := Seg.flatMap (T := T) (t := t) _ 4 (m' / 2) (fun b => by simp [eP, eN]) hT
  have sw := sweep X (fun j s => bf (fun ra ia rb ib wr wi => F.last ra ia rb ib wr wi T[t + 4 * j + 2]!
      T[t + 4 * j + 3]!) s (off + 2 * j) (off + 2 * j + 1) T[t + 4 * j]! T[t + 4 * j + 1]!) N (ℓ0 + D1) 1
    (ℓ0 + D1 + 1) 0 off 2 (m' / 2)
    (fun j s hj hs => by
      have hj' : j < 2 ^ D1 := by omega
      have hsb := hseg j hj
      rw [show t + j * 4 = t + 4 * j by ring] at hsb
      have e := tw_exps ℓ0 D1 0 b0 j X.k hj' (by omega)
      rw [pow_zero, Nat.one_mul] at e
      have g0 := hsb 0 (by simp [eP, eN]); have g1 := hsb 1 (by simp [eP, eN])
      have g2 := hsb 2 (by simp [eP, eN]); have g3 := hsb 3 (by simp [eP, eN])
      simp only [Nat.add_zero] at g0
      have n2 : T[t + 4 * j + 2]! = -T[t + 4 * j]! := by rw [g2, g0]; simp [eP, eN, val]
      have n3 : T[t + 4 * j + 3]! = -T[t + 4 * j + 1]! := by rw [g3, g1]; simp [eP, eN, val]
      have w : T[t + 4 * j]! + X.I * T[t + 4 * j + 1]! = X.ζ ^ twE (ℓ0 + D1) 0 (b0 * 2 ^ D1 + j) := by
        rw [g0, g1, ← e]; simp [eP, eN, val, X.hcs]
      have hf := hF.last T[t + 4 * j]! T[t + 4 * j + 1]!
      rw [← n2, ← n3] at hf
      have := pair1_adv X _ T[t + 4 * j]! T[t + 4 * j + 1]! _ hf N (ℓ0 + D1) (b0 * 2 ^ D1 + j) (off + 2 * j) s hs
        (by rw [hoff, hm']; ring) (by
          have : (j + 1) * 2 ≤ 2 ^ D1 * 2 := Nat.mul_le_mul_right _ hj'
          omega) w
      exact ⟨this.1.of_eq X.ζ X.a (by ring) rfl, this.2⟩) s hs
  refine ⟨sw.1.of_eq X.ζ X.a rfl (by rw [hnb, hm']), sw.2, trivial⟩

/-- `cbfs2` (any m' = 2^D ≥ 2) -/
theorem cbfs2_spec (F : CFlav R) (hF : CFwdOK X.I F) (T : Array R) (N ℓ0 D b0 off m' t : ℕ) (s : RI R)
    (hk : X.k = ℓ0 + D) (hm : m' = 2 ^ D) (hD : 1 ≤ D) (hoff : off = m' * b0) (hN : off + m' ≤ N)
    (hs : Valid N s)
    (hT : Seg T t ((cBfs2 (4 * 2 ^ X.k) m' (m' * (1 + 4 * brev ℓ0 b0))).map (val X.c X.s))) :
    Adv X.ζ X.a (cxs X.I s) (cxs X.I (cbfs2 F T m' off (s, t)).1) ℓ0 D X.k 0 off m' ∧
      Valid N (cbfs2 F T m' off (s, t)).1 ∧
      (cbfs2 F T m' off (s, t)).2 = t + (cBfs2 (4 * 2 ^ X.k) m' (m' * (1 + 4 * brev ℓ0 b0))).length := by
  obtain ⟨D1, rfl⟩ : ∃ D1, D = D1 + 1 := ⟨D - 1, by omega⟩
  have hmm : m' = 2 * 2 ^ D1 := by rw [hm, pow_succ]; ring
  have hh : m' / 2 = 2 ^ D1 := by omega
  have hpw : m' * (1 + 4 * brev ℓ0 b0) / 2 = m' / 2 * (1 + 4 * brev ℓ0 b0) := by
    rw [hmm, Nat.mul_assoc, Nat.mul_div_cancel_left _ (by omega : 0 < 2), Nat.mul_div_cancel_left _ (by omega : 0 < 2)]
  have hfuel : D1 + 1 ≤ m' := by have := @Nat.lt_two_pow_self (D1 + 1); omega
  unfold cbfs2
  rw [cBfs2, hpw] at hT ⊢
  have s1 := cbfs2Levels_spec X F hF T N ℓ0 (D1 + 1) b0 off m' hk hm hoff hN D1 m' 0 (m' / 2)
    (m' / 2 * (1 + 4 * brev ℓ0 b0)) s t (by omega) hh rfl hfuel hs hT
  obtain ⟨sA, tA, hst⟩ : ∃ sA tA, cbfs2Levels F T m' off m' (m' / 2) (s, t) = (sA, tA) := ⟨_, _, rfl⟩
  rw [hst] at s1
  simp only [hst]
  obtain ⟨a1, v1, p1, q1⟩ := s1
  simp only at a1 v1 p1 q1
  have s2 := clast_spec X F hF T N ℓ0 D1 b0 off m' tA sA v1 (by omega) hm hoff hN p1
  simp only at s2
  obtain ⟨a2, v2, p2⟩ := s2
  refine ⟨?_, v2, ?_⟩
  · exact (a1.cast X.ζ X.a ℓ0 (D1 + 1) (ℓ0 + D1) 1 (by omega) rfl (by omega) rfl).seq X.ζ X.a
      (a2.cast X.ζ X.a (ℓ0 + D1) 1 X.k 0 rfl rfl (by omega) rfl)
  · rw [p2]; omega

/-- `crec16` -/
theorem crec16_spec (F : CFlav R) (hF : CFwdOK X.I F) (T : Array R) (N : ℕ) :
    ∀ fuel D ℓ0 b0 off m' t (s : RI R), X.k = ℓ0 + D → m' = 2 ^ D → 1 ≤ D → m' ≤ fuel → off = m' * b0 →
      off + m' ≤ N → Valid N s →
      Seg T t ((cRec (4 * 2 ^ X.k) fuel m' (m' * (1 + 4 * brev ℓ0 b0))).map (val X.c X.s)) →
      Adv X.ζ X.a (cxs X.I s) (cxs X.I (crec16 F T fuel m' off (s, t)).1) ℓ0 D X.k 0 off m' ∧
        Valid N (crec16 F T fuel m' off (s, t)).1 ∧
        (crec16 F T fuel m' off (s, t)).2 = t + (cRec (4 * 2 ^ X.k) fuel m' (m' * (1 + 4 * brev ℓ0 b0))).length := by
  intro fuel
  induction fuel with
  | zero =>
    intro D ℓ0 b0 off m' t s hk hm hD hfuel
    have : 0 < m' := by rw [hm]; exact Nat.two_pow_pos _
    omega
  | succ f ih =>
    intro D ℓ0 b0 off m' t s hk hm hD hfuel hoff hN hs hT
    have h2 : 2 ≤ m' := by
      have : 2 ^ 1 ≤ 2 ^ D := Nat.pow_le_pow_right (by omega) hD
      rw [hm]; simpa using this
    rw [crec16]
    rw [cRec] at hT ⊢
    have hn1 : ¬ m' ≤ 1 := by omega
    rw [if_neg hn1] at hT ⊢
    rw [if_neg hn1]
    by_cases h8 : m' ≤ 8
    · rw [if_pos h8] at hT ⊢
      rw [if_pos h8]
      exact cbfs2_spec X F hF T N ℓ0 D b0 off m' t s hk hm hD hoff hN hs hT
    rw [if_neg h8] at hT ⊢
    rw [if_neg h8]
    have hD4 : 4 ≤ D := by
      by_contra hc
      have : D ≤ 3 := by omega
      have : 2 ^ D ≤ 2 ^ 3 := Nat.pow_le_pow_right (by omega) this
      rw [← hm] at this; omega
    by_cases hle : m' ≤ 2048
    · rw [if_pos hle] at hT ⊢
      rw [if_pos hle]
      exact cbfs16_spec X F hF T N ℓ0 D b0 off m' t s hk hm hD4 hoff hN hs hT
    · rw [if_neg hle] at hT ⊢
      rw [if_neg hle]
      obtain ⟨D1, rfl⟩ : ∃ D1, D = D1 + 1 := ⟨D - 1, by omega⟩
      have hD1 : 1 ≤ D1 := by omega
      have hmm : m' = 2 * 2 ^ D1 := by rw [hm, pow_succ]; ring
      have hh : m' / 2 = 2 ^ D1 := by omega
      have hpw : m' * (1 + 4 * brev ℓ0 b0) / 2 = m' / 2 * (1 + 4 * brev ℓ0 b0) := by
        rw [hmm, Nat.mul_assoc, Nat.mul_div_cancel_left _ (by omega : 0 < 2),
          Nat.mul_div_cancel_left _ (by omega : 0 < 2)]
      have hpL : m' * (1 + 4 * brev ℓ0 b0) / 2 = m' / 2 * (1 + 4 * brev (ℓ0 + 1) (2 * b0)) := by
        rw [hpw, brev_even]
      have hpR : m' * (1 + 4 * brev ℓ0 b0) / 2 + 4 * 2 ^ X.k / 2 = m' / 2 * (1 + 4 * brev (ℓ0 + 1) (2 * b0 + 1)) := by
        rw [hpw, brev_odd, hk, hh, pow_add, pow_succ]
        have : 4 * (2 ^ ℓ0 * (2 ^ D1 * 2)) / 2 = 4 * (2 ^ ℓ0 * 2 ^ D1) := by
          rw [show 4 * (2 ^ ℓ0 * (2 ^ D1 * 2)) = 2 * (4 * (2 ^ ℓ0 * 2 ^ D1)) by ring]
          exact Nat.mul_div_cancel_left _ (by omega)
        rw [this]; ring
      have hl2 : ∀ x, (List.map (val X.c X.s) (eP x)).length = 2 := fun x => by simp [eP]
      rw [List.map_append, List.map_append, List.map_append] at hT
      have w0 := read_eP X T t _ hT.left.left.left
      have hsec := hT.left.left.right
      rw [hl2] at hsec
      have w1 := read_eP X T (t + 2) _ hsec
      rw [show t + 2 + 1 = t + 3 by ring] at w1
      have s1 := twPassL_adv X F.ctTop hF.ctTop F.lanesTop T t N ℓ0 D1 b0 off s hs (by rw [hoff, hmm]) (by omega)
        (by rw [w0, hpw, hh, twE]) (by rw [w1, hpw, hh, twE])
      rw [← hh] at s1
      obtain ⟨a1, v1⟩ := s1
      -- left half
      have hTL := hT.left.right
      rw [List.length_append, hl2, hpL] at hTL
      have s2 := ih D1 (ℓ0 + 1) (2 * b0) off (m' / 2) (t + 4) _ (by omega) hh hD1 (by omega)
        (by rw [hoff, hh, hmm]; ring) (by omega) v1 hTL
      obtain ⟨sA, tA, hst⟩ : ∃ sA tA, crec16 F T f (m' / 2) off
        (twPassL F.ctTop F.lanesTop T t (m' / 2) off s, t + 4) = (sA, tA) := ⟨_, _, rfl⟩
      rw [hst] at s2
      simp only [hst]
      obtain ⟨a2, v2, p2⟩ := s2
      simp only at a2 v2 p2
      -- right half
      have hTR := hT.right
      rw [List.length_append, List.length_append, hl2, List.length_map, hpR, hpL,
        show t + (2 + 2 + (cRec (4 * 2 ^ X.k) f (m' / 2) (m' / 2 * (1 + 4 * brev (ℓ0 + 1) (2 * b0)))).length)
          = t + 4 + (cRec (4 * 2 ^ X.k) f (m' / 2) (m' / 2 * (1 + 4 * brev (ℓ0 + 1) (2 * b0)))).length by ring,
        ← p2] at hTR
      have s3 := ih D1 (ℓ0 + 1) (2 * b0 + 1) (off + m' / 2) (m' / 2) tA sA (by omega) hh hD1 (by omega)
        (by rw [hoff, hh, hmm]; ring) (by omega) v2 hTR
      obtain ⟨a3, v3, p3⟩ := s3
      refine ⟨?_, v3, ?_⟩
      · have b1 := (a1.of_eq X.ζ X.a rfl (show m' = 2 * (m' / 2) by omega))
        have b23 := (a2.par X.ζ X.a a3).of_eq X.ζ X.a rfl (show m' = m' / 2 + m' / 2 by omega)
        exact b1.seq X.ζ X.a b23
      · rw [p3, p2, List.length_append, List.length_append, List.length_append, hpR, hpL]
        simp only [eP, List.length_cons, List.length_nil]
        omega

/-- the forward cplx transform of every size `2^k` runs the whole level network (both implementations) -/
theorem cfftRI_adv (F : CFlav R) (hF : CFwdOK X.I F) (s : RI R) (hs : Valid (2 ^ X.k) s) :
    Adv X.ζ X.a (cxs X.I s)
        (cxs X.I (cfftRI F (2 ^ X.k) (((cplxFftEnts (2 ^ X.k)).map (val X.c X.s)).toArray) s)) 0 X.k X.k 0 0 (2 ^ X.k) ∧
      Valid (2 ^ X.k) (cfftRI F (2 ^ X.k) (((cplxFftEnts (2 ^ X.k)).map (val X.c X.s)).toArray) s) := by
  have hb0 : 2 ^ X.k * (1 + 4 * brev 0 0) = 2 ^ X.k := by simp [brev]
  by_cases hk0 : X.k = 0
  · rw [hk0] at hs ⊢
    simp only [cfftRI, pow_zero, Nat.le_refl, ↓reduceIte]
    exact ⟨Adv_id X _ _ _ _ _ _ _ rfl rfl, hs⟩
  have h2 : 2 ≤ 2 ^ X.k := by
    have : 2 ^ 1 ≤ 2 ^ X.k := Nat.pow_le_pow_right (by omega) (by omega)
    simpa using this
  unfold cfftRI cplxFftEnts
  rw [if_neg (show ¬ 2 ^ X.k ≤ 1 by omega)]
  simp only
  by_cases h8 : 2 ^ X.k ≤ 8
  · rw [if_pos h8, if_pos h8]
    have hseg := Seg.of_toArray ((cBfs2 (4 * 2 ^ X.k) (2 ^ X.k) (2 ^ X.k)).map (val X.c X.s))
    have := cbfs2_spec X F hF _ (2 ^ X.k) 0 X.k 0 0 (2 ^ X.k) 0 s (by omega) rfl (by omega) (by ring) (by omega) hs
      (by rw [hb0]; exact hseg)
    exact ⟨this.1, this.2.1⟩
  rw [if_neg h8, if_neg h8]
  have hD4 : 4 ≤ X.k := by
    by_contra hc
    have : X.k ≤ 3 := by omega
    have : 2 ^ X.k ≤ 2 ^ 3 := Nat.pow_le_pow_right (by omega) this
    omega
  by_cases hle : 2 ^ X.k ≤ 2048
  · rw [if_pos hle, if_pos hle]
    have hseg := Seg.of_toArray ((cBfs16 (4 * 2 ^ X.k) (2 ^ X.k) (2 ^ X.k)).map (val X.c X.s))
    have := cbfs16_spec X F hF _ (2 ^ X.k) 0 X.k 0 0 (2 ^ X.k) 0 s (by omega) rfl hD4 (by ring) (by omega) hs
      (by rw [hb0]; exact hseg)
    exact ⟨this.1, this.2.1⟩
  · rw [if_neg hle, if_neg hle]
    have hseg := Seg.of_toArray ((cRec (4 * 2 ^ X.k) (2 ^ X.k) (2 ^ X.k) (2 ^ X.k)).map (val X.c X.s))
    have := crec16_spec X F hF _ (2 ^ X.k) (2 ^ X.k) X.k 0 0 0 (2 ^ X.k) 0 s (by omega) rfl (by omega) (Nat.le_refl _)
      (by ring) (by omega) hs (by rw [hb0]; exact hseg)
    exact ⟨this.1, this.2.1⟩

end Spq.Fft.CplxFwd
