/-
  C06, level layer for the inverse network: the inverse twiddle pass takes a block holding `cf·V (ℓ+1)` to
  `2cf·V ℓ`, the inverse radix-4 pass goes up two levels (factor 4), the inverse 16-point leaf four (factor 16).
-/
import SpqProofs.Lemmas.FftLevel
import SpqProofs.Lemmas.FftBf
set_option linter.unusedSectionVars false
namespace Spq.Fft.Level
open Spq.Fft Spq.Fft.Alg Spq.Fft.View Spq.Fft.Sim

variable {R : Type} [CommRing R]

/-- generic "advance a block": if `x` agrees with `A` on `[off, off+sz)` then `y` agrees with `B` there, and
`y = x` elsewhere -/
def AdvG (A B x y : ℕ → R) (off sz : ℕ) : Prop :=
  ((∀ p, off ≤ p → p < off + sz → x p = A p) → (∀ p, off ≤ p → p < off + sz → y p = B p)) ∧
  (∀ p, p < off ∨ off + sz ≤ p → y p = x p)

theorem AdvG.empty (A B x : ℕ → R) (off : ℕ) : AdvG A B x x off 0 :=
  ⟨fun _ p hp hp' => by omega, fun _ _ => rfl⟩

theorem AdvG.seq {A B C x y z : ℕ → R} {off sz : ℕ} (h1 : AdvG A B x y off sz) (h2 : AdvG B C y z off sz) :
    AdvG A C x z off sz :=
  ⟨fun h => h2.1 (h1.1 h), fun p hp => by rw [h2.2 p hp, h1.2 p hp]⟩

theorem AdvG.par {A B x y z : ℕ → R} {off sz1 sz2 : ℕ} (h1 : AdvG A B x y off sz1)
    (h2 : AdvG A B y z (off + sz1) sz2) : AdvG A B x z off (sz1 + sz2) := by
  constructor
  · intro h p hp hp'
    by_cases hlt : p < off + sz1
    · rw [h2.2 p (by omega)]
      exact h1.1 (fun q hq hq' => h q hq (by omega)) p hp hlt
    · exact h2.1 (fun q hq hq' => by rw [h1.2 q (by omega)]; exact h q (by omega) (by omega)) p (by omega) (by omega)
  · intro p hp
    rw [h2.2 p (by omega), h1.2 p (by omega)]

theorem AdvG.of_eq {A B x y : ℕ → R} {off sz off' sz' : ℕ} (h : AdvG A B x y off sz)
    (e1 : off' = off) (e2 : sz' = sz) : AdvG A B x y off' sz' := by subst e1 e2; exact h

theorem AdvG.congr {A B A' B' x y : ℕ → R} {off sz : ℕ} (h : AdvG A B x y off sz)
    (eA : ∀ p, A' p = A p) (eB : ∀ p, B' p = B p) : AdvG A' B' x y off sz :=
  ⟨fun hx p hp hp' => by rw [eB]; exact h.1 (fun q hq hq' => by rw [hx q hq hq', eA]) p hp hp', h.2⟩

theorem AdvG.iter (A B : ℕ → R) (f : ℕ → (ℕ → R) → (ℕ → R)) (off sz n : ℕ)
    (h : ∀ b x, b < n → AdvG A B x (f b x) (off + b * sz) sz) (x : ℕ → R) :
    AdvG A B x (iterFrom f n 0 x) off (n * sz) := by
  induction n with
  | zero => simpa [iterFrom] using AdvG.empty A B x off
  | succ n ih =>
    rw [iterFrom_succ_last, Nat.zero_add]
    exact ((ih (fun b x hb => h b x (by omega))).par (h n _ (by omega))).of_eq rfl (by ring)

variable (ζ : R) (a : ℕ → R)

/-- inverse advance: from `cf·V ℓ d` to `cf'·V ℓ' d'` -/
abbrev IAdv (x y : ℕ → R) (cf cf' : R) (ℓ d ℓ' d' off sz : ℕ) : Prop :=
  AdvG (fun p => cf * V ζ a ℓ d p) (fun p => cf' * V ζ a ℓ' d' p) x y off sz

theorem IAdv.cast {x y : ℕ → R} {cf cf' : R} {ℓ d ℓ' d' off sz : ℕ} (h : IAdv ζ a x y cf cf' ℓ d ℓ' d' off sz)
    (cf1 cf1' : R) (ℓ1 d1 ℓ1' d1' : ℕ) (e0 : cf1 = cf) (e0' : cf1' = cf') (e1 : ℓ1 = ℓ) (e2 : d1 = d)
    (e3 : ℓ1' = ℓ') (e4 : d1' = d') : IAdv ζ a x y cf1 cf1' ℓ1 d1 ℓ1' d1' off sz := by
  subst e0 e0' e1 e2 e3 e4; exact h

/-- inverse twiddle pass on view level -/
abbrev twI (W' : R) (h off : ℕ) (x : ℕ → R) : ℕ → R := twG iφ (iψ W') h off x

/-- the inverse twiddle pass on block `b` (size `2·2^d`) with `W' = W⁻¹`, `W = ζ^(twE ℓ d b)` -/
theorem IAdv.tw (x : ℕ → R) (cf : R) (ℓ d b off : ℕ) (hoff : off = 2 * 2 ^ d * b) (W' : R)
    (hW : ζ ^ twE ℓ d b * W' = 1) :
    IAdv ζ a x (twI W' (2 ^ d) off x) cf (2 * cf) (ℓ + 1) d ℓ (d + 1) off (2 * 2 ^ d) := by
  constructor
  · intro hx p hp hp'
    obtain ⟨h, hh⟩ : ∃ h, h = 2 ^ d := ⟨_, rfl⟩
    have hpos : 0 < h := by rw [hh]; exact Nat.two_pow_pos d
    rw [← hh] at hp' hoff hx ⊢
    have key : ∀ q, off ≤ q → q < off + h →
        V ζ a (ℓ + 1) d q = V ζ a ℓ (d + 1) q + ζ ^ twE ℓ d b * V ζ a ℓ (d + 1) (q + h) ∧
        V ζ a (ℓ + 1) d (q + h) = V ζ a ℓ (d + 1) q - ζ ^ twE ℓ d b * V ζ a ℓ (d + 1) (q + h) := by
      intro q hq hq'
      have hb1 : q / (2 * h) = b := by
        rw [show q = 2 * h * b + (q - off) by omega]; exact mul_add_div' _ _ _ (by omega)
      have hr1 : q % (2 * h) = q - off := by
        rw [show q = 2 * h * b + (q - off) by omega, show 2 * h * b + (q - off) - off = q - off by omega]
        exact mul_add_mod' _ _ _ (by omega)
      have hb2 : (q + h) / (2 * h) = b := by
        rw [show q + h = 2 * h * b + (q + h - off) by omega]; exact mul_add_div' _ _ _ (by omega)
      have hr2 : (q + h) % (2 * h) = q + h - off := by
        rw [show q + h = 2 * h * b + (q + h - off) by omega,
          show 2 * h * b + (q + h - off) - off = q + h - off by omega]
        exact mul_add_mod' _ _ _ (by omega)
      constructor
      · rw [V]; simp only [← hh, hb1, hr1]; rw [if_pos (by omega)]
      · rw [V]; simp only [← hh, hb2, hr2]; rw [if_neg (by omega), show q + h - h = q by omega]
    unfold twI
    by_cases hlt : p < off + h
    · rw [twG_lo _ _ _ _ _ _ ⟨hp, hlt⟩, iφ, hx p hp (by omega), hx (p + h) (by omega) (by omega)]
      obtain ⟨k1, k2⟩ := key p hp hlt
      beta_reduce
      rw [k1, k2]; ring
    · rw [twG_hi _ _ _ _ _ _ ⟨by omega, by omega⟩, iψ, hx p hp (by omega), hx (p - h) (by omega) (by omega)]
      obtain ⟨k1, k2⟩ := key (p - h) (by omega) (by omega)
      rw [show p - h + h = p by omega] at k1 k2
      beta_reduce
      rw [k1, k2]
      linear_combination (2 * cf * V ζ a ℓ (d + 1) p) * hW
  · intro p hp
    exact twG_out _ _ _ _ _ _ (by omega)

/-- the inverse radix-4 pass goes up two levels: `cf·V (ℓ+2) d ↦ 4cf·V ℓ (d+2)` -/
theorem IAdv.bw (x : ℕ → R) (cf : R) (ℓ d b off h : ℕ) (hh : h = 2 ^ d) (hoff : off = 4 * h * b)
    (W0' W0i' W1' : R) (hW0 : ζ ^ twE (ℓ + 1) d (2 * b) * W0' = 1)
    (hW0i : ζ ^ twE (ℓ + 1) d (2 * b + 1) * W0i' = 1) (hW1 : ζ ^ twE ℓ (d + 1) b * W1' = 1) :
    IAdv ζ a x (twI W1' (2 * h) off (twI W0i' h (off + 2 * h) (twI W0' h off x))) cf (4 * cf)
      (ℓ + 2) d ℓ (d + 2) off (4 * h) := by
  have e2 : 2 ^ (d + 1) = 2 * h := by rw [pow_succ, hh]; ring
  have t1 := IAdv.tw ζ a x cf (ℓ + 1) d (2 * b) off (by rw [← hh, hoff]; ring) W0' hW0
  rw [← hh] at t1
  have t2 := IAdv.tw ζ a (twI W0' h off x) cf (ℓ + 1) d (2 * b + 1) (off + 2 * h) (by rw [← hh, hoff]; ring)
    W0i' hW0i
  rw [← hh] at t2
  have t3 := IAdv.tw ζ a (twI W0i' h (off + 2 * h) (twI W0' h off x)) (2 * cf) ℓ (d + 1) b off
    (by rw [e2, hoff]; ring) W1' hW1
  rw [e2] at t3
  have t12 := (t1.par t2).of_eq rfl (show 4 * h = 2 * h + 2 * h by ring)
  have t3' := t3.of_eq rfl (show 4 * h = 2 * (2 * h) by ring)
  exact IAdv.cast ζ a (t12.seq t3') cf (4 * cf) (ℓ + 2) d ℓ (d + 2) rfl (by ring) rfl rfl rfl rfl

/-- the inverse 16-point leaf goes up four levels: `cf·V (ℓ+4) 0 ↦ 16cf·V ℓ 4` -/
theorem IAdv.leaf (x : ℕ → R) (cf : R) (ℓ b off : ℕ) (hoff : off = 16 * b) (W' Wi' : ℕ → R)
    (h0 : ∀ q, q < 4 → ζ ^ twE (ℓ + 3) 0 (8 * b + 2 * q) * W' q = 1)
    (h0i : ∀ q, q < 4 → ζ ^ twE (ℓ + 3) 0 (8 * b + 2 * q + 1) * Wi' q = 1)
    (h4 : ζ ^ twE (ℓ + 2) 1 (4 * b) * W' 4 = 1) (h4i : ζ ^ twE (ℓ + 2) 1 (4 * b + 1) * Wi' 4 = 1)
    (h5 : ζ ^ twE (ℓ + 2) 1 (4 * b + 2) * W' 5 = 1) (h5i : ζ ^ twE (ℓ + 2) 1 (4 * b + 3) * Wi' 5 = 1)
    (h6 : ζ ^ twE (ℓ + 1) 2 (2 * b) * W' 6 = 1) (h6i : ζ ^ twE (ℓ + 1) 2 (2 * b + 1) * Wi' 6 = 1)
    (h7 : ζ ^ twE ℓ 3 b * W' 7 = 1) :
    IAdv ζ a x (ifft16V (fun q => (iφ, iψ (W' q))) (fun q => (iφ, iψ (Wi' q))) off x) cf (16 * cf)
      (ℓ + 4) 0 ℓ 4 off 16 := by
  show IAdv ζ a x (twI (W' 7) 8 off (twI (Wi' 6) 4 (off + 8) (twI (W' 6) 4 off (twI (Wi' 5) 2 (off + 12)
    (twI (W' 5) 2 (off + 8) (twI (Wi' 4) 2 (off + 4) (twI (W' 4) 2 off
    (iterFrom (fun q x => twI (Wi' q) 1 (off + 4 * q + 2) (twI (W' q) 1 (off + 4 * q) x)) 4 0 x))))))))
    cf (16 * cf) (ℓ + 4) 0 ℓ 4 off 16
  -- level (ℓ+4) → (ℓ+3)
  have s4 := AdvG.iter (fun p => cf * V ζ a (ℓ + 3 + 1) 0 p) (fun p => 2 * cf * V ζ a (ℓ + 3) (0 + 1) p)
    (fun q x => twI (Wi' q) 1 (off + 4 * q + 2) (twI (W' q) 1 (off + 4 * q) x)) off 4 4
    (fun q y hq => by
      have t1 := IAdv.tw ζ a y cf (ℓ + 3) 0 (8 * b + 2 * q) (off + q * 4) (by omega) (W' q) (h0 q hq)
      have t2 := IAdv.tw ζ a (twI (W' q) (2 ^ 0) (off + q * 4) y) cf (ℓ + 3) 0 (8 * b + 2 * q + 1)
        (off + q * 4 + 2 * 2 ^ 0) (by omega) (Wi' q) (h0i q hq)
      have := t1.par t2
      have e1 : off + q * 4 = off + 4 * q := by omega
      have e2 : off + q * 4 + 2 * 2 ^ 0 = off + 4 * q + 2 := by omega
      rw [e2, e1] at this
      exact this.of_eq (by omega) (by norm_num)) x
  -- level (ℓ+3) → (ℓ+2)
  have s3a := IAdv.tw ζ a (iterFrom (fun q x => twI (Wi' q) 1 (off + 4 * q + 2) (twI (W' q) 1 (off + 4 * q) x)) 4 0 x)
    (2 * cf) (ℓ + 2) 1 (4 * b) off (by omega) (W' 4) h4
  have s3b := IAdv.tw ζ a (twI (W' 4) 2 off
    (iterFrom (fun q x => twI (Wi' q) 1 (off + 4 * q + 2) (twI (W' q) 1 (off + 4 * q) x)) 4 0 x))
    (2 * cf) (ℓ + 2) 1 (4 * b + 1) (off + 4) (by omega) (Wi' 4) h4i
  have s3c := IAdv.tw ζ a (twI (Wi' 4) 2 (off + 4) (twI (W' 4) 2 off
    (iterFrom (fun q x => twI (Wi' q) 1 (off + 4 * q + 2) (twI (W' q) 1 (off + 4 * q) x)) 4 0 x)))
    (2 * cf) (ℓ + 2) 1 (4 * b + 2) (off + 8) (by omega) (W' 5) h5
  have s3d := IAdv.tw ζ a (twI (W' 5) 2 (off + 8) (twI (Wi' 4) 2 (off + 4) (twI (W' 4) 2 off
    (iterFrom (fun q x => twI (Wi' q) 1 (off + 4 * q + 2) (twI (W' q) 1 (off + 4 * q) x)) 4 0 x))))
    (2 * cf) (ℓ + 2) 1 (4 * b + 3) (off + 12) (by omega) (Wi' 5) h5i
  have s3 := ((s3a.par s3b).par (s3c.of_eq (by omega) rfl)).par (s3d.of_eq (by omega) rfl)
  -- level (ℓ+2) → (ℓ+1)
  have s2a := IAdv.tw ζ a (twI (Wi' 5) 2 (off + 12) (twI (W' 5) 2 (off + 8) (twI (Wi' 4) 2 (off + 4) (twI (W' 4) 2 off
    (iterFrom (fun q x => twI (Wi' q) 1 (off + 4 * q + 2) (twI (W' q) 1 (off + 4 * q) x)) 4 0 x)))))
    (2 * (2 * cf)) (ℓ + 1) 2 (2 * b) off (by omega) (W' 6) h6
  have s2b := IAdv.tw ζ a (twI (W' 6) 4 off (twI (Wi' 5) 2 (off + 12) (twI (W' 5) 2 (off + 8)
    (twI (Wi' 4) 2 (off + 4) (twI (W' 4) 2 off
    (iterFrom (fun q x => twI (Wi' q) 1 (off + 4 * q + 2) (twI (W' q) 1 (off + 4 * q) x)) 4 0 x))))))
    (2 * (2 * cf)) (ℓ + 1) 2 (2 * b + 1) (off + 8) (by omega) (Wi' 6) h6i
  have s2 := s2a.par s2b
  -- level (ℓ+1) → ℓ
  have s1 := IAdv.tw ζ a (twI (Wi' 6) 4 (off + 8) (twI (W' 6) 4 off (twI (Wi' 5) 2 (off + 12)
    (twI (W' 5) 2 (off + 8) (twI (Wi' 4) 2 (off + 4) (twI (W' 4) 2 off
    (iterFrom (fun q x => twI (Wi' q) 1 (off + 4 * q + 2) (twI (W' q) 1 (off + 4 * q) x)) 4 0 x)))))))
    (2 * (2 * (2 * cf))) ℓ 3 b off (by omega) (W' 7) h7
  exact IAdv.cast ζ a (((AdvG.seq s4 s3).seq s2).seq s1) cf (16 * cf) (ℓ + 4) 0 ℓ 4 rfl (by ring) rfl rfl rfl rfl

end Spq.Fft.Level
