/-
  C16, binary64 side, products of products, step 10: the hypotheses of the program-level theorem WITHOUT the class
  `SingleProductDepth`.
   * `Bud K`      : the budget map `β : DVar → ℕ → K` — `β v i` is the DFT-space error budget `δ_i` of limb `i` of the
                    `VEC_ZNX_DFT` variable `v` (ghost state, propagated through chains of products);
   * `bstep`      : a call that writes the DFT variable `d` installs the new budgets `δn` of its result;
   * `PreM`       : per-call budget on (exact state, budget map, binary64 state) — the NUMERIC part (boxes, norms, the
                    propagated `δ`) is on the exact state; the FLAGS of the accumulation of `vmp_apply_dft_to_dft` and of
                    the inverse transform in `vec_znx_idft` are about the CONCRETE binary64 operand `s.dvec x` (for a
                    product of products the operand is no longer a function of one integer limb);
   * `GuardedM`   : `PreM` holds before every call, for some choice of the per-call result budgets `δn`;
   * `RM`         : the refinement relation — `Prog.R` on the heap, `MetricRep` with the current budget map for every
                    `VEC_ZNX_DFT` object, prepared objects bit for bit the prepared exact operand.
-/
import SpqProofs.Lemmas.ProgErr2Cons
import SpqProofs.Lemmas.ProgErrRun
set_option linter.unusedSectionVars false
namespace Spq.ProgErr2
open Finset Spq Spq.Module Spq.FftErr Spq.F64 Spq.ProdErr Spq.VmpErr Spq.ProgErr Spq.Closed Spq.Prog
variable {K : Type} [Field K] [LinearOrder K] [IsStrictOrderedRing K]

/-- the budget map: `β v i` = DFT-space error budget of limb `i` of the `VEC_ZNX_DFT` variable `v` -/
abbrev Bud (K : Type) := DVar → ℕ → K

/-- a call that writes the DFT variable `d` installs the budgets `δn` of its result -/
def bstep (o : OpD) (β : Bud K) (δn : ℕ → K) : Bud K :=
  match o with
  | .dft d _ => upd β d δn
  | .svp d _ _ => upd β d δn
  | .vmp d _ _ => upd β d δn
  | .vmpDD d _ _ => upd β d δn
  | _ => β

/-- **`PreM M vars o a β s δn`**: well-formedness and budget of one call `o` on the exact state `a`, the budget map `β`
    and the binary64 state `s`, with `δn` the budgets claimed for the `VEC_ZNX_DFT` result (if any):
    coefficient-space calls, `svp_prepare`, `vmp_prepare`, `smallProduct`: as `ProgErr.PreF`;
    `dft d x`    : `DftLimbBudget` (box, forward flags, `ε·na ≤ δn_i`) for every transformed limb;
    `svp d k x`  : `SvpLimbBudget` (boxes, flags of two forward transforms + product, `fB ε μ θ·S_i ≤ δn_i`) per limb;
    `vmp d x m`  : `VmpBudgetM` (budget of the forward transforms of the rows + `VmpDDBudget`);
    `vmpDD d x m`: `d ≠ x` (`vmp_apply_dft_to_dft` is not in-place safe; as `Prog.PreD`), and `VmpDDBudget` with the
                   CURRENT budgets `β x` of the operand in, `δn` out, flags on `s.dvec x`;
    `idft d x`   : `IdftLimbBudget` for every limb `i < min x.size d.size` that is inverse-transformed: flags of the
                   inverse transform of the concrete limb and `ε·(S2 + β x i) + β x i < 1/2`. -/
def PreM (M : F64Mod K) (vars : List Var) : OpD → AState → Bud K → CState ℕ → (ℕ → K) → Prop
  | .dft d x, a, _, _, δn => x ∈ vars ∧ (∀ i, i < d.size → 0 ≤ δn i) ∧
      ∀ i, i < x.size → i < d.size → DftLimbBudget M (limbArr M.N a.env x i) (δn i)
  | .svp d k x, a, _, _, δn => x ∈ vars ∧ (∀ i, i < d.size → 0 ≤ δn i) ∧ ∃ sp, a.ppol k = some sp ∧
      ∀ i, i < x.size → i < d.size → SvpLimbBudget M (limbArr M.N a.env x i) (spOf M sp) (δn i)
  | .vmp d x m, a, _, _, δn => x ∈ vars ∧ (∀ i, i < d.size → 0 ≤ δn i) ∧ ∃ Mv, a.pmat m = some Mv ∧
      VmpBudgetM M (matOf M Mv m.nrows m.ncols) m.nrows m.ncols (vecArr M.N a.env x) x.size d.size δn
  | .vmpDD d x m, a, β, s, δn => d ≠ x ∧ (∀ i, i < d.size → 0 ≤ δn i) ∧ ∃ P Mv, a.dvec x = some P ∧ a.pmat m = some Mv ∧
      VmpDDBudget M (matOf M Mv m.nrows m.ncols) m.nrows m.ncols (fun i => polyArr M.N (P.coef i)) (s.dvec x) x.size
        d.size (β x) δn
  | .idft d x, a, β, s, _ => d ∈ vars ∧ ∃ P, a.dvec x = some P ∧
      ∀ i, i < x.size → i < d.size → IdftLimbBudget M (dlimb (s.dvec x) i M.N) (polyArr M.N (P.coef i)) (β x i)
  | op, a, _, _, _ => PreD (dftOpsSound_f64 M) vars op a

/-- **`GuardedM`**: along the joint run (exact interpreter, budget map, binary64 interpreter) every call satisfies
    `PreM` for some choice of the budgets `δn` of its result -/
def GuardedM (M : F64Mod K) (vars : List Var) : List OpD → AState → Bud K → CState ℕ → Prop
  | [], _, _, _ => True
  | o :: ops, a, β, s => ∃ δn : ℕ → K, PreM M vars o a β s δn ∧
      GuardedM M vars ops (astepD M.N o a) (bstep o β δn) (cstepD M.parts M.N o s)

/-- **`RM M hsz vars a β s`**: the binary64 state `s` represents the exact state `a` with the budget map `β`:
    heap = exact integers (`Prog.R`); every `VEC_ZNX_DFT` object satisfies `MetricRep` with its budgets `β v`;
    `SVP_PPOL` / `VMP_PMAT` objects are bit for bit `svp_prepare` / `vmp_prepare_contiguous` of the exact operand. -/
def RM (M : F64Mod K) (hsz : ℕ) (vars : List Var) (a : AState) (β : Bud K) (s : CState ℕ) : Prop :=
  R M.N hsz vars a.env s.heap ∧
  (∀ v P, a.dvec v = some P → MetricRep M P v.size (s.dvec v) (β v)) ∧
  (∀ k sp, a.ppol k = some sp → s.ppol k = svpPrepare M.parts (spOf M sp)) ∧
  (∀ m Mv, a.pmat m = some Mv → s.pmat m = vmpPrepare M.parts (matOf M Mv m.nrows m.ncols) m.nrows m.ncols)

theorem RM_init (M : F64Mod K) {hsz : ℕ} {vars : List Var} (env : Env) (β : Bud K) (s : CState ℕ)
    (hR : R M.N hsz vars env s.heap) :
    RM M hsz vars ⟨env, fun _ => none, fun _ => none, fun _ => none, fun _ => none⟩ β s :=
  by
  refine ⟨hR, ?_, ?_, ?_⟩
  · intro v P h; exact absurd h (by simp)
  · intro k sp h; exact absurd h (by simp)
  · intro m Mv h; exact absurd h (by simp)

end Spq.ProgErr2
