/-
  Closing C01/C02/C16 over the real FFT network, step 2: the exact-arithmetic module `exactParts`.

  `R` is the commutative ring the CELLS live in ("the reals": `ℝ`, or `ℚ`, …); complex numbers are `Cx R`.
  `RootData R k` = a point `ζ : Cx R` with `ζ^m = i` (`m = 2^k`; so `ζ` is a primitive 4m-th root of unity) of norm 1,
  and a function `rd : R → ℤ` that inverts `n ↦ m·n` ("divide by m and round").  The twiddle table is
  `cos e = Re ζ^e`, `sin e = Im ζ^e` placed by the transcription `reimFftEnts` / `reimIfftEnts` of the C table
  builders — the same table `C06` uses.  `exactParts` is `Spq.Module.Cfg.parts` with binary64 replaced by `R`:
  `fft` / `ifft` ARE `Spq.Fft.reimFftA` / `reimIfftA` (reference or FMA schedule) run on real cells.
-/
import SpqProofs.Properties.C06
import SpqProofs.Lemmas.ModuleSpec
import SpqProofs.Lemmas.ClosedNatDrv
namespace Spq.Closed
open Finset Spq Spq.Fft Spq.Fft.Alg Spq.Fft.Sim Spq.Fft.Tab Spq.Fft.Kern Spq.Fft.Api

variable {R : Type} [CommRing R]

/-- the `Inhabited` instance the `[i]!` reads of the network use: out-of-range reads give `0` -/
@[reducible] def inh0 (α : Type) [Zero α] : Inhabited α := ⟨0⟩

/-! ### a little more about `Cx R` -/

/-- complex conjugation -/
def conj (x : Cx R) : Cx R := ⟨x.re, -x.im⟩

theorem conj_one : conj (1 : Cx R) = 1 := by ext <;> simp [conj]
theorem conj_mul (x y : Cx R) : conj (x * y) = conj x * conj y := by
  ext
  · simp [conj]
  · simp [conj]; ring
theorem conj_pow (x : Cx R) (e : ℕ) : conj (x ^ e) = conj x ^ e := by
  induction e with
  | zero => simp [conj_one]
  | succ e ih => rw [pow_succ, pow_succ, conj_mul, ih]

theorem ofRe_sub_I_mul (x : Cx R) : Cx.ofRe x.re - Cx.I * Cx.ofRe x.im = conj x := by
  ext <;> simp [conj, sub_eq_add_neg]

theorem ofRe_natCast (n : ℕ) : (n : Cx R) = Cx.ofRe (n : R) := (map_natCast Cx.ofRe n).symm

theorem I_pow_four : (Cx.I : Cx R) ^ 4 = 1 := by
  have : (Cx.I : Cx R) ^ 4 = (Cx.I * Cx.I) * (Cx.I * Cx.I) := by ring
  rw [this, Cx.I_mul_I]; ring

theorem sumTo_eq_sum (n : ℕ) (f : ℕ → Cx R) : sumTo n f = ∑ i ∈ range n, f i := by
  induction n with
  | zero => simp [sumTo]
  | succ n ih => rw [sumTo, sum_range_succ, ih]

/-! ### the data -/

/-- a primitive 4m-th root of unity of norm 1 in `Cx R` (`m = 2^k`), and exact division by `m` on `m·ℤ ⊂ R` -/
structure RootData (R : Type) [CommRing R] (k : ℕ) where
  ζ : Cx R
  hζ : ζ ^ 2 ^ k = Cx.I
  hnorm : ζ * conj ζ = 1
  rd : R → ℤ
  hrd : ∀ n : ℤ, rd (((2 ^ k : ℕ) : R) * (n : R)) = n

/-- `cos(2π e / 4m)` -/
def RootData.c {k : ℕ} (rt : RootData R k) (e : ℕ) : R := (rt.ζ ^ e).re
/-- `sin(2π e / 4m)` -/
def RootData.s {k : ℕ} (rt : RootData R k) (e : ℕ) : R := (rt.ζ ^ e).im

/-- the `powomegas` table of `reim_fft_precomp`, exact -/
def RootData.fftTable {k : ℕ} (rt : RootData R k) : Array R :=
  ((reimFftEnts (2 ^ k)).map (val rt.c rt.s)).toArray
/-- the table of `reim_ifft_precomp`, exact -/
def RootData.ifftTable {k : ℕ} (rt : RootData R k) : Array R :=
  ((reimIfftEnts (2 ^ k)).map (val rt.c rt.s)).toArray

/-- which kernels the module installed (the booleans of `Spq.Module.Cfg`) -/
structure Flags where
  fftFma : Bool
  ifftFma : Bool
  mulFma : Bool
  addmulFma : Bool
  vmpAvx : Bool

/-- the forward network the module runs: `reim_fft_ref` or `reim_fft_avx2_fma`, exact arithmetic, real cells -/
def netFft {k : ℕ} (rt : RootData R k) (fma : Bool) (d : Array R) : Array R :=
  @reimFftA R (inh0 R) (if fma then fwdFma ringA else fwdRef ringA) (2 ^ k) rt.fftTable d
def netIfft {k : ℕ} (rt : RootData R k) (fma : Bool) (d : Array R) : Array R :=
  @reimIfftA R (inh0 R) (if fma then invFma ringA else invRef ringA) (2 ^ k) rt.ifftTable d

/-- `Spq.Module.Cfg.parts` over the exact ring `R`: `fromZnx` reads `nn` coefficients and casts them (as
    `Conv.fromZnx64Ref`: `scalarLoop (2m) fun i => lane (x.getD i 0)`), `toZnx` applies `rd` to `nn` cells -/
def exactParts {k : ℕ} (rt : RootData R k) (fl : Flags) : Module.Parts R :=
  { nn := 2 * 2 ^ k, ar := RArith.ofRing R,
    fromZnx := fun x => Array.ofFn (n := 2 * 2 ^ k) fun i => ((x.getD i.val 0 : Int) : R),
    fft := netFft rt fl.fftFma,
    ifft := netIfft rt fl.ifftFma,
    toZnx := fun d => Array.ofFn (n := 2 * 2 ^ k) fun i => rt.rd (d.getD i.val 0),
    mulFma := fl.mulFma, addmulFma := fl.addmulFma, vmpAvx := fl.vmpAvx }

@[simp] theorem exactParts_nn {k : ℕ} (rt : RootData R k) (fl : Flags) : (exactParts rt fl).nn = 2 * 2 ^ k := rfl
@[simp] theorem exactParts_m {k : ℕ} (rt : RootData R k) (fl : Flags) : (exactParts rt fl).m = 2 ^ k := by
  simp [Module.Parts.m, exactParts]

/-- the dispatch invariants: the FMA pointwise kernels are installed only for `m ≥ 4` -/
def Flags.ok (fl : Flags) (k : ℕ) : Prop := (fl.mulFma = true ∨ fl.addmulFma = true) → 2 ≤ k

theorem pow_mod_four (k : ℕ) (hk : 2 ≤ k) : 2 ^ k % 4 = 0 := by
  obtain ⟨j, rfl⟩ : ∃ j, k = j + 2 := ⟨k - 2, by omega⟩
  rw [pow_add]; omega

theorem exactParts_exactArith {k : ℕ} (rt : RootData R k) (fl : Flags) (hfl : fl.ok k) :
    Module.ExactArith (exactParts rt fl) := by
  refine ⟨rfl, by simp, by simp, ?_, ?_, ?_⟩
  · intro h
    rw [exactParts_m]
    apply pow_mod_four
    rw [exactParts_nn] at h
    rcases k with _ | _ | k
    · simp at h
    · simp at h
    · omega
  · intro h; rw [exactParts_m]; exact pow_mod_four k (hfl (Or.inl h))
  · intro h; rw [exactParts_m]; exact pow_mod_four k (hfl (Or.inr h))

end Spq.Closed
