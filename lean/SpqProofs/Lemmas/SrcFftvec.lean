/-
  Helper lemmas of `Properties/SrcFftvec.lean` (source tie of `reim_fftvec_mul_ref` / `reim_fftvec_addmul_ref`,
  spqlios/reim/reim_fftvec_addmul_ref.c).

  * `f64Arith`: the arithmetic record of the polymorphic kernels of `Spq/Reim4.lean` on binary64 patterns stored
    as `Int` (the cells of `CIR.Mem`): `add/sub/mul` are the interpreter's `fadd/fsub/fmul`.
  * `lanes` (the shape of every reference kernel: lane `k` rewrites cells `p k` and `q k`): size, untouched cells,
    one more lane.
  * `load_part` / `load_self` / `store_self`: accesses in the memory `mem[r := A]` of a loop state.
  * `patBuf`, `reimFftvec{Mul,Addmul}Ref_patBuf`: on buffers of patterns the `f64Arith` instance is the `F64.arith` one.
-/
import Gen.CSrc
import Spq.Reim4
import SpqProofs.Lemmas.SrcInv
import SpqProofs.Lemmas.SrcFuel
namespace Spq.CIR
open Spq Spq.Reim4

/-- binary64 arithmetic on patterns stored as `Int` (what the interpreter computes) -/
def f64Arith : RArith Int :=
  { zero := 0, add := fadd, sub := fsub, mul := fmul,
    fma := fun x y z => (F64.fma x.toNat y.toNat z.toNat : Nat),
    fms := fun x y z => (F64.fms x.toNat y.toNat z.toNat : Nat) }

theorem f64Arith_add_cast (x y : Nat) : f64Arith.add (x : Int) (y : Int) = ((F64.arith.add x y : Nat) : Int) := by
  simp [f64Arith, fadd, F64.arith]
theorem f64Arith_sub_cast (x y : Nat) : f64Arith.sub (x : Int) (y : Int) = ((F64.arith.sub x y : Nat) : Int) := by
  simp [f64Arith, fsub, F64.arith]
theorem f64Arith_mul_cast (x y : Nat) : f64Arith.mul (x : Int) (y : Int) = ((F64.arith.mul x y : Nat) : Int) := by
  simp [f64Arith, fmul, F64.arith]

theorem evalBin_mul_f64 (x y : Int) : evalBin .mul .f64 x y = .ok (fmul x y) := rfl

/-! ### `lanes` -/
section
variable {α : Type}

theorem lanes_succ (z : α) (n : Nat) (p q : Nat → Nat) (P Q : Nat → α → α) (dst : Array α) :
    lanes z (n + 1) p q P Q dst =
      ((lanes z n p q P Q dst).setIfInBounds (p n) (P n ((lanes z n p q P Q dst).getD (p n) z))).setIfInBounds (q n)
        (Q n (((lanes z n p q P Q dst).setIfInBounds (p n) (P n ((lanes z n p q P Q dst).getD (p n) z))).getD (q n) z)) := by
  simp only [lanes, Nat.fold_succ]

theorem lanes_zero (z : α) (p q : Nat → Nat) (P Q : Nat → α → α) (dst : Array α) : lanes z 0 p q P Q dst = dst := by
  simp only [lanes, Nat.fold_zero]

theorem size_lanes (z : α) (n : Nat) (p q : Nat → Nat) (P Q : Nat → α → α) (dst : Array α) :
    (lanes z n p q P Q dst).size = dst.size := by
  induction n with
  | zero => rw [lanes_zero]
  | succ n ih => rw [lanes_succ]; simpa using ih

theorem getD_setIfInBounds_ne (A : Array α) (i j : Nat) (v z : α) (h : i ≠ j) :
    (A.setIfInBounds i v).getD j z = A.getD j z := by
  simp [Array.getD_eq_getD_getElem?, Array.getElem?_setIfInBounds_ne h]

/-- a cell no lane `< n` writes is the original one -/
theorem getD_lanes_untouched (z : α) (n : Nat) (p q : Nat → Nat) (P Q : Nat → α → α) (dst : Array α) (j : Nat)
    (h : ∀ i, i < n → p i ≠ j ∧ q i ≠ j) : (lanes z n p q P Q dst).getD j z = dst.getD j z := by
  induction n with
  | zero => rw [lanes_zero]
  | succ n ih =>
    rw [lanes_succ, getD_setIfInBounds_ne _ _ _ _ _ (h n (Nat.lt_succ_self n)).2,
      getD_setIfInBounds_ne _ _ _ _ _ (h n (Nat.lt_succ_self n)).1]
    exact ih fun i hi => h i (Nat.lt_succ_of_lt hi)
end

/-! ### memory `mem[r := A]` where `A` agrees with the original buffer on the cells about to be read -/

theorem load_part (mem : Mem) (r x : Nat) (A : Array Int) (j : Nat) (hA : A.size = (buf mem r).size)
    (hj : j < (buf mem x).size) (hAj : A.getD j 0 = (buf mem r).getD j 0) :
    loadCell (mem.setIfInBounds r A) (some (x, 0)) (j : Int) = .ok ((buf mem x).getD j 0) := by
  by_cases hx : x = r
  · subst hx
    have hr : x < mem.size := lt_size_of_buf_size_pos mem x (by omega)
    rw [load0 _ _ _ (by rw [size_buf_set _ _ _ _ hA]; exact hj), buf_set_self _ _ _ hr, hAj]
  · exact load_other mem r x A j hx hj

theorem load_self (mem : Mem) (r : Nat) (A : Array Int) (j : Nat) (hA : A.size = (buf mem r).size)
    (hj : j < (buf mem r).size) :
    loadCell (mem.setIfInBounds r A) (some (r, 0)) (j : Int) = .ok (A.getD j 0) := by
  have hr : r < mem.size := lt_size_of_buf_size_pos mem r (by omega)
  rw [load0 _ _ _ (by rw [size_buf_set _ _ _ _ hA]; exact hj), buf_set_self _ _ _ hr]

theorem store_self (mem : Mem) (r : Nat) (A : Array Int) (j : Nat) (v : Int) (hA : A.size = (buf mem r).size)
    (hj : j < (buf mem r).size) :
    storeCell (mem.setIfInBounds r A) (some (r, 0)) (j : Int) v = .ok (mem.setIfInBounds r (A.setIfInBounds j v)) := by
  have hr : r < mem.size := lt_size_of_buf_size_pos mem r (by omega)
  rw [store0 _ _ _ _ (by rw [size_buf_set _ _ _ _ hA]; exact hj), buf_set_self _ _ _ hr, set_set]

/-- `precomp->m`: cell 1 of the precomputation object -/
theorem eval_precomp_m (Γ : List Ptr) (env : List Int) (mem : Mem) (p : Nat) (hΓ : Γ.getD 0 none = some (p, 0))
    (hp : 1 < (buf mem p).size) :
    eval Γ ⟨env, mem⟩ (.pload (.param 0) (.lit 1)) = .ok ((buf mem p).getD 1 0) := by
  have h := loadCell_nat mem p 1 0 (by omega)
  simp only [eval, R.bind_ok, ptrAt, hΓ]
  simpa using h

/-! ### buffers of binary64 patterns: the `Int` instance of the model is the `F64.arith` instance -/

theorem getD_map' {α β : Type} (f : α → β) (X : Array α) (i : Nat) (z : α) : (X.map f).getD i (f z) = f (X.getD i z) := by
  simp only [Array.getD_eq_getD_getElem?, Array.getElem?_map]
  cases X[i]? <;> rfl

theorem map_lanes {α β : Type} (f : α → β) (z : α) (n : Nat) (p q : Nat → Nat) (P Q : Nat → α → α) (P' Q' : Nat → β → β)
    (hP : ∀ k x, P' k (f x) = f (P k x)) (hQ : ∀ k x, Q' k (f x) = f (Q k x)) (dst : Array α) :
    lanes (f z) n p q P' Q' (dst.map f) = (lanes z n p q P Q dst).map f := by
  induction n with
  | zero => rw [lanes_zero, lanes_zero]
  | succ n ih =>
    rw [lanes_succ, lanes_succ, ih, getD_map', hP, ← Array.map_setIfInBounds, getD_map', hQ, ← Array.map_setIfInBounds]

/-- patterns (naturals) as memory cells -/
def patBuf (a : Array Nat) : Array Int := a.map fun (x : Nat) => (x : Int)

theorem getD_patBuf (a : Array Nat) (i : Nat) : (patBuf a).getD i 0 = ((a.getD i 0 : Nat) : Int) :=
  getD_map' (fun (x : Nat) => (x : Int)) a i 0

theorem reRef_cast (a b c d : Nat) : reRef f64Arith (a : Int) (b : Int) (c : Int) (d : Int) = ((reRef F64.arith a b c d : Nat) : Int) := by
  simp only [reRef, f64Arith_mul_cast, f64Arith_sub_cast]
theorem imRef_cast (a b c d : Nat) : imRef f64Arith (a : Int) (b : Int) (c : Int) (d : Int) = ((imRef F64.arith a b c d : Nat) : Int) := by
  simp only [imRef, f64Arith_mul_cast, f64Arith_add_cast]

/-- on buffers holding binary64 patterns the `Int` instance of the model is the `F64.arith` instance (the object the
    driver family `r4` runs against the compiled code) -/
theorem reimFftvecMulRef_patBuf (m : Nat) (R A B : Array Nat) :
    reimFftvecMulRef f64Arith m (patBuf R) (patBuf A) (patBuf B) = patBuf (reimFftvecMulRef F64.arith m R A B) := by
  unfold reimFftvecMulRef patBuf
  exact map_lanes (fun (x : Nat) => (x : Int)) 0 m (fun i => i) (fun i => i + m)
    (fun i _ => reRef F64.arith (A.getD i 0) (A.getD (i + m) 0) (B.getD i 0) (B.getD (i + m) 0))
    (fun i _ => imRef F64.arith (A.getD i 0) (A.getD (i + m) 0) (B.getD i 0) (B.getD (i + m) 0)) _ _
    (fun k x => by
      show reRef f64Arith _ _ _ _ = _
      rw [show f64Arith.zero = ((0 : Nat) : Int) from rfl, getD_map', getD_map', getD_map', getD_map', reRef_cast])
    (fun k x => by
      show imRef f64Arith _ _ _ _ = _
      rw [show f64Arith.zero = ((0 : Nat) : Int) from rfl, getD_map', getD_map', getD_map', getD_map', imRef_cast]) R

theorem reimFftvecAddmulRef_patBuf (m : Nat) (R A B : Array Nat) :
    reimFftvecAddmulRef f64Arith m (patBuf R) (patBuf A) (patBuf B) = patBuf (reimFftvecAddmulRef F64.arith m R A B) := by
  unfold reimFftvecAddmulRef patBuf
  exact map_lanes (fun (x : Nat) => (x : Int)) 0 m (fun i => i) (fun i => i + m)
    (fun i old => F64.arith.add old (reRef F64.arith (A.getD i 0) (A.getD (i + m) 0) (B.getD i 0) (B.getD (i + m) 0)))
    (fun i old => F64.arith.add old (imRef F64.arith (A.getD i 0) (A.getD (i + m) 0) (B.getD i 0) (B.getD (i + m) 0))) _ _
    (fun k x => by
      show f64Arith.add _ (reRef f64Arith _ _ _ _) = _
      rw [show f64Arith.zero = ((0 : Nat) : Int) from rfl, getD_map', getD_map', getD_map', getD_map', reRef_cast,
        f64Arith_add_cast])
    (fun k x => by
      show f64Arith.add _ (imRef f64Arith _ _ _ _) = _
      rw [show f64Arith.zero = ((0 : Nat) : Int) from rfl, getD_map', getD_map', getD_map', getD_map', imRef_cast,
        f64Arith_add_cast]) R

end Spq.CIR
