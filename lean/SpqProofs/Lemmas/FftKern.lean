/-
  C06: the kernels (twiddle pass, radix-4 pass, 16-point leaf) on arrays, with the exact twiddles at the table
  positions they read, advance their block of the level network.
-/
import SpqProofs.Lemmas.FftTable
set_option linter.unusedSectionVars false
namespace Spq.Fft.Kern
open Spq.Fft Spq.Fft.Alg Spq.Fft.View Spq.Fft.Level Spq.Fft.Sim Spq.Fft.Tab Spq.Fft.Tw

variable {R : Type} [CommRing R] [Inhabited R]

/-- every butterfly of a forward implementation is exact -/
structure FwdOK (I : R) (F : Flav R) : Prop where
  ct : ∀ wr wi, Realises I F.ct wr wi (fφ (wr + I * wi)) (fψ (wr + I * wi))
  cit : ∀ wr wi, Realises I F.cit wr wi (fφ (I * (wr + I * wi))) (fψ (I * (wr + I * wi)))
  ctS : ∀ wr wi, Realises I F.ctS wr wi (fφ (wr + I * wi)) (fψ (wr + I * wi))
  citS : ∀ wr wi, Realises I F.citS wr wi (fφ (I * (wr + I * wi))) (fψ (I * (wr + I * wi)))
  ct2 : ∀ wr wi, Realises I F.ct2 wr wi (fφ (wr + I * wi)) (fψ (wr + I * wi))

theorem fwdRef_ok (I : R) (hI : I * I = -1) : FwdOK I (fwdRef ringA) :=
  ⟨ctRef_real I hI, citRef_real I hI, ctRef_real I hI, citRef_real I hI, ctRef_real I hI⟩
theorem fwdFma_ok (I : R) (hI : I * I = -1) : FwdOK I (fwdFma ringA) :=
  ⟨ctFma_real I hI, citFmaB_real I hI, ctFma_real I hI, citFmaN_real I hI, ctRef_real I hI⟩

/-- the global data of one transform size `2^k` -/
structure Ctx (R : Type) [CommRing R] where
  ζ : R
  I : R
  k : ℕ
  c : ℕ → R
  s : ℕ → R
  a : ℕ → R
  hI : ζ ^ 2 ^ k = I
  hI2 : I * I = -1
  hcs : ∀ e, c e + I * s e = ζ ^ e

variable (X : Ctx R)

/-- `twPass` with the right twiddle advances its block by one level -/
theorem twPass_adv (f : Bf R) (hf : ∀ wr wi, Realises X.I f wr wi (fφ (wr + X.I * wi)) (fψ (wr + X.I * wi)))
    (N ℓ d b off : ℕ) (wr wi : R) (s : RI R) (hs : Valid N s) (hoff : off = 2 * 2 ^ d * b)
    (hN : off + 2 * 2 ^ d ≤ N) (hw : wr + X.I * wi = X.ζ ^ twE ℓ d b) :
    Adv X.ζ X.a (cxs X.I s) (cxs X.I (twPass f (2 ^ d) off wr wi s)) ℓ (d + 1) (ℓ + 1) d off (2 * 2 ^ d) ∧
      Valid N (twPass f (2 ^ d) off wr wi s) := by
  have h1 := twPass_sim X.I N f wr wi _ _ (hf wr wi) (2 ^ d) off s hs (by omega)
  rw [h1.1, hw]
  exact ⟨Adv.tw X.ζ X.a _ ℓ d b off hoff, h1.2⟩

/-- `bitwiddle` with the right twiddles advances its block by two levels -/
theorem bitwiddle_adv (F : Flav R) (hF : FwdOK X.I F) (T : Array R) (t N ℓ d b off h : ℕ) (s : RI R)
    (hs : Valid N s) (hh : h = 2 ^ d) (hoff : off = 4 * h * b) (hN : off + 4 * h ≤ N)
    (hk : X.k = ℓ + 1 + d + 1)
    (hw0 : T[t]! + X.I * T[t + 1]! = X.ζ ^ twE ℓ (d + 1) b)
    (hw1 : T[t + 2]! + X.I * T[t + 3]! = X.ζ ^ twE (ℓ + 1) d (2 * b)) :
    Adv X.ζ X.a (cxs X.I s) (cxs X.I (bitwiddle F T t h off s)) ℓ (d + 2) (ℓ + 2) d off (4 * h) ∧
      Valid N (bitwiddle F T t h off s) := by
  have h1 := bitwiddle_sim X.I N F T t h off _ _ _ _ _ _ (hF.ct _ _) (hF.ct _ _) (hF.cit _ _) s hs hN
  rw [h1.1]
  refine ⟨Adv.bw X.ζ X.a _ ℓ d b off h hh hoff _ _ _ hw0 hw1 ?_, h1.2⟩
  rw [hw1, twE_odd X.ζ X.I X.k ℓ d b X.hI hk]

/-- exponents of the 8 twiddles of a forward leaf pack with entry power `e` (canonical order) -/
def leafE (e U : ℕ) : ℕ → ℕ
  | 0 => e / 2 | 1 => e / 4 | 2 => e / 8 | 3 => e / 8 + U / 8
  | 4 => e / 16 | 5 => e / 16 + U / 8 | 6 => e / 16 + U / 16 | _ => e / 16 + U / 8 + U / 16

/-- the 16-point leaf with the right twiddles advances its block by four levels -/
theorem fft16K_adv (F : Flav R) (hF : FwdOK X.I F) (w : ℕ → R × R) (N ℓ b off e : ℕ) (s : RI R)
    (hs : Valid N s) (hoff : off = 16 * b) (hN : off + 16 ≤ N) (hk : X.k = ℓ + 4)
    (he : e = 16 * (1 + 4 * brev ℓ b))
    (hw : ∀ q, q < 8 → (w q).1 + X.I * (w q).2 = X.ζ ^ leafE e (4 * 2 ^ X.k) q) :
    Adv X.ζ X.a (cxs X.I s) (cxs X.I (fft16K F w off s)) ℓ 4 (ℓ + 4) 0 off 16 ∧ Valid N (fft16K F w off s) := by
  have h1 := fft16K_sim X.I N F w
    (fun q => (fφ ((w q).1 + X.I * (w q).2), fψ ((w q).1 + X.I * (w q).2)))
    (fun q => (fφ (X.I * ((w q).1 + X.I * (w q).2)), fψ (X.I * ((w q).1 + X.I * (w q).2))))
    (fun q _ => hF.ct _ _) (fun q _ => hF.cit _ _) off s hs hN
  rw [h1.1]
  refine ⟨?_, h1.2⟩
  obtain ⟨x0, x1, x2, x3, x4, x5, x6, x7⟩ := leaf_exps ℓ b e (4 * 2 ^ X.k) he (by rw [hk])
  have w0 := hw 0 (by omega); have w1 := hw 1 (by omega); have w2 := hw 2 (by omega)
  have w3 := hw 3 (by omega); have w4 := hw 4 (by omega); have w5 := hw 5 (by omega)
  have w6 := hw 6 (by omega); have w7 := hw 7 (by omega)
  simp only [leafE] at w0 w1 w2 w3 w4 w5 w6 w7
  rw [x0] at w0; rw [x1] at w1; rw [x2] at w2; rw [x3] at w3; rw [x4] at w4; rw [x5] at w5; rw [x6] at w6
  rw [x7] at w7
  apply Adv.leaf X.ζ X.a X.I _ ℓ b off hoff (fun q => (w q).1 + X.I * (w q).2) w0 w1
  · rw [w1]; exact (twE_odd X.ζ X.I X.k ℓ 2 b X.hI (by omega)).symm
  · exact w2
  · rw [w2, show 4 * b + 1 = 2 * (2 * b) + 1 by ring, show 4 * b = 2 * (2 * b) by ring]
    exact (twE_odd X.ζ X.I X.k (ℓ + 1) 1 (2 * b) X.hI (by omega)).symm
  · exact w3
  · rw [w3, show 4 * b + 3 = 2 * (2 * b + 1) + 1 by ring, show 4 * b + 2 = 2 * (2 * b + 1) by ring]
    exact (twE_odd X.ζ X.I X.k (ℓ + 1) 1 (2 * b + 1) X.hI (by omega)).symm
  · intro q hq
    have : q = 0 ∨ q = 1 ∨ q = 2 ∨ q = 3 := by omega
    rcases this with rfl | rfl | rfl | rfl
    · exact w4
    · exact w5
    · exact w6
    · exact w7
  · intro q hq
    have hq' : X.ζ ^ twE (ℓ + 3) 0 (8 * b + 2 * q + 1) = X.I * X.ζ ^ twE (ℓ + 3) 0 (8 * b + 2 * q) := by
      rw [show 8 * b + 2 * q + 1 = 2 * (4 * b + q) + 1 by ring, show 8 * b + 2 * q = 2 * (4 * b + q) by ring]
      exact twE_odd X.ζ X.I X.k (ℓ + 2) 0 (4 * b + q) X.hI (by omega)
    rw [hq']
    have : q = 0 ∨ q = 1 ∨ q = 2 ∨ q = 3 := by omega
    rcases this with rfl | rfl | rfl | rfl
    · exact congrArg (X.I * ·) w4
    · exact congrArg (X.I * ·) w5
    · exact congrArg (X.I * ·) w6
    · exact congrArg (X.I * ·) w7

end Spq.Fft.Kern
