/-
  `reim_to_znx64_avx2_bnd63_fma`: the exponent-difference / variable-shift extraction of the integer part,
  and the resulting contract *under the hypothesis that the addition `x + sign(x)·d/2` is exact*
  (without it the contract is false, see `C14.to_znx64_bnd63_violation`).
-/
import SpqProofs.Lemmas.ConvBits
import SpqProofs.Lemmas.ConvToZnx

namespace Spq.Conv
open Spq.F64

/-- the pattern of a normal number -/
def normPat (s : Bool) (Ea fa : Nat) : Nat := sgn s + Ea * 4503599627370496 + fa

theorem sgn_lt (s : Bool) : sgn s = 0 ∨ sgn s = 9223372036854775808 := by cases s <;> simp [sgn]

/-- The integer extraction of bnd63 on a normal pattern `a = (s, Ea, fa)` against `divisor_bits = Ed·2^52`,
    `Ea ≤ Ed`: sign-magnitude `±⌊(2^52+fa) / 2^(Ed−Ea)⌋`. -/
theorem bnd63_extract (s : Bool) (Ea fa Ed : Nat) (hEa1 : 1 ≤ Ea) (hEa2 : Ea ≤ 2046) (hfa : fa < 4503599627370496)
    (hEd2 : Ed ≤ 2046) (hle : Ea ≤ Ed) :
    let a := normPat s Ea fa
    let diviBits := Ed * 4503599627370496
    let signMask := sub64 0 (sgn s / 9223372036854775808)
    let a0exp := a &&& EXPO_MASK
    let lsh := sub64 a0exp diviBits / 4503599627370496
    let rsh := sub64 diviBits a0exp / 4503599627370496
    let a0pos := (a &&& MANT_MASK) ||| MANT_MSB
    let fin := (sllv64 a0pos lsh ||| srlv64 a0pos rsh) ^^^ signMask
    toS (sub64 fin signMask) = sI s ((4503599627370496 + fa) / 2 ^ (Ed - Ea)) := by
  intro a diviBits signMask a0exp lsh rsh a0pos fin
  have hs := sgn_lt s
  have ha_exp : a / 4503599627370496 % 2048 = Ea := by
    show (sgn s + Ea * 4503599627370496 + fa) / 4503599627370496 % 2048 = Ea
    rcases hs with h | h <;> rw [h] <;> omega
  have ha_fr : a % 4503599627370496 = fa := by
    show (sgn s + Ea * 4503599627370496 + fa) % 4503599627370496 = fa
    rcases hs with h | h <;> rw [h] <;> omega
  have h_a0exp : a0exp = Ea * 4503599627370496 := by
    show a &&& EXPO_MASK = _
    rw [and_expo_mask, ha_exp]; ring
  have h_a0pos : a0pos = 4503599627370496 + fa := by
    show (a &&& MANT_MASK) ||| MANT_MSB = _
    rw [and_mant_mask, ha_fr]
    have := or_high fa 1 hfa
    rw [Nat.one_mul] at this
    exact this
  have h_rsh : rsh = Ed - Ea := by
    show sub64 diviBits a0exp / 4503599627370496 = _
    rw [h_a0exp]; show sub64 (Ed * 4503599627370496) (Ea * 4503599627370496) / 4503599627370496 = _
    unfold sub64; omega
  have h_lsh : lsh = if Ea = Ed then 0 else 4096 - (Ed - Ea) := by
    show sub64 a0exp diviBits / 4503599627370496 = _
    rw [h_a0exp]; show sub64 (Ea * 4503599627370496) (Ed * 4503599627370496) / 4503599627370496 = _
    unfold sub64; split <;> omega
  have hpos_lt : 4503599627370496 + fa < 9007199254740992 := by omega
  -- magnitude
  have h_mag : sllv64 a0pos lsh ||| srlv64 a0pos rsh = (4503599627370496 + fa) / 2 ^ (Ed - Ea) := by
    rw [h_a0pos, h_rsh, h_lsh]
    by_cases heq : Ea = Ed
    · subst heq
      simp only [if_true, Nat.sub_self, pow_zero, Nat.div_one]
      unfold sllv64 srlv64
      simp only [Nat.not_lt_zero, gt_iff_lt, if_false, pow_zero, Nat.mul_one, Nat.div_one]
      have : (4503599627370496 + fa) % 18446744073709551616 = 4503599627370496 + fa := by omega
      rw [this, Nat.or_self]
    · simp only [heq, if_false]
      have hl : sllv64 (4503599627370496 + fa) (4096 - (Ed - Ea)) = 0 := by
        unfold sllv64
        have : 4096 - (Ed - Ea) > 63 := by omega
        simp only [this, if_true]
      rw [hl, Nat.zero_or]
      unfold srlv64
      split
      · rename_i hgt
        symm
        apply Nat.div_eq_of_lt
        have : (2 : Nat) ^ 53 ≤ 2 ^ (Ed - Ea) := Nat.pow_le_pow_right (by norm_num) (by omega)
        norm_num at this
        omega
      · rfl
  have h_sm : signMask = if s then 18446744073709551615 else 0 := by
    show sub64 0 (sgn s / 9223372036854775808) = _
    cases s <;> simp [sgn, sub64]
  show toS (sub64 ((sllv64 a0pos lsh ||| srlv64 a0pos rsh) ^^^ signMask) signMask) = _
  rw [h_mag, h_sm]
  have hv : (4503599627370496 + fa) / 2 ^ (Ed - Ea) ≤ 9223372036854775808 := by
    have := Nat.div_le_self (4503599627370496 + fa) (2 ^ (Ed - Ea))
    omega
  rw [cond_negate _ hv s]
  have hv' : (((4503599627370496 + fa) / 2 ^ (Ed - Ea) : Nat) : Int) < 9007199254740992 := by
    have := Nat.div_le_self (4503599627370496 + fa) (2 ^ (Ed - Ea))
    omega
  have hv0 : (0 : Int) ≤ (((4503599627370496 + fa) / 2 ^ (Ed - Ea) : Nat) : Int) := Int.natCast_nonneg _
  unfold sI wrapS
  cases s
  · simp only [Bool.false_eq_true, if_false]; omega
  · simp only [if_true]; omega

/-- pattern of an exactly representable `pack` (pattern-level companion of `decode_pack_exact`) -/
theorem pack_exact_pattern (neg : Bool) (a t : Nat) (E : Int) (k : Nat)
    (h1 : 4503599627370496 ≤ a * 2 ^ k) (h2 : a * 2 ^ k < 9007199254740992)
    (hE : -1074 ≤ E + t - k) (hov : E + t - k ≤ 971) :
    pack neg (a * 2 ^ t) E = normPat neg (E + t - k + 1075).toNat (a * 2 ^ k - 4503599627370496) := by
  unfold normPat
  rcases Nat.le_total k t with hkt | htk
  · have hsplit : a * 2 ^ t = (a * 2 ^ k) * 2 ^ (t - k) := by
      rw [mul_assoc, ← pow_add]; congr 2; omega
    have hP : 0 < 2 ^ (t - k) := by positivity
    rw [hsplit, pack_round neg ((a * 2 ^ k) * 2 ^ (t - k)) E (t - k)
      (Nat.mul_le_mul_right _ h1) (Nat.mul_lt_mul_of_pos_right h2 hP) (by omega), rne_exact,
      encode_normal neg _ _ h1 h2 (by omega)]
    have : E + ((t - k : Nat) : Int) + 1075 = E + t - k + 1075 := by omega
    rw [this]
  · have hsplit : (a * 2 ^ t) * 2 ^ (k - t) = a * 2 ^ k := by
      rw [mul_assoc, ← pow_add]; congr 2; omega
    rw [pack_small neg (a * 2 ^ t) E (k - t) (by rw [hsplit]; exact h1) (by rw [hsplit]; exact h2) (by omega), hsplit,
      encode_normal neg _ _ h1 h2 (by omega)]
    have : E - ((k - t : Nat) : Int) + 1075 = E + t - k + 1075 := by omega
    rw [this]

theorem decode_D_TWO : decode D_TWO = ⟨false, 4503599627370496, -51⟩ := by
  have := decode_pos_pattern 1024 0 (by norm_num) (by norm_num) (by norm_num)
  simpa using this

/-- `offset = divisor / 2.` is the pattern of `2^(j-1)` -/
theorem bnd63OffsetOld_pow2 (j : Int) (hj1 : -1021 ≤ j) (hj2 : j ≤ 1023) : bnd63OffsetOld (pow2 j) = pow2 (j - 1) := by
  unfold bnd63OffsetOld
  rw [div_pow2_of_decode (decode_pow2 j (by omega) hj2) decode_D_TWO (by norm_num)]
  have := pack_exact_pattern false 4503599627370496 59 (j - 52 - -51 - 111) 0 (by norm_num) (by norm_num)
    (by push_cast; omega) (by push_cast; omega)
  rw [this]
  unfold normPat pow2 sgn
  simp only [Bool.false_eq_true, if_false, pow_zero, Nat.mul_one, Nat.sub_self, Nat.add_zero, Nat.zero_add]
  congr 1
  push_cast; omega

/-- `divisor_bits = divisor * 2^52` is the pattern of `2^(j+52)` -/
theorem bnd63DiviBits_pow2 (j : Int) (hj1 : -1022 ≤ j) (hj2 : j ≤ 971) : bnd63DiviBits (pow2 j) = pow2 (j + 52) := by
  unfold bnd63DiviBits
  rw [D_2P52_eq, mul_of_decode (decode_pow2 j hj1 (by omega)) decode_D_2P52]
  have hpw : 4503599627370496 * 4503599627370496 = 4503599627370496 * 2 ^ 52 := by norm_num
  rw [hpw]
  have := pack_exact_pattern (false != false) 4503599627370496 52 (j - 52 + 0) 0 (by norm_num) (by norm_num)
    (by push_cast; omega) (by push_cast; omega)
  rw [this]
  unfold normPat pow2 sgn
  simp only [bne_self_eq_false, Bool.false_eq_true, if_false, pow_zero, Nat.mul_one, Nat.sub_self, Nat.add_zero, Nat.zero_add]
  congr 1
  push_cast; omega

theorem decode_neg_eq (b : Nat) : (decode b).neg = signBit b := by
  unfold decode; simp only []; split <;> rfl

theorem or_sign (s : Bool) (b : Nat) (hb : b < 9223372036854775808) : sgn s ||| b = sgn s + b := by
  cases s
  · simp [sgn]
  · have h := Nat.two_pow_add_eq_or_of_lt (i := 63) (b := b) (by norm_num; exact hb) 1
    norm_num at h
    simp only [sgn, if_true]
    exact h.symm

theorem and_sign_eq_sgn (x : Nat) (hx : x < 18446744073709551616) : x &&& SIGN_MASK = sgn (signBit x) := by
  rw [and_sign_mask x hx]
  unfold signBit sgn
  have : x / 9223372036854775808 = 0 ∨ x / 9223372036854775808 = 1 := by omega
  rcases this with h | h <;> rw [h] <;> simp

theorem sI_add (s : Bool) (a b : Nat) : sI s a + sI s b = sI s (a + b) := by
  cases s
  · simp [sI]
  · simp [sI]; ring

theorem sI_mul_nat (s : Bool) (a b : Nat) : sI s a * (b : Int) = sI s (a * b) := by
  cases s <;> simp [sI]

theorem packSigned_sI (s : Bool) (V : Nat) (hV : 0 < V) (e : Int) (z : Bool) :
    packSigned (sI s V) e z = pack s V e := by
  have hV' : (0 : Int) < V := by exact_mod_cast hV
  cases s
  · have : sI false V = (V : Int) := by simp [sI]
    rw [this, packSigned_pos hV']; simp
  · have h1 : sI true V = -(V : Int) := by simp [sI]
    rw [h1, packSigned_ne_zero (by omega)]
    have h2 : decide (-(V : Int) < 0) = true := by simp; omega
    have h3 : (-(V : Int)).natAbs = V := by omega
    rw [h2, h3]

theorem exists_binade (V : Nat) (hV : 4503599627370496 ≤ V) :
    ∃ k, 4503599627370496 * 2 ^ k ≤ V ∧ V < 9007199254740992 * 2 ^ k := by
  have hV0 : V ≠ 0 := by omega
  have h1 := Nat.log2_self_le hV0
  have h2 : V < 2 ^ (V.log2 + 1) := Nat.lt_log2_self
  have h52 : 52 ≤ V.log2 := by
    by_contra hc
    have : 2 ^ (V.log2 + 1) ≤ 2 ^ 52 := Nat.pow_le_pow_right (by norm_num) (by omega)
    norm_num at this; omega
  refine ⟨V.log2 - 52, ?_, ?_⟩
  · have : 4503599627370496 * 2 ^ (V.log2 - 52) = 2 ^ V.log2 := by
      have : (4503599627370496 : Nat) = 2 ^ 52 := by norm_num
      rw [this, ← pow_add]; congr 1; omega
    rw [this]; exact h1
  · have : 9007199254740992 * 2 ^ (V.log2 - 52) = 2 ^ (V.log2 + 1) := by
      have : (9007199254740992 : Nat) = 2 ^ 53 := by norm_num
      rw [this, ← pow_add]; congr 1; omega
    rw [this]; exact h2

/-- `reim_to_znx64_avx2_bnd63_fma`, one lane, for `|x/d| < 2^52`, *assuming the addition `x + sign(x)·d/2` is exact*:
    the result is within 1/2 of `x/d`. -/
theorem toZnx64Bnd63Lane_spec_of_exact (j : Int) (hj1 : -1021 ≤ j) (hj2 : j ≤ 970) (x : Nat)
    (hx64 : x < 18446744073709551616)
    (hdom : |toScaled x| < 4503599627370496 * toScaled (pow2 j))
    (hexact : toScaled (add x ((x &&& SIGN_MASK) ||| bnd63OffsetOld (pow2 j))) =
      toScaled x + toScaled ((x &&& SIGN_MASK) ||| bnd63OffsetOld (pow2 j))) :
    2 * |toZnx64Bnd63Lane (bnd63OffsetOld (pow2 j)) (bnd63DiviBits (pow2 j)) x * toScaled (pow2 j) - toScaled x|
      ≤ toScaled (pow2 j) := by
  obtain ⟨sx, mx, ex, hx, hmx, he0, he1⟩ := exists_decode x
  have hsx : signBit x = sx := by rw [← decode_neg_eq, hx]
  have hasign : x &&& SIGN_MASK = sgn sx := by rw [and_sign_eq_sgn x hx64, hsx]
  have hoff : bnd63OffsetOld (pow2 j) = pow2 (j - 1) := bnd63OffsetOld_pow2 j hj1 (by omega)
  have hdb : bnd63DiviBits (pow2 j) = pow2 (j + 52) := bnd63DiviBits_pow2 j (by omega) (by omega)
  have hp2lt : pow2 (j - 1) < 9223372036854775808 := by unfold pow2; omega
  have hcpat : (x &&& SIGN_MASK) ||| bnd63OffsetOld (pow2 j) = sgn sx + (j + 1022).toNat * 4503599627370496 + 0 := by
    rw [hasign, hoff, or_sign sx _ hp2lt]
    unfold pow2
    have : (j - 1 + 1023).toNat = (j + 1022).toNat := by congr 1; omega
    rw [this]; omega
  have hc : decode ((x &&& SIGN_MASK) ||| bnd63OffsetOld (pow2 j)) = ⟨sx, 4503599627370496, j - 53⟩ := by
    rw [hcpat, decode_normal_pattern sx (j + 1022).toNat 0 (by omega) (by omega) (by norm_num)]
    have e2 : (((j + 1022).toNat : Nat) : Int) - 1075 = j - 53 := by omega
    rw [Nat.zero_add, e2]
  -- common unit
  obtain ⟨e, he⟩ : ∃ e, e = min ex (j - 53) := ⟨_, rfl⟩
  obtain ⟨k1, hk1⟩ : ∃ k1 : Nat, ex = e + k1 := ⟨(ex - e).toNat, by omega⟩
  obtain ⟨k2, hk2⟩ : ∃ k2 : Nat, j - 53 = e + k2 := ⟨(j - 53 - e).toNat, by omega⟩
  obtain ⟨W, hW⟩ : ∃ W : Int, W = 2 ^ ((e + 1074).toNat) := ⟨_, rfl⟩
  have hWpos : 0 < W := by rw [hW]; positivity
  have hxs : toScaled x = sI sx mx * 2 ^ k1 * W := by rw [hW]; exact toScaled_split hx e k1 hk1 (by omega)
  have hcs : toScaled ((x &&& SIGN_MASK) ||| bnd63OffsetOld (pow2 j)) = sI sx 4503599627370496 * 2 ^ k2 * W := by
    rw [hW]; exact toScaled_split hc e k2 hk2 (by omega)
  have hds : toScaled (pow2 j) = 2 ^ (53 + k2) * W := by
    rw [toScaled_pow2 j (by omega) (by omega), hW, ← pow_add]; congr 1; omega
  obtain ⟨X, hX⟩ : ∃ X : Nat, X = mx * 2 ^ k1 := ⟨_, rfl⟩
  obtain ⟨H, hH⟩ : ∃ H : Nat, H = 4503599627370496 * 2 ^ k2 := ⟨_, rfl⟩
  have hHpos : 0 < H := by rw [hH]; positivity
  have hD2 : 2 ^ (53 + k2) = 2 * H := by rw [hH, pow_add]; norm_num; ring
  have hxs' : toScaled x = sI sx X * W := by
    rw [hxs, hX]; congr 1
    have := sI_mul_nat sx mx (2 ^ k1)
    push_cast at this; exact this
  have hcs' : toScaled ((x &&& SIGN_MASK) ||| bnd63OffsetOld (pow2 j)) = sI sx H * W := by
    rw [hcs, hH]; congr 1
    have := sI_mul_nat sx 4503599627370496 (2 ^ k2)
    push_cast at this; exact this
  have hds' : toScaled (pow2 j) = ((2 * H : Nat) : Int) * W := by rw [hds, ← hD2]; push_cast; rfl
  -- domain: X < 2^52 · 2H
  have hXdom : X < 4503599627370496 * (2 * H) := by
    rw [hxs', hds', abs_sI_mul _ _ _ (le_of_lt hWpos), ← mul_assoc] at hdom
    have := lt_of_mul_lt_mul_right hdom (le_of_lt hWpos)
    exact_mod_cast this
  -- the sum
  have hadd : add x ((x &&& SIGN_MASK) ||| bnd63OffsetOld (pow2 j)) = pack sx (X + H) e := by
    rw [add_of_decode hx hc, ← he]
    have h1 : (ex - e).toNat = k1 := by omega
    have h2 : (j - 53 - e).toNat = k2 := by omega
    rw [h1, h2]
    have e1 : sI sx mx * (2 : Int) ^ k1 = sI sx X := by
      rw [hX]; have := sI_mul_nat sx mx (2 ^ k1); push_cast at this; exact this
    have e2 : sI sx 4503599627370496 * (2 : Int) ^ k2 = sI sx H := by
      rw [hH]; have := sI_mul_nat sx 4503599627370496 (2 ^ k2); push_cast at this; exact this
    rw [e1, e2, sI_add, packSigned_sI sx (X + H) (by omega)]
  obtain ⟨V, hV⟩ : ∃ V, V = X + H := ⟨_, rfl⟩
  rw [← hV] at hadd
  have hVge : 4503599627370496 ≤ V := by
    rw [hV, hH]
    have : 1 ≤ 2 ^ k2 := Nat.one_le_two_pow
    nlinarith
  obtain ⟨k, hlo, hhi⟩ := exists_binade V hVge
  have hPk : 0 < 2 ^ k := by positivity
  have hround := pack_round sx V e k hlo hhi (by omega)
  obtain ⟨hq1, hq2⟩ := rne_range hlo hhi
  -- k ≤ 53 + k2 (from the domain)
  have hk : k ≤ 53 + k2 := by
    by_contra hc
    have h1 : 2 ^ (54 + k2) ≤ 2 ^ k := Nat.pow_le_pow_right (by norm_num) (by omega)
    have h2 : 2 ^ (54 + k2) = 2 * (2 * H) := by rw [show 54 + k2 = (53 + k2) + 1 by omega, pow_succ, hD2]; ring
    have h3 : 4503599627370496 * (2 * (2 * H)) ≤ V := by
      calc 4503599627370496 * (2 * (2 * H)) = 4503599627370496 * 2 ^ (54 + k2) := by rw [h2]
        _ ≤ 4503599627370496 * 2 ^ k := Nat.mul_le_mul_left _ h1
        _ ≤ V := hlo
    omega
  -- exactness: no carry, q·2^k = V
  have hsum : toScaled x + toScaled ((x &&& SIGN_MASK) ||| bnd63OffsetOld (pow2 j)) = sI sx V * W := by
    rw [hxs', hcs', ← add_mul, sI_add, hV]
  rw [hadd, hsum] at hexact
  have hqV : rne V k < 9007199254740992 ∧ rne V k * 2 ^ k = V := by
    rcases Nat.lt_or_ge (rne V k) 9007199254740992 with hlt | hge
    · refine ⟨hlt, ?_⟩
      have hd := decode_pack_round sx V e k hlo hhi (by omega) hlt (by omega)
      rw [toScaled_split hd e k rfl (by omega), ← hW] at hexact
      have h1 : sI sx (rne V k) * 2 ^ k = sI sx V := mul_right_cancel₀ (ne_of_gt hWpos) hexact
      have h2 := sI_mul_nat sx (rne V k) (2 ^ k)
      push_cast at h2
      rw [h2] at h1
      cases sx
      · simp only [sI, Bool.false_eq_true, if_false] at h1; exact_mod_cast h1
      · simp only [sI, if_true, neg_inj] at h1; exact_mod_cast h1
    · exfalso
      have hqe : rne V k = 9007199254740992 := by omega
      have hd := decode_pack_round_carry sx V e k hlo hhi (by omega) hqe (by omega)
      rw [toScaled_split hd e (k + 1) (by push_cast; ring) (by omega), ← hW] at hexact
      have h1 : sI sx 4503599627370496 * 2 ^ (k + 1) = sI sx V := mul_right_cancel₀ (ne_of_gt hWpos) hexact
      have h2 := sI_mul_nat sx 4503599627370496 (2 ^ (k + 1))
      push_cast at h2
      rw [h2] at h1
      have h3 : 4503599627370496 * 2 ^ (k + 1) = V := by
        cases sx
        · simp only [sI, Bool.false_eq_true, if_false] at h1; exact_mod_cast h1
        · simp only [sI, if_true, neg_inj] at h1; exact_mod_cast h1
      rw [pow_succ] at h3
      omega
  obtain ⟨hqlt, hqV⟩ := hqV
  -- the pattern of a
  have hapat : pack sx V e = normPat sx (e + k + 1075).toNat (rne V k - 4503599627370496) := by
    rw [hround, encode_normal sx _ _ hq1 hqlt (by omega)]; rfl
  have hdbpat : bnd63DiviBits (pow2 j) = (j + 1075).toNat * 4503599627370496 := by
    rw [hdb]; unfold pow2; congr 2; omega
  -- run the extraction
  have hlane : toZnx64Bnd63Lane (bnd63OffsetOld (pow2 j)) (bnd63DiviBits (pow2 j)) x
      = sI sx ((4503599627370496 + (rne V k - 4503599627370496)) / 2 ^ ((j + 1075).toNat - (e + k + 1075).toNat)) := by
    have hek : e + k ≤ j := by omega
    have c1 : 1 ≤ (e + k + 1075).toNat := by omega
    have c2 : (e + k + 1075).toNat ≤ 2046 := by omega
    have c3 : rne V k - 4503599627370496 < 4503599627370496 := by omega
    have c4 : (j + 1075).toNat ≤ 2046 := by omega
    have c5 : (e + k + 1075).toNat ≤ (j + 1075).toNat := by omega
    have hex := bnd63_extract sx (e + k + 1075).toNat (rne V k - 4503599627370496) (j + 1075).toNat c1 c2 c3 c4 c5
    simp only [] at hex
    unfold toZnx64Bnd63Lane
    simp only []
    rw [hadd, hapat, hasign, hdbpat]
    exact hex
  rw [hlane]
  have hq' : 4503599627370496 + (rne V k - 4503599627370496) = rne V k := by omega
  have ht : (j + 1075).toNat - (e + k + 1075).toNat = 53 + k2 - k := by omega
  rw [hq', ht]
  -- ⌊q / 2^t⌋ = ⌊V / 2H⌋
  have hdiv : rne V k / 2 ^ (53 + k2 - k) = V / (2 * H) := by
    have hsum : 53 + k2 - k + k = 53 + k2 := by omega
    have hp : 2 ^ (53 + k2 - k) * 2 ^ k = 2 * H := by rw [← pow_add, hsum, hD2]
    calc rne V k / 2 ^ (53 + k2 - k) = (rne V k * 2 ^ k) / (2 ^ (53 + k2 - k) * 2 ^ k) :=
          (Nat.mul_div_mul_right _ _ hPk).symm
      _ = V / (2 * H) := by rw [hqV, hp]
  rw [hdiv]
  obtain ⟨n, hn⟩ : ∃ n, n = V / (2 * H) := ⟨_, rfl⟩
  rw [← hn]
  have hdm := Nat.div_add_mod V (2 * H)
  have hml := Nat.mod_lt V (show 0 < 2 * H by omega)
  rw [← hn] at hdm
  obtain ⟨rem, hrem⟩ : ∃ rem, rem = V % (2 * H) := ⟨_, rfl⟩
  rw [← hrem] at hdm hml
  -- |n·2H − X| ≤ H
  rw [hxs', hds']
  have hfac : sI sx n * (((2 * H : Nat) : Int) * W) - sI sx X * W = (sI sx n * ((2 * H : Nat) : Int) - sI sx X * 1) * W := by ring
  rw [hfac, abs_mul, abs_of_pos hWpos, sI_mul_sub, ← mul_assoc]
  apply mul_le_mul_of_nonneg_right _ (le_of_lt hWpos)
  have h1 : (n : Int) * (2 * (H : Int)) + (rem : Int) = (X : Int) + H := by
    have : ((2 * H * n + rem : Nat) : Int) = ((X + H : Nat) : Int) := by rw [hdm, hV]
    push_cast at this; linarith
  have h2 : (rem : Int) < 2 * (H : Int) := by exact_mod_cast hml
  have h3 : (0 : Int) ≤ (rem : Int) := Int.natCast_nonneg _
  push_cast
  rcases abs_cases ((n : Int) * (2 * (H : Int)) - (X : Int) * 1) with ⟨h, _⟩ | ⟨h, _⟩ <;> rw [h] <;> linarith

end Spq.Conv
