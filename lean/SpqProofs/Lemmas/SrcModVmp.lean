/-
  Facts about the heap model of the vector-matrix product needed to compose the source theorems
  (`Properties/SrcModVmp.lean`): `ok` only decreases along `vmpApplyDftToDft`; `vecDft` keeps the arena size.
-/
import SpqProofs.Lemmas.SrcMod
namespace Spq.Src
open Spq Spq.CIR Heap ModuleHeap
variable {α : Type}

/-- `ok` only decreases along `vmpApplyDftToDft` -/
theorem okMono_vmpApplyDftToDft (c : Module.Parts α) (cd : Cells Int α)
    (res rsz adft asz pmat nrows ncols tmp tb : Nat) :
    OkMono (fun h => vmpApplyDftToDft c cd h res rsz adft asz pmat nrows ncols tmp tb) := by
  intro h hk
  -- the model
  let rowMax := min nrows asz
  let colMax := min ncols rsz
  let out := tmp
  let ext := tmp + 16
  let matBlk : Nat → Nat := fun blk => pmat + blk * (8 * nrows * ncols)
  let pairBody : Nat → Nat → Heap Int → Heap Int := fun blk t h =>
    h |> scr tb 0 16 |> scr tb 16 (8 * rowMax) |> kProd2 c cd rowMax nrows out ext (matBlk blk + (2 * t) * (8 * nrows))
      |> kSave c cd blk (res + (2 * t) * c.nn) out
      |> kSave c cd blk (res + (2 * t + 1) * c.nn) (out + 8)
  let lastBody : Nat → Heap Int → Heap Int := fun blk h =>
    (if ncols == colMax then
        h |> scr tb 0 8 |> scr tb 16 (8 * rowMax) |> kProd1 c cd rowMax nrows out ext (matBlk blk + (colMax - 1) * (8 * nrows))
      else h |> scr tb 0 16 |> scr tb 16 (8 * rowMax)
        |> kProd2 c cd rowMax nrows out ext (matBlk blk + (colMax - 1) * (8 * nrows)))
      |> kSave c cd blk (res + (colMax - 1) * c.nn) out
  let blkBody : Nat → Heap Int → Heap Int := fun blk h =>
    let h1 := h |> scr tb 16 (8 * rowMax) |> kExtractRows c cd rowMax blk ext adft
    let h2 := loop (colMax / 2) (pairBody blk) h1
    if colMax % 2 == 1 then lastBody blk h2 else h2
  let colBodyB : Nat → Heap Int → Heap Int := fun col h =>
    if rowMax == 0 then kZeroD c cd (res + col * c.nn) c.nn h
    else
      h |> kMul c cd (res + col * c.nn) adft (pmat + col * nrows * c.nn)
        |> loop (rowMax - 1) (fun k => kAddmul c cd (res + col * c.nn) (adft + (k + 1) * c.nn)
            (pmat + col * nrows * c.nn + (k + 1) * c.nn))
  let Hmid : Heap Int :=
    if c.nn ≥ 8 then loop (c.m / 4) blkBody h else loop colMax colBodyB h
  have hfin : vmpApplyDftToDft c cd h res rsz adft asz pmat nrows ncols tmp tb
      = kZeroD c cd (res + colMax * c.nn) ((rsz - colMax) * c.nn) Hmid := rfl
  simp only [hfin] at hk
  -- monotonicity and sizes of the pieces
  have mPair : ∀ blk t, OkMono (pairBody blk t) := fun blk t =>
    okMono_comp (okMono_comp (okMono_comp (okMono_comp (okMono_scr _ _ _) (okMono_scr _ _ _))
      (okMono_kProd2 c cd _ _ _ _ _)) (okMono_kSave c cd _ _ _)) (okMono_kSave c cd _ _ _)
  have mLast : ∀ blk, OkMono (lastBody blk) := fun blk =>
    okMono_comp (okMono_ite _
      (okMono_comp (okMono_comp (okMono_scr _ _ _) (okMono_scr _ _ _)) (okMono_kProd1 c cd _ _ _ _ _))
      (okMono_comp (okMono_comp (okMono_scr _ _ _) (okMono_scr _ _ _)) (okMono_kProd2 c cd _ _ _ _ _)))
      (okMono_kSave c cd _ _ _)
  have mBlk : ∀ blk, OkMono (blkBody blk) := fun blk =>
    okMono_comp (okMono_comp (okMono_comp (okMono_scr _ _ _) (okMono_kExtractRows c cd _ _ _ _))
      (okMono_loop _ _ (mPair blk))) (okMono_ite _ (mLast blk) okMono_id)
  have mColB : ∀ col, OkMono (colBodyB col) := fun col =>
    okMono_ite _ (okMono_kZeroD c cd _ _)
      (okMono_comp (okMono_kMul c cd _ _ _) (okMono_loop _ _ (fun k => okMono_kAddmul c cd _ _ _)))
  have hM : Hmid.ok = true := okMono_kZeroD c cd _ _ _ hk
  by_cases h8 : c.nn ≥ 8
  · have : Hmid = loop (c.m / 4) blkBody h := by simp only [Hmid, h8, if_true]
    rw [this] at hM
    exact okMono_loop _ _ mBlk h hM
  · have : Hmid = loop colMax colBodyB h := by simp only [Hmid, h8, if_false]
    rw [this] at hM
    exact okMono_loop _ _ mColB h hM

theorem size_vecDft (c : Module.Parts α) (cd : Cells Int α) (h : Heap Int) (res rsz a asz asl : Nat) :
    (vecDft c cd h res rsz a asz asl).mem.size = h.mem.size := by
  unfold vecDft
  simp only
  rw [size_kZeroD, size_loop _ _ (fun i h => by rw [size_kFft, size_kFromZnx])]

end Spq.Src
