/-
  C01 rounding budget, step 10: the numbers.  For `k ≤ 16` (`N = 2·2^k ≤ 131072`) the relative budget
  `eB ε_k μ (ε_k·2^k)` is at most `12·(k+1)·2^-53` — first-order value `(3/2)·8k·u + (3/2)·u` (two forward
  transforms contribute `ε_k` relative to `S`, the inverse transform `ε_k/2`, the pointwise product `μ/2 = 3u/2`).
  Also: size of the output of `toZnx`, and "an integer within `< 1` of an integer is that integer".
-/
import SpqProofs.Lemmas.ProdErrPipe3
import Mathlib.Tactic.IntervalCases
set_option linter.unusedSectionVars false
namespace Spq.ProdErr
open Finset Spq Spq.Module Spq.F64 Spq.FftErr Spq.Conv
variable {K : Type} [Field K] [LinearOrder K] [IsStrictOrderedRing K]

theorem budget16 (k : ℕ) (hk : k ≤ 16) :
    eB ((1 + 8 * u64) ^ k - 1) mu64 (((1 + 8 * u64) ^ k - 1) * 2 ^ k) ≤ 12 * (k + 1 : ℚ) * u64 := by
  unfold eB fB dB mu64 gam u64
  have h : (2 : ℚ) ^ (-53 : ℤ) = 1 / 9007199254740992 := by norm_num
  rw [h]
  interval_cases k <;> norm_num

theorem eB_cast (ε μ θ : ℚ) : ((eB ε μ θ : ℚ) : K) = eB (ε : K) (μ : K) (θ : K) := by
  unfold eB fB dB; push_cast; ring

theorem eps_cast (k : ℕ) : eps K k = (((1 + 8 * u64) ^ k - 1 : ℚ) : K) := by
  unfold eps; push_cast; ring

/-- the relative budget in `K`, `k ≤ 16` -/
theorem budget16K (k : ℕ) (hk : k ≤ 16) :
    eB (eps K k) ((mu64 : ℚ) : K) (eps K k * 2 ^ k) ≤ ((12 * (k + 1 : ℚ) * u64 : ℚ) : K) := by
  have := (Rat.cast_le (K := K)).2 (budget16 k hk)
  rw [eB_cast] at this
  rw [eps_cast]
  refine le_trans (le_of_eq ?_) this
  push_cast; ring

/-- the property's form of the budget bounds the proved one -/
theorem budget_le16 (k : ℕ) (hk : k ≤ 16) (a b : Array Int) (na nb : K) (hna : 0 ≤ na) (hnb : 0 ≤ nb) :
    budget K k a b na nb ≤
      ((12 * (k + 1 : ℚ) * u64 : ℚ) : K) * (n1 K a (2 * 2 ^ k) * nb + na * n1 K b (2 * 2 ^ k)) := by
  unfold budget
  have h2 : (0 : K) ≤ n1 K a (2 * 2 ^ k) := sum_nonneg (fun _ _ => abs_nonneg _)
  have h3 : (0 : K) ≤ n1 K b (2 * 2 ^ k) := sum_nonneg (fun _ _ => abs_nonneg _)
  exact mul_le_mul_of_nonneg_right (budget16K k hk) (add_nonneg (mul_nonneg h2 hnb) (mul_nonneg hna h3))

/-- size of the output of the final conversion -/
theorem toZnx_size (c : Cfg) (k : ℕ) (hnn : c.nn = 2 * 2 ^ k) (hv : c.toVariant ≠ .ref → 1 ≤ k) (d : Array ℕ) :
    ((Cfg.parts c).toZnx d).size = 2 * 2 ^ k := by
  have hm : c.nn / 2 = 2 ^ k := by rw [hnn]; exact pow_half k
  have hpos : 0 < 2 ^ k := Nat.two_pow_pos k
  show (toZnx64 c.toVariant (c.nn / 2) (F64.ofNat (c.nn / 2)) d).size = _
  rw [hm]
  cases hvar : c.toVariant with
  | ref => exact scalarLoop_size _ _
  | bnd50 => exact chunks4_size _ _ hpos (two_pow_mod4 k (hv (by rw [hvar]; simp)))
  | bnd63 => exact chunks4_size _ _ hpos (two_pow_mod4 k (hv (by rw [hvar]; simp)))

/-- two integers at distance `< 1` are equal -/
theorem int_eq_of_lt_one (r n : ℤ) (h : |(r : K) - (n : K)| < 1) : r = n := by
  have h1 : ((|r - n| : ℤ) : K) < ((1 : ℤ) : K) := by push_cast; exact h
  have h2 : |r - n| < 1 := Int.cast_lt.1 h1
  have := Int.abs_lt_one_iff.1 h2
  omega

/-- arrays of `N` integers that agree cell by cell -/
theorem array_eq_of_cells (N : ℕ) (x y : Array Int) (hx : x.size = N) (hy : y.size = N)
    (h : ∀ i, i < N → ∃ r, x[i]? = some r ∧ r = y.getD i 0) : x = y := by
  apply Array.ext_getElem?
  intro i
  by_cases hi : i < N
  · obtain ⟨r, h1, h2⟩ := h i hi
    rw [h1, h2, Array.getD_eq_getD_getElem?]
    have : i < y.size := by omega
    simp [this]
  · rw [Array.getElem?_eq_none (by omega), Array.getElem?_eq_none (by omega)]

end Spq.ProdErr
