/-
  `vmp_prepare_contiguous` as a blind writer: the generic filler `prepG` (functional with `st = id`, raw cells with
  `st = map enc`), its equality with `Spq.Module.vmpPrepare`, and the coverage of the prepared-matrix region
  (every cell of `pmat` is written: the slot map `(row, col, blk) ↦ 8-cell block` is onto).
-/
import SpqProofs.Lemmas.ModHeapAgree
import SpqProofs.Lemmas.ModuleVmpPrep
namespace Spq.ModuleHeap
open Spq Heap Reim4
variable {γ α δ : Type}

def prepBlkG (st : Array α → Array δ) (c : Module.Parts α) (nrows ncols row col : Nat) (t : Array α) (pm : Array δ) : Array δ :=
  (List.range (c.m / 4)).foldl (fun pm blk =>
    Module.writeAt pm (Module.pmatStart nrows ncols row col + blk * (nrows * ncols * 8))
      (st (extract1blkFromReimRef c.ar.zero c.m blk (Array.replicate 8 c.ar.zero) t))) pm

def prepG (st : Array α → Array δ) (c : Module.Parts α) (T : Nat → Nat → Array α) (nrows ncols : Nat) (pm : Array δ) : Array δ :=
  (List.range nrows).foldl (fun pm row => (List.range ncols).foldl (fun pm col =>
    if c.nn ≥ 8 then prepBlkG st c nrows ncols row col (T row col) pm
    else Module.writeAt pm ((col * nrows + row) * c.nn) (st (T row col))) pm) pm

theorem vmpPrepare_eq (c : Module.Parts α) (mat : Array Int) (nrows ncols : Nat) :
    Module.vmpPrepare c mat nrows ncols =
      prepG id c (Module.matDft c mat ncols) nrows ncols (Array.replicate (c.nn * nrows * ncols) c.ar.zero) := by
  unfold Module.vmpPrepare prepG prepBlkG Module.matDft
  simp only [id]

/-- the cells written for the entry (row, col) -/
def prepCell (c : Module.Parts α) (nrows ncols row col x : Nat) : Prop :=
  if 8 ≤ c.nn then ∃ blk, blk < c.m / 4 ∧ In (Module.pmatStart nrows ncols row col + blk * (nrows * ncols * 8)) 8 x
  else In ((col * nrows + row) * c.nn) c.nn x

def prepS (c : Module.Parts α) (nrows ncols x : Nat) : Prop :=
  ∃ row, row < nrows ∧ ∃ col, col < ncols ∧ prepCell c nrows ncols row col x

theorem prepBlk_agree (enc : α → γ) (c : Module.Parts α) (nrows ncols row col : Nat) (t : Array α) :
    Agree enc (fun x => ∃ blk, blk < c.m / 4 ∧ In (Module.pmatStart nrows ncols row col + blk * (nrows * ncols * 8)) 8 x)
      (fun R => prepBlkG id c nrows ncols row col t R) (fun G => prepBlkG (Array.map enc) c nrows ncols row col t G) := by
  unfold prepBlkG
  exact Agree.fold (c.m / 4) (fun blk x => In (Module.pmatStart nrows ncols row col + blk * (nrows * ncols * 8)) 8 x)
    (fun pm blk => Module.writeAt pm (Module.pmatStart nrows ncols row col + blk * (nrows * ncols * 8))
      (id (extract1blkFromReimRef c.ar.zero c.m blk (Array.replicate 8 c.ar.zero) t)))
    (fun pm blk => Module.writeAt pm (Module.pmatStart nrows ncols row col + blk * (nrows * ncols * 8))
      (Array.map enc (extract1blkFromReimRef c.ar.zero c.m blk (Array.replicate 8 c.ar.zero) t)))
    (fun blk _ => Agree.write' enc _ _ 8 (size_extract1 _ _ _ _ _))

theorem prepCell_agree (enc : α → γ) (c : Module.Parts α) (nrows ncols row col : Nat) (t : Array α) (ht : t.size = c.nn) :
    Agree enc (prepCell c nrows ncols row col)
      (fun R => if c.nn ≥ 8 then prepBlkG id c nrows ncols row col t R
        else Module.writeAt R ((col * nrows + row) * c.nn) (id t))
      (fun G => if c.nn ≥ 8 then prepBlkG (Array.map enc) c nrows ncols row col t G
        else Module.writeAt G ((col * nrows + row) * c.nn) (Array.map enc t)) := by
  unfold prepCell
  by_cases h8 : 8 ≤ c.nn
  · simp only [ge_iff_le, h8, if_true]
    exact prepBlk_agree enc c nrows ncols row col t
  · simp only [ge_iff_le, h8, if_false]
    exact Agree.write' enc _ t c.nn ht

theorem prepG_agree (enc : α → γ) (c : Module.Parts α) (T : Nat → Nat → Array α) (nrows ncols : Nat)
    (hT : ∀ row col, row < nrows → col < ncols → (T row col).size = c.nn) :
    Agree enc (prepS c nrows ncols) (fun R => prepG id c T nrows ncols R) (fun G => prepG (Array.map enc) c T nrows ncols G) := by
  unfold prepG prepS
  exact Agree.fold nrows (fun row x => ∃ col, col < ncols ∧ prepCell c nrows ncols row col x)
    (fun pm row => (List.range ncols).foldl (fun pm col =>
      if c.nn ≥ 8 then prepBlkG id c nrows ncols row col (T row col) pm
      else Module.writeAt pm ((col * nrows + row) * c.nn) (id (T row col))) pm)
    (fun pm row => (List.range ncols).foldl (fun pm col =>
      if c.nn ≥ 8 then prepBlkG (Array.map enc) c nrows ncols row col (T row col) pm
      else Module.writeAt pm ((col * nrows + row) * c.nn) (Array.map enc (T row col))) pm)
    (fun row hrow => Agree.fold ncols (fun col x => prepCell c nrows ncols row col x)
      (fun pm col => if c.nn ≥ 8 then prepBlkG id c nrows ncols row col (T row col) pm
        else Module.writeAt pm ((col * nrows + row) * c.nn) (id (T row col)))
      (fun pm col => if c.nn ≥ 8 then prepBlkG (Array.map enc) c nrows ncols row col (T row col) pm
        else Module.writeAt pm ((col * nrows + row) * c.nn) (Array.map enc (T row col)))
      (fun col hcol => prepCell_agree enc c nrows ncols row col (T row col) (hT row col hrow hcol)))

/-! ### coverage -/

/-- every slot of a block is the slot of some (row, col) -/
theorem qslot_surj (nrows ncols s : Nat) (hs : s < nrows * ncols) :
    ∃ row col, row < nrows ∧ col < ncols ∧ Module.qslot nrows ncols row col = s := by
  have hn : 0 < nrows := by
    rcases Nat.eq_zero_or_pos nrows with e | e
    · subst e; simp at hs
    · exact e
  by_cases hp : s < (ncols / 2) * (2 * nrows)
  · -- inside a column pair
    have h2 : 0 < 2 * nrows := by omega
    have hpp : s / (2 * nrows) < ncols / 2 := (Nat.div_lt_iff_lt_mul h2).2 hp
    have hw : s % (2 * nrows) < 2 * nrows := Nat.mod_lt _ h2
    have hdm : (2 * nrows) * (s / (2 * nrows)) + s % (2 * nrows) = s := Nat.div_add_mod s (2 * nrows)
    refine ⟨s % (2 * nrows) / 2, 2 * (s / (2 * nrows)) + s % (2 * nrows) % 2, by omega, by omega, ?_⟩
    rw [Module.qslot_pair _ _ _ _ (by omega)]
    have e1 : (2 * (s / (2 * nrows)) + s % (2 * nrows) % 2) / 2 = s / (2 * nrows) := by omega
    have e2 : (2 * (s / (2 * nrows)) + s % (2 * nrows) % 2) % 2 = s % (2 * nrows) % 2 := by omega
    rw [e1, e2]
    have e3 : 2 * (s / (2 * nrows) * nrows) = (2 * nrows) * (s / (2 * nrows)) := by ring
    omega
  · -- the lone last column
    have hodd : ncols % 2 = 1 := by
      by_contra q
      have e : ncols = 2 * (ncols / 2) := by omega
      have : nrows * ncols = ncols / 2 * (2 * nrows) := by
        calc nrows * ncols = nrows * (2 * (ncols / 2)) := by rw [← e]
          _ = ncols / 2 * (2 * nrows) := by ring
      omega
    have e : ncols = 2 * (ncols / 2) + 1 := by omega
    have et : nrows * ncols = ncols / 2 * (2 * nrows) + nrows := by
      calc nrows * ncols = nrows * (2 * (ncols / 2) + 1) := by rw [← e]
        _ = ncols / 2 * (2 * nrows) + nrows := by ring
    refine ⟨s - ncols / 2 * (2 * nrows), ncols - 1, by omega, by omega, ?_⟩
    rw [Module.qslot_lone _ _ _ _ (by omega)]
    have e1 : (ncols - 1) / 2 = ncols / 2 := by omega
    rw [e1]
    have e3 : 2 * (ncols / 2 * nrows) = ncols / 2 * (2 * nrows) := by ring
    omega

theorem prep_total (c : Module.Parts α) (nrows ncols : Nat) (hnn : c.nn = 2 * c.m) (hm4 : c.m % 4 = 0) :
    c.nn * nrows * ncols = (c.m / 4) * (nrows * ncols * 8) := by
  have : c.nn = 8 * (c.m / 4) := by omega
  rw [this]; ring

theorem prepS_iff (c : Module.Parts α) (nrows ncols : Nat) (hnn : c.nn = 2 * c.m) (hm4 : 8 ≤ c.nn → c.m % 4 = 0) (x : Nat) :
    prepS c nrows ncols x ↔ x < c.nn * nrows * ncols := by
  unfold prepS prepCell
  by_cases h8 : 8 ≤ c.nn
  · simp only [h8, if_true]
    have htot := prep_total c nrows ncols hnn (hm4 h8)
    constructor
    · rintro ⟨row, hrow, col, hcol, blk, hblk, hx⟩
      have hq := Module.qslot_lt nrows ncols row col hrow hcol
      have hs := mul_step blk (c.m / 4) (nrows * ncols * 8) hblk
      rw [Module.pmatStart_eq] at hx
      unfold In at hx
      omega
    · intro hx
      rw [htot, lt_mul_iff] at hx
      obtain ⟨blk, r, hblk, hr, e⟩ := hx
      rw [lt_mul_iff] at hr
      obtain ⟨s, k, hs, hk, e2⟩ := hr
      obtain ⟨row, col, hrow, hcol, hq⟩ := qslot_surj nrows ncols s hs
      refine ⟨row, hrow, col, hcol, blk, hblk, ?_⟩
      rw [Module.pmatStart_eq, hq]
      unfold In
      omega
  · simp only [h8, if_false]
    have htot : c.nn * nrows * ncols = (ncols * nrows) * c.nn := by ring
    constructor
    · rintro ⟨row, hrow, col, hcol, hx⟩
      have h1 := mul_step col ncols nrows hcol
      have h2 := mul_step (col * nrows + row) (ncols * nrows) c.nn (by omega)
      unfold In at hx
      omega
    · intro hx
      rw [htot, lt_mul_iff] at hx
      obtain ⟨s, j, hs, hj, e⟩ := hx
      rw [lt_mul_iff] at hs
      obtain ⟨col, row, hcol, hrow, e2⟩ := hs
      refine ⟨row, hrow, col, hcol, ?_⟩
      unfold In
      subst e2
      omega

end Spq.ModuleHeap
