/-
  C02 rounding budget, step 1: the accumulating kernels of the vector-matrix product as SCALAR recurrences, for ANY
  arithmetic record (no algebra): what one output complex of
    reim4_vec_mat1col_product_{ref,avx2}, reim4_vec_mat2cols_product_{ref,avx2}
  and of the `nn < 8` path (`reim_fftvec_mul_ref` then `reim_fftvec_addmul_ref`) is, as a function of the row data
  `(a_i + i·b_i)` (vector) and `(c_i + i·d_i)` (matrix column), `i < n`:
    ref  (1col and 2cols):  s ← add s (reRef a b c d)            (s₀ = 0)
    av1  (1col avx2):       sub (Σfma a c) (Σfma b d),  add (Σfma a d) (Σfma b c)
    av2  (2cols avx2):      s ← fms a c (fms b d s),   s ← fma b c (fma a d s)
    sm   (nn < 8):          s₀ = reRef row 0;  s ← add s (reRef row k)
  and the simulation lemma for these recurrences.
-/
import SpqProofs.Lemmas.F64StdSim
namespace Spq.VmpErr
open Spq Spq.Reim4
variable {α : Type}

/-- the four accumulation orders -/
inductive DotK where
  | ref | av1 | av2 | sm
  deriving DecidableEq, Repr

def refRe (ar : RArith α) (a b c d : ℕ → α) : ℕ → α
  | 0 => ar.zero
  | n + 1 => ar.add (refRe ar a b c d n) (reRef ar (a n) (b n) (c n) (d n))
def refIm (ar : RArith α) (a b c d : ℕ → α) : ℕ → α
  | 0 => ar.zero
  | n + 1 => ar.add (refIm ar a b c d n) (imRef ar (a n) (b n) (c n) (d n))
def av2Re (ar : RArith α) (a b c d : ℕ → α) : ℕ → α
  | 0 => ar.zero
  | n + 1 => ar.fms (a n) (c n) (ar.fms (b n) (d n) (av2Re ar a b c d n))
def av2Im (ar : RArith α) (a b c d : ℕ → α) : ℕ → α
  | 0 => ar.zero
  | n + 1 => ar.fma (b n) (c n) (ar.fma (a n) (d n) (av2Im ar a b c d n))
def av1Re (ar : RArith α) (a b c d : ℕ → α) (n : ℕ) : α := ar.sub (fmaChain ar a c n) (fmaChain ar b d n)
def av1Im (ar : RArith α) (a b c d : ℕ → α) (n : ℕ) : α := ar.add (fmaChain ar a d n) (fmaChain ar b c n)
/-- `k + 1` rows -/
def smRe (ar : RArith α) (a b c d : ℕ → α) : ℕ → α
  | 0 => reRef ar (a 0) (b 0) (c 0) (d 0)
  | k + 1 => ar.add (smRe ar a b c d k) (reRef ar (a (k + 1)) (b (k + 1)) (c (k + 1)) (d (k + 1)))
def smIm (ar : RArith α) (a b c d : ℕ → α) : ℕ → α
  | 0 => imRef ar (a 0) (b 0) (c 0) (d 0)
  | k + 1 => ar.add (smIm ar a b c d k) (imRef ar (a (k + 1)) (b (k + 1)) (c (k + 1)) (d (k + 1)))

/-- real part of the dot product of `n` rows, accumulation order `K` (`sm`: `n ≥ 1`) -/
def dotRe (ar : RArith α) (K : DotK) (a b c d : ℕ → α) (n : ℕ) : α :=
  match K with
  | .ref => refRe ar a b c d n
  | .av1 => av1Re ar a b c d n
  | .av2 => av2Re ar a b c d n
  | .sm => smRe ar a b c d (n - 1)
def dotIm (ar : RArith α) (K : DotK) (a b c d : ℕ → α) (n : ℕ) : α :=
  match K with
  | .ref => refIm ar a b c d n
  | .av1 => av1Im ar a b c d n
  | .av2 => av2Im ar a b c d n
  | .sm => smIm ar a b c d (n - 1)

/-! ### the recurrences only look at the rows `i < n` -/

theorem fmaChain_congr (ar : RArith α) (p q p' q' : ℕ → α) (n : ℕ) (hp : ∀ i, i < n → p i = p' i)
    (hq : ∀ i, i < n → q i = q' i) : fmaChain ar p q n = fmaChain ar p' q' n := by
  induction n with
  | zero => rfl
  | succ n ih =>
    rw [fmaChain, fmaChain, ih (fun i hi => hp i (by omega)) (fun i hi => hq i (by omega)), hp n (by omega), hq n (by omega)]

theorem dotRe_congr (ar : RArith α) (K : DotK) (a b c d a' b' c' d' : ℕ → α) (n : ℕ) (hn : K = .sm → 1 ≤ n)
    (ha : ∀ i, i < n → a i = a' i) (hb : ∀ i, i < n → b i = b' i) (hc : ∀ i, i < n → c i = c' i)
    (hd : ∀ i, i < n → d i = d' i) :
    dotRe ar K a b c d n = dotRe ar K a' b' c' d' n ∧ dotIm ar K a b c d n = dotIm ar K a' b' c' d' n := by
  cases K with
  | ref =>
    simp only [dotRe, dotIm]
    clear hn
    induction n with
    | zero => exact ⟨rfl, rfl⟩
    | succ n ih =>
      obtain ⟨i1, i2⟩ := ih (fun i hi => ha i (by omega)) (fun i hi => hb i (by omega))
        (fun i hi => hc i (by omega)) (fun i hi => hd i (by omega))
      rw [refRe, refRe, refIm, refIm, i1, i2, ha n (by omega), hb n (by omega), hc n (by omega), hd n (by omega)]
      exact ⟨rfl, rfl⟩
  | av1 =>
    simp only [dotRe, dotIm, av1Re, av1Im]
    rw [fmaChain_congr ar a c a' c' n ha hc, fmaChain_congr ar b d b' d' n hb hd, fmaChain_congr ar a d a' d' n ha hd,
      fmaChain_congr ar b c b' c' n hb hc]
    exact ⟨rfl, rfl⟩
  | av2 =>
    simp only [dotRe, dotIm]
    clear hn
    induction n with
    | zero => exact ⟨rfl, rfl⟩
    | succ n ih =>
      obtain ⟨i1, i2⟩ := ih (fun i hi => ha i (by omega)) (fun i hi => hb i (by omega))
        (fun i hi => hc i (by omega)) (fun i hi => hd i (by omega))
      rw [av2Re, av2Re, av2Im, av2Im, i1, i2, ha n (by omega), hb n (by omega), hc n (by omega), hd n (by omega)]
      exact ⟨rfl, rfl⟩
  | sm =>
    simp only [dotRe, dotIm]
    have h1 := hn rfl
    obtain ⟨k, rfl⟩ : ∃ k, n = k + 1 := ⟨n - 1, by omega⟩
    simp only [Nat.add_sub_cancel]
    clear hn h1
    induction k with
    | zero =>
      rw [smRe, smRe, smIm, smIm, ha 0 (by omega), hb 0 (by omega), hc 0 (by omega), hd 0 (by omega)]
      exact ⟨rfl, rfl⟩
    | succ k ih =>
      obtain ⟨i1, i2⟩ := ih (fun i hi => ha i (by omega)) (fun i hi => hb i (by omega))
        (fun i hi => hc i (by omega)) (fun i hi => hd i (by omega))
      rw [smRe, smRe, smIm, smIm, i1, i2, ha (k + 1) (by omega), hb (k + 1) (by omega), hc (k + 1) (by omega),
        hd (k + 1) (by omega)]
      exact ⟨rfl, rfl⟩

/-! ### simulation -/

variable {β : Type} {R : α → β → Prop} {ar : RArith α} {br : RArith β}

theorem dot_sim (h : RArith.Sim R ar br) (K : DotK) (a b c d : ℕ → α) (a' b' c' d' : ℕ → β)
    (ha : ∀ i, R (a i) (a' i)) (hb : ∀ i, R (b i) (b' i)) (hc : ∀ i, R (c i) (c' i)) (hd : ∀ i, R (d i) (d' i)) (n : ℕ) :
    R (dotRe ar K a b c d n) (dotRe br K a' b' c' d' n) ∧ R (dotIm ar K a b c d n) (dotIm br K a' b' c' d' n) := by
  cases K with
  | ref =>
    simp only [dotRe, dotIm]
    induction n with
    | zero => exact ⟨h.zero, h.zero⟩
    | succ n ih =>
      exact ⟨h.add ih.1 (reRef_sim h (ha n) (hb n) (hc n) (hd n)), h.add ih.2 (imRef_sim h (ha n) (hb n) (hc n) (hd n))⟩
  | av1 =>
    simp only [dotRe, dotIm, av1Re, av1Im]
    exact ⟨h.sub (fmaChain_sim h _ _ _ _ ha hc n) (fmaChain_sim h _ _ _ _ hb hd n),
      h.add (fmaChain_sim h _ _ _ _ ha hd n) (fmaChain_sim h _ _ _ _ hb hc n)⟩
  | av2 =>
    simp only [dotRe, dotIm]
    induction n with
    | zero => exact ⟨h.zero, h.zero⟩
    | succ n ih =>
      exact ⟨h.fms (ha n) (hc n) (h.fms (hb n) (hd n) ih.1), h.fma (hb n) (hc n) (h.fma (ha n) (hd n) ih.2)⟩
  | sm =>
    simp only [dotRe, dotIm]
    generalize n - 1 = k
    induction k with
    | zero => exact ⟨reRef_sim h (ha 0) (hb 0) (hc 0) (hd 0), imRef_sim h (ha 0) (hb 0) (hc 0) (hd 0)⟩
    | succ k ih =>
      exact ⟨h.add ih.1 (reRef_sim h (ha _) (hb _) (hc _) (hd _)), h.add ih.2 (imRef_sim h (ha _) (hb _) (hc _) (hd _))⟩

end Spq.VmpErr
