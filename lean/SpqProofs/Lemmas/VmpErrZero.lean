/-
  C02 / C01: zero columns and zero rows in BINARY64.  The inverse reim transform of a vector whose cells are all
  (finite, value 0) — `+0` or `−0` — has only such cells (the twiddles may be anything: `0·w` is `±0`, `±0 ± ±0` is
  `±0`), and the final conversion maps them to the integer 0.  Proved by running the structural inverse network on the
  two-point abstraction `true = "finite, value 0"`, `false = "anything"`.
-/
import SpqProofs.Lemmas.VmpErrPipe3
set_option linter.unusedSectionVars false
namespace Spq.VmpErr
open Finset Spq Spq.Module Spq.Fft Spq.Fft.Alg Spq.Fft.RelN Spq.Fft.SimP Spq.Fft.LevelN Spq.Fft.SchedN Spq.Fft.Sim
  Spq.FftErr Spq.F64 Spq.Reim4 Spq.ProdErr Spq.Conv

/-- a finite double of value 0 (`+0` or `−0`) -/
def Z0 (b : ℕ) : Prop := Fin64 b ∧ val b = 0

theorem z0_zero : Z0 0 := ⟨fin64_zero, val_zero⟩

theorem rounds_zero {r : ℕ} (h : RoundsTo r 0) : Z0 r := by
  refine ⟨h.1, ?_⟩
  have := h.2.1 (Or.inl rfl)
  rw [abs_zero, mul_zero, sub_zero] at this
  exact abs_eq_zero.1 (le_antisymm this (abs_nonneg _))

theorem noOvf_zero : NoOvf 0 := NormalRange.noOvf (Or.inl rfl)

/-- the abstraction: `true` = "finite, value 0", `false` = no information -/
def zA : Arith Bool :=
  ⟨fun a b => a && b, fun a b => a && b, fun a b => a || b, fun a => a, fun a b c => (a || b) && c, fun a b c => (a || b) && c⟩

def RlZ (b : ℕ) (z : Bool) : Prop := z = true → Z0 b

theorem mul_zero_of {a b : ℕ} (h : val a = 0 ∨ val b = 0) : val a * val b = 0 := by
  rcases h with h | h <;> rw [h] <;> simp

theorem zsim : ASim RlZ f64 zA where
  add := by
    intro a a' b b' h1 h2 hz
    have hz' : a' = true ∧ b' = true := by simpa [zA] using hz
    obtain ⟨_, va⟩ := h1 hz'.1
    obtain ⟨_, vb⟩ := h2 hz'.2
    have h := add_std a b (by rw [va, vb, add_zero]; exact noOvf_zero)
    rw [va, vb, add_zero, abs_zero, mul_zero, sub_zero] at h
    exact ⟨h.1, abs_eq_zero.1 (le_antisymm h.2 (abs_nonneg _))⟩
  sub := by
    intro a a' b b' h1 h2 hz
    have hz' : a' = true ∧ b' = true := by simpa [zA] using hz
    obtain ⟨_, va⟩ := h1 hz'.1
    obtain ⟨fb, vb⟩ := h2 hz'.2
    have h := sub_std a b fb.1 (by rw [va, vb, sub_zero]; exact noOvf_zero)
    rw [va, vb, sub_zero, abs_zero, mul_zero, sub_zero] at h
    exact ⟨h.1, abs_eq_zero.1 (le_antisymm h.2 (abs_nonneg _))⟩
  mul := by
    intro a a' b b' h1 h2 hz
    have hz' : a' = true ∨ b' = true := by simpa [zA] using hz
    have e : val a * val b = 0 := mul_zero_of (hz'.imp (fun q => (h1 q).2) (fun q => (h2 q).2))
    have h := mul_std a b (by rw [e]; exact noOvf_zero)
    rw [e] at h
    exact rounds_zero h
  neg := by
    intro a a' h1 hz
    obtain ⟨fa, va⟩ := h1 hz
    exact ⟨fin64_neg fa, by show val (F64.neg a) = 0; rw [val_neg fa.1, va, neg_zero]⟩
  fma := by
    intro a a' b b' c c' h1 h2 h3 hz
    have hz' : (a' = true ∨ b' = true) ∧ c' = true := by simpa [zA] using hz
    have e : val a * val b = 0 := mul_zero_of (hz'.1.imp (fun q => (h1 q).2) (fun q => (h2 q).2))
    obtain ⟨_, vc⟩ := h3 hz'.2
    have h := fma_std a b c (by rw [e, vc, add_zero]; exact noOvf_zero)
    rw [e, vc, add_zero] at h
    exact rounds_zero h
  fms := by
    intro a a' b b' c c' h1 h2 h3 hz
    have hz' : (a' = true ∨ b' = true) ∧ c' = true := by simpa [zA] using hz
    have e : val a * val b = 0 := mul_zero_of (hz'.1.imp (fun q => (h1 q).2) (fun q => (h2 q).2))
    obtain ⟨fc, vc⟩ := h3 hz'.2
    have h := fms_std a b c fc.1 (by rw [e, vc, sub_zero]; exact noOvf_zero)
    rw [e, vc, sub_zero] at h
    exact rounds_zero h

/-- on the abstraction every inverse butterfly maps zero pairs to zero pairs, whatever the twiddle -/
theorem zgNet (fma : Bool) (k ℓ d b : ℕ) :
    gNet (ifamOf fma zA) (fun _ => false) (fun _ => false) k ℓ d b (true, true) (true, true) = ((true, true), (true, true)) := by
  unfold gNet ctK citK
  cases fma <;> simp only [ifamOf] <;> split <;> (try split) <;> (try split) <;> rfl

theorem zVNI (fma : Bool) (k : ℕ) : ∀ n p, n ≤ k → p < 2 ^ k →
    VNI k (gNet (ifamOf fma zA) (fun _ => false) (fun _ => false) k) (fun _ => (true, true)) n p = (true, true) := by
  have := VNI_rel_on (γ := Bool × Bool) (δ := Unit) (fun u _ => u = (true, true))
    (gNet (ifamOf fma zA) (fun _ => false) (fun _ => false) k) (fun _ _ _ _ _ => ((), ()))
    (by
      intro ℓ d b u u' v v' hu hv
      subst hu hv
      rw [zgNet]
      exact ⟨rfl, rfl⟩)
    k (fun _ => (true, true)) (fun _ => ()) (fun _ _ => rfl)
  exact this

theorem ifamOf_sim {α β : Type} {Rl : α → β → Prop} {A : Arith α} {B : Arith β} (fma : Bool) (h : ASim Rl A B) :
    FlavSim Rl (ifamOf fma A) (ifamOf fma B) := by
  cases fma
  · exact invRef_sim h
  · exact invFma_sim h

/-- **the inverse transform of `±0` cells consists of `±0` cells** (any twiddle table of the standard layout) -/
theorem ifft_zero (fma : Bool) (k : ℕ) (cNi sNi : ℕ → ℕ) (d : Array ℕ) (hd : d.size = 2 * 2 ^ k)
    (hz : ∀ p, p < 2 * 2 ^ k → Z0 d[p]!) :
    ∀ p, p < 2 * 2 ^ k → Z0 (reimIfft (if fma then "fma" else "ref") (2 ^ k) (tabI k cNi sNi) d)[p]! := by
  have hv := splitRI_validN (2 ^ k) d hd
  obtain ⟨st1, vo1⟩ := ifftRI_struct (ifamOf fma f64) cNi sNi k (splitRI (2 ^ k) d) hv
  have in1 : ∀ p, p < 2 ^ k → prs (splitRI (2 ^ k) d) p = (d[p]!, d[2 ^ k + p]!) := by
    intro p hp
    show ((splitRI (2 ^ k) d).re[p]!, (splitRI (2 ^ k) d).im[p]!) = _
    rw [splitRI_reN _ _ hd p hp, splitRI_imN _ _ hd p hp]
  have r := fun j (hj : j < 2 ^ k) => VNI_rel_on (R2 RlZ) _ _
    (fun ℓ dd b u u' v v' hu hv => gNet_sim (ifamOf_sim fma zsim) cNi sNi (fun _ => false) (fun _ => false)
      (fun _ h => by cases h) (fun _ h => by cases h) k ℓ dd b hu hv) k (prs (splitRI (2 ^ k) d)) (fun _ => (true, true))
    (fun p hp => by rw [in1 p hp]; exact ⟨fun _ => hz p (by omega), fun _ => hz (2 ^ k + p) (by omega)⟩) k j (le_refl k) hj
  rw [reimIfft_eq]
  unfold reimIfftA tabI
  intro p hp
  by_cases hlt : p < 2 ^ k
  · have := r p hlt
    rw [zVNI fma k k p (le_refl k) hlt, ← st1 p hlt] at this
    rw [joinRI_reN _ _ vo1 p hlt]
    exact this.1 rfl
  · obtain ⟨j, rfl⟩ : ∃ j, p = 2 ^ k + j := ⟨p - 2 ^ k, by omega⟩
    have hj : j < 2 ^ k := by omega
    have := r j hj
    rw [zVNI fma k k j (le_refl k) hj, ← st1 j hj] at this
    rw [joinRI_imN _ _ vo1 j hj]
    exact this.2 rfl

/-- the final conversion of `±0` cells is the integer 0 -/
theorem toZnx_zero (c : Cfg) (k : ℕ) (hk : k ≤ 961) (hnn : c.nn = 2 * 2 ^ k) (hv : c.toVariant ≠ .ref → 1 ≤ k)
    (d : Array ℕ) (hz : ∀ p, p < 2 * 2 ^ k → Z0 d[p]!) :
    (Cfg.parts c).toZnx d = Array.replicate (2 * 2 ^ k) 0 := by
  apply array_eq_of_cells (2 * 2 ^ k)
  · exact toZnx_size c k hnn hv d
  · simp
  · intro i hi
    obtain ⟨f, v0⟩ := hz i hi
    rw [getElem!_nat] at f v0
    have hB : (0 : ℚ) < Bv c.toVariant * 2 ^ k := by
      have := Bv_ge c.toVariant
      positivity
    obtain ⟨r, hr1, hr2⟩ := toZnx_spec c k hk hnn hv d i hi f.1 (by rw [v0, abs_zero]; exact hB)
    refine ⟨r, hr1, ?_⟩
    rw [v0, sub_zero] at hr2
    have hP : (0 : ℚ) < 2 ^ k := by positivity
    have h1 : |(r : ℚ)| * 2 ^ k ≤ 1 / 2 * 2 ^ k := by
      rw [← abs_of_pos hP, ← abs_mul, abs_of_pos hP]; linarith
    have h2 : |(r : ℚ)| ≤ 1 / 2 := le_of_mul_le_mul_right h1 hP
    have h3 : |(r : ℚ) - ((0 : ℤ) : ℚ)| < 1 := by rw [Int.cast_zero, sub_zero]; linarith
    have := int_eq_of_lt_one (K := ℚ) r 0 h3
    rw [this]
    exact (getD_replicate_z (0 : ℤ) _ i).symm

/-- a DFT-space column of `+0` patterns is converted to the zero polynomial -/
theorem zero_col_out (c : Cfg) (k : ℕ) (hk : k ≤ 961) (cN sN cNi sNi : ℕ → ℕ) (h : CfgOk c k cN sN cNi sNi)
    (d : Array ℕ) (hd : d.size = 2 * 2 ^ k) (hz : ∀ p, p < 2 * 2 ^ k → d.getD p 0 = 0) :
    (Cfg.parts c).toZnx ((Cfg.parts c).ifft d) = Array.replicate (2 * 2 ^ k) 0 := by
  rw [parts_ifft c k cN sN cNi sNi h]
  apply toZnx_zero c k hk h.nn h.toVar
  apply ifft_zero c.ifftFma k cNi sNi d hd
  intro p hp
  rw [getElem!_nat, hz p hp]
  exact z0_zero

end Spq.VmpErr
