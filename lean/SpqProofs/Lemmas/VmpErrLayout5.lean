/-
  C02 rounding budget, step 6 (`vmp_layout_f64`, part 5): both prepared layouts together, for an ARBITRARY arithmetic
  record: `vmp_layout_g`.
-/
import SpqProofs.Lemmas.VmpErrLayout4
namespace Spq.VmpErr
open Spq Spq.Module Spq.Reim4
variable {α : Type}

/-- which accumulation order computes output column `j` -/
def colKind (c : Parts α) (ncols rsz j : ℕ) : DotK := if 8 ≤ c.nn then colKind8 c ncols rsz j else .sm

/-- **layout of `vmpPrepare` / `vmpApplyDftToDft` for any arithmetic record** (no ring laws; the FFT / conversion of
    the module are only used through `matDft`): both prepared layouts, both dispatch flavours, every shape.
    Cell `t` / `t + m` of output column `j < min ncols rsz` is the accumulation recurrence `colRe / colIm` (order
    `colKind`) over the rows `i < min nrows asz` of `adft_i[t]` and `fft(M[i][j])[t]`; the columns from
    `min ncols rsz` on are `zero`; for `nn < 8` without usable row everything is `zero`. -/
theorem vmp_layout_g (c : Parts α) (hnn : c.nn = 2 * c.m) (hblk : 8 ≤ c.nn → c.m % 4 = 0)
    (hsm : c.nn < 8 → c.mulFma = false ∧ c.addmulFma = false) (mat : Array Int) (nrows ncols rsz asz : ℕ)
    (adft : Array α)
    (hT : c.nn < 8 → ∀ row col, row < nrows → col < ncols → (matDft c mat ncols row col).size = c.nn) :
    (vmpApplyDftToDft c rsz adft asz (vmpPrepare c mat nrows ncols) nrows ncols).size = rsz * c.nn ∧
    (∀ j t, j < min ncols rsz → t < c.m → (c.nn < 8 → 0 < min nrows asz) →
      (vmpApplyDftToDft c rsz adft asz (vmpPrepare c mat nrows ncols) nrows ncols).getD (j * c.nn + t) c.ar.zero =
        colRe c (colKind c ncols rsz j) adft mat ncols (min nrows asz) j t ∧
      (vmpApplyDftToDft c rsz adft asz (vmpPrepare c mat nrows ncols) nrows ncols).getD (j * c.nn + t + c.m) c.ar.zero =
        colIm c (colKind c ncols rsz j) adft mat ncols (min nrows asz) j t) ∧
    (∀ j x, min ncols rsz ≤ j →
      (vmpApplyDftToDft c rsz adft asz (vmpPrepare c mat nrows ncols) nrows ncols).getD (j * c.nn + x) c.ar.zero = c.ar.zero) ∧
    (c.nn < 8 → min nrows asz = 0 → ∀ x,
      (vmpApplyDftToDft c rsz adft asz (vmpPrepare c mat nrows ncols) nrows ncols).getD x c.ar.zero = c.ar.zero) := by
  by_cases h8 : 8 ≤ c.nn
  · have hm4 := hblk h8
    obtain ⟨s1, s2, s3⟩ := vmpApply_blk_inv_g c hnn hm4 h8 mat nrows ncols rsz asz adft
    have hk : ∀ j, colKind c ncols rsz j = colKind8 c ncols rsz j := fun j => by unfold colKind; rw [if_pos h8]
    refine ⟨s1, ?_, ?_, fun h => by omega⟩
    · intro j t hj ht _
      obtain ⟨a, b⟩ := s2 j (t / 4) (t % 4) hj (by omega) (by omega) trivial
      have e1 : j * c.nn + 4 * (t / 4) + t % 4 = j * c.nn + t := by omega
      have e2 : j * c.nn + c.m + 4 * (t / 4) + t % 4 = j * c.nn + t + c.m := by omega
      have e3 : 4 * (t / 4) + t % 4 = t := by omega
      rw [e1, e3] at a
      rw [e2, e3] at b
      rw [hk]
      exact ⟨a, b⟩
    · intro j x hj
      have : min ncols rsz * c.nn ≤ j * c.nn := Nat.mul_le_mul_right _ hj
      exact s3 _ (by omega)
  · have h8' : c.nn < 8 := by omega
    obtain ⟨hmf, haf⟩ := hsm h8'
    have hk : ∀ j, colKind c ncols rsz j = .sm := fun j => by unfold colKind; rw [if_neg h8]
    by_cases h0 : 0 < min nrows asz
    · obtain ⟨s1, s2, s3⟩ := vmpApply_small_inv_g c hnn hmf haf h8' mat nrows ncols rsz asz (hT h8') adft h0
      refine ⟨s1, ?_, ?_, fun _ hz => by omega⟩
      · intro j t hj ht _
        rw [hk]
        exact s2 j t hj ht
      · intro j x hj
        have : min ncols rsz * c.nn ≤ j * c.nn := Nat.mul_le_mul_right _ hj
        exact s3 _ (by omega)
    · have hz : min nrows asz = 0 := by omega
      have e := vmpApply_small_zero_g c h8' rsz asz adft (vmpPrepare c mat nrows ncols) nrows ncols hz
      rw [e]
      refine ⟨by simp, ?_, fun j x _ => getD_replicate_z _ _ _, fun _ _ x => getD_replicate_z _ _ _⟩
      intro j t _ _ hpos
      exact absurd (hpos h8') h0

end Spq.VmpErr
