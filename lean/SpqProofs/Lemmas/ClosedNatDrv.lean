/-
  Naturality of the drivers of the reim FFT / iFFT (`bfs16`, `rec16`, `fftRI`, … of `Spq/Fft/Reim.lean`) and of
  the API on flat vectors:  `(reimFftA F m T d).map f = reimFftA F' m (T.map f) (d.map f)`.
-/
import SpqProofs.Lemmas.ClosedNatNet
set_option linter.unusedSectionVars false
set_option linter.unusedVariables false
namespace Spq.Closed
open Spq.Fft

variable {A B : Type} [Inhabited A] [Inhabited B]

/-- the state of the drivers: split storage and the table pointer -/
def mapSt (f : A → B) (st : RI A × Nat) : RI B × Nat := (mapRI f st.1, st.2)

@[simp] theorem mapSt_fst (f : A → B) (st : RI A × Nat) : (mapSt f st).1 = mapRI f st.1 := rfl
@[simp] theorem mapSt_snd (f : A → B) (st : RI A × Nat) : (mapSt f st).2 = st.2 := rfl
theorem mapSt_mk (f : A → B) (s : RI A) (t : Nat) : mapSt f (s, t) = (mapRI f s, t) := rfl

section
variable {f : A → B} (hf : f default = default) {F : Flav A} {F' : Flav B} (hF : FlavNat f F F')
include hf hF

theorem bfsLevels_nat (T : Array A) (m off : Nat) : ∀ (fuel mm : Nat) (st : RI A × Nat),
    mapSt f (bfsLevels F T m off fuel mm st) = bfsLevels F' (T.map f) m off fuel mm (mapSt f st)
  | 0, _, _ => rfl
  | fuel + 1, mm, st => by
    unfold bfsLevels
    split
    · rw [bfsLevels_nat T m off fuel]
      congr 1
      apply iterFrom_congr (mapSt f) _ _ _ _ _ rfl
      intro b s s' hs
      subst hs
      simp only [mapSt, bitwiddle_nat hf hF]
    · rfl

theorem iter16_nat (T : Array A) (off cnt : Nat) (st : RI A × Nat) :
    mapSt f (iterFrom (fun b (st : RI A × Nat) => (fft16 F T st.2 (off + 16 * b) st.1, st.2 + 16)) cnt 0 st) =
      iterFrom (fun b (st : RI B × Nat) => (fft16 F' (T.map f) st.2 (off + 16 * b) st.1, st.2 + 16)) cnt 0
        (mapSt f st) := by
  apply iterFrom_congr (mapSt f) _ _ _ _ _ rfl
  intro b s s' hs
  subst hs
  simp only [mapSt, fft16_nat hf hF]

theorem bfs16_nat (T : Array A) (m off : Nat) (st : RI A × Nat) :
    mapSt f (bfs16 F T m off st) = bfs16 F' (T.map f) m off (mapSt f st) := by
  unfold bfs16
  dsimp only
  rw [iter16_nat hf hF]
  congr 1
  split
  · dsimp only
    rw [bfsLevels_nat hf hF]
    simp only [mapSt, twPass_nat hf hF (fun F => F.ct) (fun F => F.ct) hF.ct, getElem!_map f hf]
  · dsimp only
    rw [bfsLevels_nat hf hF]

theorem rec16_nat (T : Array A) : ∀ (fuel m off : Nat) (st : RI A × Nat),
    mapSt f (rec16 F T fuel m off st) = rec16 F' (T.map f) fuel m off (mapSt f st)
  | 0, m, off, st => by unfold rec16; exact bfs16_nat hf hF T m off st
  | fuel + 1, m, off, st => by
    unfold rec16
    split
    · exact bfs16_nat hf hF T m off st
    · dsimp only
      rw [rec16_nat T fuel, rec16_nat T fuel]
      congr 2
      simp only [mapSt, twPass_nat hf hF (fun F => F.ct) (fun F => F.ct) hF.ct, getElem!_map f hf]

theorem fftRI_nat (m : Nat) (T : Array A) (s : RI A) :
    mapRI f (fftRI F m T s) = fftRI F' m (T.map f) (mapRI f s) := by
  unfold fftRI
  split
  · rfl
  split
  · exact fft2_nat hf hF T 0 0 s
  split
  · exact fft4_nat hf hF T 0 0 s
  split
  · exact fft8_nat hf hF T 0 0 s
  split
  · exact fft16_nat hf hF T 0 0 s
  split
  · exact congrArg Prod.fst (bfs16_nat hf hF T m 0 (s, 0))
  · exact congrArg Prod.fst (rec16_nat hf hF T m m 0 (s, 0))

/-! ### inverse -/

theorem ibfsLevels_nat (T : Array A) (m off : Nat) : ∀ (fuel h : Nat) (st : RI A × Nat),
    (mapRI f (ibfsLevels F T m off fuel h st).1, (ibfsLevels F T m off fuel h st).2) =
      ibfsLevels F' (T.map f) m off fuel h (mapSt f st)
  | 0, _, _ => rfl
  | fuel + 1, h, st => by
    unfold ibfsLevels
    split
    · rw [ibfsLevels_nat T m off fuel]
      congr 1
      apply iterFrom_congr (mapSt f) _ _ _ _ _ rfl
      intro b s s' hs
      subst hs
      simp only [mapSt, invbitwiddle_nat hf hF]
    · rfl

theorem iiter16_nat (T : Array A) (off cnt : Nat) (st : RI A × Nat) :
    mapSt f (iterFrom (fun b (st : RI A × Nat) => (ifft16 F T st.2 (off + 16 * b) st.1, st.2 + 16)) cnt 0 st) =
      iterFrom (fun b (st : RI B × Nat) => (ifft16 F' (T.map f) st.2 (off + 16 * b) st.1, st.2 + 16)) cnt 0
        (mapSt f st) := by
  apply iterFrom_congr (mapSt f) _ _ _ _ _ rfl
  intro b s s' hs
  subst hs
  simp only [mapSt, ifft16_nat hf hF]

theorem ibfs16_nat (T : Array A) (m off : Nat) (st : RI A × Nat) :
    mapSt f (ibfs16 F T m off st) = ibfs16 F' (T.map f) m off (mapSt f st) := by
  unfold ibfs16
  dsimp only
  rw [← iiter16_nat hf hF, ← ibfsLevels_nat hf hF]
  split
  · simp only [mapSt, twPass_nat hf hF (fun F => F.ct) (fun F => F.ct) hF.ct, getElem!_map f hf]
  · rfl

theorem irec16_nat (T : Array A) : ∀ (fuel m off : Nat) (st : RI A × Nat),
    mapSt f (irec16 F T fuel m off st) = irec16 F' (T.map f) fuel m off (mapSt f st)
  | 0, m, off, st => by unfold irec16; exact ibfs16_nat hf hF T m off st
  | fuel + 1, m, off, st => by
    unfold irec16
    split
    · exact ibfs16_nat hf hF T m off st
    · dsimp only
      rw [← irec16_nat T fuel, ← irec16_nat T fuel]
      simp only [mapSt, twPass_nat hf hF (fun F => F.ct) (fun F => F.ct) hF.ct, getElem!_map f hf]

theorem ifftRI_nat (m : Nat) (T : Array A) (s : RI A) :
    mapRI f (ifftRI F m T s) = ifftRI F' m (T.map f) (mapRI f s) := by
  unfold ifftRI
  split
  · rfl
  split
  · exact ifft2_nat hf hF T 0 0 s
  split
  · exact ifft4_nat hf hF T 0 0 s
  split
  · exact ifft8_nat hf hF T 0 0 s
  split
  · exact ifft16_nat hf hF T 0 0 s
  split
  · exact congrArg Prod.fst (ibfs16_nat hf hF T m 0 (s, 0))
  · exact congrArg Prod.fst (irec16_nat hf hF T m m 0 (s, 0))

/-! ### the API on flat vectors -/

omit hf hF in
theorem splitRI_nat (m : Nat) (d : Array A) : mapRI f (splitRI m d) = splitRI m (d.map f) := by
  simp [mapRI, splitRI]

omit hf hF in
theorem joinRI_nat (s : RI A) : (joinRI s).map f = joinRI (mapRI f s) := by
  simp [mapRI, joinRI]

/-- **naturality of `reim_fft`** -/
theorem reimFftA_nat (m : Nat) (T d : Array A) :
    (reimFftA F m T d).map f = reimFftA F' m (T.map f) (d.map f) := by
  unfold reimFftA
  rw [joinRI_nat, fftRI_nat hf hF, splitRI_nat]

/-- **naturality of `reim_ifft`** -/
theorem reimIfftA_nat (m : Nat) (T d : Array A) :
    (reimIfftA F m T d).map f = reimIfftA F' m (T.map f) (d.map f) := by
  unfold reimIfftA
  rw [joinRI_nat, ifftRI_nat hf hF, splitRI_nat]

end
end Spq.Closed
