/-
  C02 rounding budget, step 4: every accumulation order of `VmpErrDot.lean` is a perturbed sum under the standard
  model `StdModel ar u`:  real part `Σ (a_i c_i − b_i d_i)`, magnitudes `|a_i c_i| + |b_i d_i|`,
  imaginary part `Σ (a_i d_i + b_i c_i)`, magnitudes `|a_i d_i| + |b_i c_i|`, with
    ref: G = (1+u)^(n+2),  av1: (1+u)^(n+1),  av2: (1+u)^(2n),  sm: (1+u)^(n+1);   uniformly `(1+u)^(2n+2)`.
-/
import SpqProofs.Lemmas.VmpErrPSum
set_option linter.unusedSectionVars false
namespace Spq.VmpErr
open Finset Spq Spq.Reim4
variable {K : Type} [Field K] [LinearOrder K] [IsStrictOrderedRing K]

def xRe (a b c d : ℕ → K) : ℕ → K := fun i => a i * c i - b i * d i
def mRe (a b c d : ℕ → K) : ℕ → K := fun i => |a i * c i| + |b i * d i|
def xIm (a b c d : ℕ → K) : ℕ → K := fun i => a i * d i + b i * c i
def mIm (a b c d : ℕ → K) : ℕ → K := fun i => |a i * d i| + |b i * c i|

theorem xRe_le (a b c d : ℕ → K) (i : ℕ) : |xRe a b c d i| ≤ mRe a b c d i := by
  unfold xRe mRe
  calc |a i * c i - b i * d i| = |a i * c i + -(b i * d i)| := by rw [sub_eq_add_neg]
    _ ≤ |a i * c i| + |-(b i * d i)| := abs_add_le _ _
    _ = _ := by rw [abs_neg]
theorem xIm_le (a b c d : ℕ → K) (i : ℕ) : |xIm a b c d i| ≤ mIm a b c d i := abs_add_le _ _
theorem mRe_nonneg (a b c d : ℕ → K) (i : ℕ) : 0 ≤ mRe a b c d i := by unfold mRe; positivity
theorem mIm_nonneg (a b c d : ℕ → K) (i : ℕ) : 0 ≤ mIm a b c d i := by unfold mIm; positivity

theorem one_le_opow {u : K} (hu : 0 ≤ u) (e : ℕ) : (1 : K) ≤ (1 + u) ^ e := one_le_pow₀ (by linarith)
theorem opow_mono {u : K} (hu : 0 ≤ u) {e e' : ℕ} (h : e ≤ e') : (1 + u) ^ e ≤ (1 + u) ^ e' :=
  pow_le_pow_right₀ (by linarith) h

/-- two fused steps: `s₂ = ((s + Q)(1+δ₁) ... )`, the shape of the 2-column AVX2 kernel -/
theorem PSum.step2 {n : ℕ} {x m : ℕ → K} {G s u δ1 δ2 P Q : K} (h : PSum n x m G s) (hx : ∀ i, i < n → |x i| ≤ m i)
    (hG : 1 ≤ G) (h1 : |δ1| ≤ u) (h2 : |δ2| ≤ u) (hxn : x n = P + Q) (hmn : m n = |P| + |Q|) :
    PSum (n + 1) x m (G * (1 + u) * (1 + u)) ((s + Q) * (1 + δ1) * (1 + δ2) + P * (1 + δ2)) := by
  have hu : 0 ≤ u := le_trans (abs_nonneg _) h1
  have hG1 : 1 ≤ G * (1 + u) := by nlinarith
  have hs := (h.scale hx hG h1).scale hx hG1 h2
  have he : |Q * ((1 + δ1) * (1 + δ2) - 1) + P * δ2| ≤ (G * (1 + u) * (1 + u) - 1) * m n := by
    have a1 : |(1 + δ1) * (1 + δ2) - 1| ≤ (1 + u) * (1 + u) - 1 := by
      have : (1 + δ1) * (1 + δ2) - 1 = δ1 + δ2 + δ1 * δ2 := by ring
      rw [this]
      calc |δ1 + δ2 + δ1 * δ2| ≤ |δ1 + δ2| + |δ1 * δ2| := abs_add_le _ _
        _ ≤ |δ1| + |δ2| + |δ1| * |δ2| := by rw [abs_mul]; linarith [abs_add_le δ1 δ2]
        _ ≤ u + u + u * u := by
          have := mul_le_mul h1 h2 (abs_nonneg _) hu
          linarith
        _ = _ := by ring
    have a2 : |Q * ((1 + δ1) * (1 + δ2) - 1)| ≤ |Q| * ((1 + u) * (1 + u) - 1) := by
      rw [abs_mul]; exact mul_le_mul_of_nonneg_left a1 (abs_nonneg _)
    have a3 : |P * δ2| ≤ |P| * u := by rw [abs_mul]; exact mul_le_mul_of_nonneg_left h2 (abs_nonneg _)
    have a4 : |P| * u ≤ |P| * ((1 + u) * (1 + u) - 1) := mul_le_mul_of_nonneg_left (by nlinarith) (abs_nonneg _)
    have a5 : ((1 + u) * (1 + u) - 1) * (|P| + |Q|) ≤ (G * (1 + u) * (1 + u) - 1) * (|P| + |Q|) :=
      mul_le_mul_of_nonneg_right (by nlinarith [mul_nonneg hu hu]) (by positivity)
    rw [hmn]
    calc |Q * ((1 + δ1) * (1 + δ2) - 1) + P * δ2| ≤ |Q * ((1 + δ1) * (1 + δ2) - 1)| + |P * δ2| := abs_add_le _ _
      _ ≤ ((1 + u) * (1 + u) - 1) * (|P| + |Q|) := by nlinarith
      _ ≤ _ := a5
  have := hs.snoc he
  have e : s * (1 + δ1) * (1 + δ2) + (x n + (Q * ((1 + δ1) * (1 + δ2) - 1) + P * δ2)) =
      (s + Q) * (1 + δ1) * (1 + δ2) + P * (1 + δ2) := by rw [hxn]; ring
  rw [e] at this
  exact this

variable (ar : RArith K) (u : K) (sm : StdModel ar u) (a b c d : ℕ → K)
include sm

theorem ref_psum (n : ℕ) :
    PSum n (xRe a b c d) (mRe a b c d) ((1 + u) ^ (n + 2)) (refRe ar a b c d n) ∧
    PSum n (xIm a b c d) (mIm a b c d) ((1 + u) ^ (n + 2)) (refIm ar a b c d n) := by
  have hu := sm.u_nonneg
  induction n with
  | zero => rw [refRe, refIm, sm.zero]; exact ⟨PSum.zero _ _ _, PSum.zero _ _ _⟩
  | succ n ih =>
    have hp : (1 + u) ^ (n + 1 + 2) = (1 + u) ^ (n + 2) * (1 + u) := pow_succ _ _
    rw [hp, refRe, refIm]
    exact ⟨ih.1.step (fun i _ => xRe_le a b c d i) hu (one_le_opow hu _) (opow_mono hu (by omega))
        (reRef_err ar u sm (a n) (b n) (c n) (d n)).1 (sm.add _ _),
      ih.2.step (fun i _ => xIm_le a b c d i) hu (one_le_opow hu _) (opow_mono hu (by omega))
        (imRef_err ar u sm (a n) (b n) (c n) (d n)).1 (sm.add _ _)⟩

theorem sm_psum (k : ℕ) :
    PSum (k + 1) (xRe a b c d) (mRe a b c d) ((1 + u) ^ (k + 2)) (smRe ar a b c d k) ∧
    PSum (k + 1) (xIm a b c d) (mIm a b c d) ((1 + u) ^ (k + 2)) (smIm ar a b c d k) := by
  have hu := sm.u_nonneg
  induction k with
  | zero =>
    rw [smRe, smIm]
    have r := (PSum.zero (xRe a b c d) (mRe a b c d) ((1 + u) ^ (0 + 2))).snoc
      (e := reRef ar (a 0) (b 0) (c 0) (d 0) - xRe a b c d 0) (reRef_err ar u sm (a 0) (b 0) (c 0) (d 0)).1
    have i := (PSum.zero (xIm a b c d) (mIm a b c d) ((1 + u) ^ (0 + 2))).snoc
      (e := imRef ar (a 0) (b 0) (c 0) (d 0) - xIm a b c d 0) (imRef_err ar u sm (a 0) (b 0) (c 0) (d 0)).1
    rw [show (0 : K) + (xRe a b c d 0 + (reRef ar (a 0) (b 0) (c 0) (d 0) - xRe a b c d 0)) =
      reRef ar (a 0) (b 0) (c 0) (d 0) by ring] at r
    rw [show (0 : K) + (xIm a b c d 0 + (imRef ar (a 0) (b 0) (c 0) (d 0) - xIm a b c d 0)) =
      imRef ar (a 0) (b 0) (c 0) (d 0) by ring] at i
    exact ⟨r, i⟩
  | succ k ih =>
    have hp : (1 + u) ^ (k + 1 + 2) = (1 + u) ^ (k + 2) * (1 + u) := pow_succ _ _
    rw [hp, smRe, smIm]
    exact ⟨ih.1.step (fun i _ => xRe_le a b c d i) hu (one_le_opow hu _) (opow_mono hu (by omega))
        (reRef_err ar u sm (a (k + 1)) (b (k + 1)) (c (k + 1)) (d (k + 1))).1 (sm.add _ _),
      ih.2.step (fun i _ => xIm_le a b c d i) hu (one_le_opow hu _) (opow_mono hu (by omega))
        (imRef_err ar u sm (a (k + 1)) (b (k + 1)) (c (k + 1)) (d (k + 1))).1 (sm.add _ _)⟩

theorem chain_psum (p q : ℕ → K) (n : ℕ) :
    PSum n (fun i => p i * q i) (fun i => |p i * q i|) ((1 + u) ^ n) (fmaChain ar p q n) := by
  have hu := sm.u_nonneg
  induction n with
  | zero => rw [fmaChain, sm.zero]; exact PSum.zero _ _ _
  | succ n ih =>
    rw [pow_succ, fmaChain]
    refine ih.step (G' := 1) (t := p n * q n) (fun i _ => le_refl _) hu (one_le_opow hu _) (one_le_opow hu _)
      (by simp) ?_
    have := sm.fma (p n) (q n) (fmaChain ar p q n)
    rw [add_comm (fmaChain ar p q n)]
    exact this

theorem av1_psum (n : ℕ) :
    PSum n (xRe a b c d) (mRe a b c d) ((1 + u) ^ (n + 1)) (av1Re ar a b c d n) ∧
    PSum n (xIm a b c d) (mIm a b c d) ((1 + u) ^ (n + 1)) (av1Im ar a b c d n) := by
  have hu := sm.u_nonneg
  constructor
  · obtain ⟨δ, hδ, he⟩ := rel_factor hu (sm.sub (fmaChain ar a c n) (fmaChain ar b d n))
    have h := ((chain_psum ar u sm a c n).addsg (chain_psum ar u sm b d n) (sg := -1) (Or.inr rfl)).scale
      (fun i _ => by
        have := xRe_le a b c d i
        unfold xRe mRe at this
        simpa [sub_eq_add_neg] using this) (one_le_opow hu _) hδ
    rw [pow_succ]
    unfold av1Re
    rw [he, sub_eq_add_neg, ← neg_one_mul (fmaChain ar b d n)]
    have ex : (fun i => a i * c i + -1 * (b i * d i)) = xRe a b c d := by
      funext i; unfold xRe; ring
    rw [ex] at h
    exact h
  · obtain ⟨δ, hδ, he⟩ := rel_factor hu (sm.add (fmaChain ar a d n) (fmaChain ar b c n))
    have h := ((chain_psum ar u sm a d n).addsg (chain_psum ar u sm b c n) (sg := 1) (Or.inl rfl)).scale
      (fun i _ => by
        have := xIm_le a b c d i
        unfold xIm mIm at this
        simpa using this) (one_le_opow hu _) hδ
    rw [pow_succ]
    unfold av1Im
    rw [he]
    have ex : (fun i => a i * d i + 1 * (b i * c i)) = xIm a b c d := by
      funext i; unfold xIm; ring
    rw [ex, one_mul] at h
    exact h

theorem av2_psum (n : ℕ) :
    PSum n (xRe a b c d) (mRe a b c d) ((1 + u) ^ (2 * n)) (av2Re ar a b c d n) ∧
    PSum n (xIm a b c d) (mIm a b c d) ((1 + u) ^ (2 * n)) (av2Im ar a b c d n) := by
  have hu := sm.u_nonneg
  induction n with
  | zero => rw [av2Re, av2Im, sm.zero]; exact ⟨PSum.zero _ _ _, PSum.zero _ _ _⟩
  | succ n ih =>
    have hp : (1 + u) ^ (2 * (n + 1)) = (1 + u) ^ (2 * n) * (1 + u) * (1 + u) := by
      rw [show 2 * (n + 1) = 2 * n + 1 + 1 by ring, pow_succ, pow_succ]
    rw [hp, av2Re, av2Im]
    constructor
    · obtain ⟨δ1, h1, e1⟩ := rel_factor hu (sm.fms (b n) (d n) (av2Re ar a b c d n))
      obtain ⟨δ2, h2, e2⟩ := rel_factor hu (sm.fms (a n) (c n) (ar.fms (b n) (d n) (av2Re ar a b c d n)))
      have := ih.1.step2 (P := a n * c n) (Q := -(b n * d n)) (fun i _ => xRe_le a b c d i) (one_le_opow hu _) h1 h2
        (by unfold xRe; ring) (by unfold mRe; rw [abs_neg])
      rw [e2, e1]
      have ex : (a n * c n - (b n * d n - av2Re ar a b c d n) * (1 + δ1)) * (1 + δ2) =
          (av2Re ar a b c d n + -(b n * d n)) * (1 + δ1) * (1 + δ2) + a n * c n * (1 + δ2) := by ring
      rw [ex]
      exact this
    · obtain ⟨δ1, h1, e1⟩ := rel_factor hu (sm.fma (a n) (d n) (av2Im ar a b c d n))
      obtain ⟨δ2, h2, e2⟩ := rel_factor hu (sm.fma (b n) (c n) (ar.fma (a n) (d n) (av2Im ar a b c d n)))
      have := ih.2.step2 (P := b n * c n) (Q := a n * d n) (fun i _ => xIm_le a b c d i) (one_le_opow hu _) h1 h2
        (by unfold xIm; ring) (by unfold mIm; ring)
      rw [e2, e1]
      have ex : (b n * c n + (a n * d n + av2Im ar a b c d n) * (1 + δ1)) * (1 + δ2) =
          (av2Im ar a b c d n + a n * d n) * (1 + δ1) * (1 + δ2) + b n * c n * (1 + δ2) := by ring
      rw [ex]
      exact this

/-- **all accumulation orders**, uniform constant `(1+u)^(2n+2)` -/
theorem dot_psum (Kd : DotK) (n : ℕ) (hn : Kd = .sm → 1 ≤ n) :
    PSum n (xRe a b c d) (mRe a b c d) ((1 + u) ^ (2 * n + 2)) (dotRe ar Kd a b c d n) ∧
    PSum n (xIm a b c d) (mIm a b c d) ((1 + u) ^ (2 * n + 2)) (dotIm ar Kd a b c d n) := by
  have hu := sm.u_nonneg
  cases Kd with
  | ref =>
    obtain ⟨h1, h2⟩ := ref_psum ar u sm a b c d n
    exact ⟨h1.mono (fun i _ => mRe_nonneg a b c d i) (opow_mono hu (by omega)),
      h2.mono (fun i _ => mIm_nonneg a b c d i) (opow_mono hu (by omega))⟩
  | av1 =>
    obtain ⟨h1, h2⟩ := av1_psum ar u sm a b c d n
    exact ⟨h1.mono (fun i _ => mRe_nonneg a b c d i) (opow_mono hu (by omega)),
      h2.mono (fun i _ => mIm_nonneg a b c d i) (opow_mono hu (by omega))⟩
  | av2 =>
    obtain ⟨h1, h2⟩ := av2_psum ar u sm a b c d n
    exact ⟨h1.mono (fun i _ => mRe_nonneg a b c d i) (opow_mono hu (by omega)),
      h2.mono (fun i _ => mIm_nonneg a b c d i) (opow_mono hu (by omega))⟩
  | sm =>
    have h1n := hn rfl
    obtain ⟨k, rfl⟩ : ∃ k, n = k + 1 := ⟨n - 1, by omega⟩
    obtain ⟨h1, h2⟩ := sm_psum ar u sm a b c d k
    simp only [dotRe, dotIm, Nat.add_sub_cancel]
    exact ⟨h1.mono (fun i _ => mRe_nonneg a b c d i) (opow_mono hu (by omega)),
      h2.mono (fun i _ => mIm_nonneg a b c d i) (opow_mono hu (by omega))⟩

end Spq.VmpErr
