/-
  C06.4, structural schedule theorem (forward cplx), part 3: the `h = 1` loop, `cbfs2`, `crec16`, and `cfftRI_struct`.
-/
import SpqProofs.Lemmas.FftErrSchedCFwd2
set_option linter.unusedSectionVars false
set_option linter.unusedSimpArgs false
namespace Spq.Fft.SchedC
open Spq.Fft Spq.Fft.Alg Spq.Fft.View Spq.Fft.Sim Spq.Fft.SimP Spq.Fft.LevelN Spq.Fft.KernN Spq.Fft.Tw Spq.Fft.SchedN
open Spq.Fft.Tab (length_flatMap_const)
open Spq.Fft.Sched (iter_counter)
open Spq.Fft.CplxFwd (tw_exps)

variable {R : Type} [Inhabited R]
variable (F : CFlav R) (c s ns nc : ℕ → R) (k : ℕ) (a : ℕ → R × R)

/-- the `h = 1` loop of `cbfs2`: one butterfly per pair, table `(ω, −ω)` -/
theorem clast_specN (hk3 : k ≤ 3) (T : Array R) (N ℓ0 D1 b0 off m' t : ℕ) (s0 : RI R)
    (hs : Valid N s0) (hk : k = ℓ0 + D1 + 1) (hm : m' = 2 ^ (D1 + 1)) (hoff : off = m' * b0) (hN : off + m' ≤ N)
    (hT : SegP T t (((List.range (m' / 2)).flatMap (fun i =>
      eP (1 + 4 * brev ℓ0 b0 + frbN (4 * 2 ^ k) i / 2) ++
      eN (1 + 4 * brev ℓ0 b0 + frbN (4 * 2 ^ k) i / 2))).map (valQ c s ns nc))) :
    let r := iterFrom (fun j (st : RI R × ℕ) =>
      let t := st.2
      let s := st.1
      let a := off + 2 * j
      let r := F.last s.re[a]! s.im[a]! s.re[a + 1]! s.im[a + 1]! T[t]! T[t + 1]! T[t + 2]! T[t + 3]!
      ((⟨(s.re.set! a r.1).set! (a + 1) r.2.2.1, (s.im.set! a r.2.1).set! (a + 1) r.2.2.2⟩ : RI R), t + 4))
      (m' / 2) 0 (s0, t)
    AdvN (gNetC F c s ns nc k) a (prs s0) (prs r.1) (ℓ0 + D1) 1 (ℓ0 + D1 + 1) 0 off m' ∧ Valid N r.1 ∧
      r.2 = t + 4 * (m' / 2) := by
  intro r
  have hnb : m' / 2 = 2 ^ D1 := by rw [hm, pow_succ]; simp
  have hm' : m' = 2 ^ D1 * 2 := by rw [hm, pow_succ]
  have hr : r = (iterFrom (fun j s => bf (fun ra ia rb ib wr wi => F.last ra ia rb ib wr wi T[t + 4 * j + 2]!
      T[t + 4 * j + 3]!) s (off + 2 * j) (off + 2 * j + 1) T[t + 4 * j]! T[t + 4 * j + 1]!) (m' / 2) 0 s0,
      t + 4 * (m' / 2)) :=
    iter_counter (fun j t s => bf (fun ra ia rb ib wr wi => F.last ra ia rb ib wr wi T[t + 2]! T[t + 3]!) s
      (off + 2 * j) (off + 2 * j + 1) T[t]! T[t + 1]!) 4 (m' / 2) s0 t
  rw [hr]
  simp only
  rw [List.map_flatMap] at hT
  have hseg := SegP.flatMap (T := T) (t := t) _ 4 (m' / 2) (fun b => by simp [eP, eN]) hT
  have sw := sweepN (VN (gNetC F c s ns nc k) a (ℓ0 + D1) 1) (VN (gNetC F c s ns nc k) a (ℓ0 + D1 + 1) 0)
    (fun j s => bf (fun ra ia rb ib wr wi => F.last ra ia rb ib wr wi T[t + 4 * j + 2]!
      T[t + 4 * j + 3]!) s (off + 2 * j) (off + 2 * j + 1) T[t + 4 * j]! T[t + 4 * j + 1]!) N off 2 (m' / 2)
    (fun j s1 hj hs1 => by
      have hj' : j < 2 ^ D1 := by omega
      have hsb := hseg j hj
      rw [List.map_append, show t + j * 4 = t + 4 * j by ring] at hsb
      have e := tw_exps ℓ0 D1 0 b0 j k hj' (by omega)
      rw [pow_zero, Nat.one_mul] at e
      obtain ⟨g0, g1⟩ := read_ePQ c s ns nc T (t + 4 * j) _ hsb.left
      obtain ⟨g2, g3⟩ := read_eNQ c s ns nc T (t + 4 * j + 2) _ (by simpa [eP] using hsb.right)
      rw [e] at g0 g1 g2 g3
      rw [show t + 4 * j + 2 + 1 = t + 4 * j + 3 by ring] at g3
      have := pair1_advG a (gNetC F c s ns nc k) (fun ra ia rb ib wr wi => F.last ra ia rb ib wr wi T[t + 4 * j + 2]!
        T[t + 4 * j + 3]!) T[t + 4 * j]! T[t + 4 * j + 1]! N (ℓ0 + D1) (b0 * 2 ^ D1 + j) (off + 2 * j) s1 hs1
        (by rw [hoff, hm']; ring) (by
          have : (j + 1) * 2 ≤ 2 ^ D1 * 2 := Nat.mul_le_mul_right _ hj'
          omega) (by rw [gNetC_last F c s ns nc k _ _ hk3, g0, g1, g2, g3]; rfl)
      exact ⟨this.1.of_eq (by ring) rfl, this.2⟩) s0 hs
  refine ⟨sw.1.of_eq rfl (by rw [hnb, hm']), sw.2, trivial⟩

/-- `cbfs2` (m' = 2^D, 2 ≤ m' ≤ 8) -/
theorem cbfs2_specN (hk3 : k ≤ 3) (T : Array R) (N ℓ0 D b0 off m' t : ℕ) (s0 : RI R)
    (hk : k = ℓ0 + D) (hm : m' = 2 ^ D) (hD : 1 ≤ D) (hoff : off = m' * b0) (hN : off + m' ≤ N)
    (hs : Valid N s0)
    (hT : SegP T t ((cBfs2 (4 * 2 ^ k) m' (m' * (1 + 4 * brev ℓ0 b0))).map (valQ c s ns nc))) :
    AdvN (gNetC F c s ns nc k) a (prs s0) (prs (cbfs2 F T m' off (s0, t)).1) ℓ0 D k 0 off m' ∧
      Valid N (cbfs2 F T m' off (s0, t)).1 ∧
      (cbfs2 F T m' off (s0, t)).2 = t + (cBfs2 (4 * 2 ^ k) m' (m' * (1 + 4 * brev ℓ0 b0))).length := by
  obtain ⟨D1, rfl⟩ : ∃ D1, D = D1 + 1 := ⟨D - 1, by omega⟩
  have hmm : m' = 2 * 2 ^ D1 := by rw [hm, pow_succ]; ring
  have hh : m' / 2 = 2 ^ D1 := by omega
  have hpw : m' * (1 + 4 * brev ℓ0 b0) / 2 = m' / 2 * (1 + 4 * brev ℓ0 b0) := by
    rw [hmm, Nat.mul_assoc, Nat.mul_div_cancel_left _ (by omega : 0 < 2), Nat.mul_div_cancel_left _ (by omega : 0 < 2)]
  have hfuel : D1 + 1 ≤ m' := by have := @Nat.lt_two_pow_self (D1 + 1); omega
  unfold cbfs2
  rw [cBfs2, hpw] at hT ⊢
  have s1 := cbfs2Levels_specN F c s ns nc k a hk3 T N ℓ0 (D1 + 1) b0 off m' hk hm hoff hN D1 m' 0 (m' / 2)
    (m' / 2 * (1 + 4 * brev ℓ0 b0)) s0 t (by omega) hh rfl hfuel hs hT
  obtain ⟨sA, tA, hst⟩ : ∃ sA tA, cbfs2Levels F T m' off m' (m' / 2) (s0, t) = (sA, tA) := ⟨_, _, rfl⟩
  rw [hst] at s1
  simp only [hst]
  obtain ⟨a1, v1, p1, q1⟩ := s1
  simp only at a1 v1 p1 q1
  have s2 := clast_specN F c s ns nc k a hk3 T N ℓ0 D1 b0 off m' tA sA v1 (by omega) hm hoff hN p1
  simp only at s2
  obtain ⟨a2, v2, p2⟩ := s2
  refine ⟨?_, v2, ?_⟩
  · exact (AdvN.cast _ _ a1 ℓ0 (D1 + 1) (ℓ0 + D1) 1 (by omega) rfl (by omega) rfl).seq
      (AdvN.cast _ _ a2 (ℓ0 + D1) 1 k 0 rfl rfl (by omega) rfl)
  · rw [p2]; omega

/-- `crec16` (only entered for m > 2048: every region it sees has size ≥ 2048) -/
theorem crec16_specN (T : Array R) (N : ℕ) :
    ∀ fuel D ℓ0 b0 off m' t (s0 : RI R), k = ℓ0 + D → m' = 2 ^ D → 11 ≤ D → m' ≤ fuel → off = m' * b0 →
      off + m' ≤ N → Valid N s0 →
      SegP T t ((cRec (4 * 2 ^ k) fuel m' (m' * (1 + 4 * brev ℓ0 b0))).map (valQ c s ns nc)) →
      AdvN (gNetC F c s ns nc k) a (prs s0) (prs (crec16 F T fuel m' off (s0, t)).1) ℓ0 D k 0 off m' ∧
        Valid N (crec16 F T fuel m' off (s0, t)).1 ∧
        (crec16 F T fuel m' off (s0, t)).2 = t + (cRec (4 * 2 ^ k) fuel m' (m' * (1 + 4 * brev ℓ0 b0))).length := by
  intro fuel
  induction fuel with
  | zero =>
    intro D ℓ0 b0 off m' t s0 hk hm hD hfuel
    have : 0 < m' := by rw [hm]; exact Nat.two_pow_pos _
    omega
  | succ f ih =>
    intro D ℓ0 b0 off m' t s0 hk hm hD hfuel hoff hN hs hT
    have h2048 : 2048 ≤ m' := by
      have : 2 ^ 11 ≤ 2 ^ D := Nat.pow_le_pow_right (by omega) hD
      rw [hm]; simpa using this
    rw [crec16]
    rw [cRec] at hT ⊢
    have hn1 : ¬ m' ≤ 1 := by omega
    have hn8 : ¬ m' ≤ 8 := by omega
    rw [if_neg hn1, if_neg hn8] at hT ⊢
    rw [if_neg hn1, if_neg hn8]
    by_cases hle : m' ≤ 2048
    · rw [if_pos hle] at hT ⊢
      rw [if_pos hle]
      have hD11 : D ≤ 11 := by
        by_contra hc
        have : 2 ^ 12 ≤ 2 ^ D := Nat.pow_le_pow_right (by omega) (by omega)
        rw [← hm] at this; omega
      exact cbfs16_specN F c s ns nc k a T N ℓ0 D b0 off m' t s0 hk hm (by omega) hD11 (Or.inl (by omega)) hoff hN hs hT
    · rw [if_neg hle] at hT ⊢
      rw [if_neg hle]
      have hD12 : 12 ≤ D := by
        by_contra hc
        have : 2 ^ D ≤ 2 ^ 11 := Nat.pow_le_pow_right (by omega) (by omega)
        rw [← hm] at this; omega
      obtain ⟨D1, rfl⟩ : ∃ D1, D = D1 + 1 := ⟨D - 1, by omega⟩
      have hD1 : 11 ≤ D1 := by omega
      have hmm : m' = 2 * 2 ^ D1 := by rw [hm, pow_succ]; ring
      have hh : m' / 2 = 2 ^ D1 := by omega
      have hpw : m' * (1 + 4 * brev ℓ0 b0) / 2 = m' / 2 * (1 + 4 * brev ℓ0 b0) := by
        rw [hmm, Nat.mul_assoc, Nat.mul_div_cancel_left _ (by omega : 0 < 2),
          Nat.mul_div_cancel_left _ (by omega : 0 < 2)]
      have hpL : m' * (1 + 4 * brev ℓ0 b0) / 2 = m' / 2 * (1 + 4 * brev (ℓ0 + 1) (2 * b0)) := by
        rw [hpw, brev_even]
      have hpR : m' * (1 + 4 * brev ℓ0 b0) / 2 + 4 * 2 ^ k / 2 = m' / 2 * (1 + 4 * brev (ℓ0 + 1) (2 * b0 + 1)) := by
        rw [hpw, brev_odd, hk, hh, pow_add, pow_succ]
        have : 4 * (2 ^ ℓ0 * (2 ^ D1 * 2)) / 2 = 4 * (2 ^ ℓ0 * 2 ^ D1) := by
          rw [show 4 * (2 ^ ℓ0 * (2 ^ D1 * 2)) = 2 * (4 * (2 ^ ℓ0 * 2 ^ D1)) by ring]
          exact Nat.mul_div_cancel_left _ (by omega)
        rw [this]; ring
      have hl2 : ∀ x, (List.map (valQ c s ns nc) (eP x)).length = 2 := fun x => by simp [eP]
      rw [List.map_append, List.map_append, List.map_append] at hT
      obtain ⟨w0, w0'⟩ := read_ePQ c s ns nc T t _ hT.left.left.left
      have hsec := hT.left.left.right
      rw [hl2] at hsec
      obtain ⟨w1, w1'⟩ := read_ePQ c s ns nc T (t + 2) _ hsec
      rw [show t + 2 + 1 = t + 3 by ring] at w1'
      have hgt := gNetC_top F c s ns nc k ℓ0 D1 b0 (by omega) (by omega)
      have s1 := twPassL_advN a (gNetC F c s ns nc k) F.ctTop F.lanesTop T t N ℓ0 D1 b0 off s0 hs (by rw [hoff, hmm])
        (by omega) (by rw [hgt, w0, w0', hpw, hh, twE]) (by rw [hgt, w1, w1', hpw, hh, twE])
      rw [← hh] at s1
      obtain ⟨a1, v1⟩ := s1
      -- left half
      have hTL := hT.left.right
      rw [List.length_append, hl2, hpL] at hTL
      have s2 := ih D1 (ℓ0 + 1) (2 * b0) off (m' / 2) (t + 4) _ (by omega) hh hD1 (by omega)
        (by rw [hoff, hh, hmm]; ring) (by omega) v1 hTL
      obtain ⟨sA, tA, hst⟩ : ∃ sA tA, crec16 F T f (m' / 2) off
        (twPassL F.ctTop F.lanesTop T t (m' / 2) off s0, t + 4) = (sA, tA) := ⟨_, _, rfl⟩
      rw [hst] at s2
      simp only [hst]
      obtain ⟨a2, v2, p2⟩ := s2
      simp only at a2 v2 p2
      -- right half
      have hTR := hT.right
      rw [List.length_append, List.length_append, hl2, List.length_map, hpR, hpL,
        show t + (2 + 2 + (cRec (4 * 2 ^ k) f (m' / 2) (m' / 2 * (1 + 4 * brev (ℓ0 + 1) (2 * b0)))).length)
          = t + 4 + (cRec (4 * 2 ^ k) f (m' / 2) (m' / 2 * (1 + 4 * brev (ℓ0 + 1) (2 * b0)))).length by ring,
        ← p2] at hTR
      have s3 := ih D1 (ℓ0 + 1) (2 * b0 + 1) (off + m' / 2) (m' / 2) tA sA (by omega) hh hD1 (by omega)
        (by rw [hoff, hh, hmm]; ring) (by omega) v2 hTR
      obtain ⟨a3, v3, p3⟩ := s3
      refine ⟨?_, v3, ?_⟩
      · have b1 := (a1.of_eq rfl (show m' = 2 * (m' / 2) by omega))
        have b23 := (a2.par a3).of_eq rfl (show m' = m' / 2 + m' / 2 by omega)
        exact b1.seq b23
      · rw [p3, p2, List.length_append, List.length_append, List.length_append, hpR, hpL]
        simp only [eP, List.length_cons, List.length_nil]
        omega

/-- the forward cplx transform of every size `2^k` runs the whole level network `VN (gNetC …)` -/
theorem cfftRI_advN (s0 : RI R) (hs : Valid (2 ^ k) s0) :
    AdvN (gNetC F c s ns nc k) a (prs s0)
        (prs (cfftRI F (2 ^ k) (((cplxFftEnts (2 ^ k)).map (valQ c s ns nc)).toArray) s0)) 0 k k 0 0 (2 ^ k) ∧
      Valid (2 ^ k) (cfftRI F (2 ^ k) (((cplxFftEnts (2 ^ k)).map (valQ c s ns nc)).toArray) s0) := by
  have hb0 : 2 ^ k * (1 + 4 * brev 0 0) = 2 ^ k := by simp [brev]
  by_cases hk0 : k = 0
  · subst hk0
    simp only [cfftRI, pow_zero, Nat.le_refl, ↓reduceIte]
    exact ⟨AdvG.id _ _ _ _, hs⟩
  have h2 : 2 ≤ 2 ^ k := by
    have : 2 ^ 1 ≤ 2 ^ k := Nat.pow_le_pow_right (by omega) (by omega)
    simpa using this
  unfold cfftRI cplxFftEnts
  rw [if_neg (show ¬ 2 ^ k ≤ 1 by omega)]
  simp only
  by_cases h8 : 2 ^ k ≤ 8
  · rw [if_pos h8, if_pos h8]
    have hk3 : k ≤ 3 := by
      by_contra hc
      have : 2 ^ 4 ≤ 2 ^ k := Nat.pow_le_pow_right (by omega) (by omega)
      omega
    have hseg := SegP.of_toArray ((cBfs2 (4 * 2 ^ k) (2 ^ k) (2 ^ k)).map (valQ c s ns nc))
    have := cbfs2_specN F c s ns nc k a hk3 _ (2 ^ k) 0 k 0 0 (2 ^ k) 0 s0 (by omega) rfl (by omega) (by ring)
      (by omega) hs (by rw [hb0]; exact hseg)
    exact ⟨this.1, this.2.1⟩
  rw [if_neg h8, if_neg h8]
  have hD4 : 4 ≤ k := by
    by_contra hc
    have : k ≤ 3 := by omega
    have : 2 ^ k ≤ 2 ^ 3 := Nat.pow_le_pow_right (by omega) this
    omega
  by_cases hle : 2 ^ k ≤ 2048
  · rw [if_pos hle, if_pos hle]
    have hk11 : k ≤ 11 := by
      by_contra hc
      have : 2 ^ 12 ≤ 2 ^ k := Nat.pow_le_pow_right (by omega) (by omega)
      omega
    have hseg := SegP.of_toArray ((cBfs16 (4 * 2 ^ k) (2 ^ k) (2 ^ k)).map (valQ c s ns nc))
    have := cbfs16_specN F c s ns nc k a _ (2 ^ k) 0 k 0 0 (2 ^ k) 0 s0 (by omega) rfl hD4 hk11 (Or.inr rfl) (by ring)
      (by omega) hs (by rw [hb0]; exact hseg)
    exact ⟨this.1, this.2.1⟩
  · rw [if_neg hle, if_neg hle]
    have hk12 : 12 ≤ k := by
      by_contra hc
      have : 2 ^ k ≤ 2 ^ 11 := Nat.pow_le_pow_right (by omega) (by omega)
      omega
    have hseg := SegP.of_toArray ((cRec (4 * 2 ^ k) (2 ^ k) (2 ^ k) (2 ^ k)).map (valQ c s ns nc))
    have := crec16_specN F c s ns nc k a _ (2 ^ k) (2 ^ k) k 0 0 0 (2 ^ k) 0 s0 (by omega) rfl (by omega) (Nat.le_refl _)
      (by ring) (by omega) hs (by rw [hb0]; exact hseg)
    exact ⟨this.1, this.2.1⟩

/-- **structural schedule theorem, forward cplx** (on split storage) -/
theorem cfftRI_struct (s0 : RI R) (hs : Valid (2 ^ k) s0) :
    (∀ p, p < 2 ^ k → prs (cfftRI F (2 ^ k) (((cplxFftEnts (2 ^ k)).map (valQ c s ns nc)).toArray) s0) p
      = VN (gNetC F c s ns nc k) (prs s0) k 0 p) ∧
    Valid (2 ^ k) (cfftRI F (2 ^ k) (((cplxFftEnts (2 ^ k)).map (valQ c s ns nc)).toArray) s0) := by
  have key := cfftRI_advN F c s ns nc k (prs s0) s0 hs
  refine ⟨fun p hp => ?_, key.2⟩
  exact key.1.1 (fun q _ _ => rfl) p (Nat.zero_le _) (by omega)

end Spq.Fft.SchedC
