/-
  Non-vacuity witness, part 7 (C02Err): the accumulation flags `vmpFlag` of the vector-matrix product from an
  evaluated Boolean run (`pOkB`, `vmpFlagB`; every `k ≥ 2`, i.e. the reim4 layout `nn ≥ 8`, every shape), by the
  law-free layout theorem `vmp_layout_g` on both flagged modules and `dot_sim` on the accumulation recurrences.
-/
import SpqProofs.Lemmas.ErrWitnessXfer
import SpqProofs.Lemmas.VmpErrOvf10
set_option linter.unusedSectionVars false
namespace Spq.ErrWitness
open Finset Spq Spq.Module Spq.Fft Spq.Fft.Alg Spq.FftErr Spq.F64 Spq.Reim4 Spq.ProdErr Spq.VmpErr

/-- the flagged module with Boolean flags (prepared matrix = lifted bit-level DFTs of the entries) -/
def pOkB (c : Cfg) : Parts (ℕ × Bool) :=
  mkParts arithOkB c.nn c.mulFma c.addmulFma c.vmpAvx (fun x => ((Cfg.parts c).fft ((Cfg.parts c).fromZnx x)).map liftB)

/-- Boolean flag of output cell `p` of the vector-matrix product -/
def vmpFlagB (c : Cfg) (mat : Array Int) (nrows ncols : ℕ) (a : Array Int) (asz asl rsz p : ℕ) : Bool :=
  ((vmpApplyDftToDft (pOkB c) rsz ((vecDft (Cfg.parts c) (min nrows asz) a asz asl).map liftB) asz
    (vmpPrepare (pOkB c) mat nrows ncols) nrows ncols).getD p arithOkB.zero).2

theorem matDft_pOkB (c : Cfg) (mat : Array Int) (ncols i j : ℕ) :
    matDft (pOkB c) mat ncols i j = (matDft (Cfg.parts c) mat ncols i j).map liftB := rfl

/-- **accumulation stage**: Boolean flag of cell `p` of column `j` ⇒ `vmpFlag` -/
theorem vmp_flag_of_bool (c : Cfg) (k : ℕ) (hk2 : 2 ≤ k) (cN sN cNi sNi : ℕ → ℕ) (h : VCfgOk c k cN sN cNi sNi)
    (mat : Array Int) (nrows ncols : ℕ) (a : Array Int) (asz asl rsz : ℕ) (j p : ℕ) (hj : j < min ncols rsz)
    (hp : p < 2 * 2 ^ k) (hb : vmpFlagB c mat nrows ncols a asz asl rsz (j * (2 * 2 ^ k) + p) = true) :
    vmpFlag c mat nrows ncols a asz asl rsz (j * (2 * 2 ^ k) + p) := by
  have hnn := p_nn c k cN sN cNi sNi h
  have hm := parts_m c k h.cfg.nn
  have h8 : ¬ (Cfg.parts c).nn < 8 := by
    rw [hnn]
    have : 2 ^ 2 ≤ 2 ^ k := Nat.pow_le_pow_right (by norm_num) hk2
    omega
  obtain ⟨adft, hadft⟩ : ∃ adft, adft = vecDft (Cfg.parts c) (min nrows asz) a asz asl := ⟨_, rfl⟩
  obtain ⟨_, L1, _, _⟩ := vmp_layout_g (pOk c) (p_hnn c k cN sN cNi sNi h) (p_hblk c k cN sN cNi sNi h)
    (p_hsm c k cN sN cNi sNi h) mat nrows ncols rsz asz (adft.map lift) (fun hlt => absurd hlt h8)
  obtain ⟨_, L2, _, _⟩ := vmp_layout_g (pOkB c) (p_hnn c k cN sN cNi sNi h) (p_hblk c k cN sN cNi sNi h)
    (p_hsm c k cN sN cNi sNi h) mat nrows ncols rsz asz (adft.map liftB) (fun hlt => absurd hlt h8)
  unfold vmpFlag
  unfold vmpFlagB at hb
  rw [← hadft] at hb ⊢
  -- the recurrences are related
  have Q : ∀ t, RB
      (dotRe arithOkB (colKind (Cfg.parts c) ncols rsz j) (aRe arithOkB.zero (adft.map liftB) (Cfg.parts c).nn t)
        (aIm arithOkB.zero (adft.map liftB) (Cfg.parts c).nn (Cfg.parts c).m t)
        (fun i => ((matDft (Cfg.parts c) mat ncols i j).map liftB).getD t arithOkB.zero)
        (fun i => ((matDft (Cfg.parts c) mat ncols i j).map liftB).getD (t + (Cfg.parts c).m) arithOkB.zero) (min nrows asz))
      (dotRe arithOk (colKind (Cfg.parts c) ncols rsz j) (aRe arithOk.zero (adft.map lift) (Cfg.parts c).nn t)
        (aIm arithOk.zero (adft.map lift) (Cfg.parts c).nn (Cfg.parts c).m t)
        (fun i => ((matDft (Cfg.parts c) mat ncols i j).map lift).getD t arithOk.zero)
        (fun i => ((matDft (Cfg.parts c) mat ncols i j).map lift).getD (t + (Cfg.parts c).m) arithOk.zero) (min nrows asz)) ∧
    RB
      (dotIm arithOkB (colKind (Cfg.parts c) ncols rsz j) (aRe arithOkB.zero (adft.map liftB) (Cfg.parts c).nn t)
        (aIm arithOkB.zero (adft.map liftB) (Cfg.parts c).nn (Cfg.parts c).m t)
        (fun i => ((matDft (Cfg.parts c) mat ncols i j).map liftB).getD t arithOkB.zero)
        (fun i => ((matDft (Cfg.parts c) mat ncols i j).map liftB).getD (t + (Cfg.parts c).m) arithOkB.zero) (min nrows asz))
      (dotIm arithOk (colKind (Cfg.parts c) ncols rsz j) (aRe arithOk.zero (adft.map lift) (Cfg.parts c).nn t)
        (aIm arithOk.zero (adft.map lift) (Cfg.parts c).nn (Cfg.parts c).m t)
        (fun i => ((matDft (Cfg.parts c) mat ncols i j).map lift).getD t arithOk.zero)
        (fun i => ((matDft (Cfg.parts c) mat ncols i j).map lift).getD (t + (Cfg.parts c).m) arithOk.zero) (min nrows asz)) :=
    fun t => dot_sim arithOkB_sim (colKind (Cfg.parts c) ncols rsz j) _ _ _ _ _ _ _ _
      (fun i => getD_RB adft _) (fun i => getD_RB adft _) (fun i => getD_RB _ _) (fun i => getD_RB _ _) (min nrows asz)
  have hcell : ∀ t, t < 2 ^ k →
      ((vmpApplyDftToDft (pOkB c) rsz (adft.map liftB) asz (vmpPrepare (pOkB c) mat nrows ncols) nrows ncols).getD
          (j * (2 * 2 ^ k) + t) arithOkB.zero).2 = true →
        ((vmpApplyDftToDft (pOk c) rsz (adft.map lift) asz (vmpPrepare (pOk c) mat nrows ncols) nrows ncols).getD
          (j * (2 * 2 ^ k) + t) arithOk.zero).2 := by
    intro t ht hf
    have ht' : t < (Cfg.parts c).m := by rw [hm]; exact ht
    have e1 := (L1 j t hj ht' (fun hlt => absurd hlt h8)).1
    have e2 := (L2 j t hj ht' (fun hlt => absurd hlt h8)).1
    rw [show (pOk c).nn = 2 * 2 ^ k from hnn] at e1
    rw [show (pOkB c).nn = 2 * 2 ^ k from hnn] at e2
    rw [show (pOkB c).ar.zero = arithOkB.zero from rfl] at e2
    rw [show (pOk c).ar.zero = arithOk.zero from rfl] at e1
    rw [e2] at hf
    rw [e1]
    exact (Q t).1.2 hf
  have hcell2 : ∀ t, t < 2 ^ k →
      ((vmpApplyDftToDft (pOkB c) rsz (adft.map liftB) asz (vmpPrepare (pOkB c) mat nrows ncols) nrows ncols).getD
          (j * (2 * 2 ^ k) + t + 2 ^ k) arithOkB.zero).2 = true →
        ((vmpApplyDftToDft (pOk c) rsz (adft.map lift) asz (vmpPrepare (pOk c) mat nrows ncols) nrows ncols).getD
          (j * (2 * 2 ^ k) + t + 2 ^ k) arithOk.zero).2 := by
    intro t ht hf
    have ht' : t < (Cfg.parts c).m := by rw [hm]; exact ht
    have e1 := (L1 j t hj ht' (fun hlt => absurd hlt h8)).2
    have e2 := (L2 j t hj ht' (fun hlt => absurd hlt h8)).2
    rw [show (pOk c).nn = 2 * 2 ^ k from hnn, show (pOk c).m = 2 ^ k from hm] at e1
    rw [show (pOkB c).nn = 2 * 2 ^ k from hnn, show (pOkB c).m = 2 ^ k from hm] at e2
    rw [show (pOkB c).ar.zero = arithOkB.zero from rfl] at e2
    rw [show (pOk c).ar.zero = arithOk.zero from rfl] at e1
    rw [e2] at hf
    rw [e1]
    exact (Q t).2.2 hf
  by_cases hlt : p < 2 ^ k
  · exact hcell p hlt hb
  · obtain ⟨t, rfl⟩ : ∃ t, p = t + 2 ^ k := ⟨p - 2 ^ k, by omega⟩
    have ht : t < 2 ^ k := by omega
    rw [← Nat.add_assoc] at hb ⊢
    exact hcell2 t ht hb

/-- all Boolean accumulation flags of column `j` -/
def vmpFlagsB (c : Cfg) (k : ℕ) (mat : Array Int) (nrows ncols : ℕ) (a : Array Int) (asz asl rsz j : ℕ) : Bool :=
  (List.range (2 * 2 ^ k)).all fun p => vmpFlagB c mat nrows ncols a asz asl rsz (j * (2 * 2 ^ k) + p)

theorem vmp_flags_of_all (c : Cfg) (k : ℕ) (hk2 : 2 ≤ k) (cN sN cNi sNi : ℕ → ℕ) (h : VCfgOk c k cN sN cNi sNi)
    (mat : Array Int) (nrows ncols : ℕ) (a : Array Int) (asz asl rsz : ℕ) (j : ℕ) (hj : j < min ncols rsz)
    (hb : vmpFlagsB c k mat nrows ncols a asz asl rsz j = true) :
    ∀ p, p < 2 * 2 ^ k → vmpFlag c mat nrows ncols a asz asl rsz (j * (2 * 2 ^ k) + p) :=
  fun p hp => vmp_flag_of_bool c k hk2 cN sN cNi sNi h mat nrows ncols a asz asl rsz j p hj hp (all_range hb p hp)

end Spq.ErrWitness
