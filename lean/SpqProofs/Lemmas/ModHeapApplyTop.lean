/-
  Heap-level refinement of `fft64_vmp_apply_dft_to_dft_{ref,avx}` and `fft64_vmp_apply_dft_{ref,avx}` (the latter
  splits its scratch into the DFT of the input rows followed by the scratch of the former).
-/
import SpqProofs.Lemmas.ModHeapApply
import SpqProofs.Lemmas.ModHeapPrep
namespace Spq.ModuleHeap
open Spq Heap Reim4
variable {γ α : Type}

section
variable (c : Module.Parts α) (cd : Cells γ α) (hr : RoundTrip cd)
include hr

/-- `fft64_vmp_apply_dft_to_dft_{ref,avx}`.  Only the first `min(nrows, a_size)` limbs of `a_dft` are read (the
    caller `vmp_apply_dft` passes a buffer of exactly that many limbs together with the full `a_size`). -/
theorem vmpApplyDftToDft_heap (h : Heap γ) (res rsz adft asz pmat nrows ncols tmp tb : Nat)
    (hnn : c.nn = 2 * c.m) (hm4 : 8 ≤ c.nn → c.m % 4 = 0)
    (htb : 8 ≤ c.nn → 128 + 64 * min nrows asz ≤ tb)
    (hres : res + rsz * c.nn ≤ h.mem.size) (hadft : adft + min nrows asz * c.nn ≤ h.mem.size)
    (hpm : pmat + c.nn * nrows * ncols ≤ h.mem.size)
    (dra : adft + min nrows asz * c.nn ≤ res ∨ res + rsz * c.nn ≤ adft)
    (drp : pmat + c.nn * nrows * ncols ≤ res ∨ res + rsz * c.nn ≤ pmat)
    (hscr : 8 ≤ c.nn → tmp + (16 + 8 * min nrows asz) ≤ h.mem.size ∧
      (tmp + (16 + 8 * min nrows asz) ≤ res ∨ res + rsz * c.nn ≤ tmp) ∧
      (tmp + (16 + 8 * min nrows asz) ≤ adft ∨ adft + min nrows asz * c.nn ≤ tmp) ∧
      (tmp + (16 + 8 * min nrows asz) ≤ pmat ∨ pmat + c.nn * nrows * ncols ≤ tmp)) :
    Fr (fun x => In res (rsz * c.nn) x ∨ (8 ≤ c.nn ∧ In tmp (16 + 8 * min nrows asz) x)) h
      (vmpApplyDftToDft c cd h res rsz adft asz pmat nrows ncols tmp tb) ∧
    (vmpApplyDftToDft c cd h res rsz adft asz pmat nrows ncols tmp tb).readLimb cd.dflt res (rsz * c.nn) =
      (Module.vmpApplyDftToDft c rsz (rdD cd h adft (min nrows asz * c.nn)) asz
        (rdD cd h pmat (c.nn * nrows * ncols)) nrows ncols).map cd.enc := by
  rw [vmpApplyDftToDft_unfold]
  have hcr : min ncols rsz ≤ rsz := Nat.min_le_right _ _
  have hcc : min ncols rsz ≤ ncols := Nat.min_le_left _ _
  have hM := mul_le' _ _ c.nn hcr
  have eNM := sub_mul_add rsz (min ncols rsz) c.nn hcr
  by_cases h8 : c.nn ≥ 8
  · simp only [if_pos h8]
    obtain ⟨s1, s2, s3, s4⟩ := hscr h8
    have K : BigCtx c h res rsz adft pmat nrows ncols tmp tb (min nrows asz) (min ncols rsz) :=
      ⟨hnn, hm4 h8, hcc, hcr, htb h8, hres, hadft, hpm, s1, dra, drp, s2, s3, s4⟩
    obtain ⟨f, v⟩ := bigLoop_sim c cd hr h res rsz adft pmat nrows ncols tmp tb (min nrows asz) (min ncols rsz) K
    obtain ⟨fz, vz⟩ := kZeroD_spec c cd (loop (c.m / 4) (bigBody c cd res adft pmat nrows ncols tmp tb (min nrows asz) (min ncols rsz)) h)
      (res + min ncols rsz * c.nn) ((rsz - min ncols rsz) * c.nn) (by rw [f.size]; omega)
    refine ⟨(f.trans fz).mono (fun x q => ?_), ?_⟩
    · unfold bigW at q
      rcases q with (q | q) | q
      · exact Or.inl q
      · exact Or.inr ⟨h8, q⟩
      · left; unfold In at *; omega
    · rw [map_replicate'] at vz
      rw [vmpApply_eq_big c rsz _ asz _ nrows ncols h8]
      exact agree_tail (applyBigG_agree cd.enc c (min nrows asz) (min ncols rsz) nrows ncols _ _) (rsz * c.nn)
        (min ncols rsz * c.nn) _ c.ar.zero eNM (fun x => bigCells_iff c.m c.nn (min ncols rsz) hnn (hm4 h8) x) _ _ cd.dflt res
        (h.readLimb cd.dflt res (rsz * c.nn)) (by simp) v fz vz
  · simp only [if_neg h8]
    have K : SmallCtx c h res rsz adft pmat nrows ncols (min nrows asz) (min ncols rsz) :=
      ⟨hcc, hcr, Nat.min_le_left _ _, hres, hadft, hpm, dra, drp⟩
    obtain ⟨f, v⟩ := smallLoop_sim c cd hr h res rsz adft pmat nrows ncols (min nrows asz) (min ncols rsz) K
    obtain ⟨fz, vz⟩ := kZeroD_spec c cd (loop (min ncols rsz) (smallBody c cd res adft pmat nrows (min nrows asz)) h)
      (res + min ncols rsz * c.nn) ((rsz - min ncols rsz) * c.nn) (by rw [f.size]; omega)
    refine ⟨(f.trans fz).mono (fun x q => ?_), ?_⟩
    · left; unfold In at *; omega
    · rw [map_replicate'] at vz
      rw [vmpApply_eq_small c rsz _ asz _ nrows ncols h8]
      exact agree_tail (applySmallG_agree cd.enc c (min nrows asz) (min ncols rsz) nrows _ _) (rsz * c.nn)
        (min ncols rsz * c.nn) _ c.ar.zero eNM (fun x => smallCells_iff c.nn (min ncols rsz) x) _ _ cd.dflt res
        (h.readLimb cd.dflt res (rsz * c.nn)) (by simp) v fz vz

/-- `fft64_vmp_apply_dft_{ref,avx}`: scratch = `[tmp, tmp + rows*nn)` for the DFT of the `rows = min(nrows, a_size)`
    input limbs, then the 16 + 8*rows cells of `apply_dft_to_dft` -/
theorem vmpApplyDft_heap (hs : Sized c) (h : Heap γ) (res rsz a asz asl pmat nrows ncols tmp tb : Nat)
    (hnn : c.nn = 2 * c.m) (hm4 : 8 ≤ c.nn → c.m % 4 = 0)
    (htb : 8 * (min nrows asz * c.nn) + 128 + 64 * min nrows asz ≤ tb)
    (hres : res + rsz * c.nn ≤ h.mem.size)
    (hpm : pmat + c.nn * nrows * ncols ≤ h.mem.size)
    (htmp : tmp + (min nrows asz * c.nn + 16 + 8 * min nrows asz) ≤ h.mem.size)
    (hsrc : ∀ i, i < min nrows asz → a + i * asl + c.nn ≤ h.mem.size ∧
      (a + i * asl + c.nn ≤ tmp ∨ tmp + (min nrows asz * c.nn + 16 + 8 * min nrows asz) ≤ a + i * asl))
    (drp : pmat + c.nn * nrows * ncols ≤ res ∨ res + rsz * c.nn ≤ pmat)
    (drt : tmp + (min nrows asz * c.nn + 16 + 8 * min nrows asz) ≤ res ∨ res + rsz * c.nn ≤ tmp)
    (dpt : tmp + (min nrows asz * c.nn + 16 + 8 * min nrows asz) ≤ pmat ∨ pmat + c.nn * nrows * ncols ≤ tmp) :
    Fr (fun x => In res (rsz * c.nn) x ∨ In tmp (min nrows asz * c.nn + 16 + 8 * min nrows asz) x) h
      (vmpApplyDft c cd h res rsz a asz asl pmat nrows ncols tmp tb) ∧
    (vmpApplyDft c cd h res rsz a asz asl pmat nrows ncols tmp tb).readLimb cd.dflt res (rsz * c.nn) =
      (Module.vmpApplyDft c rsz (viewI cd h.mem a) asz asl (rdD cd h pmat (c.nn * nrows * ncols)) nrows ncols).map cd.enc := by
  unfold vmpApplyDft
  simp only []
  rw [scr_eq tb 0 (min nrows asz * c.nn) _ (by omega)]
  have hmin : min (min nrows asz) asz = min nrows asz := by omega
  -- the DFT of the input rows, into the head of the scratch
  obtain ⟨f1, v1⟩ := vecDft_heap c cd hs hr h tmp (min nrows asz) a asz asl (by omega)
    (fun i hi => by
      rw [hmin] at hi
      have := hsrc i hi
      omega)
  -- the product, with the rest of the scratch
  obtain ⟨f2, v2⟩ := vmpApplyDftToDft_heap c cd hr (vecDft c cd h tmp (min nrows asz) a asz asl) res rsz tmp asz pmat nrows ncols
    (tmp + min nrows asz * c.nn) (tb - 8 * (min nrows asz * c.nn)) hnn hm4 (fun _ => by omega)
    (by rw [f1.size]; exact hres) (by rw [f1.size]; omega) (by rw [f1.size]; exact hpm) (by omega) drp
    (fun _ => ⟨by rw [f1.size]; omega, by omega, by omega, by omega⟩)
  refine ⟨(f1.trans f2).mono (fun x q => ?_), ?_⟩
  · rcases q with q | q | ⟨_, q⟩
    · right; unfold In at *; omega
    · exact Or.inl q
    · right; unfold In at *; omega
  · rw [v2, rdD_of_cells cd hr _ _ _ _ v1,
      rdD_of_fr f1 cd pmat _ (fun x hx hw => by unfold In at *; omega)]
    rfl

end
end Spq.ModuleHeap
