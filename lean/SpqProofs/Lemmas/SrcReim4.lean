/-
  Helper lemmas of `Properties/SrcReim4.lean` (source tie of the reference reim4 block kernels of
  spqlios/reim4/reim4_arithmetic_ref.c): pointer locals (`src_ptr`, `dst_ptr`) as two slots, loads / stores at a cell
  offset in a memory `mem[d := A]` whose destination buffer `d` differs from the source buffer.
-/
import SpqProofs.Lemmas.SrcFftvec
namespace Spq.CIR
open Spq Spq.Reim4

theorem eval_pload (Γ : List Ptr) (σ : State) (b : PBase) (o : Expr) :
    eval Γ σ (.pload b o) = (eval Γ σ o).bind fun v => (ptrAt Γ σ.env b v).bind fun p => loadCell σ.mem p 0 := rfl
theorem exec_pstore (Γ : List Ptr) (b : PBase) (o e : Expr) (f : Nat) (σ : State) :
    exec Γ (.pstore b o e) f σ = (eval Γ σ o).bind fun ov => (eval Γ σ e).bind fun v =>
      (ptrAt Γ σ.env b ov).bind fun p => (storeCell σ.mem p 0 v).bind fun m => .ok (.norm, { σ with mem := m }) := rfl

theorem ptrAt_param (Γ : List Ptr) (env : List Int) (i b o : Nat) (v : Int) (j : Nat) (hv : v = (j : Int))
    (hΓ : Γ.getD i none = some (b, o)) : ptrAt Γ env (.param i) v = .ok (some (b, o + j)) := by
  subst hv
  have h : (0 : Int) ≤ (o : Int) + (j : Int) := by omega
  have e : ((o : Int) + (j : Int)).toNat = o + j := by omega
  simp only [ptrAt, hΓ, h, if_true, e]

theorem ptrAt_pvar (Γ : List Ptr) (env : List Int) (sl b o : Nat) (v : Int) (j : Nat) (hv : v = (j : Int))
    (h2 : lget env sl = (b : Int)) (h3 : lget env (sl + 1) = (o : Int)) :
    ptrAt Γ env (.pvar sl) v = .ok (some (b, o + j)) := by
  subst hv
  have h : (0 : Int) ≤ (o : Int) + (j : Int) := by omega
  have e : ((o : Int) + (j : Int)).toNat = o + j := by omega
  have hn : ¬ ((b : Int) < 0) := by omega
  simp only [ptrAt, decPtr, h2, h3, hn, if_false, Int.toNat_natCast, h, if_true, e]

theorem encPtr_some4 (x0 x1 x2 x3 : Int) (b o : Nat) :
    encPtr [x0, x1, x2, x3] 2 (some (b, o)) = [x0, x1, (b : Int), (o : Int)] := rfl

/-- load at cell `o` of a buffer other than the rewritten one -/
theorem loadAt_other (mem : Mem) (d s : Nat) (A : Array Int) (o : Nat) (hsd : s ≠ d) (ho : o < (buf mem s).size) :
    loadCell (mem.setIfInBounds d A) (some (s, o)) 0 = .ok ((buf mem s).getD o 0) := by
  have h := loadCell_nat (mem.setIfInBounds d A) s o 0 (by rw [buf_set_ne _ _ _ _ hsd]; omega)
  rw [buf_set_ne _ _ _ _ hsd] at h
  simpa using h

theorem loadIdx_other (mem : Mem) (d s : Nat) (A : Array Int) (i : Int) (j : Nat) (hi : i = (j : Int)) (hsd : s ≠ d)
    (ho : j < (buf mem s).size) :
    loadCell (mem.setIfInBounds d A) (some (s, 0)) i = .ok ((buf mem s).getD j 0) := by
  subst hi
  exact load_other mem d s A j hsd ho

/-- store at cell `o` of the rewritten buffer -/
theorem storeAt_self (mem : Mem) (d : Nat) (A : Array Int) (o : Nat) (v : Int) (hA : A.size = (buf mem d).size)
    (ho : o < (buf mem d).size) :
    storeCell (mem.setIfInBounds d A) (some (d, o)) 0 v = .ok (mem.setIfInBounds d (A.setIfInBounds o v)) := by
  have hd : d < mem.size := lt_size_of_buf_size_pos mem d (by omega)
  have h := storeCell_nat (mem.setIfInBounds d A) d o 0 v (by rw [buf_set_self _ _ _ hd]; omega)
  rw [buf_set_self _ _ _ hd, set_set] at h
  simpa using h

theorem storeIdx_self (mem : Mem) (d : Nat) (A : Array Int) (i : Int) (j : Nat) (hi : i = (j : Int)) (v : Int)
    (hA : A.size = (buf mem d).size) (ho : j < (buf mem d).size) :
    storeCell (mem.setIfInBounds d A) (some (d, 0)) i v = .ok (mem.setIfInBounds d (A.setIfInBounds j v)) := by
  subst hi
  exact store_self mem d A j v hA ho

theorem size_copy4 {α : Type} (z : α) (dst : Array α) (d : Nat) (src : Array α) (s : Nat) :
    (copy4 z dst d src s).size = dst.size := by
  simp [copy4]

/-- the accumulator of `extract1blkFromContiguousReimRef` after `k` rows -/
def extractK (m blk : Nat) (D S : Array Int) (k : Nat) : Array Int :=
  Nat.fold k (fun i _ d => copy4 (0 : Int) d (4 * i) S (4 * blk + i * m)) D

theorem extractK_succ (m blk : Nat) (D S : Array Int) (k : Nat) :
    extractK m blk D S (k + 1) = copy4 (0 : Int) (extractK m blk D S k) (4 * k) S (4 * blk + k * m) := by
  simp only [extractK, Nat.fold_succ]

theorem size_extractK (m blk : Nat) (D S : Array Int) (k : Nat) : (extractK m blk D S k).size = D.size := by
  induction k with
  | zero => simp [extractK]
  | succ k ih => rw [extractK_succ, size_copy4, ih]

theorem encPtr_some (env : List Int) (sl b o : Nat) :
    encPtr env sl (some (b, o)) = lset (lset env sl (b : Int)) (sl + 1) (o : Int) := rfl

/-! ### buffers of binary64 patterns (`patBuf`): the copies commute with the embedding of patterns into cells -/

theorem copy4_map {α β : Type} (f : α → β) (z : α) (dst : Array α) (d : Nat) (src : Array α) (s : Nat) :
    copy4 (f z) (dst.map f) d (src.map f) s = (copy4 z dst d src s).map f := by
  simp only [copy4, getD_map', ← Array.map_setIfInBounds]

theorem extract1blkFromReimRef_patBuf (m blk : Nat) (D S : Array Nat) :
    extract1blkFromReimRef (0 : Int) m blk (patBuf D) (patBuf S) = patBuf (extract1blkFromReimRef 0 m blk D S) := by
  simp only [extract1blkFromReimRef, patBuf]
  rw [show (0 : Int) = ((fun (x : Nat) => (x : Int)) 0) from rfl, copy4_map, copy4_map]

theorem save1blkToReimRef_patBuf (m blk : Nat) (D S : Array Nat) :
    save1blkToReimRef (0 : Int) m blk (patBuf D) (patBuf S) = patBuf (save1blkToReimRef 0 m blk D S) := by
  simp only [save1blkToReimRef, patBuf]
  rw [show (0 : Int) = ((fun (x : Nat) => (x : Int)) 0) from rfl, copy4_map, copy4_map]

theorem extract1blkFromContiguousReimRef_patBuf (m nrows blk : Nat) (D S : Array Nat) :
    extract1blkFromContiguousReimRef (0 : Int) m nrows blk (patBuf D) (patBuf S)
      = patBuf (extract1blkFromContiguousReimRef 0 m nrows blk D S) := by
  simp only [extract1blkFromContiguousReimRef, patBuf]
  generalize 2 * nrows = n
  induction n with
  | zero => simp only [Nat.fold_zero]
  | succ n ih =>
    simp only [Nat.fold_succ]
    rw [ih, show (0 : Int) = ((fun (x : Nat) => (x : Int)) 0) from rfl, copy4_map]

end Spq.CIR
