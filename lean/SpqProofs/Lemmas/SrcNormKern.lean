/-
  `znx_normalize` called on windows of one arena buffer, as `vec_znx_normalize_base2k_ref` calls it: `out` and `in`
  are limbs of `res` / `a` (identical or disjoint windows), `carry_out` / `carry_in` are the scratch window
  `[t, t+nn)` (disjoint from both limbs) or null.  Each lemma is the kernel's source theorem
  (`Properties/SrcNorm.lean`) transported through the window abstraction (`run_window_gen`, two written windows).
-/
import SpqProofs.Lemmas.SrcArena2
import SpqProofs.Properties.SrcNorm
namespace Spq.CIR
open Spq Spq.Src

section layout
variable (B nn ro ao t : Nat)

theorem win4 (ha : SameOrDisj nn ro ao) (hrt : ro + nn ≤ t ∨ t + nn ≤ ro) (hat : ao + nn ≤ t ∨ t + nn ≤ ao) :
    Win B nn [some (B, ro), some (B, t), some (B, ao), some (B, t)]
      [some (0, 0), some (1, 0), some (kOf ao ro 2, 0), some (1, 0)] [0, 1] := by
  unfold SameOrDisj at ha
  refine ⟨?_, ?_, ?_⟩
  · intro p
    rcases p with _ | _ | _ | _ | p
    · exact Or.inr ⟨0, ro, rfl, rfl⟩
    · exact Or.inr ⟨1, t, rfl, rfl⟩
    · exact Or.inr ⟨kOf ao ro 2, ao, rfl, rfl⟩
    · exact Or.inr ⟨1, t, rfl, rfl⟩
    · exact Or.inl ⟨rfl, rfl⟩
  · intro p q k o o' h1 h2 h3 h4
    rcases p with _ | _ | _ | _ | p <;> rcases q with _ | _ | _ | _ | q <;>
      simp [List.getD, kOf] at h1 h2 h3 h4 <;> (try split at h1) <;> (try split at h2) <;> omega
  · intro p hp q k k' o o' h1 h2 hk h3 h4
    simp only [List.mem_cons, List.mem_singleton, List.not_mem_nil, or_false] at hp
    rcases hp with rfl | rfl <;> rcases q with _ | _ | _ | _ | q <;>
      simp [List.getD, kOf] at h1 h2 h3 h4 <;> (try split at h2) <;> omega

theorem mr4 (X : Array Int) (hr : ro + nn ≤ X.size) (ha : ao + nn ≤ X.size) (ht : t + nn ≤ X.size) :
    MR B nn [some (B, ro), some (B, t), some (B, ao), some (B, t)]
      [some (0, 0), some (1, 0), some (kOf ao ro 2, 0), some (1, 0)] X
      #[win X ro nn, win X t nn, win X ao nn] := by
  intro p k o h1 h2
  rcases p with _ | _ | _ | _ | p <;> simp [List.getD, kOf] at h1 h2
  · obtain ⟨rfl, rfl⟩ := And.intro h1 h2
    exact ⟨by simp [buf], hr, fun c hc => by simp [buf, getD_win _ _ _ _ hc]⟩
  · obtain ⟨rfl, rfl⟩ := And.intro h1 h2
    exact ⟨by simp [buf], ht, fun c hc => by simp [buf, getD_win _ _ _ _ hc]⟩
  · subst h2
    by_cases he : ao = ro
    · rw [if_pos he] at h1; subst h1; subst he
      exact ⟨by simp [buf], hr, fun c hc => by simp [buf, getD_win _ _ _ _ hc]⟩
    · rw [if_neg he] at h1; subst h1
      exact ⟨by simp [buf], ha, fun c hc => by simp [buf, getD_win _ _ _ _ hc]⟩
  · obtain ⟨rfl, rfl⟩ := And.intro h1 h2
    exact ⟨by simp [buf], ht, fun c hc => by simp [buf, getD_win _ _ _ _ hc]⟩
end layout

theorem buf_kOf4 (X : Array Int) (nn ro ao t : Nat) :
    buf #[win X ro nn, win X t nn, win X ao nn] (kOf ao ro 2) = win X ao nn := by
  unfold kOf
  split
  · rename_i h; subst h; rfl
  · rfl

section kern
variable (m0 : Mem) (B : Nat) (hB : B < m0.size) (X : Array Int) (nn : Nat)
include hB

theorem arena_norm_cout (hnn : nn < 18446744073709551616) (k : Nat) (hk1 : 1 ≤ k) (hk2 : k ≤ 63) (ao t : Nat)
    (ha : ao + nn ≤ X.size) (ht : t + nn ≤ X.size) (hat : ao + nn ≤ t ∨ t + nn ≤ ao) :
    ∀ fuel, nn ≤ fuel →
      run fuel Gen.CSrc.znx_normalize [(nn : Int), (k : Int)] [none, some (B, t), some (B, ao), none] (m0.setIfInBounds B X)
        = .ok (m0.setIfInBounds B (Heap.writeArr X t (Coeffs.znxNormalize nn k (win X ao nn) none).2)) := by
  intro fuel hf
  have hk := src_znx_normalize_cout_eq_model nn hnn k hk1 hk2 #[win X ao nn, win X t nn, win X ao nn]
    1 (kOf ao ao 2) (by simp [buf]) (by rw [buf_kOf4]; simp) fuel hf
  have hW := (win4 B nn ao ao t (Or.inl rfl) hat hat).weaken [none, some (B, t), some (B, ao), none] [none, some (1, 0), some (kOf ao ao 2, 0), none]
      (by intro q; rcases q with _ | _ | _ | _ | q <;> simp)
  have hMR := (mr4 B nn ao ao t X ha ha ht).weaken [none, some (B, t), some (B, ao), none] [none, some (1, 0), some (kOf ao ao 2, 0), none]
      (by intro q; rcases q with _ | _ | _ | _ | q <;> simp)
  obtain ⟨X', hrun, hM, hF⟩ := run_window_gen B nn _ _ [0, 1] m0 X hB hW Gen.CSrc.znx_normalize (by decide)
    (by decide) _ _ hMR _ fuel hk
  rw [hrun]
  have hX := arena_one B nn _ _ [0, 1] 1 1 t X X' _ hM hF
    (by intro p hp o ho
        simp only [List.mem_cons, List.mem_singleton, List.not_mem_nil, or_false] at hp
        rcases hp with rfl | rfl <;> simp [List.getD] at ho <;> omega) rfl rfl
  rw [hX, buf_kOf4]
  simp [buf]

theorem arena_norm_cout_cin (hnn : nn < 18446744073709551616) (k : Nat) (hk1 : 1 ≤ k) (hk2 : k ≤ 63) (ao t : Nat)
    (ha : ao + nn ≤ X.size) (ht : t + nn ≤ X.size) (hat : ao + nn ≤ t ∨ t + nn ≤ ao) :
    ∀ fuel, nn ≤ fuel →
      run fuel Gen.CSrc.znx_normalize [(nn : Int), (k : Int)] [none, some (B, t), some (B, ao), some (B, t)] (m0.setIfInBounds B X)
        = .ok (m0.setIfInBounds B (Heap.writeArr X t (Coeffs.znxNormalize nn k (win X ao nn) (some (win X t nn))).2)) := by
  intro fuel hf
  have hk := src_znx_normalize_cout_cin_eq_model nn hnn k hk1 hk2 #[win X ao nn, win X t nn, win X ao nn]
    1 (kOf ao ao 2) 1 (by simp [buf]) (by rw [buf_kOf4]; simp) (by simp [buf]) fuel hf
  have hW := (win4 B nn ao ao t (Or.inl rfl) hat hat).weaken [none, some (B, t), some (B, ao), some (B, t)] [none, some (1, 0), some (kOf ao ao 2, 0), some (1, 0)]
      (by intro q; rcases q with _ | _ | _ | _ | q <;> simp)
  have hMR := (mr4 B nn ao ao t X ha ha ht).weaken [none, some (B, t), some (B, ao), some (B, t)] [none, some (1, 0), some (kOf ao ao 2, 0), some (1, 0)]
      (by intro q; rcases q with _ | _ | _ | _ | q <;> simp)
  obtain ⟨X', hrun, hM, hF⟩ := run_window_gen B nn _ _ [0, 1] m0 X hB hW Gen.CSrc.znx_normalize (by decide)
    (by decide) _ _ hMR _ fuel hk
  rw [hrun]
  have hX := arena_one B nn _ _ [0, 1] 1 1 t X X' _ hM hF
    (by intro p hp o ho
        simp only [List.mem_cons, List.mem_singleton, List.not_mem_nil, or_false] at hp
        rcases hp with rfl | rfl <;> simp [List.getD] at ho <;> omega) rfl rfl
  rw [hX, buf_kOf4]
  simp [buf]

theorem arena_norm_out_cout (hnn : nn < 18446744073709551616) (k : Nat) (hk1 : 1 ≤ k) (hk2 : k ≤ 63) (ro ao t : Nat)
    (hr : ro + nn ≤ X.size) (ha : ao + nn ≤ X.size) (ht : t + nn ≤ X.size) (hda : SameOrDisj nn ro ao) (hrt : ro + nn ≤ t ∨ t + nn ≤ ro) (hat : ao + nn ≤ t ∨ t + nn ≤ ao) :
    ∀ fuel, nn ≤ fuel →
      run fuel Gen.CSrc.znx_normalize [(nn : Int), (k : Int)] [some (B, ro), some (B, t), some (B, ao), none] (m0.setIfInBounds B X)
        = .ok (m0.setIfInBounds B (Heap.writeArr (Heap.writeArr X ro (Coeffs.znxNormalize nn k (win X ao nn) none).1) t (Coeffs.znxNormalize nn k (win X ao nn) none).2)) := by
  intro fuel hf
  have hk := src_znx_normalize_out_cout_eq_model nn hnn k hk1 hk2 #[win X ro nn, win X t nn, win X ao nn]
    0 1 (kOf ao ro 2) (by decide) (by simp [buf]) (by simp [buf]) (by rw [buf_kOf4]; simp) fuel hf
  have hW := (win4 B nn ro ao t hda hrt hat).weaken [some (B, ro), some (B, t), some (B, ao), none] [some (0, 0), some (1, 0), some (kOf ao ro 2, 0), none]
      (by intro q; rcases q with _ | _ | _ | _ | q <;> simp)
  have hMR := (mr4 B nn ro ao t X hr ha ht).weaken [some (B, ro), some (B, t), some (B, ao), none] [some (0, 0), some (1, 0), some (kOf ao ro 2, 0), none]
      (by intro q; rcases q with _ | _ | _ | _ | q <;> simp)
  obtain ⟨X', hrun, hM, hF⟩ := run_window_gen B nn _ _ [0, 1] m0 X hB hW Gen.CSrc.znx_normalize (by decide)
    (by decide) _ _ hMR _ fuel hk
  rw [hrun]
  have hX := arena_two B nn _ _ [0, 1] 0 1 0 1 ro t X X' _ hM hF
    (by intro p hp o ho
        simp only [List.mem_cons, List.mem_singleton, List.not_mem_nil, or_false] at hp
        rcases hp with rfl | rfl <;> simp [List.getD] at ho <;> omega) rfl rfl rfl rfl
  rw [hX, buf_kOf4]
  simp [buf]

theorem arena_norm_out_cout_cin (hnn : nn < 18446744073709551616) (k : Nat) (hk1 : 1 ≤ k) (hk2 : k ≤ 63) (ro ao t : Nat)
    (hr : ro + nn ≤ X.size) (ha : ao + nn ≤ X.size) (ht : t + nn ≤ X.size) (hda : SameOrDisj nn ro ao) (hrt : ro + nn ≤ t ∨ t + nn ≤ ro) (hat : ao + nn ≤ t ∨ t + nn ≤ ao) :
    ∀ fuel, nn ≤ fuel →
      run fuel Gen.CSrc.znx_normalize [(nn : Int), (k : Int)] [some (B, ro), some (B, t), some (B, ao), some (B, t)] (m0.setIfInBounds B X)
        = .ok (m0.setIfInBounds B (Heap.writeArr (Heap.writeArr X ro (Coeffs.znxNormalize nn k (win X ao nn) (some (win X t nn))).1) t (Coeffs.znxNormalize nn k (win X ao nn) (some (win X t nn))).2)) := by
  intro fuel hf
  have hk := src_znx_normalize_out_cout_cin_eq_model nn hnn k hk1 hk2 #[win X ro nn, win X t nn, win X ao nn]
    0 1 (kOf ao ro 2) 1 (by decide) (by simp [buf]) (by simp [buf]) (by rw [buf_kOf4]; simp) (by simp [buf]) fuel hf
  have hW := (win4 B nn ro ao t hda hrt hat)
  have hMR := (mr4 B nn ro ao t X hr ha ht)
  obtain ⟨X', hrun, hM, hF⟩ := run_window_gen B nn _ _ [0, 1] m0 X hB hW Gen.CSrc.znx_normalize (by decide)
    (by decide) _ _ hMR _ fuel hk
  rw [hrun]
  have hX := arena_two B nn _ _ [0, 1] 0 1 0 1 ro t X X' _ hM hF
    (by intro p hp o ho
        simp only [List.mem_cons, List.mem_singleton, List.not_mem_nil, or_false] at hp
        rcases hp with rfl | rfl <;> simp [List.getD] at ho <;> omega) rfl rfl rfl rfl
  rw [hX, buf_kOf4]
  simp [buf]

theorem arena_norm_out (hnn : nn < 18446744073709551616) (k : Nat) (hk1 : 1 ≤ k) (hk2 : k ≤ 63) (ro ao t : Nat)
    (hr : ro + nn ≤ X.size) (ha : ao + nn ≤ X.size) (ht : t + nn ≤ X.size) (hda : SameOrDisj nn ro ao) (hrt : ro + nn ≤ t ∨ t + nn ≤ ro) (hat : ao + nn ≤ t ∨ t + nn ≤ ao) :
    ∀ fuel, nn ≤ fuel →
      run fuel Gen.CSrc.znx_normalize [(nn : Int), (k : Int)] [some (B, ro), none, some (B, ao), none] (m0.setIfInBounds B X)
        = .ok (m0.setIfInBounds B (Heap.writeArr X ro (Coeffs.znxNormalize nn k (win X ao nn) none).1)) := by
  intro fuel hf
  have hk := src_znx_normalize_out_eq_model nn hnn k hk1 hk2 #[win X ro nn, win X t nn, win X ao nn]
    0 (kOf ao ro 2) (by simp [buf]) (by rw [buf_kOf4]; simp) fuel hf
  have hW := (win4 B nn ro ao t hda hrt hat).weaken [some (B, ro), none, some (B, ao), none] [some (0, 0), none, some (kOf ao ro 2, 0), none]
      (by intro q; rcases q with _ | _ | _ | _ | q <;> simp)
  have hMR := (mr4 B nn ro ao t X hr ha ht).weaken [some (B, ro), none, some (B, ao), none] [some (0, 0), none, some (kOf ao ro 2, 0), none]
      (by intro q; rcases q with _ | _ | _ | _ | q <;> simp)
  obtain ⟨X', hrun, hM, hF⟩ := run_window_gen B nn _ _ [0, 1] m0 X hB hW Gen.CSrc.znx_normalize (by decide)
    (by decide) _ _ hMR _ fuel hk
  rw [hrun]
  have hX := arena_one B nn _ _ [0, 1] 0 0 ro X X' _ hM hF
    (by intro p hp o ho
        simp only [List.mem_cons, List.mem_singleton, List.not_mem_nil, or_false] at hp
        rcases hp with rfl | rfl <;> simp [List.getD] at ho <;> omega) rfl rfl
  rw [hX, buf_kOf4]
  simp [buf]

theorem arena_norm_out_cin (hnn : nn < 18446744073709551616) (k : Nat) (hk1 : 1 ≤ k) (hk2 : k ≤ 63) (ro ao t : Nat)
    (hr : ro + nn ≤ X.size) (ha : ao + nn ≤ X.size) (ht : t + nn ≤ X.size) (hda : SameOrDisj nn ro ao) (hrt : ro + nn ≤ t ∨ t + nn ≤ ro) (hat : ao + nn ≤ t ∨ t + nn ≤ ao) :
    ∀ fuel, nn ≤ fuel →
      run fuel Gen.CSrc.znx_normalize [(nn : Int), (k : Int)] [some (B, ro), none, some (B, ao), some (B, t)] (m0.setIfInBounds B X)
        = .ok (m0.setIfInBounds B (Heap.writeArr X ro (Coeffs.znxNormalize nn k (win X ao nn) (some (win X t nn))).1)) := by
  intro fuel hf
  have hk := src_znx_normalize_out_cin_eq_model nn hnn k hk1 hk2 #[win X ro nn, win X t nn, win X ao nn]
    0 (kOf ao ro 2) 1 (by simp [buf]) (by rw [buf_kOf4]; simp) (by simp [buf]) fuel hf
  have hW := (win4 B nn ro ao t hda hrt hat).weaken [some (B, ro), none, some (B, ao), some (B, t)] [some (0, 0), none, some (kOf ao ro 2, 0), some (1, 0)]
      (by intro q; rcases q with _ | _ | _ | _ | q <;> simp)
  have hMR := (mr4 B nn ro ao t X hr ha ht).weaken [some (B, ro), none, some (B, ao), some (B, t)] [some (0, 0), none, some (kOf ao ro 2, 0), some (1, 0)]
      (by intro q; rcases q with _ | _ | _ | _ | q <;> simp)
  obtain ⟨X', hrun, hM, hF⟩ := run_window_gen B nn _ _ [0, 1] m0 X hB hW Gen.CSrc.znx_normalize (by decide)
    (by decide) _ _ hMR _ fuel hk
  rw [hrun]
  have hX := arena_one B nn _ _ [0, 1] 0 0 ro X X' _ hM hF
    (by intro p hp o ho
        simp only [List.mem_cons, List.mem_singleton, List.not_mem_nil, or_false] at hp
        rcases hp with rfl | rfl <;> simp [List.getD] at ho <;> omega) rfl rfl
  rw [hX, buf_kOf4]
  simp [buf]

end kern

end Spq.CIR
