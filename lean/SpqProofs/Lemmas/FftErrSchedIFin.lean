/-
  C06.4: assembled rounding bound of the inverse reim transform on binary64, and the characterisation of the exact
  inverse network (`V ∘ WIk = 2^k · id`, `WIk ∘ V = 2^k · id` is `WIk_of_evals`).
-/
import SpqProofs.Lemmas.FftErrSchedIXfer
import SpqProofs.Lemmas.FftErrSchedINetN
import SpqProofs.Lemmas.FftErrSchedFin
set_option linter.unusedSectionVars false
namespace Spq.FftErr
open Finset Spq.Fft Spq.Fft.Alg Spq.Fft.RelN Spq.Fft.SimP Spq.Fft.LevelN Spq.Fft.SchedN Spq.Fft.Sim Spq.F64
variable {K : Type} [Field K] [LinearOrder K] [IsStrictOrderedRing K]

/-- the exact (unnormalised) inverse transform of the values of `data`: output `j` of the exact inverse network -/
def exactInv (ζi : Cplx K) (k : ℕ) (data : Array ℕ) (j : ℕ) : Cplx K :=
  WIk k ζi (fun p => toC (((val data[p]! : ℚ) : K), ((val data[2 ^ k + p]! : ℚ) : K))) k j

/-- the exact forward network applied to the exact inverse network gives `2^k ·` the input -/
theorem V_of_WIk (k : ℕ) (ζ ζi : Cplx K) (hinv : ζ * ζi = 1) (y : ℕ → Cplx K) :
    ∀ ℓ, ℓ ≤ k → ∀ p, V ζ (fun q => WIk k ζi y k q) ℓ (k - ℓ) p = 2 ^ ℓ * WIk k ζi y (k - ℓ) p := by
  intro ℓ
  induction ℓ with
  | zero => intro _ p; simp [V]
  | succ ℓ ih =>
    intro hk p
    have ih' := ih (by omega)
    obtain ⟨d, hd⟩ : ∃ d, k - (ℓ + 1) = d := ⟨_, rfl⟩
    have e1 : k - ℓ = d + 1 := by omega
    have e2 : k - 1 - d = ℓ := by omega
    have hW : ∀ b, ζ ^ twE ℓ d b * ζi ^ twE ℓ d b = 1 := fun b => by rw [← mul_pow, hinv, one_pow]
    rw [hd]
    rw [e1] at ih'
    have w1 : ∀ q, WIk k ζi y (d + 1) q = ILvl (fun b => ζi ^ twE ℓ d b) (2 ^ d) (WIk k ζi y d) q := by
      intro q; unfold WIk; rw [WI]; simp only [e2]
    obtain ⟨b, r, hr, hp | hp⟩ := cell_cases (2 ^ d) (Nat.two_pow_pos d) p
    · obtain ⟨m1, m2⟩ := pos_lo (2 ^ d) b r hr
      rw [hp, V, m1, m2, if_pos hr, ih', ih', w1, w1, ILvl_lo _ _ _ b r hr, ILvl_hi _ _ _ b r hr]
      linear_combination (2 ^ ℓ * (WIk k ζi y d (2 * 2 ^ d * b + r) - WIk k ζi y d (2 * 2 ^ d * b + r + 2 ^ d))) * hW b
    · obtain ⟨m3, m4⟩ := pos_hi (2 ^ d) b r hr
      rw [hp, V, m3, m4, if_neg (by omega), Nat.add_sub_cancel, ih', ih', w1, w1, ILvl_lo _ _ _ b r hr,
        ILvl_hi _ _ _ b r hr]
      linear_combination (-(2 : Cplx K) ^ ℓ * (WIk k ζi y d (2 * 2 ^ d * b + r) - WIk k ζi y d (2 * 2 ^ d * b + r + 2 ^ d))) * hW b

/-- the cells `p < 2^k` of the exact inverse network depend only on the inputs `p < 2^k` -/
theorem WI_congr_on (w : ℕ → ℕ → Cplx K) (k : ℕ) (y y' : ℕ → Cplx K) (hy : ∀ p, p < 2 ^ k → y p = y' p) :
    ∀ n p, n ≤ k → p < 2 ^ k → WI w y n p = WI w y' n p := by
  intro n
  induction n with
  | zero => intro p _ hp; exact hy p hp
  | succ n ih =>
    intro p hk hp
    have hk' : n ≤ k := by omega
    obtain ⟨h, hh⟩ : ∃ h, h = 2 ^ n := ⟨_, rfl⟩
    have hpos : 0 < h := by rw [hh]; exact Nat.two_pow_pos n
    have hk2 : 2 ^ k = 2 * h * 2 ^ (k - 1 - n) := by
      rw [hh, show 2 * 2 ^ n = 2 ^ (n + 1) by rw [pow_succ]; ring, ← pow_add]; congr 1; omega
    rw [WI, WI, ILvl, ILvl]
    simp only [← hh]
    split
    · rename_i hlt
      have hp2 : p + h < 2 ^ k := by
        have hb : p / (2 * h) < 2 ^ (k - 1 - n) := by
          apply Nat.div_lt_of_lt_mul; rw [← hk2]; exact hp
        have hblk : 2 * h * (p / (2 * h) + 1) ≤ 2 ^ k := by rw [hk2]; exact Nat.mul_le_mul_left _ hb
        have := Nat.div_add_mod p (2 * h)
        rw [Nat.mul_add] at hblk
        omega
      rw [ih _ hk' hp, ih _ hk' hp2]
    · rw [ih _ hk' (by omega), ih _ hk' hp]

/-- assembled bound for a family of inverse implementations -/
theorem ifft_err_fam (Fam : ∀ {α : Type}, Arith α → Flav α) (hFam : FamOK Fam)
    (hErr : ∀ (A : Arith K) (u τ : K), FStd A u → 0 ≤ τ → InvErrOK (Fam A) τ (eta u τ))
    (k : ℕ) (ζi : Cplx K) (hζ : nsq ζi = 1) (hI : ζi ^ 2 ^ k = -Ic) (cN sN : ℕ → ℕ)
    (hcs : ∀ ℓ d b, ℓ + d + 1 = k → b < 2 ^ ℓ →
      nsq (toC (((val (cN (twE ℓ d b)) : ℚ) : K), ((val (sN (twE ℓ d b)) : ℚ) : K)) - ζi ^ twE ℓ d b) ≤
        (((7 / 2 * u64 : ℚ)) : K) ^ 2)
    (data : Array ℕ) (hdata : data.size = 2 * 2 ^ k)
    (hok : ∀ p, p < 2 * 2 ^ k →
      ((reimIfftA (Fam aOk) (2 ^ k) ((((reimIfftEnts (2 ^ k)).map (valP cN sN)).toArray).map lift) (data.map lift))[p]!).2) :
    (∀ p, p < 2 * 2 ^ k → Fin64 ((reimIfftA (Fam f64) (2 ^ k) ((reimIfftEnts (2 ^ k)).map (valP cN sN)).toArray data)[p]!)) ∧
    ∑ j ∈ range (2 ^ k), nsq (outC (reimIfftA (Fam f64) (2 ^ k) ((reimIfftEnts (2 ^ k)).map (valP cN sN)).toArray data) k j
        - exactInv ζi k data j) ≤
      ((1 + ((8 * u64 : ℚ) : K)) ^ k - 1) ^ 2 * ∑ j ∈ range (2 ^ k), nsq (exactInv ζi k data j) := by
  have xf := ifft_transfer (K := K) Fam hFam k cN sN data hdata hok
  constructor
  · intro p hp
    by_cases h : p < 2 ^ k
    · exact (xf p h).1
    · have := (xf (p - 2 ^ k) (by omega)).2.1
      rwa [show 2 ^ k + (p - 2 ^ k) = p by omega] at this
  have hτ0 : (0 : K) ≤ ((7 / 2 * u64 : ℚ) : K) := by
    have : (0 : ℚ) ≤ 7 / 2 * u64 := by unfold u64; positivity
    exact_mod_cast this
  have hu0 : (0 : K) ≤ ((u64 : ℚ) : K) := by
    have : (0 : ℚ) ≤ u64 := by unfold u64; positivity
    exact_mod_cast this
  have hη0 := eta_nonneg hu0 hτ0
  have ne := inetN_err (Fam (liftA aG : Arith K)) (fun e => ((val (cN e) : ℚ) : K)) (fun e => ((val (sN e) : ℚ) : K)) k ζi
    _ _ (hErr (liftA aG) _ _ (liftA_fstd aG u64 aG_fstd) hτ0) hη0 hζ hI hcs
    (fun p => (((val data[p]! : ℚ) : K), ((val data[2 ^ k + p]! : ℚ) : K)))
  have e1 : ∀ j ∈ range (2 ^ k), toC (VNI k (gNet (Fam (liftA aG : Arith K)) (fun e => ((val (cN e) : ℚ) : K))
      (fun e => ((val (sN e) : ℚ) : K)) k) (fun p => (((val data[p]! : ℚ) : K), ((val data[2 ^ k + p]! : ℚ) : K))) k j)
      = outC (reimIfftA (Fam f64) (2 ^ k) ((reimIfftEnts (2 ^ k)).map (valP cN sN)).toArray data) k j := by
    intro j hj
    obtain ⟨_, _, h3, h4⟩ := xf j (mem_range.1 hj)
    unfold outC toC
    rw [h3, h4]
  have s1 : ∑ j ∈ range (2 ^ k), nsq (toC (VNI k (gNet (Fam (liftA aG : Arith K)) (fun e => ((val (cN e) : ℚ) : K))
      (fun e => ((val (sN e) : ℚ) : K)) k) (fun p => (((val data[p]! : ℚ) : K), ((val data[2 ^ k + p]! : ℚ) : K))) k j)
      - WIk k ζi (fun p => toC (((val data[p]! : ℚ) : K), ((val data[2 ^ k + p]! : ℚ) : K))) k j)
      = ∑ j ∈ range (2 ^ k), nsq (outC (reimIfftA (Fam f64) (2 ^ k) ((reimIfftEnts (2 ^ k)).map (valP cN sN)).toArray data) k j
        - exactInv ζi k data j) := sum_congr rfl (fun j hj => by rw [e1 j hj]; rfl)
  rw [s1] at ne
  refine le_trans ne (mul_le_mul_of_nonneg_right (pow_sub_one_sq_mono _ _ hη0 eta64_le k) ?_)
  exact sum_nonneg (fun j _ => nsq_nonneg _)

/-- the inverse implementation selected by the flavour -/
def ifamOf (fma : Bool) : ∀ {α : Type}, Arith α → Flav α := fun {α} A => if fma then invFma (α := α) A else invRef A

theorem reimIfft_eq (fma : Bool) (m : ℕ) (T data : Array ℕ) :
    reimIfft (if fma then "fma" else "ref") m T data = reimIfftA (ifamOf fma f64) m T data := by
  cases fma <;> rfl

end Spq.FftErr
