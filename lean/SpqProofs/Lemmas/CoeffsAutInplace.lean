/-
  In-place automorphism: the level loop `autLevels` reaches the final state for every `nn = 2^t`,
  every odd multiplier, provided the fuel covers the `t` levels.
-/
import SpqProofs.Lemmas.CoeffsAutCases
namespace Spq.Rq
open Spq
variable {α : Type}

theorem mod_zero_lt_three (x m : Nat) (h : x % m = 0) (hx : x < 3 * m) : x = 0 ∨ x = m ∨ x = 2 * m := by
  rcases Nat.lt_or_ge x m with c | c
  · left; rwa [Nat.mod_eq_of_lt c] at h
  · right
    rw [Nat.mod_eq_sub_mod c] at h
    rcases mod_zero_lt_two (x - m) m h (by omega) with h' | h' <;> omega

theorem mod_succ_cases (b y : Nat) (h : y % 2 ^ b = 0) :
    y % 2 ^ (b + 1) = 0 ∨ y % 2 ^ (b + 1) = 2 ^ b := by
  have hB : 0 < 2 ^ b := Nat.pow_pos (by norm_num)
  have hB2 : 2 ^ (b + 1) = 2 * 2 ^ b := by ring
  obtain ⟨k, hk⟩ := Nat.dvd_of_mod_eq_zero h
  rcases Nat.mod_two_eq_zero_or_one k with hk2 | hk2
  · left
    obtain ⟨q, hq⟩ : ∃ q, k = 2 * q := ⟨k / 2, by omega⟩
    have : y = q * 2 ^ (b + 1) := by rw [hk, hq, hB2]; ring
    rw [this, Nat.mul_mod_left]
  · right
    obtain ⟨q, hq⟩ : ∃ q, k = 2 * q + 1 := ⟨k / 2, by omega⟩
    have : y = 2 ^ b + q * 2 ^ (b + 1) := by rw [hk, hq, hB2]; ring
    rw [this, Nat.add_mul_mod_self_right]; exact Nat.mod_eq_of_lt (by omega)

/-! ### case 5: the general branch -/
theorem case5 (o : Ops α) (b n pm : Nat) (hpm2 : pm % 2 = 1)
    (hne1 : (2 : ZMod (2 ^ (b + n + 2))) ^ b * pm ≠ 2 ^ b)
    (hne2 : (2 : ZMod (2 ^ (b + n + 2))) ^ b * pm ≠ -(2 ^ b))
    (x res : Array α) (h : LevelInv o (2 ^ (b + n + 2)) pm b x res) :
    LevelInv o (2 ^ (b + n + 2)) pm (b + 1) x
      (Coeffs.autWalkAll o (2 ^ (b + n + 2)) pm (2 * 2 ^ n) (2 ^ (b + n + 2)) (2 ^ b) 0 res) := by
  obtain ⟨h1, h2, h3⟩ := h
  obtain ⟨w1, w2, w3⟩ := autWalkAll_level o b n pm hpm2 hne1 hne2 res h1
  have hB : 0 < 2 ^ b := Nat.pow_pos (by norm_num)
  have hN : 0 < 2 ^ (b + n + 2) := Nat.pow_pos (by norm_num)
  have mod_mod : ∀ z, z % 2 ^ (b + 1) % 2 ^ b = z % 2 ^ b := fun z =>
    Nat.mod_mod_of_dvd _ ⟨2, by ring⟩
  refine ⟨w1, ?_, ?_⟩
  · intro y hy c
    by_cases c0 : y % 2 ^ b = 0
    · rcases mod_succ_cases b y c0 with h' | h'
      · exact absurd h' c
      · rw [w3 y hy h', h3 y hy c0]
    · have hs := sigma_mod_ne (b + n + 2) b pm y (by omega) hpm2 c0
      rw [w2 _ (autSigma_lt _ _ _ hN) ?_]
      · exact h2 y hy c0
      · intro e
        have := mod_mod (autSigma (2 ^ (b + n + 2)) pm y)
        rw [e, Nat.mod_self] at this
        exact hs this.symm
  · intro y hy c
    rw [w2 y hy (by rw [c]; omega)]
    apply h3 y hy
    have := mod_mod y
    rw [c] at this
    simpa using this.symm

/-- `(a mod 2N : ZMod N) = a` -/
theorem cast_mod_two_mul (N a : Nat) : (((a % (2 * N) : Nat)) : ZMod N) = (a : ZMod N) := by
  rw [ZMod.natCast_eq_natCast_iff', Nat.mod_mod_of_dvd _ ⟨2, by ring⟩]

theorem hne_of_not_c3 (t b pm : Nat) (hb : b < t)
    (h : ¬ ((2 ^ b * pm) % (2 * 2 ^ t) + 2 * 2 ^ t - 2 ^ b) % 2 ^ t = 0) :
    (2 : ZMod (2 ^ t)) ^ b * pm ≠ 2 ^ b := by
  intro e
  apply h
  apply Nat.mod_eq_zero_of_dvd
  rw [← ZMod.natCast_eq_zero_iff]
  have hle : 2 ^ b ≤ 2 ^ t := Nat.pow_le_pow_right (by norm_num) (Nat.le_of_lt hb)
  rw [Nat.cast_sub (by omega), Nat.cast_add, cast_mod_two_mul]
  have h0 : ((2 ^ t : Nat) : ZMod (2 ^ t)) = 0 := ZMod.natCast_self _
  push_cast at h0 ⊢
  linear_combination e + 2 * h0

theorem hne_of_not_c4 (t b pm : Nat)
    (h : ¬ ((2 ^ b * pm) % (2 * 2 ^ t) + 2 ^ b) % 2 ^ t = 0) :
    (2 : ZMod (2 ^ t)) ^ b * pm ≠ -(2 ^ b) := by
  intro e
  apply h
  apply Nat.mod_eq_zero_of_dvd
  rw [← ZMod.natCast_eq_zero_iff]
  rw [Nat.cast_add, cast_mod_two_mul]
  push_cast
  linear_combination e

theorem gap_ge_three (t b pm : Nat) (hpm2 : pm % 2 = 1)
    (hne1 : (2 : ZMod (2 ^ t)) ^ b * pm ≠ 2 ^ b) (hne2 : (2 : ZMod (2 ^ t)) ^ b * pm ≠ -(2 ^ b)) :
    b + 3 ≤ t := by
  by_contra hcon
  have hle : t ≤ b + 2 := by omega
  have h0 : ((2 : ZMod (2 ^ t))) ^ (b + 2) = 0 := by
    have : ((2 ^ (b + 2) : Nat) : ZMod (2 ^ t)) = 0 :=
      (ZMod.natCast_eq_zero_iff _ _).2 (Nat.pow_dvd_pow 2 hle)
    push_cast at this; exact this
  obtain ⟨q, hq⟩ : ∃ q, pm = 4 * q + 1 ∨ pm = 4 * q + 3 := ⟨pm / 4, by omega⟩
  rcases hq with hq | hq
  · apply hne1
    rw [hq]; push_cast
    linear_combination (q : ZMod (2 ^ t)) * h0
  · apply hne2
    rw [hq]; push_cast
    linear_combination ((q : ZMod (2 ^ t)) + 1) * h0

/-! ### the level loop -/
theorem autLevels_spec (o : Ops α) (t pm : Nat) (hpm2 : pm % 2 = 1) (x : Array α) :
    ∀ (fuel b binval vp orbSize : Nat) (res : Array α), b ≤ t → t ≤ b + fuel →
      binval = 2 ^ b → vp = (2 ^ b * pm) % (2 * 2 ^ t) → orbSize = 2 ^ t / 2 ^ (b + 1) →
      LevelInv o (2 ^ t) pm b x res →
      AutFin o (2 ^ t) pm x (Coeffs.autLevels o (2 ^ t) pm fuel binval vp orbSize res) := by
  have hN : 0 < 2 ^ t := Nat.pow_pos (by norm_num)
  intro fuel
  induction fuel with
  | zero =>
    intro b binval vp orbSize res hbt hfuel _ _ _ hinv
    have : b = t := by omega
    subst this
    exact LevelInv.fin_of_top o b pm x res hinv
  | succ fuel ih =>
    intro b binval vp orbSize res hbt hfuel hbin hvp horb hinv
    have hB : 0 < 2 ^ b := Nat.pow_pos (by norm_num)
    unfold Coeffs.autLevels
    by_cases hlt : binval < 2 ^ t
    · rw [if_pos hlt]
      have hb : b < t := by
        rw [hbin] at hlt
        exact (Nat.pow_lt_pow_iff_right (by norm_num)).1 hlt
      have hBle : 2 ^ b ≤ 2 ^ t := Nat.pow_le_pow_right (by norm_num) hbt
      have hBlt : 2 ^ b < 2 ^ t := by rw [← hbin]; exact hlt
      have hvplt : vp < 2 * 2 ^ t := by rw [hvp]; exact Nat.mod_lt _ (by omega)
      simp only []
      by_cases c1 : vp = binval
      · rw [if_pos c1]
        exact case1 o t b pm (by rw [← hvp, c1, hbin]) x res hinv
      · rw [if_neg c1]
        by_cases c2 : (vp + binval) % (2 * 2 ^ t) = 0
        · rw [if_pos c2]
          have hc : (2 ^ b * pm) % (2 * 2 ^ t) + 2 ^ b = 2 * 2 ^ t := by
            rw [← hvp, ← hbin]
            rcases mod_zero_lt_two _ _ c2 (by omega) with h' | h'
            · omega
            · exact h'
          rw [hbin]
          exact case2 o t b pm hb hc hpm2 x res hinv
        · rw [if_neg c2]
          by_cases c3 : (vp + 2 * 2 ^ t - binval) % 2 ^ t = 0
          · rw [if_pos c3]
            have hc : (2 ^ b * pm) % (2 * 2 ^ t) = 2 ^ b + 2 ^ t := by
              rw [← hvp]
              have e1 : vp + 2 * 2 ^ t - binval = (vp + 2 ^ t - binval) + 2 ^ t := by omega
              rw [e1, Nat.add_mod_right] at c3
              rcases mod_zero_lt_three _ _ c3 (by omega) with h' | h' | h' <;> omega
            rw [hbin]
            exact case3 o t b pm hb hc hpm2 x res hinv
          · rw [if_neg c3]
            have hb1 : 2 * binval = 2 ^ (b + 1) := by rw [hbin]; ring
            have hvp1 : (2 * vp) % (2 * 2 ^ t) = (2 ^ (b + 1) * pm) % (2 * 2 ^ t) := by
              rw [hvp, Nat.mul_mod_mod]; congr 1; ring
            have horb1 : orbSize / 2 = 2 ^ t / 2 ^ (b + 1 + 1) := by
              rw [horb, Nat.div_div_eq_div_mul]; congr 1
            by_cases c4 : (vp + binval) % 2 ^ t = 0
            · rw [if_pos c4]
              have hc : (2 ^ b * pm) % (2 * 2 ^ t) + 2 ^ b = 2 ^ t := by
                rw [← hvp, ← hbin]
                rcases mod_zero_lt_three _ _ c4 (by omega) with h' | h' | h'
                · omega
                · exact h'
                · exfalso; apply c2; rw [h']; exact Nat.mod_self _
              have hb2 : b + 1 < t := by
                by_contra hcon
                have : t = b + 1 := by omega
                subst this
                apply c1
                rw [hvp, hbin]
                have : 2 ^ (b + 1) = 2 * 2 ^ b := by ring
                omega
              have := case4 o t b pm hb2 hc hpm2 x res hinv
              rw [hbin]
              exact ih (b + 1) _ _ _ _ (by omega) (by omega) (by rw [← hbin, hb1]) hvp1 horb1 this
            · rw [if_neg c4]
              rw [hvp, hbin] at c3 c4
              have hne1 := hne_of_not_c3 t b pm hb c3
              have hne2 := hne_of_not_c4 t b pm c4
              have hgap := gap_ge_three t b pm hpm2 hne1 hne2
              obtain ⟨n, rfl⟩ : ∃ n, t = b + n + 2 := ⟨t - b - 2, by omega⟩
              have horb' : orbSize = 2 * 2 ^ n := by
                rw [horb]
                have : 2 ^ (b + n + 2) = 2 ^ (b + 1) * (2 * 2 ^ n) := by ring
                rw [this, Nat.mul_div_cancel_left _ (Nat.pow_pos (by norm_num))]
              have := case5 o b n pm hpm2 hne1 hne2 x res hinv
              rw [hbin, horb']
              exact ih (b + 1) _ _ _ _ (by omega) (by omega) (by rw [← hbin, hb1])
                hvp1 (by rw [← horb']; exact horb1) this
    · rw [if_neg hlt]
      have : b = t := by
        rw [hbin] at hlt
        have : ¬ b < t := fun h => hlt (Nat.pow_lt_pow_right (by norm_num) h)
        omega
      subst this
      exact LevelInv.fin_of_top o b pm x res hinv

/-! ### connection with the out-of-place specification -/

theorem autExp_eq_E (nn : Nat) (hn : 0 < nn) (p : Int) (i : Nat) :
    autExp nn p i = autE nn (posMask p (2 * nn)) i := by
  unfold autExp autE posMask
  have h0 := Int.emod_nonneg p (show ((2 * nn : Nat) : Int) ≠ 0 by omega)
  have h1 := Int.emod_nonneg ((i : Int) * p) (show ((2 * nn : Nat) : Int) ≠ 0 by omega)
  have : (((i * (p % ((2 * nn : Nat) : Int)).toNat) % (2 * nn) : Nat) : Int) =
      ((i : Int) * p) % ((2 * nn : Nat) : Int) := by
    rw [Int.natCast_mod, Nat.cast_mul, Int.toNat_of_nonneg h0, Int.mul_emod, Int.emod_emod, ← Int.mul_emod]
  omega

theorem posMask_odd (nn : Nat) (hn : 0 < nn) (p : Int) (hp : p % 2 = 1) : posMask p (2 * nn) % 2 = 1 := by
  unfold posMask
  have h0 := Int.emod_nonneg p (show ((2 * nn : Nat) : Int) ≠ 0 by omega)
  have : (p % ((2 * nn : Nat) : Int)) % 2 = p % 2 := Int.emod_emod_of_dvd p ⟨nn, by push_cast; ring⟩
  omega

/-- the level loop started as in `automorphismInplace` reaches the final state (any fuel `≥ t`) -/
theorem automLevels_fin (o : Ops α) (t fuel : Nat) (ht : t ≤ fuel) (p : Int) (hp : p % 2 = 1) (x : Array α)
    (hx : x.size = 2 ^ t) :
    AutFin o (2 ^ t) (posMask p (2 * 2 ^ t)) x
      (Coeffs.autLevels o (2 ^ t) (posMask p (2 * 2 ^ t)) fuel 1 (posMask p (2 * 2 ^ t)) (2 ^ t / 2) x) := by
  have hN : 0 < 2 ^ t := Nat.pow_pos (by norm_num)
  apply autLevels_spec o t _ (posMask_odd _ hN p hp) x fuel 0 _ _ _ x (by omega) (by omega) rfl
  · rw [pow_zero, Nat.one_mul, Nat.mod_eq_of_lt (posMask_lt p _ (by omega))]
  · simp
  · exact ⟨hx, fun y _ h => absurd (Nat.mod_one y) (by simpa using h), fun _ _ _ => rfl⟩

theorem automLevels_eq (o : Ops α) (t fuel : Nat) (ht : t ≤ fuel) (p : Int) (hp : p % 2 = 1)
    (x x0 : Array α) (hx : x.size = 2 ^ t) (hx0 : x0.size = 2 ^ t) :
    Coeffs.autLevels o (2 ^ t) (posMask p (2 * 2 ^ t)) fuel 1 (posMask p (2 * 2 ^ t)) (2 ^ t / 2) x =
      Coeffs.automorphism o (2 ^ t) p x x0 := by
  have hN : 0 < 2 ^ t := Nat.pow_pos (by norm_num)
  obtain ⟨f1, f2⟩ := automLevels_fin o t fuel ht p hp x hx
  have s2 : (Coeffs.automorphism o (2 ^ t) p x x0).size = 2 ^ t := by rw [autom_size, hx0]
  apply Array.ext (by rw [f1, s2])
  intro k hk1 hk2
  obtain ⟨i, hi, e⟩ := autPos_surj t p hp k (by rw [← s2]; exact hk2)
  have a := f2 i hi
  have b := autom_scatter o t p hp x x0 hx0 i hi
  rw [autSigma_eq_E, ← autExp_eq_E _ hN, e] at a
  rw [e] at b
  rw [autG_eq_E, ← autExp_eq_E _ hN] at a
  rw [Array.getD_eq_getD_getElem?, Array.getElem?_eq_getElem hk1, Option.getD_some] at a
  rw [Array.getD_eq_getD_getElem?, Array.getElem?_eq_getElem hk2, Option.getD_some] at b
  rw [a, b]; rfl

theorem automInplace_eq (o : Ops α) (t : Nat) (ht : t ≤ 64) (p : Int) (hp : p % 2 = 1) (x x0 : Array α)
    (hx : x.size = 2 ^ t) (hx0 : x0.size = 2 ^ t) :
    Coeffs.automorphismInplace o (2 ^ t) p x = Coeffs.automorphism o (2 ^ t) p x x0 :=
  automLevels_eq o t 64 ht p hp x x0 hx hx0

end Spq.Rq
