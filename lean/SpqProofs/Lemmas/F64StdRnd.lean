/-
  `pack` depends only on the value it rounds (`pack_scale`); the rounding function `rnd : ℚ → ℚ` on rationals
  (round to nearest, ties to even, to binary64 — exact on the multiples of 2^-2148, which contain every sum,
  product and fused multiply-add of two or three doubles) and `val (F64.op a b) = rnd (val a ∘ val b)`.
-/
import SpqProofs.Lemmas.F64StdOps

namespace Spq.F64

/-! ### scaling invariance of `pack` -/

theorem rne_scale (M k t : Nat) (hk : 1 ≤ k) : rne (M * 2 ^ t) (k + t) = rne M k := by
  have hP : 0 < 2 ^ t := by positivity
  have e1 : 2 ^ (k + t) = 2 ^ k * 2 ^ t := pow_add 2 k t
  have e2 : 2 ^ (k + t - 1) = 2 ^ (k - 1) * 2 ^ t := by rw [← pow_add]; congr 1; omega
  unfold rne
  rw [e1, e2, Nat.mul_mod_mul_right, Nat.mul_div_mul_right _ _ hP]
  generalize M % 2 ^ k = r
  generalize 2 ^ (k - 1) = h
  generalize 2 ^ t = P at *
  have c1 : (r * P > h * P) ↔ (r > h) := by
    constructor
    · intro hh; exact Nat.lt_of_mul_lt_mul_right hh
    · intro hh; exact Nat.mul_lt_mul_of_pos_right hh hP
  have c2 : (r * P = h * P) ↔ (r = h) := by
    constructor
    · intro hh; exact Nat.eq_of_mul_eq_mul_right hP hh
    · intro hh; rw [hh]
  simp only [c1, c2, beq_iff_eq, Bool.or_eq_true, Bool.and_eq_true, decide_eq_true_eq]
theorem log2_scale {M : Nat} (hM : M ≠ 0) (t : Nat) : (M * 2 ^ t).log2 + 1 = M.log2 + 1 + t := by
  obtain ⟨hb1, hb2⟩ := log2_bounds hM
  apply log2_succ_eq
  · rw [pow_add]
    calc 2 ^ (M.log2 + 1) * 2 ^ t ≤ (2 * M) * 2 ^ t := Nat.mul_le_mul_right _ hb1
      _ = 2 * (M * 2 ^ t) := by ring
  · rw [pow_add]; exact Nat.mul_lt_mul_of_pos_right hb2 (by positivity)

theorem shiftOf_scale {M : Nat} (hM : M ≠ 0) (E : Int) (t : Nat) :
    shiftOf (M * 2 ^ t) (E - t) = shiftOf M E + t := by
  unfold shiftOf; rw [log2_scale hM t]; push_cast; split <;> split <;> omega

theorem rneI_scale (M : Nat) (sh : Int) (t : Nat) : rneI (M * 2 ^ t) (sh + t) = rneI M sh := by
  unfold rneI
  by_cases h1 : sh + t ≤ 0
  · have h2 : sh ≤ 0 := by omega
    simp only [h1, h2, if_true]
    have : sh.natAbs = t + (sh + t).natAbs := by omega
    rw [this, pow_add]; ring
  · by_cases h2 : sh ≤ 0
    · simp only [h1, h2, if_true, if_false]
      obtain ⟨j, hj⟩ : ∃ j : Nat, (sh + t).toNat = j := ⟨_, rfl⟩
      have ht : t = sh.natAbs + j := by omega
      rw [hj, ht, pow_add, ← mul_assoc, rne_exact]
    · simp only [h1, h2, if_false]
      have : (sh + t).toNat = sh.toNat + t := by omega
      rw [this, rne_scale _ _ _ (by omega)]

/-- `pack` depends only on the value `M·2^E` -/
theorem pack_scale (neg : Bool) (M : Nat) (E : Int) (t : Nat) : pack neg (M * 2 ^ t) (E - t) = pack neg M E := by
  by_cases hM : M = 0
  · subst hM; rw [Nat.zero_mul, pack_zero, pack_zero]
  have hM' : M * 2 ^ t ≠ 0 := Nat.mul_ne_zero hM (by positivity)
  rw [pack_eq neg _ _ hM', pack_eq neg _ _ hM, shiftOf_scale hM, rneI_scale]
  congr 1; omega
theorem val_packSigned_scale (v : Int) (e : Int) (t : Nat) (z z' : Bool) :
    val (packSigned (v * 2 ^ t) (e - t) z) = val (packSigned v e z') := by
  by_cases hv : v = 0
  · subst hv; rw [Int.zero_mul, packSigned_zero, packSigned_zero, val_sgn, val_sgn]
  have hP : (0 : Int) < 2 ^ t := by positivity
  have hv' : v * 2 ^ t ≠ 0 := mul_ne_zero hv (ne_of_gt hP)
  rw [packSigned_ne_zero hv', packSigned_ne_zero hv]
  have h1 : decide (v * 2 ^ t < 0) = decide (v < 0) := by
    congr 1
    apply propext
    constructor
    · intro h; by_contra hc; have : 0 ≤ v * 2 ^ t := mul_nonneg (by omega) (le_of_lt hP); omega
    · intro h; exact mul_neg_of_neg_of_pos h hP
  have h2 : (v * 2 ^ t).natAbs = v.natAbs * 2 ^ t := by
    rw [Int.natAbs_mul, Int.natAbs_pow]; rfl
  rw [h1, h2, pack_scale]

/-! ### rounding of a rational -/

/-- round to nearest (ties to even) binary64 of a multiple of `2^-2148` (for other rationals: of their numerator
    scaled, a junk value that is never used).  Overflow yields the value decoded from the `inf` pattern. -/
def rnd (q : ℚ) : ℚ := val (packSigned (q * 2 ^ 2148).num (-2148) false)

theorem rnd_scaled (v : Int) (e : Int) (he : -2148 ≤ e) (z : Bool) :
    rnd ((v : ℚ) * 2 ^ e) = val (packSigned v e z) := by
  obtain ⟨t, ht⟩ : ∃ t : Nat, e + 2148 = (t : Int) := ⟨(e + 2148).toNat, by omega⟩
  have h1 : (v : ℚ) * 2 ^ e * 2 ^ 2148 = ((v * 2 ^ t : Int) : ℚ) := by
    have : (2 : ℚ) ^ 2148 = 2 ^ ((2148 : ℕ) : ℤ) := (zpow_natCast _ _).symm
    rw [mul_assoc, this, ← two_zpow_add]
    have e2 : e + ((2148 : ℕ) : ℤ) = (t : ℤ) := by omega
    rw [e2, zpow_natCast]; push_cast; ring
  unfold rnd
  rw [h1, Rat.num_intCast]
  have e3 : (-2148 : Int) = e - t := by omega
  rw [e3]
  exact val_packSigned_scale v e t false z

theorem rnd_zero : rnd 0 = 0 := by
  have := rnd_scaled 0 0 (by norm_num) false
  simp only [Int.cast_zero, zero_mul] at this
  rw [this, packSigned_zero, val_sgn]

/-! ### the operations are `rnd` of the exact result (unconditionally: also when the result overflows) -/

theorem val_add (a b : Nat) : val (add a b) = rnd (val a + val b) := by
  rw [add_exact, ← add_value a b, rnd_scaled _ _ (by have := decode_e_ge a; have := decode_e_ge b; omega)]

theorem val_sub (a b : Nat) (hb : b < 18446744073709551616) : val (sub a b) = rnd (val a - val b) := by
  have e : val a - val b = val a + val (neg b) := by rw [val_neg hb]; ring
  rw [e]; exact val_add a (neg b)

theorem val_fma (a b c : Nat) : val (fma a b c) = rnd (val a * val b + val c) := by
  rw [fma_exact, ← fma_value a b c,
    rnd_scaled _ _ (by have := decode_e_ge a; have := decode_e_ge b; have := decode_e_ge c; omega)]

theorem val_fms (a b c : Nat) (hc : c < 18446744073709551616) : val (fms a b c) = rnd (val a * val b - val c) := by
  have e : val a * val b - val c = val a * val b + val (neg c) := by rw [val_neg hc]; ring
  rw [e]; exact val_fma a b (neg c)

theorem val_mul (a b : Nat) : val (mul a b) = rnd (val a * val b) := by
  have e : val a * val b = ((sI ((decode a).neg != (decode b).neg) ((decode a).m * (decode b).m) : Int) : ℚ) *
      2 ^ ((decode a).e + (decode b).e) := by
    rw [val_decode a, val_decode b, ← sv_mul]; rfl
  rw [e, rnd_scaled _ _ (by have := decode_e_ge a; have := decode_e_ge b; omega) false]
  unfold mul
  simp only []
  by_cases hm : (decode a).m * (decode b).m = 0
  · rw [hm, pack_zero, val_sgn]
    have : sI ((decode a).neg != (decode b).neg) 0 = 0 := by cases ((decode a).neg != (decode b).neg) <;> rfl
    rw [this, packSigned_zero, val_sgn]
  · generalize ((decode a).neg != (decode b).neg) = s at *
    generalize (decode a).m * (decode b).m = M at *
    have hne : sI s M ≠ 0 := by cases s <;> simp [sI] <;> omega
    rw [packSigned_ne_zero hne]
    cases s
    · have h1 : decide (sI false M < 0) = false := by simp [sI]
      rw [h1]; rfl
    · have h1 : decide (sI true M < 0) = true := by simp [sI]; omega
      have h2 : (sI true M).natAbs = M := by simp [sI]
      rw [h1, h2]

/-! ### error of `rnd` on the multiples of `2^-2148` -/

/-- a multiple of `2^-2148` -/
def Dyadic (q : ℚ) : Prop := ∃ v : ℤ, q = (v : ℚ) * 2 ^ (-2148 : ℤ)

theorem dyadic_of_scaled (v : Int) (e : Int) (he : -2148 ≤ e) : Dyadic ((v : ℚ) * 2 ^ e) := by
  obtain ⟨t, ht⟩ : ∃ t : Nat, e + 2148 = (t : Int) := ⟨(e + 2148).toNat, by omega⟩
  refine ⟨v * 2 ^ t, ?_⟩
  have e2 : e = (t : ℤ) + (-2148) := by omega
  rw [e2, two_zpow_add, zpow_natCast]
  generalize (2 : ℚ) ^ (-2148 : ℤ) = X
  push_cast; ring

theorem dyadic_val_add (a b : Nat) : Dyadic (val a + val b) := by
  rw [← add_value a b]
  exact dyadic_of_scaled _ _ (by have := decode_e_ge a; have := decode_e_ge b; omega)

theorem dyadic_val_sub (a b : Nat) (hb : b < 18446744073709551616) : Dyadic (val a - val b) := by
  have e : val a - val b = val a + val (neg b) := by rw [val_neg hb]; ring
  rw [e]; exact dyadic_val_add a (neg b)

theorem dyadic_val_fma (a b c : Nat) : Dyadic (val a * val b + val c) := by
  rw [← fma_value a b c]
  exact dyadic_of_scaled _ _ (by have := decode_e_ge a; have := decode_e_ge b; have := decode_e_ge c; omega)

theorem dyadic_val_fms (a b c : Nat) (hc : c < 18446744073709551616) : Dyadic (val a * val b - val c) := by
  have e : val a * val b - val c = val a * val b + val (neg c) := by rw [val_neg hc]; ring
  rw [e]; exact dyadic_val_fma a b (neg c)

theorem dyadic_val_mul (a b : Nat) : Dyadic (val a * val b) := by
  have e : val a * val b = ((sI ((decode a).neg != (decode b).neg) ((decode a).m * (decode b).m) : Int) : ℚ) *
      2 ^ ((decode a).e + (decode b).e) := by
    rw [val_decode a, val_decode b, ← sv_mul]; rfl
  rw [e]
  exact dyadic_of_scaled _ _ (by have := decode_e_ge a; have := decode_e_ge b; omega)

/-- **the rounding function satisfies the standard model** on the multiples of `2^-2148` below the overflow threshold -/
theorem rnd_std (q : ℚ) (hd : Dyadic q) (hov : NoOvf q) :
    (NormalRange q → |rnd q - q| ≤ u64 * |q|) ∧ (|q| ≤ minNormal → |rnd q - q| ≤ halfMinSub) := by
  obtain ⟨v, rfl⟩ := hd
  rw [rnd_scaled v (-2148) (le_refl _) false]
  obtain ⟨⟨_, h2, h3⟩, _⟩ := packSigned_std v (-2148) false hov
  exact ⟨h2, h3⟩

end Spq.F64
