/-
  C06.4: the structural inverse cplx network `VNI k (gNetCI F …)` over an ordered field against the exact inverse
  network; relational transfer for `gNetCI`.
-/
import SpqProofs.Lemmas.FftErrSchedCNet
import SpqProofs.Lemmas.FftErrSchedCInv5
set_option linter.unusedSectionVars false
namespace Spq.Fft.RelN
open Spq.Fft Spq.Fft.Alg Spq.Fft.SimP Spq.Fft.LevelN Spq.Fft.SchedN Spq.Fft.SchedC Spq.FftErr
variable {α β : Type} {Rl : α → β → Prop}

theorem gNetCI_sim {F : CFlav α} {F' : CFlav β} (hF : CFlavSim Rl F F') (c s : ℕ → α) (c' s' : ℕ → β)
    (hc : ∀ e, Rl (c e) (c' e)) (hs : ∀ e, Rl (s e) (s' e)) (k ℓ d b : ℕ)
    {u v : α × α} {u' v' : β × β} (hu : R2 Rl u u') (hv : R2 Rl v v') :
    R2 Rl (gNetCI F c s k ℓ d b u v).1 (gNetCI F' c' s' k ℓ d b u' v').1 ∧
    R2 Rl (gNetCI F c s k ℓ d b u v).2 (gNetCI F' c' s' k ℓ d b u' v').2 := by
  unfold gNetCI
  split
  · split
    · exact lastV_sim hF.last (hc _) (hs _) (hc _) (hs _) hu hv
    · exact bfV_sim hF.ctTop (hc _) (hs _) hu hv
  · split
    · exact bfV_sim hF.ctTop (hc _) (hs _) hu hv
    · split
      · exact bfV_sim hF.ctOdd (hc _) (hs _) hu hv
      · split
        · exact bfV_sim hF.big.cit (hc _) (hs _) hu hv
        · exact bfV_sim hF.big.ct (hc _) (hs _) hu hv

end Spq.Fft.RelN

namespace Spq.FftErr
open Finset Spq.Fft Spq.Fft.Alg Spq.Fft.SimP Spq.Fft.LevelN Spq.Fft.SchedN Spq.Fft.SchedC
variable {K : Type} [Field K] [LinearOrder K] [IsStrictOrderedRing K]

/-- every butterfly of an inverse cplx implementation has 2-norm relative error `η` -/
structure CInvErrOK (F : CFlav K) (τ η : K) : Prop where
  ctTop : ∀ wh w : Cplx K, nsq w = 1 → nsq (wh - w) ≤ τ ^ 2 → IBfErrAt (fun a b => bfC F.ctTop a b wh) w η
  ctOdd : ∀ wh w : Cplx K, nsq w = 1 → nsq (wh - w) ≤ τ ^ 2 → IBfErrAt (fun a b => bfC F.ctOdd a b wh) w η
  last : ∀ wh w : Cplx K, nsq w = 1 → nsq (wh - w) ≤ τ ^ 2 → IBfErrAt (fun a b => lastC F.last a b wh wh) w η
  big : InvErrOK F.big τ η

theorem cinvRef_errOK (A : Arith K) (u τ : K) (sm : FStd A u) (hτ : 0 ≤ τ) : CInvErrOK (cinvRef A) τ (eta u τ) :=
  ⟨fun wh w => ibutterfly_err_ref A u τ sm hτ wh w, fun wh w => ibutterfly_err_ref A u τ sm hτ wh w,
   fun wh w h1 h2 => ibutterfly_err_last_ref A u τ sm hτ wh wh w h1 h2, invRef_errOK A u τ sm hτ⟩

theorem cinvFmaZ_errOK (A : Arith K) (u τ : K) (sm : FStd A u) (hτ : 0 ≤ τ) :
    CInvErrOK (Spq.Fft.RelN.cinvFmaZ A) τ (eta u τ) :=
  ⟨fun wh w => ibutterfly_err_fmaZ A u τ sm hτ wh w, fun wh w => ibutterfly_err_fmaZ A u τ sm hτ wh w,
   fun wh w h1 h2 => ibutterfly_err_last_fma A u τ sm hτ wh wh w h1 h2, invFma_errOK A u τ sm hτ⟩

variable (F : CFlav K) (c s : ℕ → K) (k : ℕ) (ζi : Cplx K) (τ η : K)

local instance instInhabitedFieldI : Inhabited K := ⟨0⟩

theorem igCC_err (hF : CInvErrOK F τ η) (hζ : nsq ζi = 1) (hI : ζi ^ 2 ^ k = -Ic)
    (hcs : ∀ ℓ d b, ℓ + d + 1 = k → b < 2 ^ ℓ →
      nsq ((⟨c (twE ℓ d b), s (twE ℓ d b)⟩ : Cplx K) - ζi ^ twE ℓ d b) ≤ τ ^ 2)
    (ℓ d b : ℕ) (hk : ℓ + d + 1 = k) (hb : b < 2 ^ ℓ) :
    IBfErrAt (gCof (gNetCI F c s k) ℓ d b) (ζi ^ twE ℓ d b) η := by
  have hw : ∀ e, nsq (ζi ^ e) = 1 := fun e => by rw [nsq_pow, hζ, one_pow]
  by_cases hk3 : k ≤ 3
  · by_cases hd : d = 0
    · subst hd
      have e : gCof (gNetCI F c s k) ℓ 0 b = fun x y => lastC F.last x y ⟨c (twE ℓ 0 b), s (twE ℓ 0 b)⟩
          ⟨c (twE ℓ 0 b), s (twE ℓ 0 b)⟩ := by
        funext x y
        unfold gCof
        rw [gNetCI_last F c s k ℓ b hk3]
        rfl
      rw [e]
      exact hF.last _ _ (hw _) (hcs ℓ 0 b hk hb)
    · have e : gCof (gNetCI F c s k) ℓ d b = fun x y => bfC F.ctTop x y ⟨c (twE ℓ d b), s (twE ℓ d b)⟩ := by
        funext x y
        unfold gCof
        rw [gNetCI_small F c s k ℓ d b hk3 hd]
        rfl
      rw [e]
      exact hF.ctTop _ _ (hw _) (hcs ℓ d b hk hb)
  · by_cases h12 : 12 ≤ k - ℓ
    · have e : gCof (gNetCI F c s k) ℓ d b = fun x y => bfC F.ctTop x y ⟨c (twE ℓ d b), s (twE ℓ d b)⟩ := by
        funext x y
        unfold gCof
        rw [gNetCI_top F c s k ℓ d b (by omega) h12]
        rfl
      rw [e]
      exact hF.ctTop _ _ (hw _) (hcs ℓ d b hk hb)
    · by_cases ho : k - ℓ = 5 ∧ (min k 11) % 2 = 1
      · have e : gCof (gNetCI F c s k) ℓ d b = fun x y => bfC F.ctOdd x y ⟨c (twE ℓ d b), s (twE ℓ d b)⟩ := by
          funext x y
          unfold gCof
          rw [gNetCI_odd F c s k ℓ d b (by omega) ho.1 ho.2]
          rfl
        rw [e]
        exact hF.ctOdd _ _ (hw _) (hcs ℓ d b hk hb)
      · by_cases hc : (clvI k (k - ℓ) && b % 2 == 1) = true
        · have hodd : b % 2 = 1 := by simp at hc; exact hc.2
          have hcl : clvI k (k - ℓ) = true := by simp at hc; exact hc.1
          obtain ⟨b', rfl⟩ : ∃ b', b = 2 * b' + 1 := ⟨b / 2, by omega⟩
          obtain ⟨ℓ', rfl⟩ : ∃ ℓ', ℓ = ℓ' + 1 := by
            cases ℓ with
            | zero => simp at hb
            | succ n => exact ⟨n, rfl⟩
          have e : gCof (gNetCI F c s k) (ℓ' + 1) d (2 * b' + 1) =
              fun x y => bfC F.big.cit x y ⟨c (twE (ℓ' + 1) d (2 * b')), s (twE (ℓ' + 1) d (2 * b'))⟩ := by
            funext x y
            unfold gCof
            rw [gNetCI_cit F c s k (ℓ' + 1) d b' (by omega) (by omega) ho hcl]
            rfl
          rw [e, Tw.twE_odd ζi (-Ic) k ℓ' d b' hI (by omega)]
          exact hF.big.cit _ _ (hw _) (hcs (ℓ' + 1) d (2 * b') hk (by omega))
        · have e : gCof (gNetCI F c s k) ℓ d b = fun x y => bfC F.big.ct x y ⟨c (twE ℓ d b), s (twE ℓ d b)⟩ := by
            funext x y
            unfold gCof gNetCI
            rw [if_neg hk3, if_neg h12, if_neg ho, if_neg hc]
            rfl
          rw [e]
          exact hF.big.ct _ _ (hw _) (hcs ℓ d b hk hb)

/-- **inverse network error**, cplx -/
theorem cinetN_err (hF : CInvErrOK F τ η) (hη : 0 ≤ η) (hζ : nsq ζi = 1) (hI : ζi ^ 2 ^ k = -Ic)
    (hcs : ∀ ℓ d b, ℓ + d + 1 = k → b < 2 ^ ℓ →
      nsq ((⟨c (twE ℓ d b), s (twE ℓ d b)⟩ : Cplx K) - ζi ^ twE ℓ d b) ≤ τ ^ 2) (y : ℕ → K × K) :
    ∑ p ∈ range (2 ^ k), nsq (toC (VNI k (gNetCI F c s k) y k p) - WIk k ζi (fun p => toC (y p)) k p) ≤
      ((1 + η) ^ k - 1) ^ 2 * ∑ p ∈ range (2 ^ k), nsq (WIk k ζi (fun p => toC (y p)) k p) := by
  have := inet_err k (fun n b => ζi ^ twE (k - 1 - n) n b) (fun n b => by rw [nsq_pow, hζ, one_pow])
    (fun p => toC (y p)) η hη (fun n b => gCof (gNetCI F c s k) (k - 1 - n) n b)
    (fun n b h1 h2 => igCC_err F c s k ζi τ η hF hζ hI hcs (k - 1 - n) n b (by omega) h2) k (le_refl k)
  simp only [WH_eq_VNI'] at this
  exact this

end Spq.FftErr
