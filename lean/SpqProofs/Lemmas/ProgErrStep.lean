/-
  C16, binary64 side, step 8: `vmp_apply_dft_to_dft` applied to a RAW transform is, bit for bit, `vmp_apply_dft` of the
  integer vector the transform was computed from (`vmpDD_eq`), provided every row it reads is the transform of an input
  limb (`min nrows dsz ≤ asz`: no zero-padding row of `vec_znx_dft` is read).
-/
import SpqProofs.Lemmas.ProgErrOps2
set_option linter.unusedSectionVars false
namespace Spq.ProgErr
open Finset Spq Spq.Module Spq.Fft Spq.Fft.Alg Spq.FftErr Spq.F64 Spq.Reim4 Spq.ProdErr Spq.VmpErr Spq.Conv Spq.Prog
  Spq.Closed
variable {K : Type} [Field K] [LinearOrder K] [IsStrictOrderedRing K]

/-- size of the conversion (no box needed) -/
theorem fromZnx_size (c : Cfg) (k : ℕ) (hnn : c.nn = 2 * 2 ^ k) (hb : c.fromBnd50 = true → 1 ≤ k) (x : Array Int) :
    ((Cfg.parts c).fromZnx x).size = 2 * 2 ^ k := by
  have hm : c.nn / 2 = 2 ^ k := by rw [hnn]; exact pow_half k
  have hpos : 0 < 2 ^ k := Nat.two_pow_pos k
  show (if c.fromBnd50 then fromZnx64Bnd50 (c.nn / 2) x else fromZnx64Ref (c.nn / 2) x).size = _
  rw [hm]
  cases hfb : c.fromBnd50 with
  | false =>
    simp only [Bool.false_eq_true, if_false]
    exact scalarLoop_size _ _
  | true =>
    simp only [if_true]
    exact chunks4_size _ _ hpos (two_pow_mod4 k (hb hfb))

/-- size of conversion + forward transform of any integer array -/
theorem fwd_size (M : F64Mod K) (x : Array Int) : (M.parts.fft (M.parts.fromZnx x)).size = M.N := by
  rw [parts_fft M.c M.k M.cN M.sN M.cNi M.sNi M.ok.cfg]
  exact reimFft_size M.c.fftFma M.k M.cN M.sN _ (fromZnx_size M.c M.k M.ok.cfg.nn M.ok.cfg.fromBnd50 x)

/-- limb `i` of `vec_znx_dft` of an array holding `f` -/
theorem vecDft_limb (M : F64Mod K) (x : Array Int) (asz asl rsz : ℕ) (f : ℕ → ℕ → ℤ) (hag : Agree M.N x asz asl f)
    (i : ℕ) (hi : i < rsz) :
    dlimb (vecDft M.parts rsz x asz asl) i M.N =
      if i < asz then M.parts.fft (M.parts.fromZnx (polyArr M.N (f i))) else Array.replicate M.N 0 := by
  have hnn := M.nn
  obtain ⟨_, a2⟩ := vecDft_spec M.parts rsz x asz asl
    (fun i => if i < asz then M.parts.fft (M.parts.fromZnx (polyArr M.N (f i))) else Array.replicate M.N 0)
    (by
      intro i _
      by_cases h : i < asz
      · rw [if_pos h, if_pos h, hnn, limbOf_agree hag i h]
      · rw [if_neg h, if_neg h, hnn]; rfl)
    (by
      intro i _
      by_cases h : i < asz
      · rw [if_pos h, hnn]; exact fwd_size M _
      · rw [if_neg h, hnn]; simp)
  have a := a2 i hi
  rw [hnn] at a
  exact a

theorem flatOf_congr (N sz : ℕ) (f g : ℕ → ℕ → ℤ) (h : ∀ i t, i < sz → t < N → f i t = g i t) :
    flatOf N sz f = flatOf N sz g := by
  unfold flatOf
  congr 1
  funext j
  have hj : j.val < sz * N := j.isLt
  have hN : 0 < N := by
    rcases Nat.eq_zero_or_pos N with q | q
    · have : sz * N = 0 := by rw [q]; rfl
      omega
    · exact q
  exact h _ _ ((Nat.div_lt_iff_lt_mul hN).2 hj) (Nat.mod_lt _ hN)

/-- **`vmp_apply_dft_to_dft (vec_znx_dft a)` = `vmp_apply_dft a`** in the binary64 module (any prepared matrix `pm`):
    `a` holds `asz` limbs `f`, the DFT variable has `dsz` limbs, the product reads `min nrows dsz ≤ asz` rows -/
theorem vmpDD_eq (M : F64Mod K) (rsz dsz asz : ℕ) (f : ℕ → ℕ → ℤ) (pm : Array ℕ) (nrows ncols : ℕ)
    (hrow : min nrows dsz ≤ asz) :
    vmpApplyDftToDft M.parts rsz (vecDft M.parts dsz (flatOf M.N asz f) asz M.N) dsz pm nrows ncols =
      vmpApplyDft M.parts rsz (flatOf M.N dsz (zext asz f)) dsz M.N pm nrows ncols := by
  have hnn := M.nn
  unfold vmpApplyDft
  dsimp only
  have hrd : min nrows dsz ≤ dsz := Nat.min_le_right _ _
  obtain ⟨a1, a2⟩ := vecDft_spec M.parts dsz (flatOf M.N asz f) asz M.N
    (fun i => if i < asz then M.parts.fft (M.parts.fromZnx (polyArr M.N (f i))) else Array.replicate M.N 0)
    (by
      intro i _
      by_cases h : i < asz
      · rw [if_pos h, if_pos h, hnn, limbOf_flatOf _ _ _ i h]
      · rw [if_neg h, if_neg h, hnn]; rfl)
    (by
      intro i _
      by_cases h : i < asz
      · rw [if_pos h, hnn]; exact fwd_size M _
      · rw [if_neg h, hnn]; simp)
  obtain ⟨b1, b2⟩ := vecDft_spec M.parts (min nrows dsz) (flatOf M.N dsz (zext asz f)) dsz M.N
    (fun i => M.parts.fft (M.parts.fromZnx (polyArr M.N (f i))))
    (by
      intro i hi
      have hid : i < dsz := by omega
      have hia : i < asz := by omega
      rw [if_pos hid, hnn, limbOf_flatOf _ _ _ i hid]
      congr 2
      apply polyArr_congr
      intro t _
      rw [zext, if_pos hia])
    (by intro i _; rw [hnn]; exact fwd_size M _)
  apply vmpApply_congr M.parts (p_hnn M.c M.k M.cN M.sN M.cNi M.sNi M.ok) (p_hblk M.c M.k M.cN M.sN M.cNi M.sNi M.ok)
  · intro x hx
    have hn : 0 < M.parts.nn := by
      rcases Nat.eq_zero_or_pos M.parts.nn with q | q
      · rw [q] at hx; omega
      · exact q
    have hi : x / M.parts.nn < min nrows dsz := (Nat.div_lt_iff_lt_mul hn).2 hx
    have e : x = x / M.parts.nn * M.parts.nn + x % M.parts.nn := by
      rw [Nat.mul_comm]; exact (Nat.div_add_mod x M.parts.nn).symm
    have hk : x % M.parts.nn < M.parts.nn := Nat.mod_lt _ hn
    have g1 := congrArg (fun v => v.getD (x % M.parts.nn) M.parts.ar.zero) (a2 (x / M.parts.nn) (by omega))
    have g2 := congrArg (fun v => v.getD (x % M.parts.nn) M.parts.ar.zero) (b2 (x / M.parts.nn) hi)
    simp only [dlimb, getD_extract] at g1 g2
    rw [if_pos (by omega), ← e] at g1 g2
    rw [g1, g2, if_pos (by omega)]
  · rw [a1]; exact Nat.mul_le_mul_right _ hrd
  · exact Nat.le_of_eq b1.symm

/-- the same for the provenance form recorded by `Prog.RD`: the raw transform is `vec_znx_dft` of the canonical array
    of its `dsz` abstract limbs `g`, of which the first `min az dsz` were input limbs -/
theorem vmpDD_eq2 (M : F64Mod K) (rsz dsz az : ℕ) (g : ℕ → ℕ → ℤ) (pm : Array ℕ) (nrows ncols : ℕ)
    (hrow : min nrows dsz ≤ az) :
    vmpApplyDftToDft M.parts rsz (vecDft M.parts dsz (flatOf M.N dsz g) (min az dsz) M.N) dsz pm nrows ncols =
      vmpApplyDft M.parts rsz (flatOf M.N dsz g) dsz M.N pm nrows ncols := by
  have hnn := M.nn
  unfold vmpApplyDft
  dsimp only
  have hrd : min nrows dsz ≤ dsz := Nat.min_le_right _ _
  obtain ⟨a1, a2⟩ := vecDft_spec M.parts dsz (flatOf M.N dsz g) (min az dsz) M.N
    (fun i => if i < min az dsz then M.parts.fft (M.parts.fromZnx (polyArr M.N (g i))) else Array.replicate M.N 0)
    (by
      intro i hi
      by_cases h : i < min az dsz
      · rw [if_pos h, if_pos h, hnn, limbOf_flatOf _ _ _ i hi]
      · rw [if_neg h, if_neg h, hnn]; rfl)
    (by
      intro i _
      by_cases h : i < min az dsz
      · rw [if_pos h, hnn]; exact fwd_size M _
      · rw [if_neg h, hnn]; simp)
  obtain ⟨b1, b2⟩ := vecDft_spec M.parts (min nrows dsz) (flatOf M.N dsz g) dsz M.N
    (fun i => M.parts.fft (M.parts.fromZnx (polyArr M.N (g i))))
    (by
      intro i hi
      have hid : i < dsz := by omega
      rw [if_pos hid, hnn, limbOf_flatOf _ _ _ i hid])
    (by intro i _; rw [hnn]; exact fwd_size M _)
  apply vmpApply_congr M.parts (p_hnn M.c M.k M.cN M.sN M.cNi M.sNi M.ok) (p_hblk M.c M.k M.cN M.sN M.cNi M.sNi M.ok)
  · intro x hx
    have hn : 0 < M.parts.nn := by
      rcases Nat.eq_zero_or_pos M.parts.nn with q | q
      · rw [q] at hx; omega
      · exact q
    have hi : x / M.parts.nn < min nrows dsz := (Nat.div_lt_iff_lt_mul hn).2 hx
    have e : x = x / M.parts.nn * M.parts.nn + x % M.parts.nn := by
      rw [Nat.mul_comm]; exact (Nat.div_add_mod x M.parts.nn).symm
    have hk : x % M.parts.nn < M.parts.nn := Nat.mod_lt _ hn
    have g1 := congrArg (fun v => v.getD (x % M.parts.nn) M.parts.ar.zero) (a2 (x / M.parts.nn) (by omega))
    have g2 := congrArg (fun v => v.getD (x % M.parts.nn) M.parts.ar.zero) (b2 (x / M.parts.nn) hi)
    simp only [dlimb, getD_extract] at g1 g2
    rw [if_pos (by omega), ← e] at g1 g2
    rw [g1, g2, if_pos (by omega)]
  · rw [a1]; exact Nat.mul_le_mul_right _ hrd
  · exact Nat.le_of_eq b1.symm

end Spq.ProgErr
