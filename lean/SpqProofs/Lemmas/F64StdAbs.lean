/-
  A-priori discharge of the flags of `arithOk` by abstract interpretation.  Abstract value `some (G, E)`: "a finite
  double on the grid `2^-G·ℤ` of magnitude `≤ 2^E`, all of whose partial results were in the normal range";
  `none`: nothing known.  The abstract arithmetic `absArith` is computable (run the same polymorphic kernel on it);
  `arithOk_sim_abs` says that it is sound.
-/
import SpqProofs.Lemmas.F64StdGrid
import SpqProofs.Lemmas.F64StdDot

namespace Spq.F64

abbrev AbsV := Option (ℕ × ℤ)

/-- result of an operation whose exact value is on the grid `2^-G` with magnitude `≤ 2^Eex` -/
def absRes (G : ℕ) (Eex : ℤ) : AbsV := if G ≤ 1022 ∧ Eex ≤ 1023 then some (G, Eex + 1) else none

def absAdd (a b : AbsV) : AbsV :=
  match a, b with
  | some (G1, E1), some (G2, E2) => absRes (max G1 G2) (max E1 E2 + 1)
  | _, _ => none

def absMul (a b : AbsV) : AbsV :=
  match a, b with
  | some (G1, E1), some (G2, E2) => absRes (G1 + G2) (E1 + E2)
  | _, _ => none

def absFma (a b c : AbsV) : AbsV :=
  match a, b, c with
  | some (G1, E1), some (G2, E2), some (G3, E3) => absRes (max (G1 + G2) G3) (max (E1 + E2) E3 + 1)
  | _, _, _ => none

/-- the abstract arithmetic -/
def absArith : RArith AbsV where
  zero := some (0, 0)
  add := absAdd
  sub := absAdd
  mul := absMul
  fma := absFma
  fms := absFma

/-- soundness relation (an inductive predicate, so that elaboration never evaluates an abstract kernel run) -/
inductive RelA : Nat × Prop → AbsV → Prop
  | top (x : Nat × Prop) : RelA x none
  | box (x : Nat × Prop) (G : ℕ) (E : ℤ) (h1 : x.2) (h2 : Fin64 x.1) (h3 : GridQ G (val x.1)) (h4 : |val x.1| ≤ 2 ^ E) :
      RelA x (some (G, E))

theorem relA_some {x : Nat × Prop} {G : ℕ} {E : ℤ} :
    RelA x (some (G, E)) ↔ x.2 ∧ Fin64 x.1 ∧ GridQ G (val x.1) ∧ |val x.1| ≤ 2 ^ E := by
  constructor
  · intro h; cases h with | box _ _ h1 h2 h3 h4 => exact ⟨h1, h2, h3, h4⟩
  · rintro ⟨h1, h2, h3, h4⟩; exact RelA.box x G E h1 h2 h3 h4

theorem two_zpow_add_le (E1 E2 : ℤ) : (2 : ℚ) ^ E1 + 2 ^ E2 ≤ 2 ^ (max E1 E2 + 1) := by
  rw [two_zpow_add, zpow_one]
  have h1 : (2 : ℚ) ^ E1 ≤ 2 ^ (max E1 E2) := two_zpow_le (le_max_left _ _)
  have h2 : (2 : ℚ) ^ E2 ≤ 2 ^ (max E1 E2) := two_zpow_le (le_max_right _ _)
  linarith

/-- common core: the exact result `q` of an operation is on the grid `G` with `|q| ≤ 2^Eex`; the operation returns a
    finite `r` with `val r = rnd q` and flag `fl ↔ (inputs ok ∧ NormalRange q)` -/
theorem relA_res {G : ℕ} {Eex : ℤ} {q : ℚ} {r : Nat} {fl : Prop} (hgrid : GridQ G q) (hb : |q| ≤ 2 ^ Eex)
    (hfl : NormalRange q → fl) (hfin : NoOvf q → Fin64 r) (hval : val r = rnd q) :
    RelA (r, fl) (absRes G Eex) := by
  unfold absRes
  split
  · rename_i hc
    obtain ⟨hgood, hg, hbnd⟩ := round_ok hgrid hc.1 hc.2 hb
    exact relA_some.2 ⟨hfl hgood.2, hfin hgood.2.noOvf, by rw [hval]; exact hg, by rw [hval]; exact hbnd⟩
  · exact RelA.top _

theorem arithOk_sim_abs : RArith.Sim RelA arithOk absArith where
  zero := relA_some.2 ⟨fin64_zero, fin64_zero, by rw [arithOk_zero, lift_fst, val_zero]; exact gridQ_zero 0, by
    rw [arithOk_zero, lift_fst, val_zero, abs_zero]; positivity⟩
  add := by
    intro x a y b hx hy
    rcases a with _ | ⟨G1, E1⟩
    · exact RelA.top _
    rcases b with _ | ⟨G2, E2⟩
    · exact RelA.top _
    obtain ⟨fx, _, gx, bx⟩ := relA_some.1 hx
    obtain ⟨fy, _, gy, by'⟩ := relA_some.1 hy
    exact relA_res ((gx.mono (le_max_left _ _)).add (gy.mono (le_max_right _ _)))
      (le_trans (abs_add_le _ _) (le_trans (add_le_add bx by') (two_zpow_add_le E1 E2)))
      (fun hn => ⟨fx, fy, hn⟩) (fun ho => (add_std x.1 y.1 ho).1) (val_add _ _)
  sub := by
    intro x a y b hx hy
    rcases a with _ | ⟨G1, E1⟩
    · exact RelA.top _
    rcases b with _ | ⟨G2, E2⟩
    · exact RelA.top _
    obtain ⟨fx, _, gx, bx⟩ := relA_some.1 hx
    obtain ⟨fy, hy64, gy, by'⟩ := relA_some.1 hy
    exact relA_res ((gx.mono (le_max_left _ _)).sub (gy.mono (le_max_right _ _)))
      (le_trans (abs_sub _ _) (le_trans (add_le_add bx by') (two_zpow_add_le E1 E2)))
      (fun hn => ⟨fx, fy, hn⟩) (fun ho => (sub_std x.1 y.1 hy64.1 ho).1) (val_sub _ _ hy64.1)
  mul := by
    intro x a y b hx hy
    rcases a with _ | ⟨G1, E1⟩
    · exact RelA.top _
    rcases b with _ | ⟨G2, E2⟩
    · exact RelA.top _
    obtain ⟨fx, _, gx, bx⟩ := relA_some.1 hx
    obtain ⟨fy, _, gy, by'⟩ := relA_some.1 hy
    refine relA_res (gx.mul gy) ?_ (fun hn => ⟨fx, fy, hn⟩) (fun ho => (mul_std x.1 y.1 ho).1) (val_mul _ _)
    rw [abs_mul, two_zpow_add]
    exact mul_le_mul bx by' (abs_nonneg _) (le_of_lt (two_zpow_pos _))
  fma := by
    intro x a y b z c hx hy hz
    rcases a with _ | ⟨G1, E1⟩
    · exact RelA.top _
    rcases b with _ | ⟨G2, E2⟩
    · exact RelA.top _
    rcases c with _ | ⟨G3, E3⟩
    · exact RelA.top _
    obtain ⟨fx, _, gx, bx⟩ := relA_some.1 hx
    obtain ⟨fy, _, gy, by'⟩ := relA_some.1 hy
    obtain ⟨fz, _, gz, bz⟩ := relA_some.1 hz
    have hm : |val x.1 * val y.1| ≤ 2 ^ (E1 + E2) := by
      rw [abs_mul, two_zpow_add]
      exact mul_le_mul bx by' (abs_nonneg _) (le_of_lt (two_zpow_pos _))
    exact relA_res (((gx.mul gy).mono (le_max_left _ _)).add (gz.mono (le_max_right _ _)))
      (le_trans (abs_add_le _ _) (le_trans (add_le_add hm bz) (two_zpow_add_le _ _)))
      (fun hn => ⟨fx, fy, fz, hn⟩) (fun ho => (fma_std x.1 y.1 z.1 ho).1) (val_fma _ _ _)
  fms := by
    intro x a y b z c hx hy hz
    rcases a with _ | ⟨G1, E1⟩
    · exact RelA.top _
    rcases b with _ | ⟨G2, E2⟩
    · exact RelA.top _
    rcases c with _ | ⟨G3, E3⟩
    · exact RelA.top _
    obtain ⟨fx, _, gx, bx⟩ := relA_some.1 hx
    obtain ⟨fy, _, gy, by'⟩ := relA_some.1 hy
    obtain ⟨fz, hz64, gz, bz⟩ := relA_some.1 hz
    have hm : |val x.1 * val y.1| ≤ 2 ^ (E1 + E2) := by
      rw [abs_mul, two_zpow_add]
      exact mul_le_mul bx by' (abs_nonneg _) (le_of_lt (two_zpow_pos _))
    exact relA_res (((gx.mul gy).mono (le_max_left _ _)).sub (gz.mono (le_max_right _ _)))
      (le_trans (abs_sub _ _) (le_trans (add_le_add hm bz) (two_zpow_add_le _ _)))
      (fun hn => ⟨fx, fy, fz, hn⟩) (fun ho => (fms_std x.1 y.1 z.1 hz64.1 ho).1) (val_fms _ _ _ hz64.1)

/-! ### inputs in a box -/

/-- every entry of `u` is a finite double on the grid `2^-g·ℤ` of magnitude `≤ 2^E0` -/
def InBox (g : ℕ) (E0 : ℤ) (u : Array Nat) : Prop :=
  ∀ i, i < u.size → Fin64 (u.getD i 0) ∧ GridQ g (val (u.getD i 0)) ∧ |val (u.getD i 0)| ≤ 2 ^ E0

/-- a convenient sufficient condition: every entry is 0 or has `2^(53-g) ≤ |x| ≤ 2^E0` -/
theorem inBox_of_range (g : ℕ) (E0 : ℤ) (u : Array Nat)
    (h : ∀ i, i < u.size → Fin64 (u.getD i 0) ∧
      (val (u.getD i 0) = 0 ∨ (2 : ℚ) ^ (53 - (g : ℤ)) ≤ |val (u.getD i 0)|) ∧ |val (u.getD i 0)| ≤ 2 ^ E0) :
    InBox g E0 u := by
  intro i hi
  obtain ⟨h1, h2, h3⟩ := h i hi
  refine ⟨h1, ?_, h3⟩
  rcases h2 with h2 | h2
  · exact gridQ_of_val_zero g h2
  · exact gridQ_of_abs_ge _ g h2

/-- the abstract image of an array in a box -/
def boxArr (g : ℕ) (E0 : ℤ) (u : Array Nat) : Array AbsV := u.map (fun _ => some (g, E0))

theorem getD_map_lt {γ δ : Type} (f : γ → δ) (a : Array γ) (i : Nat) (z : δ) (z' : γ) (h : i < a.size) :
    (a.map f).getD i z = f (a.getD i z') := by
  simp [Array.getD_eq_getD_getElem?, h]

theorem getD_map_ge {γ δ : Type} (f : γ → δ) (a : Array γ) (i : Nat) (z : δ) (h : a.size ≤ i) :
    (a.map f).getD i z = z := by
  simp [Array.getD_eq_getD_getElem?, h]

theorem boxArr_getD_lt (g : ℕ) (E0 : ℤ) (u : Array Nat) (i : Nat) (h : i < u.size) :
    (boxArr g E0 u).getD i absArith.zero = some (g, E0) :=
  getD_map_lt _ u i _ 0 h

theorem lift_rel_abs (g : ℕ) (E0 : ℤ) (u : Array Nat) (h : InBox g E0 u) (i : Nat) :
    RelA ((u.map lift).getD i arithOk.zero) ((boxArr g E0 u).getD i absArith.zero) := by
  rcases Nat.lt_or_ge i u.size with hi | hi
  · rw [boxArr_getD_lt g E0 u i hi, getD_map_lt lift u i _ 0 hi]
    obtain ⟨h1, h2, h3⟩ := h i hi
    exact relA_some.2 ⟨h1, h1, h2, h3⟩
  · unfold boxArr
    rw [getD_map_ge _ u i _ hi, getD_map_ge _ u i _ hi]
    exact arithOk_sim_abs.zero

/-! ### soundness for the two products: a non-`none` abstract result cell discharges the flag -/

open Spq.Reim4 in
theorem ok_of_abs_ref (n : Nat) (dst u v : Array Nat) (g : ℕ) (E0 : ℤ) (hb : 8 ≤ dst.size)
    (hu : InBox g E0 u) (hv : InBox g E0 v) (k : Nat) (hk : k < 8) (r : ℕ × ℤ)
    (hres : (vecMat1colProductRef absArith n (Array.replicate 8 none) (boxArr g E0 u) (boxArr g E0 v)).getD k
      absArith.zero = some r) :
    Ok ((vecMat1colProductRef arithOk n (dst.map lift) (u.map lift) (v.map lift)).getD k (lift 0)) := by
  have h8 : 8 ≤ (Array.replicate 8 (none : AbsV)).size := by simp
  have hs : 8 ≤ (dst.map lift).size := by rw [Array.size_map]; exact hb
  have s : RelA ((vecMat1colProductRef arithOk n (dst.map lift) (u.map lift) (v.map lift)).getD k arithOk.zero)
      ((vecMat1colProductRef absArith n (Array.replicate 8 none) (boxArr g E0 u) (boxArr g E0 v)).getD k absArith.zero) :=
    vecMat1colProductRef_sim (R := RelA) arithOk_sim_abs n (dst.map lift) (u.map lift) (v.map lift)
      (Array.replicate 8 none) (boxArr g E0 u) (boxArr g E0 v) hs h8
      (lift_rel_abs g E0 u hu) (lift_rel_abs g E0 v hv) k hk
  rw [hres] at s
  change Ok ((vecMat1colProductRef arithOk n (dst.map lift) (u.map lift) (v.map lift)).getD k arithOk.zero)
  generalize (vecMat1colProductRef arithOk n (dst.map lift) (u.map lift) (v.map lift)).getD k arithOk.zero = X at s ⊢
  obtain ⟨G, E⟩ := r
  exact ⟨(relA_some.1 s).1⟩

open Spq.Reim4 in
theorem ok_of_abs_avx2 (n : Nat) (dst u v : Array Nat) (g : ℕ) (E0 : ℤ) (hb : 8 ≤ dst.size)
    (hu : InBox g E0 u) (hv : InBox g E0 v) (k : Nat) (hk : k < 8) (r : ℕ × ℤ)
    (hres : (vecMat1colProductAvx2 absArith n (Array.replicate 8 none) (boxArr g E0 u) (boxArr g E0 v)).getD k
      absArith.zero = some r) :
    Ok ((vecMat1colProductAvx2 arithOk n (dst.map lift) (u.map lift) (v.map lift)).getD k (lift 0)) := by
  have h8 : 8 ≤ (Array.replicate 8 (none : AbsV)).size := by simp
  have hs : 8 ≤ (dst.map lift).size := by rw [Array.size_map]; exact hb
  have s : RelA ((vecMat1colProductAvx2 arithOk n (dst.map lift) (u.map lift) (v.map lift)).getD k arithOk.zero)
      ((vecMat1colProductAvx2 absArith n (Array.replicate 8 none) (boxArr g E0 u) (boxArr g E0 v)).getD k absArith.zero) :=
    vecMat1colProductAvx2_sim (R := RelA) arithOk_sim_abs n (dst.map lift) (u.map lift) (v.map lift)
      (Array.replicate 8 none) (boxArr g E0 u) (boxArr g E0 v) hs h8
      (lift_rel_abs g E0 u hu) (lift_rel_abs g E0 v hv) k hk
  rw [hres] at s
  change Ok ((vecMat1colProductAvx2 arithOk n (dst.map lift) (u.map lift) (v.map lift)).getD k arithOk.zero)
  generalize (vecMat1colProductAvx2 arithOk n (dst.map lift) (u.map lift) (v.map lift)).getD k arithOk.zero = X at s ⊢
  obtain ⟨G, E⟩ := r
  exact ⟨(relA_some.1 s).1⟩

/-! ### closed form of the abstract runs: inputs in a box `(g, E0)` never reach `none` -/

theorem absRes_ok {G : ℕ} {Eex : ℤ} (h1 : G ≤ 1022) (h2 : Eex ≤ 1023) : absRes G Eex = some (G, Eex + 1) := by
  unfold absRes; rw [if_pos ⟨h1, h2⟩]

/-- the abstract value of one term `fl(fl(a·c) ∓ fl(b·d))` of inputs in the box `(g, E0)` -/
theorem abs_term (g : ℕ) (E0 : ℤ) (hg : 2 * g ≤ 1022) (hE : 2 * E0 + 2 ≤ 1023) :
    absAdd (absMul (some (g, E0)) (some (g, E0))) (absMul (some (g, E0)) (some (g, E0))) = some (2 * g, 2 * E0 + 3) := by
  have h1 : absMul (some (g, E0)) (some (g, E0)) = some (g + g, E0 + E0 + 1) := by
    show absRes (g + g) (E0 + E0) = _
    exact absRes_ok (by omega) (by omega)
  rw [h1]
  show absRes (max (g + g) (g + g)) (max (E0 + E0 + 1) (E0 + E0 + 1) + 1) = _
  rw [max_self, max_self, absRes_ok (by omega) (by omega)]
  congr 2 <;> ring

/-- one accumulation step -/
theorem abs_acc (g : ℕ) (E0 : ℤ) (G : ℕ) (E B : ℤ) (hg : 2 * g ≤ 1022) (hG : G ≤ 2 * g) (hE : E ≤ B) (hB0 : 2 * E0 + 3 ≤ B)
    (hB : B + 1 ≤ 1023) :
    ∃ G' E', absAdd (some (G, E)) (some (2 * g, 2 * E0 + 3)) = some (G', E') ∧ G' ≤ 2 * g ∧ E' ≤ B + 2 := by
  refine ⟨max G (2 * g), max E (2 * E0 + 3) + 1 + 1, ?_, by omega, ?_⟩
  · show absRes (max G (2 * g)) (max E (2 * E0 + 3) + 1) = _
    exact absRes_ok (by omega) (by omega)
  · omega

open Spq.Reim4 in
/-- `reim4_vec_mat1col_product_ref` on the abstract arithmetic: every result cell is known -/
theorem absRef_some (n : Nat) (g : ℕ) (E0 : ℤ) (dstA uA vA : Array AbsV) (hb : 8 ≤ dstA.size)
    (hU : ∀ i, i < 8 * n → uA.getD i absArith.zero = some (g, E0))
    (hV : ∀ i, i < 8 * n → vA.getD i absArith.zero = some (g, E0))
    (hg : 2 * g ≤ 1022) (hE0 : 0 ≤ E0) (hE : 2 * E0 + 2 * n + 2 ≤ 1023) (k : Nat) (hk : k < 8) :
    ∃ r, (vecMat1colProductRef absArith n dstA uA vA).getD k absArith.zero = some r := by
  unfold vecMat1colProductRef
  simp only []
  suffices H : ∀ m, m ≤ n →
      (Nat.fold m (fun i _ dst => addMulAt absArith dst 0 uA (8 * i) vA (8 * i)) (zeroAt absArith dstA 0)).size = dstA.size ∧
      ∀ k, k < 8 → ∃ G E,
        (Nat.fold m (fun i _ dst => addMulAt absArith dst 0 uA (8 * i) vA (8 * i)) (zeroAt absArith dstA 0)).getD k
          absArith.zero = some (G, E) ∧ G ≤ 2 * g ∧ E ≤ 2 * E0 + 3 + 2 * m by
    obtain ⟨G, E, h, _⟩ := (H n (le_refl _)).2 k hk
    exact ⟨(G, E), h⟩
  intro m
  induction m with
  | zero =>
    intro _
    obtain ⟨z1, z2, _⟩ := zeroAt_spec absArith dstA 0 (by omega)
    refine ⟨z1, fun k hk => ⟨0, 0, ?_, by omega, by omega⟩⟩
    have a := z2 k hk
    rw [Nat.zero_add] at a
    simp only [Nat.fold_zero]
    rw [a]; rfl
  | succ m ih =>
    intro hm
    simp only [Nat.fold_succ]
    obtain ⟨s1, ihk⟩ := ih (by omega)
    generalize Nat.fold m (fun i _ dst => addMulAt absArith dst 0 uA (8 * i) vA (8 * i)) (zeroAt absArith dstA 0) = rn at *
    obtain ⟨t1, t2, _⟩ := addMulAt_spec absArith rn 0 uA (8 * m) vA (8 * m) (by omega)
    refine ⟨by rw [t1, s1], fun k hk => ?_⟩
    have hterm := abs_term g E0 hg (by omega)
    by_cases h4 : k < 4
    · have a := (t2 k h4).1
      rw [Nat.zero_add] at a
      obtain ⟨G, E, hacc, hG, hEb⟩ := ihk k hk
      rw [a, hacc, hU _ (by omega), hU _ (by omega), hV _ (by omega), hV _ (by omega)]
      obtain ⟨G', E', h', hG', hE'⟩ := abs_acc g E0 G E (2 * E0 + 3 + 2 * m) hg hG hEb (by omega) (by omega)
      refine ⟨G', E', ?_, hG', by push_cast; omega⟩
      rw [← h', ← hterm]; rfl
    · obtain ⟨j, rfl⟩ : ∃ j, k = j + 4 := ⟨k - 4, by omega⟩
      have a := (t2 j (by omega)).2
      rw [Nat.zero_add] at a
      obtain ⟨G, E, hacc, hG, hEb⟩ := ihk (j + 4) hk
      rw [a, hacc, hU _ (by omega), hU _ (by omega), hV _ (by omega), hV _ (by omega)]
      obtain ⟨G', E', h', hG', hE'⟩ := abs_acc g E0 G E (2 * E0 + 3 + 2 * m) hg hG hEb (by omega) (by omega)
      refine ⟨G', E', ?_, hG', by push_cast; omega⟩
      rw [← h', ← hterm]; rfl

open Spq.Reim4 in
/-- an abstract FMA chain over inputs in the box -/
theorem absChain_some (g : ℕ) (E0 : ℤ) (p q : Nat → AbsV) (n : Nat)
    (hp : ∀ i, i < n → p i = some (g, E0)) (hq : ∀ i, i < n → q i = some (g, E0))
    (hg : 2 * g ≤ 1022) (hE0 : 0 ≤ E0) (hE : 2 * E0 + 2 * n + 2 ≤ 1023) :
    ∀ m, m ≤ n → ∃ G E, fmaChain absArith p q m = some (G, E) ∧ G ≤ 2 * g ∧ E ≤ 2 * E0 + 2 * m := by
  intro m
  induction m with
  | zero => intro _; exact ⟨0, 0, rfl, by omega, by omega⟩
  | succ m ih =>
    intro hm
    obtain ⟨G, E, hc, hG, hEb⟩ := ih (by omega)
    refine ⟨max (g + g) G, max (E0 + E0) E + 1 + 1, ?_, by omega, by push_cast; omega⟩
    show absFma (p m) (q m) (fmaChain absArith p q m) = _
    rw [hp m (by omega), hq m (by omega), hc]
    show absRes (max (g + g) G) (max (E0 + E0) E + 1) = _
    exact absRes_ok (by omega) (by omega)

open Spq.Reim4 in
/-- `reim4_vec_mat1col_product_avx2` on the abstract arithmetic: every result cell is known -/
theorem absAvx2_some (n : Nat) (g : ℕ) (E0 : ℤ) (dstA uA vA : Array AbsV) (hb : 8 ≤ dstA.size)
    (hU : ∀ i, i < 8 * n → uA.getD i absArith.zero = some (g, E0))
    (hV : ∀ i, i < 8 * n → vA.getD i absArith.zero = some (g, E0))
    (hg : 2 * g ≤ 1022) (hE0 : 0 ≤ E0) (hE : 2 * E0 + 2 * n + 2 ≤ 1023) (k : Nat) (hk : k < 8) :
    ∃ r, (vecMat1colProductAvx2 absArith n dstA uA vA).getD k absArith.zero = some r := by
  have hc : ∀ (o1 o2 : Nat), o1 < 8 → o2 < 8 → ∃ G E,
      fmaChain absArith (fun i => uA.getD (8 * i + o1) absArith.zero) (fun i => vA.getD (8 * i + o2) absArith.zero) n =
        some (G, E) ∧ G ≤ 2 * g ∧ E ≤ 2 * E0 + 2 * n := fun o1 o2 h1 h2 =>
    absChain_some g E0 _ _ n (fun i hi => hU _ (by omega)) (fun i hi => hV _ (by omega)) hg hE0 hE n (le_refl _)
  have comb : ∀ {G1 G2 : ℕ} {E1 E2 : ℤ}, G1 ≤ 2 * g → G2 ≤ 2 * g → E1 ≤ 2 * E0 + 2 * n → E2 ≤ 2 * E0 + 2 * n →
      ∃ r, absAdd (some (G1, E1)) (some (G2, E2)) = some r := by
    intro G1 G2 E1 E2 h1 h2 h3 h4
    exact ⟨_, absRes_ok (by omega) (by omega)⟩
  by_cases h4 : k < 4
  · rw [(mat1colAvx2_cells absArith n dstA uA vA hb k h4).1]
    obtain ⟨G1, E1, c1, a1, b1⟩ := hc k k (by omega) (by omega)
    obtain ⟨G2, E2, c2, a2, b2⟩ := hc (4 + k) (4 + k) (by omega) (by omega)
    simp only [← Nat.add_assoc] at c2
    rw [c1, c2]
    exact comb a1 a2 b1 b2
  · obtain ⟨j, rfl⟩ : ∃ j, k = j + 4 := ⟨k - 4, by omega⟩
    rw [(mat1colAvx2_cells absArith n dstA uA vA hb j (by omega)).2]
    obtain ⟨G1, E1, c1, a1, b1⟩ := hc j (4 + j) (by omega) (by omega)
    obtain ⟨G2, E2, c2, a2, b2⟩ := hc (4 + j) j (by omega) (by omega)
    simp only [← Nat.add_assoc] at c1 c2
    rw [c1, c2]
    exact comb a1 a2 b1 b2

end Spq.F64
