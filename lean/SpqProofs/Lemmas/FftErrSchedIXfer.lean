/-
  C06.4: transfer from the bit-level inverse reim FFT to the structural inverse network over an ordered field.
-/
import SpqProofs.Lemmas.FftErrSchedXfer
import SpqProofs.Lemmas.FftErrSchedIRel
import SpqProofs.Lemmas.FftErrSchedInvTop
set_option linter.unusedSectionVars false
namespace Spq.FftErr
open Spq.Fft Spq.Fft.Alg Spq.Fft.RelN Spq.Fft.SimP Spq.Fft.LevelN Spq.Fft.SchedN Spq.Fft.Sim Spq.F64
variable {K : Type} [Field K] [LinearOrder K] [IsStrictOrderedRing K]

theorem famIRef : FamOK (fun {α} A => invRef (α := α) A) := ⟨fun h => invRef_sim h⟩
theorem famIFma : FamOK (fun {α} A => invFma (α := α) A) := ⟨fun h => invFma_sim h⟩

/-- **transfer**, inverse transform -/
theorem ifft_transfer (Fam : ∀ {α : Type}, Arith α → Flav α) (hFam : FamOK Fam) (k : ℕ) (cN sN : ℕ → ℕ)
    (data : Array ℕ) (hdata : data.size = 2 * 2 ^ k)
    (hok : ∀ p, p < 2 * 2 ^ k →
      ((reimIfftA (Fam aOk) (2 ^ k) ((((reimIfftEnts (2 ^ k)).map (valP cN sN)).toArray).map lift) (data.map lift))[p]!).2)
    (j : ℕ) (hj : j < 2 ^ k) :
    Fin64 ((reimIfftA (Fam f64) (2 ^ k) ((reimIfftEnts (2 ^ k)).map (valP cN sN)).toArray data)[j]!) ∧
    Fin64 ((reimIfftA (Fam f64) (2 ^ k) ((reimIfftEnts (2 ^ k)).map (valP cN sN)).toArray data)[2 ^ k + j]!) ∧
    ((val ((reimIfftA (Fam f64) (2 ^ k) ((reimIfftEnts (2 ^ k)).map (valP cN sN)).toArray data)[j]!) : ℚ) : K) =
      (VNI k (gNet (Fam (liftA aG : Arith K)) (fun e => ((val (cN e) : ℚ) : K)) (fun e => ((val (sN e) : ℚ) : K)) k)
        (fun p => (((val data[p]! : ℚ) : K), ((val data[2 ^ k + p]! : ℚ) : K))) k j).1 ∧
    ((val ((reimIfftA (Fam f64) (2 ^ k) ((reimIfftEnts (2 ^ k)).map (valP cN sN)).toArray data)[2 ^ k + j]!) : ℚ) : K) =
      (VNI k (gNet (Fam (liftA aG : Arith K)) (fun e => ((val (cN e) : ℚ) : K)) (fun e => ((val (sN e) : ℚ) : K)) k)
        (fun p => (((val data[p]! : ℚ) : K), ((val data[2 ^ k + p]! : ℚ) : K))) k j).2 := by
  have hd' : (data.map lift).size = 2 * 2 ^ k := by rw [Array.size_map]; exact hdata
  have hv := splitRI_validN (2 ^ k) data hdata
  have hv' := splitRI_validN (2 ^ k) (data.map lift) hd'
  rw [table_map lift cN sN] at hok
  obtain ⟨st1, vo1⟩ := ifftRI_struct (Fam f64) cN sN k (splitRI (2 ^ k) data) hv
  obtain ⟨st2, vo2⟩ := ifftRI_struct (Fam aOk) (fun e => lift (cN e)) (fun e => lift (sN e)) k
    (splitRI (2 ^ k) (data.map lift)) hv'
  -- inputs
  have in2 : ∀ p, p < 2 ^ k → prs (splitRI (2 ^ k) (data.map lift)) p = (lift data[p]!, lift data[2 ^ k + p]!) := by
    intro p hp
    show ((splitRI (2 ^ k) (data.map lift)).re[p]!, (splitRI (2 ^ k) (data.map lift)).im[p]!) = _
    rw [splitRI_reN _ _ hd' p hp, splitRI_imN _ _ hd' p hp, getElem!_map lift data p (by omega),
      getElem!_map lift data (2 ^ k + p) (by omega)]
  have in1 : ∀ p, p < 2 ^ k → prs (splitRI (2 ^ k) data) p = (data[p]!, data[2 ^ k + p]!) := by
    intro p hp
    show ((splitRI (2 ^ k) data).re[p]!, (splitRI (2 ^ k) data).im[p]!) = _
    rw [splitRI_reN _ _ hdata p hp, splitRI_imN _ _ hdata p hp]
  -- the three relations between the four networks
  have r1 := VNI_rel_on (R2 (fun (x : Nat × Prop) (b : Nat) => x.1 = b)) _ _
    (fun ℓ d b u u' v v' hu hv => gNet_sim (hFam.sim aOk_sim_f64) (fun e => lift (cN e)) (fun e => lift (sN e)) cN sN
      (fun _ => rfl) (fun _ => rfl) k ℓ d b hu hv) k (prs (splitRI (2 ^ k) (data.map lift))) (prs (splitRI (2 ^ k) data))
    (fun p hp => by rw [in2 p hp, in1 p hp]; exact ⟨rfl, rfl⟩) k j (le_refl k) hj
  have r2 := VNI_rel_on (R2 RelQ) _ _
    (fun ℓ d b u u' v v' hu hv => gNet_sim (hFam.sim aOk_sim_aG) (fun e => lift (cN e)) (fun e => lift (sN e))
      (fun e => val (cN e)) (fun e => val (sN e)) (fun _ h => ⟨h, rfl⟩) (fun _ h => ⟨h, rfl⟩) k ℓ d b hu hv) k
    (prs (splitRI (2 ^ k) (data.map lift))) (fun p => (val data[p]!, val data[2 ^ k + p]!))
    (fun p hp => by rw [in2 p hp]; exact ⟨fun h => ⟨h, rfl⟩, fun h => ⟨h, rfl⟩⟩) k j (le_refl k) hj
  have r3 := VNI_rel_on (R2 (fun (q : ℚ) (x : K) => x = (q : K))) _ _
    (fun ℓ d b u u' v v' hu hv => gNet_sim (hFam.sim (liftA_sim (K := K) aG aG_neg)) (fun e => val (cN e))
      (fun e => val (sN e)) (fun e => ((val (cN e) : ℚ) : K)) (fun e => ((val (sN e) : ℚ) : K)) (fun _ => rfl)
      (fun _ => rfl) k ℓ d b hu hv) k (fun p => (val data[p]!, val data[2 ^ k + p]!))
    (fun p => (((val data[p]! : ℚ) : K), ((val data[2 ^ k + p]! : ℚ) : K)))
    (fun p _ => ⟨rfl, rfl⟩) k j (le_refl k) hj
  -- the flags of the two outputs
  have f1 := hok j (by omega)
  have f2 := hok (2 ^ k + j) (by omega)
  unfold reimIfftA at f1 f2 ⊢
  rw [joinRI_reN _ _ vo2 j hj] at f1
  rw [joinRI_imN _ _ vo2 j hj] at f2
  rw [joinRI_reN _ _ vo1 j hj, joinRI_imN _ _ vo1 j hj]
  have e1 := st1 j hj
  have e2 := st2 j hj
  rw [← e1] at r1
  rw [← e2] at r1 r2
  obtain ⟨a1, a2⟩ := r1
  obtain ⟨b1, b2⟩ := r2
  obtain ⟨c1, c2⟩ := r3
  obtain ⟨g1, g2⟩ := b1 f1
  obtain ⟨g3, g4⟩ := b2 f2
  simp only [prs] at a1 a2 g1 g2 g3 g4
  rw [a1] at g1 g2
  rw [a2] at g3 g4
  refine ⟨g1, g3, ?_, ?_⟩
  · rw [g2]; exact c1.symm
  · rw [g4]; exact c2.symm

end Spq.FftErr
