/-
  Cell-by-cell characterisation of the building blocks of the arithmetic kernels, for an arbitrary
  arithmetic `ar` (no algebra yet): `reim4_zero`, `reim4_add_mul`, the block-wise scalar loop.
-/
import SpqProofs.Lemmas.Reim4Base
namespace Spq.Reim4
variable {α : Type}

theorem zeroAt_eq (ar : RArith α) (dst : Array α) (d : Nat) :
    zeroAt ar dst d = V4.store (V4.store dst d (V4.splat ar.zero)) (d + 4) (V4.splat ar.zero) := by
  rfl

theorem zeroAt_spec (ar : RArith α) (dst : Array α) (d : Nat) (hb : d + 8 ≤ dst.size) :
    (zeroAt ar dst d).size = dst.size ∧
    (∀ k, k < 8 → (zeroAt ar dst d).getD (d + k) ar.zero = ar.zero) ∧
    (∀ x, x < d ∨ d + 8 ≤ x → (zeroAt ar dst d).getD x ar.zero = dst.getD x ar.zero) := by
  rw [zeroAt_eq]
  refine ⟨by simp, ?_, ?_⟩
  · intro k hk
    by_cases h4 : k < 4
    · rw [V4.getD_store_out _ _ _ _ _ (by omega), V4.getD_store_in _ _ _ _ _ h4 (by omega), V4.lane_splat]
    · have e : d + k = d + 4 + (k - 4) := by omega
      rw [e, V4.getD_store_in _ _ _ _ _ (by omega) (by rw [V4.size_store]; omega), V4.lane_splat]
  · intro x hx
    rw [V4.getD_store_out _ _ _ _ _ (by omega), V4.getD_store_out _ _ _ _ _ (by omega)]

/-- `reim4_add_mul(dst + d, u + uo, v + vo)` -/
theorem addMulAt_spec (ar : RArith α) (dst : Array α) (d : Nat) (u : Array α) (uo : Nat) (v : Array α) (vo : Nat)
    (hb : d + 8 ≤ dst.size) :
    (addMulAt ar dst d u uo v vo).size = dst.size ∧
    (∀ k, k < 4 →
      (addMulAt ar dst d u uo v vo).getD (d + k) ar.zero =
        ar.add (dst.getD (d + k) ar.zero)
          (reRef ar (u.getD (uo + k) ar.zero) (u.getD (uo + k + 4) ar.zero) (v.getD (vo + k) ar.zero) (v.getD (vo + k + 4) ar.zero)) ∧
      (addMulAt ar dst d u uo v vo).getD (d + k + 4) ar.zero =
        ar.add (dst.getD (d + k + 4) ar.zero)
          (imRef ar (u.getD (uo + k) ar.zero) (u.getD (uo + k + 4) ar.zero) (v.getD (vo + k) ar.zero) (v.getD (vo + k + 4) ar.zero))) ∧
    (∀ x, x < d ∨ d + 8 ≤ x → (addMulAt ar dst d u uo v vo).getD x ar.zero = dst.getD x ar.zero) := by
  unfold addMulAt
  obtain ⟨s1, s2, s3⟩ := lanes_spec ar.zero 4 (fun k => d + k) (fun k => d + k + 4)
    (fun k old => ar.add old (reRef ar (u.getD (uo + k) ar.zero) (u.getD (uo + k + 4) ar.zero) (v.getD (vo + k) ar.zero) (v.getD (vo + k + 4) ar.zero)))
    (fun k old => ar.add old (imRef ar (u.getD (uo + k) ar.zero) (u.getD (uo + k + 4) ar.zero) (v.getD (vo + k) ar.zero) (v.getD (vo + k + 4) ar.zero)))
    dst (by intro k k' _ _ _; omega) (by intro k k' _ _ _; omega) (by intro k k' _ _; omega) (by intro k hk; omega)
  refine ⟨s1, ?_, ?_⟩
  · intro k hk
    exact s2 k hk
  · intro x hx
    apply s3
    intro k hk
    omega

/-- block-wise scalar loop `for j < n: for i < 4: r[8j+i] = P j i r[8j+i]; r[8j+i+4] = Q j i r[8j+i+4]` -/
theorem blocks_lanes_spec (z : α) (n : Nat) (P Q : Nat → Nat → α → α) (r : Array α) (hb : 8 * n ≤ r.size) :
    (Nat.fold n (fun j _ r => lanes z 4 (fun i => 8 * j + i) (fun i => 8 * j + i + 4) (P j) (Q j) r) r).size = r.size ∧
    (∀ j i, j < n → i < 4 →
      (Nat.fold n (fun j _ r => lanes z 4 (fun i => 8 * j + i) (fun i => 8 * j + i + 4) (P j) (Q j) r) r).getD (8 * j + i) z
        = P j i (r.getD (8 * j + i) z) ∧
      (Nat.fold n (fun j _ r => lanes z 4 (fun i => 8 * j + i) (fun i => 8 * j + i + 4) (P j) (Q j) r) r).getD (8 * j + i + 4) z
        = Q j i (r.getD (8 * j + i + 4) z)) ∧
    (∀ x, 8 * n ≤ x →
      (Nat.fold n (fun j _ r => lanes z 4 (fun i => 8 * j + i) (fun i => 8 * j + i + 4) (P j) (Q j) r) r).getD x z = r.getD x z) := by
  have one : ∀ j, j < n → ∀ r' : Array α, r'.size = r.size →
      (lanes z 4 (fun i => 8 * j + i) (fun i => 8 * j + i + 4) (P j) (Q j) r').size = r'.size ∧
      (∀ i, i < 4 →
        (lanes z 4 (fun i => 8 * j + i) (fun i => 8 * j + i + 4) (P j) (Q j) r').getD (8 * j + i) z = P j i (r'.getD (8 * j + i) z) ∧
        (lanes z 4 (fun i => 8 * j + i) (fun i => 8 * j + i + 4) (P j) (Q j) r').getD (8 * j + i + 4) z = Q j i (r'.getD (8 * j + i + 4) z)) ∧
      (∀ x, x < 8 * j ∨ 8 * j + 8 ≤ x →
        (lanes z 4 (fun i => 8 * j + i) (fun i => 8 * j + i + 4) (P j) (Q j) r').getD x z = r'.getD x z) := by
    intro j hj r' hs
    obtain ⟨s1, s2, s3⟩ := lanes_spec z 4 (fun i => 8 * j + i) (fun i => 8 * j + i + 4) (P j) (Q j) r'
      (by intro k k' _ _ _; omega) (by intro k k' _ _ _; omega) (by intro k k' _ _; omega) (by intro k hk; omega)
    refine ⟨s1, fun i hi => s2 i hi, ?_⟩
    intro x hx
    apply s3
    intro k hk
    omega
  have main := fold_disjoint z n
    (fun j r => lanes z 4 (fun i => 8 * j + i) (fun i => 8 * j + i + 4) (P j) (Q j) r)
    (fun j x => 8 * j ≤ x ∧ x < 8 * j + 8)
    (by
      intro j r'
      exact (lanes_size z 4 _ _ _ _ r'))
    r
    (by
      intro j hj r' x hs hx
      exact (one j hj r' hs).2.2 x (by omega))
    (by
      intro j hj r1 r2 hs1 hs2 h x hx
      obtain ⟨_, a1, _⟩ := one j hj r1 hs1
      obtain ⟨_, a2, _⟩ := one j hj r2 hs2
      by_cases h4 : x < 8 * j + 4
      · have e : x = 8 * j + (x - 8 * j) := by omega
        rw [e, (a1 (x - 8 * j) (by omega)).1, (a2 (x - 8 * j) (by omega)).1, ← e, h x hx]
      · have e : x = 8 * j + (x - 8 * j - 4) + 4 := by omega
        rw [e, (a1 (x - 8 * j - 4) (by omega)).2, (a2 (x - 8 * j - 4) (by omega)).2, ← e, h x hx])
    (by intro j j' x _ _ _ hx hx'; omega)
  obtain ⟨ms, mv, mf⟩ := main
  refine ⟨ms, ?_, ?_⟩
  · intro j i hj hi
    obtain ⟨_, a1, _⟩ := one j hj r rfl
    constructor
    · rw [mv j hj (8 * j + i) (by omega)]
      exact (a1 i hi).1
    · rw [mv j hj (8 * j + i + 4) (by omega)]
      exact (a1 i hi).2
  · intro x hx
    apply mf
    intro j hj
    omega

end Spq.Reim4
