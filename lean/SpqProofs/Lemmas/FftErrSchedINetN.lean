/-
  C06.4: the structural inverse network `VNI k (gNet F c s k)` over an ordered field against the exact inverse
  network `WI` (twiddles `ζi^(twE (k-1-n) n b)`), and `WI ∘ V = 2^k · id`.
-/
import SpqProofs.Lemmas.FftErrSchedINet
import SpqProofs.Lemmas.FftErrSchedILevel
import SpqProofs.Lemmas.FftErrSchedNet
set_option linter.unusedSectionVars false
namespace Spq.FftErr
open Finset Spq.Fft Spq.Fft.Alg Spq.Fft.SimP Spq.Fft.LevelN Spq.Fft.SchedN
variable {K : Type} [Field K] [LinearOrder K] [IsStrictOrderedRing K]

/-- every butterfly of an inverse implementation has 2-norm relative error `η` (stored twiddle within `τ`) -/
structure InvErrOK (F : Flav K) (τ η : K) : Prop where
  ct : ∀ wh w : Cplx K, nsq w = 1 → nsq (wh - w) ≤ τ ^ 2 → IBfErrAt (fun a b => bfC F.ct a b wh) w η
  cit : ∀ wh w : Cplx K, nsq w = 1 → nsq (wh - w) ≤ τ ^ 2 → IBfErrAt (fun a b => bfC F.cit a b wh) (-Ic * w) η
  ctS : ∀ wh w : Cplx K, nsq w = 1 → nsq (wh - w) ≤ τ ^ 2 → IBfErrAt (fun a b => bfC F.ctS a b wh) w η
  citS : ∀ wh w : Cplx K, nsq w = 1 → nsq (wh - w) ≤ τ ^ 2 → IBfErrAt (fun a b => bfC F.citS a b wh) (-Ic * w) η
  ct2 : ∀ wh w : Cplx K, nsq w = 1 → nsq (wh - w) ≤ τ ^ 2 → IBfErrAt (fun a b => bfC F.ct2 a b wh) w η

theorem invRef_errOK (A : Arith K) (u τ : K) (sm : FStd A u) (hτ : 0 ≤ τ) : InvErrOK (invRef A) τ (eta u τ) :=
  ⟨fun wh w => ibutterfly_err_ref A u τ sm hτ wh w, fun wh w => ibutterfly_err_cit_ref A u τ sm hτ wh w,
   fun wh w => ibutterfly_err_ref A u τ sm hτ wh w, fun wh w => ibutterfly_err_cit_ref A u τ sm hτ wh w,
   fun wh w => ibutterfly_err_ref A u τ sm hτ wh w⟩

theorem invFma_errOK (A : Arith K) (u τ : K) (sm : FStd A u) (hτ : 0 ≤ τ) : InvErrOK (invFma A) τ (eta u τ) :=
  ⟨fun wh w => ibutterfly_err_fma A u τ sm hτ wh w, fun wh w => ibutterfly_err_cit_fmaB A u τ sm hτ wh w,
   fun wh w => ibutterfly_err_fma A u τ sm hτ wh w, fun wh w => ibutterfly_err_cit_fmaN A u τ sm hτ wh w,
   fun wh w => ibutterfly_err_ref A u τ sm hτ wh w⟩

/-- `WH` with the butterflies `gC` is the structural inverse network `VNI` -/
theorem WH_eq_VNI (F : Flav K) (c s : ℕ → K) (k : ℕ) (y : ℕ → K × K) :
    ∀ n p, WH (fun n b => gC F c s k (k - 1 - n) n b) (fun p => toC (y p)) n p = toC (VNI k (gNet F c s k) y n p) := by
  intro n
  induction n with
  | zero => intro p; rfl
  | succ n ih =>
    intro p
    rw [WH, VNI, LvlH]
    split
    · rw [ih, ih]; rfl
    · rw [ih, ih]; rfl

variable (F : Flav K) (c s : ℕ → K) (k : ℕ) (ζi : Cplx K) (τ η : K)

/-- every block butterfly of the inverse network has relative error `η` around the exact inverse twiddle -/
theorem igC_err (hF : InvErrOK F τ η) (hζ : nsq ζi = 1) (hI : ζi ^ 2 ^ k = -Ic)
    (hcs : ∀ ℓ d b, ℓ + d + 1 = k → b < 2 ^ ℓ →
      nsq ((⟨c (twE ℓ d b), s (twE ℓ d b)⟩ : Cplx K) - ζi ^ twE ℓ d b) ≤ τ ^ 2) (ℓ d b : ℕ) (hk : ℓ + d + 1 = k) (hb : b < 2 ^ ℓ) :
    IBfErrAt (gC F c s k ℓ d b) (ζi ^ twE ℓ d b) η := by
  have hw : ∀ e, nsq (ζi ^ e) = 1 := fun e => by rw [nsq_pow, hζ, one_pow]
  have hct : ∀ wh w : Cplx K, nsq w = 1 → nsq (wh - w) ≤ τ ^ 2 → IBfErrAt (fun a b => bfC (ctK F k) a b wh) w η := by
    unfold ctK; split <;> [exact hF.ct2; (split <;> [exact hF.ctS; exact hF.ct])]
  have hcit : ∀ wh w : Cplx K, nsq w = 1 → nsq (wh - w) ≤ τ ^ 2 →
      IBfErrAt (fun a b => bfC (citK F k) a b wh) (-Ic * w) η := by
    unfold citK; split <;> [exact hF.citS; exact hF.cit]
  by_cases hc : (clv (k - ℓ) && b % 2 == 1) = true
  · have hodd : b % 2 = 1 := by simp at hc; exact hc.2
    obtain ⟨b', rfl⟩ : ∃ b', b = 2 * b' + 1 := ⟨b / 2, by omega⟩
    obtain ⟨ℓ', rfl⟩ : ∃ ℓ', ℓ = ℓ' + 1 := by
      cases ℓ with
      | zero => simp at hb
      | succ n => exact ⟨n, rfl⟩
    have e : gC F c s k (ℓ' + 1) d (2 * b' + 1) = fun x y => bfC (citK F k) x y ⟨c (twE (ℓ' + 1) d (2 * b')), s (twE (ℓ' + 1) d (2 * b'))⟩ := by
      funext x y
      unfold gC gNet
      rw [if_pos hc, show 2 * b' + 1 - 1 = 2 * b' by omega]
      rfl
    rw [e, Tw.twE_odd ζi (-Ic) k ℓ' d b' hI (by omega)]
    exact hcit _ _ (hw _) (hcs (ℓ' + 1) d (2 * b') hk (by omega))
  · have e : gC F c s k ℓ d b = fun x y => bfC (ctK F k) x y ⟨c (twE ℓ d b), s (twE ℓ d b)⟩ := by
      funext x y
      unfold gC gNet
      rw [if_neg hc]
      rfl
    rw [e]
    exact hct _ _ (hw _) (hcs ℓ d b hk hb)

/-- the exact inverse network of size `2^k` for the inverse root `ζi` -/
def WIk (k : ℕ) (ζi : Cplx K) (y : ℕ → Cplx K) : ℕ → ℕ → Cplx K := WI (fun n b => ζi ^ twE (k - 1 - n) n b) y

/-- **inverse network error**: the structural network of one inverse transform against the exact inverse network -/
theorem inetN_err (hF : InvErrOK F τ η) (hη : 0 ≤ η) (hζ : nsq ζi = 1) (hI : ζi ^ 2 ^ k = -Ic)
    (hcs : ∀ ℓ d b, ℓ + d + 1 = k → b < 2 ^ ℓ →
      nsq ((⟨c (twE ℓ d b), s (twE ℓ d b)⟩ : Cplx K) - ζi ^ twE ℓ d b) ≤ τ ^ 2) (y : ℕ → K × K) :
    ∑ p ∈ range (2 ^ k), nsq (toC (VNI k (gNet F c s k) y k p) - WIk k ζi (fun p => toC (y p)) k p) ≤
      ((1 + η) ^ k - 1) ^ 2 * ∑ p ∈ range (2 ^ k), nsq (WIk k ζi (fun p => toC (y p)) k p) := by
  have := inet_err k (fun n b => ζi ^ twE (k - 1 - n) n b) (fun n b => by rw [nsq_pow, hζ, one_pow])
    (fun p => toC (y p)) η hη (fun n b => gC F c s k (k - 1 - n) n b)
    (fun n b h1 h2 => igC_err F c s k ζi τ η hF hζ hI hcs (k - 1 - n) n b (by omega) h2) k (le_refl k)
  simp only [WH_eq_VNI] at this
  exact this

theorem cell_cases (h : ℕ) (hh : 0 < h) (p : ℕ) : ∃ b r, r < h ∧ (p = 2 * h * b + r ∨ p = 2 * h * b + r + h) := by
  have h1 := Nat.div_add_mod p (2 * h)
  have h2 : p % (2 * h) < 2 * h := Nat.mod_lt _ (by omega)
  by_cases hc : p % (2 * h) < h
  · exact ⟨p / (2 * h), p % (2 * h), hc, Or.inl h1.symm⟩
  · exact ⟨p / (2 * h), p % (2 * h) - h, by omega, Or.inr (by omega)⟩

/-- the exact inverse network undoes the exact forward network up to the factor `2^k` -/
theorem WIk_of_evals (ζ : Cplx K) (hinv : ζ * ζi = 1) (a : ℕ → Cplx K) :
    ∀ n, n ≤ k → ∀ p, WIk k ζi (fun p => V ζ a k 0 p) n p = 2 ^ n * V ζ a (k - n) n p := by
  intro n
  induction n with
  | zero => intro _ p; simp [WIk, WI]
  | succ n ih =>
    intro hk p
    have ih' := ih (by omega)
    obtain ⟨ℓ, hℓ⟩ : ∃ ℓ, k - (n + 1) = ℓ := ⟨_, rfl⟩
    have e1 : k - n = ℓ + 1 := by omega
    have e2 : k - 1 - n = ℓ := by omega
    have hW : ∀ b, ζi ^ twE ℓ n b * ζ ^ twE ℓ n b = 1 := fun b => by rw [← mul_pow, mul_comm, hinv, one_pow]
    rw [hℓ]
    unfold WIk at ih' ⊢
    rw [WI]
    simp only [e1, e2] at ih' ⊢
    obtain ⟨b, r, hr, hp | hp⟩ := cell_cases (2 ^ n) (Nat.two_pow_pos n) p
    · obtain ⟨m1, m2⟩ := pos_lo (2 ^ n) b r hr
      obtain ⟨m3, m4⟩ := pos_hi (2 ^ n) b r hr
      rw [hp, ILvl_lo _ _ _ b r hr, ih', ih', V, V, m1, m2, m3, m4, if_pos hr, if_neg (by omega), Nat.add_sub_cancel]
      ring
    · obtain ⟨m1, m2⟩ := pos_lo (2 ^ n) b r hr
      obtain ⟨m3, m4⟩ := pos_hi (2 ^ n) b r hr
      rw [hp, ILvl_hi _ _ _ b r hr, ih', ih', V, V, m1, m2, m3, m4, if_pos hr, if_neg (by omega), Nat.add_sub_cancel]
      linear_combination (2 ^ (n + 1) * V ζ a ℓ (n + 1) (2 * 2 ^ n * b + r + 2 ^ n)) * hW b
end Spq.FftErr
