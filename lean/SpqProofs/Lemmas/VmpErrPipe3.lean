/-
  C02 rounding budget, step 12: the output of `vec_znx_idft` column by column, the numbers (`k ≤ 16`,
  `2n + 2 ≤ 2^26`:  `eB ε μ_n θ ≤ (12(k+1) + 2n + 3)·2^-53`), and the domain of the final conversion when the budget is
  below `1/2`.
-/
import SpqProofs.Lemmas.VmpErrPipe2
import SpqProofs.Lemmas.ProdErrFinal
set_option linter.unusedSectionVars false
namespace Spq.VmpErr
open Finset Spq Spq.Module Spq.Fft Spq.Fft.Alg Spq.FftErr Spq.F64 Spq.Reim4 Spq.ProdErr Spq.C06Err Spq.Conv
variable {K : Type} [Field K] [LinearOrder K] [IsStrictOrderedRing K]

/-- column `j` of `vec_znx_idft (vmp_apply_dft …)`: the conversion of the inverse transform of column `j` of the
    DFT-space result, or zeros beyond the DFT vector -/
theorem idft_col (c : Cfg) (k : ℕ) (cN sN cNi sNi : ℕ → ℕ) (h : VCfgOk c k cN sN cNi sNi)
    (mat : Array Int) (nrows ncols : ℕ) (a : Array Int) (asz asl rsz rsz2 j : ℕ) (hj2 : j < rsz2) :
    dlimb (vecIdft (Cfg.parts c) rsz2 (vmpRes c mat nrows ncols a asz asl rsz) rsz) j (2 * 2 ^ k) =
      if j < rsz then (Cfg.parts c).toZnx (colInv c k cNi sNi mat nrows ncols a asz asl rsz j)
      else Array.replicate (2 * 2 ^ k) 0 := by
  have hnn : (Cfg.parts c).nn = 2 * 2 ^ k := h.cfg.nn
  obtain ⟨_, b2⟩ := vecIdft_spec (Cfg.parts c) rsz2 (vmpRes c mat nrows ncols a asz asl rsz) rsz _ (fun i _ => rfl)
    (by
      intro i _
      split
      · rw [hnn]; exact toZnx_size c k h.cfg.nn h.cfg.toVar _
      · simp)
  have b := b2 j hj2
  rw [hnn] at b
  rw [b]
  split
  · rw [parts_ifft c k cN sN cNi sNi h.cfg]; rfl
  · rfl

/-- the domain side condition of the final conversion of column `j`: `|(spec_j)_t| + budget < B_v` -/
def VOutDom (K : Type) [Field K] [LinearOrder K] (c : Cfg) (k : ℕ) (mat : Array Int) (nrows ncols : ℕ) (a : Array Int)
    (asz asl j : ℕ) (na nb : ℕ → K) : Prop :=
  ∀ t, t < 2 * 2 ^ k → |(((colSpec k mat nrows ncols a asz asl j).getD t 0 : Int) : K)| +
    vbudget K k mat nrows ncols a asz asl j na nb < ((Bv c.toVariant : ℚ) : K)

theorem col_out (c : Cfg) (k : ℕ) (hk : k ≤ 961) (cN sN cNi sNi : ℕ → ℕ) (h : VCfgOk c k cN sN cNi sNi)
    (ζ ζi : Cplx K) (hζ : nsq ζ = 1) (hI : ζ ^ 2 ^ k = Ic) (hinv : ζ * ζi = 1)
    (hcs : ∀ ℓ d b, ℓ + d + 1 = k → b < 2 ^ ℓ →
      nsq (toC (((val (cN (twE ℓ d b)) : ℚ) : K), ((val (sN (twE ℓ d b)) : ℚ) : K)) - ζ ^ twE ℓ d b) ≤
        (((7 / 2 * u64 : ℚ)) : K) ^ 2)
    (hcsi : ∀ ℓ d b, ℓ + d + 1 = k → b < 2 ^ ℓ →
      nsq (toC (((val (cNi (twE ℓ d b)) : ℚ) : K), ((val (sNi (twE ℓ d b)) : ℚ) : K)) - ζi ^ twE ℓ d b) ≤
        (((7 / 2 * u64 : ℚ)) : K) ^ 2)
    (mat : Array Int) (nrows ncols : ℕ) (a : Array Int) (asz asl rsz rsz2 : ℕ)
    (hA : ∀ i, i < min nrows asz → Box k (limbOf a i asl (2 * 2 ^ k)))
    (hM : ∀ i j, i < nrows → j < ncols → Box k (matEntry mat ncols (2 * 2 ^ k) i j))
    (j : ℕ) (hj : j < min ncols rsz) (hj2 : j < rsz2) (hpos : k < 2 → 0 < min nrows asz)
    (hok : VmpOk c k cN sN cNi sNi mat nrows ncols a asz asl rsz j)
    (na nb : ℕ → K) (hna0 : ∀ i, i < min nrows asz → 0 ≤ na i) (hnb0 : ∀ i, i < min nrows asz → 0 ≤ nb i)
    (hna : ∀ i, i < min nrows asz → n2sq K (limbOf a i asl (2 * 2 ^ k)) (2 * 2 ^ k) ≤ na i ^ 2)
    (hnb : ∀ i, i < min nrows asz → n2sq K (matEntry mat ncols (2 * 2 ^ k) i j) (2 * 2 ^ k) ≤ nb i ^ 2)
    (hnl : ∀ i, i < min nrows asz → nb i ≤ n1 K (matEntry mat ncols (2 * 2 ^ k) i j) (2 * 2 ^ k))
    (hdom : VOutDom K c k mat nrows ncols a asz asl j na nb) :
    ∀ t, t < 2 * 2 ^ k → ∃ r : ℤ,
      (dlimb (vecIdft (Cfg.parts c) rsz2 (vmpRes c mat nrows ncols a asz asl rsz) rsz) j (2 * 2 ^ k))[t]? = some r ∧
      |(r : K) - (((colSpec k mat nrows ncols a asz asl j).getD t 0 : Int) : K)| ≤
        vbudget K k mat nrows ncols a asz asl j na nb + 1 / 2 := by
  obtain ⟨hfin, herr, _⟩ := col_inv_stage c k cN sN cNi sNi h ζ ζi hζ hI hinv hcs hcsi mat nrows ncols a asz asl rsz hA hM
    j hj hpos hok na nb hna0 hnb0 hna hnb hnl
  have hjr : j < rsz := lt_of_lt_of_le hj (Nat.min_le_right _ _)
  intro i hi
  rw [idft_col c k cN sN cNi sNi h mat nrows ncols a asz asl rsz rsz2 j hj2, if_pos hjr]
  have hP : (0 : K) < 2 ^ k := by positivity
  have he := herr i hi
  have hf := hfin i hi
  rw [getElem!_nat] at he hf
  obtain ⟨x, hx⟩ : ∃ x, x = (colInv c k cNi sNi mat nrows ncols a asz asl rsz j).getD i 0 := ⟨_, rfl⟩
  obtain ⟨ci, hci⟩ : ∃ ci : K, ci = (((colSpec k mat nrows ncols a asz asl j).getD i 0 : Int) : K) := ⟨_, rfl⟩
  have hd := hdom i hi
  rw [← hx] at he hf
  rw [← hci] at he hd ⊢
  obtain ⟨B, hB⟩ : ∃ B, B = vbudget K k mat nrows ncols a asz asl j na nb := ⟨_, rfl⟩
  rw [← hB] at he hd ⊢
  have hdomQ : |val x| < Bv c.toVariant * 2 ^ k := by
    have h1 : |((val x : ℚ) : K)| ≤ 2 ^ k * |ci| + B * 2 ^ k := by
      have : ((val x : ℚ) : K) = (((val x : ℚ) : K) - 2 ^ k * ci) + 2 ^ k * ci := by ring
      rw [this]
      refine le_trans (abs_add_le _ _) ?_
      rw [abs_mul, abs_of_pos hP]
      linarith
    have h2 : |((val x : ℚ) : K)| < ((Bv c.toVariant : ℚ) : K) * 2 ^ k := by
      have := mul_lt_mul_of_pos_right hd hP
      nlinarith
    have h3 : ((|val x| : ℚ) : K) < ((Bv c.toVariant * 2 ^ k : ℚ) : K) := by
      push_cast; exact h2
    exact (Rat.cast_lt (K := K)).1 h3
  obtain ⟨r, hr1, hr2⟩ := toZnx_spec c k hk h.cfg.nn h.cfg.toVar (colInv c k cNi sNi mat nrows ncols a asz asl rsz j) i hi
    (by rw [← hx]; exact hf.1) (by rw [← hx]; exact hdomQ)
  rw [← hx] at hr2
  refine ⟨r, hr1, ?_⟩
  have hr3 : |(r : K) * 2 ^ k - ((val x : ℚ) : K)| ≤ 2 ^ k / 2 := by
    have := (Rat.cast_le (K := K)).2 hr2
    push_cast at this
    exact this
  have h4 : |(r : K) - ci| * 2 ^ k ≤ (B + 1 / 2) * 2 ^ k := by
    have e : ((r : K) - ci) * 2 ^ k = ((r : K) * 2 ^ k - ((val x : ℚ) : K)) + (((val x : ℚ) : K) - 2 ^ k * ci) := by ring
    rw [← abs_of_pos hP, ← abs_mul, e, abs_of_pos hP]
    refine le_trans (abs_add_le _ _) ?_
    linarith
  exact le_of_mul_le_mul_right h4 hP

/-! ### the numbers -/

/-- `eB` is affine in `μ` -/
theorem eB_affine (ε μ μ0 θ : K) : eB ε μ θ = eB ε μ0 θ + (1 + ε) * (1 / 2 + dB ε θ) * (μ - μ0) := by
  unfold eB fB; ring

theorem slope16 (k : ℕ) (hk : k ≤ 16) :
    (1 + ((1 + 8 * u64) ^ k - 1)) * (1 / 2 + dB ((1 + 8 * u64) ^ k - 1) (((1 + 8 * u64) ^ k - 1) * 2 ^ k)) ≤ 2 / 3 := by
  unfold dB u64
  have h : (2 : ℚ) ^ (-53 : ℤ) = 1 / 9007199254740992 := by norm_num
  rw [h]
  interval_cases k <;> norm_num

/-- the relative budget of a column, `k ≤ 16`, `2n + 2 ≤ 2^26`: `12·log2(N)·u` (three transforms + one product, as
    C01Err) `+ (2n + 3)·u` (accumulation over the `n` rows) -/
theorem vbudget16 (k n : ℕ) (hk : k ≤ 16) (hn : 2 * n + 2 ≤ 67108864) :
    eB ((1 + 8 * u64) ^ k - 1) (muD n) (((1 + 8 * u64) ^ k - 1) * 2 ^ k) ≤ (12 * (k + 1 : ℚ) + 2 * n + 3) * u64 := by
  rw [eB_affine _ (muD n) mu64]
  have h1 := budget16 k hk
  have h2 := slope16 k hk
  have h3 := gamD_le_lin n hn
  have h4 : muD n - mu64 ≤ muD n := by have := mu64_nonneg; linarith
  have h5 : 0 ≤ muD n := muD_nonneg n
  have h6 : (0 : ℚ) ≤ (1 + ((1 + 8 * u64) ^ k - 1)) * (1 / 2 + dB ((1 + 8 * u64) ^ k - 1) (((1 + 8 * u64) ^ k - 1) * 2 ^ k)) := by
    have e0 : (0 : ℚ) ≤ (1 + 8 * u64) ^ k - 1 := by
      have : (1 : ℚ) ≤ (1 + 8 * u64) ^ k := one_le_pow₀ (by have := u64_pos; linarith)
      linarith
    have := dB_nonneg e0 (mul_nonneg e0 (by positivity : (0 : ℚ) ≤ 2 ^ k))
    positivity
  have h7 : (1 + ((1 + 8 * u64) ^ k - 1)) * (1 / 2 + dB ((1 + 8 * u64) ^ k - 1) (((1 + 8 * u64) ^ k - 1) * 2 ^ k)) *
      (muD n - mu64) ≤ 2 / 3 * muD n := by
    calc _ ≤ (1 + ((1 + 8 * u64) ^ k - 1)) * (1 / 2 + dB ((1 + 8 * u64) ^ k - 1) (((1 + 8 * u64) ^ k - 1) * 2 ^ k)) * muD n :=
          mul_le_mul_of_nonneg_left h4 h6
      _ ≤ 2 / 3 * muD n := mul_le_mul_of_nonneg_right h2 h5
  have h8 : 2 / 3 * muD n = gamD n := by unfold muD; ring
  linarith

/-- the property's form of the error term of column `j`, with the proved constants -/
def Esum (K : Type) [Field K] [LinearOrder K] (k : ℕ) (mat : Array Int) (nrows ncols : ℕ) (a : Array Int)
    (asz asl j : ℕ) (na nb : ℕ → K) : K :=
  (((12 * (k + 1 : ℚ) + 2 * (min nrows asz : ℕ) + 3) * u64 : ℚ) : K) * sumS K k mat nrows ncols a asz asl j na nb

theorem vbudget_le (k : ℕ) (hk : k ≤ 16) (mat : Array Int) (nrows ncols : ℕ) (a : Array Int) (asz asl j : ℕ)
    (hn : 2 * min nrows asz + 2 ≤ 67108864) (na nb : ℕ → K)
    (hna0 : ∀ i, i < min nrows asz → 0 ≤ na i) (hnb0 : ∀ i, i < min nrows asz → 0 ≤ nb i) :
    vbudget K k mat nrows ncols a asz asl j na nb ≤ Esum K k mat nrows ncols a asz asl j na nb := by
  unfold vbudget Esum
  refine mul_le_mul_of_nonneg_right ?_ (sumS_nonneg k mat nrows ncols a asz asl j na nb hna0 hnb0)
  have := (Rat.cast_le (K := K)).2 (vbudget16 k (min nrows asz) hk hn)
  rw [eB_cast] at this
  rw [eps_cast]
  refine le_trans (le_of_eq ?_) this
  push_cast; ring

/-- when `Esum < 1/2` the exact coefficients are far inside the domain of every conversion kernel -/
theorem voutDom_of_small (c : Cfg) (k : ℕ) (hk : k ≤ 16) (mat : Array Int) (nrows ncols : ℕ) (a : Array Int)
    (asz asl j : ℕ) (hn : 2 * min nrows asz + 2 ≤ 67108864) (na nb : ℕ → K)
    (hna0 : ∀ i, i < min nrows asz → 0 ≤ na i) (hnb0 : ∀ i, i < min nrows asz → 0 ≤ nb i)
    (hcb : ∀ t, t < 2 * 2 ^ k → |(((colSpec k mat nrows ncols a asz asl j).getD t 0 : Int) : K)| ≤
      sumS K k mat nrows ncols a asz asl j na nb / 2)
    (hE : Esum K k mat nrows ncols a asz asl j na nb < 1 / 2) : VOutDom K c k mat nrows ncols a asz asl j na nb := by
  intro t ht
  have hS0 := sumS_nonneg k mat nrows ncols a asz asl j na nb hna0 hnb0
  have hb := vbudget_le (K := K) k hk mat nrows ncols a asz asl j hn na nb hna0 hnb0
  have hc := hcb t ht
  unfold Esum at hE hb
  obtain ⟨S, hS⟩ : ∃ S, S = sumS K k mat nrows ncols a asz asl j na nb := ⟨_, rfl⟩
  rw [← hS] at hE hb hc hS0
  have h12 : ((12 * u64 : ℚ) : K) ≤ (((12 * (k + 1 : ℚ) + 2 * (min nrows asz : ℕ) + 3) * u64 : ℚ) : K) := by
    apply (Rat.cast_le (K := K)).2
    have hu : (0 : ℚ) ≤ u64 := le_of_lt u64_pos
    have hk0 : (0 : ℚ) ≤ (k : ℚ) := by positivity
    have hn0 : (0 : ℚ) ≤ ((min nrows asz : ℕ) : ℚ) := by positivity
    nlinarith
  have h1 : ((12 * u64 : ℚ) : K) * S < 1 / 2 := lt_of_le_of_lt (mul_le_mul_of_nonneg_right h12 hS0) hE
  have hu : ((12 * u64 : ℚ) : K) = 12 / 9007199254740992 := by
    have : (12 * u64 : ℚ) = 12 / 9007199254740992 := by unfold u64; norm_num
    rw [this]; push_cast; rfl
  rw [hu] at h1
  have hBv : ((1125899906842624 : ℚ) : K) ≤ ((Bv c.toVariant : ℚ) : K) := (Rat.cast_le (K := K)).2 (Bv_ge _)
  have hBv' : (1125899906842624 : K) ≤ ((Bv c.toVariant : ℚ) : K) := by
    refine le_trans (le_of_eq ?_) hBv; push_cast; rfl
  have hSlt : S < 9007199254740992 / 24 := by
    rw [div_mul_eq_mul_div, div_lt_iff₀ (by norm_num)] at h1
    linarith
  linarith

end Spq.VmpErr
